#!/bin/bash
# usage: goal.sh FILE LINE  -- show the proof state after line LINE of FILE
f=$1; n=$2
d=$(mktemp -d /var/tmp/goal.XXXX)
b=$(basename $f .v)
head -n $n $f > $d/$b.v
echo "Show." >> $d/$b.v
cd /verif/coq && timeout 120 coqc -Q theories HV -Q gen HVgen $d/$b.v 2>&1 | head -${3:-60}
rm -rf $d
