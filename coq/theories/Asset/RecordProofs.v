(* C20 (B) - typed record round-trip: lemmas about Asset/Record.v *)
From Coq Require Import NArith ZArith List Bool Lia ZifyBool ZifyN.
From HV Require Import Asset.Schema Asset.SchemaProofs Asset.Digits Asset.Record.
Import ListNotations.
Local Open Scope N_scope.

(* ================= primitive kinds ================= *)

Lemma mstr_roundtrip' s : mstr_ok s = true -> mstr_deserialize (mstr_serialize s) = s.
Proof.
  intros H. apply mstr_roundtrip. unfold mstr_ok in H.
  apply andb_prop in H as [H _]. apply andb_prop in H as [_ H]. now apply negb_true_iff.
Qed.

Lemma mstr_deserialize_nopipe x : existsb (N.eqb PIPE) x = false -> mstr_deserialize x = x.
Proof.
  induction x as [|c x IH]; intros H; [reflexivity|]. cbn [existsb] in H.
  apply orb_false_iff in H as [Hc Hx]. cbn [mstr_deserialize]. rewrite N.eqb_sym, Hc. now rewrite IH.
Qed.

Lemma ser_ok k v : dom_prim k v = true -> val_ok (ser k v) = true.
Proof.
  destruct k, v; cbn [dom_prim ser]; try discriminate; intros H.
  - exact H.
  - now apply mstr_val_ok.
  - apply int_text_ok.
  - apply int_text_ok.
  - apply hex8_text_ok.
  - apply hex8_text_ok.
  - apply uuid_text_ok.
  - destruct (assoc_z to_tbl z); [|discriminate]. now apply andb_prop in H as [H _].
  - apply andb_prop in H as [H _]. now apply andb_prop in H as [H _].
Qed.

Lemma deser_ser k v : dom_prim k v = true -> deser k (Some (ser k v)) = Some (Some v).
Proof.
  destruct k, v; cbn [dom_prim ser deser]; try discriminate; intros H.
  - reflexivity.
  - now rewrite mstr_roundtrip'.
  - now rewrite int_roundtrip.
  - now rewrite int_roundtrip.
  - now rewrite hex8_roundtrip.
  - now rewrite hex8_roundtrip.
  - unfold uuid_ok in H. rewrite uuid_roundtrip by lia. reflexivity.
  - destruct (assoc_z to_tbl z) as [s|]; [|discriminate]. apply andb_prop in H as [_ H].
    destruct (assoc_s from_tbl s) as [e'|]; [|discriminate]. cbn [option_map]. apply Z.eqb_eq in H. now subst.
  - apply andb_prop in H as [H Hu]. apply andb_prop in H as [_ Hp]. apply negb_true_iff in Hp, Hu.
    rewrite mstr_deserialize_nopipe by exact Hp. now rewrite Hu.
Qed.

Lemma pval_eqb_eq a b : pval_eqb a b = true -> a = b.
Proof.
  destruct a, b; cbn; try discriminate; intros H.
  - apply str_eqb_eq in H. now subst.
  - apply Z.eqb_eq in H. now subst.
  - apply N.eqb_eq in H. now subst.
Qed.

Lemma opval_eqb_eq a b : opval_eqb a b = true -> a = b.
Proof. destruct a, b; cbn; try discriminate; intros H; [apply pval_eqb_eq in H; now subst | reflexivity]. Qed.

(* ================= dictionaries ================= *)

Lemma str_eqb_refl a : str_eqb a a = true.
Proof. now apply str_eqb_eq. Qed.

Lemma str_eqb_neq a b : a <> b -> str_eqb a b = false.
Proof. intros H. destruct (str_eqb a b) eqn:E; [apply str_eqb_eq in E; congruence | reflexivity]. Qed.

Lemma nodup_str_spec l : nodup_str l = true -> NoDup l.
Proof.
  induction l as [|x l IH]; intros H; [constructor|]. cbn in H. apply andb_prop in H as [Hx Hl].
  constructor; [|auto]. intros Hin. apply negb_true_iff in Hx.
  assert (existsb (str_eqb x) l = true) by (apply existsb_exists; exists x; split; [auto | apply str_eqb_refl]).
  congruence.
Qed.

Section Dict.
  Context {F V : Type} (name : F -> str) (dflt : F -> option (option V)).
  (* entry f ov = Some x: the writer emits the field and the reader stores x;  None: nothing is written *)
  Context (entry : F -> option V -> option (option V)).

  Fixpoint ents (fs : list F) (vs : list (option V)) (d : list (str * option V)) : list (str * option V) :=
    match fs, vs with
    | f :: fs', v :: vs' => ents fs' vs' (match entry f v with Some x => (name f, x) :: d | None => d end)
    | _, _ => d
    end.

  Fixpoint val_of (fs : list F) (vs : list (option V)) (n : str) : option (option V) :=
    match fs, vs with
    | f :: fs', v :: vs' =>
      match val_of fs' vs' n with
      | Some x => Some x
      | None => if str_eqb (name f) n then entry f v else None
      end
    | _, _ => None
    end.

  Lemma assoc_ents fs : forall vs d n,
    assoc_s (ents fs vs d) n = match val_of fs vs n with Some x => Some x | None => assoc_s d n end.
  Proof.
    induction fs as [|f fs IH]; intros [|v vs] d n; try reflexivity.
    cbn [ents val_of]. rewrite IH. destruct (val_of fs vs n); [reflexivity|].
    destruct (entry f v) as [x|]; cbn [assoc_s].
    - destruct (str_eqb (name f) n); reflexivity.
    - destruct (str_eqb (name f) n); reflexivity.
  Qed.

  Lemma val_of_notin fs : forall vs n, ~ In n (map name fs) -> val_of fs vs n = None.
  Proof.
    induction fs as [|f fs IH]; intros [|v vs] n H; try reflexivity. cbn [val_of].
    rewrite IH by (intros Hin; apply H; now right).
    rewrite str_eqb_neq; [reflexivity|]. intros E. apply H. now left.
  Qed.

  (* ok f ov: reading back what was written (or the default when nothing is written) gives ov *)
  Definition ok (f : F) (ov : option V) : Prop :=
    match entry f ov with Some x => x = ov | None => dflt f = Some ov end.

  Lemma build_from_val_of fs : forall vs D, NoDup (map name fs) -> Forall2 ok fs vs ->
    (forall n, In n (map name fs) -> assoc_s D n = val_of fs vs n) -> build_gen name dflt fs D = Some vs.
  Proof.
    induction fs as [|f fs IH]; intros vs D Hnd Hok HD; inversion Hok as [|? v ? vs' Hf Hrest]; subst; [reflexivity|].
    inversion Hnd as [|? ? Hnotin Hnd']; subst. cbn [build_gen].
    rewrite (HD (name f)) by now left. cbn [val_of]. rewrite (val_of_notin fs vs' (name f) Hnotin), str_eqb_refl.
    rewrite (IH vs' D Hnd' Hrest).
    - unfold ok in Hf. destruct (entry f v) as [x|]; [now subst | now rewrite Hf].
    - intros n Hn. rewrite (HD n) by now right. cbn [val_of].
      destruct (val_of fs vs' n); [reflexivity|].
      rewrite str_eqb_neq; [reflexivity|]. intros E. subst. contradiction.
  Qed.

  Lemma build_ents fs vs : NoDup (map name fs) -> Forall2 ok fs vs ->
    build_gen name dflt fs (ents fs vs []) = Some vs.
  Proof.
    intros Hnd Hok. apply build_from_val_of; auto. intros n _. rewrite assoc_ents.
    destruct (val_of fs vs n); reflexivity.
  Qed.
End Dict.

(* ================= one line at a time ================= *)

Definition on_key (S : schema) (st : rstate) (k : str) (v : option str) (rest : list str) : option (odict * list str) :=
  match st with
  | Outer d =>
    match find_field S k with
    | None => run S st rest
    | Some f =>
      match f_spec f with
      | FP kd => match deser kd v with
                 | Some pv => run S (Outer ((k, option_map P pv) :: d)) rest
                 | None => None
                 end
      | FB _ sub => run S (Inner d k sub []) rest
      end
    end
  | Inner d fname sub di =>
    match find_pfield sub k with
    | None => run S st rest
    | Some f => match deser (pf_kind f) v with
                | Some pv => run S (Inner d fname sub ((k, pv) :: di)) rest
                | None => None
                end
    end
  end.

Lemma run_token S st l rest c s k v : strip l = c :: s -> parse_stripped (c :: s) = Some (k, v) ->
  str_eqb k [LBRACE] = false -> str_eqb k [RBRACE] = false ->
  run S st (l :: rest) = on_key S st k v rest.
Proof.
  intros Hs Hp Hl Hr. cbn [run]. rewrite Hs, Hp, Hl, Hr. destruct st; reflexivity.
Qed.

Lemma name_ok_inv n : name_ok n = true -> key_ok n = true /\ str_eqb n [PIPE] = false.
Proof. unfold name_ok. intros H. apply andb_prop in H as [H1 H2]. split; [exact H1 | now apply negb_true_iff]. Qed.

Lemma run_field_line S st n t rest : key_ok n = true -> val_ok t = true ->
  run S st (render_field (n, t) :: rest) = on_key S st n (Some t) rest.
Proof.
  intros Hk Hv. pose proof (key_ok_inv n Hk) as ((c & r & En & _) & _ & Hl & Hr).
  pose proof (strip_render_field n t Hk Hv) as Hs.
  destruct (n ++ TAB :: t) as [|x xs] eqn:E; [subst n; discriminate|].
  eapply run_token; eauto. rewrite <- E. now apply parse_field.
Qed.

Lemma run_open S st rest : run S st ([TAB; LBRACE] :: rest) = run S st rest.
Proof.
  cbn [run]. rewrite (strip_brace LBRACE nonspace_lbrace), (parse_single LBRACE nonspace_lbrace).
  reflexivity.
Qed.

Lemma run_close_outer S d rest : run S (Outer d) ([TAB; RBRACE] :: rest) = Some (d, rest).
Proof.
  cbn [run]. rewrite (strip_brace RBRACE nonspace_rbrace), (parse_single RBRACE nonspace_rbrace). reflexivity.
Qed.

Lemma run_close_inner S d fname sub di rest :
  run S (Inner d fname sub di) ([TAB; RBRACE] :: rest) =
  match build_p sub di with Some rec => run S (Outer ((fname, Some (R rec)) :: d)) rest | None => None end.
Proof.
  cbn [run]. rewrite (strip_brace RBRACE nonspace_rbrace), (parse_single RBRACE nonspace_rbrace). reflexivity.
Qed.

(* the "|" line closing an embedded LLSD value is an unknown key *)
Lemma run_pipe S st rest :
  (match st with Outer _ => find_field S [PIPE] = None | Inner _ _ sub _ => find_pfield sub [PIPE] = None end) ->
  run S st ([PIPE] :: rest) = run S st rest.
Proof.
  intros H. assert (Hs : strip [PIPE] = [PIPE]) by reflexivity.
  pose proof (run_token S st [PIPE] rest PIPE [] [PIPE] None Hs eq_refl eq_refl eq_refl) as E.
  eapply eq_trans; [exact E|]. unfold on_key. destruct st; now rewrite H.
Qed.

(* header of a nested block: "\t<name> 0" or "\t<name>\t0" *)
Lemma run_header_line S st n sep rest : key_ok n = true -> is_space sep = true -> bad_val ZERO = false ->
  run S st ((TAB :: n ++ [sep; ZERO]) :: rest) = on_key S st n (Some [ZERO]) rest.
Proof.
  intros Hk Hsep _. pose proof (key_ok_inv n Hk) as ((c & r & En & Hc) & Hall & Hl & Hr).
  assert (Hs : strip (TAB :: n ++ [sep; ZERO]) = n ++ [sep; ZERO]).
  { unfold strip. cbn [lstrip]. rewrite is_space_tab. subst n. cbn [app lstrip]. rewrite Hc.
    apply (rstrip_id _ ZERO (sep :: rev (c :: r))); [|reflexivity].
    change (c :: r ++ [sep; ZERO]) with ((c :: r) ++ [sep; ZERO]). rewrite rev_app_distr. reflexivity. }
  assert (Hp : parse_stripped (n ++ [sep; ZERO]) = Some (n, Some [ZERO])).
  { unfold parse_stripped. rewrite (span_nonspace_key n sep [ZERO] Hall Hsep). subst n.
    cbn [lstrip]. rewrite Hsep. reflexivity. }
  destruct (n ++ [sep; ZERO]) as [|x xs] eqn:E; [subst n; discriminate|].
  eapply run_token; eauto.
Qed.

(* ================= nested block ================= *)

Definition entry_p (f : pfield) (ov : option pval) : option (option pval) :=
  if pf_llsdonly f then None
  else match ov with
       | None => if pf_inone f then match pf_kind f with KLLSD _ => Some None | _ => None end else None
       | Some v => Some (Some v)
       end.

Lemma find_pfield_name sub n f : find_pfield sub n = Some f -> pf_name f = n.
Proof.
  induction sub as [|g sub IH]; [discriminate|]. cbn. destruct (str_eqb (pf_name g) n) eqn:E.
  - intros H; injection H as <-. now apply str_eqb_eq.
  - exact IH.
Qed.

Lemma inner_fields S d fname sub : find_pfield sub [PIPE] = None ->
  forall fs vs di tail,
  Forall (fun f => find_pfield sub (pf_name f) = Some f /\ wf_pfield f = true) fs ->
  dom_pfields fs vs = true ->
  run S (Inner d fname sub di) (render_pfields fs vs ++ tail)
  = run S (Inner d fname sub (ents pf_name entry_p fs vs di)) tail.
Proof.
  intros Hpipe. induction fs as [|f fs IH]; intros vs di tail Hfs Hdom.
  - destruct vs; reflexivity.
  - destruct vs as [|ov vs]; [discriminate|]. cbn [dom_pfields] in Hdom. apply andb_prop in Hdom as [Hd Hdom].
    inversion Hfs as [|? ? [Hfind Hwf] Hfs']; subst.
    cbn [render_pfields ents]. rewrite <- app_assoc.
    unfold wf_pfield in Hwf. apply andb_prop in Hwf as [Hwf Hu]. apply andb_prop in Hwf as [Hn Hin].
    apply name_ok_inv in Hn as [Hk _].
    unfold render_pfield, entry_p, dom_pfield in *. destruct (pf_llsdonly f) eqn:Ell.
    + cbn [app]. now apply IH.
    + destruct ov as [v|].
      * pose proof (ser_ok _ _ Hd) as Hok. pose proof (deser_ser _ _ Hd) as Hds.
        unfold field_lines. destruct (is_llsd (pf_kind f)) eqn:El; cbn [app].
        -- rewrite run_field_line by assumption. unfold on_key. rewrite Hfind, Hds.
           rewrite run_pipe by exact Hpipe. now apply IH.
        -- rewrite run_field_line by assumption. unfold on_key. rewrite Hfind, Hds. now apply IH.
      * destruct (pf_inone f) eqn:Ein; [|cbn [app]; now apply IH].
        destruct (pf_kind f) as [| | | | | | | |undef] eqn:Ek; try (cbn [app]; now apply IH).
        apply andb_prop in Hu as [Huok Hup]. apply negb_true_iff in Hup.
        unfold field_lines. cbn [is_llsd app].
        rewrite run_field_line by assumption. unfold on_key. rewrite Hfind, Ek. cbn [deser].
        rewrite mstr_deserialize_nopipe by exact Hup. rewrite str_eqb_refl.
        rewrite run_pipe by exact Hpipe. now apply IH.
Qed.

Lemma dom_pfields_ok fs : forall vs, dom_pfields fs vs = true -> Forall2 (ok pf_default entry_p) fs vs.
Proof.
  induction fs as [|f fs IH]; intros [|v vs] H; try discriminate; [constructor|].
  cbn [dom_pfields] in H. apply andb_prop in H as [Hf H]. constructor; [|now apply IH].
  unfold ok, entry_p, dom_pfield in *. destruct (pf_llsdonly f).
  - destruct (pf_default f) as [dv|]; [|discriminate]. apply opval_eqb_eq in Hf. now subst.
  - destruct v as [v|]; [reflexivity|].
    destruct (pf_default f) as [[?|]|]; try discriminate.
    destruct (pf_inone f); [|reflexivity]. destruct (pf_kind f); reflexivity.
Qed.

Lemma find_pfield_self sub : NoDup (map pf_name sub) ->
  Forall (fun f => find_pfield sub (pf_name f) = Some f) sub.
Proof.
  induction sub as [|g sub IH]; intros Hnd; [constructor|]. inversion Hnd as [|? ? Hnotin Hnd']; subst.
  constructor.
  - cbn. now rewrite str_eqb_refl.
  - specialize (IH Hnd'). rewrite Forall_forall in *. intros f Hf. cbn.
    rewrite str_eqb_neq; [now apply IH|]. intros E. apply Hnotin. rewrite E. now apply in_map.
Qed.

Lemma find_pfield_none sub n : ~ In n (map pf_name sub) -> find_pfield sub n = None.
Proof.
  induction sub as [|g sub IH]; intros H; [reflexivity|]. cbn.
  rewrite str_eqb_neq by (intros E; apply H; now left). apply IH. intros Hin. apply H. now right.
Qed.

Lemma wf_pfields_inv sub : wf_pfields sub = true ->
  NoDup (map pf_name sub) /\ find_pfield sub [PIPE] = None /\
  Forall (fun f => find_pfield sub (pf_name f) = Some f /\ wf_pfield f = true) sub.
Proof.
  unfold wf_pfields. intros H. apply andb_prop in H as [Hall Hnd]. apply nodup_str_spec in Hnd.
  split; [exact Hnd|]. split.
  - apply find_pfield_none. intros Hin. apply in_map_iff in Hin as [f [En Hf]].
    rewrite forallb_forall in Hall. specialize (Hall _ Hf). unfold wf_pfield in Hall.
    apply andb_prop in Hall as [Hall _]. apply andb_prop in Hall as [Hall _].
    apply name_ok_inv in Hall as [_ Hp]. rewrite En, str_eqb_refl in Hp. discriminate.
  - pose proof (find_pfield_self sub Hnd) as Hs. rewrite Forall_forall in *. intros f Hf. split; [now apply Hs|].
    rewrite forallb_forall in Hall. now apply Hall.
Qed.

(* a whole nested block, from its header to its closing brace *)
Lemma nested_block S d name sub vs tail f : wf_pfields sub = true -> key_ok name = true ->
  find_field S name = Some f -> f_spec f = FB name sub -> dom_pfields sub vs = true ->
  run S (Outer d) (header name ++ render_pfields sub vs ++ [[TAB; RBRACE]] ++ tail)
  = run S (Outer ((name, Some (R vs)) :: d)) tail.
Proof.
  intros Hwf Hk Hfind Hspec Hdom. destruct (wf_pfields_inv sub Hwf) as (Hnd & Hpipe & Hall).
  unfold header. cbn [app].
  rewrite run_header_line; [| exact Hk | destruct (str_eqb name PERMISSIONS); reflexivity | reflexivity].
  unfold on_key. rewrite Hfind, Hspec. rewrite run_open.
  rewrite (inner_fields S d name sub Hpipe sub vs [] _ Hall Hdom).
  cbn [app]. rewrite run_close_inner. unfold build_p.
  rewrite (build_ents pf_name pf_default entry_p sub vs Hnd (dom_pfields_ok sub vs Hdom)). reflexivity.
Qed.

(* ================= record ================= *)

Definition entry_o (f : field) (ov : option fval) : option (option fval) :=
  if f_llsdonly f then None
  else match f_spec f, ov with
       | FP k, None => if f_inone f then match k with KLLSD _ => Some None | _ => None end else None
       | FP k, Some (P v) => Some (Some (P v))
       | FB _ _, Some (R vs) => Some (Some (R vs))
       | _, _ => None
       end.

Lemma outer_fields S : find_field S [PIPE] = None ->
  forall fs r d tail,
  Forall (fun f => find_field S (f_name f) = Some f /\ wf_field f = true) fs ->
  dom fs r = true ->
  run S (Outer d) (render_fields fs r ++ tail) = run S (Outer (ents f_name entry_o fs r d)) tail.
Proof.
  intros Hpipe. induction fs as [|f fs IH]; intros r d tail Hfs Hdom.
  - destruct r; reflexivity.
  - destruct r as [|ov r]; [discriminate|]. cbn [dom] in Hdom. apply andb_prop in Hdom as [Hd Hdom].
    inversion Hfs as [|? ? [Hfind Hwf] Hfs']; subst.
    cbn [render_fields ents]. rewrite <- app_assoc.
    unfold wf_field in Hwf. apply andb_prop in Hwf as [Hn Hsp]. apply name_ok_inv in Hn as [Hk _].
    unfold render_field_o, entry_o, dom_field in *. destruct (f_llsdonly f) eqn:Ell.
    + cbn [app]. now apply IH.
    + destruct (f_spec f) as [k|sname sub] eqn:Esp.
      * apply andb_prop in Hsp as [Hin Hu]. destruct ov as [[v|vs]|].
        -- pose proof (ser_ok _ _ Hd) as Hok. pose proof (deser_ser _ _ Hd) as Hds.
           unfold field_lines. destruct (is_llsd k) eqn:El; cbn [app].
           ++ rewrite run_field_line by assumption. unfold on_key. rewrite Hfind, Esp, Hds.
              rewrite run_pipe by exact Hpipe. cbn [option_map]. now apply IH.
           ++ rewrite run_field_line by assumption. unfold on_key. rewrite Hfind, Esp, Hds.
              cbn [option_map]. now apply IH.
        -- discriminate.
        -- destruct (f_inone f) eqn:Ein; [|cbn [app]; now apply IH].
           destruct k as [| | | | | | | |undef]; try (cbn [app]; now apply IH).
           apply andb_prop in Hu as [Huok Hup]. apply negb_true_iff in Hup.
           unfold field_lines. cbn [is_llsd app].
           rewrite run_field_line by assumption. unfold on_key. rewrite Hfind, Esp. cbn [deser].
           rewrite mstr_deserialize_nopipe by exact Hup. rewrite str_eqb_refl.
           rewrite run_pipe by exact Hpipe. cbn [option_map]. now apply IH.
      * apply andb_prop in Hsp as [Hsp Hwfs]. apply andb_prop in Hsp as [Hsn _].
        apply str_eqb_eq in Hsn. subst sname.
        destruct ov as [[v|vs]|]; [discriminate| |cbn [app]; now apply IH].
        rewrite <- !app_assoc.
        rewrite (nested_block S d (f_name f) sub vs _ f Hwfs Hk Hfind Esp Hd). now apply IH.
Qed.

Lemma dom_ok fs : forall r, dom fs r = true -> Forall2 (ok f_default entry_o) fs r.
Proof.
  induction fs as [|f fs IH]; intros [|v r] H; try discriminate; [constructor|].
  cbn [dom] in H. apply andb_prop in H as [Hf H]. constructor; [|now apply IH].
  unfold ok, entry_o, dom_field in *. destruct (f_llsdonly f).
  - destruct (f_default f) as [[[dv|?]|]|]; try discriminate; destruct v as [[v|?]|]; try discriminate.
    + apply pval_eqb_eq in Hf. now subst.
    + reflexivity.
  - destruct (f_spec f) as [k|sname sub]; destruct v as [[v|vs]|]; try discriminate; try reflexivity.
    + destruct (f_default f) as [[?|]|]; try discriminate.
      destruct (f_inone f); [|reflexivity]. destruct k; reflexivity.
    + destruct (f_default f) as [[?|]|]; try discriminate. reflexivity.
Qed.

Lemma find_field_self S : NoDup (map f_name S) -> Forall (fun f => find_field S (f_name f) = Some f) S.
Proof.
  induction S as [|g S IH]; intros Hnd; [constructor|]. inversion Hnd as [|? ? Hnotin Hnd']; subst.
  constructor.
  - cbn. now rewrite str_eqb_refl.
  - specialize (IH Hnd'). rewrite Forall_forall in *. intros f Hf. cbn.
    rewrite str_eqb_neq; [now apply IH|]. intros E. apply Hnotin. rewrite E. now apply in_map.
Qed.

Lemma find_field_none S n : ~ In n (map f_name S) -> find_field S n = None.
Proof.
  induction S as [|g S IH]; intros H; [reflexivity|]. cbn.
  rewrite str_eqb_neq by (intros E; apply H; now left). apply IH. intros Hin. apply H. now right.
Qed.

Lemma wf_schema_inv S : wf_schema S = true ->
  NoDup (map f_name S) /\ find_field S [PIPE] = None /\
  Forall (fun f => find_field S (f_name f) = Some f /\ wf_field f = true) S.
Proof.
  unfold wf_schema. intros H. apply andb_prop in H as [Hall Hnd]. apply nodup_str_spec in Hnd.
  split; [exact Hnd|]. split.
  - apply find_field_none. intros Hin. apply in_map_iff in Hin as [f [En Hf]].
    rewrite forallb_forall in Hall. specialize (Hall _ Hf). unfold wf_field in Hall.
    apply andb_prop in Hall as [Hall _]. apply name_ok_inv in Hall as [_ Hp].
    rewrite En, str_eqb_refl in Hp. discriminate.
  - pose proof (find_field_self S Hnd) as Hs. rewrite Forall_forall in *. intros f Hf. split; [now apply Hs|].
    rewrite forallb_forall in Hall. now apply Hall.
Qed.

(* the record round-trip: what to_writer emits for r (after the header token consumed by the caller),
   followed by anything, is read back as r, leaving exactly the rest in the reader *)
Theorem record_roundtrip name S r tail : wf_schema S = true -> dom S r = true ->
  from_lines S (skipn 1 (to_lines name S r) ++ tail) = Some (r, tail).
Proof.
  intros Hwf Hdom. destruct (wf_schema_inv S Hwf) as (Hnd & Hpipe & Hall).
  unfold from_lines, to_lines, header. cbn [app skipn]. rewrite run_open, <- app_assoc.
  rewrite (outer_fields S Hpipe S r [] _ Hall Hdom). cbn [app]. rewrite run_close_outer.
  unfold build_o. rewrite (build_ents f_name f_default entry_o S r Hnd (dom_ok S r Hdom)). reflexivity.
Qed.

(* the header line itself is the token (SCHEMA_NAME, "0") the enclosing reader dispatches on *)
Theorem header_token name : key_ok name = true ->
  exists l rest, header name = l :: rest /\
    exists c s, strip l = c :: s /\ parse_stripped (c :: s) = Some (name, Some [ZERO]).
Proof.
  intros Hk. unfold header. eexists _, _. split; [reflexivity|].
  pose proof (key_ok_inv name Hk) as ((c & r & En & Hc) & Hall & _).
  set (sep := if str_eqb name PERMISSIONS then 32 else TAB).
  assert (Hsep : is_space sep = true) by (unfold sep; destruct (str_eqb name PERMISSIONS); reflexivity).
  assert (Hs : strip (TAB :: name ++ [sep; ZERO]) = name ++ [sep; ZERO]).
  { unfold strip. cbn [lstrip]. rewrite is_space_tab. rewrite En. cbn [app lstrip]. rewrite Hc.
    apply (rstrip_id _ ZERO (sep :: rev (c :: r))); [|reflexivity].
    change (c :: r ++ [sep; ZERO]) with ((c :: r) ++ [sep; ZERO]). rewrite rev_app_distr. reflexivity. }
  exists c, (r ++ [sep; ZERO]). split; [rewrite Hs, En; reflexivity|].
  change (c :: r ++ [sep; ZERO]) with ((c :: r) ++ [sep; ZERO]). rewrite <- En.
  unfold parse_stripped. rewrite (span_nonspace_key name sep [ZERO] Hall Hsep). rewrite En.
  cbn [lstrip]. rewrite Hsep. reflexivity.
Qed.

(* ================= lookup-name enums (finite tables generated from the live code) ================= *)

Definition enum_rt (to_tbl : list (Z * str)) (from_tbl : list (str * Z)) (e : Z) : bool :=
  match assoc_z to_tbl e with
  | Some s => match assoc_s from_tbl s with Some e' => (e' =? e)%Z | None => false end
  | None => false
  end.

Definition enum_rt_all (members exc : list Z) to_tbl from_tbl : bool :=
  forallb (fun e => existsb (Z.eqb e) exc || enum_rt to_tbl from_tbl e) members
  && forallb (fun e => negb (enum_rt to_tbl from_tbl e)) exc.

Lemma enum_rt_all_spec members exc to_tbl from_tbl : enum_rt_all members exc to_tbl from_tbl = true ->
  (forall e, In e members -> ~ In e exc ->
     exists s, assoc_z to_tbl e = Some s /\ assoc_s from_tbl s = Some e) /\
  (forall e, In e exc -> ~ exists s, assoc_z to_tbl e = Some s /\ assoc_s from_tbl s = Some e).
Proof.
  unfold enum_rt_all. intros H. apply andb_prop in H as [Hm He]. rewrite forallb_forall in Hm, He. split.
  - intros e Hin Hnot. specialize (Hm e Hin). apply orb_true_iff in Hm as [Hx|Hr].
    + exfalso. apply Hnot. apply existsb_exists in Hx as [x [Hx E]]. apply Z.eqb_eq in E. now subst.
    + unfold enum_rt in Hr. destruct (assoc_z to_tbl e) as [s|]; [|discriminate]. exists s. split; [reflexivity|].
      destruct (assoc_s from_tbl s) as [e'|]; [|discriminate]. apply Z.eqb_eq in Hr. now subst.
  - intros e Hin [s [H1 H2]]. specialize (He e Hin). unfold enum_rt in He. rewrite H1, H2, Z.eqb_refl in He. discriminate.
Qed.
