(* C20 (B) - typed fields and records of the legacy line-oriented schema.  Definitions only.

   legacy_schema.py  SchemaStr / SchemaMultilineStr / SchemaInt / SchemaHexInt / SchemaDate / SchemaUUID / SchemaLLSD
   inventory.py      SchemaFlagField (text form = SchemaHexInt), SchemaEnumField, InventoryBase.to_writer / from_reader,
                     SchemaBase._obj_from_dict (cls( **obj_dict ): defaults, TypeError on a missing required field)

   A record schema is a list of fields in WRITE order (ID_ATTR first, then dataclasses.fields order).  A field is
   primitive or a nested block whose own fields are primitive (permissions, sale_info): nesting depth <= 2 is
   built into the type (the translator fails closed on anything deeper).  Python values:
     str -> VS, int -> VZ (SchemaInt, SchemaDate as POSIX seconds, enums as member value), VN (hex masks, flags,
     UUID as its 128-bit int), embedded LLSD -> VS of its XML text (llsd.format_xml / parse_xml are an oracle). *)
From Coq Require Import NArith ZArith List Bool.
From HV Require Import Asset.Schema Asset.Digits.
Import ListNotations.
Local Open Scope N_scope.

Inductive kind :=
| KStr                                   (* SchemaStr *)
| KMStr                                  (* SchemaMultilineStr *)
| KInt                                   (* SchemaInt *)
| KDate                                  (* SchemaDate: str(timegm(..)) / utcfromtimestamp(int(..)) *)
| KHex                                   (* SchemaHexInt *)
| KFlag                                  (* SchemaFlagField: text form inherited from SchemaHexInt *)
| KUUID                                  (* SchemaUUID *)
| KEnum (to_tbl : list (Z * str)) (from_tbl : list (str * Z))   (* SchemaEnumField: live lookup tables *)
| KLLSD (undef : str).                   (* SchemaLLSD; undef = text written for None *)

Inductive pval := VS (s : str) | VZ (z : Z) | VN (n : N).

Fixpoint assoc_z (t : list (Z * str)) (e : Z) : option str :=
  match t with [] => None | (k, v) :: r => if (k =? e)%Z then Some v else assoc_z r e end.
Fixpoint assoc_s {A} (t : list (str * A)) (n : str) : option A :=
  match t with [] => None | (k, v) :: r => if str_eqb k n then Some v else assoc_s r n end.

(* spec.serialize(val): the text after "\t\t<name>\t".  SchemaLLSD yields two lines (value, then "|"). *)
Definition ser (k : kind) (v : pval) : str :=
  match k, v with
  | KStr, VS s => s
  | KMStr, VS s => mstr_serialize s
  | KInt, VZ z => int_to_text z
  | KDate, VZ z => int_to_text z
  | KHex, VN n => hex8_to_text n
  | KFlag, VN n => hex8_to_text n
  | KUUID, VN n => uuid_to_text n
  | KEnum t _, VZ e => match assoc_z t e with Some s => s | None => [] end
  | KLLSD _, VS x => x
  | _, _ => []
  end.

Definition is_llsd (k : kind) : bool := match k with KLLSD _ => true | _ => false end.

(* spec.deserialize(val): None = exception; Some None = Python None stored *)
Definition deser (k : kind) (t : option str) : option (option pval) :=
  match k, t with
  | KStr, None => Some None
  | KStr, Some s => Some (Some (VS s))
  | KMStr, Some s => Some (Some (VS (mstr_deserialize s)))
  | KInt, Some s => option_map (fun z => Some (VZ z)) (int_of_text s)
  | KDate, Some s => option_map (fun z => Some (VZ z)) (int_of_text s)
  | KHex, Some s => option_map (fun n => Some (VN n)) (hex_of_text s)
  | KFlag, Some s => option_map (fun n => Some (VN n)) (hex_of_text s)
  | KUUID, Some s => option_map (fun n => Some (VN n)) (uuid_of_text s)
  | KEnum _ f, Some s => option_map (fun e => Some (VZ e)) (assoc_s f s)
  | KLLSD undef, Some s => let x := mstr_deserialize s in
                           if str_eqb x undef then Some None else Some (Some (VS x))
  | _, None => None
  end.

(* ---------- schemas ---------- *)
(* default: None = required (dataclasses.MISSING); Some d = default d (d = None is Python None) *)
Record pfield := mkPF { pf_name : str; pf_kind : kind; pf_default : option (option pval);
                        pf_inone : bool; pf_llsdonly : bool }.

Inductive fval := P (v : pval) | R (sub : list (option pval)).

Inductive fspec := FP (k : kind) | FB (schema_name : str) (sub : list pfield).

Record field := mkF { f_name : str; f_spec : fspec; f_default : option (option fval);
                      f_inone : bool; f_llsdonly : bool }.

Definition schema := list field.
Definition record := list (option fval).

(* ---------- writer ---------- *)
Definition ZERO : N := 48.
Definition PERMISSIONS : str := [112; 101; 114; 109; 105; 115; 115; 105; 111; 110; 115].

(* "\t<SCHEMA_NAME>" + (" 0" if SCHEMA_NAME == "permissions" else "\t0") ; "\t{" *)
Definition header (name : str) : list str :=
  [TAB :: name ++ [if str_eqb name PERMISSIONS then 32 else TAB; ZERO]; [TAB; LBRACE]].

Definition field_lines (name : str) (k : kind) (text : str) : list str :=
  if is_llsd k then [render_field (name, text); [PIPE]] else [render_field (name, text)].

Definition render_pfield (f : pfield) (ov : option pval) : list str :=
  if pf_llsdonly f then []
  else match ov with
       | None => if pf_inone f
                 then match pf_kind f with KLLSD undef => field_lines (pf_name f) (pf_kind f) undef | _ => [] end
                 else []
       | Some v => field_lines (pf_name f) (pf_kind f) (ser (pf_kind f) v)
       end.

Fixpoint render_pfields (fs : list pfield) (vs : list (option pval)) : list str :=
  match fs, vs with
  | f :: fs', v :: vs' => render_pfield f v ++ render_pfields fs' vs'
  | _, _ => []
  end.

Definition render_field_o (f : field) (ov : option fval) : list str :=
  if f_llsdonly f then []
  else match f_spec f, ov with
       | FP k, None => if f_inone f then match k with KLLSD undef => field_lines (f_name f) k undef | _ => [] end else []
       | FP k, Some (P v) => field_lines (f_name f) k (ser k v)
       | FB sname sub, Some (R vs) => header sname ++ render_pfields sub vs ++ [[TAB; RBRACE]]
       | _, _ => []
       end.

Fixpoint render_fields (fs : schema) (r : record) : list str :=
  match fs, r with
  | f :: fs', v :: r' => render_field_o f v ++ render_fields fs' r'
  | _, _ => []
  end.

(* to_writer of a node: header, fields, closing brace *)
Definition to_lines (name : str) (s : schema) (r : record) : list str :=
  header name ++ render_fields s r ++ [[TAB; RBRACE]].

(* ---------- reader ---------- *)
Definition pdict := list (str * option pval).
Definition odict := list (str * option fval).

Fixpoint find_pfield (fs : list pfield) (n : str) : option pfield :=
  match fs with [] => None | f :: r => if str_eqb (pf_name f) n then Some f else find_pfield r n end.
Fixpoint find_field (fs : schema) (n : str) : option field :=
  match fs with [] => None | f :: r => if str_eqb (f_name f) n then Some f else find_field r n end.

(* cls( **obj_dict ): every field from the dict, else its default, else TypeError *)
Section Build.
  Context {F V : Type} (name : F -> str) (dflt : F -> option (option V)).
  Fixpoint build_gen (fs : list F) (d : list (str * option V)) : option (list (option V)) :=
    match fs with
    | [] => Some []
    | f :: r =>
      match (match assoc_s d (name f) with Some v => Some v | None => dflt f end), build_gen r d with
      | Some v, Some vs => Some (v :: vs)
      | _, _ => None
      end
    end.
End Build.
Definition build_p : list pfield -> pdict -> option (list (option pval)) := build_gen pf_name pf_default.
Definition build_o : schema -> odict -> option record := build_gen f_name f_default.

Inductive rstate :=
| Outer (d : odict)
| Inner (d : odict) (fname : str) (sub : list pfield) (di : pdict).

(* InventoryBase.from_reader over the lines left in the reader (the nested from_reader of a block field is the
   Inner state; both loops are _yield_schema_tokens).  None = an exception escaped. *)
Fixpoint run (S : schema) (st : rstate) (lines : list str) : option (odict * list str) :=
  match lines with
  | [] =>
    match st with
    | Outer d => Some (d, [])
    | Inner d fname sub di =>
      match build_p sub di with Some rec => Some ((fname, Some (R rec)) :: d, []) | None => None end
    end
  | l :: rest =>
    match strip l with
    | [] => run S st rest
    | s =>
      match parse_stripped s with
      | None => run S st rest
      | Some (k, v) =>
        if str_eqb k [LBRACE] then run S st rest
        else if str_eqb k [RBRACE] then
          match st with
          | Outer d => Some (d, rest)
          | Inner d fname sub di =>
            match build_p sub di with
            | Some rec => run S (Outer ((fname, Some (R rec)) :: d)) rest
            | None => None
            end
          end
        else
          match st with
          | Outer d =>
            match find_field S k with
            | None => run S st rest
            | Some f =>
              match f_spec f with
              | FP kd => match deser kd v with
                         | Some pv => run S (Outer ((k, option_map P pv) :: d)) rest
                         | None => None
                         end
              | FB _ sub => run S (Inner d k sub []) rest
              end
            end
          | Inner d fname sub di =>
            match find_pfield sub k with
            | None => run S st rest
            | Some f => match deser (pf_kind f) v with
                        | Some pv => run S (Inner d fname sub ((k, pv) :: di)) rest
                        | None => None
                        end
            end
          end
      end
    end
  end.

(* Cls.from_reader(reader) with the reader positioned after the header token *)
Definition from_lines (s : schema) (lines : list str) : option (record * list str) :=
  match run s (Outer []) lines with
  | Some (d, rest) => match build_o s d with Some r => Some (r, rest) | None => None end
  | None => None
  end.

(* ---------- domains ---------- *)
Definition uuid_ok (n : N) : bool := n <? 2 ^ 128.

Definition dom_prim (k : kind) (v : pval) : bool :=
  match k, v with
  | KStr, VS s => val_ok s
  | KMStr, VS s => mstr_ok s
  | KInt, VZ _ => true
  | KDate, VZ _ => true
  | KHex, VN _ => true
  | KFlag, VN _ => true
  | KUUID, VN n => uuid_ok n
  | KEnum t f, VZ e => match assoc_z t e with
                       | Some s => val_ok s && match assoc_s f s with Some e' => (e' =? e)%Z | None => false end
                       | None => false
                       end
  | KLLSD undef, VS x => val_ok x && negb (existsb (N.eqb PIPE) x) && negb (str_eqb x undef)
  | _, _ => false
  end.

Definition pval_eqb (a b : pval) : bool :=
  match a, b with
  | VS x, VS y => str_eqb x y
  | VZ x, VZ y => (x =? y)%Z
  | VN x, VN y => x =? y
  | _, _ => false
  end.
Definition opval_eqb (a b : option pval) : bool :=
  match a, b with Some x, Some y => pval_eqb x y | None, None => true | _, _ => false end.

(* a field value the text form can carry *)
Definition dom_pfield (f : pfield) (ov : option pval) : bool :=
  if pf_llsdonly f then match pf_default f with Some d => opval_eqb d ov | None => false end
  else match ov with
       | None => match pf_default f with Some None => true | _ => false end
       | Some v => dom_prim (pf_kind f) v
       end.

Fixpoint dom_pfields (fs : list pfield) (vs : list (option pval)) : bool :=
  match fs, vs with
  | [], [] => true
  | f :: fs', v :: vs' => dom_pfield f v && dom_pfields fs' vs'
  | _, _ => false
  end.

Definition dom_field (f : field) (ov : option fval) : bool :=
  if f_llsdonly f then
    match f_default f, ov with
    | Some None, None => true
    | Some (Some (P d)), Some (P v) => pval_eqb d v
    | _, _ => false
    end
  else match f_spec f, ov with
       | _, None => match f_default f with Some None => true | _ => false end
       | FP k, Some (P v) => dom_prim k v
       | FB _ sub, Some (R vs) => dom_pfields sub vs
       | _, _ => false
       end.

Fixpoint dom (s : schema) (r : record) : bool :=
  match s, r with
  | [], [] => true
  | f :: s', v :: r' => dom_field f v && dom s' r'
  | _, _ => false
  end.

(* ---------- well-formed schemas (checked by vm_compute on the live schemas) ---------- *)
Fixpoint nodup_str (l : list str) : bool :=
  match l with [] => true | x :: r => negb (existsb (str_eqb x) r) && nodup_str r end.

Definition name_ok (n : str) : bool := key_ok n && negb (str_eqb n [PIPE]).

Definition wf_pfield (f : pfield) : bool :=
  name_ok (pf_name f) && (negb (pf_inone f) || (is_llsd (pf_kind f) && negb (pf_llsdonly f)))
  && match pf_kind f with KLLSD u => val_ok u && negb (existsb (N.eqb PIPE) u) | _ => true end.

Definition wf_pfields (fs : list pfield) : bool :=
  forallb wf_pfield fs && nodup_str (map pf_name fs).

Definition wf_field (f : field) : bool :=
  name_ok (f_name f)
  && match f_spec f with
     | FP k => (negb (f_inone f) || (is_llsd k && negb (f_llsdonly f)))
               && match k with KLLSD u => val_ok u && negb (existsb (N.eqb PIPE) u) | _ => true end
     | FB sname sub => str_eqb sname (f_name f) && negb (f_inone f) && wf_pfields sub
     end.

Definition wf_schema (s : schema) : bool := forallb wf_field s && nodup_str (map f_name s).
