(* C20 (A) - chunked transfer: lemmas about Asset/Xfer.v *)
From Coq Require Import NArith ZArith List Bool Arith Lia ZifyBool ZifyNat ZifyN.
From HV Require Import Base.Bytes Asset.Xfer.
Import ListNotations.
Local Open Scope nat_scope.

(* ================= chunking ================= *)

Lemma chunk_fuel_concat m : 0 < m -> forall fuel d, length d <= fuel -> concat (chunk_fuel fuel m d) = d.
Proof.
  intros Hm fuel; induction fuel as [|f IH]; intros d Hd.
  - destruct d; [reflexivity | cbn in Hd; lia].
  - destruct d as [|x d']; [reflexivity|].
    cbn [chunk_fuel concat]. rewrite IH.
    + apply firstn_skipn.
    + rewrite skipn_length. cbn [length] in *. lia.
Qed.

Lemma chunk_concat m d : 0 < m -> concat (chunk m d) = d.
Proof. intros Hm. apply chunk_fuel_concat; auto. Qed.

Lemma chunk_fuel_sizes m : 0 < m -> forall fuel d,
  Forall (fun c => 0 < length c <= m) (chunk_fuel fuel m d).
Proof.
  intros Hm fuel; induction fuel as [|f IH]; intros d; [constructor|].
  destruct d as [|x d']; [constructor|].
  cbn [chunk_fuel]. constructor; [|apply IH].
  rewrite firstn_length. cbn [length]. lia.
Qed.

Lemma chunk_sizes m d : 0 < m -> Forall (fun c => 0 < length c <= m) (chunk m d).
Proof. intros; now apply chunk_fuel_sizes. Qed.

(* every chunk but the last is full *)
Lemma chunk_fuel_full m : 0 < m -> forall fuel d, length d <= fuel ->
  forall pre c post, chunk_fuel fuel m d = pre ++ c :: post -> post <> [] -> length c = m.
Proof.
  intros Hm fuel; induction fuel as [|f IH]; intros d Hd pre c post E Hp.
  - destruct pre; discriminate.
  - destruct d as [|x d']; [destruct pre; discriminate|].
    cbn [chunk_fuel] in E.
    assert (Hlen : length (skipn m (x :: d')) <= f) by (rewrite skipn_length; cbn [length] in *; lia).
    destruct pre as [|p pre'].
    + cbn in E. injection E as Ec Er. subst c.
      destruct (le_lt_dec m (length (x :: d'))) as [Hge|Hlt].
      * rewrite firstn_length. lia.
      * exfalso. rewrite skipn_all2 in Er by lia.
        destruct f; cbn in Er; subst post; now apply Hp.
    + cbn in E. injection E as _ Er. eapply IH; eauto.
Qed.

Lemma chunk_full m d pre c post : 0 < m -> chunk m d = pre ++ c :: post -> post <> [] -> length c = m.
Proof. intros Hm E Hp. eapply chunk_fuel_full; eauto. Qed.

Lemma chunk_nonempty m d : d <> [] -> chunk m d <> [].
Proof. unfold chunk. destruct d; [congruence|]. cbn. discriminate. Qed.

Lemma chunk_head m d : d <> [] -> exists rest, chunk m d = firstn m d :: rest.
Proof. unfold chunk. destruct d; [congruence|]. intros _. cbn [length chunk_fuel]. eauto. Qed.

(* ================= numbering ================= *)

Lemma number_pid i cs : map pid (number i cs) = seq i (length cs).
Proof. revert i; induction cs as [|c r IH]; intros i; [reflexivity|]. cbn. now rewrite IH. Qed.

Lemma number_pdata i cs : map pdata (number i cs) = cs.
Proof. revert i; induction cs as [|c r IH]; intros i; [reflexivity|]. cbn. now rewrite IH. Qed.

Lemma number_length i cs : length (number i cs) = length cs.
Proof. rewrite <- (map_length pid), number_pid. apply seq_length. Qed.

Lemma number_eof i cs : Forall (fun p => peof p = (S (pid p) =? i + length cs)) (number i cs).
Proof.
  revert i; induction cs as [|c r IH]; intros i; [constructor|].
  cbn [number length]. constructor.
  - cbn [peof pid]. destruct r; cbn [length]; symmetry; [apply Nat.eqb_eq | apply Nat.eqb_neq]; lia.
  - specialize (IH (S i)). eapply Forall_impl; [|exact IH]. cbn beta. intros p Hp. rewrite Hp. f_equal. lia.
Qed.

(* ================= sorted association lists ================= *)

Fixpoint ssorted (l : list (nat * list N)) : Prop :=
  match l with
  | [] => True
  | x :: r => Forall (fun y => fst x < fst y) r /\ ssorted r
  end.

Lemma Forall_filter {A} (P : A -> Prop) f l : Forall P l -> Forall P (filter f l).
Proof. rewrite !Forall_forall. intros H x Hx. apply filter_In in Hx. apply H, Hx. Qed.

Lemma insert_above k v l : Forall (fun y => k < fst y) l -> insert k v l = (k, v) :: l.
Proof.
  destruct l as [|[k' v'] r]; [reflexivity|]. intros H. inversion H as [|? ? Hk _]; subst. cbn in Hk.
  cbn [insert]. destruct (Nat.ltb_spec k k'); [reflexivity | lia].
Qed.

Lemma insert_filter f k v l : ssorted l -> In (k, v) l ->
  insert k v (filter f l) = filter (fun kv => f kv || (fst kv =? k)) l.
Proof.
  induction l as [|[k0 v0] r IH]; intros Hs Hin; [destruct Hin|].
  destruct Hs as [Hall Hs]. cbn [filter fst].
  destruct Hin as [Heq | Hin].
  - injection Heq as -> ->. rewrite Nat.eqb_refl, orb_true_r.
    assert (Hr : filter (fun kv => f kv || (fst kv =? k)) r = filter f r).
    { apply filter_ext_in. intros [k1 v1] H1. rewrite Forall_forall in Hall. specialize (Hall _ H1).
      cbn in *. destruct (Nat.eqb_spec k1 k); [lia | apply orb_false_r]. }
    rewrite Hr. destruct (f (k, v)).
    + cbn [insert]. rewrite Nat.ltb_irrefl, Nat.eqb_refl. reflexivity.
    + apply insert_above. apply Forall_filter. exact Hall.
  - assert (Hlt : k0 < k). { rewrite Forall_forall in Hall. apply (Hall _ Hin). }
    destruct (Nat.eqb_spec k0 k); [lia|]. rewrite orb_false_r. destruct (f (k0, v0)).
    + cbn [insert]. destruct (Nat.ltb_spec k k0); [lia|]. destruct (Nat.eqb_spec k k0); [lia|].
      f_equal. now apply IH.
    + now apply IH.
Qed.

Lemma ssorted_of_seq l : forall a n, map fst l = seq a n -> ssorted l.
Proof.
  induction l as [|[k v] r IH]; intros a n E; [exact I|].
  destruct n as [|n]; [discriminate|]. cbn in E. injection E as -> Er.
  split; [|eapply IH; eauto].
  rewrite Forall_forall. intros [k1 v1] H1. cbn.
  assert (In k1 (seq (S a) n)) by (rewrite <- Er; change k1 with (fst (k1, v1)); now apply in_map).
  rewrite in_seq in H. lia.
Qed.

Lemma Forall_insert P k v l : Forall P l -> P (k, v) -> Forall P (insert k v l).
Proof.
  induction l as [|[k0 v0] r IH]; intros Hl Hp; [repeat constructor; auto|].
  inversion Hl as [|? ? H0 Hr]; subst. cbn [insert].
  destruct (k <? k0); [constructor; auto|]. destruct (k =? k0); constructor; auto.
Qed.

Lemma ssorted_insert k v l : ssorted l -> ssorted (insert k v l).
Proof.
  induction l as [|[k0 v0] r IH]; intros Hs; [cbn; auto|].
  destruct Hs as [Hall Hs]. cbn [insert].
  destruct (Nat.ltb_spec k k0).
  - split; [|split; auto]. constructor; [cbn; lia|].
    eapply Forall_impl; [|exact Hall]. cbn. intros; lia.
  - destruct (Nat.eqb_spec k k0).
    + subst. split; auto.
    + split; [|auto]. apply Forall_insert; [exact Hall | cbn; lia].
Qed.

Lemma insert_keys k v l x : In x (map fst (insert k v l)) <-> x = k \/ In x (map fst l).
Proof.
  induction l as [|[k0 v0] r IH]; [cbn; intuition|].
  cbn [insert]. destruct (k <? k0); [cbn; intuition|].
  destruct (Nat.eqb_spec k k0).
  - subst. cbn. intuition.
  - cbn [map fst In]. rewrite IH. intuition.
Qed.

Lemma insert_incl k v l tbl : incl l tbl -> In (k, v) tbl -> incl (insert k v l) tbl.
Proof.
  induction l as [|[k0 v0] r IH]; intros Hl Hin x Hx.
  - destruct Hx as [<-|[]]; auto.
  - cbn [insert] in Hx. destruct (k <? k0).
    + destruct Hx as [<-|Hx]; auto.
    + destruct (k =? k0).
      * destruct Hx as [<-|Hx]; auto. apply Hl. now right.
      * destruct Hx as [<-|Hx]; [apply Hl; now left|].
        apply IH; auto. intros y Hy. apply Hl. now right.
Qed.

Lemma ssorted_nodup l : ssorted l -> NoDup (map fst l).
Proof.
  induction l as [|[k v] r IH]; intros Hs; [constructor|].
  destruct Hs as [Hall Hs]. cbn. constructor; [|auto].
  intros Hin. apply in_map_iff in Hin as [[k1 v1] [E H1]]. cbn in E. subst k1.
  rewrite Forall_forall in Hall. specialize (Hall _ H1). cbn in Hall. lia.
Qed.

(* ================= membership vocabulary ================= *)

Lemma mem_In k l : mem k l = true <-> In k l.
Proof.
  unfold mem. rewrite existsb_exists. split.
  - intros [x [Hx E]]. apply Nat.eqb_eq in E. now subst.
  - intros H. exists k. split; auto. apply Nat.eqb_refl.
Qed.

Lemma mem_app k a b : mem k (a ++ b) = mem k a || mem k b.
Proof. apply existsb_app. Qed.

Lemma mem_ext l l' : (forall k, In k l <-> In k l') -> forall k, mem k l = mem k l'.
Proof.
  intros H k. destruct (mem k l) eqn:E, (mem k l') eqn:E'; auto.
  - apply mem_In, H, mem_In in E. congruence.
  - apply mem_In, H, mem_In in E'. congruence.
Qed.

Lemma filter_false {A} (l : list A) : filter (fun _ => false) l = [].
Proof. induction l; auto. Qed.

Lemma filter_all {A} f (l : list A) : forallb f l = true -> filter f l = l.
Proof.
  induction l as [|x r IH]; [reflexivity|]. cbn. intros H. apply andb_prop in H as [Hx Hr].
  rewrite Hx. f_equal. auto.
Qed.

Lemma filter_length_le {A} f (l : list A) : length (filter f l) <= length l.
Proof. induction l as [|x r IH]; cbn; [lia|]. destruct (f x); cbn; lia. Qed.

Lemma filter_length_all {A} f (l : list A) : (length (filter f l) =? length l) = forallb f l.
Proof.
  induction l as [|x r IH]; [reflexivity|]. cbn [filter forallb length].
  pose proof (filter_length_le f r).
  destruct (f x); cbn [length andb].
  - exact IH.
  - apply Nat.eqb_neq. lia.
Qed.

Lemma forallb_map {A B} (g : B -> bool) (h : A -> B) l : forallb g (map h l) = forallb (fun x => g (h x)) l.
Proof. induction l as [|x r IH]; cbn; [reflexivity|]. now rewrite IH. Qed.

Lemma forallb_ext_in {A} (f g : A -> bool) l : (forall x, In x l -> f x = g x) -> forallb f l = forallb g l.
Proof.
  induction l as [|x r IH]; intros H; [reflexivity|]. cbn. rewrite H by now left.
  f_equal. apply IH. intros; apply H; now right.
Qed.

(* ================= closed form of the receiver for arrivals drawn from a sender ================= *)

Definition teof (t : nat * bool * list N) : bool := snd (fst t).
Definition tbl (sent : list (nat * bool * list N)) : list (nat * list N) := map (fun t => (tid t, snd t)) sent.

(* [sent] numbers its packets 0..n-1, is not empty, and flags exactly the last one *)
Definition good_sent (sent : list (nat * bool * list N)) : Prop :=
  map tid sent = seq 0 (length sent) /\ sent <> [] /\
  Forall (fun t => teof t = (S (tid t) =? length sent)) sent.

Lemma tbl_keys sent : map fst (tbl sent) = map tid sent.
Proof. unfold tbl. rewrite map_map. reflexivity. Qed.

Lemma tbl_length sent : length (tbl sent) = length sent.
Proof. apply map_length. Qed.

Lemma ids_app a b : ids (a ++ b) = ids a ++ ids b.
Proof. apply map_app. Qed.

Definition closed (sent l : list (nat * bool * list N)) : core :=
  let n := length sent in
  mkCore (filter (fun kv => mem (fst kv) (ids l)) (tbl sent))
         (if mem (n - 1) (ids l) then Some n else None)
         (forallb (fun k => mem k (ids l)) (seq 0 n)).

Lemma crun_closed sent l : good_sent sent -> Forall (fun t => In t sent) l ->
  crun l core_init = closed sent l.
Proof.
  intros (Hids & Hne & Heof) Hl.
  assert (Hn : 0 < length sent) by (destruct sent; [congruence | cbn; lia]).
  induction l as [|t l IH] using rev_ind.
  - unfold closed, crun. cbn [fold_left ids map mem existsb]. unfold core_init. f_equal.
    + symmetry. apply filter_false.
    + destruct (length sent) as [|n]; [lia|]. reflexivity.
  - apply Forall_app in Hl as [Hl Ht]. inversion Ht as [|? ? Hin _]; subst.
    unfold crun in *. rewrite fold_left_app. cbn [fold_left]. rewrite (IH Hl). clear IH.
    destruct t as [[k e] d].
    assert (He : e = (S k =? length sent)).
    { rewrite Forall_forall in Heof. apply (Heof _ Hin). }
    assert (Hk : k < length sent).
    { assert (In k (map tid sent)) by (change k with (tid (k, e, d)); now apply in_map).
      rewrite Hids, in_seq in H. lia. }
    assert (Hm : forall x, mem x (ids (l ++ [(k, e, d)])) = mem x (ids l) || (x =? k)).
    { intros x. rewrite ids_app, mem_app. cbn. now rewrite orb_false_r. }
    unfold closed, cstep. cbn [chunks expected_chunks is_done].
    assert (Hch : insert k d (filter (fun kv => mem (fst kv) (ids l)) (tbl sent))
                  = filter (fun kv => mem (fst kv) (ids (l ++ [(k, e, d)]))) (tbl sent)).
    { rewrite insert_filter.
      - apply filter_ext. intros kv. now rewrite Hm.
      - eapply ssorted_of_seq. rewrite tbl_keys. exact Hids.
      - unfold tbl. change (k, d) with ((fun t => (tid t, snd t)) (k, e, d)). now apply in_map. }
    rewrite Hch.
    assert (Hec : (if e then Some (S k) else if mem (length sent - 1) (ids l) then Some (length sent) else None)
                  = if mem (length sent - 1) (ids (l ++ [(k, e, d)])) then Some (length sent) else None).
    { rewrite Hm. subst e. destruct (Nat.eqb_spec (S k) (length sent)) as [E|E].
      - replace (length sent - 1 =? k) with true by (symmetry; apply Nat.eqb_eq; lia).
        rewrite orb_true_r. now rewrite E.
      - replace (length sent - 1 =? k) with false by (symmetry; apply Nat.eqb_neq; lia).
        now rewrite orb_false_r. }
    rewrite Hec. f_equal.
    set (g := fun x => mem x (ids l)).
    set (g' := fun x => mem x (ids (l ++ [(k, e, d)]))).
    assert (Hmono : forallb g (seq 0 (length sent)) = true -> forallb g' (seq 0 (length sent)) = true).
    { rewrite !forallb_forall. intros H x Hx. unfold g'. rewrite Hm. unfold g in H. now rewrite (H x Hx). }
    assert (Hlast : In (length sent - 1) (seq 0 (length sent))) by (rewrite in_seq; lia).
    destruct (mem (length sent - 1) (ids (l ++ [(k, e, d)]))) eqn:Elast.
    + assert (Hlen : (length (filter (fun kv => mem (fst kv) (ids (l ++ [(k, e, d)]))) (tbl sent)) =? length sent)
                     = forallb g' (seq 0 (length sent))).
      { rewrite <- (tbl_length sent) at 1. rewrite filter_length_all.
        transitivity (forallb g' (map fst (tbl sent))).
        - rewrite forallb_map. reflexivity.
        - rewrite tbl_keys, Hids. reflexivity. }
      rewrite Hlen. destruct (forallb g (seq 0 (length sent))) eqn:Eg.
      * cbn. symmetry. now apply Hmono.
      * reflexivity.
    + rewrite orb_false_r.
      assert (forallb g' (seq 0 (length sent)) = false) as ->.
      { destruct (forallb g' (seq 0 (length sent))) eqn:Eg'; auto.
        rewrite forallb_forall in Eg'. specialize (Eg' _ Hlast). unfold g' in Eg'. congruence. }
      destruct (forallb g (seq 0 (length sent))) eqn:Eg; auto.
      specialize (Hmono eq_refl). rewrite forallb_forall in Hmono. specialize (Hmono _ Hlast). unfold g' in Hmono. congruence.
Qed.

(* --- consequences of the closed form --- *)

Lemma closed_done_iff sent l :
  is_done (closed sent l) = true <-> (forall k, k < length sent -> In k (ids l)).
Proof.
  unfold closed. cbn [is_done]. rewrite forallb_forall. split.
  - intros H k Hk. apply mem_In, H. rewrite in_seq. lia.
  - intros H k Hk. apply mem_In, H. rewrite in_seq in Hk. lia.
Qed.

Lemma closed_reassemble sent l : map tid sent = seq 0 (length sent) ->
  is_done (closed sent l) = true -> chunks (closed sent l) = tbl sent.
Proof.
  intros Hids H. unfold closed in *. cbn [is_done chunks] in *.
  apply filter_all. rewrite <- (forallb_map (fun k => mem k (ids l)) fst), tbl_keys, Hids. exact H.
Qed.

Lemma closed_ext sent l l' : (forall k, In k (ids l) <-> In k (ids l')) -> closed sent l = closed sent l'.
Proof.
  intros H. pose proof (mem_ext _ _ H) as Hm. unfold closed. f_equal.
  - apply filter_ext. intros; apply Hm.
  - now rewrite Hm.
  - apply forallb_ext_in. intros; apply Hm.
Qed.

(* ================= general facts: arbitrary arrivals ================= *)

Lemma cstep_done_sticky c t : is_done c = true -> is_done (cstep c t) = true.
Proof. destruct t as [[k e] d]. cbn. now intros ->. Qed.

Lemma crun_done_sticky l c : is_done c = true -> is_done (crun l c) = true.
Proof.
  revert c; induction l as [|t l IH]; intros c H; [exact H|]. cbn. apply IH. now apply cstep_done_sticky.
Qed.

Lemma crun_app a b c : crun (a ++ b) c = crun b (crun a c).
Proof. apply fold_left_app. Qed.

Lemma crun_keys l : ssorted (chunks (crun l core_init)) /\
  forall k, In k (map fst (chunks (crun l core_init))) <-> In k (ids l).
Proof.
  induction l as [|t l IH] using rev_ind.
  - cbn. intuition.
  - rewrite crun_app. destruct IH as [Hs Hk]. destruct t as [[k e] d]. cbn [crun fold_left cstep chunks].
    split; [now apply ssorted_insert|].
    intros x. rewrite insert_keys, Hk, ids_app, in_app_iff. cbn. intuition.
Qed.

(* pigeonhole: n distinct ids, all below n, are exactly 0..n-1 *)
Lemma pigeonhole_ids ks e : NoDup ks -> (forall k, In k ks -> k < e) ->
  (length ks = e <-> forall k, k < e -> In k ks).
Proof.
  intros Hnd Hlt. split.
  - intros Hlen k Hk.
    assert (Hincl : incl (seq 0 e) ks).
    { apply NoDup_length_incl; auto.
      - rewrite seq_length. lia.
      - intros x Hx. apply in_seq. specialize (Hlt _ Hx). lia. }
    apply Hincl, in_seq. lia.
  - intros Hall. apply Nat.le_antisymm.
    + rewrite <- (seq_length e 0). apply NoDup_incl_length; auto.
      intros x Hx. apply in_seq. specialize (Hlt _ Hx). lia.
    + rewrite <- (seq_length e 0) at 1. apply NoDup_incl_length; [apply seq_NoDup|].
      intros x Hx. apply in_seq in Hx. apply Hall. lia.
Qed.

Lemma crun_pigeonhole l e : (forall k, In k (ids l) -> k < e) ->
  (length (chunks (crun l core_init)) = e <-> forall k, k < e -> In k (ids l)).
Proof.
  intros Hlt. destruct (crun_keys l) as [Hs Hk].
  rewrite <- (map_length fst).
  rewrite (pigeonhole_ids (map fst (chunks (crun l core_init))) e).
  - split; intros H k Hlt'; [apply Hk | apply Hk]; auto.
  - now apply ssorted_nodup.
  - intros k Hin. apply Hlt, Hk, Hin.
Qed.

(* arrivals with arbitrary data and duplication; only assumption: every id is at most the
   end-marked id e-1 and only that id carries the flag *)
Definition bounded_by (e : nat) (l : list (nat * bool * list N)) : Prop :=
  forall t, In t l -> tid t < e /\ (teof t = true -> S (tid t) = e).

Lemma crun_general l e : bounded_by e l ->
  expected_chunks (crun l core_init) = (if existsb teof l then Some e else None) /\
  (is_done (crun l core_init) = true <->
     existsb teof l = true /\ forall k, k < e -> In k (ids l)).
Proof.
  induction l as [|t l IH] using rev_ind; intros Hb.
  - cbn. split; [reflexivity|]. split; [discriminate | intros [H _]; discriminate].
  - assert (Hbl : bounded_by e l) by (intros x Hx; apply Hb, in_app_iff; now left).
    assert (Hbt : tid t < e /\ (teof t = true -> S (tid t) = e)) by (apply Hb, in_app_iff; right; now left).
    destruct (IH Hbl) as [Hec Hd]. clear IH.
    assert (Hlt : forall k, In k (ids (l ++ [t])) -> k < e).
    { intros k Hk. unfold ids in Hk. apply in_map_iff in Hk as [x [<- Hx]]. apply (Hb _ Hx). }
    pose proof (crun_pigeonhole (l ++ [t]) e Hlt) as Hph.
    destruct t as [[k ef] d].
    change (tid (k, ef, d)) with k in Hbt. change (teof (k, ef, d)) with ef in Hbt.
    rewrite crun_app in *. rewrite existsb_app. cbn [existsb]. rewrite orb_false_r.
    change (teof (k, ef, d)) with ef.
    change (crun [(k, ef, d)] (crun l core_init)) with (cstep (crun l core_init) (k, ef, d)) in *.
    cbn [cstep expected_chunks is_done chunks] in *.
    assert (Hec' : (if ef then Some (S k) else expected_chunks (crun l core_init))
                   = if existsb teof l || ef then Some e else None).
    { destruct ef.
      - rewrite orb_true_r. destruct Hbt as [_ Hbt]. now rewrite (Hbt eq_refl).
      - now rewrite orb_false_r. }
    split; [exact Hec'|].
    rewrite Hec'.
    assert (Hmono : (forall x, x < e -> In x (ids l)) -> forall x, x < e -> In x (ids (l ++ [(k, ef, d)]))).
    { intros H x Hx. rewrite ids_app, in_app_iff. left. auto. }
    rewrite orb_true_iff, Hd. destruct (existsb teof l || ef) eqn:Ee.
    + rewrite Nat.eqb_eq, Hph. split.
      * intros [[H1 H2] | H]; split; auto.
      * intros [_ H]. now right.
    + apply orb_false_iff in Ee as [E1 E2]. rewrite E1. split.
      * intros [[H _] | H]; discriminate.
      * intros [H _]; discriminate.
Qed.

(* ================= Xfer instance ================= *)

Lemma s32_prefix_length n : length (s32_prefix n) = 4.
Proof. apply le_bytes_length. Qed.

Lemma xview_tid p : tid (xview p) = pid p. Proof. reflexivity. Qed.
Lemma xview_eof p : teof (xview p) = peof p. Proof. reflexivity. Qed.
Lemma tview_tid p : tid (tview p) = pid p. Proof. reflexivity. Qed.
Lemma tview_eof p : teof (tview p) = peof p. Proof. reflexivity. Qed.

Lemma good_sent_number (view : packet -> nat * bool * list N) cs :
  (forall p, tid (view p) = pid p) -> (forall p, teof (view p) = peof p) -> cs <> [] ->
  good_sent (map view (number 0 cs)).
Proof.
  intros Ht He Hne. unfold good_sent. rewrite map_length, number_length. repeat split.
  - rewrite map_map. rewrite (map_ext _ pid) by exact Ht. apply number_pid.
  - destruct cs; [congruence|]. cbn. discriminate.
  - rewrite Forall_map. pose proof (number_eof 0 cs) as H. eapply Forall_impl; [|exact H].
    cbn. intros p Hp. now rewrite Ht, He.
Qed.

Lemma tbl_tview cs i : map snd (tbl (map tview (number i cs))) = cs.
Proof.
  unfold tbl. rewrite !map_map. cbn. rewrite <- (number_pdata i cs) at 2. reflexivity.
Qed.

Lemma tbl_xview_tail cs i : 0 < i -> map snd (tbl (map xview (number i cs))) = cs.
Proof.
  revert i; induction cs as [|c r IH]; intros i Hi; [reflexivity|].
  cbn. destruct (Nat.eqb_spec i 0); [lia|]. f_equal. apply IH. lia.
Qed.

Lemma xfer_chunks_head m payload : 4 <= m ->
  exists c0 rest, xfer_chunks m payload = c0 :: rest /\ 4 <= length c0 /\
                  firstn 4 c0 = s32_prefix (length payload).
Proof.
  intros Hm. unfold xfer_chunks.
  set (d := s32_prefix (length payload) ++ payload).
  assert (Hd : d <> []).
  { intros E. apply (f_equal (@length N)) in E. unfold d in E. rewrite app_length, s32_prefix_length in E. cbn in E. lia. }
  destruct (chunk_head m d Hd) as [rest ->]. exists (firstn m d), rest. repeat split.
  - rewrite firstn_length. unfold d. rewrite app_length, s32_prefix_length. lia.
  - rewrite firstn_firstn. replace (Nat.min 4 m) with 4 by lia.
    unfold d. rewrite firstn_app, s32_prefix_length, Nat.sub_diag, firstn_O, app_nil_r.
    apply firstn_all2. rewrite s32_prefix_length. lia.
Qed.

Lemma xfer_table_concat m payload : 4 <= m ->
  concat (map snd (tbl (map xview (xfer_packets m payload)))) = payload.
Proof.
  intros Hm. destruct (xfer_chunks_head m payload Hm) as (c0 & rest & E & Hlen & _).
  unfold xfer_packets. rewrite E. cbn [number map tbl]. cbn [xview pid pdata tid snd fst Nat.eqb concat].
  change (map snd (map (fun t => (tid t, snd t)) (map xview (number 1 rest))))
    with (map snd (tbl (map xview (number 1 rest)))).
  rewrite tbl_xview_tail by lia.
  assert (Hc : concat (c0 :: rest) = s32_prefix (length payload) ++ payload).
  { rewrite <- E. apply chunk_concat. lia. }
  cbn [concat] in Hc.
  assert (Hs : skipn 4 (c0 ++ concat rest) = skipn 4 c0 ++ concat rest).
  { rewrite skipn_app. replace (4 - length c0) with 0 by lia. reflexivity. }
  rewrite <- Hs, Hc, skipn_app, s32_prefix_length, Nat.sub_diag, skipn_O.
  rewrite skipn_all2 by (rewrite s32_prefix_length; lia). reflexivity.
Qed.

Lemma xfer_good_sent m payload : 4 <= m -> good_sent (map xview (xfer_packets m payload)).
Proof.
  intros Hm. apply good_sent_number; auto.
  destruct (xfer_chunks_head m payload Hm) as (c0 & rest & E & _). rewrite E. discriminate.
Qed.

Lemma xfer_packets_length m payload : length (map xview (xfer_packets m payload)) = length (xfer_chunks m payload).
Proof. unfold xfer_packets. now rewrite map_length, number_length. Qed.

(* packets drawn from the sender never make the handler raise *)
Definition wellformed (p : packet) : Prop := pid p = 0 -> 4 <= length (pdata p).

Lemma number_tail_ids i cs p : In p (number i cs) -> i <= pid p.
Proof.
  intros H. assert (In (pid p) (map pid (number i cs))) by now apply in_map.
  rewrite number_pid, in_seq in H0. lia.
Qed.

Lemma xfer_packets_wellformed m payload p : 4 <= m -> In p (xfer_packets m payload) -> wellformed p.
Proof.
  intros Hm Hin H0. destruct (xfer_chunks_head m payload Hm) as (c0 & rest & E & Hlen & _).
  unfold xfer_packets in Hin. rewrite E in Hin. cbn [number] in Hin. destruct Hin as [<-|Hin]; [exact Hlen|].
  apply number_tail_ids in Hin. lia.
Qed.

Lemma xfer_packets_zero m payload p : 4 <= m -> In p (xfer_packets m payload) -> pid p = 0 ->
  firstn 4 (pdata p) = s32_prefix (length payload).
Proof.
  intros Hm Hin H0. destruct (xfer_chunks_head m payload Hm) as (c0 & rest & E & _ & Hp).
  unfold xfer_packets in Hin. rewrite E in Hin. cbn [number] in Hin. destruct Hin as [<-|Hin]; [exact Hp|].
  apply number_tail_ids in Hin. lia.
Qed.

Lemma xfer_run_core turbo l : Forall wellformed l -> forall st,
  exists st', xfer_run turbo l st = Some st' /\ xcore st' = crun (map xview l) (xcore st).
Proof.
  unfold xfer_run. induction l as [|p l IH]; intros Hw st.
  - exists st. split; reflexivity.
  - inversion Hw as [|? ? Hp Hl]; subst. cbn [fold_left map crun].
    unfold xfer_step at 2.
    assert (E : (pid p =? 0) && (length (pdata p) <? 4) = false).
    { destruct (Nat.eqb_spec (pid p) 0) as [E0|]; [|reflexivity]. specialize (Hp E0).
      destruct (Nat.ltb_spec (length (pdata p)) 4); [lia | reflexivity]. }
    rewrite E.
    match goal with |- context [fold_left _ l (Some ?s)] => destruct (IH Hl s) as (st' & Hr & Hc) end.
    exists st'. split; [exact Hr|]. rewrite Hc. reflexivity.
Qed.

Lemma xfer_run_none turbo l : fold_left (fun o p => match o with Some s => xfer_step turbo s p | None => None end) l None = None.
Proof. induction l; cbn; auto. Qed.

(* expected_size: the S32 hint of packet 0 *)
Lemma s32_hint n : (Z.of_nat n < 2 ^ 31)%Z -> to_signed 4 (of_le (s32_prefix n)) = Z.of_nat n.
Proof.
  intros H. unfold s32_prefix. rewrite of_le_le_bytes.
  - apply to_of_signed; [lia|]. unfold signed_range. cbn. lia.
  - apply of_signed_lt. lia.
Qed.

Lemma xfer_step_size turbo st p s1 : xfer_step turbo st p = Some s1 ->
  expected_size s1 = if pid p =? 0 then Some (to_signed 4 (of_le (firstn 4 (pdata p)))) else expected_size st.
Proof.
  unfold xfer_step. destruct ((pid p =? 0) && (length (pdata p) <? 4)); [discriminate|].
  intros H. injection H as <-. reflexivity.
Qed.

Lemma xfer_run_size turbo m payload l : 4 <= m -> (Z.of_nat (length payload) < 2 ^ 31)%Z ->
  Forall (fun p => In p (xfer_packets m payload)) l -> forall st st',
  xfer_run turbo l st = Some st' ->
  expected_size st' = if mem 0 (map pid l) then Some (Z.of_nat (length payload)) else expected_size st.
Proof.
  intros Hm Hsz. unfold xfer_run. induction l as [|p l IH]; intros Hl st st' Hr.
  - cbn in *. now injection Hr as <-.
  - inversion Hl as [|? ? Hp Hl']; subst. cbn [fold_left] in Hr.
    destruct (xfer_step turbo st p) as [s1|] eqn:E1; [|rewrite xfer_run_none in Hr; discriminate].
    rewrite (IH Hl' s1 st' Hr). cbn [map mem existsb].
    rewrite (xfer_step_size _ _ _ _ E1).
    change (existsb (Nat.eqb 0) (map pid l)) with (mem 0 (map pid l)).
    destruct (mem 0 (map pid l)); [now rewrite orb_true_r|]. rewrite orb_false_r.
    rewrite (Nat.eqb_sym 0 (pid p)).
    destruct (Nat.eqb_spec (pid p) 0) as [E0|]; [|reflexivity].
    rewrite (xfer_packets_zero m payload p Hm Hp E0), s32_hint by exact Hsz. reflexivity.
Qed.

(* ================= arrivals drawn from a numbered packet list, seen through a view ================= *)

Section Drawn.
  Variable view : packet -> nat * bool * list N.
  Hypothesis view_tid : forall p, tid (view p) = pid p.
  Variable ps : list packet.
  Hypothesis Hgood : good_sent (map view ps).

  Lemma ids_view l : ids (map view l) = map pid l.
  Proof. unfold ids. rewrite map_map. apply map_ext. exact view_tid. Qed.

  Lemma drawn_map l : Forall (fun p => In p ps) l -> Forall (fun t => In t (map view ps)) (map view l).
  Proof. intros H. rewrite Forall_map. eapply Forall_impl; [|exact H]. cbn. intros p Hp. now apply in_map. Qed.

  Lemma drawn_closed l : Forall (fun p => In p ps) l ->
    crun (map view l) core_init = closed (map view ps) (map view l).
  Proof. intros H. apply crun_closed; [exact Hgood | now apply drawn_map]. Qed.

  Lemma drawn_ids_bounded l : Forall (fun p => In p ps) l -> forall k, In k (map pid l) -> k < length ps.
  Proof.
    intros H k Hk. apply in_map_iff in Hk as [p [<- Hp]]. rewrite Forall_forall in H. specialize (H _ Hp).
    destruct Hgood as [Hids _]. rewrite map_length in Hids.
    assert (In (tid (view p)) (map tid (map view ps))) by (apply in_map; now apply in_map).
    rewrite Hids, in_seq, view_tid in H0. lia.
  Qed.

  Lemma drawn_done_iff l : Forall (fun p => In p ps) l ->
    (is_done (crun (map view l) core_init) = true <-> forall k, In k (map pid l) <-> k < length ps).
  Proof.
    intros H. rewrite (drawn_closed l H), closed_done_iff, map_length, ids_view. split.
    - intros Hall k. split; [now apply drawn_ids_bounded | apply Hall].
    - intros Hall k Hk. now apply Hall.
  Qed.

  Lemma drawn_chunks l : Forall (fun p => In p ps) l ->
    is_done (crun (map view l) core_init) = true -> chunks (crun (map view l) core_init) = tbl (map view ps).
  Proof.
    intros H. rewrite (drawn_closed l H). apply closed_reassemble. apply Hgood.
  Qed.

  Lemma drawn_ext l l' : Forall (fun p => In p ps) l -> Forall (fun p => In p ps) l' ->
    (forall k, In k (map pid l) <-> In k (map pid l')) ->
    crun (map view l) core_init = crun (map view l') core_init.
  Proof.
    intros H H' E. rewrite (drawn_closed l H), (drawn_closed l' H'). apply closed_ext.
    now rewrite !ids_view.
  Qed.
End Drawn.

(* ================= user-facing statements: Xfer ================= *)

Definition drawn_from (ps l : list packet) : Prop := Forall (fun p => In p ps) l.

Lemma drawn_app ps a b : drawn_from ps a -> drawn_from ps b -> drawn_from ps (a ++ b).
Proof. intros; apply Forall_app; auto. Qed.

Lemma xfer_runs turbo m payload l : 4 <= m -> drawn_from (xfer_packets m payload) l ->
  exists st, xfer_run turbo l xinit = Some st /\ xcore st = crun (map xview l) core_init.
Proof.
  intros Hm Hl.
  assert (Hw : Forall wellformed l).
  { eapply Forall_impl; [|exact Hl]. intros p Hp. exact (xfer_packets_wellformed m payload p Hm Hp). }
  destruct (xfer_run_core turbo l Hw xinit) as (st & Hr & Hc). exists st. split; [exact Hr | exact Hc].
Qed.

Lemma xfer_done_iff turbo m payload l st : 4 <= m -> drawn_from (xfer_packets m payload) l ->
  xfer_run turbo l xinit = Some st ->
  (is_done (xcore st) = true <-> forall k, In k (map pid l) <-> k < length (xfer_chunks m payload)).
Proof.
  intros Hm Hl Hr. destruct (xfer_runs turbo m payload l Hm Hl) as (st' & Hr' & Hc).
  rewrite Hr in Hr'. injection Hr' as <-. rewrite Hc.
  rewrite (drawn_done_iff xview xview_tid _ (xfer_good_sent m payload Hm) l Hl).
  unfold xfer_packets. now rewrite number_length.
Qed.

Lemma xfer_reassemble turbo m payload l st : 4 <= m -> drawn_from (xfer_packets m payload) l ->
  xfer_run turbo l xinit = Some st -> is_done (xcore st) = true -> reassemble (xcore st) = payload.
Proof.
  intros Hm Hl Hr Hd. destruct (xfer_runs turbo m payload l Hm Hl) as (st' & Hr' & Hc).
  rewrite Hr in Hr'. injection Hr' as <-. rewrite Hc in *. unfold reassemble.
  rewrite (drawn_chunks xview _ (xfer_good_sent m payload Hm) l Hl Hd).
  now apply xfer_table_concat.
Qed.

Lemma xfer_not_done_early turbo m payload l st k : 4 <= m -> drawn_from (xfer_packets m payload) l ->
  xfer_run turbo l xinit = Some st -> k < length (xfer_chunks m payload) -> ~ In k (map pid l) ->
  is_done (xcore st) = false.
Proof.
  intros Hm Hl Hr Hk Hn. destruct (is_done (xcore st)) eqn:E; auto.
  rewrite (xfer_done_iff turbo m payload l st Hm Hl Hr) in E. exfalso. apply Hn, E, Hk.
Qed.

Lemma xfer_done_stable turbo m payload l l' st : 4 <= m ->
  drawn_from (xfer_packets m payload) l -> drawn_from (xfer_packets m payload) l' ->
  xfer_run turbo l xinit = Some st -> is_done (xcore st) = true ->
  exists st', xfer_run turbo (l ++ l') xinit = Some st' /\ is_done (xcore st') = true /\
              reassemble (xcore st') = payload.
Proof.
  intros Hm Hl Hl' Hr Hd.
  destruct (xfer_runs turbo m payload l Hm Hl) as (s & Hr' & Hc). rewrite Hr in Hr'. injection Hr' as <-.
  destruct (xfer_runs turbo m payload (l ++ l') Hm (drawn_app _ _ _ Hl Hl')) as (st' & Hr2 & Hc2).
  exists st'. split; [exact Hr2|].
  assert (Hd' : is_done (xcore st') = true).
  { rewrite Hc2, map_app, crun_app. apply crun_done_sticky. now rewrite <- Hc. }
  split; [exact Hd'|].
  exact (xfer_reassemble turbo m payload (l ++ l') st' Hm (drawn_app _ _ _ Hl Hl') Hr2 Hd').
Qed.

Lemma xfer_order_dup_irrelevant turbo turbo' m payload l l' st st' : 4 <= m ->
  drawn_from (xfer_packets m payload) l -> drawn_from (xfer_packets m payload) l' ->
  (forall k, In k (map pid l) <-> In k (map pid l')) ->
  xfer_run turbo l xinit = Some st -> xfer_run turbo' l' xinit = Some st' -> xcore st = xcore st'.
Proof.
  intros Hm Hl Hl' E Hr Hr'.
  destruct (xfer_runs turbo m payload l Hm Hl) as (s & H1 & Hc). rewrite Hr in H1. injection H1 as <-.
  destruct (xfer_runs turbo' m payload l' Hm Hl') as (s' & H2 & Hc'). rewrite Hr' in H2. injection H2 as <-.
  rewrite Hc, Hc'. eapply (drawn_ext xview xview_tid); eauto. now apply xfer_good_sent.
Qed.

Lemma xfer_expected_size turbo m payload l st : 4 <= m -> (Z.of_nat (length payload) < 2 ^ 31)%Z ->
  drawn_from (xfer_packets m payload) l -> xfer_run turbo l xinit = Some st -> In 0 (map pid l) ->
  expected_size st = Some (Z.of_nat (length payload)).
Proof.
  intros Hm Hsz Hl Hr H0. rewrite (xfer_run_size turbo m payload l Hm Hsz Hl xinit st Hr).
  apply mem_In in H0. now rewrite H0.
Qed.

(* ================= user-facing statements: Transfer (any chunking chosen by the peer) ================= *)

Lemma transfer_done_iff cs l : cs <> [] -> drawn_from (number 0 cs) l ->
  (is_done (transfer_run l core_init) = true <-> forall k, In k (map pid l) <-> k < length cs).
Proof.
  intros Hne Hl. unfold transfer_run.
  rewrite (drawn_done_iff tview tview_tid _ (good_sent_number tview cs tview_tid tview_eof Hne) l Hl).
  now rewrite number_length.
Qed.

Lemma transfer_reassemble cs l : cs <> [] -> drawn_from (number 0 cs) l ->
  is_done (transfer_run l core_init) = true -> reassemble (transfer_run l core_init) = concat cs.
Proof.
  intros Hne Hl Hd. unfold transfer_run, reassemble in *.
  rewrite (drawn_chunks tview _ (good_sent_number tview cs tview_tid tview_eof Hne) l Hl Hd).
  now rewrite tbl_tview.
Qed.

Lemma transfer_done_stable cs l l' : cs <> [] -> drawn_from (number 0 cs) l -> drawn_from (number 0 cs) l' ->
  is_done (transfer_run l core_init) = true ->
  is_done (transfer_run (l ++ l') core_init) = true /\ reassemble (transfer_run (l ++ l') core_init) = concat cs.
Proof.
  intros Hne Hl Hl' Hd.
  assert (H : is_done (transfer_run (l ++ l') core_init) = true).
  { unfold transfer_run in *. rewrite map_app, crun_app. now apply crun_done_sticky. }
  split; [exact H|]. apply transfer_reassemble; auto. now apply drawn_app.
Qed.

Lemma transfer_order_dup_irrelevant cs l l' : cs <> [] -> drawn_from (number 0 cs) l -> drawn_from (number 0 cs) l' ->
  (forall k, In k (map pid l) <-> In k (map pid l')) -> transfer_run l core_init = transfer_run l' core_init.
Proof.
  intros Hne Hl Hl' E. unfold transfer_run. eapply (drawn_ext tview tview_tid); eauto.
  now apply good_sent_number.
Qed.

(* ================= arbitrary arrivals (any data, any duplication), only ids bounded by the end mark ================= *)

Lemma recv_done_general (view : packet -> nat * bool * list N) l e :
  (forall p, tid (view p) = pid p) -> (forall p, teof (view p) = peof p) ->
  (forall p, In p l -> pid p < e /\ (peof p = true -> S (pid p) = e)) ->
  (is_done (crun (map view l) core_init) = true <->
     existsb peof l = true /\ forall k, k < e -> In k (map pid l)).
Proof.
  intros Ht He Hb.
  assert (Hb' : bounded_by e (map view l)).
  { intros t Hin. apply in_map_iff in Hin as [p [<- Hp]]. rewrite Ht, He. now apply Hb. }
  destruct (crun_general _ e Hb') as [_ H]. rewrite H.
  assert (E1 : existsb teof (map view l) = existsb peof l).
  { clear - He. induction l as [|p l IH]; [reflexivity|]. cbn [map existsb]. now rewrite IH, He. }
  assert (E2 : ids (map view l) = map pid l).
  { unfold ids. rewrite map_map. apply map_ext. exact Ht. }
  now rewrite E1, E2.
Qed.
