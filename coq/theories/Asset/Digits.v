(* C20 (B) - integers as digit strings: str(int), "%08x" % int, int(s), int(s, 16), str(UUID), UUID(s).
   Definitions and their round-trip lemmas.  Text = list of code points (Asset/Schema.v). *)
From Coq Require Import NArith ZArith List Bool Lia ZifyBool ZifyN ZifyNat.
From HV Require Import Asset.Schema.
Import ListNotations.
Local Open Scope N_scope.

Definition digit_char (d : N) : N := if d <? 10 then 48 + d else 87 + d.       (* 0-9 a-f *)

Definition char_digit (c : N) : option N :=
  if (48 <=? c) && (c <=? 57) then Some (c - 48)
  else if (97 <=? c) && (c <=? 102) then Some (c - 87)
  else if (65 <=? c) && (c <=? 70) then Some (c - 55)
  else None.

(* least significant digit first, consed to the front: most significant first in the result *)
Fixpoint digits_fuel (b : N) (f : nat) (n : N) (acc : str) : str :=
  match f with
  | O => acc
  | S f' => let acc' := digit_char (n mod b) :: acc in
            if n / b =? 0 then acc' else digits_fuel b f' (n / b) acc'
  end.

Definition digits (b n : N) : str := digits_fuel b (S (N.to_nat (N.size n))) n [].

Fixpoint parse_digits (b : N) (s : str) (acc : N) : option N :=
  match s with
  | [] => Some acc
  | c :: r => match char_digit c with
              | Some d => if d <? b then parse_digits b r (b * acc + d) else None
              | None => None
              end
  end.

(* int(s) / int(s, 16) on the strings the serialisers produce; anything else is rejected.
   (CPython accepts more: surrounding whitespace, '+', '_', "0x", non-ASCII digits - not modelled.) *)
Definition parse_nat (b : N) (s : str) : option N :=
  match s with [] => None | _ :: _ => parse_digits b s 0 end.

Definition MINUS : N := 45.

Definition int_to_text (z : Z) : str :=                      (* str(int) *)
  if (z <? 0)%Z then MINUS :: digits 10 (Z.abs_N z) else digits 10 (Z.to_N z).

Definition int_of_text (s : str) : option Z :=               (* int(s) *)
  match s with
  | c :: r => if c =? MINUS then option_map (fun n => (- Z.of_N n)%Z) (parse_nat 10 r)
              else option_map Z.of_N (parse_nat 10 s)
  | [] => None
  end.

Definition pad_left (w : nat) (s : str) : str := repeat 48 (w - length s) ++ s.

Definition hex8_to_text (n : N) : str := pad_left 8 (digits 16 n).      (* "%08x" % n, n >= 0 *)
Definition hex_of_text (s : str) : option N := parse_nat 16 s.            (* int(s, 16) *)

(* str(uuid.UUID): 32 lower-case hex digits grouped 8-4-4-4-12 *)
Definition hex32 (u : N) : str := pad_left 32 (digits_fuel 16 32 u []).
Definition uuid_to_text (u : N) : str :=
  let h := hex32 u in
  firstn 8 h ++ MINUS :: firstn 4 (skipn 8 h) ++ MINUS :: firstn 4 (skipn 12 h) ++ MINUS
  :: firstn 4 (skipn 16 h) ++ MINUS :: skipn 20 h.
(* uuid.UUID(hex=s): strip "-" (and braces/urn: prefixes, not modelled), need 32 chars, int(.., 16) *)
Definition uuid_of_text (s : str) : option N :=
  let h := filter (fun c => negb (c =? MINUS)) s in
  if (length h =? 32)%nat then parse_digits 16 h 0 else None.

(* ---------------- lemmas ---------------- *)

Lemma char_digit_char d : d < 16 -> char_digit (digit_char d) = Some d.
Proof.
  intros H. unfold char_digit, digit_char. destruct (N.ltb_spec d 10).
  - replace ((48 <=? 48 + d) && (48 + d <=? 57)) with true by lia. f_equal. lia.
  - replace ((48 <=? 87 + d) && (87 + d <=? 57)) with false by lia.
    replace ((97 <=? 87 + d) && (87 + d <=? 102)) with true by lia. f_equal. lia.
Qed.

Definition hexchar (c : N) : bool := ((48 <=? c) && (c <=? 57)) || ((97 <=? c) && (c <=? 102)).

Lemma digit_char_hex d : d < 16 -> hexchar (digit_char d) = true.
Proof. intros H. unfold hexchar, digit_char. destruct (N.ltb_spec d 10); lia. Qed.

Lemma hexchar_nonspace c : hexchar c = true -> nonspace c = true.
Proof. unfold hexchar, nonspace, is_space. intros H. lia. Qed.

Lemma hexchar_not_minus c : hexchar c = true -> negb (c =? MINUS) = true.
Proof. unfold hexchar, MINUS. intros H. lia. Qed.

Lemma digits_fuel_acc b f : forall n acc, digits_fuel b f n acc = digits_fuel b f n [] ++ acc.
Proof.
  induction f as [|f IH]; intros n acc; [reflexivity|]. cbn [digits_fuel].
  destruct (n / b =? 0); [reflexivity|].
  rewrite IH, (IH (n / b) [digit_char (n mod b)]), <- app_assoc. reflexivity.
Qed.

Lemma parse_digits_app b x : forall y a, parse_digits b (x ++ y) a =
  match parse_digits b x a with Some a' => parse_digits b y a' | None => None end.
Proof.
  induction x as [|c x IH]; intros y a; [reflexivity|]. cbn [app parse_digits].
  destruct (char_digit c) as [d|]; [|reflexivity]. destruct (d <? b); [apply IH | reflexivity].
Qed.

Lemma parse_digits_fuel b f : 2 <= b <= 16 -> forall n, n < b ^ N.of_nat f ->
  parse_digits b (digits_fuel b f n []) 0 = Some n.
Proof.
  intros Hb. induction f as [|f IH]; intros n Hn.
  - cbn in *. f_equal. lia.
  - cbn [digits_fuel]. assert (Hm : n mod b < b) by (apply N.mod_lt; lia).
    destruct (N.eqb_spec (n / b) 0) as [E|E].
    + cbn [parse_digits]. rewrite char_digit_char by lia. replace (n mod b <? b) with true by lia.
      f_equal. rewrite N.mod_small; [lia|]. apply N.div_small_iff in E; lia.
    + rewrite digits_fuel_acc, parse_digits_app, IH.
      * cbn [parse_digits]. rewrite char_digit_char by lia. replace (n mod b <? b) with true by lia.
        f_equal. pose proof (N.div_mod n b ltac:(lia)). lia.
      * rewrite Nat2N.inj_succ, N.pow_succ_r' in Hn. apply N.div_lt_upper_bound; lia.
Qed.

Lemma size_bound b n : 2 <= b -> n < b ^ N.of_nat (S (N.to_nat (N.size n))).
Proof.
  intros Hb. rewrite Nat2N.inj_succ, N2Nat.id, N.pow_succ_r'.
  assert (n < 2 ^ N.size n) by apply N.size_gt.
  assert (2 ^ N.size n <= b ^ N.size n) by (apply N.pow_le_mono_l; lia).
  assert (0 < b ^ N.size n) by (apply N.neq_0_lt_0, N.pow_nonzero; lia). nia.
Qed.

Lemma parse_digits_ok b n : 2 <= b <= 16 -> parse_digits b (digits b n) 0 = Some n.
Proof. intros Hb. apply parse_digits_fuel; [exact Hb | apply size_bound; lia]. Qed.

Lemma digits_fuel_hex b f : 2 <= b <= 16 -> forall n acc, forallb hexchar acc = true ->
  forallb hexchar (digits_fuel b f n acc) = true.
Proof.
  intros Hb. induction f as [|f IH]; intros n acc Ha; [exact Ha|]. cbn [digits_fuel].
  assert (Hm : n mod b < b) by (apply N.mod_lt; lia).
  assert (Hc : forallb hexchar (digit_char (n mod b) :: acc) = true).
  { cbn [forallb]. rewrite digit_char_hex by lia. exact Ha. }
  destruct (n / b =? 0); [exact Hc | now apply IH].
Qed.

Lemma digits_fuel_nonempty b f n : digits_fuel b (S f) n [] <> [].
Proof.
  cbn [digits_fuel]. destruct (n / b =? 0); [discriminate|].
  rewrite digits_fuel_acc. intros E. apply app_eq_nil in E as [_ E]. discriminate.
Qed.

Lemma digits_fuel_length b f : forall n acc, (length (digits_fuel b f n acc) <= f + length acc)%nat.
Proof.
  induction f as [|f IH]; intros n acc; cbn [digits_fuel]; [lia|].
  destruct (n / b =? 0); [cbn; lia|]. specialize (IH (n / b) (digit_char (n mod b) :: acc)). cbn [length] in IH. lia.
Qed.

Lemma digits_hex b n : 2 <= b <= 16 -> forallb hexchar (digits b n) = true.
Proof. intros. now apply digits_fuel_hex. Qed.

Lemma digits_nonempty b n : digits b n <> [].
Proof. apply digits_fuel_nonempty. Qed.

Lemma parse_nat_digits b n : 2 <= b <= 16 -> parse_nat b (digits b n) = Some n.
Proof.
  intros Hb. unfold parse_nat. pose proof (digits_nonempty b n). destruct (digits b n) eqn:E; [congruence|].
  rewrite <- E. now apply parse_digits_ok.
Qed.

(* strings of hex characters are acceptable schema values *)
Lemma forallb_hex_nonspace s : forallb hexchar s = true -> forallb nonspace s = true.
Proof. rewrite !forallb_forall. intros H c Hc. apply hexchar_nonspace, H, Hc. Qed.

Lemma nonspace_not_bad c : nonspace c = true -> bad_val c = false.
Proof. unfold nonspace, is_space, bad_val, TAB, CR, LF. intros H. lia. Qed.

Lemma val_ok_nonspace s : s <> [] -> forallb nonspace s = true -> val_ok s = true.
Proof.
  intros Hne H. unfold val_ok. rewrite forallb_forall in H.
  repeat (apply andb_true_intro; split).
  - destruct s as [|c r]; [congruence|]. apply H. now left.
  - destruct (rev s) as [|c r] eqn:E.
    + apply (f_equal (@rev N)) in E. rewrite rev_involutive in E. cbn in E. congruence.
    + apply H, in_rev. rewrite E. now left.
  - apply negb_true_iff. destruct (existsb bad_val s) eqn:E; [|reflexivity].
    apply existsb_exists in E as [c [Hc Hb]]. rewrite (nonspace_not_bad c (H c Hc)) in Hb. discriminate.
Qed.

(* --- int --- *)
Lemma int_roundtrip z : int_of_text (int_to_text z) = Some z.
Proof.
  unfold int_to_text. destruct (Z.ltb_spec z 0).
  - unfold int_of_text. rewrite N.eqb_refl, parse_nat_digits by lia. cbn [option_map]. f_equal. lia.
  - unfold int_of_text. pose proof (digits_nonempty 10 (Z.to_N z)) as Hne.
    pose proof (digits_hex 10 (Z.to_N z) ltac:(lia)) as Hh.
    destruct (digits 10 (Z.to_N z)) as [|c r] eqn:E; [congruence|].
    assert (Hc : c =? MINUS = false).
    { cbn [forallb] in Hh. apply andb_prop in Hh as [Hc _]. apply hexchar_not_minus in Hc. now apply negb_true_iff. }
    rewrite Hc, <- E, parse_nat_digits by lia. cbn [option_map]. f_equal. lia.
Qed.

Lemma int_text_ok z : val_ok (int_to_text z) = true.
Proof.
  unfold int_to_text. destruct (z <? 0)%Z.
  - apply val_ok_nonspace; [discriminate|]. cbn [forallb]. rewrite forallb_hex_nonspace by (apply digits_hex; lia). reflexivity.
  - apply val_ok_nonspace; [apply digits_nonempty | apply forallb_hex_nonspace, digits_hex; lia].
Qed.

(* --- hex --- *)
Lemma parse_zeros b k s : 2 <= b -> parse_digits b (repeat 48 k ++ s) 0 = parse_digits b s 0.
Proof.
  intros Hb. induction k as [|k IH]; [reflexivity|]. cbn [repeat app parse_digits].
  change (char_digit 48) with (Some 0). cbv iota beta. assert (E : (0 <? b) = true) by lia.
  rewrite E. replace (b * 0 + 0) with 0 by lia. exact IH.
Qed.

Lemma pad_left_hex w s : forallb hexchar s = true -> forallb hexchar (pad_left w s) = true.
Proof.
  intros H. unfold pad_left. rewrite forallb_app, H, andb_true_r.
  induction (w - length s)%nat; [reflexivity|]. cbn. exact IHn.
Qed.

Lemma pad_left_nonempty w s : s <> [] -> pad_left w s <> [].
Proof. unfold pad_left. intros H E. apply app_eq_nil in E as [_ E]. congruence. Qed.

Lemma hex8_roundtrip n : hex_of_text (hex8_to_text n) = Some n.
Proof.
  unfold hex_of_text, hex8_to_text, parse_nat.
  pose proof (pad_left_nonempty 8 _ (digits_nonempty 16 n)) as Hne.
  destruct (pad_left 8 (digits 16 n)) eqn:E; [congruence|]. rewrite <- E.
  unfold pad_left. rewrite parse_zeros by lia. apply parse_digits_ok. lia.
Qed.

Lemma hex8_text_ok n : val_ok (hex8_to_text n) = true.
Proof.
  apply val_ok_nonspace; [apply pad_left_nonempty, digits_nonempty|].
  apply forallb_hex_nonspace, pad_left_hex, digits_hex. lia.
Qed.

(* --- UUID --- *)
Lemma hex32_length u : length (hex32 u) = 32%nat.
Proof.
  unfold hex32, pad_left. rewrite app_length, repeat_length.
  pose proof (digits_fuel_length 16 32 u []). cbn [length] in H. lia.
Qed.

Lemma hex32_hex u : forallb hexchar (hex32 u) = true.
Proof. apply pad_left_hex, digits_fuel_hex; [lia | reflexivity]. Qed.

Lemma filter_id {A} (p : A -> bool) l : forallb p l = true -> filter p l = l.
Proof.
  induction l as [|x l IH]; [reflexivity|]. cbn. intros H. apply andb_prop in H as [Hx Hl]. now rewrite Hx, IH.
Qed.

Lemma forallb_firstn {A} (p : A -> bool) n l : forallb p l = true -> forallb p (firstn n l) = true.
Proof.
  revert l; induction n as [|n IH]; intros [|x l] H; try reflexivity. cbn in *.
  apply andb_prop in H as [Hx Hl]. now rewrite Hx, IH.
Qed.

Lemma forallb_skipn {A} (p : A -> bool) n l : forallb p l = true -> forallb p (skipn n l) = true.
Proof.
  revert l; induction n as [|n IH]; intros [|x l] H; try reflexivity; try exact H. cbn in *.
  apply andb_prop in H as [_ Hl]. now apply IH.
Qed.

Lemma skipn_skipn' {A} a b (l : list A) : skipn a (skipn b l) = skipn (a + b) l.
Proof.
  revert l; induction b as [|b IH]; intros l.
  - now rewrite Nat.add_0_r.
  - rewrite Nat.add_succ_r. destruct l; [now rewrite !skipn_nil|]. cbn [skipn]. apply IH.
Qed.

Lemma uuid_strip_dashes u :
  filter (fun c => negb (c =? MINUS)) (uuid_to_text u) = hex32 u.
Proof.
  unfold uuid_to_text. set (h := hex32 u). set (p := fun c => negb (c =? MINUS)).
  assert (Hp : forallb p h = true).
  { pose proof (hex32_hex u) as H. fold h in H. rewrite forallb_forall in *. intros c Hc. apply hexchar_not_minus, H, Hc. }
  assert (Hm : p MINUS = false) by reflexivity.
  repeat (rewrite filter_app; cbn [filter]; rewrite ?Hm).
  rewrite !filter_id by (try apply forallb_firstn; try apply forallb_skipn; exact Hp).
  rewrite <- (firstn_skipn 8 h) at 6.
  f_equal. rewrite <- (firstn_skipn 4 (skipn 8 h)) at 2. f_equal.
  rewrite skipn_skipn'. change (4 + 8)%nat with 12%nat.
  rewrite <- (firstn_skipn 4 (skipn 12 h)) at 2. f_equal.
  rewrite skipn_skipn'. change (4 + 12)%nat with 16%nat.
  rewrite <- (firstn_skipn 4 (skipn 16 h)) at 2. f_equal.
  rewrite skipn_skipn'. reflexivity.
Qed.

Lemma uuid_roundtrip u : u < 2 ^ 128 -> uuid_of_text (uuid_to_text u) = Some u.
Proof.
  intros Hu. unfold uuid_of_text. rewrite uuid_strip_dashes, hex32_length, Nat.eqb_refl.
  unfold hex32, pad_left. rewrite parse_zeros by lia. apply parse_digits_fuel; [lia|].
  change (16 ^ N.of_nat 32) with (2 ^ 128). exact Hu.
Qed.

Lemma uuid_text_length u : length (uuid_to_text u) = 36%nat.
Proof.
  unfold uuid_to_text. pose proof (hex32_length u) as H.
  repeat (rewrite app_length || cbn [length]). rewrite !firstn_length, !skipn_length. lia.
Qed.

Lemma uuid_text_ok u : val_ok (uuid_to_text u) = true.
Proof.
  apply val_ok_nonspace.
  - intros E. apply (f_equal (@length N)) in E. rewrite uuid_text_length in E. discriminate.
  - unfold uuid_to_text. pose proof (forallb_hex_nonspace _ (hex32_hex u)) as H.
    repeat (rewrite forallb_app; cbn [forallb]).
    rewrite !forallb_firstn by (try apply forallb_skipn; exact H).
    rewrite !forallb_skipn by exact H. reflexivity.
Qed.
