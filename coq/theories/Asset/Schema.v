(* C20 (B) - legacy line-oriented schema: the line framing.  Definitions only.

   legacy_schema.py  _SCHEMA_LINE_TOKENS_RE / parse_schema_line, SchemaMultilineStr
   inventory.py      _yield_schema_tokens, InventoryBase.to_writer (line layout)

   Text is a list of code points [N]; a reader is the list of its remaining lines
   (readline() = next element; the trailing "\n" is dropped, strip() would remove it). *)
From Coq Require Import NArith List Bool.
Import ListNotations.
Local Open Scope N_scope.

Definition str := list N.

(* str.isspace() == the regex class \s for str patterns *)
Definition is_space (c : N) : bool :=
  ((9 <=? c) && (c <=? 13)) || ((28 <=? c) && (c <=? 32)) || (c =? 133) || (c =? 160) || (c =? 5760)
  || ((8192 <=? c) && (c <=? 8202)) || (c =? 8232) || (c =? 8233) || (c =? 8239) || (c =? 8287) || (c =? 12288).

Definition TAB : N := 9.
Definition LF : N := 10.
Definition CR : N := 13.
Definition PIPE : N := 124.
Definition LBRACE : N := 123.
Definition RBRACE : N := 125.

Fixpoint lstrip (l : str) : str :=
  match l with
  | [] => []
  | c :: r => if is_space c then lstrip r else l
  end.
Definition rstrip (l : str) : str := rev (lstrip (rev l)).
Definition strip (l : str) : str := rstrip (lstrip l).

(* ([^\s]+) : maximal run of non-space characters *)
Fixpoint span_nonspace (l : str) : str * str :=
  match l with
  | [] => ([], [])
  | c :: r => if is_space c then ([], l) else let (k, t) := span_nonspace r in (c :: k, t)
  end.

(* [^\t\r\n] *)
Definition bad_val (c : N) : bool := (c =? TAB) || (c =? CR) || (c =? LF).

(* parse_schema_line on a stripped, non-empty line (the only way _yield_schema_tokens calls it):
   \A\s*([^\s]+)(\s+([^\t\r\n]+))?$   ; None = SchemaParsingError *)
Definition parse_stripped (s : str) : option (str * option str) :=
  let (key, rest) := span_nonspace s in
  match key with
  | [] => None
  | _ :: _ =>
    match rest with
    | [] => Some (key, None)
    | _ :: _ =>
      let v := lstrip rest in
      match v with
      | [] => None
      | _ :: _ => if existsb bad_val v then None else Some (key, Some v)
      end
    end
  end.

Fixpoint str_eqb (a b : str) : bool :=
  match a, b with
  | [], [] => true
  | x :: a', y :: b' => (x =? y) && str_eqb a' b'
  | _, _ => false
  end.

(* _yield_schema_tokens on the lines still in the reader: the (key, value) tokens up to the closing
   brace, and the lines left in the reader afterwards (in_bracket only drives warnings) *)
Fixpoint read_block (lines : list str) : list (str * option str) * list str :=
  match lines with
  | [] => ([], [])
  | l :: rest =>
    match strip l with
    | [] => read_block rest                      (* whitespace-only lines are skipped *)
    | s =>
      match parse_stripped s with
      | None => read_block rest                  (* invalid line: warning, skipped *)
      | Some (k, v) =>
        if str_eqb k [LBRACE] then read_block rest
        else if str_eqb k [RBRACE] then ([], rest)
        else let (ts, rem) := read_block rest in ((k, v) :: ts, rem)
      end
    end
  end.

(* to_writer: one field line, and a block *)
Definition render_field (kv : str * str) : str := TAB :: TAB :: fst kv ++ TAB :: snd kv.
Definition render_block (fields : list (str * str)) : list str :=
  [TAB; LBRACE] :: map render_field fields ++ [[TAB; RBRACE]].

(* SchemaMultilineStr *)
Definition mstr_serialize (s : str) : str := s ++ [PIPE].
Fixpoint mstr_deserialize (v : str) : str :=         (* val.partition("|")[0] *)
  match v with
  | [] => []
  | c :: r => if c =? PIPE then [] else c :: mstr_deserialize r
  end.

(* ---------- domains ---------- *)
Definition nonspace (c : N) : bool := negb (is_space c).

Definition key_ok (k : str) : bool :=
  match k with [] => false | _ :: _ => true end && forallb nonspace k
  && negb (str_eqb k [LBRACE]) && negb (str_eqb k [RBRACE]).

Definition val_ok (v : str) : bool :=
  match v with [] => false | c :: _ => nonspace c end
  && match rev v with [] => false | c :: _ => nonspace c end
  && negb (existsb bad_val v).

(* what a multi-line string may contain so that it survives: *)
Definition mstr_ok (s : str) : bool :=
  negb (existsb bad_val s) && negb (existsb (N.eqb PIPE) s)
  && match s with [] => true | c :: _ => nonspace c end.
