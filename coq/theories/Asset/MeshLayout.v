(* C20 - mesh asset container (hippolyzer/lib/base/mesh.py, LLMeshSerializer.serialize / deserialize).
   Definitions only.

   A mesh asset on the wire is  binary-LLSD(header) ++ body.  The header is a map; every entry whose value is a map
   with both "offset" and "size" is a SEGMENT HEADER and says where the segment's zlib-compressed LLSD blob lies
   inside the body.  What is modelled here is the container: which blobs are written, in which order, with which
   offsets, and how the reader cuts the body up again.  The contents are oracles (Section variables, C12/C10/zlib):

     X                 any LLSD value the container does not look into (non-segment header entries; the entries of
                       a segment header other than offset/size, e.g. physics_havok's "version")
     S                 a decoded segment (the LLSD tree after SEGMENT_TEMPLATES[..].deserialize)
     enc_hdr, dec_hdr  se.BinaryLLSD on the header map
     deflate k         zip_llsd (after SEGMENT_TEMPLATES[k].serialize when k has a template)
     inflate k         unzip_llsd + SEGMENT_TEMPLATES[k].deserialize: a value, zlib.error, or any other exception

   A Python dict is its list of items in insertion order; keys are the UTF-8 bytes of the str.  Offsets and
   sizes read from a foreign header are arbitrary integers ([Z]): the reader is modelled with Python's slice
   semantics for a negative size and the IOError of BufferReader.seek for a position outside the buffer. *)
From Coq Require Import NArith ZArith List Bool.
From HV Require Import Base.Bytes.
Import ListNotations.
Open Scope N_scope.

Definition bytes := list N.
Definition key := list N.

Fixpoint key_eqb (a b : key) : bool :=
  match a, b with
  | [], [] => true
  | x :: a', y :: b' => (x =? y) && key_eqb a' b'
  | _, _ => false
  end.

Fixpoint lookup {V : Type} (k : key) (l : list (key * V)) : option V :=
  match l with
  | [] => None
  | (k', v) :: r => if key_eqb k k' then Some v else lookup k r
  end.

Definition kmem (k : key) (l : list key) : bool := existsb (key_eqb k) l.

(* d[k] = v on a dict: replace in place, or append *)
Fixpoint dset {V : Type} (k : key) (v : V) (l : list (key * V)) : list (key * V) :=
  match l with
  | [] => [(k, v)]
  | (k', v') :: r => if key_eqb k k' then (k', v) :: r else (k', v') :: dset k v r
  end.

(* ---------- LLMeshSerializer._segment_sort and sorted(keys, key=_segment_sort) ---------- *)

Fixpoint index_of (k : key) (l : list key) (i : N) : option N :=
  match l with
  | [] => None
  | k' :: r => if key_eqb k k' then Some i else index_of k r (i + 1)
  end.

(* KNOWN_SEGMENTS.index(key), or 0xFFFFFFFF for an unknown name *)
Definition rank (known : list key) (k : key) : N :=
  match index_of k known 0 with Some i => i | None => 4294967295 end.

(* sorted() is stable: insertion after every element whose rank is not larger *)
Fixpoint insert_by (rk : key -> N) (k : key) (l : list key) : list key :=
  match l with
  | [] => [k]
  | k' :: r => if rk k <? rk k' then k :: l else k' :: insert_by rk k r
  end.

Definition sort_keys (rk : key -> N) (l : list key) : list key :=
  fold_left (fun acc k => insert_by rk k acc) l [].

(* the literal KNOWN_SEGMENTS tuple (gen/C20_mesh.v checks it against the live class on every run) *)
Definition ascii_key (l : list N) : key := l.
Definition known_segments : list key := [
  [108; 111; 119; 101; 115; 116; 95; 108; 111; 100];                        (* lowest_lod *)
  [108; 111; 119; 95; 108; 111; 100];                                       (* low_lod *)
  [109; 101; 100; 105; 117; 109; 95; 108; 111; 100];                        (* medium_lod *)
  [104; 105; 103; 104; 95; 108; 111; 100];                                  (* high_lod *)
  [112; 104; 121; 115; 105; 99; 115; 95; 109; 101; 115; 104];               (* physics_mesh *)
  [112; 104; 121; 115; 105; 99; 115; 95; 99; 111; 110; 118; 101; 120];      (* physics_convex *)
  [115; 107; 105; 110];                                                     (* skin *)
  [112; 104; 121; 115; 105; 99; 115; 95; 104; 97; 118; 111; 107] ].         (* physics_havok *)

Inductive inflated (S : Type) : Type :=
  | IOk (s : S)           (* unzip_llsd (+ template decoding) returned a value *)
  | IZlib                 (* zlib.error *)
  | IOther.               (* any other exception (LLSD parse error, template decoding) *)
Arguments IOk {S} s.
Arguments IZlib {S}.
Arguments IOther {S}.

Section Mesh.
  Variable X : Type.
  Variable S : Type.

  (* a header value: a segment header {offset, size, + other entries} or anything else *)
  Inductive hval : Type :=
    | HSeg (off size : Z) (extra : X)
    | HOther (x : X).

  Definition mheader : Type := list (key * hval).

  (* a segment as held by MeshAsset.segments: a decoded tree, or bytes written as they are *)
  Inductive segval : Type :=
    | SParsed (s : S)
    | SBytes (b : bytes).

  Record mesh := mkMesh {
    m_header : mheader;
    m_segments : list (key * segval);
    m_raw : list (key * bytes) }.

  Variable rk : key -> N.
  Variable deflate : key -> S -> bytes.
  Variable inflate : key -> bytes -> inflated S.
  Variable enc_hdr : mheader -> bytes.
  Variable dec_hdr : bytes -> option (mheader * bytes).

  (* ---------- serialize ---------- *)

  Definition is_seg (v : hval) : bool := match v with HSeg _ _ _ => true | HOther _ => false end.

  (* segment_header["offset"] = ..; segment_header["size"] = ..  on new_header[key] *)
  Definition set_seg (k : key) (off size : Z) (h : mheader) : mheader :=
    map (fun kv => if key_eqb k (fst kv)
                   then match snd kv with HSeg _ _ e => (fst kv, HSeg off size e) | HOther _ => kv end
                   else kv) h.

  (* val.segments.get(key, val.raw_segments.get(key)) *)
  Definition seg_value (m : mesh) (k : key) : option segval :=
    match lookup k (m_segments m) with
    | Some v => Some v
    | None => option_map SBytes (lookup k (m_raw m))
    end.

  Definition blob_of (k : key) (v : segval) : bytes := match v with SParsed s => deflate k s | SBytes b => b end.

  (* one turn of `for key in sorted(new_header.keys(), key=self._segment_sort)`; state = (new_header, inner_writer) *)
  Definition write_step (allow : bool) (m : mesh) (st : option (mheader * bytes)) (k : key) : option (mheader * bytes) :=
    match st with
    | None => None
    | Some (h, body) =>
      match lookup k h with
      | Some (HSeg _ _ _) =>
        match seg_value m k with
        | None => if allow then st else None                 (* allow_invalid_segments / ValueError *)
        | Some v =>
          let blob := blob_of k v in
          Some (set_seg k (Z.of_nat (length body)) (Z.of_nat (length blob)) h, body ++ blob)
        end
      | _ => st                                               (* not a segment header: continue *)
      end
    end.

  (* all_segs - set(header.keys()) non-empty: ValueError *)
  Definition missing_headers (m : mesh) : bool :=
    existsb (fun k => negb (kmem k (map fst (m_header m)))) (map fst (m_segments m) ++ map fst (m_raw m)).

  (* the rewritten header and the body *)
  Definition write_layout (allow : bool) (m : mesh) : option (mheader * bytes) :=
    if missing_headers m then None
    else fold_left (write_step allow m) (sort_keys rk (map fst (m_header m))) (Some (m_header m, [])).

  Definition write_mesh (allow : bool) (m : mesh) : option bytes :=
    match write_layout allow m with
    | Some (h, body) => Some (enc_hdr h ++ body)
    | None => None
    end.

  (* ---------- deserialize ---------- *)

  (* reader.seek(pos); reader.read_bytes(size)  with pos already known to be inside the buffer *)
  Definition slice (buf : bytes) (pos size : Z) : bytes :=
    if (size <=? 0)%Z then [] else firstn (Z.to_nat size) (skipn (Z.to_nat pos) buf).

  Definition all_zero (b : bytes) : bool := forallb (fun x => x =? 0) b.

  (* one turn of `for key, segment_header in mesh.header.items()`; state = (mesh.segments, mesh.raw_segments) *)
  Definition parse_step (allow incl : bool) (buf : bytes) (header_end after : Z)
             (st : option (list (key * S) * list (key * bytes))) (kv : key * hval)
    : option (list (key * S) * list (key * bytes)) :=
    match st with
    | None => None
    | Some (segs, raws) =>
      match snd kv with
      | HOther _ => st
      | HSeg off size _ =>
        if (after <? off + size)%Z then (if allow then st else None)        (* "would pass EOF" *)
        else
          let pos := (header_end + off)%Z in
          if (pos <? 0)%Z || (Z.of_nat (length buf) <? pos)%Z then None      (* IOError from seek, never caught *)
          else
            let b := slice buf pos size in
            if allow && all_zero b then st                                   (* padding segment *)
            else match inflate (fst kv) b with
                 | IOk s => Some (dset (fst kv) s segs, if incl then dset (fst kv) b raws else raws)
                 | IZlib => if allow then st else None
                 | IOther => None
                 end
      end
    end.

  Definition parse_segments (allow incl : bool) (buf : bytes) (header_end : Z) (h : mheader)
    : option (list (key * S) * list (key * bytes)) :=
    fold_left (parse_step allow incl buf header_end (Z.of_nat (length buf) - header_end)%Z) h (Some ([], [])).

  (* the parsed MeshAsset: header as read, decoded segments, raw segment bytes (include_raw_segments) *)
  Record parsed := mkParsed {
    p_header : mheader;
    p_segments : list (key * S);
    p_raw : list (key * bytes) }.

  Definition parse_mesh (allow incl : bool) (buf : bytes) : option parsed :=
    match dec_hdr buf with
    | None => None
    | Some (h, rest) =>
      match parse_segments allow incl buf (Z.of_nat (length buf) - Z.of_nat (length rest))%Z h with
      | None => None
      | Some (segs, raws) => Some (mkParsed h segs raws)
      end
    end.

  (* the MeshAsset a parse gives back, as a value that can be serialised again *)
  Definition mesh_of_parsed (p : parsed) : mesh :=
    mkMesh (p_header p) (map (fun ks => (fst ks, SParsed (snd ks))) (p_segments p)) (p_raw p).

  (* header with the layout fields blanked: what the comparison of two assets ignores *)
  Definition strip_layout (h : mheader) : mheader :=
    map (fun kv => match snd kv with HSeg _ _ e => (fst kv, HSeg 0 0 e) | HOther _ => kv end) h.

End Mesh.

Arguments HSeg {X} off size extra.
Arguments HOther {X} x.
Arguments SParsed {S} s.
Arguments SBytes {S} b.
Arguments mheader X : clear implicits.
Arguments mesh X S : clear implicits.
Arguments parsed X S : clear implicits.
Arguments mkMesh {X S} m_header m_segments m_raw.
Arguments m_header {X S} m.
Arguments m_segments {X S} m.
Arguments m_raw {X S} m.
Arguments mkParsed {X S} p_header p_segments p_raw.
Arguments p_header {X S} p.
Arguments p_segments {X S} p.
Arguments p_raw {X S} p.
Arguments is_seg {X} v.
Arguments set_seg {X} k off size h.
Arguments seg_value {X S} m k.
Arguments blob_of {S} deflate k v.
Arguments write_step {X S} deflate allow m st k.
Arguments missing_headers {X S} m.
Arguments write_layout {X S} rk deflate allow m.
Arguments write_mesh {X S} rk deflate enc_hdr allow m.
Arguments parse_step {X S} inflate allow incl buf header_end after st kv.
Arguments parse_segments {X S} inflate allow incl buf header_end h.
Arguments parse_mesh {X S} inflate dec_hdr allow incl buf.
Arguments mesh_of_parsed {X S} p.
Arguments strip_layout {X} h.
