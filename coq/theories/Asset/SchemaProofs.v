(* C20 (B) - lemmas about Asset/Schema.v *)
From Coq Require Import NArith List Bool Lia ZifyBool ZifyN.
From HV Require Import Asset.Schema.
Import ListNotations.
Local Open Scope N_scope.

Lemma str_eqb_eq a b : str_eqb a b = true <-> a = b.
Proof.
  revert b; induction a as [|x a IH]; intros [|y b]; cbn; try (split; congruence).
  rewrite andb_true_iff, N.eqb_eq, IH. split; [intros [-> ->]; reflexivity | intros H; injection H; auto].
Qed.

Lemma lstrip_id c r : is_space c = false -> lstrip (c :: r) = c :: r.
Proof. intros H. cbn. now rewrite H. Qed.

Lemma is_space_tab : is_space TAB = true. Proof. reflexivity. Qed.
Lemma nonspace_lbrace : is_space LBRACE = false. Proof. reflexivity. Qed.
Lemma nonspace_rbrace : is_space RBRACE = false. Proof. reflexivity. Qed.
Lemma nonspace_pipe : is_space PIPE = false. Proof. reflexivity. Qed.

Lemma rstrip_id l c r : rev l = c :: r -> is_space c = false -> rstrip l = l.
Proof. intros E H. unfold rstrip. rewrite E, lstrip_id by exact H. rewrite <- E. apply rev_involutive. Qed.

Lemma span_nonspace_key k c r : forallb nonspace k = true -> is_space c = true ->
  span_nonspace (k ++ c :: r) = (k, c :: r).
Proof.
  intros Hk Hc. induction k as [|x k IH]; cbn.
  - now rewrite Hc.
  - cbn in Hk. apply andb_prop in Hk as [Hx Hk]. unfold nonspace in Hx.
    destruct (is_space x); [discriminate|]. now rewrite (IH Hk).
Qed.

Lemma span_nonspace_all k : forallb nonspace k = true -> span_nonspace k = (k, []).
Proof.
  intros Hk. induction k as [|x k IH]; cbn; [reflexivity|].
  cbn in Hk. apply andb_prop in Hk as [Hx Hk]. unfold nonspace in Hx.
  destruct (is_space x); [discriminate|]. now rewrite (IH Hk).
Qed.

Lemma key_ok_inv k : key_ok k = true ->
  (exists c r, k = c :: r /\ is_space c = false) /\ forallb nonspace k = true
  /\ str_eqb k [LBRACE] = false /\ str_eqb k [RBRACE] = false.
Proof.
  unfold key_ok. intros H. repeat (apply andb_prop in H as [H ?]).
  destruct k as [|c r]; [discriminate|]. repeat split; auto.
  - exists c, r. split; auto. cbn in H2. apply andb_prop in H2 as [Hc _]. unfold nonspace in Hc.
    now destruct (is_space c).
  - now apply negb_true_iff.
  - now apply negb_true_iff.
Qed.

Lemma val_ok_inv v : val_ok v = true ->
  (exists c r, v = c :: r /\ is_space c = false) /\ (exists c r, rev v = c :: r /\ is_space c = false)
  /\ existsb bad_val v = false.
Proof.
  unfold val_ok. intros H. repeat (apply andb_prop in H as [H ?]).
  repeat split.
  - destruct v as [|c r]; [discriminate|]. exists c, r. split; auto. unfold nonspace in H. now destruct (is_space c).
  - destruct (rev v) as [|c r]; [discriminate|]. exists c, r. split; auto. unfold nonspace in H1. now destruct (is_space c).
  - now apply negb_true_iff.
Qed.

(* B1: one rendered field line is read back as exactly its key and value *)
Lemma strip_render_field k v : key_ok k = true -> val_ok v = true ->
  strip (render_field (k, v)) = k ++ TAB :: v.
Proof.
  intros Hk Hv. apply key_ok_inv in Hk as ((c & r & -> & Hc) & _).
  apply val_ok_inv in Hv as (_ & (d & t & Hrev & Hd) & _).
  unfold strip, render_field. cbn [fst snd].
  assert (E : lstrip (TAB :: TAB :: (c :: r) ++ TAB :: v) = (c :: r) ++ TAB :: v).
  { cbn [lstrip]. rewrite is_space_tab. cbn [app lstrip]. now rewrite Hc. }
  rewrite E. eapply (rstrip_id _ d (t ++ rev (c :: r ++ [TAB]))); [|exact Hd].
  replace ((c :: r) ++ TAB :: v) with ((c :: r ++ [TAB]) ++ v) by (cbn; rewrite <- app_assoc; reflexivity).
  rewrite rev_app_distr, Hrev. reflexivity.
Qed.

Lemma parse_field k v : key_ok k = true -> val_ok v = true ->
  parse_stripped (k ++ TAB :: v) = Some (k, Some v).
Proof.
  intros Hk Hv. apply key_ok_inv in Hk as ((c & r & Ek & Hc) & Hall & _).
  apply val_ok_inv in Hv as ((d & t & Ev & Hd) & _ & Hbad).
  unfold parse_stripped. rewrite (span_nonspace_key k TAB v Hall is_space_tab).
  subst k. cbn [lstrip]. rewrite is_space_tab. subst v. rewrite lstrip_id by exact Hd.
  now rewrite Hbad.
Qed.

Lemma strip_brace b : is_space b = false -> strip [TAB; b] = [b].
Proof. intros H. unfold strip. cbn [lstrip]. rewrite is_space_tab. cbn [lstrip]. rewrite H. unfold rstrip. cbn. now rewrite H. Qed.

Lemma parse_single b : is_space b = false -> parse_stripped [b] = Some ([b], None).
Proof. intros H. unfold parse_stripped. cbn. now rewrite H. Qed.

(* B3: a rendered block is read back as its fields, and the reader is left right after the closing
   brace (so enclosing / following blocks compose) *)
Lemma read_fields fields rest :
  Forall (fun kv => key_ok (fst kv) = true /\ val_ok (snd kv) = true) fields ->
  read_block (map render_field fields ++ [TAB; RBRACE] :: rest)
  = (map (fun kv => (fst kv, Some (snd kv))) fields, rest).
Proof.
  induction fields as [|[k v] fs IH]; intros H.
  - cbn [map app read_block]. rewrite (strip_brace RBRACE nonspace_rbrace), (parse_single RBRACE nonspace_rbrace).
    reflexivity.
  - inversion H as [|? ? [Hk Hv] Hfs]; subst. cbn [fst snd] in *.
    cbn [map app read_block]. rewrite (strip_render_field k v Hk Hv).
    pose proof (key_ok_inv k Hk) as ((c & r & Ek & _) & _ & Hl & Hr).
    destruct (k ++ TAB :: v) as [|x xs] eqn:E; [subst k; discriminate|]. rewrite <- E.
    rewrite (parse_field k v Hk Hv), Hl, Hr, (IH Hfs). reflexivity.
Qed.

Lemma read_render_block fields rest :
  Forall (fun kv => key_ok (fst kv) = true /\ val_ok (snd kv) = true) fields ->
  read_block (render_block fields ++ rest) = (map (fun kv => (fst kv, Some (snd kv))) fields, rest).
Proof.
  intros H. unfold render_block. cbn [app read_block].
  rewrite (strip_brace LBRACE nonspace_lbrace), (parse_single LBRACE nonspace_lbrace). cbn [str_eqb N.eqb Pos.eqb andb].
  rewrite <- app_assoc. cbn [app]. now apply read_fields.
Qed.

(* whitespace-only lines between fields are harmless *)
Lemma read_block_blank l rest : strip l = [] -> read_block (l :: rest) = read_block rest.
Proof. intros H. cbn [read_block]. now rewrite H. Qed.

(* B2: multi-line strings *)
Lemma mstr_roundtrip s : existsb (N.eqb PIPE) s = false -> mstr_deserialize (mstr_serialize s) = s.
Proof.
  unfold mstr_serialize. induction s as [|c s IH]; intros H.
  - reflexivity.
  - cbn [existsb] in H. apply orb_false_iff in H as [Hc Hs].
    cbn [app mstr_deserialize]. rewrite N.eqb_sym, Hc. now rewrite IH.
Qed.

Lemma existsb_app_false {A} (f : A -> bool) a b : existsb f a = false -> existsb f b = false -> existsb f (a ++ b) = false.
Proof. intros. rewrite existsb_app. now rewrite H, H0. Qed.

Lemma mstr_val_ok s : mstr_ok s = true -> val_ok (mstr_serialize s) = true.
Proof.
  unfold mstr_ok, val_ok, mstr_serialize. intros H. repeat (apply andb_prop in H as [H ?]).
  apply negb_true_iff in H. rewrite rev_app_distr. cbn [rev app].
  repeat (apply andb_true_intro; split).
  - destruct s; cbn; auto.
  - reflexivity.
  - apply negb_true_iff, existsb_app_false; auto.
Qed.
