(* C20 (3) - lemmas about Asset/Llsd.v *)
From Coq Require Import NArith ZArith List Bool Lia ZifyBool ZifyN.
From HV Require Import Base.Bytes Asset.Schema Asset.SchemaProofs Asset.Digits Asset.Record Asset.RecordProofs Asset.Llsd.
Import ListNotations.
Local Open Scope N_scope.

Lemma back_conv fl k v : dom_l fl k v = true -> back fl k (conv fl k v) = Some v.
Proof.
  destruct k, v; cbn [dom_l conv back]; try discriminate; intros H; try reflexivity.
  - now rewrite N2Z.id.
  - destruct fl.
    + rewrite be_bytes_length, Nat.eqb_refl, of_be_be_bytes; [reflexivity|]. change (256 ^ N.of_nat 4) with (2 ^ 32). lia.
    + now rewrite N2Z.id.
  - destruct (assoc_z to_tbl z) as [s|] eqn:E; [|discriminate].
    destruct fl.
    + destruct (assoc_s from_tbl s) as [e'|]; [|discriminate]. apply Z.eqb_eq in H. now subst.
    + now rewrite E.
Qed.

Definition entry_l {V} (f : V) (ov : option V) : option (option V) := match ov with Some v => Some (Some v) | None => None end.

Definition entry_lp (f : pfield) (ov : option pval) : option (option pval) :=
  match ov with Some v => Some (Some v) | None => None end.
Definition entry_lo (f : field) (ov : option fval) : option (option fval) :=
  match f_spec f, ov with
  | FP _, Some (P v) => Some (Some (P v))
  | FB _ _, Some (R vs) => Some (Some (R vs))
  | _, _ => None
  end.

Lemma read_p_to fl sub : forall fs vs tail di,
  Forall (fun f => find_pfield sub (pf_name f) = Some f) fs -> dom_lpfields fl fs vs = true ->
  read_p fl sub (to_llsd_p fl fs vs ++ tail) di = read_p fl sub tail (ents pf_name entry_lp fs vs di).
Proof.
  induction fs as [|f fs IH]; intros vs tail di Hfs Hdom.
  - destruct vs; reflexivity.
  - destruct vs as [|ov vs]; [discriminate|]. cbn [dom_lpfields] in Hdom. apply andb_prop in Hdom as [Hd Hdom].
    inversion Hfs as [|? ? Hfind Hfs']; subst. cbn [to_llsd_p ents]. rewrite <- app_assoc.
    unfold dom_lpfield, entry_lp in *. destruct ov as [v|]; cbn [app].
    + cbn [read_p]. rewrite Hfind, (back_conv fl _ _ Hd). now apply IH.
    + now apply IH.
Qed.

Lemma dom_lp_ok fl fs : forall vs, dom_lpfields fl fs vs = true -> Forall2 (ok pf_default entry_lp) fs vs.
Proof.
  induction fs as [|f fs IH]; intros [|v vs] H; try discriminate; [constructor|].
  cbn [dom_lpfields] in H. apply andb_prop in H as [Hf H]. constructor; [|now apply IH].
  unfold ok, entry_lp, dom_lpfield in *. destruct v; [reflexivity|].
  destruct (pf_default f) as [[?|]|]; try discriminate. reflexivity.
Qed.

Lemma from_llsd_p_to fl sub vs : nodup_str (map pf_name sub) = true -> dom_lpfields fl sub vs = true ->
  from_llsd_p fl sub (to_llsd_p fl sub vs) = Some vs.
Proof.
  intros Hnd Hdom. apply nodup_str_spec in Hnd. unfold from_llsd_p.
  rewrite <- (app_nil_r (to_llsd_p fl sub vs)).
  rewrite (read_p_to fl sub sub vs [] [] (find_pfield_self sub Hnd) Hdom). cbn [read_p]. unfold build_p.
  apply (build_ents pf_name pf_default entry_lp sub vs Hnd (dom_lp_ok fl sub vs Hdom)).
Qed.

Lemma read_o_to fl S : forall fs r tail acc,
  Forall (fun f => find_field S (f_name f) = Some f) fs -> dom_llsd fl fs r = true ->
  read_o fl S (to_llsd fl fs r ++ tail) acc = read_o fl S tail (ents f_name entry_lo fs r acc).
Proof.
  induction fs as [|f fs IH]; intros r tail acc Hfs Hdom.
  - destruct r; reflexivity.
  - destruct r as [|ov r]; [discriminate|]. cbn [dom_llsd] in Hdom. apply andb_prop in Hdom as [Hd Hdom].
    inversion Hfs as [|? ? Hfind Hfs']; subst. cbn [to_llsd ents]. rewrite <- app_assoc.
    unfold dom_lfield, entry_lo, to_llsd_field in *.
    destruct (f_spec f) as [k|sname sub] eqn:Esp; destruct ov as [[v|vs]|]; try discriminate; cbn [app].
    + cbn [read_o]. rewrite Hfind, Esp, (back_conv fl _ _ Hd). now apply IH.
    + now apply IH.
    + apply andb_prop in Hd as [Hd Hnd]. cbn [read_o]. rewrite Hfind, Esp, (from_llsd_p_to fl sub vs Hnd Hd). now apply IH.
    + now apply IH.
Qed.

Lemma read_o_unknown fl S extra acc : Forall (fun kv => find_field S (fst kv) = None) extra ->
  read_o fl S extra acc = Some acc.
Proof.
  induction extra as [|[k l] extra IH]; intros H; [reflexivity|]. inversion H as [|? ? Hk Hrest]; subst.
  cbn [read_o]. cbn [fst] in Hk. rewrite Hk. now apply IH.
Qed.

Lemma dom_llsd_ok fl fs : forall r, dom_llsd fl fs r = true -> Forall2 (ok f_default entry_lo) fs r.
Proof.
  induction fs as [|f fs IH]; intros [|v r] H; try discriminate; [constructor|].
  cbn [dom_llsd] in H. apply andb_prop in H as [Hf H]. constructor; [|now apply IH].
  unfold ok, entry_lo, dom_lfield in *.
  destruct (f_spec f) as [k|sname sub]; destruct v as [[v|vs]|]; try discriminate; try reflexivity;
    destruct (f_default f) as [[?|]|]; try discriminate; reflexivity.
Qed.

(* per-node dict round-trip in a flavour; [extra] = keys the reader does not know (AIS sends many) *)
Theorem llsd_roundtrip fl S r extra : wf_keys S = true -> dom_llsd fl S r = true ->
  Forall (fun kv => find_field S (fst kv) = None) extra ->
  from_llsd fl S (to_llsd fl S r ++ extra) = Some r.
Proof.
  intros Hwf Hdom Hextra. unfold wf_keys in Hwf. apply andb_prop in Hwf as [Hnd _]. apply nodup_str_spec in Hnd.
  unfold from_llsd. rewrite (read_o_to fl S S r extra [] (find_field_self S Hnd) Hdom).
  rewrite (read_o_unknown fl S extra _ Hextra). unfold build_o.
  apply (build_ents f_name f_default entry_lo S r Hnd (dom_llsd_ok fl S r Hdom)).
Qed.
