(* C20 (3) - the LLSD flavours of the schema records: SchemaBase.to_llsd / SchemaBase.from_llsd
   (legacy_schema.py) with the per-kind to_llsd/from_llsd of the field serialisers (inventory.py:
   SchemaFlagField, SchemaEnumField; legacy_schema.py: SchemaDate, SchemaUUID, defaults).

   A schema for a flavour is the list of fields of cls._get_fields_dict(llsd_flavor=fl), each NAMED BY ITS
   LLSD KEY in that flavour (llsd_name renames, and InventoryCategory's AIS renames type_default / agent_id /
   category_id) - generated per class and flavour by the translator.  obj_dict is keyed by that key here
   (the code keys it by field.name; the two are in bijection).  llsd_only / include_none play no role.
   NOT modelled: the overrides InventoryCategory.to_llsd/from_llsd (AIS drops/re-adds "type") and
   InventoryItem.to_llsd/from_llsd (AIS agent_id, links) - they stay with the impl-level oracle. *)
From Coq Require Import NArith ZArith List Bool.
From HV Require Import Base.Bytes Asset.Schema Asset.Digits Asset.Record.
Import ListNotations.
Local Open Scope N_scope.

Inductive flavor := Legacy | Ais.

(* LLSD values: string, integer, binary, uuid, embedded LLSD (opaque), map *)
Inductive plval := LS (s : str) | LI (z : Z) | LB (b : list N) | LU (u : N) | LX (x : str).
Inductive lval := LP (v : plval) | LM (m : list (str * plval)).

(* spec.to_llsd(val, flavor) *)
Definition conv (fl : flavor) (k : kind) (v : pval) : plval :=
  match k, v with
  | KStr, VS s => LS s
  | KMStr, VS s => LS s
  | KInt, VZ z => LI z
  | KDate, VZ z => LI z                                   (* calendar.timegm(val.utctimetuple()) *)
  | KHex, VN n => LI (Z.of_N n)
  | KFlag, VN n => match fl with Legacy => LB (be_bytes 4 n) | Ais => LI (Z.of_N n) end   (* struct.pack("!I") *)
  | KUUID, VN u => LU u
  | KEnum t _, VZ e => match fl with
                       | Legacy => LS (match assoc_z t e with Some s => s | None => [] end)
                       | Ais => LI e
                       end
  | KLLSD _, VS x => LX x
  | _, _ => LS []
  end.

(* spec.from_llsd(val, flavor); None = exception (or a value of the wrong LLSD type) *)
Definition back (fl : flavor) (k : kind) (l : plval) : option pval :=
  match k, l with
  | KStr, LS s => Some (VS s)
  | KMStr, LS s => Some (VS s)
  | KInt, LI z => Some (VZ z)
  | KDate, LI z => Some (VZ z)                            (* utcfromtimestamp(val) *)
  | KHex, LI z => Some (VN (Z.to_N z))
  | KFlag, LI z => Some (VN (Z.to_N z))                   (* isinstance(val, int): returned as is *)
  | KFlag, LB b => match fl with
                   | Legacy => if (length b =? 4)%nat then Some (VN (of_be b)) else None   (* struct.unpack("!I") *)
                   | Ais => None
                   end
  | KUUID, LU u => Some (VN u)
  | KEnum t f, LS s => match fl with Legacy => option_map VZ (assoc_s f s) | Ais => None end
  | KEnum t f, LI e => match fl with
                       | Ais => match assoc_z t e with Some _ => Some (VZ e) | None => None end   (* enum_cls(val) *)
                       | Legacy => None
                       end
  | KLLSD _, LX x => Some (VS x)
  | _, _ => None
  end.

Definition dom_l (fl : flavor) (k : kind) (v : pval) : bool :=
  match k, v with
  | KStr, VS _ | KMStr, VS _ | KInt, VZ _ | KDate, VZ _ | KHex, VN _ | KUUID, VN _ | KLLSD _, VS _ => true
  | KFlag, VN n => n <? 2 ^ 32
  | KEnum t f, VZ e => match assoc_z t e with
                       | Some s => match assoc_s f s with Some e' => (e' =? e)%Z | None => false end
                       | None => false
                       end
  | _, _ => false
  end.

(* SchemaBase.to_llsd: fields in _get_fields_dict order, None skipped *)
Fixpoint to_llsd_p (fl : flavor) (fs : list pfield) (vs : list (option pval)) : list (str * plval) :=
  match fs, vs with
  | f :: fs', v :: vs' =>
    (match v with Some x => [(pf_name f, conv fl (pf_kind f) x)] | None => [] end) ++ to_llsd_p fl fs' vs'
  | _, _ => []
  end.

Definition to_llsd_field (fl : flavor) (f : field) (ov : option fval) : list (str * lval) :=
  match f_spec f, ov with
  | FP k, Some (P v) => [(f_name f, LP (conv fl k v))]
  | FB _ sub, Some (R vs) => [(f_name f, LM (to_llsd_p fl sub vs))]
  | _, _ => []
  end.

Fixpoint to_llsd (fl : flavor) (s : schema) (r : record) : list (str * lval) :=
  match s, r with
  | f :: s', v :: r' => to_llsd_field fl f v ++ to_llsd fl s' r'
  | _, _ => []
  end.

(* SchemaBase.from_llsd: every known key converted back, unknown keys ignored, then cls( **obj_dict ) *)
Fixpoint read_p (fl : flavor) (sub : list pfield) (m : list (str * plval)) (di : pdict) : option pdict :=
  match m with
  | [] => Some di
  | (k, l) :: rest =>
    match find_pfield sub k with
    | None => read_p fl sub rest di
    | Some f => match back fl (pf_kind f) l with
                | Some v => read_p fl sub rest ((k, Some v) :: di)
                | None => None
                end
    end
  end.

Definition from_llsd_p (fl : flavor) (sub : list pfield) (m : list (str * plval)) : option (list (option pval)) :=
  match read_p fl sub m [] with Some di => build_p sub di | None => None end.

Fixpoint read_o (fl : flavor) (S : schema) (d : list (str * lval)) (acc : odict) : option odict :=
  match d with
  | [] => Some acc
  | (k, l) :: rest =>
    match find_field S k with
    | None => read_o fl S rest acc
    | Some f =>
      match f_spec f, l with
      | FP kd, LP pl => match back fl kd pl with
                        | Some v => read_o fl S rest ((k, Some (P v)) :: acc)
                        | None => None
                        end
      | FB _ sub, LM m => match from_llsd_p fl sub m with
                          | Some rec => read_o fl S rest ((k, Some (R rec)) :: acc)
                          | None => None
                          end
      | _, _ => None
      end
    end
  end.

Definition from_llsd (fl : flavor) (S : schema) (d : list (str * lval)) : option record :=
  match read_o fl S d [] with Some acc => build_o S acc | None => None end.

(* ---------- domains ---------- *)
Definition dom_lpfield (fl : flavor) (f : pfield) (ov : option pval) : bool :=
  match ov with
  | None => match pf_default f with Some None => true | _ => false end
  | Some v => dom_l fl (pf_kind f) v
  end.
Fixpoint dom_lpfields (fl : flavor) (fs : list pfield) (vs : list (option pval)) : bool :=
  match fs, vs with
  | [], [] => true
  | f :: fs', v :: vs' => dom_lpfield fl f v && dom_lpfields fl fs' vs'
  | _, _ => false
  end.
Definition dom_lfield (fl : flavor) (f : field) (ov : option fval) : bool :=
  match f_spec f, ov with
  | _, None => match f_default f with Some None => true | _ => false end
  | FP k, Some (P v) => dom_l fl k v
  | FB _ sub, Some (R vs) => dom_lpfields fl sub vs && nodup_str (map pf_name sub)
  | _, _ => false
  end.
Fixpoint dom_llsd (fl : flavor) (s : schema) (r : record) : bool :=
  match s, r with
  | [], [] => true
  | f :: s', v :: r' => dom_lfield fl f v && dom_llsd fl s' r'
  | _, _ => false
  end.

(* well-formed key table: the LLSD keys of a flavour are pairwise distinct, also inside nested blocks *)
Definition wf_keys (s : schema) : bool :=
  nodup_str (map f_name s)
  && forallb (fun f => match f_spec f with FB _ sub => nodup_str (map pf_name sub) | FP _ => true end) s.
