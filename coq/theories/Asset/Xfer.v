(* C20 (A) - chunked file transfer.  Definitions only.

   Sender:   xfer_manager.py  Xfer.__init__(data=...)  +  XferManager.serve_inbound_xfer_request
   Receiver: xfer_manager.py  XferManager._handle_send_xfer_packet
             transfer_manager.py  TransferManager._handle_transfer_packet   (after /repo dd77c8e)
             Xfer.reassemble_chunks / Transfer.reassemble_chunks

   Bytes are [N] below 256; packet ids are [nat].  A Python dict keyed by packet id is
   modelled as the key-sorted association list of its items (insert = d[k] = v), so that
   [sorted(d.items())] is the list itself and [len(d)] its length. *)
From Coq Require Import NArith ZArith List Bool Arith.
From HV Require Import Base.Bytes.
Import ListNotations.
Local Open Scope nat_scope.

(* ---------- sender ---------- *)

(* while data: chunks[n] = data[:m]; data = data[m:]; n += 1        (fuel = len(data), enough when m > 0) *)
Fixpoint chunk_fuel (fuel m : nat) (d : list N) : list (list N) :=
  match fuel with
  | O => []
  | S f => match d with
           | [] => []
           | _ :: _ => firstn m d :: chunk_fuel f m (skipn m d)
           end
  end.

Definition chunk (m : nat) (d : list N) : list (list N) := chunk_fuel (length d) m d.

(* TemplateDataPacker.pack(len(data), MsgType.MVT_S32): struct '<i' *)
Definition s32_prefix (len : nat) : list N := le_bytes 4 (of_signed 4 (Z.of_nat len)).

Definition xfer_chunks (m : nat) (payload : list N) : list (list N) :=
  chunk m (s32_prefix (length payload) ++ payload).

Record packet := mkPacket { pid : nat; peof : bool; pdata : list N }.

(* serve_inbound_xfer_request: chunks popped in id order, IsEOF = no chunk left *)
Fixpoint number (i : nat) (cs : list (list N)) : list packet :=
  match cs with
  | [] => []
  | c :: rest => mkPacket i (match rest with [] => true | _ :: _ => false end) c :: number (S i) rest
  end.

Definition xfer_packets (m : nat) (payload : list N) : list packet := number 0 (xfer_chunks m payload).

(* ---------- receiver ---------- *)

Fixpoint insert (k : nat) (v : list N) (l : list (nat * list N)) : list (nat * list N) :=
  match l with
  | [] => [(k, v)]
  | (k', v') :: r =>
      if k <? k' then (k, v) :: l
      else if k =? k' then (k, v) :: r
      else (k', v') :: insert k v r
  end.

(* the part of the receiver state shared by Xfer and Transfer:
   chunks, expected_chunks, _future.done() *)
Record core := mkCore { chunks : list (nat * list N); expected_chunks : option nat; is_done : bool }.

Definition core_init : core := mkCore [] None false.

(*  x.chunks[id] = data
    if eof: x.expected_chunks = id + 1
    if not x.done() and len(x.chunks) == x.expected_chunks: x.mark_done()   *)
Definition cstep (c : core) (t : nat * bool * list N) : core :=
  let '(id, eof, data) := t in
  let ch := insert id data (chunks c) in
  let ec := if eof then Some (S id) else expected_chunks c in
  let dn := is_done c || match ec with Some e => length ch =? e | None => false end in
  mkCore ch ec dn.

Definition crun (l : list (nat * bool * list N)) (c : core) : core := fold_left cstep l c.

(* reassemble_chunks: concatenation in key order *)
Definition reassemble (c : core) : list N := concat (map snd (chunks c)).

(* --- Xfer receiver: XferManager._handle_send_xfer_packet --- *)
Record xstate := mkX {
  xcore : core;
  expected_size : option Z;      (* xfer.expected_size *)
  next_ackable : nat;            (* xfer.next_ackable *)
  acks : list nat                (* ConfirmXferPacket ids sent so far, oldest first *)
}.

Definition xinit : xstate := mkX core_init None 0 [].

Definition ACK_AHEAD_MAX : nat := 10.

(* what the receiver stores for a packet: the first 4 bytes of packet 0 are the length hint *)
Definition xview (p : packet) : nat * bool * list N :=
  (pid p, peof p, if pid p =? 0 then skipn 4 (pdata p) else pdata p).

(* None = struct.error from unpacking a packet 0 shorter than 4 bytes (raised before any effect) *)
Definition xfer_step (turbo : bool) (st : xstate) (p : packet) : option xstate :=
  if (pid p =? 0) && (length (pdata p) <? 4) then None
  else
    let esz := if pid p =? 0 then Some (to_signed 4 (of_le (firstn 4 (pdata p)))) else expected_size st in
    let ack_max := pid p + ACK_AHEAD_MAX in
    let to_ack := if turbo then seq (next_ackable st) (ack_max - next_ackable st) else [pid p] in
    let na := if turbo then ack_max else next_ackable st in
    Some (mkX (cstep (xcore st) (xview p)) esz na (acks st ++ to_ack)).

Definition xfer_run (turbo : bool) (l : list packet) (st : xstate) : option xstate :=
  fold_left (fun o p => match o with Some s => xfer_step turbo s p | None => None end) l (Some st).

(* --- Transfer receiver: TransferManager._handle_transfer_packet; eof := Status == DONE --- *)
Definition tview (p : packet) : nat * bool * list N := (pid p, peof p, pdata p).
Definition transfer_run (l : list packet) (c : core) : core := crun (map tview l) c.

(* ---------- vocabulary for the theorems ---------- *)

Definition mem (k : nat) (ids : list nat) : bool := existsb (Nat.eqb k) ids.
Definition tid (t : nat * bool * list N) : nat := fst (fst t).
Definition ids (l : list (nat * bool * list N)) : list nat := map tid l.

(* the (id, stored data) table of a complete transfer of the packet list [ps] seen through [view] *)
Definition table (view : packet -> nat * bool * list N) (ps : list packet) : list (nat * list N) :=
  map (fun p => (tid (view p), snd (view p))) ps.
