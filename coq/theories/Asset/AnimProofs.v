(* C20 - animation assets: proofs about Asset/Anim.v.

   [codec_ok w p x]: the writer accepts x, writes at least one byte, and the reader gives x back from those bytes
   whatever follows them, leaving exactly what follows (exact consumption). *)
From Coq Require Import NArith ZArith List Bool Lia ZifyBool ZifyNat ZifyN.
From HV Require Import Base.Bytes Asset.Anim.
Import ListNotations.
Open Scope N_scope.

Definition codec_ok {A : Type} (w : A -> option bytes) (p : bytes -> option (A * bytes)) (x : A) : Prop :=
  exists bs, w x = Some bs /\ (1 <= length bs)%nat /\ forall rest, p (bs ++ rest) = Some (x, rest).

Ltac split_andb H :=
  repeat match type of H with
         | (_ && _ = true) => let H1 := fresh "Hok" in apply andb_prop in H; destruct H as [H H1]
         end.

Lemma pos1 : (0 < 1)%nat. Proof. apply Nat.lt_0_succ. Qed.
Lemma pos2 : (0 < 2)%nat. Proof. apply Nat.lt_0_succ. Qed.
Lemma pos4 : (0 < 4)%nat. Proof. apply Nat.lt_0_succ. Qed.
Lemma pos16 : (0 < 16)%nat. Proof. apply Nat.lt_0_succ. Qed.

(* ---------- integers ---------- *)

Lemma codec_u n v : (0 < n)%nat -> u_ok n v = true -> codec_ok (wr_u n) (rd_u n) v.
Proof.
  intros Hn Hv. exists (le_bytes n v). unfold wr_u. rewrite Hv. split; [reflexivity|]. split.
  - rewrite le_bytes_length. lia.
  - intros rest. unfold rd_u. rewrite take_app_n by apply le_bytes_length. cbn [obind].
    rewrite of_le_le_bytes; [reflexivity|]. unfold u_ok in Hv. lia.
Qed.

Lemma s_ok_range n z : s_ok n z = true -> signed_range n z.
Proof. unfold s_ok, signed_range. lia. Qed.

Lemma codec_s n z : (0 < n)%nat -> s_ok n z = true -> codec_ok (wr_s n) (rd_s n) z.
Proof.
  intros Hn Hz. exists (le_bytes n (of_signed n z)). unfold wr_s. rewrite Hz. split; [reflexivity|]. split.
  - rewrite le_bytes_length. lia.
  - intros rest. unfold rd_s. rewrite take_app_n by apply le_bytes_length. cbn [obind].
    rewrite of_le_le_bytes by (apply of_signed_lt; exact Hn).
    rewrite to_of_signed; [reflexivity | exact Hn | apply s_ok_range; exact Hz].
Qed.

(* ---------- CStr ---------- *)

Lemma span_nul_app s rest : no_nul s = true -> span_nul (s ++ 0 :: rest) = (s, rest).
Proof.
  induction s as [|b s IH]; intros H; cbn [app span_nul].
  - reflexivity.
  - cbn [no_nul forallb] in H. apply andb_prop in H as [Hb Hs].
    destruct (b =? 0) eqn:E; [discriminate|]. unfold no_nul in IH. rewrite (IH Hs). reflexivity.
Qed.

Lemma codec_cstr s : cstr_ok s = true -> codec_ok wr_cstr rd_cstr s.
Proof.
  intros H. unfold cstr_ok in H. split_andb H.
  exists (s ++ [0]). split; [reflexivity|]. split.
  - rewrite app_length. cbn. lia.
  - intros rest. unfold rd_cstr. rewrite <- app_assoc. cbn [app].
    rewrite span_nul_app by assumption. rewrite Hok. reflexivity.
Qed.

(* ---------- StrFixed ---------- *)

Lemma rstrip0_zeros k : rstrip0 (repeat 0 k) = [].
Proof. induction k as [|k IH]; cbn [repeat rstrip0]; [reflexivity|]. rewrite IH. reflexivity. Qed.

Lemma rstrip0_pad s k : negb (last s 1 =? 0) = true -> rstrip0 (s ++ repeat 0 k) = s.
Proof.
  induction s as [|b s IH]; intros H.
  - cbn [app]. apply rstrip0_zeros.
  - cbn [app rstrip0]. destruct s as [|c s].
    + cbn [app]. rewrite rstrip0_zeros. cbn [last] in H. destruct (b =? 0); [discriminate|reflexivity].
    + rewrite IH by exact H. reflexivity.
Qed.

Lemma codec_fixed n s : (0 < n)%nat -> fixed_ok n s = true -> codec_ok (wr_fixed n) (rd_fixed n) s.
Proof.
  intros Hn H. unfold fixed_ok in H. split_andb H.
  assert (Hlen : (length s <= n)%nat) by lia.
  exists (s ++ repeat 0 (n - length s)%nat). unfold wr_fixed.
  replace (n <? length s)%nat with false by lia. split; [reflexivity|].
  assert (Hl : length (s ++ repeat 0 (n - length s)%nat) = n) by (rewrite app_length, repeat_length; lia).
  split; [lia|]. intros rest. unfold rd_fixed. rewrite take_app_n by exact Hl. cbn [obind].
  rewrite rstrip0_pad by assumption. rewrite Hok. reflexivity.
Qed.

(* ---------- collections ---------- *)

Lemma codec_list {A : Type} (w : A -> option bytes) (p : bytes -> option (A * bytes)) (l : list A) :
  Forall (codec_ok w p) l ->
  exists bs, wr_list w l = Some bs /\ (length l <= length bs)%nat /\
             forall rest, rd_rep p (length l) (bs ++ rest) = Some (l, rest).
Proof.
  induction 1 as [|x l Hx _ IH].
  - exists []. cbn. auto.
  - destruct Hx as (b & Hw & Hlb & Hp). destruct IH as (bs & Hws & Hls & Hps).
    exists (b ++ bs). cbn [wr_list]. rewrite Hw. cbn [obind]. rewrite Hws. cbn [obind].
    split; [reflexivity|]. split.
    + rewrite app_length. cbn [length]. lia.
    + intros rest. cbn [length rd_rep]. rewrite <- app_assoc, Hp. cbn [obind]. rewrite Hps. reflexivity.
Qed.

Lemma coll_max_true : coll_max true = 2147483647.
Proof. reflexivity. Qed.
Lemma coll_max_false : coll_max false = 4294967295.
Proof. reflexivity. Qed.

Lemma s_ok4 z : s_ok 4 z = true <-> (-2147483648 <= z < 2147483648)%Z.
Proof.
  unfold s_ok. change (2 ^ (8 * Z.of_nat 4 - 1))%Z with 2147483648%Z. lia.
Qed.

Lemma u_ok4 v : u_ok 4 v = true <-> v < 4294967296.
Proof. unfold u_ok. change (256 ^ N.of_nat 4) with 4294967296. lia. Qed.

Lemma codec_coll {A : Type} (signed : bool) (w : A -> option bytes) (p : bytes -> option (A * bytes)) (l : list A) :
  len_ok signed l = true -> Forall (codec_ok w p) l -> codec_ok (wr_coll signed w) (rd_coll signed p) l.
Proof.
  intros Hlen Hall. destruct (codec_list w p l Hall) as (body & Hw & Hlb & Hp).
  unfold len_ok in Hlen.
  assert (Hhd : exists hd, (if signed then wr_s 4 (Z.of_nat (length l)) else wr_u 4 (N.of_nat (length l))) = Some hd /\
                           length hd = 4%nat /\
                           forall rest, (if signed then rd_s 4 (hd ++ rest)
                                         else do '(u, r) <- rd_u 4 (hd ++ rest); Some (Z.of_N u, r)) = Some (Z.of_nat (length l), rest)).
  { destruct signed.
    - rewrite coll_max_true in Hlen.
      assert (Hs : s_ok 4 (Z.of_nat (length l)) = true) by (apply s_ok4; lia).
      exists (le_bytes 4 (of_signed 4 (Z.of_nat (length l)))). unfold wr_s. rewrite Hs.
      split; [reflexivity|]. split; [apply le_bytes_length|].
      intros rest. destruct (codec_s 4 _ pos4 Hs) as (b & Hb & _ & Hr).
      unfold wr_s in Hb. rewrite Hs in Hb. injection Hb as <-. apply Hr.
    - rewrite coll_max_false in Hlen.
      assert (Hu : u_ok 4 (N.of_nat (length l)) = true) by (apply u_ok4; lia).
      exists (le_bytes 4 (N.of_nat (length l))). unfold wr_u. rewrite Hu.
      split; [reflexivity|]. split; [apply le_bytes_length|].
      intros rest. destruct (codec_u 4 _ pos4 Hu) as (b & Hb & _ & Hr).
      unfold wr_u in Hb. rewrite Hu in Hb. injection Hb as <-. rewrite Hr. cbn [obind].
      f_equal. f_equal. lia. }
  destruct Hhd as (hd & Hwh & Hlh & Hrh).
  exists (hd ++ body). unfold wr_coll.
  replace (coll_max signed <? N.of_nat (length l)) with false by lia.
  rewrite Hwh. cbn [obind]. rewrite Hw. cbn [obind]. split; [reflexivity|]. split.
  - rewrite app_length. lia.
  - intros rest. unfold rd_coll. rewrite <- app_assoc.
    replace (if signed then rd_s 4 (hd ++ body ++ rest) else do '(u, r) <- rd_u 4 (hd ++ body ++ rest); Some (Z.of_N u, r))
      with (Some (Z.of_nat (length l), body ++ rest)) by (symmetry; apply Hrh).
    cbn [obind]. unfold rd_counted.
    destruct (Z.of_nat (length l) <=? 0)%Z eqn:E0.
    + assert (length l = 0%nat) by lia. destruct l; [|discriminate].
      cbn in Hw. injection Hw as <-. reflexivity.
    + replace (Z.of_nat (length (body ++ rest)) <? Z.of_nat (length l))%Z with false
        by (rewrite app_length; lia).
      rewrite Nat2Z.id. apply Hp.
Qed.

(* ---------- keyframes ---------- *)

Definition ow_pos (ow : option nat) : Prop := match ow with Some w => (0 < w)%nat | None => True end.

Lemma key_width_pos maj mi : ow_pos (key_width maj mi).
Proof.
  unfold key_width. destruct ((maj =? 0) && (mi =? 1)); [cbn; lia|].
  destruct ((maj =? 1) && (mi =? 0)); cbn; lia.
Qed.

Lemma codec_key w k : (0 < w)%nat -> kf_ok w k = true -> codec_ok (wr_key (Some w)) (rd_key (Some w)) k.
Proof.
  intros Hw H. unfold kf_ok in H. split_andb H.
  destruct (codec_u w _ Hw H) as (b1 & W1 & L1 & R1).
  destruct (codec_u w _ Hw Hok1) as (b2 & W2 & L2 & R2).
  destruct (codec_u w _ Hw Hok0) as (b3 & W3 & L3 & R3).
  destruct (codec_u w _ Hw Hok) as (b4 & W4 & L4 & R4).
  exists (b1 ++ b2 ++ b3 ++ b4). unfold wr_key. rewrite W1, W2, W3, W4. cbn [obind].
  split; [reflexivity|]. split; [rewrite app_length; clear - L1; lia|].
  intros rest. unfold rd_key. repeat rewrite <- app_assoc.
  rewrite R1. cbn [obind]. rewrite R2. cbn [obind]. rewrite R3. cbn [obind]. rewrite R4. cbn [obind].
  destruct k; reflexivity.
Qed.

Lemma codec_keys ow l : ow_pos ow -> keys_ok ow l = true -> Forall (codec_ok (wr_key ow) (rd_key ow)) l.
Proof.
  intros Hp H. destruct ow as [w|]; cbn in H, Hp.
  - apply Forall_forall. intros k Hk. apply codec_key; [exact Hp|].
    rewrite forallb_forall in H. apply H, Hk.
  - destruct l; [constructor | discriminate].
Qed.

(* ---------- joints ---------- *)

Lemma codec_joint ow j : ow_pos ow -> joint_ok ow j = true -> codec_ok (wr_joint ow) (rd_joint ow) j.
Proof.
  intros Hp H. unfold joint_ok in H. split_andb H.
  destruct (codec_cstr _ H) as (b1 & W1 & L1 & R1).
  destruct (codec_s 4 _ pos4 Hok3) as (b2 & W2 & L2 & R2).
  destruct (codec_coll true _ _ _ Hok2 (codec_keys ow _ Hp Hok1)) as (b3 & W3 & L3 & R3).
  destruct (codec_coll true _ _ _ Hok0 (codec_keys ow _ Hp Hok)) as (b4 & W4 & L4 & R4).
  exists (b1 ++ b2 ++ b3 ++ b4). unfold wr_joint. rewrite W1, W2, W3, W4. cbn [obind].
  split; [reflexivity|]. split; [rewrite app_length; clear - L1; lia|].
  intros rest. unfold rd_joint. repeat rewrite <- app_assoc.
  rewrite R1. cbn [obind]. rewrite R2. cbn [obind]. rewrite R3. cbn [obind]. rewrite R4. cbn [obind].
  destruct j; reflexivity.
Qed.

(* ---------- constraints ---------- *)

Lemma codec_vec3 v : vec3_ok v = true -> codec_ok wr_vec3 rd_vec3 v.
Proof.
  destruct v as [[x y] z]. intros H. cbn [vec3_ok] in H. split_andb H.
  destruct (codec_u 4 _ pos4 H) as (b1 & W1 & L1 & R1).
  destruct (codec_u 4 _ pos4 Hok0) as (b2 & W2 & L2 & R2).
  destruct (codec_u 4 _ pos4 Hok) as (b3 & W3 & L3 & R3).
  exists (b1 ++ b2 ++ b3). cbn [wr_vec3]. rewrite W1, W2, W3. cbn [obind].
  split; [reflexivity|]. split; [rewrite app_length; clear - L1; lia|].
  intros rest. unfold rd_vec3. repeat rewrite <- app_assoc.
  rewrite R1. cbn [obind]. rewrite R2. cbn [obind]. rewrite R3. cbn [obind]. reflexivity.
Qed.

Lemma codec_constr c : constr_ok c = true -> codec_ok wr_constr rd_constr c.
Proof.
  intros H. unfold constr_ok in H. split_andb H.
  destruct (codec_u 1 _ pos1 H) as (b1 & W1 & L1 & R1).
  destruct (codec_u 1 _ pos1 Hok8) as (b2 & W2 & L2 & R2).
  destruct (codec_fixed 16 _ pos16 Hok7) as (b3 & W3 & L3 & R3).
  destruct (codec_vec3 _ Hok6) as (b4 & W4 & L4 & R4).
  destruct (codec_fixed 16 _ pos16 Hok5) as (b5 & W5 & L5 & R5).
  destruct (codec_vec3 _ Hok4) as (b6 & W6 & L6 & R6).
  destruct (codec_vec3 _ Hok3) as (b7 & W7 & L7 & R7).
  destruct (codec_u 4 _ pos4 Hok2) as (b8 & W8 & L8 & R8).
  destruct (codec_u 4 _ pos4 Hok1) as (b9 & W9 & L9 & R9).
  destruct (codec_u 4 _ pos4 Hok0) as (b10 & W10 & L10 & R10).
  destruct (codec_u 4 _ pos4 Hok) as (b11 & W11 & L11 & R11).
  exists (b1 ++ b2 ++ b3 ++ b4 ++ b5 ++ b6 ++ b7 ++ b8 ++ b9 ++ b10 ++ b11).
  unfold wr_constr. rewrite W1, W2, W3, W4, W5, W6, W7, W8, W9, W10, W11. cbn [obind].
  split; [reflexivity|]. split; [rewrite app_length; clear - L1; lia|].
  intros rest. unfold rd_constr. repeat rewrite <- app_assoc.
  rewrite R1. cbn [obind]. rewrite R2. cbn [obind]. rewrite R3. cbn [obind]. rewrite R4. cbn [obind].
  rewrite R5. cbn [obind]. rewrite R6. cbn [obind]. rewrite R7. cbn [obind]. rewrite R8. cbn [obind].
  rewrite R9. cbn [obind]. rewrite R10. cbn [obind]. rewrite R11. cbn [obind].
  destruct c; reflexivity.
Qed.

(* ---------- the animation ---------- *)

Lemma forallb_Forall {A : Type} (f : A -> bool) (P : A -> Prop) l :
  (forall x, f x = true -> P x) -> forallb f l = true -> Forall P l.
Proof.
  intros HP H. apply Forall_forall. intros x Hx. apply HP. rewrite forallb_forall in H. apply H, Hx.
Qed.

Theorem anim_codec a : wf_anim a = true -> codec_ok write_anim parse_anim a.
Proof.
  intros H. unfold wf_anim in H. split_andb H.
  pose proof (key_width_pos (a_major a) (a_minor a)) as Hpos.
  destruct (codec_u 2 _ pos2 H) as (b1 & W1 & L1 & R1).
  destruct (codec_u 2 _ pos2 Hok12) as (b2 & W2 & L2 & R2).
  destruct (codec_s 4 _ pos4 Hok11) as (b3 & W3 & L3 & R3).
  destruct (codec_u 4 _ pos4 Hok10) as (b4 & W4 & L4 & R4).
  destruct (codec_cstr _ Hok9) as (b5 & W5 & L5 & R5).
  destruct (codec_u 4 _ pos4 Hok8) as (b6 & W6 & L6 & R6).
  destruct (codec_u 4 _ pos4 Hok7) as (b7 & W7 & L7 & R7).
  destruct (codec_s 4 _ pos4 Hok6) as (b8 & W8 & L8 & R8).
  destruct (codec_u 4 _ pos4 Hok5) as (b9 & W9 & L9 & R9).
  destruct (codec_u 4 _ pos4 Hok4) as (b10 & W10 & L10 & R10).
  destruct (codec_u 4 _ pos4 Hok3) as (b11 & W11 & L11 & R11).
  destruct (codec_coll false _ _ _ Hok2
              (forallb_Forall _ _ _ (fun j => codec_joint _ j Hpos) Hok1)) as (b12 & W12 & L12 & R12).
  destruct (codec_coll true _ _ _ Hok0 (forallb_Forall _ _ _ codec_constr Hok)) as (b13 & W13 & L13 & R13).
  exists (b1 ++ b2 ++ b3 ++ b4 ++ b5 ++ b6 ++ b7 ++ b8 ++ b9 ++ b10 ++ b11 ++ b12 ++ b13).
  unfold write_anim. cbv zeta. rewrite W1, W2, W3, W4, W5, W6, W7, W8, W9, W10, W11, W12, W13. cbn [obind].
  split; [reflexivity|]. split; [rewrite app_length; clear - L1; lia|].
  intros rest. unfold parse_anim. repeat rewrite <- app_assoc.
  rewrite R1. cbn [obind]. rewrite R2. cbn [obind]. rewrite R3. cbn [obind]. rewrite R4. cbn [obind].
  rewrite R5. cbn [obind]. rewrite R6. cbn [obind]. rewrite R7. cbn [obind]. rewrite R8. cbn [obind].
  rewrite R9. cbn [obind]. rewrite R10. cbn [obind]. rewrite R11. cbn [obind]. rewrite R12. cbn [obind].
  rewrite R13. cbn [obind]. destruct a; reflexivity.
Qed.

(* the statement in the form of the property: serialise, then parse, whatever follows in the buffer *)
Theorem anim_rt a : wf_anim a = true ->
  exists bs, write_anim a = Some bs /\ parse_anim bs = Some (a, []) /\
             forall rest, parse_anim (bs ++ rest) = Some (a, rest).
Proof.
  intros H. destruct (anim_codec a H) as (bs & Hw & _ & Hp). exists bs. split; [exact Hw|]. split; [|exact Hp].
  rewrite <- (app_nil_r bs) at 1. apply Hp.
Qed.

(* ---------- the count test of [rd_counted] only anticipates a failure ----------
   An entry reader that consumes at least one byte whenever it succeeds cannot succeed more often than there are
   bytes; so `for _ in range(count)` with count > len(reader) ends in ValueError, which is what the test returns. *)

Definition consumes {A : Type} (p : bytes -> option (A * bytes)) : Prop :=
  forall bs x r, p bs = Some (x, r) -> (length r < length bs)%nat.

Lemma rd_rep_length {A : Type} (p : bytes -> option (A * bytes)) : consumes p ->
  forall n bs l r, rd_rep p n bs = Some (l, r) -> (length r + n <= length bs)%nat /\ length l = n.
Proof.
  intros Hc. induction n as [|n IH]; intros bs l r H; cbn [rd_rep] in H.
  - injection H as <- <-. cbn. lia.
  - destruct (p bs) as [[x r1]|] eqn:E1; [|discriminate]. cbn [obind] in H.
    destruct (rd_rep p n r1) as [[xs r2]|] eqn:E2; [|discriminate]. cbn [obind] in H.
    injection H as <- <-. apply Hc in E1. apply IH in E2. cbn [length]. lia.
Qed.

Theorem rd_counted_guard {A : Type} (p : bytes -> option (A * bytes)) count bs : consumes p ->
  (Z.of_nat (length bs) < count)%Z -> rd_rep p (Z.to_nat count) bs = None.
Proof.
  intros Hc Hlt. destruct (rd_rep p (Z.to_nat count) bs) as [[l r]|] eqn:E; [|reflexivity].
  apply (rd_rep_length p Hc) in E. lia.
Qed.

Lemma take_consumes n bs a r : (0 < n)%nat -> take n bs = Some (a, r) -> (length r < length bs)%nat.
Proof.
  intros Hn H. apply take_some in H as [-> Hl]. rewrite app_length. lia.
Qed.

Lemma rd_u_consumes n : (0 < n)%nat -> consumes (rd_u n).
Proof.
  intros Hn bs x r H. unfold rd_u in H. destruct (take n bs) as [[a r']|] eqn:E; [|discriminate].
  cbn [obind] in H. injection H as _ <-. eapply take_consumes; eauto.
Qed.

Lemma rd_s_consumes n : (0 < n)%nat -> consumes (rd_s n).
Proof.
  intros Hn bs x r H. unfold rd_s in H. destruct (take n bs) as [[a r']|] eqn:E; [|discriminate].
  cbn [obind] in H. injection H as _ <-. eapply take_consumes; eauto.
Qed.

Lemma rd_key_consumes ow : ow_pos ow -> consumes (rd_key ow).
Proof.
  intros Hp bs x r H. destruct ow as [w|]; [|discriminate]. cbn in Hp. unfold rd_key in H.
  destruct (rd_u w bs) as [[t r1]|] eqn:E1; [|discriminate]. cbn [obind] in H.
  destruct (rd_u w r1) as [[x1 r2]|] eqn:E2; [|discriminate]. cbn [obind] in H.
  destruct (rd_u w r2) as [[y1 r3]|] eqn:E3; [|discriminate]. cbn [obind] in H.
  destruct (rd_u w r3) as [[z1 r4]|] eqn:E4; [|discriminate]. cbn [obind] in H.
  injection H as _ <-.
  apply (rd_u_consumes w Hp) in E1, E2, E3, E4. lia.
Qed.

Lemma span_nul_length bs : (length (snd (span_nul bs)) <= length bs)%nat.
Proof.
  induction bs as [|b bs IH]; cbn [span_nul]; [cbn; lia|].
  destruct (b =? 0); [cbn; lia|]. destruct (span_nul bs) as [a t]. cbn [snd length] in *. lia.
Qed.

Lemma rd_counted_length {A : Type} (p : bytes -> option (A * bytes)) c bs l r : consumes p ->
  rd_counted p c bs = Some (l, r) -> (length r <= length bs)%nat /\ (length l <= length bs)%nat.
Proof.
  intros Hc H. unfold rd_counted in H. destruct (c <=? 0)%Z; [injection H as <- <-; cbn; lia|].
  destruct (Z.of_nat (length bs) <? c)%Z; [discriminate|].
  apply (rd_rep_length p Hc) in H. lia.
Qed.

Lemma rd_coll_length {A : Type} signed (p : bytes -> option (A * bytes)) bs l r : consumes p ->
  rd_coll signed p bs = Some (l, r) -> (length r + 4 <= length bs)%nat /\ (length l + 4 <= length bs)%nat.
Proof.
  intros Hc H. unfold rd_coll in H.
  assert (Hhd : forall c r1, (if signed then rd_s 4 bs else do '(u, r) <- rd_u 4 bs; Some (Z.of_N u, r)) = Some (c, r1) ->
                             (length r1 + 4 = length bs)%nat).
  { intros c r1 E. destruct signed.
    - unfold rd_s in E. destruct (take 4 bs) as [[a r']|] eqn:T; [|discriminate]. cbn [obind] in E.
      injection E as _ <-. apply take_some in T as [-> Hl]. rewrite app_length. lia.
    - unfold rd_u in E. destruct (take 4 bs) as [[a r']|] eqn:T; [|discriminate]. cbn [obind] in E.
      injection E as _ <-. apply take_some in T as [-> Hl]. rewrite app_length. lia. }
  destruct (if signed then rd_s 4 bs else do '(u, r) <- rd_u 4 bs; Some (Z.of_N u, r)) as [[c r1]|] eqn:E; [|discriminate].
  cbn [obind] in H. specialize (Hhd _ _ eq_refl). apply (rd_counted_length p c r1 l r Hc) in H. lia.
Qed.

Lemma rd_joint_consumes ow : ow_pos ow -> consumes (rd_joint ow).
Proof.
  intros Hp bs x r H. unfold rd_joint in H.
  unfold rd_cstr in H. pose proof (span_nul_length bs) as Hs. destruct (span_nul bs) as [s r0]. cbn [snd] in Hs.
  destruct (utf8_valid s); [|discriminate]. cbn [obind] in H.
  destruct (rd_s 4 r0) as [[pr r1]|] eqn:E1; [|discriminate]. cbn [obind] in H.
  destruct (rd_coll true (rd_key ow) r1) as [[rot r2]|] eqn:E2; [|discriminate]. cbn [obind] in H.
  destruct (rd_coll true (rd_key ow) r2) as [[pos r3]|] eqn:E3; [|discriminate]. cbn [obind] in H.
  injection H as _ <-.
  apply (rd_s_consumes 4 pos4) in E1.
  apply (rd_coll_length true _ _ _ _ (rd_key_consumes ow Hp)) in E2, E3. lia.
Qed.

Lemma rd_constr_consumes : consumes rd_constr.
Proof.
  intros bs x r H. unfold rd_constr in H.
  destruct (rd_u 1 bs) as [[ch r1]|] eqn:E1; [|discriminate]. cbn [obind] in H.
  apply (rd_u_consumes 1 pos1) in E1.
  destruct (rd_u 1 r1) as [[ty r2]|] eqn:E2; [|discriminate]. cbn [obind] in H.
  apply (rd_u_consumes 1 pos1) in E2.
  unfold rd_fixed at 1 in H. destruct (take 16 r2) as [[f1 r3]|] eqn:E3; [|discriminate]. cbn [obind] in H.
  apply (take_consumes 16 _ _ _ pos16) in E3.
  destruct (utf8_valid (rstrip0 f1)); [|discriminate]. cbn [obind] in H.
  destruct (rd_vec3 r3) as [[so r4]|] eqn:E4; [|discriminate]. cbn [obind] in H.
  unfold rd_fixed at 1 in H. destruct (take 16 r4) as [[f2 r5]|] eqn:E5; [|discriminate]. cbn [obind] in H.
  apply (take_consumes 16 _ _ _ pos16) in E5.
  destruct (utf8_valid (rstrip0 f2)); [|discriminate]. cbn [obind] in H.
  destruct (rd_vec3 r5) as [[t_o r6]|] eqn:E6; [|discriminate]. cbn [obind] in H.
  destruct (rd_vec3 r6) as [[td r7]|] eqn:E7; [|discriminate]. cbn [obind] in H.
  destruct (rd_u 4 r7) as [[e1 r8]|] eqn:E8; [|discriminate]. cbn [obind] in H.
  destruct (rd_u 4 r8) as [[e2 r9]|] eqn:E9; [|discriminate]. cbn [obind] in H.
  destruct (rd_u 4 r9) as [[e3 r10]|] eqn:E10; [|discriminate]. cbn [obind] in H.
  destruct (rd_u 4 r10) as [[e4 r11]|] eqn:E11; [|discriminate]. cbn [obind] in H.
  injection H as _ <-.
  apply (rd_u_consumes 4 pos4) in E8, E9, E10, E11.
  assert (Hv : forall a v b, rd_vec3 a = Some (v, b) -> (length b < length a)%nat).
  { intros a v b Hab. unfold rd_vec3 in Hab.
    destruct (rd_u 4 a) as [[x1 a1]|] eqn:V1; [|discriminate]. cbn [obind] in Hab.
    destruct (rd_u 4 a1) as [[x2 a2]|] eqn:V2; [|discriminate]. cbn [obind] in Hab.
    destruct (rd_u 4 a2) as [[x3 a3]|] eqn:V3; [|discriminate]. cbn [obind] in Hab.
    injection Hab as _ <-. apply (rd_u_consumes 4 pos4) in V1, V2, V3. lia. }
  apply Hv in E4, E6, E7. lia.
Qed.

(* the three uses of rd_counted in the model are with consuming entry readers *)
Theorem anim_guards_faithful :
  (forall ow, ow_pos ow -> consumes (rd_key ow)) /\ (forall ow, ow_pos ow -> consumes (rd_joint ow)) /\ consumes rd_constr.
Proof. split; [exact rd_key_consumes | split; [exact rd_joint_consumes | exact rd_constr_consumes]]. Qed.

(* a collection longer than its count field allows is refused by the writer (Collection.serialize: ValueError) *)
Lemma wr_coll_too_long {A : Type} signed (w : A -> option bytes) l :
  len_ok signed l = false -> wr_coll signed w l = None.
Proof.
  unfold len_ok, wr_coll. intros H. replace (coll_max signed <? N.of_nat (length l)) with true by lia. reflexivity.
Qed.

(* ====================================================================================== *)
(* Everything the parser returns lies in the round-trip domain.  Input: a byte string (every element below 256)
   shorter than 2^31.  Consequences (Props/C20.v): wf_anim is exactly the image of the parser, and re-serialising
   a parsed animation and parsing again gives the same animation ("second generation is a fixed point"). *)

Definition short (bs : bytes) : Prop := N.of_nat (length bs) <= 2147483647.

Definition reads_ok {A : Type} (p : bytes -> option (A * bytes)) (ok : A -> bool) : Prop :=
  forall bs x r, bytes_okb bs = true -> p bs = Some (x, r) ->
                 ok x = true /\ bytes_okb r = true /\ (length r <= length bs)%nat.

Lemma take_ok n bs a r : bytes_okb bs = true -> take n bs = Some (a, r) ->
  bytes_okb a = true /\ bytes_okb r = true /\ length a = n /\ (length r + n = length bs)%nat.
Proof.
  intros Hb H. apply take_some in H as [-> Hl]. rewrite bytes_okb_app in Hb. apply andb_prop in Hb as [Ha Hr].
  rewrite app_length. repeat split; try assumption. lia.
Qed.

Lemma reads_u n : reads_ok (rd_u n) (u_ok n).
Proof.
  intros bs x r Hb H. unfold rd_u in H. destruct (take n bs) as [[a r']|] eqn:E; [|discriminate].
  cbn [obind] in H. injection H as <- <-. destruct (take_ok n bs a r' Hb E) as (Ha & Hr & Hl & Hlen).
  split; [|split; [exact Hr | lia]].
  unfold u_ok. pose proof (of_le_bound a Ha) as Hbd. rewrite Hl in Hbd. lia.
Qed.

Lemma reads_s n : (0 < n)%nat -> reads_ok (rd_s n) (s_ok n).
Proof.
  intros Hn bs x r Hb H. unfold rd_s in H. destruct (take n bs) as [[a r']|] eqn:E; [|discriminate].
  cbn [obind] in H. injection H as <- <-. destruct (take_ok n bs a r' Hb E) as (Ha & Hr & Hl & Hlen).
  split; [|split; [exact Hr | lia]].
  pose proof (of_le_bound a Ha) as Hbd. rewrite Hl in Hbd.
  pose proof (to_signed_range n (of_le a) Hn Hbd) as Hs. unfold signed_range in Hs. unfold s_ok. lia.
Qed.

Lemma span_nul_spec : forall bs s r, span_nul bs = (s, r) -> bytes_okb bs = true ->
  bytes_okb s = true /\ no_nul s = true /\ bytes_okb r = true /\ (length r <= length bs)%nat.
Proof.
  induction bs as [|b bs IH]; intros s r H Hb; cbn [span_nul] in H.
  - injection H as <- <-. repeat split; reflexivity || (cbn; lia).
  - rewrite bytes_okb_cons in Hb. apply andb_prop in Hb as [Hb0 Hb1].
    destruct (b =? 0) eqn:E0.
    + injection H as <- <-. repeat split; try reflexivity; try assumption. cbn. lia.
    + destruct (span_nul bs) as [a t] eqn:Es. injection H as <- <-.
      destruct (IH a t eq_refl Hb1) as (A1 & A2 & A3 & A4).
      repeat split.
      * rewrite bytes_okb_cons, Hb0, A1. reflexivity.
      * cbn [no_nul forallb]. rewrite E0. cbn. exact A2.
      * exact A3.
      * cbn [length]. lia.
Qed.

Lemma reads_cstr : reads_ok rd_cstr cstr_ok.
Proof.
  intros bs x r Hb H. unfold rd_cstr in H. destruct (span_nul bs) as [s t] eqn:Es.
  destruct (utf8_valid s) eqn:Eu; [|discriminate]. injection H as <- <-.
  destruct (span_nul_spec bs s t Es Hb) as (A1 & A2 & A3 & A4).
  split; [|split; assumption]. unfold cstr_ok. rewrite A1, A2, Eu. reflexivity.
Qed.

Lemma rstrip0_spec : forall l, bytes_okb l = true ->
  bytes_okb (rstrip0 l) = true /\ (length (rstrip0 l) <= length l)%nat /\ negb (last (rstrip0 l) 1 =? 0) = true.
Proof.
  induction l as [|b l IH]; intros Hb; cbn [rstrip0].
  - repeat split; reflexivity || (cbn; lia).
  - rewrite bytes_okb_cons in Hb. apply andb_prop in Hb as [Hb0 Hb1]. destruct (IH Hb1) as (A1 & A2 & A3).
    destruct (rstrip0 l) as [|c r'] eqn:Er.
    + destruct (b =? 0) eqn:E0.
      * repeat split; reflexivity || (cbn; lia).
      * repeat split.
        -- rewrite bytes_okb_cons, Hb0. reflexivity.
        -- cbn. lia.
        -- cbn [last]. rewrite E0. reflexivity.
    + repeat split.
      * rewrite bytes_okb_cons, Hb0, A1. reflexivity.
      * cbn [length] in *. lia.
      * exact A3.
Qed.

Lemma reads_fixed n : reads_ok (rd_fixed n) (fixed_ok n).
Proof.
  intros bs x r Hb H. unfold rd_fixed in H. destruct (take n bs) as [[f r']|] eqn:E; [|discriminate].
  cbn [obind] in H. destruct (utf8_valid (rstrip0 f)) eqn:Eu; [|discriminate]. injection H as <- <-.
  destruct (take_ok n bs f r' Hb E) as (Hf & Hr & Hl & Hlen).
  destruct (rstrip0_spec f Hf) as (A1 & A2 & A3).
  split; [|split; [exact Hr | lia]].
  unfold fixed_ok. rewrite A1, A3, Eu. replace (length (rstrip0 f) <=? n)%nat with true by lia. reflexivity.
Qed.

Lemma reads_rep {A : Type} (p : bytes -> option (A * bytes)) ok : reads_ok p ok ->
  forall n bs l r, bytes_okb bs = true -> rd_rep p n bs = Some (l, r) ->
                   forallb ok l = true /\ bytes_okb r = true /\ (length r <= length bs)%nat.
Proof.
  intros Hp. induction n as [|n IH]; intros bs l r Hb H; cbn [rd_rep] in H.
  - injection H as <- <-. repeat split; [exact Hb | lia].
  - destruct (p bs) as [[x r1]|] eqn:E1; [|discriminate]. cbn [obind] in H.
    destruct (rd_rep p n r1) as [[xs r2]|] eqn:E2; [|discriminate]. cbn [obind] in H. injection H as <- <-.
    destruct (Hp bs x r1 Hb E1) as (A1 & A2 & A3). destruct (IH r1 xs r2 A2 E2) as (B1 & B2 & B3).
    cbn [forallb]. rewrite A1, B1. repeat split; [exact B2 | lia].
Qed.

Lemma reads_coll {A : Type} signed (p : bytes -> option (A * bytes)) ok : reads_ok p ok -> consumes p ->
  forall bs l r, bytes_okb bs = true -> short bs -> rd_coll signed p bs = Some (l, r) ->
                 len_ok signed l = true /\ forallb ok l = true /\ bytes_okb r = true /\ (length r <= length bs)%nat.
Proof.
  intros Hp Hc bs l r Hb Hs H.
  pose proof (rd_coll_length signed p bs l r Hc H) as [L1 L2].
  unfold rd_coll in H.
  assert (Hhd : forall c r1, (if signed then rd_s 4 bs else do '(u, r) <- rd_u 4 bs; Some (Z.of_N u, r)) = Some (c, r1) ->
                             bytes_okb r1 = true /\ (length r1 <= length bs)%nat).
  { intros c r1 E. destruct signed.
    - destruct (reads_s 4 pos4 bs c r1 Hb E) as (_ & Q1 & Q2). split; assumption.
    - destruct (rd_u 4 bs) as [[u r']|] eqn:Eu; [|discriminate]. cbn [obind] in E. injection E as _ <-.
      destruct (reads_u 4 bs u r' Hb Eu) as (_ & Q1 & Q2). split; assumption. }
  destruct (if signed then rd_s 4 bs else do '(u, r) <- rd_u 4 bs; Some (Z.of_N u, r)) as [[c r1]|] eqn:E; [|discriminate].
  cbn [obind] in H. destruct (Hhd c r1 eq_refl) as [Hb1 Hl1].
  assert (Hlen : len_ok signed l = true).
  { unfold len_ok, short in *. destruct signed; [rewrite coll_max_true | rewrite coll_max_false]; lia. }
  unfold rd_counted in H. destruct (c <=? 0)%Z.
  - injection H as <- <-. repeat split; try assumption; try reflexivity.
  - destruct (Z.of_nat (length r1) <? c)%Z; [discriminate|].
    destruct (reads_rep p ok Hp _ r1 l r Hb1 H) as (A1 & A2 & A3).
    repeat split; try assumption. lia.
Qed.

Lemma reads_key w : reads_ok (rd_key (Some w)) (kf_ok w).
Proof.
  intros bs x r Hb H. unfold rd_key in H.
  destruct (rd_u w bs) as [[t r1]|] eqn:E1; [|discriminate]. cbn [obind] in H.
  destruct (rd_u w r1) as [[x1 r2]|] eqn:E2; [|discriminate]. cbn [obind] in H.
  destruct (rd_u w r2) as [[y1 r3]|] eqn:E3; [|discriminate]. cbn [obind] in H.
  destruct (rd_u w r3) as [[z1 r4]|] eqn:E4; [|discriminate]. cbn [obind] in H. injection H as <- <-.
  destruct (reads_u w bs t r1 Hb E1) as (A1 & A2 & A3).
  destruct (reads_u w r1 x1 r2 A2 E2) as (B1 & B2 & B3).
  destruct (reads_u w r2 y1 r3 B2 E3) as (C1 & C2 & C3).
  destruct (reads_u w r3 z1 r4 C2 E4) as (D1 & D2 & D3).
  unfold kf_ok. cbn [k_time k_x k_y k_z]. rewrite A1, B1, C1, D1. split; [reflexivity|]. split; [exact D2|].
  clear - A3 B3 C3 D3. lia.
Qed.

Lemma reads_keys ow : ow_pos ow ->
  forall bs l r, bytes_okb bs = true -> short bs -> rd_coll true (rd_key ow) bs = Some (l, r) ->
                 len_ok true l = true /\ keys_ok ow l = true /\ bytes_okb r = true /\ (length r <= length bs)%nat.
Proof.
  intros Hp bs l r Hb Hs H. destruct ow as [w|].
  - destruct (reads_coll true _ _ (reads_key w) (rd_key_consumes (Some w) Hp) bs l r Hb Hs H) as (A & B & C & D).
    repeat split; assumption.
  - (* no version: the key reader always raises, so only the empty list can have been read *)
    destruct (reads_coll true (rd_key None) (fun _ => false)) with (bs := bs) (l := l) (r := r) as (A & B & C & D);
      try assumption.
    + intros bs' x r' _ H'. discriminate.
    + apply rd_key_consumes. exact I.
    + repeat split; try assumption. destruct l; [reflexivity | discriminate].
Qed.

Lemma short_le (a b : bytes) : (length a <= length b)%nat -> short b -> short a.
Proof. unfold short. lia. Qed.

Lemma reads_joint ow : ow_pos ow ->
  forall bs x r, bytes_okb bs = true -> short bs -> rd_joint ow bs = Some (x, r) ->
                 joint_ok ow x = true /\ bytes_okb r = true /\ (length r <= length bs)%nat.
Proof.
  intros Hp bs x r Hb Hs H. unfold rd_joint in H.
  destruct (rd_cstr bs) as [[nm r1]|] eqn:E1; [|discriminate]. cbn [obind] in H.
  destruct (rd_s 4 r1) as [[pr r2]|] eqn:E2; [|discriminate]. cbn [obind] in H.
  destruct (rd_coll true (rd_key ow) r2) as [[rot r3]|] eqn:E3; [|discriminate]. cbn [obind] in H.
  destruct (rd_coll true (rd_key ow) r3) as [[pos r4]|] eqn:E4; [|discriminate]. cbn [obind] in H.
  injection H as <- <-.
  destruct (reads_cstr bs nm r1 Hb E1) as (A1 & A2 & A3).
  destruct (reads_s 4 pos4 r1 pr r2 A2 E2) as (B1 & B2 & B3).
  destruct (reads_keys ow Hp r2 rot r3 B2 (short_le r2 bs ltac:(clear - A3 B3; lia) Hs) E3) as (C0 & C1 & C2 & C3).
  destruct (reads_keys ow Hp r3 pos r4 C2 (short_le r3 bs ltac:(clear - A3 B3 C3; lia) Hs) E4) as (D0 & D1 & D2 & D3).
  unfold joint_ok. cbn [j_name j_prio j_rot j_pos]. rewrite A1, B1, C0, C1, D0, D1.
  split; [reflexivity|]. split; [exact D2|]. clear - A3 B3 C3 D3. lia.
Qed.

Lemma reads_vec3 : reads_ok rd_vec3 vec3_ok.
Proof.
  intros bs x r Hb H. unfold rd_vec3 in H.
  destruct (rd_u 4 bs) as [[x1 r1]|] eqn:E1; [|discriminate]. cbn [obind] in H.
  destruct (rd_u 4 r1) as [[y1 r2]|] eqn:E2; [|discriminate]. cbn [obind] in H.
  destruct (rd_u 4 r2) as [[z1 r3]|] eqn:E3; [|discriminate]. cbn [obind] in H. injection H as <- <-.
  destruct (reads_u 4 bs x1 r1 Hb E1) as (A1 & A2 & A3).
  destruct (reads_u 4 r1 y1 r2 A2 E2) as (B1 & B2 & B3).
  destruct (reads_u 4 r2 z1 r3 B2 E3) as (C1 & C2 & C3).
  cbn [vec3_ok]. rewrite A1, B1, C1. split; [reflexivity|]. split; [exact C2|]. clear - A3 B3 C3. lia.
Qed.

Lemma reads_constr : reads_ok rd_constr constr_ok.
Proof.
  intros bs x r Hb H. unfold rd_constr in H.
  destruct (rd_u 1 bs) as [[ch r1]|] eqn:E1; [|discriminate]. cbn [obind] in H.
  destruct (rd_u 1 r1) as [[ty r2]|] eqn:E2; [|discriminate]. cbn [obind] in H.
  destruct (rd_fixed 16 r2) as [[sv r3]|] eqn:E3; [|discriminate]. cbn [obind] in H.
  destruct (rd_vec3 r3) as [[so r4]|] eqn:E4; [|discriminate]. cbn [obind] in H.
  destruct (rd_fixed 16 r4) as [[tv r5]|] eqn:E5; [|discriminate]. cbn [obind] in H.
  destruct (rd_vec3 r5) as [[t_o r6]|] eqn:E6; [|discriminate]. cbn [obind] in H.
  destruct (rd_vec3 r6) as [[td r7]|] eqn:E7; [|discriminate]. cbn [obind] in H.
  destruct (rd_u 4 r7) as [[e1 r8]|] eqn:E8; [|discriminate]. cbn [obind] in H.
  destruct (rd_u 4 r8) as [[e2 r9]|] eqn:E9; [|discriminate]. cbn [obind] in H.
  destruct (rd_u 4 r9) as [[e3 r10]|] eqn:E10; [|discriminate]. cbn [obind] in H.
  destruct (rd_u 4 r10) as [[e4 r11]|] eqn:E11; [|discriminate]. cbn [obind] in H. injection H as <- <-.
  destruct (reads_u 1 bs ch r1 Hb E1) as (A1 & A2 & A3).
  destruct (reads_u 1 r1 ty r2 A2 E2) as (B1 & B2 & B3).
  destruct (reads_fixed 16 r2 sv r3 B2 E3) as (C1 & C2 & C3).
  destruct (reads_vec3 r3 so r4 C2 E4) as (D1 & D2 & D3).
  destruct (reads_fixed 16 r4 tv r5 D2 E5) as (F1 & F2 & F3).
  destruct (reads_vec3 r5 t_o r6 F2 E6) as (G1 & G2 & G3).
  destruct (reads_vec3 r6 td r7 G2 E7) as (H1 & H2 & H3).
  destruct (reads_u 4 r7 e1 r8 H2 E8) as (I1 & I2 & I3).
  destruct (reads_u 4 r8 e2 r9 I2 E9) as (J1 & J2 & J3).
  destruct (reads_u 4 r9 e3 r10 J2 E10) as (K1 & K2 & K3).
  destruct (reads_u 4 r10 e4 r11 K2 E11) as (M1 & M2 & M3).
  unfold constr_ok.
  cbn [c_chain c_type c_src_vol c_src_off c_tgt_vol c_tgt_off c_tgt_dir c_ease_in_start c_ease_in_stop c_ease_out_start c_ease_out_stop].
  rewrite A1, B1, C1, D1, F1, G1, H1, I1, J1, K1, M1. split; [reflexivity|]. split; [exact M2|].
  clear - A3 B3 C3 D3 F3 G3 H3 I3 J3 K3 M3. lia.
Qed.

Lemma reads_joints ow : ow_pos ow ->
  forall bs l r, bytes_okb bs = true -> short bs -> rd_coll false (rd_joint ow) bs = Some (l, r) ->
                 len_ok false l = true /\ forallb (joint_ok ow) l = true /\ bytes_okb r = true /\ (length r <= length bs)%nat.
Proof.
  (* rd_joint needs [short] for its own collections, so reads_coll is replayed with the bound threaded through *)
  intros Hp bs l r Hb Hs H.
  pose proof (rd_coll_length false _ bs l r (rd_joint_consumes ow Hp) H) as [L1 L2].
  unfold rd_coll in H.
  destruct (rd_u 4 bs) as [[u r1]|] eqn:Eu; [|discriminate]. cbn [obind] in H.
  destruct (reads_u 4 bs u r1 Hb Eu) as (_ & Hb1 & Hl1).
  assert (Hlen : len_ok false l = true).
  { unfold len_ok, short in *. rewrite coll_max_false. lia. }
  unfold rd_counted in H. destruct (Z.of_N u <=? 0)%Z.
  - injection H as <- <-. repeat split; try assumption; try reflexivity.
  - destruct (Z.of_nat (length r1) <? Z.of_N u)%Z; [discriminate|].
    assert (Hrep : forall n bs' l' r', bytes_okb bs' = true -> short bs' -> rd_rep (rd_joint ow) n bs' = Some (l', r') ->
                     forallb (joint_ok ow) l' = true /\ bytes_okb r' = true /\ (length r' <= length bs')%nat).
    { induction n as [|n IH]; intros bs' l' r' Hb' Hs' H'; cbn [rd_rep] in H'.
      - injection H' as <- <-. repeat split; [exact Hb' | lia].
      - destruct (rd_joint ow bs') as [[x r2]|] eqn:E1; [|discriminate]. cbn [obind] in H'.
        destruct (rd_rep (rd_joint ow) n r2) as [[xs r3]|] eqn:E2; [|discriminate]. cbn [obind] in H'.
        injection H' as <- <-.
        destruct (reads_joint ow Hp bs' x r2 Hb' Hs' E1) as (A1 & A2 & A3).
        destruct (IH r2 xs r3 A2 (short_le _ _ A3 Hs') E2) as (B1 & B2 & B3).
        cbn [forallb]. rewrite A1, B1. repeat split; [exact B2 | lia]. }
    destruct (Hrep _ r1 l r Hb1 (short_le _ _ Hl1 Hs) H) as (A1 & A2 & A3).
    repeat split; try assumption. lia.
Qed.

Theorem parse_anim_wf bs a r : bytes_okb bs = true -> short bs -> parse_anim bs = Some (a, r) ->
  wf_anim a = true /\ bytes_okb r = true /\ (length r <= length bs)%nat.
Proof.
  intros Hb Hs H. unfold parse_anim in H.
  destruct (rd_u 2 bs) as [[maj r1]|] eqn:E1; [|discriminate]. cbn [obind] in H.
  destruct (rd_u 2 r1) as [[mi r2]|] eqn:E2; [|discriminate]. cbn [obind] in H.
  destruct (rd_s 4 r2) as [[bp r3]|] eqn:E3; [|discriminate]. cbn [obind] in H.
  destruct (rd_u 4 r3) as [[du r4]|] eqn:E4; [|discriminate]. cbn [obind] in H.
  destruct (rd_cstr r4) as [[em r5]|] eqn:E5; [|discriminate]. cbn [obind] in H.
  destruct (rd_u 4 r5) as [[li r6]|] eqn:E6; [|discriminate]. cbn [obind] in H.
  destruct (rd_u 4 r6) as [[lo r7]|] eqn:E7; [|discriminate]. cbn [obind] in H.
  destruct (rd_s 4 r7) as [[lp r8]|] eqn:E8; [|discriminate]. cbn [obind] in H.
  destruct (rd_u 4 r8) as [[ei r9]|] eqn:E9; [|discriminate]. cbn [obind] in H.
  destruct (rd_u 4 r9) as [[eo r10]|] eqn:E10; [|discriminate]. cbn [obind] in H.
  destruct (rd_u 4 r10) as [[hp r11]|] eqn:E11; [|discriminate]. cbn [obind] in H.
  destruct (rd_coll false (rd_joint (key_width maj mi)) r11) as [[js r12]|] eqn:E12; [|discriminate]. cbn [obind] in H.
  destruct (rd_coll true rd_constr r12) as [[cs r13]|] eqn:E13; [|discriminate]. cbn [obind] in H.
  injection H as <- <-.
  destruct (reads_u 2 bs maj r1 Hb E1) as (A1 & A2 & A3).
  destruct (reads_u 2 r1 mi r2 A2 E2) as (B1 & B2 & B3).
  destruct (reads_s 4 pos4 r2 bp r3 B2 E3) as (C1 & C2 & C3).
  destruct (reads_u 4 r3 du r4 C2 E4) as (D1 & D2 & D3).
  destruct (reads_cstr r4 em r5 D2 E5) as (F1 & F2 & F3).
  destruct (reads_u 4 r5 li r6 F2 E6) as (G1 & G2 & G3).
  destruct (reads_u 4 r6 lo r7 G2 E7) as (H1 & H2 & H3).
  destruct (reads_s 4 pos4 r7 lp r8 H2 E8) as (I1 & I2 & I3).
  destruct (reads_u 4 r8 ei r9 I2 E9) as (J1 & J2 & J3).
  destruct (reads_u 4 r9 eo r10 J2 E10) as (K1 & K2 & K3).
  destruct (reads_u 4 r10 hp r11 K2 E11) as (M1 & M2 & M3).
  destruct (reads_joints _ (key_width_pos maj mi) r11 js r12 M2 (short_le r11 bs ltac:(clear - A3 B3 C3 D3 F3 G3 H3 I3 J3 K3 M3; lia) Hs) E12) as (N0 & N1 & N2 & N3).
  destruct (reads_coll true _ _ reads_constr rd_constr_consumes r12 cs r13 N2 (short_le r12 bs ltac:(clear - A3 B3 C3 D3 F3 G3 H3 I3 J3 K3 M3 N3; lia) Hs) E13)
    as (P0 & P1 & P2 & P3).
  unfold wf_anim.
  cbn [a_major a_minor a_base_prio a_duration a_emote a_loop_in a_loop_out a_loop a_ease_in a_ease_out a_hand_pose a_joints a_constraints].
  rewrite A1, B1, C1, D1, F1, G1, H1, I1, J1, K1, M1, N0, N1, P0, P1.
  split; [reflexivity|]. split; [exact P2|]. clear - A3 B3 C3 D3 F3 G3 H3 I3 J3 K3 M3 N3 P3. lia.
Qed.

(* re-serialising what was parsed and parsing again gives the same animation and the same rest *)
Theorem anim_reparse bs a r : bytes_okb bs = true -> short bs -> parse_anim bs = Some (a, r) ->
  exists bs', write_anim a = Some bs' /\ parse_anim (bs' ++ r) = Some (a, r).
Proof.
  intros Hb Hs H. destruct (parse_anim_wf bs a r Hb Hs H) as (Hwf & _ & _).
  destruct (anim_rt a Hwf) as (bs' & Hw & _ & Hp). exists bs'. split; [exact Hw | apply Hp].
Qed.
