(* C20 - animation assets (hippolyzer/lib/base/llanim.py).  Definitions only.

   Hand model of the spec tree  se.Dataclass(Animation)  as it is evaluated by
   hippolyzer/lib/base/serialization.py with a little-endian BufferReader/BufferWriter:

     Animation   major_version U16, minor_version U16, base_priority S32, duration F32, emote_name CStr,
                 loop_in_point F32, loop_out_point F32, loop S32, ease_in_duration F32, ease_out_duration F32,
                 hand_pose IntEnum(HandPose, U32),
                 joints  MultiDictAdapter(Collection(U32, Tuple(CStr, Dataclass(Joint)))),
                 constraints Collection(S32, Dataclass(Constraint))
     Joint       priority S32, rot_keyframes Collection(S32, RotKeyframe), pos_keyframes Collection(S32, PosKeyframe)
     Rot/PosKeyframe   time  ContextSwitch(version){(0,1): F32, (1,0): QuantizedTime(U16)}
                       rot   ContextSwitch(version){(0,1): PackedQuat(Vector3), (1,0): PackedQuat(Vector3U16(-1,1))}
                       pos   ContextSwitch(version){(0,1): Vector3,             (1,0): Vector3U16(-5,5)}
     Constraint  chain_length U8, type IntEnum(U8), source_volume StrFixed(16), source_offset Vector3,
                 target_volume StrFixed(16), target_offset Vector3, target_dir Vector3, 4 x F32

   RAW LEVEL.  Floats are their 32-bit patterns ([N] below 2^32), quantised values their wire integers
   ([N] below 2^16): the float/quantiser layer (struct 'f', QuantizedTime, Vector3U16, PackedQuat's W) is C10's
   business.  A Python str is represented by its UTF-8 encoding (a byte list accepted by [utf8_valid]); IntEnum
   adapters are the identity on the wire integer.  So a keyframe is four raw numbers whose width (4 bytes for
   version 0.1, 2 bytes for version 1.0) is chosen by the version read at the root - for any other version
   ContextSwitch._choose_option raises KeyError as soon as a keyframe is read or written, and only then.

   Exceptions are [None]: struct.error (integer out of range), ValueError (short read; collection longer than the
   count field allows; StrFixed too long), UnicodeDecodeError, KeyError (version).  Animation.from_bytes does
   not look at what follows the value, so the reader returns the unread rest. *)
From Coq Require Import NArith ZArith List Bool.
From HV Require Import Base.Bytes.
Import ListNotations.
Open Scope N_scope.

Definition bytes := list N.

Definition obind {A B : Type} (o : option A) (f : A -> option B) : option B :=
  match o with Some x => f x | None => None end.
Notation "'do' x <- o ; k" := (obind o (fun x => k)) (at level 200, x binder, o at level 100, k at level 200).

(* ---------- primitives: struct.pack/unpack '<B' '<H' '<I' '<i' '<f'(raw) ---------- *)

Definition u_ok (n : nat) (v : N) : bool := v <? 256 ^ N.of_nat n.
Definition s_ok (n : nat) (z : Z) : bool :=
  ((- 2 ^ (8 * Z.of_nat n - 1) <=? z) && (z <? 2 ^ (8 * Z.of_nat n - 1)))%Z.

Definition rd_u (n : nat) (bs : bytes) : option (N * bytes) :=
  do '(a, r) <- take n bs; Some (of_le a, r).
Definition rd_s (n : nat) (bs : bytes) : option (Z * bytes) :=
  do '(a, r) <- take n bs; Some (to_signed n (of_le a), r).

Definition wr_u (n : nat) (v : N) : option bytes := if u_ok n v then Some (le_bytes n v) else None.
Definition wr_s (n : nat) (z : Z) : option bytes := if s_ok n z then Some (le_bytes n (of_signed n z)) else None.

(* ---------- bytes.decode("utf8"): the strict decoder accepts exactly RFC 3629 ---------- *)

Definition cont (b : N) : bool := (128 <=? b) && (b <? 192).

Fixpoint utf8_valid (l : bytes) : bool :=
  match l with
  | [] => true
  | b0 :: r =>
    if b0 <? 128 then utf8_valid r
    else if b0 <? 194 then false
    else if b0 <? 224 then
      match r with
      | b1 :: r1 => cont b1 && utf8_valid r1
      | _ => false
      end
    else if b0 <? 240 then
      match r with
      | b1 :: b2 :: r2 =>
        (if b0 =? 224 then (160 <=? b1) && (b1 <? 192)
         else if b0 =? 237 then (128 <=? b1) && (b1 <? 160)
         else cont b1) && cont b2 && utf8_valid r2
      | _ => false
      end
    else if b0 <? 245 then
      match r with
      | b1 :: b2 :: b3 :: r3 =>
        (if b0 =? 240 then (144 <=? b1) && (b1 <? 192)
         else if b0 =? 244 then (128 <=? b1) && (b1 <? 144)
         else cont b1) && cont b2 && cont b3 && utf8_valid r3
      | _ => false
      end
    else false
  end.

(* ---------- CStr(): BytesTerminated((b"\0",), write_terminator=True, eof_terminates=True) + utf8 ----------
   deserialize: scan to the first NUL or to the end of the buffer (no error at EOF), skip the NUL if there is one *)

Fixpoint span_nul (l : bytes) : bytes * bytes :=
  match l with
  | [] => ([], [])
  | b :: r => if b =? 0 then ([], r) else let '(a, t) := span_nul r in (b :: a, t)
  end.

Definition rd_cstr (bs : bytes) : option (bytes * bytes) :=
  let '(s, r) := span_nul bs in if utf8_valid s then Some (s, r) else None.
Definition wr_cstr (s : bytes) : option bytes := Some (s ++ [0]).

(* ---------- StrFixed(n): BytesFixed(n), NUL padded; deserialize = rstrip(b"\0").decode("utf8") ---------- *)

Fixpoint rstrip0 (l : bytes) : bytes :=
  match l with
  | [] => []
  | b :: r => match rstrip0 r with
              | [] => if b =? 0 then [] else [b]
              | r' => b :: r'
              end
  end.

Definition rd_fixed (n : nat) (bs : bytes) : option (bytes * bytes) :=
  do '(f, r) <- take n bs;
  let s := rstrip0 f in if utf8_valid s then Some (s, r) else None.
Definition wr_fixed (n : nat) (s : bytes) : option bytes :=
  if (n <? length s)%nat then None else Some (s ++ repeat 0 (n - length s)%nat).

(* ---------- Collection(len_spec, entry) ---------- *)

Fixpoint rd_rep {A : Type} (p : bytes -> option (A * bytes)) (n : nat) (bs : bytes) : option (list A * bytes) :=
  match n with
  | O => Some ([], bs)
  | S k => do '(x, r) <- p bs; do '(xs, r') <- rd_rep p k r; Some (x :: xs, r')
  end.

(* `for _ in range(size)`: nothing for size <= 0.  Every entry reader below consumes at least one byte, so a count
   beyond the number of bytes left can only end in ValueError; the model says so at once instead of building
   a huge unary counter ([rd_counted_guard] in AnimProofs.v shows the test changes nothing). *)
Definition rd_counted {A : Type} (p : bytes -> option (A * bytes)) (count : Z) (bs : bytes) : option (list A * bytes) :=
  if (count <=? 0)%Z then Some ([], bs)
  else if (Z.of_nat (length bs) <? count)%Z then None
  else rd_rep p (Z.to_nat count) bs.

Fixpoint wr_list {A : Type} (w : A -> option bytes) (l : list A) : option bytes :=
  match l with
  | [] => Some []
  | x :: r => do a <- w x; do b <- wr_list w r; Some (a ++ b)
  end.

(* serialize: `if max_len < len(entries): raise ValueError`, then the count through len_spec, then the entries;
   deserialize: the count through len_spec, then `range(count)` entries.  signed = the len_spec is S32 (else U32). *)
Definition coll_max (signed : bool) : N := if signed then 2 ^ 31 - 1 else 2 ^ 32 - 1.

Definition wr_coll {A : Type} (signed : bool) (w : A -> option bytes) (l : list A) : option bytes :=
  if coll_max signed <? N.of_nat (length l) then None
  else
    do hd <- (if signed then wr_s 4 (Z.of_nat (length l)) else wr_u 4 (N.of_nat (length l)));
    do body <- wr_list w l;
    Some (hd ++ body).

Definition rd_coll {A : Type} (signed : bool) (p : bytes -> option (A * bytes)) (bs : bytes) : option (list A * bytes) :=
  do '(c, r) <- (if signed then rd_s 4 bs else do '(u, r) <- rd_u 4 bs; Some (Z.of_N u, r));
  rd_counted p c r.

(* ---------- keyframes ---------- *)

(* _get_version_from_context + the option tables: width in bytes of every keyframe number *)
Definition key_width (major minor : N) : option nat :=
  if (major =? 0) && (minor =? 1) then Some 4%nat
  else if (major =? 1) && (minor =? 0) then Some 2%nat
  else None.

Record key := mkKey { k_time : N; k_x : N; k_y : N; k_z : N }.

Definition rd_key (ow : option nat) (bs : bytes) : option (key * bytes) :=
  match ow with
  | None => None
  | Some w =>
    do '(t, r) <- rd_u w bs; do '(x, r) <- rd_u w r; do '(y, r) <- rd_u w r; do '(z, r) <- rd_u w r;
    Some (mkKey t x y z, r)
  end.

Definition wr_key (ow : option nat) (k : key) : option bytes :=
  match ow with
  | None => None
  | Some w =>
    do a <- wr_u w (k_time k); do b <- wr_u w (k_x k); do c <- wr_u w (k_y k); do d <- wr_u w (k_z k);
    Some (a ++ b ++ c ++ d)
  end.

(* ---------- joints: Tuple(CStr, Dataclass(Joint)) ---------- *)

Record joint := mkJoint { j_name : bytes; j_prio : Z; j_rot : list key; j_pos : list key }.

Definition rd_joint (ow : option nat) (bs : bytes) : option (joint * bytes) :=
  do '(nm, r) <- rd_cstr bs;
  do '(p, r) <- rd_s 4 r;
  do '(rot, r) <- rd_coll true (rd_key ow) r;
  do '(pos, r) <- rd_coll true (rd_key ow) r;
  Some (mkJoint nm p rot pos, r).

Definition wr_joint (ow : option nat) (j : joint) : option bytes :=
  do a <- wr_cstr (j_name j);
  do b <- wr_s 4 (j_prio j);
  do c <- wr_coll true (wr_key ow) (j_rot j);
  do d <- wr_coll true (wr_key ow) (j_pos j);
  Some (a ++ b ++ c ++ d).

(* ---------- constraints ---------- *)

Definition vec3 : Type := N * N * N.

Definition rd_vec3 (bs : bytes) : option (vec3 * bytes) :=
  do '(x, r) <- rd_u 4 bs; do '(y, r) <- rd_u 4 r; do '(z, r) <- rd_u 4 r; Some ((x, y, z), r).
Definition wr_vec3 (v : vec3) : option bytes :=
  let '(x, y, z) := v in
  do a <- wr_u 4 x; do b <- wr_u 4 y; do c <- wr_u 4 z; Some (a ++ b ++ c).

Record constr := mkConstr {
  c_chain : N; c_type : N;
  c_src_vol : bytes; c_src_off : vec3;
  c_tgt_vol : bytes; c_tgt_off : vec3; c_tgt_dir : vec3;
  c_ease_in_start : N; c_ease_in_stop : N; c_ease_out_start : N; c_ease_out_stop : N }.

Definition rd_constr (bs : bytes) : option (constr * bytes) :=
  do '(ch, r) <- rd_u 1 bs;
  do '(ty, r) <- rd_u 1 r;
  do '(sv, r) <- rd_fixed 16 r;
  do '(so, r) <- rd_vec3 r;
  do '(tv, r) <- rd_fixed 16 r;
  do '(to, r) <- rd_vec3 r;
  do '(td, r) <- rd_vec3 r;
  do '(e1, r) <- rd_u 4 r; do '(e2, r) <- rd_u 4 r; do '(e3, r) <- rd_u 4 r; do '(e4, r) <- rd_u 4 r;
  Some (mkConstr ch ty sv so tv to td e1 e2 e3 e4, r).

Definition wr_constr (c : constr) : option bytes :=
  do a <- wr_u 1 (c_chain c);
  do b <- wr_u 1 (c_type c);
  do sv <- wr_fixed 16 (c_src_vol c);
  do so <- wr_vec3 (c_src_off c);
  do tv <- wr_fixed 16 (c_tgt_vol c);
  do to <- wr_vec3 (c_tgt_off c);
  do td <- wr_vec3 (c_tgt_dir c);
  do e1 <- wr_u 4 (c_ease_in_start c); do e2 <- wr_u 4 (c_ease_in_stop c);
  do e3 <- wr_u 4 (c_ease_out_start c); do e4 <- wr_u 4 (c_ease_out_stop c);
  Some (a ++ b ++ sv ++ so ++ tv ++ to ++ td ++ e1 ++ e2 ++ e3 ++ e4).

(* ---------- Animation ---------- *)

Record anim := mkAnim {
  a_major : N; a_minor : N; a_base_prio : Z; a_duration : N; a_emote : bytes;
  a_loop_in : N; a_loop_out : N; a_loop : Z; a_ease_in : N; a_ease_out : N; a_hand_pose : N;
  a_joints : list joint; a_constraints : list constr }.

(* Animation.from_bytes: the value and the unread rest of the buffer *)
Definition parse_anim (bs : bytes) : option (anim * bytes) :=
  do '(maj, r) <- rd_u 2 bs;
  do '(mi, r) <- rd_u 2 r;
  do '(bp, r) <- rd_s 4 r;
  do '(du, r) <- rd_u 4 r;
  do '(em, r) <- rd_cstr r;
  do '(li, r) <- rd_u 4 r;
  do '(lo, r) <- rd_u 4 r;
  do '(lp, r) <- rd_s 4 r;
  do '(ei, r) <- rd_u 4 r;
  do '(eo, r) <- rd_u 4 r;
  do '(hp, r) <- rd_u 4 r;
  do '(js, r) <- rd_coll false (rd_joint (key_width maj mi)) r;
  do '(cs, r) <- rd_coll true rd_constr r;
  Some (mkAnim maj mi bp du em li lo lp ei eo hp js cs, r).

(* Animation.to_bytes *)
Definition write_anim (a : anim) : option bytes :=
  let ow := key_width (a_major a) (a_minor a) in
  do b1 <- wr_u 2 (a_major a);
  do b2 <- wr_u 2 (a_minor a);
  do b3 <- wr_s 4 (a_base_prio a);
  do b4 <- wr_u 4 (a_duration a);
  do b5 <- wr_cstr (a_emote a);
  do b6 <- wr_u 4 (a_loop_in a);
  do b7 <- wr_u 4 (a_loop_out a);
  do b8 <- wr_s 4 (a_loop a);
  do b9 <- wr_u 4 (a_ease_in a);
  do b10 <- wr_u 4 (a_ease_out a);
  do b11 <- wr_u 4 (a_hand_pose a);
  do b12 <- wr_coll false (wr_joint ow) (a_joints a);
  do b13 <- wr_coll true wr_constr (a_constraints a);
  Some (b1 ++ b2 ++ b3 ++ b4 ++ b5 ++ b6 ++ b7 ++ b8 ++ b9 ++ b10 ++ b11 ++ b12 ++ b13).

(* ---------- the round-trip domain (decidable) ---------- *)

Definition no_nul (s : bytes) : bool := forallb (fun b => negb (b =? 0)) s.

(* a Python str without U+0000, as its UTF-8 bytes *)
Definition cstr_ok (s : bytes) : bool := bytes_okb s && no_nul s && utf8_valid s.

(* a Python str of at most n UTF-8 bytes that does not end in U+0000 (rstrip would eat it) *)
Definition fixed_ok (n : nat) (s : bytes) : bool :=
  bytes_okb s && (length s <=? n)%nat && negb (last s 1 =? 0) && utf8_valid s.

Definition kf_ok (w : nat) (k : key) : bool :=
  u_ok w (k_time k) && u_ok w (k_x k) && u_ok w (k_y k) && u_ok w (k_z k).

(* keyframes need a known version; without keyframes any version goes *)
Definition keys_ok (ow : option nat) (l : list key) : bool :=
  match ow with
  | Some w => forallb (kf_ok w) l
  | None => match l with [] => true | _ => false end
  end.

Definition len_ok (signed : bool) {A : Type} (l : list A) : bool := N.of_nat (length l) <=? coll_max signed.

Definition joint_ok (ow : option nat) (j : joint) : bool :=
  cstr_ok (j_name j) && s_ok 4 (j_prio j) &&
  len_ok true (j_rot j) && keys_ok ow (j_rot j) && len_ok true (j_pos j) && keys_ok ow (j_pos j).

Definition vec3_ok (v : vec3) : bool := let '(x, y, z) := v in u_ok 4 x && u_ok 4 y && u_ok 4 z.

Definition constr_ok (c : constr) : bool :=
  u_ok 1 (c_chain c) && u_ok 1 (c_type c) && fixed_ok 16 (c_src_vol c) && vec3_ok (c_src_off c) &&
  fixed_ok 16 (c_tgt_vol c) && vec3_ok (c_tgt_off c) && vec3_ok (c_tgt_dir c) &&
  u_ok 4 (c_ease_in_start c) && u_ok 4 (c_ease_in_stop c) && u_ok 4 (c_ease_out_start c) && u_ok 4 (c_ease_out_stop c).

Definition wf_anim (a : anim) : bool :=
  let ow := key_width (a_major a) (a_minor a) in
  u_ok 2 (a_major a) && u_ok 2 (a_minor a) && s_ok 4 (a_base_prio a) && u_ok 4 (a_duration a) &&
  cstr_ok (a_emote a) && u_ok 4 (a_loop_in a) && u_ok 4 (a_loop_out a) && s_ok 4 (a_loop a) &&
  u_ok 4 (a_ease_in a) && u_ok 4 (a_ease_out a) && u_ok 4 (a_hand_pose a) &&
  len_ok false (a_joints a) && forallb (joint_ok ow) (a_joints a) &&
  len_ok true (a_constraints a) && forallb constr_ok (a_constraints a).
