(* C20 (B8) - whole inventory models.  Definitions only (lemmas: Asset/InvModelProofs.v).

   inventory.py  InventoryModel: nodes (dict keyed by node id, insertion ordered), add(), root, ordered_nodes /
                 all_containers / all_items, to_writer, from_reader (block-kind dispatch by the header token),
                 to_llsd / from_llsd (both flavours: a flat list of per-node dicts, class chosen by the id key),
                 __eq__ (set of the nodes);
                 the AIS overrides InventoryCategory.to_llsd/from_llsd ("type" dropped / re-added) and
                 InventoryItem.to_llsd/from_llsd (agent_id, link items: linked_id, permissions/sale_info dropped and
                 re-created).
   The per-node layer is Asset/Record.v (text) and Asset/Llsd.v (SchemaBase.to_llsd/from_llsd).

   A node is (class index in INVENTORY_TYPES order, record in dataclasses.fields order).  Every format visits the
   fields in its own order (text: ID_ATTR first; LLSD: _get_fields_dict(llsd_flavor) order, which InventoryCategory
   re-orders for AIS), so a class carries, per format, the schema in that order and the list [perm] giving for every
   schema position the index of the field in the dataclass record.  All of it is generated from the live classes
   (harness/translate/c20_invmodel.py -> gen/C20_invmodel.v).

   NOT part of InventoryModel in the code (and so not here): a nested "categories/items/links" AIS document and
   "_embedded" - those exist only in client/inventory_manager.py's reader (process_aisv3_response), which has no
   writer to round-trip with; InventoryModel.from_llsd/to_llsd use a flat list in both flavours. *)
From Coq Require Import NArith ZArith List Bool Arith.
From HV Require Import Base.Bytes Asset.Schema Asset.Digits Asset.Record Asset.Llsd.
Import ListNotations.

(* ---------- Python dicts as insertion-ordered association lists (lookup = Record.assoc_s) ---------- *)
Section DictOps.
  Context {A : Type}.
  Definition dmem (d : list (str * A)) (k : str) : bool := match assoc_s d k with Some _ => true | None => false end.
  (* d[k] = v : in place when the key exists, appended otherwise *)
  Fixpoint d_set (d : list (str * A)) (k : str) (v : A) : list (str * A) :=
    match d with
    | [] => [(k, v)]
    | (k', v') :: r => if str_eqb k' k then (k', v) :: r else (k', v') :: d_set r k v
    end.
  (* d.pop(k, None) *)
  Fixpoint ddel (d : list (str * A)) (k : str) : list (str * A) :=
    match d with
    | [] => []
    | (k', v') :: r => if str_eqb k' k then r else (k', v') :: ddel r k
    end.
End DictOps.

(* ---------- field order of a format ---------- *)
Definition permute {A} (dflt : A) (p : list nat) (r : list A) : list A := map (fun i => nth i r dflt) p.
Fixpoint pos_of (j : nat) (p : list nat) : nat :=
  match p with [] => 0 | x :: q => if Nat.eqb x j then 0 else S (pos_of j q) end.
Definition unpermute {A} (dflt : A) (p : list nat) (r : list A) : list A :=
  map (fun j => nth (pos_of j p) r dflt) (seq 0 (length p)).
(* p lists every index 0..n-1 (with length n: a bijection) *)
Definition covers (p : list nat) (n : nat) : bool :=
  Nat.eqb (length p) n && forallb (fun j => existsb (Nat.eqb j) p) (seq 0 n).

(* ---------- classes ---------- *)
(* the hand-written AIS overrides, with the keys and constants they mention *)
Inductive override :=
| OvNone                                                     (* InventoryObject: SchemaBase's methods *)
| OvCat (type_key : str) (cat_val : Z)                       (* InventoryCategory: "type", AssetType.CATEGORY *)
| OvItem (agent_key perms_key owner_key type_key linked_key asset_key sale_key : str) (link_val : Z)
         (dflt_perms dflt_sale : lval).                      (* InventoryItem: AssetType.LINK, what from_llsd re-creates *)

Record cls := mkCls {
  c_name : str;                 (* SCHEMA_NAME = the block's header token *)
  c_container : bool;           (* isinstance(node, InventoryContainerBase) *)
  c_arity : nat;                (* number of schema fields of the dataclass *)
  c_idpos : nat;                (* position of ID_ATTR in the dataclass record *)
  c_parentpos : nat;            (* position of parent_id *)
  c_text : schema; c_text_perm : list nat;
  c_legacy : schema; c_legacy_perm : list nat; c_legacy_id : str;      (* ID_ATTR *)
  c_ais : schema; c_ais_perm : list nat; c_ais_id : str;               (* ID_ATTR_AIS or ID_ATTR *)
  c_ov : override }.

Definition c_llsd (fl : flavor) (c : cls) : schema := match fl with Legacy => c_legacy c | Ais => c_ais c end.
Definition c_perm (fl : flavor) (c : cls) : list nat := match fl with Legacy => c_legacy_perm c | Ais => c_ais_perm c end.
Definition c_id (fl : flavor) (c : cls) : str := match fl with Legacy => c_legacy_id c | Ais => c_ais_id c end.

Definition ctable := list cls.
Definition node := (nat * record)%type.

(* ---------- structural equality of values (dataclass __eq__: same class, equal field tuples) ---------- *)
Fixpoint opvals_eqb (a b : list (option pval)) : bool :=
  match a, b with
  | [], [] => true
  | x :: a', y :: b' => opval_eqb x y && opvals_eqb a' b'
  | _, _ => false
  end.
Definition fval_eqb (a b : fval) : bool :=
  match a, b with
  | P x, P y => pval_eqb x y
  | R x, R y => opvals_eqb x y
  | _, _ => false
  end.
Definition ofval_eqb (a b : option fval) : bool :=
  match a, b with Some x, Some y => fval_eqb x y | None, None => true | _, _ => false end.
Fixpoint record_eqb (a b : record) : bool :=
  match a, b with
  | [], [] => true
  | x :: a', y :: b' => ofval_eqb x y && record_eqb a' b'
  | _, _ => false
  end.
Definition node_eqb (a b : node) : bool := Nat.eqb (fst a) (fst b) && record_eqb (snd a) (snd b).

(* ---------- the node store ---------- *)
Definition nkey := option fval.          (* whatever the ID_ATTR attribute holds (a UUID = Some (P (VN _))) *)

Record store := mkStore {
  s_nodes : list (nkey * node);          (* self.nodes, in insertion order *)
  s_root : option node }.               (* self.root *)

Definition empty_store : store := mkStore [] None.
Definition svalues (m : store) : list node := map snd (s_nodes m).
Definition skeys (m : store) : list nkey := map fst (s_nodes m).

Definition node_key (T : ctable) (n : node) : nkey :=
  match nth_error T (fst n) with Some c => nth (c_idpos c) (snd n) None | None => None end.
Definition is_container (T : ctable) (n : node) : bool :=
  match nth_error T (fst n) with Some c => c_container c | None => false end.
(* node.parent_id == UUID.ZERO *)
Definition parent_zero (T : ctable) (n : node) : bool :=
  match nth_error T (fst n) with
  | Some c => match nth (c_parentpos c) (snd n) None with Some (P (VN 0%N)) => true | _ => false end
  | None => false
  end.

Definition new_root (T : ctable) (r : option node) (n : node) : option node :=
  if is_container T n && parent_zero T n then Some n else r.

(* InventoryModel.add ; None = KeyError *)
Definition inv_add (T : ctable) (m : store) (n : node) : option store :=
  let k := node_key T n in
  if existsb (ofval_eqb k) (skeys m) then None
  else Some (mkStore (s_nodes m ++ [(k, n)]) (new_root T (s_root m) n)).

Fixpoint add_all (T : ctable) (m : store) (ns : list node) : option store :=
  match ns with
  | [] => Some m
  | n :: r => match inv_add T m n with Some m' => add_all T m' r | None => None end
  end.

(* ordered_nodes: all_containers, then all_items, each in dict order *)
Definition ordered (T : ctable) (vs : list node) : list node :=
  filter (is_container T) vs ++ filter (fun n => negb (is_container T n)) vs.

(* InventoryModel.__eq__ : set(self.nodes.values()) == set(other.nodes.values()) *)
Definition incl_b (a b : list node) : bool := forallb (fun x => existsb (node_eqb x) b) a.
Definition model_eqb (m1 m2 : store) : bool := incl_b (svalues m1) (svalues m2) && incl_b (svalues m2) (svalues m1).
Definition model_eq (m1 m2 : store) : Prop := forall n, In n (svalues m1) <-> In n (svalues m2).

(* ---------- legacy text ---------- *)
(* node.to_writer *)
Definition node_lines (T : ctable) (n : node) : list str :=
  match nth_error T (fst n) with
  | Some c => to_lines (c_name c) (c_text c) (permute None (c_text_perm c) (snd n))
  | None => []
  end.

(* InventoryModel.to_writer *)
Definition to_writer (T : ctable) (m : store) : list str := concat (map (node_lines T) (ordered T (svalues m))).

(* if key == "inv_object" .. elif key == "inv_category" .. elif key == "inv_item" *)
Fixpoint find_name (T : ctable) (k : str) (i : nat) : option (nat * cls) :=
  match T with
  | [] => None
  | c :: r => if str_eqb (c_name c) k then Some (i, c) else find_name r k (S i)
  end.

(* InventoryModel.from_reader over the lines left in the reader.  The outer loop is _yield_schema_tokens, so a
   blank / unparsable / "{" line is skipped, an unknown key is skipped (warning), and a "}" ENDS the loop (whatever
   follows is never read).  A known header hands the reader to Cls.from_reader (Record.from_lines), which consumes
   the block.  Every turn consumes at least one line: fuel = number of lines + 1 is always enough
   (InvModelProofs.read_top_fuel); None = an exception escaped (a field parser, a missing required field, KeyError). *)
Fixpoint read_top (T : ctable) (fuel : nat) (lines : list str) (m : store) : option store :=
  match fuel with
  | O => None
  | S f =>
    match lines with
    | [] => Some m
    | l :: rest =>
      match strip l with
      | [] => read_top T f rest m
      | s =>
        match parse_stripped s with
        | None => read_top T f rest m
        | Some (k, _) =>
          if str_eqb k [LBRACE] then read_top T f rest m
          else if str_eqb k [RBRACE] then Some m
          else match find_name T k 0 with
               | None => read_top T f rest m
               | Some (i, c) =>
                 match from_lines (c_text c) rest with
                 | None => None
                 | Some (r, rest') =>
                   match inv_add T m (i, unpermute None (c_text_perm c) r) with
                   | None => None
                   | Some m' => read_top T f rest' m'
                   end
                 end
               end
        end
      end
    end
  end.

Definition from_reader (T : ctable) (lines : list str) : option store := read_top T (S (length lines)) lines empty_store.

(* lines the outer loop steps over / stops at *)
Definition skip_line (T : ctable) (l : str) : bool :=
  match strip l with
  | [] => true
  | s => match parse_stripped s with
         | None => true
         | Some (k, _) => str_eqb k [LBRACE]
                          || (negb (str_eqb k [RBRACE]) && match find_name T k 0 with None => true | Some _ => false end)
         end
  end.
Definition stop_line (l : str) : bool :=
  match strip l with
  | [] => false
  | s => match parse_stripped s with
         | None => false
         | Some (k, _) => negb (str_eqb k [LBRACE]) && str_eqb k [RBRACE]
         end
  end.

(* ---------- LLSD, both flavours ---------- *)
Definition dict := list (str * lval).

(* the part of Cls.to_llsd(flavor="ais") after super().to_llsd ; None = KeyError / TypeError *)
Definition ov_write (ov : override) (d : dict) : option dict :=
  match ov with
  | OvNone => Some d
  | OvCat tk _ => Some (ddel d tk)                                  (* payload.pop("type", None) *)
  | OvItem ak pk ok tk lk ask sk link _ _ =>
    match assoc_s d pk with
    | Some (LM pm) =>
      match assoc_s pm ok with
      | Some o =>
        let d1 := d_set d ak (LP o) in                              (* val["agent_id"] = val["permissions"]["owner_id"] *)
        if (match assoc_s d1 tk with Some (LP (LI z)) => (z =? link)%Z | _ => false end)
        then match assoc_s d1 ask with                              (* val["linked_id"] = val.pop("asset_id") *)
             | Some a => Some (ddel (ddel (d_set (ddel d1 ask) lk a) pk) sk)
             | None => None
             end
        else Some d1
      | None => None
      end
    | _ => None
    end
  end.

(* the part of Cls.from_llsd(.., "ais") before super().from_llsd *)
Definition ov_read (ov : override) (d : dict) : dict :=
  match ov with
  | OvNone => d
  | OvCat tk cv => if dmem d tk then d else d_set d tk (LP (LI cv))
  | OvItem ak pk ok tk lk ask sk link dp ds =>
    match assoc_s d lk with
    | None => d
    | Some lv =>
      let d1 := if dmem d pk then d else d_set d pk dp in
      let d2 := if dmem d1 sk then d1 else d_set d1 sk ds in
      let d3 := if dmem d2 tk then d2 else d_set d2 tk (LP (LI link)) in
      d_set (ddel d3 lk) ask lv                                       (* inv_dict["asset_id"] = inv_dict.pop("linked_id") *)
    end
  end.

(* node.to_llsd(flavor) *)
Definition class_to_llsd (fl : flavor) (c : cls) (r : record) : option dict :=
  let d := to_llsd fl (c_llsd fl c) (permute None (c_perm fl c) r) in
  match fl with Legacy => Some d | Ais => ov_write (c_ov c) d end.
Definition node_to_llsd (fl : flavor) (T : ctable) (n : node) : option dict :=
  match nth_error T (fst n) with Some c => class_to_llsd fl c (snd n) | None => None end.

(* Cls.from_llsd(dict, flavor) *)
Definition class_from_llsd (fl : flavor) (c : cls) (d : dict) : option record :=
  option_map (unpermute None (c_perm fl c))
             (from_llsd fl (c_llsd fl c) (match fl with Legacy => d | Ais => ov_read (c_ov c) d end)).

Fixpoint map_opt {A B} (f : A -> option B) (l : list A) : option (list B) :=
  match l with
  | [] => Some []
  | x :: r => match f x, map_opt f r with Some y, Some ys => Some (y :: ys) | _, _ => None end
  end.

(* InventoryModel.to_llsd(flavor) *)
Definition model_to_llsd (fl : flavor) (T : ctable) (m : store) : option (list dict) :=
  map_opt (node_to_llsd fl T) (ordered T (svalues m)).

(* for inv_type in INVENTORY_TYPES: if id_attr in obj_dict: ... break *)
Fixpoint find_id (fl : flavor) (T : ctable) (d : dict) (i : nat) : option (nat * cls) :=
  match T with
  | [] => None
  | c :: r => if dmem d (c_id fl c) then Some (i, c) else find_id fl r d (S i)
  end.

(* InventoryModel.from_llsd(list, flavor) ; a dict without any id key only draws a warning *)
Fixpoint llsd_go (fl : flavor) (T : ctable) (ds : list dict) (m : store) : option store :=
  match ds with
  | [] => Some m
  | d :: rest =>
    match find_id fl T d 0 with
    | None => llsd_go fl T rest m
    | Some (i, c) =>
      match class_from_llsd fl c d with
      | None => None
      | Some r => match inv_add T m (i, r) with Some m' => llsd_go fl T rest m' | None => None end
      end
    end
  end.
Definition model_from_llsd (fl : flavor) (T : ctable) (ds : list dict) : option store := llsd_go fl T ds empty_store.

(* ---------- decidable side conditions ---------- *)
Fixpoint nodup_keys (l : list nkey) : bool :=
  match l with [] => true | x :: r => negb (existsb (ofval_eqb x) r) && nodup_keys r end.

Definition mem_str (k : str) (l : list str) : bool := existsb (str_eqb k) l.

Definition plval_eqb (a b : plval) : bool :=
  match a, b with
  | LS x, LS y => str_eqb x y
  | LI x, LI y => (x =? y)%Z
  | LB x, LB y => str_eqb x y
  | LU x, LU y => (x =? y)%N
  | LX x, LX y => str_eqb x y
  | _, _ => false
  end.
Fixpoint pmap_eqb (a b : list (str * plval)) : bool :=
  match a, b with
  | [], [] => true
  | (k, x) :: a', (k', y) :: b' => str_eqb k k' && plval_eqb x y && pmap_eqb a' b'
  | _, _ => false
  end.
Definition lval_eqb (a b : lval) : bool :=
  match a, b with
  | LP x, LP y => plval_eqb x y
  | LM x, LM y => pmap_eqb x y
  | _, _ => false
  end.

(* keys a node's AIS dict may carry besides those of its key table, and keys the override removes *)
Definition ov_extra (ov : override) : list str :=
  match ov with OvItem ak _ _ _ lk _ _ _ _ _ => [ak; lk] | _ => [] end.
Definition ov_removed (ov : override) : list str :=
  match ov with OvNone => [] | OvCat tk _ => [tk] | OvItem _ pk _ _ _ ask sk _ _ _ => [ask; pk; sk] end.
Definition allowed_keys (fl : flavor) (c : cls) : list str :=
  map f_name (c_llsd fl c) ++ match fl with Legacy => [] | Ais => ov_extra (c_ov c) end.

Definition required_key (S : schema) (k : str) : bool :=
  match find_field S k with Some f => match f_default f with None => true | Some _ => false end | None => false end.

Definition wf_ov (S : schema) (idk : str) (ov : override) : bool :=
  match ov with
  | OvNone => true
  | OvCat tk cv => negb (str_eqb tk idk)
  | OvItem ak pk ok tk lk ask sk link dp ds =>
    nodup_str [ak; pk; tk; lk; ask; sk; idk]
    && negb (mem_str ak (map f_name S)) && negb (mem_str lk (map f_name S))
  end.

Definition wf_class_text (c : cls) : bool :=
  wf_schema (c_text c) && key_ok (c_name c) && covers (c_text_perm c) (c_arity c).
Definition wf_class_llsd (fl : flavor) (c : cls) : bool :=
  wf_keys (c_llsd fl c) && covers (c_perm fl c) (c_arity c) && required_key (c_llsd fl c) (c_id fl c)
  && match fl with Legacy => true | Ais => wf_ov (c_ais c) (c_ais_id c) (c_ov c) end.

(* the id key of an earlier class never occurs in a later class's dict *)
Fixpoint wf_dispatch (fl : flavor) (T : ctable) : bool :=
  match T with
  | [] => true
  | c :: r => forallb (fun c' => negb (mem_str (c_id fl c) (allowed_keys fl c'))) r && wf_dispatch fl r
  end.

Definition wf_table_text (T : ctable) : bool := forallb wf_class_text T && nodup_str (map c_name T).
Definition wf_table_llsd (fl : flavor) (T : ctable) : bool := forallb (wf_class_llsd fl) T && wf_dispatch fl T.
Definition wf_table (T : ctable) : bool := wf_table_text T && wf_table_llsd Legacy T && wf_table_llsd Ais T.

(* what a node must satisfy so that a format can carry it *)
Definition node_ok_text (T : ctable) (n : node) : bool :=
  match nth_error T (fst n) with
  | Some c => Nat.eqb (length (snd n)) (c_arity c) && dom (c_text c) (permute None (c_text_perm c) (snd n))
  | None => false
  end.

(* AIS: a category is of type CATEGORY; a link item has a target and exactly the permissions / sale_info that
   from_llsd re-creates (the AIS dict of a link has no slot for them) *)
Definition ov_ok (ov : override) (d : dict) : bool :=
  match ov with
  | OvNone => true
  | OvCat tk cv => match assoc_s d tk with Some (LP (LI z)) => (z =? cv)%Z | _ => false end
  | OvItem ak pk ok tk lk ask sk link dp ds =>
    match assoc_s d pk with Some (LM pm) => dmem pm ok | _ => false end     (* val["permissions"]["owner_id"] exists *)
    && (if (match assoc_s d tk with Some (LP (LI z)) => (z =? link)%Z | _ => false end)
        then dmem d ask
             && match assoc_s d pk with Some v => lval_eqb v dp | None => false end
             && match assoc_s d sk with Some v => lval_eqb v ds | None => false end
        else true)
  end.

Definition node_ok_llsd (fl : flavor) (T : ctable) (n : node) : bool :=
  match nth_error T (fst n) with
  | Some c =>
    let r := permute None (c_perm fl c) (snd n) in
    Nat.eqb (length (snd n)) (c_arity c) && dom_llsd fl (c_llsd fl c) r
    && match fl with Legacy => true | Ais => ov_ok (c_ov c) (to_llsd fl (c_llsd fl c) r) end
  | None => false
  end.

Definition ids_distinct (T : ctable) (vs : list node) : bool := nodup_keys (map (node_key T) vs).

(* a model whose dict keys are its nodes' ids, pairwise distinct: what add() builds *)
Definition consistent (T : ctable) (m : store) : bool :=
  nodup_keys (skeys m) && record_eqb (skeys m) (map (node_key T) (svalues m)).

Definition root_of (T : ctable) (vs : list node) : option node := fold_left (new_root T) vs None.
