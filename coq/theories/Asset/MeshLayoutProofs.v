(* C20 - mesh asset container: proofs about Asset/MeshLayout.v. *)
From Coq Require Import NArith ZArith List Bool Lia ZifyBool ZifyNat ZifyN Permutation.
From HV Require Import Base.Bytes Asset.MeshLayout.
Import ListNotations.
Open Scope N_scope.

(* ---------- keys ---------- *)

Lemma key_eqb_eq a b : key_eqb a b = true <-> a = b.
Proof.
  revert b; induction a as [|x a IH]; intros [|y b]; cbn [key_eqb]; split; intros H; try discriminate; try reflexivity.
  - apply andb_prop in H as [H1 H2]. apply N.eqb_eq in H1. apply IH in H2. congruence.
  - injection H as -> ->. rewrite N.eqb_refl. cbn. apply IH. reflexivity.
Qed.

Lemma key_eqb_refl a : key_eqb a a = true.
Proof. apply key_eqb_eq. reflexivity. Qed.

Lemma key_eqb_neq a b : a <> b -> key_eqb a b = false.
Proof. intros H. destruct (key_eqb a b) eqn:E; [|reflexivity]. apply key_eqb_eq in E. contradiction. Qed.

Lemma key_eqb_sym a b : key_eqb a b = key_eqb b a.
Proof.
  destruct (key_eqb a b) eqn:E.
  - apply key_eqb_eq in E. subst. symmetry. apply key_eqb_refl.
  - symmetry. apply key_eqb_neq. intros ->. rewrite key_eqb_refl in E. discriminate.
Qed.

Lemma lookup_app {V : Type} k (a b : list (key * V)) :
  lookup k (a ++ b) = match lookup k a with Some v => Some v | None => lookup k b end.
Proof.
  induction a as [|[k' v] a IH]; cbn [app lookup]; [reflexivity|].
  destruct (key_eqb k k'); [reflexivity | exact IH].
Qed.

Lemma lookup_none_notin {V : Type} k (l : list (key * V)) : lookup k l = None <-> ~ In k (map fst l).
Proof.
  induction l as [|[k' v] l IH]; cbn [lookup map fst In]; [tauto|].
  destruct (key_eqb k k') eqn:E.
  - apply key_eqb_eq in E. subst. split; [discriminate | intros H; exfalso; apply H; left; reflexivity].
  - rewrite IH. split.
    + intros H [->|H']; [rewrite key_eqb_refl in E; discriminate | contradiction].
    + intros H H'. apply H. right. exact H'.
Qed.

Lemma lookup_in {V : Type} k v (l : list (key * V)) : lookup k l = Some v -> In (k, v) l.
Proof.
  induction l as [|[k' v'] l IH]; cbn [lookup]; [discriminate|].
  destruct (key_eqb k k') eqn:E.
  - apply key_eqb_eq in E. subst. intros [= ->]. left. reflexivity.
  - intros H. right. apply IH, H.
Qed.

Lemma in_lookup {V : Type} k v (l : list (key * V)) : NoDup (map fst l) -> In (k, v) l -> lookup k l = Some v.
Proof.
  induction l as [|[k' v'] l IH]; cbn [map fst lookup]; intros Hnd Hin; [destruct Hin|].
  inversion Hnd as [|? ? Hni Hnd']; subst. destruct Hin as [[= -> ->]|Hin].
  - rewrite key_eqb_refl. reflexivity.
  - destruct (key_eqb k k') eqn:E.
    + apply key_eqb_eq in E. subst. exfalso. apply Hni. apply (in_map fst) in Hin. exact Hin.
    + apply IH; assumption.
Qed.

Lemma dset_fresh {V : Type} k (v : V) l : lookup k l = None -> dset k v l = l ++ [(k, v)].
Proof.
  induction l as [|[k' v'] l IH]; cbn [lookup dset app]; [reflexivity|].
  destruct (key_eqb k k'); [discriminate|]. intros H. rewrite IH by exact H. reflexivity.
Qed.

(* ---------- sorted(): a stable permutation ordered by rank ---------- *)

Lemma insert_by_perm rk k l : Permutation (insert_by rk k l) (k :: l).
Proof.
  induction l as [|k' l IH]; cbn [insert_by]; [reflexivity|].
  destruct (rk k <? rk k'); [reflexivity|].
  rewrite IH. apply perm_swap.
Qed.

Lemma sort_keys_perm rk l : Permutation (sort_keys rk l) l.
Proof.
  unfold sort_keys.
  assert (H : forall acc, Permutation (fold_left (fun acc k => insert_by rk k acc) l acc) (acc ++ l)).
  { induction l as [|k l IH]; intros acc; cbn [fold_left].
    - rewrite app_nil_r. reflexivity.
    - rewrite IH, insert_by_perm. cbn [app]. apply Permutation_middle. }
  apply (H []).
Qed.

Inductive sorted_by (rk : key -> N) : list key -> Prop :=
  | sorted_nil : sorted_by rk []
  | sorted_cons k l : Forall (fun k' => rk k <= rk k') l -> sorted_by rk l -> sorted_by rk (k :: l).

Lemma insert_by_sorted rk k l : sorted_by rk l -> sorted_by rk (insert_by rk k l).
Proof.
  induction 1 as [|k' l Hall Hs IH]; cbn [insert_by].
  - constructor; constructor.
  - destruct (rk k <? rk k') eqn:E.
    + constructor; [|constructor; assumption].
      constructor; [lia|]. eapply Forall_impl; [|exact Hall]. cbn. intros. lia.
    + constructor; [|exact IH].
      rewrite (insert_by_perm rk k l). constructor; [lia | exact Hall].
Qed.

Lemma sort_keys_sorted rk l : sorted_by rk (sort_keys rk l).
Proof.
  unfold sort_keys.
  assert (H : forall acc, sorted_by rk acc -> sorted_by rk (fold_left (fun acc k => insert_by rk k acc) l acc)).
  { induction l as [|k l IH]; intros acc Ha; cbn [fold_left]; [exact Ha|]. apply IH, insert_by_sorted, Ha. }
  apply H. constructor.
Qed.

(* stability: keys of equal rank keep their relative order *)
Lemma insert_by_filter rk r k l : sorted_by rk l ->
  filter (fun x => rk x =? r) (insert_by rk k l) = filter (fun x => rk x =? r) l ++ (if rk k =? r then [k] else []).
Proof.
  induction 1 as [|k' l Hall Hs IH]; cbn [insert_by filter app].
  - destruct (rk k =? r); reflexivity.
  - destruct (rk k <? rk k') eqn:E.
    + cbn [filter]. destruct (rk k =? r) eqn:Ek.
      * (* everything in k' :: l has a larger rank than r: nothing passes the filter *)
        assert (Hk' : (rk k' =? r) = false) by lia. rewrite Hk'.
        assert (Hl : filter (fun x => rk x =? r) l = []).
        { clear IH Hs. induction Hall as [|x l Hx _ IHl]; cbn [filter]; [reflexivity|].
          replace (rk x =? r) with false by lia. exact IHl. }
        rewrite Hl. reflexivity.
      * rewrite app_nil_r. reflexivity.
    + cbn [filter]. rewrite IH. destruct (rk k' =? r); reflexivity.
Qed.

Lemma sort_keys_stable rk r l : filter (fun x => rk x =? r) (sort_keys rk l) = filter (fun x => rk x =? r) l.
Proof.
  unfold sort_keys.
  assert (H : forall acc, sorted_by rk acc ->
              filter (fun x => rk x =? r) (fold_left (fun acc k => insert_by rk k acc) l acc) =
              filter (fun x => rk x =? r) acc ++ filter (fun x => rk x =? r) l).
  { induction l as [|k l IH]; intros acc Ha; cbn [fold_left filter].
    - rewrite app_nil_r. reflexivity.
    - rewrite IH by (apply insert_by_sorted, Ha). rewrite insert_by_filter by exact Ha.
      rewrite <- app_assoc. destruct (rk k =? r); reflexivity. }
  apply (H []). constructor.
Qed.

(* ---------- layout arithmetic (no oracle involved) ---------- *)

  (* running sums: (offset, size) of every blob when the first one starts at [start] *)
  Fixpoint table_from (start : nat) (bl : list (key * bytes)) : list (key * (Z * Z)) :=
    match bl with
    | [] => []
    | (k, b) :: r => (k, (Z.of_nat start, Z.of_nat (length b))) :: table_from (start + length b) r
    end.

  Definition total (pre : list (key * bytes)) : nat := length (concat (map snd pre)).

  Lemma table_from_keys bl : forall st, map fst (table_from st bl) = map fst bl.
  Proof. induction bl as [|[k b] bl IH]; intros st; cbn [table_from map fst]; [reflexivity|]. f_equal. apply IH. Qed.

  (* the offset of a blob is the total size of the blobs before it *)
  Lemma lookup_table_from k b post : forall pre st,
    NoDup (map fst (pre ++ (k, b) :: post)) ->
    lookup k (table_from st (pre ++ (k, b) :: post)) = Some (Z.of_nat (st + total pre), Z.of_nat (length b)).
  Proof.
    induction pre as [|[k1 b1] pre IH]; intros st Hnd.
    - cbn [app table_from lookup]. rewrite key_eqb_refl. unfold total. cbn. rewrite Nat.add_0_r. reflexivity.
    - cbn [app map fst] in Hnd. inversion Hnd as [|? ? Hni Hnd']; subst.
      cbn [app table_from lookup].
      rewrite key_eqb_neq.
      + rewrite IH by exact Hnd'. unfold total. cbn [map snd concat]. rewrite app_length.
        f_equal. f_equal. lia.
      + intros ->. apply Hni. rewrite map_app. apply in_or_app. right. left. reflexivity.
  Qed.

  Lemma slice_app (a b c : bytes) : slice (a ++ b ++ c) (Z.of_nat (length a)) (Z.of_nat (length b)) = b.
  Proof.
    unfold slice. destruct (Z.of_nat (length b) <=? 0)%Z eqn:E.
    - destruct b; [reflexivity | cbn [length] in E; lia].
    - rewrite !Nat2Z.id. rewrite skipn_app, Nat.sub_diag, skipn_all. cbn [app skipn].
      rewrite firstn_app, Nat.sub_diag, firstn_all. cbn [firstn]. apply app_nil_r.
  Qed.

  Lemma concat_split (pre : list (key * bytes)) k b post :
    concat (map snd (pre ++ (k, b) :: post)) = concat (map snd pre) ++ b ++ concat (map snd post).
  Proof. rewrite map_app, concat_app. cbn [map snd concat]. reflexivity. Qed.


(* ====================================================================================== *)
Section MeshProofs.
  Variable X : Type.
  Variable S : Type.
  Variable rk : key -> N.
  Variable deflate : key -> S -> bytes.
  Variable inflate : key -> bytes -> inflated S.
  Variable enc_hdr : mheader X -> bytes.
  Variable dec_hdr : bytes -> option (mheader X * bytes).

  Notation hdr := (mheader X).
  Notation msh := (mesh X S).

  (* ---------- the functional reading of the writer loop ---------- *)

  (* the blobs written for the keys [ks], in that order *)
  Fixpoint blobs_of (allow : bool) (m : msh) (h0 : hdr) (ks : list key) : option (list (key * bytes)) :=
    match ks with
    | [] => Some []
    | k :: r =>
      match lookup k h0 with
      | Some (HSeg _ _ _) =>
        match seg_value m k with
        | None => if allow then blobs_of allow m h0 r else None
        | Some v => match blobs_of allow m h0 r with
                    | Some bl => Some ((k, blob_of deflate k v) :: bl)
                    | None => None
                    end
        end
      | _ => blobs_of allow m h0 r
      end
    end.

  Definition upd (t : list (key * (Z * Z))) (kv : key * hval X) : key * hval X :=
    match snd kv with
    | HSeg _ _ e => match lookup (fst kv) t with
                    | Some (o, s) => (fst kv, HSeg o s e)
                    | None => kv
                    end
    | HOther _ => kv
    end.

  (* the header with the layout fields of the keys in [t] rewritten; everything else, and the order, untouched *)
  Definition apply_table (t : list (key * (Z * Z))) (h : hdr) : hdr := map (upd t) h.

  Lemma upd_fst t kv : fst (upd t kv) = fst kv.
  Proof.
    unfold upd. destruct kv as [k v]. cbn [fst snd]. destruct v; [|reflexivity].
    destruct (lookup k t) as [[o s]|]; reflexivity.
  Qed.

  Lemma apply_table_nil h : apply_table [] h = h.
  Proof.
    unfold apply_table. rewrite <- (map_id h) at 2. apply map_ext. intros [k v]. unfold upd. cbn. destruct v; reflexivity.
  Qed.

  Lemma apply_table_keys t h : map fst (apply_table t h) = map fst h.
  Proof. unfold apply_table. rewrite map_map. apply map_ext. intros kv. apply upd_fst. Qed.

  Lemma lookup_apply_table t k h :
    lookup k (apply_table t h) = option_map (fun v => snd (upd t (k, v))) (lookup k h).
  Proof.
    induction h as [|[k' v] h IH]; cbn [apply_table map lookup option_map]; [reflexivity|].
    fold (apply_table t h).
    pose proof (upd_fst t (k', v)) as Hf. destruct (upd t (k', v)) as [k2 v2] eqn:Eu. cbn [fst] in Hf. subst k2.
    destruct (key_eqb k k') eqn:E.
    - apply key_eqb_eq in E. subst. cbn [option_map]. rewrite Eu. reflexivity.
    - exact IH.
  Qed.

  Lemma set_seg_apply_table t k o s h : lookup k t = None ->
    set_seg k o s (apply_table t h) = apply_table (t ++ [(k, (o, s))]) h.
  Proof.
    intros Hk. unfold set_seg, apply_table. rewrite map_map. apply map_ext. intros [k' v].
    rewrite upd_fst. cbn [fst].
    destruct (key_eqb k k') eqn:E.
    - apply key_eqb_eq in E. subst k'. unfold upd. cbn [fst snd]. destruct v as [o' s' e|x]; [|reflexivity].
      rewrite lookup_app, Hk. cbn [lookup]. rewrite key_eqb_refl. cbn [fst snd]. reflexivity.
    - unfold upd. cbn [fst snd]. destruct v as [o' s' e|x]; [|reflexivity].
      rewrite lookup_app. cbn [lookup]. rewrite (key_eqb_sym k' k), E.
      destruct (lookup k' t) as [[a b]|]; reflexivity.
  Qed.

  Lemma fold_write_none allow (m : msh) ks : fold_left (write_step deflate allow m) ks None = None.
  Proof. induction ks as [|k ks IH]; cbn [fold_left write_step]; [reflexivity | exact IH]. Qed.

  Lemma write_fold allow (m : msh) (h0 : hdr) : forall ks t body,
    NoDup ks -> (forall k, In k ks -> lookup k t = None) ->
    fold_left (write_step deflate allow m) ks (Some (apply_table t h0, body)) =
    match blobs_of allow m h0 ks with
    | None => None
    | Some bl => Some (apply_table (t ++ table_from (length body) bl) h0, body ++ concat (map snd bl))
    end.
  Proof.
    induction ks as [|k ks IH]; intros t body Hnd Hfresh.
    - cbn. rewrite !app_nil_r. reflexivity.
    - inversion Hnd as [|? ? Hni Hnd']; subst.
      assert (Hkt : lookup k t = None) by (apply Hfresh; left; reflexivity).
      assert (Hfresh' : forall k', In k' ks -> lookup k' t = None) by (intros k' Hk'; apply Hfresh; right; exact Hk').
      cbn [fold_left blobs_of]. unfold write_step at 2.
      rewrite lookup_apply_table.
      destruct (lookup k h0) as [[o s e|x]|] eqn:Eh; cbn [option_map].
      + unfold upd. cbn [fst snd]. rewrite Hkt. cbn [snd].
        destruct (seg_value m k) as [v|] eqn:Ev.
        * rewrite set_seg_apply_table by exact Hkt.
          rewrite IH; [|exact Hnd'|].
          -- destruct (blobs_of allow m h0 ks) as [bl|]; [|reflexivity].
             cbn [table_from map snd concat]. rewrite app_length. rewrite <- !app_assoc. cbn [app]. reflexivity.
          -- intros k' Hk'. rewrite lookup_app, (Hfresh' k' Hk'). cbn [lookup].
             rewrite key_eqb_neq; [reflexivity|]. intros ->. contradiction.
        * destruct allow; [apply IH; assumption | apply fold_write_none].
      + unfold upd. cbn [fst snd]. apply IH; assumption.
      + apply IH; assumption.
  Qed.

  Definition hkeys (h : hdr) : list key := map fst h.

  (* what serialize computes: the blobs in sorted key order, their running-sum table written into the header *)
  Theorem write_layout_spec allow (m : msh) : NoDup (hkeys (m_header m)) ->
    write_layout rk deflate allow m =
    if missing_headers m then None
    else match blobs_of allow m (m_header m) (sort_keys rk (hkeys (m_header m))) with
         | None => None
         | Some bl => Some (apply_table (table_from 0 bl) (m_header m), concat (map snd bl))
         end.
  Proof.
    intros Hnd. unfold write_layout. destruct (missing_headers m); [reflexivity|].
    replace (Some (m_header m, @nil N)) with (Some (apply_table [] (m_header m), @nil N))
      by (rewrite apply_table_nil; reflexivity).
    unfold hkeys. rewrite write_fold.
    - cbn [length app]. reflexivity.
    - eapply Permutation_NoDup; [symmetry; apply sort_keys_perm | exact Hnd].
    - reflexivity.
  Qed.

  (* ---------- facts about the blob list and its table ---------- *)

  Definition segk (h0 : hdr) (k : key) : bool :=
    match lookup k h0 with Some (HSeg _ _ _) => true | _ => false end.

  Lemma blobs_keys_false (m : msh) (h0 : hdr) : forall ks bl,
    blobs_of false m h0 ks = Some bl -> map fst bl = filter (segk h0) ks.
  Proof.
    induction ks as [|k ks IH]; intros bl H; cbn [blobs_of filter] in *.
    - injection H as <-. reflexivity.
    - unfold segk at 1. destruct (lookup k h0) as [[o s e|x]|]; try (apply IH; exact H).
      destruct (seg_value m k) as [v|]; [|discriminate].
      destruct (blobs_of false m h0 ks) as [bl'|]; [|discriminate]. injection H as <-.
      cbn [map fst]. f_equal. apply IH. reflexivity.
  Qed.

  Lemma blobs_vals allow (m : msh) (h0 : hdr) : forall ks bl k b,
    blobs_of allow m h0 ks = Some bl -> In (k, b) bl ->
    In k ks /\ segk h0 k = true /\ exists v, seg_value m k = Some v /\ b = blob_of deflate k v.
  Proof.
    induction ks as [|k0 ks IH]; intros bl k b H Hin; cbn [blobs_of] in H.
    - injection H as <-. destruct Hin.
    - assert (Hrec : forall bl', blobs_of allow m h0 ks = Some bl' -> In (k, b) bl' ->
                                 In k (k0 :: ks) /\ segk h0 k = true /\ exists v, seg_value m k = Some v /\ b = blob_of deflate k v).
      { intros bl' Hb Hi. destruct (IH bl' k b Hb Hi) as (A & B & C). split; [right; exact A | split; assumption]. }
      destruct (lookup k0 h0) as [[o s e|x]|] eqn:El; try (apply (Hrec bl); assumption).
      destruct (seg_value m k0) as [v|] eqn:Ev.
      + destruct (blobs_of allow m h0 ks) as [bl'|]; [|discriminate]. injection H as <-.
        destruct Hin as [[= <- <-]|Hin].
        * split; [left; reflexivity|]. split; [unfold segk; rewrite El; reflexivity|]. exists v. split; [exact Ev | reflexivity].
        * apply (Hrec bl'); [reflexivity | exact Hin].
      + destruct allow; [apply (Hrec bl); assumption | discriminate].
  Qed.

  Lemma blobs_nodup allow (m : msh) (h0 : hdr) : forall ks bl,
    NoDup ks -> blobs_of allow m h0 ks = Some bl -> NoDup (map fst bl).
  Proof.
    induction ks as [|k0 ks IH]; intros bl Hnd H; cbn [blobs_of] in H.
    - injection H as <-. constructor.
    - inversion Hnd as [|? ? Hni Hnd']; subst.
      destruct (lookup k0 h0) as [[o s e|x]|]; try (apply IH; assumption).
      destruct (seg_value m k0) as [v|].
      + destruct (blobs_of allow m h0 ks) as [bl'|] eqn:Eb; [|discriminate]. injection H as <-.
        cbn [map fst]. constructor; [|apply IH; [assumption | reflexivity]].
        intros Hin. apply in_map_iff in Hin as ([k b] & Hk & Hin). cbn in Hk. subst k.
        apply Hni. eapply (blobs_vals allow m h0 ks bl' k0 b Eb Hin).
      + destruct allow; [apply IH; assumption | discriminate].
  Qed.

  (* ---------- mesh_slices ---------- *)

  Theorem mesh_slices allow (m : msh) h' body : NoDup (hkeys (m_header m)) ->
    write_layout rk deflate allow m = Some (h', body) ->
    exists bl,
      blobs_of allow m (m_header m) (sort_keys rk (hkeys (m_header m))) = Some bl /\
      body = concat (map snd bl) /\
      hkeys h' = hkeys (m_header m) /\
      (forall k, segk (m_header m) k = false -> lookup k h' = lookup k (m_header m)) /\
      (forall pre k b post, bl = pre ++ (k, b) :: post ->
         (exists v, seg_value m k = Some v /\ b = blob_of deflate k v) /\
         (exists o s e, lookup k (m_header m) = Some (HSeg o s e) /\
                        lookup k h' = Some (HSeg (Z.of_nat (total pre)) (Z.of_nat (length b)) e)) /\
         (forall front, slice (front ++ body) (Z.of_nat (length front) + Z.of_nat (total pre)) (Z.of_nat (length b)) = b)).
  Proof. clear inflate enc_hdr dec_hdr.
    intros Hnd H. rewrite write_layout_spec in H by exact Hnd.
    destruct (missing_headers m); [discriminate|].
    destruct (blobs_of allow m (m_header m) (sort_keys rk (hkeys (m_header m)))) as [bl|] eqn:Eb; [|discriminate].
    injection H as <- <-. exists bl. split; [reflexivity|]. split; [reflexivity|].
    split; [apply apply_table_keys|]. split.
    - intros k Hk. rewrite lookup_apply_table. unfold segk in Hk.
      destruct (lookup k (m_header m)) as [[o s e|x]|]; try discriminate; reflexivity.
    - intros pre k b post ->.
      assert (Hord : NoDup (sort_keys rk (hkeys (m_header m))))
        by (eapply Permutation_NoDup; [symmetry; apply sort_keys_perm | exact Hnd]).
      pose proof (blobs_nodup allow m _ _ _ Hord Eb) as Hndb.
      destruct (blobs_vals allow m _ _ _ k b Eb ltac:(apply in_or_app; right; left; reflexivity)) as (_ & Hsk & Hv).
      split; [exact Hv|]. split.
      + unfold segk in Hsk. destruct (lookup k (m_header m)) as [[o s e|x]|] eqn:El; try discriminate.
        exists o, s, e. split; [reflexivity|].
        rewrite lookup_apply_table, El. cbn [option_map]. unfold upd. cbn [fst snd].
        rewrite lookup_table_from by exact Hndb. reflexivity.
      + intros front. rewrite concat_split.
        replace (Z.of_nat (length front) + Z.of_nat (total pre))%Z with (Z.of_nat (length (front ++ concat (map snd pre))))
          by (rewrite app_length; unfold total; lia).
        rewrite app_assoc. apply slice_app.
  Qed.

  (* ---------- the reader on the writer's output ---------- *)

  (* keys of the segment headers, in header order: the order in which deserialize visits them *)
  Definition seg_entries (h : hdr) : list key :=
    flat_map (fun kv => match snd kv with HSeg _ _ _ => [fst kv] | HOther _ => [] end) h.

  (* inflate every written blob in that order; any failure fails the whole parse (allow_invalid_segments=False) *)
  Fixpoint inflate_all (ks : list key) (bl : list (key * bytes)) : option (list (key * S) * list (key * bytes)) :=
    match ks with
    | [] => Some ([], [])
    | k :: r =>
      match lookup k bl with
      | None => None
      | Some b =>
        match inflate k b with
        | IOk s => match inflate_all r bl with
                   | Some (sg, rw) => Some ((k, s) :: sg, (k, b) :: rw)
                   | None => None
                   end
        | _ => None
        end
      end
    end.

  Lemma fold_parse_none allow incl buf he af (h : hdr) :
    fold_left (parse_step inflate allow incl buf he af) h None = None.
  Proof. induction h as [|kv h IH]; cbn [fold_left parse_step]; [reflexivity | exact IH]. Qed.

  Lemma seg_entries_apply_table t (h : hdr) : seg_entries (apply_table t h) = seg_entries h.
  Proof.
    induction h as [|[k v] h IH]; cbn [apply_table map seg_entries flat_map]; [reflexivity|].
    fold (apply_table t h). fold (seg_entries (apply_table t h)). fold (seg_entries h). rewrite IH.
    unfold upd. cbn [fst snd]. destruct v as [o s e|x]; [|reflexivity].
    destruct (lookup k t) as [[o' s']|]; reflexivity.
  Qed.

  Lemma strip_apply_table t (h : hdr) : strip_layout (apply_table t h) = strip_layout h.
  Proof.
    unfold strip_layout, apply_table. rewrite map_map. apply map_ext. intros [k v]. unfold upd. cbn [fst snd].
    destruct v as [o s e|x]; [|reflexivity]. destruct (lookup k t) as [[o' s']|]; reflexivity.
  Qed.

  Lemma parse_fold incl (enc : bytes) (bl : list (key * bytes)) (h0 : hdr) :
    NoDup (map fst bl) -> NoDup (hkeys h0) ->
    (forall k, segk h0 k = true -> In k (map fst bl)) ->
    forall hs segs raws,
      (forall kv, In kv hs -> In kv h0) -> NoDup (map fst hs) ->
      (forall k, In k (map fst hs) -> lookup k segs = None /\ lookup k raws = None) ->
      fold_left (parse_step inflate false incl (enc ++ concat (map snd bl)) (Z.of_nat (length enc))
                            (Z.of_nat (length (concat (map snd bl)))))
                (map (upd (table_from 0 bl)) hs) (Some (segs, raws)) =
      match inflate_all (seg_entries hs) bl with
      | None => None
      | Some (sg, rw) => Some (segs ++ sg, if incl then raws ++ rw else raws)
      end.
  Proof.
    intros Hndb Hndh Hall. induction hs as [|[k v] hs IH]; intros segs raws Hsub Hnd Hfresh.
    - cbn. rewrite !app_nil_r. destruct incl; reflexivity.
    - cbn [map fst] in Hnd. inversion Hnd as [|? ? Hni Hnd']; subst.
      assert (Hsub' : forall kv, In kv hs -> In kv h0) by (intros kv Hkv; apply Hsub; right; exact Hkv).
      assert (Hfresh' : forall k', In k' (map fst hs) -> lookup k' segs = None /\ lookup k' raws = None)
        by (intros k' Hk'; apply Hfresh; right; exact Hk').
      cbn [map fold_left seg_entries flat_map]. fold (seg_entries hs).
      destruct v as [o s e|x].
      + (* a segment header: its blob is in bl *)
        assert (Hl : lookup k h0 = Some (HSeg o s e)) by (apply in_lookup; [exact Hndh | apply Hsub; left; reflexivity]).
        assert (Hk : In k (map fst bl)) by (apply Hall; unfold segk; rewrite Hl; reflexivity).
        apply in_map_iff in Hk as ([k2 b] & Hk2 & Hin). cbn in Hk2. subst k2.
        pose proof (in_lookup k b bl Hndb Hin) as Hlb.
        destruct (in_split _ _ Hin) as (pre & post & Hbl).
        assert (Ht : lookup k (table_from 0 bl) = Some (Z.of_nat (total pre), Z.of_nat (length b))).
        { rewrite Hbl. rewrite lookup_table_from by (rewrite <- Hbl; exact Hndb). reflexivity. }
        assert (Hu : upd (table_from 0 bl) (k, HSeg o s e) = (k, HSeg (Z.of_nat (total pre)) (Z.of_nat (length b)) e))
          by (unfold upd; cbn [fst snd]; rewrite Ht; reflexivity).
        rewrite Hu.
        assert (Hbody : concat (map snd bl) = concat (map snd pre) ++ b ++ concat (map snd post))
          by (rewrite Hbl; apply concat_split).
        assert (Hlen : length (concat (map snd bl)) = (total pre + length b + length (concat (map snd post)))%nat)
          by (rewrite Hbody, !app_length; unfold total; lia).
        assert (Hslice : slice (enc ++ concat (map snd bl)) (Z.of_nat (length enc) + Z.of_nat (total pre)) (Z.of_nat (length b)) = b).
        { rewrite Hbody.
          replace (Z.of_nat (length enc) + Z.of_nat (total pre))%Z with (Z.of_nat (length (enc ++ concat (map snd pre))))
            by (rewrite app_length; unfold total; lia).
          rewrite app_assoc. apply slice_app. }
        assert (Hstep : parse_step inflate false incl (enc ++ concat (map snd bl)) (Z.of_nat (length enc))
                                   (Z.of_nat (length (concat (map snd bl)))) (Some (segs, raws))
                                   (k, HSeg (Z.of_nat (total pre)) (Z.of_nat (length b)) e) =
                        match inflate k b with
                        | IOk s0 => Some (dset k s0 segs, if incl then dset k b raws else raws)
                        | _ => None
                        end).
        { unfold parse_step. cbn [fst snd].
          replace (Z.of_nat (length (concat (map snd bl))) <? Z.of_nat (total pre) + Z.of_nat (length b))%Z with false by lia.
          replace ((Z.of_nat (length enc) + Z.of_nat (total pre) <? 0)%Z ||
                   (Z.of_nat (length (enc ++ concat (map snd bl))) <? Z.of_nat (length enc) + Z.of_nat (total pre))%Z) with false
            by (rewrite app_length; lia).
          rewrite Hslice. cbn [andb]. destruct (inflate k b); reflexivity. }
        rewrite Hstep. cbn [snd fst app inflate_all]. rewrite Hlb.
        destruct (inflate k b) as [s0| |]; try apply fold_parse_none.
        destruct (Hfresh k ltac:(left; reflexivity)) as [Hfs Hfr].
        rewrite (dset_fresh k s0 segs Hfs).
        assert (Hnext : forall k', In k' (map fst hs) -> lookup k' (segs ++ [(k, s0)]) = None /\
                                   lookup k' (if incl then dset k b raws else raws) = None).
        { intros k' Hk'. destruct (Hfresh' k' Hk') as [A B].
          assert (Hne : key_eqb k' k = false) by (apply key_eqb_neq; intros ->; contradiction).
          split.
          - rewrite lookup_app, A. cbn [lookup]. rewrite Hne. reflexivity.
          - destruct incl; [|exact B]. rewrite (dset_fresh k b raws Hfr), lookup_app, B. cbn [lookup]. rewrite Hne. reflexivity. }
        rewrite (IH _ _ Hsub' Hnd' Hnext).
        destruct (inflate_all (seg_entries hs) bl) as [[sg rw]|]; [|reflexivity].
        rewrite <- app_assoc. cbn [app]. destruct incl; [|reflexivity].
        rewrite (dset_fresh k b raws Hfr), <- app_assoc. reflexivity.
      + (* not a segment header *)
        assert (Hu : upd (table_from 0 bl) (k, HOther x) = (k, HOther x)) by reflexivity.
        rewrite Hu. cbn [parse_step snd app]. apply IH; assumption.
  Qed.

  Hypothesis dec_enc : forall (h : hdr) (rest : bytes), dec_hdr (enc_hdr h ++ rest) = Some (h, rest).

  (* parse (serialize m), default flags: the rewritten header, and every written blob inflated in header order *)
  Theorem mesh_rt (m : msh) incl bs : NoDup (hkeys (m_header m)) ->
    write_mesh rk deflate enc_hdr false m = Some bs ->
    exists h' body bl,
      write_layout rk deflate false m = Some (h', body) /\ bs = enc_hdr h' ++ body /\
      blobs_of false m (m_header m) (sort_keys rk (hkeys (m_header m))) = Some bl /\
      strip_layout h' = strip_layout (m_header m) /\
      parse_mesh inflate dec_hdr false incl bs =
      match inflate_all (seg_entries (m_header m)) bl with
      | None => None
      | Some (sg, rw) => Some (mkParsed h' sg (if incl then rw else []))
      end.
  Proof.
    intros Hnd Hw. unfold write_mesh in Hw.
    destruct (write_layout rk deflate false m) as [[h' body]|] eqn:El; [|discriminate]. injection Hw as <-.
    pose proof El as El2. rewrite write_layout_spec in El2 by exact Hnd.
    destruct (missing_headers m); [discriminate|].
    destruct (blobs_of false m (m_header m) (sort_keys rk (hkeys (m_header m)))) as [bl|] eqn:Eb; [|discriminate].
    injection El2 as <- <-.
    exists (apply_table (table_from 0 bl) (m_header m)), (concat (map snd bl)), bl.
    split; [reflexivity|]. split; [reflexivity|]. split; [reflexivity|]. split; [apply strip_apply_table|].
    unfold parse_mesh. rewrite dec_enc. unfold parse_segments.
    assert (Hord : NoDup (sort_keys rk (hkeys (m_header m))))
      by (eapply Permutation_NoDup; [symmetry; apply sort_keys_perm | exact Hnd]).
    replace (Z.of_nat (length (enc_hdr (apply_table (table_from 0 bl) (m_header m)) ++ concat (map snd bl))) -
             Z.of_nat (length (concat (map snd bl))))%Z
      with (Z.of_nat (length (enc_hdr (apply_table (table_from 0 bl) (m_header m))))) by (rewrite app_length; lia).
    replace (Z.of_nat (length (enc_hdr (apply_table (table_from 0 bl) (m_header m)) ++ concat (map snd bl))) -
             Z.of_nat (length (enc_hdr (apply_table (table_from 0 bl) (m_header m)))))%Z
      with (Z.of_nat (length (concat (map snd bl)))) by (rewrite app_length; lia).
    unfold apply_table at 3.
    rewrite (parse_fold incl _ bl (m_header m)).
    - destruct (inflate_all (seg_entries (m_header m)) bl) as [[sg rw]|]; [|reflexivity].
      cbn [app]. destruct incl; reflexivity.
    - apply (blobs_nodup false m _ _ _ Hord Eb).
    - exact Hnd.
    - intros k Hk. rewrite (blobs_keys_false m _ _ _ Eb). apply filter_In. split; [|exact Hk].
      eapply Permutation_in; [symmetry; apply sort_keys_perm|].
      unfold segk in Hk. destruct (lookup k (m_header m)) as [v|] eqn:E; [|discriminate].
      apply lookup_in in E. apply (in_map fst) in E. exact E.
    - intros kv H. exact H.
    - exact Hnd.
    - intros k _. split; reflexivity.
  Qed.

  (* ---------- assets whose segments are all decoded trees ---------- *)

  Hypothesis inflate_deflate : forall k s, inflate k (deflate k s) = IOk s.

  Definition decoded (m : msh) : Prop :=
    m_raw m = [] /\ Forall (fun kv => exists s, snd kv = SParsed s) (m_segments m).

  Lemma decoded_value (m : msh) k v : decoded m -> seg_value m k = Some v ->
    lookup k (m_segments m) = Some v /\ exists s, v = SParsed s.
  Proof.
    intros [Hr Hs] H. unfold seg_value in H. rewrite Hr in H.
    destruct (lookup k (m_segments m)) as [v'|] eqn:E; [|discriminate]. injection H as <-.
    split; [reflexivity|]. apply lookup_in in E. rewrite Forall_forall in Hs. apply (Hs _ E).
  Qed.

  Lemma seg_entries_in (h : hdr) k : In k (seg_entries h) <-> exists o s e, In (k, HSeg o s e) h.
  Proof.
    unfold seg_entries. rewrite in_flat_map. split.
    - intros ([k' v] & Hin & Hk). cbn [fst snd] in Hk. destruct v as [o s e|x]; [|destruct Hk].
      destruct Hk as [<-|[]]. exists o, s, e. exact Hin.
    - intros (o & s & e & Hin). exists (k, HSeg o s e). split; [exact Hin | left; reflexivity].
  Qed.

  Lemma seg_entries_nodup (h : hdr) : NoDup (hkeys h) -> NoDup (seg_entries h).
  Proof.
    induction h as [|[k v] h IH]; cbn [hkeys map fst seg_entries flat_map]; intros Hnd; [constructor|].
    inversion Hnd as [|? ? Hni Hnd']; subst. fold (seg_entries h).
    destruct v as [o s e|x]; cbn [fst snd app]; [|apply IH; exact Hnd'].
    constructor; [|apply IH; exact Hnd'].
    intros Hin. apply seg_entries_in in Hin as (o' & s' & e' & Hin). apply Hni.
    apply (in_map fst) in Hin. exact Hin.
  Qed.

  Lemma inflate_all_decoded (m : msh) (bl : list (key * bytes)) :
    (forall k b, In (k, b) bl -> exists s, seg_value m k = Some (SParsed s) /\ b = deflate k s) ->
    NoDup (map fst bl) ->
    forall ks, (forall k, In k ks -> In k (map fst bl)) ->
    exists sg rw, inflate_all ks bl = Some (sg, rw) /\ map fst sg = ks /\ map fst rw = ks /\
                  (forall k s, In k ks -> seg_value m k = Some (SParsed s) -> In (k, s) sg) /\
                  (forall k b, In (k, b) rw -> In (k, b) bl).
  Proof.
    intros Hval Hnd. induction ks as [|k ks IH]; intros Hin.
    - exists [], []. cbn. repeat split; try reflexivity; intros; contradiction.
    - destruct (IH (fun k' Hk' => Hin k' (or_intror Hk'))) as (sg & rw & Hi & Hs & Hr & Hv & Hb).
      assert (Hk : In k (map fst bl)) by (apply Hin; left; reflexivity).
      apply in_map_iff in Hk as ([k2 b] & Hk2 & Hinb). cbn in Hk2. subst k2.
      destruct (Hval k b Hinb) as (s & Hsv & ->).
      exists ((k, s) :: sg), ((k, deflate k s) :: rw).
      cbn [inflate_all]. rewrite (in_lookup k _ bl Hnd Hinb), inflate_deflate, Hi.
      cbn [map fst]. rewrite Hs, Hr. repeat split; try reflexivity.
      + intros k' s' [<-|Hk'] Hsv'.
        * rewrite Hsv in Hsv'. injection Hsv' as <-. left. reflexivity.
        * right. apply Hv; assumption.
      + intros k' b' [[= <- <-]|Hk']; [exact Hinb | apply Hb; exact Hk'].
  Qed.

  (* serialise-then-parse of a decoded asset: same header up to the layout fields, same segments *)
  Theorem mesh_rt_decoded (m : msh) incl bs : NoDup (hkeys (m_header m)) -> decoded m ->
    write_mesh rk deflate enc_hdr false m = Some bs ->
    exists p,
      parse_mesh inflate dec_hdr false incl bs = Some p /\
      strip_layout (p_header p) = strip_layout (m_header m) /\
      hkeys (p_header p) = hkeys (m_header m) /\
      map fst (p_segments p) = seg_entries (m_header m) /\
      (forall k s, segk (m_header m) k = true -> lookup k (m_segments m) = Some (SParsed s) ->
                   lookup k (p_segments p) = Some s) /\
      (if incl then map fst (p_raw p) = seg_entries (m_header m) else p_raw p = []).
  Proof.
    intros Hnd Hdec Hw.
    destruct (mesh_rt m incl bs Hnd Hw) as (h' & body & bl & Hl & -> & Hb & Hstrip & Hp).
    assert (Hord : NoDup (sort_keys rk (hkeys (m_header m))))
      by (eapply Permutation_NoDup; [symmetry; apply sort_keys_perm | exact Hnd]).
    pose proof (blobs_nodup false m _ _ _ Hord Hb) as Hndb.
    assert (Hval : forall k b, In (k, b) bl -> exists s, seg_value m k = Some (SParsed s) /\ b = deflate k s).
    { intros k b Hin. destruct (blobs_vals false m _ _ _ k b Hb Hin) as (_ & _ & v & Hv & ->).
      destruct (decoded_value m k v Hdec Hv) as (_ & s & ->). exists s. split; [exact Hv | reflexivity]. }
    assert (Hcover : forall k, In k (seg_entries (m_header m)) -> In k (map fst bl)).
    { intros k Hk. rewrite (blobs_keys_false m _ _ _ Hb). apply filter_In.
      apply seg_entries_in in Hk as (o & s & e & Hin). split.
      - eapply Permutation_in; [symmetry; apply sort_keys_perm|]. apply (in_map fst) in Hin. exact Hin.
      - unfold segk. rewrite (in_lookup k _ _ Hnd Hin). reflexivity. }
    destruct (inflate_all_decoded m bl Hval Hndb _ Hcover) as (sg & rw & Hi & Hsk & Hrk & Hsv & _).
    rewrite Hi in Hp. eexists. split; [exact Hp|]. cbn [p_header p_segments p_raw].
    split; [exact Hstrip|]. split.
    { pose proof (mesh_slices false m h' body Hnd Hl) as (bl2 & _ & _ & Hk & _). exact Hk. }
    split; [exact Hsk|]. split.
    - intros k s Hseg Hlk. apply in_lookup.
      + rewrite Hsk. apply seg_entries_nodup, Hnd.
      + apply Hsv.
        * unfold segk in Hseg. destruct (lookup k (m_header m)) as [[o sz e|x]|] eqn:E; try discriminate.
          apply seg_entries_in. exists o, sz, e. apply lookup_in, E.
        * unfold seg_value. rewrite Hlk. reflexivity.
    - destruct incl; [exact Hrk | reflexivity].
  Qed.

  (* ---------- second generation: serialising the parsed asset again gives the same bytes ---------- *)

  Lemma upd_idem t (kv : key * hval X) : upd t (upd t kv) = upd t kv.
  Proof.
    destruct kv as [k v]. unfold upd. cbn [fst snd]. destruct v as [o s e|x]; [|reflexivity].
    destruct (lookup k t) as [[o' s']|] eqn:E; cbn [fst snd]; rewrite E; reflexivity.
  Qed.

  Lemma apply_table_idem t (h : hdr) : apply_table t (apply_table t h) = apply_table t h.
  Proof. unfold apply_table. rewrite map_map. apply map_ext. intros kv. apply upd_idem. Qed.

  Lemma segk_apply_table t (h : hdr) k : segk (apply_table t h) k = segk h k.
  Proof.
    unfold segk. rewrite lookup_apply_table. destruct (lookup k h) as [[o s e|x]|]; cbn [option_map]; try reflexivity.
    unfold upd. cbn [fst snd]. destruct (lookup k t) as [[o' s']|]; reflexivity.
  Qed.

  Lemma blobs_of_ext allow (m1 m2 : msh) (h1 h2 : hdr) : forall ks,
    (forall k, In k ks -> segk h1 k = segk h2 k) ->
    (forall k, In k ks -> segk h1 k = true ->
               option_map (blob_of deflate k) (seg_value m1 k) = option_map (blob_of deflate k) (seg_value m2 k)) ->
    blobs_of allow m1 h1 ks = blobs_of allow m2 h2 ks.
  Proof.
    induction ks as [|k ks IH]; intros Hs Hv; [reflexivity|].
    assert (IH' : blobs_of allow m1 h1 ks = blobs_of allow m2 h2 ks).
    { apply IH; intros k' Hk'; [apply Hs | apply Hv]; right; exact Hk'. }
    cbn [blobs_of]. pose proof (Hs k (or_introl eq_refl)) as Hsk. pose proof (Hv k (or_introl eq_refl)) as Hvk.
    unfold segk in Hsk, Hvk.
    destruct (lookup k h1) as [[o1 s1 e1|x1]|]; destruct (lookup k h2) as [[o2 s2 e2|x2]|]; try discriminate; try exact IH'.
    specialize (Hvk eq_refl).
    destruct (seg_value m1 k) as [v1|]; destruct (seg_value m2 k) as [v2|]; cbn [option_map] in Hvk; try discriminate.
    - injection Hvk as Hb. rewrite Hb, IH'. reflexivity.
    - rewrite IH'. reflexivity.
  Qed.

  Lemma kmem_in k l : kmem k l = true <-> In k l.
  Proof.
    unfold kmem. rewrite existsb_exists. split.
    - intros (x & Hx & E). apply key_eqb_eq in E. subst. exact Hx.
    - intros H. exists k. split; [exact H | apply key_eqb_refl].
  Qed.

  Lemma lookup_map_parsed k (sg : list (key * S)) :
    lookup k (map (fun ks => (fst ks, SParsed (snd ks))) sg) = option_map SParsed (lookup k sg).
  Proof.
    induction sg as [|[k' s] sg IH]; cbn [map lookup fst snd option_map]; [reflexivity|].
    destruct (key_eqb k k'); [reflexivity | exact IH].
  Qed.

  Lemma seg_entries_keys (h : hdr) k : In k (seg_entries h) -> In k (hkeys h).
  Proof. intros H. apply seg_entries_in in H as (o & s & e & Hin). apply (in_map fst) in Hin. exact Hin. Qed.

  Theorem mesh_fixed_point (m : msh) incl bs : NoDup (hkeys (m_header m)) -> decoded m ->
    write_mesh rk deflate enc_hdr false m = Some bs ->
    exists p, parse_mesh inflate dec_hdr false incl bs = Some p /\
              write_mesh rk deflate enc_hdr false (mesh_of_parsed p) = Some bs.
  Proof.
    intros Hnd Hdec Hw.
    destruct (mesh_rt m incl bs Hnd Hw) as (h' & body & bl & Hl & -> & Hb & Hstrip & Hp).
    assert (Hord : NoDup (sort_keys rk (hkeys (m_header m))))
      by (eapply Permutation_NoDup; [symmetry; apply sort_keys_perm | exact Hnd]).
    pose proof (blobs_nodup false m _ _ _ Hord Hb) as Hndb.
    assert (Hval : forall k b, In (k, b) bl -> exists s, seg_value m k = Some (SParsed s) /\ b = deflate k s).
    { intros k b Hin. destruct (blobs_vals false m _ _ _ k b Hb Hin) as (_ & _ & v & Hv & ->).
      destruct (decoded_value m k v Hdec Hv) as (_ & s & ->). exists s. split; [exact Hv | reflexivity]. }
    assert (Hcover : forall k, In k (seg_entries (m_header m)) -> In k (map fst bl)).
    { intros k Hk. rewrite (blobs_keys_false m _ _ _ Hb). apply filter_In.
      apply seg_entries_in in Hk as (o & s & e & Hin). split.
      - eapply Permutation_in; [symmetry; apply sort_keys_perm|]. apply (in_map fst) in Hin. exact Hin.
      - unfold segk. rewrite (in_lookup k _ _ Hnd Hin). reflexivity. }
    destruct (inflate_all_decoded m bl Hval Hndb _ Hcover) as (sg & rw & Hi & Hsk & Hrk & Hsv & _).
    rewrite Hi in Hp. eexists. split; [exact Hp|].
    (* the layout the first serialisation computed *)
    pose proof Hl as Hspec. rewrite write_layout_spec in Hspec by exact Hnd.
    destruct (missing_headers m); [discriminate|]. rewrite Hb in Hspec. injection Hspec as Hh' Hbody.
    set (m' := mesh_of_parsed (mkParsed h' sg (if incl then rw else []))).
    assert (Hkeys : hkeys h' = hkeys (m_header m)) by (rewrite <- Hh'; apply apply_table_keys).
    assert (Hnd' : NoDup (hkeys (m_header m'))) by (change (NoDup (hkeys h')); rewrite Hkeys; exact Hnd).
    unfold write_mesh. rewrite (write_layout_spec false m' Hnd').
    assert (Hmiss : missing_headers m' = false).
    { unfold missing_headers. destruct (existsb _ _) eqn:E; [|reflexivity]. exfalso.
      apply existsb_exists in E as (k & Hk & Hneg).
      assert (Hin : In k (hkeys h')).
      { rewrite Hkeys. apply seg_entries_keys. cbn [m' mesh_of_parsed m_segments m_raw p_segments p_raw] in Hk.
        rewrite map_map in Hk. cbn [fst] in Hk. apply in_app_or in Hk as [Hk|Hk].
        - rewrite <- Hsk. rewrite (map_ext _ fst) in Hk by reflexivity. exact Hk.
        - destruct incl; [rewrite <- Hrk; exact Hk | destruct Hk]. }
      apply kmem_in in Hin. cbn [m' mesh_of_parsed m_header p_header] in Hneg. unfold hkeys in Hin. rewrite Hin in Hneg. discriminate. }
    rewrite Hmiss. cbn [m' mesh_of_parsed m_header p_header]. fold m'. rewrite Hkeys.
    assert (Hsame : blobs_of false m' h' (sort_keys rk (hkeys (m_header m))) = Some bl).
    { rewrite <- Hb. apply blobs_of_ext.
      - intros k _. rewrite <- Hh'. apply segk_apply_table.
      - intros k Hk Hseg. rewrite <- Hh', segk_apply_table in Hseg.
        (* the first serialisation found a decoded segment under k; the parse put the same tree back *)
        assert (Hkb : In k (map fst bl)).
        { rewrite (blobs_keys_false m _ _ _ Hb). apply filter_In. split; assumption. }
        apply in_map_iff in Hkb as ([k2 b] & Hk2 & Hinb). cbn in Hk2. subst k2.
        destruct (Hval k b Hinb) as (s & Hsv' & _).
        assert (Hins : In (k, s) sg).
        { apply Hsv; [|exact Hsv']. unfold segk in Hseg.
          destruct (lookup k (m_header m)) as [[o sz e|x]|] eqn:E; try discriminate.
          apply seg_entries_in. exists o, sz, e. apply lookup_in, E. }
        assert (Hlk : lookup k sg = Some s).
        { apply in_lookup; [rewrite Hsk; apply seg_entries_nodup, Hnd | exact Hins]. }
        unfold seg_value at 1. cbn [m' mesh_of_parsed m_segments p_segments]. rewrite lookup_map_parsed, Hlk.
        cbn [option_map]. rewrite Hsv'. reflexivity. }
    rewrite Hsame. rewrite <- Hh' at 1. rewrite apply_table_idem, Hh', Hbody. reflexivity.
  Qed.

End MeshProofs.

(* ====================================================================================== *)
(* A concrete instance of the oracles, used only to show that the hypotheses of the theorems are satisfiable
   (Props/C20.v examples): opaque values are numbers, a header is written as a token list (the model's "bytes" are
   unbounded numbers, so one token per number is enough), a blob is its content behind a marker. *)

Definition zcode (z : Z) : list N := [if (z <? 0)%Z then 1 else 0; Z.abs_N z].
Definition zdecode (s a : N) : Z := if s =? 1 then (- Z.of_N a)%Z else Z.of_N a.

Definition toy_enc_entry (kv : key * hval N) : list N :=
  N.of_nat (length (fst kv)) :: fst kv ++
  match snd kv with
  | HSeg o s e => 0 :: zcode o ++ zcode s ++ [e]
  | HOther x => [1; x]
  end.

Definition toy_enc (h : mheader N) : bytes := N.of_nat (length h) :: concat (map toy_enc_entry h).

Definition toy_dec_entry (bs : list N) : option ((key * hval N) * list N) :=
  match bs with
  | [] => None
  | n :: r =>
    if (length r <? N.to_nat n)%nat then None
    else
      let k := firstn (N.to_nat n) r in
      match skipn (N.to_nat n) r with
      | 0 :: so :: o :: ss :: s :: e :: r' => Some ((k, HSeg (zdecode so o) (zdecode ss s) e), r')
      | 1 :: x :: r' => Some ((k, HOther x), r')
      | _ => None
      end
  end.

Fixpoint toy_dec_n (n : nat) (bs : list N) : option (mheader N * list N) :=
  match n with
  | O => Some ([], bs)
  | Datatypes.S n' =>
    match toy_dec_entry bs with
    | None => None
    | Some (kv, r) => match toy_dec_n n' r with
                      | None => None
                      | Some (l, r') => Some (kv :: l, r')
                      end
    end
  end.

Definition toy_dec (bs : bytes) : option (mheader N * bytes) :=
  match bs with
  | [] => None
  | n :: r => toy_dec_n (N.to_nat n) r
  end.

Definition toy_deflate (_ : key) (s : bytes) : bytes := 120 :: s.
Definition toy_inflate (_ : key) (b : bytes) : inflated bytes :=
  match b with
  | 120 :: s => IOk s
  | _ => IZlib
  end.

Lemma toy_dec_enc_entry kv rest : toy_dec_entry (toy_enc_entry kv ++ rest) = Some (kv, rest).
Proof.
  destruct kv as [k v]. unfold toy_enc_entry, toy_dec_entry. cbn [fst snd app].
  rewrite Nat2N.id. rewrite <- app_assoc.
  replace (length (k ++ _) <? length k)%nat with false by (rewrite app_length; lia).
  rewrite firstn_app, Nat.sub_diag, firstn_all. cbn [firstn]. rewrite app_nil_r.
  rewrite skipn_app, Nat.sub_diag, skipn_all. cbn [skipn app].
  destruct v as [o s e|x]; cbn [app]; [|reflexivity].
  unfold zcode. cbn [app]. f_equal. f_equal. f_equal. f_equal.
  - unfold zdecode. destruct (o <? 0)%Z eqn:E; cbn [N.eqb Pos.eqb]; lia.
  - unfold zdecode. destruct (s <? 0)%Z eqn:E; cbn [N.eqb Pos.eqb]; lia.
Qed.

Lemma toy_dec_enc h rest : toy_dec (toy_enc h ++ rest) = Some (h, rest).
Proof.
  unfold toy_enc, toy_dec. cbn [app]. rewrite Nat2N.id.
  induction h as [|kv h IH]; cbn [length map concat toy_dec_n app]; [reflexivity|].
  rewrite <- app_assoc, toy_dec_enc_entry, IH. reflexivity.
Qed.

Lemma toy_inflate_deflate k s : toy_inflate k (toy_deflate k s) = IOk s.
Proof. reflexivity. Qed.
