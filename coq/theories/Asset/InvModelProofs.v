(* C20 (B8) - lemmas about Asset/InvModel.v *)
From Coq Require Import NArith ZArith List Bool Arith Lia Permutation.
From HV Require Import Base.Bytes Asset.Schema Asset.SchemaProofs Asset.Digits Asset.Record Asset.RecordProofs
  Asset.Llsd Asset.LlsdProofs Asset.InvModel.
Import ListNotations.

(* ================= structural equality ================= *)

Lemma pval_eqb_refl a : pval_eqb a a = true.
Proof. destruct a; cbn; [apply str_eqb_refl | apply Z.eqb_refl | apply N.eqb_refl]. Qed.

Lemma opval_eqb_refl a : opval_eqb a a = true.
Proof. destruct a; cbn; [apply pval_eqb_refl | reflexivity]. Qed.

Lemma opvals_eqb_eq a : forall b, opvals_eqb a b = true <-> a = b.
Proof.
  induction a as [|x a IH]; intros [|y b]; cbn; try (split; congruence).
  rewrite andb_true_iff, IH. split.
  - intros [H1 H2]. apply opval_eqb_eq in H1. now subst.
  - intros H. injection H as -> ->. split; [apply opval_eqb_refl | reflexivity].
Qed.

Lemma fval_eqb_eq a b : fval_eqb a b = true <-> a = b.
Proof.
  destruct a as [x|x], b as [y|y]; cbn; try (split; congruence).
  - split; [intros H; apply pval_eqb_eq in H; now subst | intros H; injection H as ->; apply pval_eqb_refl].
  - rewrite opvals_eqb_eq. split; congruence.
Qed.

Lemma ofval_eqb_eq a b : ofval_eqb a b = true <-> a = b.
Proof.
  destruct a as [x|], b as [y|]; cbn; try (split; congruence).
  rewrite fval_eqb_eq. split; congruence.
Qed.

Lemma record_eqb_eq a : forall b, record_eqb a b = true <-> a = b.
Proof.
  induction a as [|x a IH]; intros [|y b]; cbn; try (split; congruence).
  rewrite andb_true_iff, IH, ofval_eqb_eq. split; [intros [-> ->]; reflexivity | intros H; injection H; auto].
Qed.

Lemma node_eqb_eq a b : node_eqb a b = true <-> a = b.
Proof.
  destruct a as [i r], b as [j s]. unfold node_eqb. cbn [fst snd].
  rewrite andb_true_iff, Nat.eqb_eq, record_eqb_eq. split; [intros [-> ->]; reflexivity | intros H; injection H; auto].
Qed.

Lemma existsb_ofval k l : existsb (ofval_eqb k) l = true <-> In k l.
Proof.
  rewrite existsb_exists. split.
  - intros [x [Hin E]]. apply ofval_eqb_eq in E. now subst.
  - intros H. exists k. split; [exact H | now apply ofval_eqb_eq].
Qed.

Lemma nodup_keys_spec l : nodup_keys l = true <-> NoDup l.
Proof.
  induction l as [|x l IH]; cbn; [split; [constructor | reflexivity]|].
  rewrite andb_true_iff, negb_true_iff, IH. split.
  - intros [Hx Hl]. constructor; [|exact Hl]. intros Hin. apply existsb_ofval in Hin. congruence.
  - intros H. inversion H as [|? ? Hx Hl]; subst. split; [|exact Hl].
    destruct (existsb (ofval_eqb x) l) eqn:E; [|reflexivity]. apply existsb_ofval in E. contradiction.
Qed.

(* ================= model equality ================= *)

Lemma incl_b_spec a b : incl_b a b = true <-> incl a b.
Proof.
  unfold incl_b, incl. rewrite forallb_forall. split.
  - intros H x Hx. specialize (H x Hx). apply existsb_exists in H as [y [Hy E]]. apply node_eqb_eq in E. now subst.
  - intros H x Hx. apply existsb_exists. exists x. split; [now apply H | now apply node_eqb_eq].
Qed.

Lemma model_eqb_spec m1 m2 : model_eqb m1 m2 = true <-> model_eq m1 m2.
Proof.
  unfold model_eqb, model_eq. rewrite andb_true_iff, !incl_b_spec. unfold incl. split.
  - intros [H1 H2] n. split; auto.
  - intros H. split; intros n Hn; now apply H.
Qed.

Lemma model_eq_refl m : model_eq m m.
Proof. intros n. reflexivity. Qed.
Lemma model_eq_sym m1 m2 : model_eq m1 m2 -> model_eq m2 m1.
Proof. intros H n. symmetry. apply H. Qed.
Lemma model_eq_trans m1 m2 m3 : model_eq m1 m2 -> model_eq m2 m3 -> model_eq m1 m3.
Proof. intros H1 H2 n. rewrite (H1 n). apply H2. Qed.

(* the order of the nodes, the dict keys and the root play no role *)
Lemma model_eq_perm m1 m2 : (forall n, In n (svalues m1) <-> In n (svalues m2)) <-> model_eqb m1 m2 = true.
Proof. symmetry. apply model_eqb_spec. Qed.

Lemma in_ordered T vs n : In n (ordered T vs) <-> In n vs.
Proof.
  unfold ordered. rewrite in_app_iff, !filter_In. split.
  - intros [[H _]|[H _]]; exact H.
  - intros H. destruct (is_container T n) eqn:E; [left | right]; split; auto.
Qed.

(* ================= field order ================= *)

Lemma index_of_spec j p : In j p -> nth (pos_of j p) p 0%nat = j /\ (pos_of j p < length p)%nat.
Proof.
  induction p as [|x p IH]; intros H; [destruct H|]. cbn [pos_of].
  destruct (Nat.eqb x j) eqn:E.
  - apply Nat.eqb_eq in E. subst. cbn. split; [reflexivity | lia].
  - destruct H as [H|H]; [subst; rewrite Nat.eqb_refl in E; discriminate|].
    destruct (IH H) as [H1 H2]. cbn. split; [exact H1 | lia].
Qed.

Lemma map_nth_seq {A} (d : A) r : map (fun j => nth j r d) (seq 0 (length r)) = r.
Proof.
  induction r as [|x r IH]; [reflexivity|]. cbn [length seq map nth]. f_equal.
  rewrite <- seq_shift, map_map. exact IH.
Qed.

Lemma covers_inv p n : covers p n = true -> length p = n /\ forall j, (j < n)%nat -> In j p.
Proof.
  unfold covers. intros H. apply andb_prop in H as [Hl Hc]. apply Nat.eqb_eq in Hl. split; [exact Hl|].
  intros j Hj. rewrite forallb_forall in Hc. specialize (Hc j). rewrite in_seq in Hc.
  assert (Hx : existsb (Nat.eqb j) p = true) by (apply Hc; lia).
  apply existsb_exists in Hx as [x [Hx E]]. apply Nat.eqb_eq in E. now subst.
Qed.

Lemma unpermute_permute {A} (d : A) p r : covers p (length r) = true -> unpermute d p (permute d p r) = r.
Proof.
  intros H. apply covers_inv in H as [Hl Hc]. unfold unpermute, permute. rewrite Hl.
  rewrite <- (map_nth_seq d r) at 2. apply map_ext_in. intros j Hj. apply in_seq in Hj.
  destruct (index_of_spec j p (Hc j ltac:(lia))) as [H1 H2].
  rewrite (nth_indep _ d (nth 0%nat r d)) by (rewrite map_length; exact H2).
  rewrite (map_nth (fun i => nth i r d) p 0%nat). now rewrite H1.
Qed.

(* ================= add ================= *)

Lemma NoDup_app_snoc {A} (l : list A) x : NoDup l -> ~ In x l -> NoDup (l ++ [x]).
Proof.
  induction l as [|y l IH]; intros Hl Hx; cbn; [constructor; [intros []|constructor]|].
  inversion Hl as [|? ? Hy Hl']; subst. constructor.
  - rewrite in_app_iff. intros [H|[H|[]]]; [contradiction|]. subst. apply Hx. now left.
  - apply IH; [exact Hl'|]. intros H. apply Hx. now right.
Qed.

Lemma add_all_app T ns1 : forall m ns2,
  add_all T m (ns1 ++ ns2) = match add_all T m ns1 with Some m' => add_all T m' ns2 | None => None end.
Proof.
  induction ns1 as [|n ns1 IH]; intros m ns2; [reflexivity|]. cbn [app add_all].
  destruct (inv_add T m n); [apply IH | reflexivity].
Qed.

Definition entries (T : ctable) (ns : list node) : list (nkey * node) := map (fun n => (node_key T n, n)) ns.

Lemma add_all_ok T ns : forall m, NoDup (skeys m ++ map (node_key T) ns) ->
  add_all T m ns = Some (mkStore (s_nodes m ++ entries T ns) (fold_left (new_root T) ns (s_root m))).
Proof.
  induction ns as [|n ns IH]; intros m Hnd.
  - cbn. rewrite app_nil_r. now destruct m.
  - cbn [add_all]. unfold inv_add.
    destruct (existsb (ofval_eqb (node_key T n)) (skeys m)) eqn:E.
    + exfalso. apply existsb_ofval in E. cbn [map] in Hnd. apply NoDup_remove_2 in Hnd. apply Hnd.
      apply in_or_app. now left.
    + rewrite IH.
      * cbn [s_nodes s_root entries map fold_left]. now rewrite <- app_assoc.
      * unfold skeys. cbn [s_nodes]. rewrite map_app. cbn [map fst]. rewrite <- app_assoc. exact Hnd.
Qed.

(* a duplicate id makes add() raise *)
Lemma add_all_dup T ns : forall m, ~ NoDup (skeys m ++ map (node_key T) ns) -> NoDup (skeys m) -> add_all T m ns = None.
Proof.
  induction ns as [|n ns IH]; intros m Hnd Hm.
  - exfalso. apply Hnd. cbn. now rewrite app_nil_r.
  - cbn [add_all]. unfold inv_add. destruct (existsb (ofval_eqb (node_key T n)) (skeys m)) eqn:E; [reflexivity|].
    apply IH.
    + unfold skeys. cbn [s_nodes]. rewrite map_app. cbn [map fst]. now rewrite <- app_assoc.
    + unfold skeys. cbn [s_nodes]. rewrite map_app. cbn [map fst]. fold (skeys m).
      apply NoDup_app_snoc; [exact Hm|]. intros Hin. apply existsb_ofval in Hin. congruence.
Qed.

(* ================= legacy text ================= *)

Lemma run_len S : forall lines st d rest, run S st lines = Some (d, rest) -> (length rest <= length lines)%nat.
Proof.
  induction lines as [|l lines IH]; intros st d rest H; cbn [run] in H.
  - destruct st; [|destruct (build_p sub di)]; inversion H; subst; cbn; lia.
  - cbn [length].
    repeat match goal with
           | H : match ?x with _ => _ end = Some _ |- _ => destruct x eqn:?
           | H : (if ?x then _ else _) = Some _ |- _ => destruct x eqn:?
           | H : (let (_, _) := ?x in _) = Some _ |- _ => destruct x eqn:?
           end;
      try discriminate; try (apply IH in H; lia); try (inversion H; subst; lia).
Qed.

Lemma from_lines_len S lines r rest : from_lines S lines = Some (r, rest) -> (length rest <= length lines)%nat.
Proof.
  unfold from_lines. intros H. destruct (run S (Outer []) lines) as [[d rest']|] eqn:E; [|discriminate].
  destruct (build_o S d); [|discriminate]. inversion H; subst. now apply run_len in E.
Qed.

(* the fuel is an artefact: any amount above the number of lines gives the same answer *)
Lemma read_top_fuel T : forall f1 f2 lines m, (length lines < f1)%nat -> (length lines < f2)%nat ->
  read_top T f1 lines m = read_top T f2 lines m.
Proof.
  induction f1 as [|f1 IH]; intros f2 lines m H1 H2; [lia|]. destruct f2 as [|f2]; [lia|].
  cbn [read_top]. destruct lines as [|l rest]; [reflexivity|]. cbn [length] in H1, H2.
  assert (Hr : read_top T f1 rest m = read_top T f2 rest m) by (apply IH; lia).
  destruct (strip l) as [|ch s]; [exact Hr|].
  destruct (parse_stripped (ch :: s)) as [[k v]|]; [|exact Hr].
  destruct (str_eqb k [LBRACE]); [exact Hr|]. destruct (str_eqb k [RBRACE]); [reflexivity|].
  destruct (find_name T k 0) as [[i c]|]; [|exact Hr].
  destruct (from_lines (c_text c) rest) as [[r rest']|] eqn:E; [|reflexivity].
  apply from_lines_len in E. destruct (inv_add T m (i, unpermute None (c_text_perm c) r)); [|reflexivity].
  apply IH; lia.
Qed.

Lemma find_name_nth T : NoDup (map c_name T) -> forall i c i0, nth_error T i = Some c ->
  find_name T (c_name c) i0 = Some ((i0 + i)%nat, c).
Proof.
  induction T as [|c0 T IH]; intros Hnd i c i0 Hi; [destruct i; discriminate|].
  inversion Hnd as [|? ? Hnotin Hnd']; subst. destruct i as [|i]; cbn in Hi.
  - inversion Hi; subst. cbn [find_name]. rewrite str_eqb_refl, Nat.add_0_r. reflexivity.
  - cbn [find_name]. rewrite str_eqb_neq.
    + rewrite (IH Hnd' i c (S i0) Hi). f_equal. f_equal. lia.
    + intros E. apply Hnotin. rewrite E. apply in_map. now apply nth_error_In in Hi.
Qed.

Lemma read_top_skip T fuel l rest m : skip_line T l = true -> (length (l :: rest) < fuel)%nat ->
  read_top T fuel (l :: rest) m = read_top T fuel rest m.
Proof.
  intros Hs Hf. destruct fuel as [|f]; [cbn in Hf; lia|]. cbn [length] in Hf.
  rewrite (read_top_fuel T (S f) f rest m) by lia.
  cbn [read_top]. unfold skip_line in Hs. destruct (strip l) as [|ch s]; [reflexivity|].
  destruct (parse_stripped (ch :: s)) as [[k v]|]; [|reflexivity].
  destruct (str_eqb k [LBRACE]); [reflexivity|]. cbn [orb] in Hs.
  destruct (str_eqb k [RBRACE]); [discriminate|]. cbn [negb andb] in Hs.
  destruct (find_name T k 0); [discriminate | reflexivity].
Qed.

Lemma read_top_stop T fuel l rest m : stop_line l = true -> (0 < fuel)%nat -> read_top T fuel (l :: rest) m = Some m.
Proof.
  intros Hs Hf. destruct fuel as [|f]; [lia|]. cbn [read_top]. unfold stop_line in Hs.
  destruct (strip l) as [|ch s]; [discriminate|]. destruct (parse_stripped (ch :: s)) as [[k v]|]; [|discriminate].
  destruct (str_eqb k [LBRACE]); [discriminate|]. cbn [negb andb] in Hs. now rewrite Hs.
Qed.

Lemma wf_table_text_inv T : wf_table_text T = true ->
  NoDup (map c_name T) /\ forall i c, nth_error T i = Some c ->
    wf_schema (c_text c) = true /\ key_ok (c_name c) = true /\ covers (c_text_perm c) (c_arity c) = true.
Proof.
  unfold wf_table_text. intros H. apply andb_prop in H as [Hall Hnd]. split; [now apply nodup_str_spec|].
  intros i c Hi. apply nth_error_In in Hi. rewrite forallb_forall in Hall. specialize (Hall c Hi).
  unfold wf_class_text in Hall. apply andb_prop in Hall as [Hall H3]. apply andb_prop in Hall as [H1 H2]. auto.
Qed.

Lemma node_lines_nonempty T n c : nth_error T (fst n) = Some c -> (0 < length (node_lines T n))%nat.
Proof. intros Hc. unfold node_lines. rewrite Hc. unfold to_lines, header. cbn. lia. Qed.

(* one block written by node.to_writer is read back as that node and handed to add() *)
Lemma read_top_block T fuel n rest m : wf_table_text T = true -> node_ok_text T n = true ->
  (length (node_lines T n ++ rest) < fuel)%nat ->
  read_top T fuel (node_lines T n ++ rest) m =
  match inv_add T m n with Some m' => read_top T fuel rest m' | None => None end.
Proof.
  intros Hwf Hok Hf. destruct (wf_table_text_inv T Hwf) as [Hnd Hcls].
  unfold node_ok_text in Hok. destruct (nth_error T (fst n)) as [c|] eqn:Hc; [|discriminate].
  apply andb_prop in Hok as [Hlen Hdom]. apply Nat.eqb_eq in Hlen.
  destruct (Hcls _ _ Hc) as (Hws & Hk & Hcov).
  pose proof (node_lines_nonempty T n c Hc) as Hne.
  unfold node_lines in *. rewrite Hc in *.
  set (r := permute None (c_text_perm c) (snd n)) in *.
  destruct (header_token (c_name c) Hk) as (l & rest0 & Hh & ch & s & Hs & Hp).
  assert (E : to_lines (c_name c) (c_text c) r = l :: skipn 1 (to_lines (c_name c) (c_text c) r)).
  { unfold to_lines. rewrite Hh. reflexivity. }
  rewrite E in Hf |- *. cbn [app length] in Hf |- *.
  destruct fuel as [|f]; [lia|].
  assert (Hrest : forall m', read_top T f rest m' = read_top T (S f) rest m').
  { intros m'. apply read_top_fuel; rewrite app_length in Hf; lia. }
  transitivity (match inv_add T m n with Some m' => read_top T f rest m' | None => None end);
    [|destruct (inv_add T m n); [apply Hrest | reflexivity]].
  cbn [read_top]. rewrite Hs, Hp.
  destruct (key_ok_inv _ Hk) as (_ & _ & Hlb & Hrb). rewrite Hlb, Hrb.
  rewrite (find_name_nth T Hnd _ _ 0%nat Hc). cbn [Nat.add].
  rewrite (record_roundtrip (c_name c) (c_text c) r rest Hws Hdom).
  unfold r. rewrite unpermute_permute by (rewrite Hlen; exact Hcov).
  destruct n as [i rc]. reflexivity.
Qed.

Definition block_seq (T : ctable) (jns : list (list str * node)) : list str :=
  concat (map (fun jn => fst jn ++ node_lines T (snd jn)) jns).

Lemma read_top_junk T fuel : forall junk rest m, forallb (skip_line T) junk = true ->
  (length (junk ++ rest) < fuel)%nat -> read_top T fuel (junk ++ rest) m = read_top T fuel rest m.
Proof.
  induction junk as [|l junk IH]; intros rest m Hj Hf; [reflexivity|].
  cbn [forallb] in Hj. apply andb_prop in Hj as [Hl Hj]. cbn [app] in *.
  rewrite read_top_skip by assumption. apply IH; [exact Hj | cbn [length] in Hf; lia].
Qed.

Lemma read_top_blocks T fuel : forall jns rest m, wf_table_text T = true ->
  Forall (fun jn => forallb (skip_line T) (fst jn) = true /\ node_ok_text T (snd jn) = true) jns ->
  (length (block_seq T jns ++ rest) < fuel)%nat ->
  read_top T fuel (block_seq T jns ++ rest) m =
  match add_all T m (map snd jns) with Some m' => read_top T fuel rest m' | None => None end.
Proof.
  induction jns as [|[junk n] jns IH]; intros rest m Hwf Hall Hf; [reflexivity|].
  inversion Hall as [|? ? [Hj Hn] Hall']; subst. cbn [fst snd] in Hj, Hn.
  unfold block_seq in *. cbn [map concat fst snd] in *. rewrite <- !app_assoc in *.
  rewrite read_top_junk by assumption.
  rewrite app_length in Hf.
  rewrite read_top_block by (try assumption; lia). cbn [add_all].
  destruct (inv_add T m n); [|reflexivity]. apply IH; try assumption. rewrite app_length in Hf. lia.
Qed.

(* from_reader of any sequence of well-formed blocks, in any order, with any skippable lines (blank, unparsable,
   "{", unknown keys) in between and after: the nodes are add()ed in the order of the text *)
Theorem from_reader_blocks T jns tail : wf_table_text T = true ->
  Forall (fun jn => forallb (skip_line T) (fst jn) = true /\ node_ok_text T (snd jn) = true) jns ->
  forallb (skip_line T) tail = true ->
  from_reader T (block_seq T jns ++ tail) = add_all T empty_store (map snd jns).
Proof.
  intros Hwf Hall Ht. unfold from_reader.
  rewrite read_top_blocks by (try assumption; lia).
  destruct (add_all T empty_store (map snd jns)) as [m'|]; [|reflexivity].
  rewrite <- (app_nil_r tail). rewrite read_top_junk; [destruct (length _); reflexivity | exact Ht |].
  rewrite app_nil_r, app_length. lia.
Qed.

(* a "}" at block level ends the outer token loop: nothing after it is read *)
Theorem from_reader_stop T jns junk l ignored : wf_table_text T = true ->
  Forall (fun jn => forallb (skip_line T) (fst jn) = true /\ node_ok_text T (snd jn) = true) jns ->
  forallb (skip_line T) junk = true -> stop_line l = true ->
  from_reader T (block_seq T jns ++ junk ++ l :: ignored) = add_all T empty_store (map snd jns).
Proof.
  intros Hwf Hall Hj Hl. unfold from_reader.
  rewrite read_top_blocks by (try assumption; lia).
  destruct (add_all T empty_store (map snd jns)) as [m'|]; [|reflexivity].
  rewrite read_top_junk; [apply read_top_stop; [exact Hl | lia] | exact Hj |].
  rewrite (app_length (block_seq T jns)). lia.
Qed.

(* ================= whole models through the text form ================= *)

Lemma ordered_perm T vs : Permutation (ordered T vs) vs.
Proof.
  unfold ordered. induction vs as [|x vs IH]; [constructor|]. cbn [filter].
  destruct (is_container T x); cbn [negb app].
  - now constructor.
  - apply Permutation_sym. apply Permutation_cons_app. now apply Permutation_sym.
Qed.

Lemma ids_distinct_ordered T vs : ids_distinct T vs = true -> NoDup (map (node_key T) (ordered T vs)).
Proof.
  unfold ids_distinct. rewrite nodup_keys_spec. intros H.
  eapply Permutation_NoDup; [|exact H]. apply Permutation_map. apply Permutation_sym. apply ordered_perm.
Qed.

Lemma values_entries T ns : map snd (entries T ns) = ns.
Proof. unfold entries. rewrite map_map. cbn. apply map_id. Qed.
Lemma keys_entries T ns : map fst (entries T ns) = map (node_key T) ns.
Proof. unfold entries. rewrite map_map. reflexivity. Qed.

Lemma block_seq_plain T ns : block_seq T (map (fun n => ([], n)) ns) = concat (map (node_lines T) ns).
Proof. unfold block_seq. rewrite map_map. reflexivity. Qed.

(* InventoryModel.from_reader(to_writer(m)): containers first, then items, each group in the model's order; the dict is
   re-keyed by the node ids; equal to m as InventoryModel.__eq__ sees it *)
Theorem model_text_roundtrip T m : wf_table_text T = true ->
  forallb (node_ok_text T) (svalues m) = true -> ids_distinct T (svalues m) = true ->
  exists m', from_reader T (to_writer T m) = Some m' /\
    svalues m' = ordered T (svalues m) /\ skeys m' = map (node_key T) (ordered T (svalues m)) /\
    s_root m' = root_of T (ordered T (svalues m)) /\ model_eq m' m.
Proof.
  intros Hwf Hok Hid. set (ns := ordered T (svalues m)).
  exists (mkStore (entries T ns) (root_of T ns)).
  assert (Hrd : from_reader T (to_writer T m) = add_all T empty_store ns).
  { unfold to_writer. fold ns. rewrite <- block_seq_plain, <- (app_nil_r (block_seq _ _)).
    rewrite from_reader_blocks; [now rewrite map_map, map_id | exact Hwf | | reflexivity].
    apply Forall_forall. intros [j n] Hin. apply in_map_iff in Hin as [n' [E Hn']]. inversion E; subst.
    cbn [fst snd]. split; [reflexivity|]. rewrite forallb_forall in Hok. apply Hok. unfold ns in Hn'.
    now apply in_ordered in Hn'. }
  rewrite Hrd, add_all_ok by (cbn; now apply ids_distinct_ordered).
  cbn [empty_store s_nodes s_root app]. split; [reflexivity|].
  unfold svalues, skeys. cbn [s_nodes s_root]. rewrite values_entries, keys_entries.
  repeat split; try reflexivity; unfold svalues; cbn [s_nodes]; rewrite values_entries; intros Hn.
  - now apply in_ordered in Hn.
  - apply in_ordered. exact Hn.
Qed.

(* ... and without the distinct-ids hypothesis the reader raises (KeyError from add) *)
Theorem model_text_dup_ids T m : wf_table_text T = true ->
  forallb (node_ok_text T) (svalues m) = true -> ids_distinct T (svalues m) = false ->
  from_reader T (to_writer T m) = None.
Proof.
  intros Hwf Hok Hid. set (ns := ordered T (svalues m)).
  assert (Hrd : from_reader T (to_writer T m) = add_all T empty_store ns).
  { unfold to_writer. fold ns. rewrite <- block_seq_plain, <- (app_nil_r (block_seq _ _)).
    rewrite from_reader_blocks; [now rewrite map_map, map_id | exact Hwf | | reflexivity].
    apply Forall_forall. intros [j n] Hin. apply in_map_iff in Hin as [n' [E Hn']]. inversion E; subst.
    cbn [fst snd]. split; [reflexivity|]. rewrite forallb_forall in Hok. apply Hok. unfold ns in Hn'.
    now apply in_ordered in Hn'. }
  rewrite Hrd. apply add_all_dup; [|constructor]. cbn. intros Hnd.
  assert (ids_distinct T (svalues m) = true); [|congruence].
  unfold ids_distinct. apply nodup_keys_spec. eapply Permutation_NoDup; [|exact Hnd].
  apply Permutation_map. apply ordered_perm.
Qed.

(* models built with add() only (no attribute surgery afterwards): keys = ids, pairwise distinct *)
Lemma consistent_empty T : consistent T empty_store = true.
Proof. reflexivity. Qed.

Lemma add_consistent T m n m' : consistent T m = true -> inv_add T m n = Some m' -> consistent T m' = true.
Proof.
  unfold consistent, inv_add. intros H Ha. apply andb_prop in H as [Hnd Hk].
  destruct (existsb (ofval_eqb (node_key T n)) (skeys m)) eqn:E; [discriminate|]. inversion Ha; subst. clear Ha.
  apply nodup_keys_spec in Hnd. apply record_eqb_eq in Hk.
  unfold skeys, svalues in *. cbn [s_nodes]. rewrite !map_app. cbn [map fst snd].
  apply andb_true_intro. split.
  - apply nodup_keys_spec. apply NoDup_app_snoc; [exact Hnd|]. intros Hin. apply existsb_ofval in Hin. congruence.
  - apply record_eqb_eq. now rewrite Hk.
Qed.

Lemma add_all_consistent T ns : forall m m', consistent T m = true -> add_all T m ns = Some m' -> consistent T m' = true.
Proof.
  induction ns as [|n ns IH]; intros m m' Hc Ha; cbn [add_all] in Ha; [inversion Ha; now subst|].
  destruct (inv_add T m n) as [m1|] eqn:E; [|discriminate]. eapply IH; [|exact Ha]. eapply add_consistent; eauto.
Qed.

Lemma consistent_ids T m : consistent T m = true -> ids_distinct T (svalues m) = true.
Proof.
  unfold consistent, ids_distinct. intros H. apply andb_prop in H as [Hnd Hk]. apply record_eqb_eq in Hk. now rewrite <- Hk.
Qed.

(* ================= dict operations ================= *)

Section DictLemmas.
  Context {A : Type}.
  Implicit Types d : list (str * A).

  Lemma assoc_none d k : ~ In k (map fst d) -> assoc_s d k = None.
  Proof.
    induction d as [|[k0 v0] d IH]; intros H; [reflexivity|]. cbn [assoc_s].
    rewrite str_eqb_neq by (intros E; apply H; now left). apply IH. intros Hin. apply H. now right.
  Qed.

  Lemma assoc_some_in d k v : assoc_s d k = Some v -> In (k, v) d.
  Proof.
    induction d as [|[k0 v0] d IH]; intros H; [discriminate|]. cbn [assoc_s] in H.
    destruct (str_eqb k0 k) eqn:E; [apply str_eqb_eq in E; inversion H; subst; now left | right; auto].
  Qed.

  Lemma assoc_in d k v : NoDup (map fst d) -> In (k, v) d -> assoc_s d k = Some v.
  Proof.
    induction d as [|[k0 v0] d IH]; intros Hnd Hin; [destruct Hin|]. inversion Hnd as [|? ? Hnotin Hnd']; subst.
    cbn [assoc_s]. destruct Hin as [E|Hin].
    - inversion E; subst. now rewrite str_eqb_refl.
    - rewrite str_eqb_neq; [now apply IH|]. intros E. subst. apply Hnotin. now apply (in_map fst) in Hin.
  Qed.

  Lemma dmem_in d k : dmem d k = true -> In k (map fst d).
  Proof.
    unfold dmem. destruct (assoc_s d k) as [v|] eqn:E; [|discriminate]. intros _.
    apply assoc_some_in in E. now apply (in_map fst) in E.
  Qed.

  Lemma assoc_dset d k v k' : assoc_s (d_set d k v) k' = if str_eqb k k' then Some v else assoc_s d k'.
  Proof.
    induction d as [|[k0 v0] d IH]; [reflexivity|]. cbn [d_set assoc_s].
    destruct (str_eqb k0 k) eqn:E0.
    - apply str_eqb_eq in E0. subst. cbn [assoc_s]. destruct (str_eqb k k'); reflexivity.
    - cbn [assoc_s]. rewrite IH. destruct (str_eqb k0 k') eqn:E1; [|reflexivity].
      apply str_eqb_eq in E1. subst. now rewrite str_eqb_neq by (intros E; subst; rewrite str_eqb_refl in E0; discriminate).
  Qed.

  Lemma assoc_ddel d k k' : NoDup (map fst d) -> assoc_s (ddel d k) k' = if str_eqb k k' then None else assoc_s d k'.
  Proof.
    induction d as [|[k0 v0] d IH]; intros Hnd; [now destruct (str_eqb k k')|].
    inversion Hnd as [|? ? Hnotin Hnd']; subst. cbn [ddel assoc_s].
    destruct (str_eqb k0 k) eqn:E0.
    - apply str_eqb_eq in E0. subst. destruct (str_eqb k k') eqn:E1; [|reflexivity].
      apply str_eqb_eq in E1. subst. now apply assoc_none.
    - cbn [assoc_s]. rewrite (IH Hnd'). destruct (str_eqb k0 k') eqn:E1; [|reflexivity].
      apply str_eqb_eq in E1. subst. now rewrite str_eqb_neq by (intros E; subst; rewrite str_eqb_refl in E0; discriminate).
  Qed.

  Lemma keys_dset d k v x : In x (map fst (d_set d k v)) -> In x (map fst d) \/ x = k.
  Proof.
    induction d as [|[k0 v0] d IH]; cbn [d_set map fst In]; [intros [H|[]]; now right|].
    destruct (str_eqb k0 k); cbn [map fst In]; [tauto|]. intros [H|H]; [tauto|]. destruct (IH H); tauto.
  Qed.

  Lemma keys_ddel d k x : In x (map fst (ddel d k)) -> In x (map fst d).
  Proof.
    induction d as [|[k0 v0] d IH]; cbn [ddel map fst In]; [tauto|].
    destruct (str_eqb k0 k); cbn [map fst In]; tauto.
  Qed.

  Lemma nodup_dset d k v : NoDup (map fst d) -> NoDup (map fst (d_set d k v)).
  Proof.
    induction d as [|[k0 v0] d IH]; intros Hnd; [cbn; constructor; [intros []|constructor]|].
    inversion Hnd as [|? ? Hnotin Hnd']; subst. cbn [d_set]. destruct (str_eqb k0 k) eqn:E; [exact Hnd|].
    cbn [map fst]. constructor; [|auto]. intros Hin. apply keys_dset in Hin as [Hin|Hin]; [contradiction|].
    subst. rewrite str_eqb_refl in E. discriminate.
  Qed.

  Lemma nodup_ddel d k : NoDup (map fst d) -> NoDup (map fst (ddel d k)).
  Proof.
    induction d as [|[k0 v0] d IH]; intros Hnd; [constructor|].
    inversion Hnd as [|? ? Hnotin Hnd']; subst. cbn [ddel]. destruct (str_eqb k0 k); [exact Hnd'|].
    cbn [map fst]. constructor; [|auto]. intros Hin. apply keys_ddel in Hin. contradiction.
  Qed.
End DictLemmas.

(* ================= SchemaBase.from_llsd reads a dict as a finite map ================= *)

Definition cv (fl : flavor) (f : field) (l : lval) : option fval :=
  match f_spec f, l with
  | FP kd, LP pl => option_map P (back fl kd pl)
  | FB _ sub, LM m => option_map R (from_llsd_p fl sub m)
  | _, _ => None
  end.

Definition lenc (fl : flavor) (f : field) (ov : option fval) : option lval :=
  match f_spec f, ov with
  | FP k, Some (P v) => Some (LP (conv fl k v))
  | FB _ sub, Some (R vs) => Some (LM (to_llsd_p fl sub vs))
  | _, _ => None
  end.

Lemma read_o_cons fl S k l rest acc :
  read_o fl S ((k, l) :: rest) acc =
  match find_field S k with
  | None => read_o fl S rest acc
  | Some f => match cv fl f l with Some v => read_o fl S rest ((k, Some v) :: acc) | None => None end
  end.
Proof.
  cbn [read_o]. destruct (find_field S k) as [f|]; [|reflexivity]. unfold cv.
  destruct (f_spec f) as [kd|sn sub], l as [pl|m]; try reflexivity.
  - destruct (back fl kd pl); reflexivity.
  - destruct (from_llsd_p fl sub m); reflexivity.
Qed.

Lemma read_o_ok fl S : forall d acc, NoDup (map fst d) ->
  (forall k l f, In (k, l) d -> find_field S k = Some f -> exists v, cv fl f l = Some v) ->
  exists D, read_o fl S d acc = Some D /\
    forall n, assoc_s D n = match assoc_s d n with
                            | Some l => match find_field S n with
                                        | Some f => option_map Some (cv fl f l)
                                        | None => assoc_s acc n
                                        end
                            | None => assoc_s acc n
                            end.
Proof.
  induction d as [|[k l] d IH]; intros acc Hnd Hgood.
  - exists acc. split; reflexivity.
  - inversion Hnd as [|? ? Hnotin Hnd']; subst. rewrite read_o_cons.
    assert (Hgood' : forall k l f, In (k, l) d -> find_field S k = Some f -> exists v, cv fl f l = Some v)
      by (intros; eapply Hgood; [right|]; eauto).
    destruct (find_field S k) as [f|] eqn:Ef.
    + destruct (Hgood k l f (or_introl eq_refl) Ef) as [v Hv]. rewrite Hv.
      destruct (IH ((k, Some v) :: acc) Hnd' Hgood') as (D & HD & Hlook). exists D. split; [exact HD|].
      intros n. rewrite Hlook. cbn [assoc_s]. destruct (str_eqb k n) eqn:E.
      * apply str_eqb_eq in E. subst. rewrite (assoc_none d n Hnotin), Ef, Hv. reflexivity.
      * reflexivity.
    + destruct (IH acc Hnd' Hgood') as (D & HD & Hlook). exists D. split; [exact HD|].
      intros n. rewrite Hlook. cbn [assoc_s]. destruct (str_eqb k n) eqn:E; [|reflexivity].
      apply str_eqb_eq in E. subst. now rewrite (assoc_none d n Hnotin), Ef.
Qed.

Lemma to_llsd_field_lenc fl f ov :
  to_llsd_field fl f ov = match lenc fl f ov with Some x => [(f_name f, x)] | None => [] end.
Proof. unfold to_llsd_field, lenc. destruct (f_spec f), ov as [[v|vs]|]; reflexivity. Qed.

Lemma to_llsd_keys fl S : forall r k, In k (map fst (to_llsd fl S r)) -> In k (map f_name S).
Proof.
  induction S as [|f S IH]; intros [|ov r] k H; try (now destruct H). cbn [to_llsd] in H.
  rewrite map_app, in_app_iff in H. destruct H as [H|H]; [|right; eauto].
  rewrite to_llsd_field_lenc in H. destruct (lenc fl f ov); [|destruct H]. destruct H as [H|[]]. now left.
Qed.

Lemma to_llsd_nodup fl S : NoDup (map f_name S) -> forall r, NoDup (map fst (to_llsd fl S r)).
Proof.
  induction S as [|f S IH]; intros Hnd [|ov r]; try constructor. inversion Hnd as [|? ? Hnotin Hnd']; subst.
  cbn [to_llsd]. rewrite to_llsd_field_lenc. destruct (lenc fl f ov); cbn [app map fst]; [|auto].
  constructor; [|auto]. intros Hin. apply to_llsd_keys in Hin. contradiction.
Qed.

Lemma to_llsd_lookup fl S : NoDup (map f_name S) -> forall r f ov, In (f, ov) (combine S r) ->
  assoc_s (to_llsd fl S r) (f_name f) = lenc fl f ov.
Proof.
  induction S as [|f0 S IH]; intros Hnd [|ov0 r] f ov Hin; try (now destruct Hin).
  inversion Hnd as [|? ? Hnotin Hnd']; subst. cbn [combine] in Hin. cbn [to_llsd]. rewrite to_llsd_field_lenc.
  destruct Hin as [E|Hin].
  - inversion E; subst. destruct (lenc fl f ov) as [x|]; cbn [app assoc_s]; [now rewrite str_eqb_refl|].
    apply assoc_none. intros Hk. apply to_llsd_keys in Hk. contradiction.
  - assert (Hne : f_name f0 <> f_name f).
    { intros E. apply Hnotin. rewrite E. apply in_map. now apply in_combine_l in Hin. }
    destruct (lenc fl f0 ov0); cbn [app assoc_s]; [rewrite (str_eqb_neq _ _ Hne)|]; now apply IH.
Qed.

Lemma dom_llsd_pair fl S : forall r f ov, dom_llsd fl S r = true -> In (f, ov) (combine S r) -> dom_lfield fl f ov = true.
Proof.
  induction S as [|f0 S IH]; intros [|ov0 r] f ov Hd Hin; try (now destruct Hin). cbn [dom_llsd] in Hd.
  apply andb_prop in Hd as [H0 Hd]. destruct Hin as [E|Hin]; [inversion E; now subst | eauto].
Qed.

Lemma dom_llsd_len fl S : forall r, dom_llsd fl S r = true -> length S = length r.
Proof.
  induction S as [|f0 S IH]; intros [|ov0 r] Hd; try discriminate; [reflexivity|]. cbn [dom_llsd] in Hd.
  apply andb_prop in Hd as [_ Hd]. cbn. f_equal. auto.
Qed.

Lemma in_combine_ex {A B} (a : A) : forall (l : list A) (l' : list B), length l = length l' -> In a l -> exists b, In (a, b) (combine l l').
Proof.
  induction l as [|x l IH]; intros [|y l'] Hl Hin; try discriminate; [destruct Hin|]. cbn in Hl. injection Hl as Hl.
  destruct Hin as [E|Hin]; [subst; exists y; now left|]. destruct (IH l' Hl Hin) as [b Hb]. exists b. now right.
Qed.

Lemma cv_lenc fl f fv : dom_lfield fl f (Some fv) = true -> exists l, lenc fl f (Some fv) = Some l /\ cv fl f l = Some fv.
Proof.
  unfold dom_lfield, lenc, cv. destruct (f_spec f) as [k|sn sub], fv as [v|vs]; try discriminate; intros H.
  - eexists. split; [reflexivity|]. cbn beta iota. now rewrite (back_conv fl k v H).
  - apply andb_prop in H as [Hd Hnd]. eexists. split; [reflexivity|]. cbn beta iota. now rewrite (from_llsd_p_to fl sub vs Hnd Hd).
Qed.

Lemma find_field_some S k f : find_field S k = Some f -> In f S /\ f_name f = k.
Proof.
  induction S as [|g S IH]; intros H; [discriminate|]. cbn [find_field] in H.
  destruct (str_eqb (f_name g) k) eqn:E.
  - inversion H; subst. apply str_eqb_eq in E. split; [now left | exact E].
  - destruct (IH H). split; [now right | assumption].
Qed.

Lemma build_gen_combine {F V} (name : F -> str) (dflt : F -> option (option V)) D : forall fs vs,
  length fs = length vs ->
  (forall f v, In (f, v) (combine fs vs) ->
     (match assoc_s D (name f) with Some x => Some x | None => dflt f end) = Some v) ->
  build_gen name dflt fs D = Some vs.
Proof.
  induction fs as [|f fs IH]; intros [|v vs] Hl H; try discriminate; [reflexivity|]. cbn in Hl. injection Hl as Hl.
  cbn [build_gen]. rewrite (H f v (or_introl eq_refl)). rewrite (IH vs Hl); [reflexivity|].
  intros f' v' Hin. apply H. now right.
Qed.

(* order of the entries and entries under unknown keys are irrelevant *)
Lemma from_llsd_ext fl S r d : wf_keys S = true -> dom_llsd fl S r = true -> NoDup (map fst d) ->
  (forall k, In k (map f_name S) -> assoc_s d k = assoc_s (to_llsd fl S r) k) ->
  from_llsd fl S d = Some r.
Proof.
  intros Hwf Hdom Hnd Hsame. unfold wf_keys in Hwf. apply andb_prop in Hwf as [HndS _]. apply nodup_str_spec in HndS.
  pose proof (dom_llsd_len fl S r Hdom) as Hlen.
  pose proof (find_field_self S HndS) as Hself. rewrite Forall_forall in Hself.
  destruct (read_o_ok fl S d [] Hnd) as (D & HD & Hlook).
  { intros k l f Hin Hf. destruct (find_field_some S k f Hf) as [HfS Hk]. subst k.
    destruct (in_combine_ex f S r Hlen HfS) as [ov Hp].
    pose proof (to_llsd_lookup fl S HndS r f ov Hp) as Hl.
    rewrite <- Hsame in Hl by now apply in_map. rewrite (assoc_in d _ _ Hnd Hin) in Hl.
    pose proof (dom_llsd_pair fl S r f ov Hdom Hp) as Hd.
    destruct ov as [fv|]; [|unfold lenc in Hl; destruct (f_spec f); discriminate].
    destruct (cv_lenc fl f fv Hd) as (l' & E1 & E2). rewrite E1 in Hl. inversion Hl; subst. eauto. }
  unfold from_llsd. rewrite HD. unfold build_o. apply build_gen_combine; [exact Hlen|].
  intros f ov Hp. pose proof (in_combine_l _ _ _ _ Hp) as HfS.
  rewrite Hlook, (Hself f HfS), Hsame by now apply in_map.
  rewrite (to_llsd_lookup fl S HndS r f ov Hp).
  pose proof (dom_llsd_pair fl S r f ov Hdom Hp) as Hd.
  destruct ov as [fv|].
  - destruct (cv_lenc fl f fv Hd) as (l' & E1 & E2). rewrite E1, E2. reflexivity.
  - assert (E : lenc fl f None = None) by (unfold lenc; destruct (f_spec f); reflexivity). rewrite E. cbn [assoc_s].
    unfold dom_lfield in Hd. destruct (f_spec f); destruct (f_default f) as [[?|]|]; try discriminate; reflexivity.
Qed.

Lemma required_present fl S r k : NoDup (map f_name S) -> dom_llsd fl S r = true -> required_key S k = true ->
  dmem (to_llsd fl S r) k = true.
Proof.
  intros HndS Hdom Hreq. unfold required_key in Hreq. destruct (find_field S k) as [f|] eqn:Ef; [|discriminate].
  destruct (find_field_some S k f Ef) as [HfS Hk]. subst k.
  destruct (in_combine_ex f S r (dom_llsd_len fl S r Hdom) HfS) as [ov Hp].
  pose proof (dom_llsd_pair fl S r f ov Hdom Hp) as Hd. unfold dmem.
  rewrite (to_llsd_lookup fl S HndS r f ov Hp). destruct ov as [fv|].
  - destruct (cv_lenc fl f fv Hd) as (l' & E1 & _). now rewrite E1.
  - unfold dom_lfield in Hd. destruct (f_default f) as [[?|]|]; destruct (f_spec f); discriminate.
Qed.

(* ================= the AIS overrides ================= *)

Lemma plval_eqb_eq a b : plval_eqb a b = true -> a = b.
Proof.
  destruct a, b; cbn; try discriminate; intros H;
    try (apply str_eqb_eq in H); try (apply Z.eqb_eq in H); try (apply N.eqb_eq in H); now subst.
Qed.
Lemma pmap_eqb_eq a : forall b, pmap_eqb a b = true -> a = b.
Proof.
  induction a as [|[k x] a IH]; intros [|[k' y] b]; cbn; try discriminate; [reflexivity|]. intros H.
  apply andb_prop in H as [H H3]. apply andb_prop in H as [H1 H2]. apply str_eqb_eq in H1. apply plval_eqb_eq in H2.
  apply IH in H3. now subst.
Qed.
Lemma lval_eqb_eq a b : lval_eqb a b = true -> a = b.
Proof.
  destruct a, b; cbn; try discriminate; intros H; [apply plval_eqb_eq in H | apply pmap_eqb_eq in H]; now subst.
Qed.

Lemma mem_str_spec k l : mem_str k l = true <-> In k l.
Proof.
  unfold mem_str. rewrite existsb_exists. split.
  - intros [x [Hx E]]. apply str_eqb_eq in E. now subst.
  - intros H. exists k. split; [exact H | apply str_eqb_refl].
Qed.

Lemma notin_neq k k' (l : list str) : mem_str k l = false -> In k' l -> str_eqb k k' = false.
Proof.
  intros Hn Hin. apply str_eqb_neq. intros E. subst. apply mem_str_spec in Hin. congruence.
Qed.

Ltac sneq :=
  match goal with
  | |- str_eqb ?x ?y = false =>
    apply str_eqb_neq; let E := fresh in intros E; subst;
    repeat (match goal with H : NoDup (_ :: _) |- _ => inversion H; clear H; subst end);
    cbn [In] in *; intuition congruence
  end.
Ltac nd := repeat first [apply nodup_dset | apply nodup_ddel]; assumption.

(* what the override writes is read back, by the override's reader, as a dict with the same schema entries *)
Lemma ov_roundtrip S idk ov d0 : NoDup (map fst d0) -> (forall k, In k (map fst d0) -> In k (map f_name S)) ->
  wf_ov S idk ov = true -> ov_ok ov d0 = true -> dmem d0 idk = true ->
  exists d, ov_write ov d0 = Some d /\ NoDup (map fst (ov_read ov d)) /\
    (forall k, In k (map f_name S) -> assoc_s (ov_read ov d) k = assoc_s d0 k) /\
    dmem d idk = true /\ (forall k, In k (map fst d) -> In k (map f_name S ++ ov_extra ov)).
Proof.
  intros Hnd Hkeys Hwf Hok Hid. destruct ov as [|tk cv|ak pk ok tk lk ask sk link dp ds].
  - exists d0. cbn [ov_write ov_read ov_extra]. rewrite app_nil_r. auto.
  - cbn [wf_ov] in Hwf. apply negb_true_iff in Hwf.
    cbn [ov_ok] in Hok. destruct (assoc_s d0 tk) as [[[| z | | |]|]|] eqn:Et; try discriminate. apply Z.eqb_eq in Hok. subst z.
    exists (ddel d0 tk). cbn [ov_write ov_read ov_extra]. rewrite app_nil_r.
    assert (Hm : dmem (ddel d0 tk) tk = false) by (unfold dmem; rewrite assoc_ddel by exact Hnd; now rewrite str_eqb_refl).
    rewrite Hm. repeat split.
    + nd.
    + intros k _. rewrite assoc_dset, assoc_ddel by exact Hnd. destruct (str_eqb tk k) eqn:E; [|reflexivity].
      apply str_eqb_eq in E. subst. now rewrite Et.
    + unfold dmem in *. rewrite assoc_ddel by exact Hnd. now rewrite Hwf.
    + intros k Hk. apply Hkeys. now apply keys_ddel in Hk.
  - cbn [wf_ov] in Hwf. apply andb_prop in Hwf as [Hwf Hlk]. apply andb_prop in Hwf as [Hn Hak].
    apply negb_true_iff in Hlk, Hak. apply nodup_str_spec in Hn.
    assert (E_ak_lk : str_eqb ak lk = false) by sneq. assert (E_ak_tk : str_eqb ak tk = false) by sneq.
    assert (E_ak_ask : str_eqb ak ask = false) by sneq. assert (E_ak_idk : str_eqb ak idk = false) by sneq.
    assert (E_sk_lk : str_eqb sk lk = false) by sneq. assert (E_pk_lk : str_eqb pk lk = false) by sneq.
    assert (E_sk_pk : str_eqb sk pk = false) by sneq. assert (E_pk_sk : str_eqb pk sk = false) by sneq.
    assert (E_sk_tk : str_eqb sk tk = false) by sneq. assert (E_pk_tk : str_eqb pk tk = false) by sneq.
    assert (E_lk_tk : str_eqb lk tk = false) by sneq. assert (E_ask_tk : str_eqb ask tk = false) by sneq.
    assert (E_sk_idk : str_eqb sk idk = false) by sneq. assert (E_pk_idk : str_eqb pk idk = false) by sneq.
    assert (E_lk_idk : str_eqb lk idk = false) by sneq. assert (E_ask_idk : str_eqb ask idk = false) by sneq.
    assert (E_lk_ask : str_eqb lk ask = false) by sneq. assert (E_ask_lk : str_eqb ask lk = false) by sneq.
    assert (Hlk0 : assoc_s d0 lk = None).
    { apply assoc_none. intros Hin. apply Hkeys in Hin. apply mem_str_spec in Hin. rewrite Hin in Hlk. discriminate. }
    cbn [ov_ok] in Hok. apply andb_prop in Hok as [Hperm Hok].
    destruct (assoc_s d0 pk) as [[|pm]|] eqn:Epk; try discriminate.
    unfold dmem in Hperm. destruct (assoc_s pm ok) as [o|] eqn:Eo; [|discriminate]. clear Hperm.
    cbn [ov_write ov_read ov_extra]. rewrite Epk, Eo.
    set (d1 := d_set d0 ak (LP o)).
    assert (Hnd1 : NoDup (map fst d1)) by (unfold d1; nd).
    assert (Etk1 : assoc_s d1 tk = assoc_s d0 tk) by (unfold d1; now rewrite assoc_dset, E_ak_tk).
    rewrite Etk1.
    destruct (match assoc_s d0 tk with Some (LP (LI z)) => (z =? link)%Z | _ => false end) eqn:Elink.
    + (* a link item *)
      apply andb_prop in Hok as [Hok Hds]. apply andb_prop in Hok as [Hask Hdp].
      destruct (assoc_s d0 sk) as [vs|] eqn:Esk; [|discriminate]. apply lval_eqb_eq in Hds, Hdp. subst vs.
      unfold dmem in Hask. destruct (assoc_s d0 ask) as [a|] eqn:Eask; [|discriminate]. clear Hask.
      assert (Eask1 : assoc_s d1 ask = Some a) by (unfold d1; now rewrite assoc_dset, E_ak_ask).
      rewrite Eask1.
      set (w := ddel (ddel (d_set (ddel d1 ask) lk a) pk) sk).
      assert (Hndw : NoDup (map fst w)) by (unfold w; nd).
      exists w. split; [reflexivity|].
      assert (Ewlk : assoc_s w lk = Some a).
      { unfold w. rewrite !assoc_ddel by nd. rewrite E_sk_lk, E_pk_lk, assoc_dset. now rewrite str_eqb_refl. }
      rewrite Ewlk.
      assert (Ewpk : dmem w pk = false).
      { unfold dmem, w. rewrite assoc_ddel by nd. rewrite E_sk_pk. rewrite assoc_ddel by nd. now rewrite str_eqb_refl. }
      rewrite Ewpk.
      assert (Ewsk : dmem (d_set w pk dp) sk = false).
      { unfold dmem. rewrite assoc_dset, E_pk_sk. unfold w. rewrite assoc_ddel by nd. now rewrite str_eqb_refl. }
      rewrite Ewsk.
      assert (Ewtk : dmem (d_set (d_set w pk dp) sk ds) tk = true).
      { unfold dmem. rewrite !assoc_dset, E_sk_tk, E_pk_tk. unfold w. rewrite !assoc_ddel by nd.
        rewrite E_sk_tk, E_pk_tk, assoc_dset, E_lk_tk. rewrite assoc_ddel by nd. rewrite E_ask_tk, Etk1.
        destruct (assoc_s d0 tk); [reflexivity | discriminate]. }
      rewrite Ewtk.
      set (e2 := d_set (d_set w pk dp) sk ds).
      assert (Hnde2 : NoDup (map fst e2)) by (unfold e2; nd).
      repeat split.
      * nd.
      * intros k Hk. assert (E_lk_k : str_eqb lk k = false) by (eapply notin_neq; eauto).
        assert (E_ak_k : str_eqb ak k = false) by (eapply notin_neq; eauto).
        rewrite assoc_dset. destruct (str_eqb ask k) eqn:E1; [apply str_eqb_eq in E1; now subst|].
        rewrite assoc_ddel by nd. rewrite E_lk_k. unfold e2. rewrite !assoc_dset.
        destruct (str_eqb sk k) eqn:E2; [apply str_eqb_eq in E2; now subst|].
        destruct (str_eqb pk k) eqn:E3; [apply str_eqb_eq in E3; subst; now rewrite Epk|].
        unfold w. rewrite !assoc_ddel by nd. rewrite E2, E3, assoc_dset, E_lk_k. rewrite assoc_ddel by nd.
        rewrite E1. unfold d1. now rewrite assoc_dset, E_ak_k.
      * unfold dmem, w. rewrite !assoc_ddel by nd. rewrite E_sk_idk, E_pk_idk, assoc_dset, E_lk_idk.
        rewrite assoc_ddel by nd. rewrite E_ask_idk. unfold d1. rewrite assoc_dset, E_ak_idk. exact Hid.
      * intros k Hk. unfold w in Hk. apply keys_ddel, keys_ddel, keys_dset in Hk. rewrite in_app_iff. cbn [In].
        destruct Hk as [Hk|Hk]; [|subst; tauto]. apply keys_ddel in Hk. unfold d1 in Hk. apply keys_dset in Hk.
        destruct Hk as [Hk|Hk]; [left; now apply Hkeys | subst; tauto].
    + (* any other item *)
      exists d1. split; [reflexivity|].
      assert (E1lk : assoc_s d1 lk = None) by (unfold d1; now rewrite assoc_dset, E_ak_lk).
      rewrite E1lk. repeat split.
      * exact Hnd1.
      * intros k Hk. assert (E_ak_k : str_eqb ak k = false) by (eapply notin_neq; eauto).
        unfold d1. now rewrite assoc_dset, E_ak_k.
      * unfold dmem, d1. rewrite assoc_dset, E_ak_idk. exact Hid.
      * intros k Hk. unfold d1 in Hk. apply keys_dset in Hk. rewrite in_app_iff. cbn [In].
        destruct Hk as [Hk|Hk]; [left; now apply Hkeys | subst; tauto].
Qed.

(* ================= one node through an LLSD flavour ================= *)

Lemma class_llsd_roundtrip fl c r : wf_class_llsd fl c = true -> length r = c_arity c ->
  dom_llsd fl (c_llsd fl c) (permute None (c_perm fl c) r) = true ->
  match fl with Legacy => true | Ais => ov_ok (c_ov c) (to_llsd fl (c_llsd fl c) (permute None (c_perm fl c) r)) end = true ->
  exists d, class_to_llsd fl c r = Some d /\ class_from_llsd fl c d = Some r /\ dmem d (c_id fl c) = true /\
            (forall k, In k (map fst d) -> In k (allowed_keys fl c)).
Proof.
  intros Hwf Hlen Hdom Hov. unfold wf_class_llsd in Hwf.
  apply andb_prop in Hwf as [Hwf Hwov]. apply andb_prop in Hwf as [Hwf Hreq]. apply andb_prop in Hwf as [Hk Hcov].
  set (S := c_llsd fl c) in *. set (pr := permute None (c_perm fl c) r) in *. set (d0 := to_llsd fl S pr) in *.
  assert (HndS : NoDup (map f_name S)).
  { unfold wf_keys in Hk. apply andb_prop in Hk as [Hk _]. now apply nodup_str_spec. }
  assert (Hnd0 : NoDup (map fst d0)) by (apply to_llsd_nodup; exact HndS).
  assert (Hkeys0 : forall k, In k (map fst d0) -> In k (map f_name S)) by (intros k; apply to_llsd_keys).
  assert (Hid0 : dmem d0 (c_id fl c) = true) by (apply required_present; assumption).
  assert (Hun : unpermute None (c_perm fl c) pr = r) by (apply unpermute_permute; rewrite Hlen; exact Hcov).
  unfold class_to_llsd, class_from_llsd, allowed_keys. fold S pr d0. destruct fl.
  - exists d0. rewrite app_nil_r. repeat split; auto.
    rewrite (from_llsd_ext Legacy S pr d0 Hk Hdom Hnd0 (fun k _ => eq_refl)). cbn [option_map]. now rewrite Hun.
  - destruct (ov_roundtrip S (c_id Ais c) (c_ov c) d0 Hnd0 Hkeys0 Hwov Hov Hid0) as (d & Hw & Hndr & Hsame & Hidd & Hkd).
    exists d. repeat split; auto.
    rewrite (from_llsd_ext Ais S pr _ Hk Hdom Hndr Hsame). cbn [option_map]. now rewrite Hun.
Qed.

(* ================= whole models through an LLSD flavour ================= *)

Lemma find_id_nth fl T : wf_dispatch fl T = true -> forall i c d i0, nth_error T i = Some c ->
  dmem d (c_id fl c) = true -> (forall k, In k (map fst d) -> In k (allowed_keys fl c)) ->
  find_id fl T d i0 = Some ((i0 + i)%nat, c).
Proof.
  induction T as [|c0 T IH]; intros Hwf i c d i0 Hi Hid Hkeys; [destruct i; discriminate|].
  cbn [wf_dispatch] in Hwf. apply andb_prop in Hwf as [H0 Hwf]. destruct i as [|i]; cbn in Hi.
  - inversion Hi; subst. cbn [find_id]. rewrite Hid, Nat.add_0_r. reflexivity.
  - cbn [find_id]. destruct (dmem d (c_id fl c0)) eqn:E.
    + exfalso. apply dmem_in, Hkeys in E. rewrite forallb_forall in H0.
      specialize (H0 c (nth_error_In _ _ Hi)). apply negb_true_iff in H0. apply mem_str_spec in E. congruence.
    + rewrite (IH Hwf i c d (Datatypes.S i0) Hi Hid Hkeys). f_equal. f_equal. lia.
Qed.

Lemma llsd_go_nodes fl T : wf_table_llsd fl T = true -> forall ns m, forallb (node_ok_llsd fl T) ns = true ->
  exists ds, map_opt (node_to_llsd fl T) ns = Some ds /\ llsd_go fl T ds m = add_all T m ns.
Proof.
  intros Hwf. unfold wf_table_llsd in Hwf. apply andb_prop in Hwf as [Hcls Hdisp].
  induction ns as [|n ns IH]; intros m Hok; [exists []; split; reflexivity|].
  cbn [forallb] in Hok. apply andb_prop in Hok as [Hn Hok].
  unfold node_ok_llsd in Hn. destruct (nth_error T (fst n)) as [c|] eqn:Hc; [|discriminate].
  apply andb_prop in Hn as [Hn Hov]. apply andb_prop in Hn as [Hlen Hdom]. apply Nat.eqb_eq in Hlen.
  assert (Hwc : wf_class_llsd fl c = true) by (rewrite forallb_forall in Hcls; apply Hcls; eapply nth_error_In; eauto).
  destruct (class_llsd_roundtrip fl c (snd n) Hwc Hlen Hdom) as (d & Hw & Hr & Hid & Hkeys); [destruct fl; auto|].
  cbn [map_opt add_all]. unfold node_to_llsd at 1. rewrite Hc, Hw.
  destruct (inv_add T m n) as [m1|] eqn:Ea.
  - destruct (IH m1 Hok) as (ds & Hds & Hgo). rewrite Hds. exists (d :: ds). split; [reflexivity|].
    cbn [llsd_go]. rewrite (find_id_nth fl T Hdisp _ _ d 0%nat Hc Hid Hkeys). cbn [Nat.add]. rewrite Hr.
    destruct n as [i rc]. cbn [fst snd] in *. now rewrite Ea.
  - destruct (IH m Hok) as (ds & Hds & _). rewrite Hds. exists (d :: ds). split; [reflexivity|].
    cbn [llsd_go]. rewrite (find_id_nth fl T Hdisp _ _ d 0%nat Hc Hid Hkeys). cbn [Nat.add]. rewrite Hr.
    destruct n as [i rc]. cbn [fst snd] in *. now rewrite Ea.
Qed.

(* InventoryModel.from_llsd(m.to_llsd(flavor), flavor), both flavours *)
Theorem model_llsd_roundtrip fl T m : wf_table_llsd fl T = true ->
  forallb (node_ok_llsd fl T) (svalues m) = true -> ids_distinct T (svalues m) = true ->
  exists ds m', model_to_llsd fl T m = Some ds /\ model_from_llsd fl T ds = Some m' /\
    svalues m' = ordered T (svalues m) /\ skeys m' = map (node_key T) (ordered T (svalues m)) /\
    s_root m' = root_of T (ordered T (svalues m)) /\ model_eq m' m.
Proof.
  intros Hwf Hok Hid. set (ns := ordered T (svalues m)).
  assert (Hok' : forallb (node_ok_llsd fl T) ns = true).
  { apply forallb_forall. intros n Hn. rewrite forallb_forall in Hok. apply Hok. now apply in_ordered in Hn. }
  destruct (llsd_go_nodes fl T Hwf ns empty_store Hok') as (ds & Hds & Hgo).
  exists ds, (mkStore (entries T ns) (root_of T ns)). unfold model_to_llsd, model_from_llsd. fold ns.
  split; [exact Hds|]. rewrite Hgo, add_all_ok by (cbn; now apply ids_distinct_ordered).
  cbn [empty_store s_nodes s_root app]. split; [reflexivity|].
  unfold svalues, skeys. cbn [s_nodes s_root]. rewrite values_entries, keys_entries.
  repeat split; try reflexivity; unfold svalues; cbn [s_nodes]; rewrite values_entries; intros Hn.
  - now apply in_ordered in Hn.
  - apply in_ordered. exact Hn.
Qed.

Theorem model_llsd_dup_ids fl T m : wf_table_llsd fl T = true ->
  forallb (node_ok_llsd fl T) (svalues m) = true -> ids_distinct T (svalues m) = false ->
  exists ds, model_to_llsd fl T m = Some ds /\ model_from_llsd fl T ds = None.
Proof.
  intros Hwf Hok Hid. set (ns := ordered T (svalues m)).
  assert (Hok' : forallb (node_ok_llsd fl T) ns = true).
  { apply forallb_forall. intros n Hn. rewrite forallb_forall in Hok. apply Hok. now apply in_ordered in Hn. }
  destruct (llsd_go_nodes fl T Hwf ns empty_store Hok') as (ds & Hds & Hgo).
  exists ds. unfold model_to_llsd, model_from_llsd. fold ns. split; [exact Hds|]. rewrite Hgo.
  apply add_all_dup; [|constructor]. cbn. intros Hnd.
  assert (ids_distinct T (svalues m) = true); [|congruence].
  unfold ids_distinct. apply nodup_keys_spec. eapply Permutation_NoDup; [|exact Hnd].
  apply Permutation_map. apply ordered_perm.
Qed.

(* ================= models built with add() ================= *)

Lemma add_all_values T ns : forall m m', add_all T m ns = Some m' -> svalues m' = svalues m ++ ns.
Proof.
  induction ns as [|n ns IH]; intros m m' H; cbn [add_all] in H; [inversion H; now rewrite app_nil_r|].
  destruct (inv_add T m n) as [m1|] eqn:E; [|discriminate]. rewrite (IH m1 m' H).
  unfold inv_add in E. destruct (existsb _ _); [discriminate|]. inversion E; subst.
  unfold svalues. cbn [s_nodes]. rewrite map_app. cbn [map snd]. now rewrite <- app_assoc.
Qed.

(* whatever is built from the empty model with add() alone has its nodes in insertion order under their own ids,
   pairwise distinct: the model-level hypothesis of the round-trip theorems holds for it *)
Theorem built_by_add T ns m : add_all T empty_store ns = Some m ->
  svalues m = ns /\ consistent T m = true /\ ids_distinct T (svalues m) = true.
Proof.
  intros H. split; [exact (add_all_values T ns empty_store m H)|].
  assert (Hc : consistent T m = true) by (eapply add_all_consistent; [apply consistent_empty | exact H]).
  split; [exact Hc | now apply consistent_ids].
Qed.
