(* Shared byte-level vocabulary: a byte is an [N] below 256; fixed-width
   little/big-endian integers, two's complement, and a length-checked reader.
   Stdlib only, closed under the global context. *)
From Coq Require Import NArith ZArith List Bool Lia ZifyBool ZifyNat ZifyN.
Import ListNotations.
Open Scope N_scope.

Definition bytes_okb (l : list N) : bool := forallb (fun b => b <? 256) l.

Lemma bytes_okb_app a b : bytes_okb (a ++ b) = bytes_okb a && bytes_okb b.
Proof. apply forallb_app. Qed.

Lemma bytes_okb_cons x l : bytes_okb (x :: l) = (x <? 256) && bytes_okb l.
Proof. reflexivity. Qed.

Lemma bytes_okb_rev l : bytes_okb (rev l) = bytes_okb l.
Proof.
  induction l as [|x l IH]; [reflexivity|].
  cbn [rev]. rewrite bytes_okb_app, IH. cbn. rewrite andb_true_r. apply andb_comm.
Qed.

Lemma bytes_okb_firstn n l : bytes_okb l = true -> bytes_okb (firstn n l) = true.
Proof.
  revert l; induction n as [|n IH]; intros [|x l] H; try reflexivity.
  cbn in *. apply andb_prop in H as [H1 H2]. rewrite H1. cbn. apply IH, H2.
Qed.

Lemma bytes_okb_skipn n l : bytes_okb l = true -> bytes_okb (skipn n l) = true.
Proof.
  revert l; induction n as [|n IH]; intros [|x l] H; try reflexivity; try exact H.
  cbn in *. apply andb_prop in H as [_ H2]. apply IH, H2.
Qed.

(* ---------- unsigned fixed-width integers ---------- *)

Fixpoint le_bytes (n : nat) (v : N) : list N :=
  match n with
  | O => []
  | S k => (v mod 256) :: le_bytes k (v / 256)
  end.

Fixpoint of_le (l : list N) : N :=
  match l with
  | [] => 0
  | b :: r => b + 256 * of_le r
  end.

Definition be_bytes (n : nat) (v : N) : list N := rev (le_bytes n v).
Definition of_be (l : list N) : N := of_le (rev l).

Lemma le_bytes_length n v : length (le_bytes n v) = n.
Proof. revert v; induction n as [|n IH]; intros v; cbn; [reflexivity|]. now rewrite IH. Qed.

Lemma be_bytes_length n v : length (be_bytes n v) = n.
Proof. unfold be_bytes. rewrite rev_length. apply le_bytes_length. Qed.

Lemma le_bytes_ok n v : bytes_okb (le_bytes n v) = true.
Proof.
  revert v; induction n as [|n IH]; intros v; [reflexivity|].
  cbn [le_bytes]. rewrite bytes_okb_cons, IH.
  assert (v mod 256 < 256) by (apply N.mod_lt; lia).
  replace (v mod 256 <? 256) with true by lia. reflexivity.
Qed.

Lemma be_bytes_ok n v : bytes_okb (be_bytes n v) = true.
Proof. unfold be_bytes. rewrite bytes_okb_rev. apply le_bytes_ok. Qed.

Lemma of_le_le_bytes n v : v < 256 ^ N.of_nat n -> of_le (le_bytes n v) = v.
Proof.
  revert v; induction n as [|n IH]; intros v H.
  - cbn in *. lia.
  - cbn [le_bytes of_le]. rewrite IH.
    + pose proof (N.div_mod v 256 ltac:(lia)). lia.
    + rewrite Nat2N.inj_succ, N.pow_succ_r' in H.
      apply N.div_lt_upper_bound; lia.
Qed.

Lemma of_be_be_bytes n v : v < 256 ^ N.of_nat n -> of_be (be_bytes n v) = v.
Proof. intros. unfold of_be, be_bytes. rewrite rev_involutive. now apply of_le_le_bytes. Qed.

Lemma of_le_bound l : bytes_okb l = true -> of_le l < 256 ^ N.of_nat (length l).
Proof.
  induction l as [|b r IH]; intros H.
  - cbn. lia.
  - rewrite bytes_okb_cons in H. apply andb_prop in H as [Hb Hr].
    specialize (IH Hr). cbn [of_le length].
    rewrite Nat2N.inj_succ, N.pow_succ_r'. lia.
Qed.

Lemma le_bytes_of_le l : bytes_okb l = true -> le_bytes (length l) (of_le l) = l.
Proof.
  induction l as [|b r IH]; intros H; [reflexivity|].
  rewrite bytes_okb_cons in H. apply andb_prop in H as [Hb Hr].
  cbn [length le_bytes of_le].
  assert (Hlt : b < 256) by lia.
  assert (Hm : (b + 256 * of_le r) mod 256 = b).
  { replace (b + 256 * of_le r) with (b + of_le r * 256) by lia.
    rewrite N.mod_add by lia. apply N.mod_small; lia. }
  assert (Hd : (b + 256 * of_le r) / 256 = of_le r).
  { replace (b + 256 * of_le r) with (b + of_le r * 256) by lia.
    rewrite N.div_add by lia. rewrite (N.div_small b 256) by lia. lia. }
  rewrite Hm, Hd.
  now rewrite IH.
Qed.

Lemma be_bytes_of_be l : bytes_okb l = true -> be_bytes (length l) (of_be l) = l.
Proof.
  intros H. unfold be_bytes, of_be.
  rewrite <- (rev_length l), le_bytes_of_le by (now rewrite bytes_okb_rev).
  apply rev_involutive.
Qed.

(* ---------- two's complement ---------- *)

Definition to_signed (n : nat) (u : N) : Z :=
  if u <? 2 ^ (8 * N.of_nat n - 1) then Z.of_N u else (Z.of_N u - 2 ^ (8 * Z.of_nat n))%Z.

Definition of_signed (n : nat) (z : Z) : N := Z.to_N (z mod 2 ^ (8 * Z.of_nat n)).

Definition signed_range (n : nat) (z : Z) : Prop :=
  (- 2 ^ (8 * Z.of_nat n - 1) <= z < 2 ^ (8 * Z.of_nat n - 1))%Z.

Lemma pow256_pow2 n : 256 ^ N.of_nat n = 2 ^ (8 * N.of_nat n).
Proof. change 256 with (2 ^ 8). now rewrite <- N.pow_mul_r. Qed.

Lemma of_signed_lt n z : (0 < n)%nat -> of_signed n z < 256 ^ N.of_nat n.
Proof.
  intros Hn. unfold of_signed. rewrite pow256_pow2.
  assert (0 < 2 ^ (8 * Z.of_nat n))%Z by (apply Z.pow_pos_nonneg; lia).
  pose proof (Z.mod_pos_bound z (2 ^ (8 * Z.of_nat n)) ltac:(lia)).
  apply N2Z.inj_lt. rewrite Z2N.id by lia. rewrite N2Z.inj_pow.
  replace (Z.of_N (8 * N.of_nat n)) with (8 * Z.of_nat n)%Z by lia. change (Z.of_N 2) with 2%Z. lia.
Qed.

Lemma to_of_signed n z : (0 < n)%nat -> signed_range n z -> to_signed n (of_signed n z) = z.
Proof.
  intros Hn [Hlo Hhi]. unfold to_signed, of_signed.
  set (W := (2 ^ (8 * Z.of_nat n))%Z) in *.
  assert (HW : (W = 2 * 2 ^ (8 * Z.of_nat n - 1))%Z).
  { subst W. rewrite <- Z.pow_succ_r by lia. f_equal. lia. }
  assert (Hpos : (0 < 2 ^ (8 * Z.of_nat n - 1))%Z) by (apply Z.pow_pos_nonneg; lia).
  assert (Hhalf : Z.of_N (2 ^ (8 * N.of_nat n - 1)) = (2 ^ (8 * Z.of_nat n - 1))%Z).
  { rewrite N2Z.inj_pow. f_equal. lia. }
  destruct (Z_lt_ge_dec z 0) as [Hneg|Hnn].
  - assert (Hm : (z mod W = z + W)%Z).
    { symmetry. apply (Z.mod_unique z W (-1) (z + W)); lia. }
    rewrite Hm.
    destruct (Z.to_N (z + W) <? 2 ^ (8 * N.of_nat n - 1)) eqn:E.
    + exfalso. apply N.ltb_lt in E. apply N2Z.inj_lt in E. rewrite Z2N.id in E by lia. lia.
    + rewrite Z2N.id by lia. lia.
  - assert (Hm : (z mod W = z)%Z) by (apply Z.mod_small; lia).
    rewrite Hm.
    destruct (Z.to_N z <? 2 ^ (8 * N.of_nat n - 1)) eqn:E.
    + rewrite Z2N.id by lia. reflexivity.
    + exfalso. apply N.ltb_ge in E. apply N2Z.inj_le in E. rewrite Z2N.id in E by lia. lia.
Qed.

Lemma of_to_signed n u : (0 < n)%nat -> u < 256 ^ N.of_nat n -> of_signed n (to_signed n u) = u.
Proof.
  intros Hn Hu. rewrite pow256_pow2 in Hu. unfold to_signed, of_signed.
  set (W := (2 ^ (8 * Z.of_nat n))%Z).
  assert (HWN : Z.of_N (2 ^ (8 * N.of_nat n)) = W).
  { subst W. rewrite N2Z.inj_pow. f_equal. lia. }
  assert (0 < W)%Z by (subst W; apply Z.pow_pos_nonneg; lia).
  assert (Hu' : (Z.of_N u < W)%Z) by lia.
  destruct (u <? 2 ^ (8 * N.of_nat n - 1)).
  - rewrite Z.mod_small by lia. lia.
  - replace ((Z.of_N u - W) mod W)%Z with (Z.of_N u).
    + lia.
    + apply (Z.mod_unique (Z.of_N u - W) W (-1) (Z.of_N u)); lia.
Qed.

Lemma to_signed_range n u : (0 < n)%nat -> u < 256 ^ N.of_nat n -> signed_range n (to_signed n u).
Proof.
  intros Hn Hu. rewrite pow256_pow2 in Hu. unfold to_signed, signed_range.
  assert (HW : (2 ^ (8 * Z.of_nat n) = 2 * 2 ^ (8 * Z.of_nat n - 1))%Z).
  { rewrite <- Z.pow_succ_r by lia. f_equal. lia. }
  assert (Hpos : (0 < 2 ^ (8 * Z.of_nat n - 1))%Z) by (apply Z.pow_pos_nonneg; lia).
  assert (Hhalf : Z.of_N (2 ^ (8 * N.of_nat n - 1)) = (2 ^ (8 * Z.of_nat n - 1))%Z).
  { rewrite N2Z.inj_pow. f_equal. lia. }
  assert (HWN : Z.of_N (2 ^ (8 * N.of_nat n)) = (2 ^ (8 * Z.of_nat n))%Z).
  { rewrite N2Z.inj_pow. f_equal. lia. }
  destruct (u <? 2 ^ (8 * N.of_nat n - 1)) eqn:E.
  - apply N.ltb_lt in E. lia.
  - apply N.ltb_ge in E. lia.
Qed.

(* ---------- length-checked reader ---------- *)

Definition take (n : nat) (l : list N) : option (list N * list N) :=
  if (length l <? n)%nat then None else Some (firstn n l, skipn n l).

Lemma take_app a r : take (length a) (a ++ r) = Some (a, r).
Proof.
  unfold take. rewrite app_length.
  replace (length a + length r <? length a)%nat with false by lia.
  rewrite firstn_app, Nat.sub_diag, firstn_all, skipn_app, Nat.sub_diag, skipn_all. cbn.
  now rewrite app_nil_r.
Qed.

Lemma take_app_n n a r : length a = n -> take n (a ++ r) = Some (a, r).
Proof. intros <-. apply take_app. Qed.

Lemma take_some n l a r : take n l = Some (a, r) -> l = a ++ r /\ length a = n.
Proof.
  unfold take. destruct (length l <? n)%nat eqn:E; [discriminate|].
  intros H; injection H as <- <-. split.
  - symmetry. apply firstn_skipn.
  - apply firstn_length_le. lia.
Qed.

Lemma take_none n l : take n l = None <-> (length l < n)%nat.
Proof. unfold take. destruct (length l <? n)%nat eqn:E; split; intros; try discriminate; try lia; reflexivity. Qed.
