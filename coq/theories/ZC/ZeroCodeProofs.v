From Coq Require Import NArith List Bool Lia ZifyBool ZifyNat ZifyN.
From HV Require Import ZC.ZeroCode.
Import ListNotations.
Open Scope N_scope.

(* ---------- small facts about [zeros] ---------- *)

Lemma zeros_0 : zeros 0 = [].
Proof. reflexivity. Qed.

Lemma zeros_succ n : zeros (n + 1) = 0 :: zeros n.
Proof.
  unfold zeros. replace (N.to_nat (n + 1)) with (S (N.to_nat n)) by lia.
  reflexivity.
Qed.

Lemma zeros_app a b : zeros a ++ zeros b = zeros (a + b).
Proof.
  unfold zeros. rewrite <- repeat_app. f_equal. lia.
Qed.

Lemma zeros_snoc n : zeros n ++ [0] = zeros (n + 1).
Proof.
  change [0] with (zeros 1). apply zeros_app.
Qed.

Lemma zeros_cons_app n l : zeros n ++ 0 :: l = zeros (n + 1) ++ l.
Proof.
  rewrite <- zeros_snoc, <- app_assoc. reflexivity.
Qed.

Lemma zeros_length n : N.of_nat (length (zeros n)) = n.
Proof. unfold zeros. rewrite repeat_length. lia. Qed.

Lemma zeros_bytes n : bytes_ok (zeros n) = true.
Proof.
  unfold zeros. induction (N.to_nat n) as [|k IH]; [reflexivity|].
  cbn. exact IH.
Qed.

Lemma bytes_ok_app a b : bytes_ok (a ++ b) = bytes_ok a && bytes_ok b.
Proof. apply forallb_app. Qed.

(* ---------- expand (no cap) inverts compress ---------- *)

(* Loop invariant linking the two loops: when the compressor holds a pending
   run of [zc] zeros (1 <= zc <= 254) it has already emitted the 00 marker, the
   expander has already emitted one zero for it and is [in_zero]. *)
Lemma nocap_comp_gen : forall s zc,
  bytes_ok s = true -> zc <= 254 ->
  zc_exp_nocap (negb (zc =? 0)) (zc_comp zc s) = zeros (zc - 1) ++ s.
Proof.
  induction s as [|c r IH]; intros zc Hb Hz.
  - cbn [zc_comp]. unfold term_zeros.
    destruct (zc =? 0) eqn:E.
    + assert (zc = 0) by lia; subst. reflexivity.
    + cbn [zc_exp_nocap negb]. unfold exp_chunk. rewrite E.
      rewrite !app_nil_r. reflexivity.
  - cbn [bytes_ok forallb] in Hb. apply andb_prop in Hb as [Hc Hr].
    fold (bytes_ok r) in Hr.
    assert (IH0 : zc_exp_nocap false (zc_comp 0 r) = r)
      by (apply (IH 0 Hr); lia).
    cbn [zc_comp]. destruct (c =? 0) eqn:Ec.
    + assert (c = 0) by lia; subst c. cbv zeta.
      destruct (zc + 1 =? 1) eqn:E1.
      * assert (zc = 0) by lia; subst zc.
        assert (IH1 : zc_exp_nocap true (zc_comp 1 r) = r)
          by (apply (IH 1 Hr); lia).
        change (0 + 1) with 1. change (negb (0 =? 0)) with false.
        change (zeros (0 - 1)) with (@nil N).
        cbn [zc_exp_nocap app]. unfold exp_chunk, exp_inz.
        change (0 =? 0) with true. cbv iota. rewrite IH1. reflexivity.
      * destruct (zc + 1 =? 255) eqn:E2.
        -- assert (zc = 254) by lia; subst zc.
           change (254 + 1) with 255. change (negb (254 =? 0)) with true.
           unfold term_zeros. change (255 =? 0) with false. cbv iota.
           cbn [app zc_exp_nocap]. unfold exp_chunk, exp_inz.
           change (255 =? 0) with false. cbv iota. rewrite IH0.
           change (255 - 1) with (253 + 1). change (254 - 1) with 253.
           rewrite zeros_cons_app. reflexivity.
        -- specialize (IH (zc + 1) Hr ltac:(lia)).
           replace (zc + 1 =? 0) with false in IH by lia.
           replace (zc =? 0) with false by lia.
           rewrite IH. replace (zc + 1 - 1) with (zc - 1 + 1) by lia.
           rewrite zeros_cons_app. reflexivity.
    + unfold term_zeros.
      destruct (zc =? 0) eqn:Ez.
      * assert (zc = 0) by lia; subst zc. cbn [app negb zc_exp_nocap].
        unfold exp_chunk, exp_inz. rewrite Ec. rewrite IH0. reflexivity.
      * cbn [app negb zc_exp_nocap]. unfold exp_chunk, exp_inz.
        rewrite Ez, Ec. cbn [app]. rewrite IH0. reflexivity.
Qed.

Lemma nocap_compress s :
  bytes_ok s = true -> zc_exp_nocap false (zc_compress s) = s.
Proof.
  intros Hb. apply (nocap_comp_gen s 0 Hb). lia.
Qed.

(* ---------- the capped loop vs the uncapped one ---------- *)

Lemma exp_sound : forall l len inz r,
  zc_exp len inz l = Some r -> r = zc_exp_nocap inz l.
Proof.
  induction l as [|c t IH]; intros len inz r H; cbn [zc_exp zc_exp_nocap] in *.
  - congruence.
  - destruct (ZC_CAP <? len); [discriminate|].
    destruct (zc_exp _ _ t) as [out|] eqn:E; [|discriminate].
    apply IH in E. congruence.
Qed.

Lemma exp_complete : forall l len inz,
  len + N.of_nat (length (zc_exp_nocap inz l)) <= ZC_CAP ->
  zc_exp len inz l = Some (zc_exp_nocap inz l).
Proof.
  induction l as [|c t IH]; intros len inz H; cbn [zc_exp zc_exp_nocap] in *.
  - reflexivity.
  - rewrite app_length in H.
    replace (ZC_CAP <? len) with false by lia.
    rewrite IH by lia. reflexivity.
Qed.

Lemma chunk_len inz c : c < 256 -> N.of_nat (length (exp_chunk inz c)) <= 256.
Proof.
  intros Hc. unfold exp_chunk.
  destruct (c =? 0); destruct inz; cbn [length];
    rewrite ?Nat2N.inj_succ, ?zeros_length; cbn; lia.
Qed.

Lemma exp_cap_gen : forall l len inz r,
  bytes_ok l = true ->
  zc_exp len inz l = Some r -> len <= ZC_CAP + 256 ->
  len + N.of_nat (length r) <= ZC_CAP + 256.
Proof.
  induction l as [|c t IH]; intros len inz r Hb H Hl; cbn [zc_exp] in H.
  - injection H as H; subst r. cbn [length]. lia.
  - cbn [bytes_ok forallb] in Hb. apply andb_prop in Hb as [Hc Ht].
    destruct (ZC_CAP <? len) eqn:E; [discriminate|].
    destruct (zc_exp _ _ t) as [out|] eqn:E2; [|discriminate].
    injection H as H; subst r.
    pose proof (chunk_len inz c ltac:(lia)) as Hk.
    apply IH in E2; [|exact Ht|lia].
    rewrite app_length. lia.
Qed.

(* ---------- reference semantics ---------- *)

Lemma nocap_ref : forall l,
  zc_exp_nocap false l = zc_ref l /\
  forall k, zeros (256 * k + 1) ++ zc_exp_nocap true l = zc_ref_run k l.
Proof.
  induction l as [|c t [IH1 IH2]]; split; intros; cbn [zc_exp_nocap zc_ref zc_ref_run].
  - reflexivity.
  - apply app_nil_r.
  - unfold exp_chunk, exp_inz. destruct (c =? 0) eqn:E.
    + rewrite <- IH2. cbn [app N.mul N.add]. reflexivity.
    + rewrite IH1. reflexivity.
  - unfold exp_chunk, exp_inz. destruct (c =? 0) eqn:E.
    + rewrite <- IH2. change (0 :: zeros 255) with (zeros 256).
      rewrite !app_assoc, zeros_app. do 2 f_equal. lia.
    + rewrite IH1, app_assoc, zeros_app. do 2 f_equal. lia.
Qed.

(* ---------- canonical output ---------- *)

(* Simultaneous invariant: output from the idle state is canonical; with a run
   of [zc] zeros (1..254) pending, the output is a count byte n (zc<=n<=255)
   followed by canonical output that, when n<255, does not start a new run. *)
Lemma comp_canonical_inv : forall s,
  bytes_ok s = true ->
  canonical (zc_comp 0 s) = true /\
  forall zc, 1 <= zc <= 254 ->
    exists n rest, zc_comp zc s = n :: rest /\ zc <= n <= 255 /\
      (n < 255 -> starts_zero rest = false) /\ canonical rest = true.
Proof.
  induction s as [|c r IH]; intros Hb.
  - split; [reflexivity|]. intros zc Hz. exists zc, [].
    cbn [zc_comp]. unfold term_zeros. replace (zc =? 0) with false by lia.
    repeat split; auto; lia.
  - cbn [bytes_ok forallb] in Hb. apply andb_prop in Hb as [Hc Hr].
    fold (bytes_ok r) in Hr. destruct (IH Hr) as [IH1 IH2]. clear IH.
    split.
    + cbn [zc_comp]. destruct (c =? 0) eqn:Ec.
      * change (0 + 1) with 1. change (1 =? 1) with true. cbv zeta iota.
        destruct (IH2 1 ltac:(lia)) as (n & rest & Heq & Hn & Hs & Hcan).
        rewrite Heq. cbn [canonical]. change (0 =? 0) with true. cbv iota.
        replace (1 <=? n) with true by lia.
        replace (n <=? 255) with true by lia.
        rewrite Hcan. cbn [andb]. rewrite andb_true_r.
        destruct (n <? 255) eqn:E; [|reflexivity].
        rewrite Hs by lia. reflexivity.
      * cbn [term_zeros N.eqb app canonical]. rewrite Ec, Hc, IH1. reflexivity.
    + intros zc Hz. cbn [zc_comp]. destruct (c =? 0) eqn:Ec.
      * cbv zeta. replace (zc + 1 =? 1) with false by lia.
        destruct (zc + 1 =? 255) eqn:E2.
        -- exists 255, (zc_comp 0 r). unfold term_zeros.
           replace (zc + 1 =? 0) with false by lia.
           replace (zc + 1) with 255 by lia. cbn [app].
           repeat split; auto; lia.
        -- destruct (IH2 (zc + 1) ltac:(lia)) as (n & rest & Heq & Hn & Hs & Hcan).
           exists n, rest. repeat split; auto; lia.
      * exists zc, (c :: zc_comp 0 r). unfold term_zeros.
        replace (zc =? 0) with false by lia. cbn [app starts_zero canonical].
        rewrite Ec, Hc, IH1. repeat split; auto; lia.
Qed.

Lemma compress_canonical s :
  bytes_ok s = true -> canonical (zc_compress s) = true.
Proof. intros Hb. apply (comp_canonical_inv s Hb). Qed.

Lemma compress_bytes_gen : forall s zc,
  bytes_ok s = true -> zc <= 254 -> bytes_ok (zc_comp zc s) = true.
Proof.
  induction s as [|c r IH]; intros zc Hb Hz; cbn [zc_comp].
  - unfold term_zeros. destruct (zc =? 0) eqn:E; cbn; [reflexivity|]. lia.
  - cbn [bytes_ok forallb] in Hb. apply andb_prop in Hb as [Hc Hr].
    fold (bytes_ok r) in Hr.
    destruct (c =? 0) eqn:Ec.
    + cbv zeta. destruct (zc + 1 =? 1) eqn:E1.
      * cbn [bytes_ok forallb]. apply IH; [exact Hr|lia].
      * destruct (zc + 1 =? 255) eqn:E2.
        -- rewrite bytes_ok_app, IH by (auto; lia). unfold term_zeros.
           destruct (zc + 1 =? 0); cbn; lia.
        -- apply IH; [exact Hr|lia].
    + rewrite bytes_ok_app. unfold term_zeros.
      cbn [bytes_ok forallb]. fold (bytes_ok (zc_comp 0 r)).
      rewrite Hc, IH by (auto; lia).
      destruct (zc =? 0) eqn:E; cbn; lia.
Qed.

(* ---------- canonical encodings are exactly the compressor's outputs ---------- *)

Lemma comp_zeros_then : forall n zc s,
  zc + n <= 254 ->
  zc_comp zc (zeros n ++ s) = (if (zc =? 0) && negb (n =? 0) then [0] else []) ++ zc_comp (zc + n) s.
Proof.
  intros n. induction n as [|n IH] using N.peano_ind; intros zc s H.
  - rewrite zeros_0, N.add_0_r, andb_false_r. reflexivity.
  - replace (N.succ n) with (n + 1) by lia. rewrite zeros_succ.
    cbn [app zc_comp N.eqb]. cbv zeta.
    replace (zc + 1 =? 255) with false by lia.
    destruct (zc + 1 =? 1) eqn:E1.
    + assert (zc = 0) by lia; subst zc. cbn [N.add].
      rewrite IH by lia. cbn [N.eqb andb app].
      replace (n + 1 =? 0) with false by lia. cbn [negb app].
      replace (1 + n) with (n + 1) by lia. reflexivity.
    + rewrite IH by lia. replace (zc =? 0) with false by lia.
      replace (zc + 1 =? 0) with false by lia. cbn [andb app].
      f_equal. lia.
Qed.

Lemma canonical_compress_gen : forall fuel e,
  (length e <= fuel)%nat ->
  canonical e = true -> zc_compress (zc_exp_nocap false e) = e.
Proof.
  unfold zc_compress.
  induction fuel as [|fuel IH]; intros e Hl Hc.
  - destruct e; [reflexivity|cbn in Hl; lia].
  - destruct e as [|c r]; [reflexivity|].
    cbn [canonical] in Hc. cbn [length] in Hl.
    destruct (c =? 0) eqn:Ec.
    + assert (c = 0) by lia; subst c.
      destruct r as [|n r']; [discriminate|].
      apply andb_prop in Hc as [Hc Hc4]. apply andb_prop in Hc as [Hc Hc3].
      apply andb_prop in Hc as [Hc1 Hc2].
      cbn [zc_exp_nocap]. unfold exp_chunk, exp_inz. cbn [N.eqb].
      replace (n =? 0) with false by lia.
      change ([0] ++ zeros (n - 1) ++ zc_exp_nocap false r')
        with ((0 :: zeros (n - 1)) ++ zc_exp_nocap false r').
      rewrite <- zeros_succ. replace (n - 1 + 1) with n by lia.
      cbn [length] in Hl.
      assert (IHr : zc_comp 0 (zc_exp_nocap false r') = r') by (apply IH; [lia|exact Hc4]).
      destruct (n =? 255) eqn:E255.
      * assert (n = 255) by lia; subst n.
        change 255 with (254 + 1) at 1. rewrite <- zeros_app, <- app_assoc.
        rewrite comp_zeros_then by lia. cbn [N.eqb andb negb app N.add].
        change (zeros 1) with [0]. cbn [app zc_comp N.eqb]. cbv zeta.
        cbn [N.add N.eqb Pos.add Pos.succ Pos.eqb term_zeros app].
        rewrite IHr. reflexivity.
      * rewrite comp_zeros_then by lia. cbn [N.eqb andb N.add].
        replace (n =? 0) with false by lia. cbn [negb app].
        f_equal.
        replace (n <? 255) with true in Hc3 by lia.
        destruct r' as [|d r''].
        -- cbn [zc_exp_nocap zc_comp]. unfold term_zeros.
           replace (n =? 0) with false by lia. reflexivity.
        -- cbn [starts_zero] in Hc3.
           assert (Ed : (d =? 0) = false) by (destruct (d =? 0); [discriminate|reflexivity]).
           cbn [zc_exp_nocap] in *. unfold exp_chunk, exp_inz in *.
           rewrite Ed in *. cbn [app zc_comp] in *. rewrite Ed in *.
           unfold term_zeros in *. replace (n =? 0) with false by lia.
           cbn [N.eqb app] in *. f_equal. exact IHr.
    + apply andb_prop in Hc as [Hc1 Hc2].
      cbn [zc_exp_nocap]. unfold exp_chunk, exp_inz. rewrite Ec.
      cbn [app zc_comp]. rewrite Ec. cbn [term_zeros N.eqb app].
      f_equal. apply IH; [lia|exact Hc2].
Qed.

Lemma canonical_compress e :
  canonical e = true -> zc_compress (zc_exp_nocap false e) = e.
Proof. intros. eapply canonical_compress_gen; eauto. Qed.

(* ---------- header peek: expanding a prefix gives a prefix ---------- *)

Lemma nocap_firstn_prefix : forall e n inz,
  exists rest, zc_exp_nocap inz e = zc_exp_nocap inz (firstn n e) ++ rest.
Proof.
  induction e as [|c r IH]; intros n inz.
  - exists []. rewrite firstn_nil. reflexivity.
  - destruct n as [|n].
    + exists (zc_exp_nocap inz (c :: r)). reflexivity.
    + cbn [firstn zc_exp_nocap]. destruct (IH n (exp_inz c)) as [rest Hr].
      exists rest. rewrite Hr at 1. rewrite app_assoc. reflexivity.
Qed.

(* every pair of consecutive encoded bytes expands to at least one byte *)
Lemma nocap_growth : forall e inz,
  bytes_ok e = true ->
  (length e <= 2 * length (zc_exp_nocap inz e) + (if inz then 1 else 0))%nat.
Proof.
  induction e as [|c r IH]; intros inz Hb.
  - cbn. lia.
  - cbn [bytes_ok forallb] in Hb. apply andb_prop in Hb as [Hc Hr].
    fold (bytes_ok r) in Hr.
    cbn [zc_exp_nocap length]. rewrite app_length.
    specialize (IH (exp_inz c) Hr). unfold exp_chunk, exp_inz in *.
    destruct (c =? 0) eqn:E; destruct inz; cbn [length] in *; try lia.
Qed.

(* ---------- statements used by Props/C03.v ---------- *)

Lemma expand_compress s :
  bytes_ok s = true -> N.of_nat (length s) <= ZC_CAP ->
  zc_expand (zc_compress s) = Some s.
Proof.
  intros Hb Hl. unfold zc_expand.
  rewrite exp_complete; rewrite nocap_compress by exact Hb; [reflexivity|lia].
Qed.

Lemma expand_ref e r : zc_expand e = Some r -> r = zc_ref e.
Proof.
  intros H. apply exp_sound in H. subst r. apply nocap_ref.
Qed.

Lemma expand_defined e :
  N.of_nat (length (zc_ref e)) <= ZC_CAP -> zc_expand e = Some (zc_ref e).
Proof.
  intros H. unfold zc_expand. rewrite <- (proj1 (nocap_ref e)) in *.
  apply exp_complete. lia.
Qed.

Lemma expand_cap e r :
  bytes_ok e = true -> zc_expand e = Some r ->
  N.of_nat (length r) <= ZC_CAP + 256.
Proof.
  intros Hb H. pose proof (exp_cap_gen e 0 false r Hb H). lia.
Qed.

Lemma expand_refuses e :
  bytes_ok e = true -> ZC_CAP + 256 < N.of_nat (length (zc_ref e)) ->
  zc_expand e = None.
Proof.
  intros Hb Hl. destruct (zc_expand e) as [r|] eqn:E; [|reflexivity].
  pose proof (expand_cap e r Hb E). apply expand_ref in E. subst r. lia.
Qed.

Lemma canonical_unique e :
  canonical e = true -> zc_compress (zc_ref e) = e.
Proof.
  intros H. rewrite <- (proj1 (nocap_ref e)). apply canonical_compress, H.
Qed.

Lemma compress_bytes s : bytes_ok s = true -> bytes_ok (zc_compress s) = true.
Proof. intros. apply compress_bytes_gen; [assumption|lia]. Qed.

Lemma ref_prefix e n :
  exists rest, zc_ref e = zc_ref (firstn n e) ++ rest.
Proof.
  rewrite <- !(proj1 (nocap_ref _)). apply nocap_firstn_prefix.
Qed.

Lemma ref_growth e :
  bytes_ok e = true -> (length e <= 2 * length (zc_ref e))%nat.
Proof.
  intros Hb. rewrite <- (proj1 (nocap_ref e)).
  pose proof (nocap_growth e false Hb) as H. cbv iota in H. lia.
Qed.
