(* Model of UDPMessageSerializer.zero_code_compress and
   UDPMessageDeserializer.zero_code_expand
   (hippolyzer/lib/base/message/udpserializer.py, udpdeserializer.py).

   Definitions only; proofs are in ZeroCodeProofs.v so that the model still
   builds and runs (extraction, correspondence) when a proof breaks.

   A byte is an [N]; well-formedness ([< 256]) is a hypothesis of the theorems.
   Both Python loops only ever append to their output buffer, so the models
   produce the output front-to-back while carrying the loop state
   ([zero_count], resp. [in_zero] and [len(decode_buf)]) as arguments. *)
From Coq Require Import NArith List Bool.
Import ListNotations.
Open Scope N_scope.

Definition zeros (n : N) : list N := repeat 0 (N.to_nat n).

(* _terminate_zeros(): emits the pending count if there is one *)
Definition term_zeros (zc : N) : list N := if zc =? 0 then [] else [zc].

(* zero_code_compress: [zc] is the loop variable zero_count *)
Fixpoint zc_comp (zc : N) (l : list N) : list N :=
  match l with
  | [] => term_zeros zc
  | c :: r =>
      if c =? 0 then
        let zc' := zc + 1 in
        if zc' =? 1 then 0 :: zc_comp zc' r
        else if zc' =? 255 then term_zeros zc' ++ zc_comp 0 r
        else zc_comp zc' r
      else term_zeros zc ++ c :: zc_comp 0 r
  end.

Definition zc_compress (l : list N) : list N := zc_comp 0 l.

(* the bytes one loop iteration of zero_code_expand appends *)
Definition exp_chunk (inz : bool) (c : N) : list N :=
  if c =? 0 then 0 :: (if inz then zeros 255 else [])
  else if inz then zeros (c - 1) else [c].

Definition exp_inz (c : N) : bool := c =? 0.

Definition ZC_CAP : N := 12288. (* 0x3000 *)

(* zero_code_expand: [len] = len(decode_buf), [inz] = in_zero.
   None = ValueError("Unreasonably large zerocoded message") *)
Fixpoint zc_exp (len : N) (inz : bool) (l : list N) : option (list N) :=
  match l with
  | [] => Some []
  | c :: r =>
      if ZC_CAP <? len then None
      else
        let chunk := exp_chunk inz c in
        match zc_exp (len + N.of_nat (length chunk)) (exp_inz c) r with
        | Some out => Some (chunk ++ out)
        | None => None
        end
  end.

Definition zc_expand (l : list N) : option (list N) := zc_exp 0 false l.

(* the same loop without the size cap *)
Fixpoint zc_exp_nocap (inz : bool) (l : list N) : list N :=
  match l with
  | [] => []
  | c :: r => exp_chunk inz c ++ zc_exp_nocap (exp_inz c) r
  end.

(* Reference semantics of the format, by recursion on runs:
     00 (00)^k n   |-> 256k + n zeros   (n >= 1)
     00 (00)^k EOF |-> 256k + 1 zeros
     c (non-zero, outside a run) |-> c *)
Fixpoint zc_ref (l : list N) : list N :=
  match l with
  | [] => []
  | c :: r => if c =? 0 then zc_ref_run 0 r else c :: zc_ref r
  end
with zc_ref_run (k : N) (l : list N) : list N :=
  match l with
  | [] => zeros (256 * k + 1)
  | n :: r => if n =? 0 then zc_ref_run (k + 1) r
              else zeros (256 * k + n) ++ zc_ref r
  end.

(* Canonical encoder output: every 0 is followed by a count 1..255 (never by
   0, never by end of input), and a count below 255 is not followed by another
   zero run (the run it counts was maximal). *)
Definition starts_zero (l : list N) : bool :=
  match l with c :: _ => c =? 0 | [] => false end.

Fixpoint canonical (l : list N) : bool :=
  match l with
  | [] => true
  | c :: r =>
      if c =? 0 then
        match r with
        | [] => false
        | n :: r' =>
            (1 <=? n) && (n <=? 255)
            && (if n <? 255 then negb (starts_zero r') else true)
            && canonical r'
        end
      else (c <? 256) && canonical r
  end.

Definition bytes_ok (l : list N) : bool := forallb (fun b => b <? 256) l.
