(* Proofs about Http/CapData.v. *)
From Coq Require Import NArith List Bool Lia.
From HV Require Import Http.FlowOwner Http.CapData.
Import ListNotations.
Open Scope N_scope.

Lemma fold_last_acc : forall {A} (p : A -> bool) l a,
  fold_left (fun acc x => if p x then Some x else acc) l a =
  match fold_left (fun acc x => if p x then Some x else acc) l None with
  | Some x => Some x | None => a end.
Proof.
  intros A p l. induction l as [|x r IH]; intros a; cbn; [reflexivity|].
  destruct (p x).
  - rewrite (IH (Some x)).
    destruct (fold_left _ r None) eqn:E; reflexivity.
  - apply IH.
Qed.

Lemma find_last_app : forall {A} (p : A -> bool) l1 l2,
  find_last p (l1 ++ l2) =
  match find_last p l2 with Some x => Some x | None => find_last p l1 end.
Proof.
  intros A p l1 l2. unfold find_last. rewrite fold_left_app. apply fold_last_acc.
Qed.

Lemma find_last_none : forall {A} (p : A -> bool) l,
  (forall x, In x l -> p x = false) -> find_last p l = None.
Proof.
  intros A p l. induction l as [|x r IH] using rev_ind; intros H; [reflexivity|].
  rewrite find_last_app. cbn. unfold find_last at 1; cbn.
  rewrite (H x) by (apply in_or_app; right; left; reflexivity).
  apply IH. intros y Hy. apply H. apply in_or_app; left; exact Hy.
Qed.

(* unique keys: looking up the key of a member returns that member *)
Lemma find_last_unique : forall {A} (key : A -> N) l x,
  NoDup (map key l) -> In x l -> find_last (fun y => key y =? key x) l = Some x.
Proof.
  intros A key l. induction l as [|a r IH] using rev_ind; intros x Hnd Hin; [destruct Hin|].
  rewrite find_last_app. unfold find_last at 1; cbn.
  rewrite map_app in Hnd. cbn in Hnd.
  apply in_app_or in Hin as [Hin|[Hin|[]]].
  - (* x earlier: the last element has a different key *)
    assert (Hne : key a <> key x).
    { intros E. apply NoDup_remove_2 in Hnd. apply Hnd. rewrite app_nil_r.
      rewrite E. apply in_map. exact Hin. }
    apply N.eqb_neq in Hne. rewrite Hne.
    apply IH; auto. apply NoDup_remove_1 in Hnd. rewrite app_nil_r in Hnd. exact Hnd.
  - subst a. rewrite N.eqb_refl. reflexivity.
Qed.

Theorem capdata_roundtrip : forall sessions c,
  NoDup (map ss_id sessions) ->
  well_referenced sessions c ->
  deserialize (Some sessions) (serialize c) = c.
Proof.
  intros sessions [nm rg ss url ty] Hnd Hw. unfold well_referenced in Hw; cbn in Hw.
  unfold deserialize, serialize; cbn.
  destruct ss as [[s|]|]; cbn in *.
  - destruct Hw as [Hin Hr].
    rewrite (find_last_unique ss_id sessions s Hnd Hin). cbn.
    destruct rg as [[r|]|]; cbn in *.
    + destruct Hr as [Hrin Hrnd].
      rewrite (find_last_unique rg_addr (ss_regions s) r Hrnd Hrin). reflexivity.
    + destruct Hr.
    + reflexivity.
  - destruct Hw.
  - subst rg. reflexivity.
Qed.

(* without a session manager only the plain fields survive *)
Theorem capdata_roundtrip_no_mgr : forall c,
  deserialize None (serialize c) = mkCapData (cd_name c) None None (cd_url c) (cd_type c).
Proof. intros [nm rg ss url ty]; reflexivity. Qed.

(* name, URL and type always survive *)
Theorem capdata_plain_fields : forall mgr c,
  let c' := deserialize mgr (serialize c) in
  cd_name c' = cd_name c /\ cd_url c' = cd_url c /\ cd_type c' = cd_type c.
Proof. intros mgr [nm rg ss url ty]; cbn; auto. Qed.

(* the hypotheses are needed *)
Definition rA := mkRegion 1 10.
Definition rB := mkRegion 2 10.          (* same circuit address as rA *)
Definition sA := mkSession 1 100 [rA; rB].
Definition sB := mkSession 2 100 [].     (* same session id as sA *)

Lemma capdata_roundtrip_dup_session_refuted :
  exists sessions c, In sA sessions /\ cd_session c = Some (Some sA)
     /\ deserialize (Some sessions) (serialize c) <> c.
Proof.
  exists [sA; sB], (mkCapData (Some 7) None (Some (Some sA)) None TNormal).
  split; [left; reflexivity|]. split; [reflexivity|]. vm_compute. discriminate.
Qed.

Lemma capdata_roundtrip_dup_addr_refuted :
  exists sessions c, NoDup (map ss_id sessions) /\ cd_session c = Some (Some sA)
     /\ cd_region c = Some (Some rA) /\ In rA (ss_regions sA)
     /\ deserialize (Some sessions) (serialize c) <> c.
Proof.
  exists [sA], (mkCapData (Some 7) (Some (Some rA)) (Some (Some sA)) None TNormal).
  repeat split.
  - constructor; [intros []|constructor].
  - left; reflexivity.
  - vm_compute. discriminate.
Qed.

Lemma capdata_roundtrip_region_without_session_refuted :
  exists sessions c, cd_session c = None /\ cd_region c = Some (Some rA)
     /\ cd_region (deserialize (Some sessions) (serialize c)) = None.
Proof.
  exists [sA], (mkCapData (Some 7) (Some (Some rA)) None None TNormal). repeat split.
Qed.

(* ---- get_state / from_state ---------------------------------------------- *)

Section TransferProofs.
  Variables (O C S : Type).
  Variable mitm_get_state : C * meta O -> S.
  Variable mitm_from_state : S -> C * meta O.
  (* mitmproxy's own state transfer is the identity on what it carries *)
  Hypothesis mitm_roundtrip : forall x, mitm_from_state (mitm_get_state x) = x.

  Definition default {A} (o : option A) (d : A) : A := match o with Some x => x | None => d end.

  Theorem flags_preserved : forall mgr core m,
    let st := fst (get_state O C S mitm_get_state (core, m)) in
    let (core', m') := from_state O C S mitm_from_state mgr st in
    core' = core
    /\ m_can_stream m' = Some (default (m_can_stream m) true)
    /\ m_resp_inj m' = Some (default (m_resp_inj m) false)
    /\ m_req_inj m' = Some (default (m_req_inj m) false)
    /\ m_browser m' = Some (default (m_browser m) false)
    /\ m_other m' = m_other m
    /\ m_cap m' = Some (match m_cap m with
                        | Some (Some c) => Some (deserialize mgr (serialize c))
                        | _ => None end).
  Proof.
    intros mgr core m. cbn. unfold from_state. rewrite mitm_roundtrip. cbn.
    repeat split;
      try (destruct (m_can_stream m); reflexivity);
      try (destruct (m_resp_inj m); reflexivity);
      try (destruct (m_req_inj m); reflexivity);
      try (destruct (m_browser m); reflexivity).
    destruct (m_cap m) as [[c|]|]; reflexivity.
  Qed.

  (* a Hippolyzer-side flow (all flags set by __init__) whose cap data refers
     to live objects arrives unchanged *)
  Theorem state_intact : forall sessions core m cs ri qi br c,
    m_can_stream m = Some cs -> m_resp_inj m = Some ri -> m_req_inj m = Some qi ->
    m_browser m = Some br -> m_cap m = Some (Some c) ->
    NoDup (map ss_id sessions) -> well_referenced sessions c ->
    let st := fst (get_state O C S mitm_get_state (core, m)) in
    let (core', m') := from_state O C S mitm_from_state (Some sessions) st in
    core' = core /\ m_can_stream m' = Some cs /\ m_resp_inj m' = Some ri
    /\ m_req_inj m' = Some qi /\ m_browser m' = Some br /\ m_other m' = m_other m
    /\ m_cap m' = Some (Some c).
  Proof.
    intros sessions core m cs ri qi br c H1 H2 H3 H4 H5 Hnd Hw.
    pose proof (flags_preserved (Some sessions) core m) as H. cbv zeta in *.
    destruct (from_state O C S mitm_from_state (Some sessions) _) as [core' m'].
    destruct H as (E0 & E1 & E2 & E3 & E4 & E5 & E6).
    rewrite H1 in E1; rewrite H2 in E2; rewrite H3 in E3; rewrite H4 in E4; rewrite H5 in E6.
    rewrite (capdata_roundtrip sessions c Hnd Hw) in E6.
    repeat split; assumption.
  Qed.

  (* get_state leaves the sender's own flow with the same cap data and flags *)
  Theorem get_state_keeps_flow : forall core m,
    let (core', m') := snd (get_state O C S mitm_get_state (core, m)) in
    core' = core /\ m_can_stream m' = m_can_stream m /\ m_resp_inj m' = m_resp_inj m
    /\ m_req_inj m' = m_req_inj m /\ m_browser m' = m_browser m /\ m_other m' = m_other m
    /\ m_cap m' = Some (match m_cap m with Some (Some c) => Some c | _ => None end).
  Proof. intros core m; cbn. repeat split. Qed.
End TransferProofs.
