(* C16 - proofs about the capability model of Http/Caps.v *)
From Coq Require Import String Ascii List Bool Arith NArith Lia Permutation.
From HV Require Import Http.Caps.
Import ListNotations.

Lemma str_eqb_refl : forall a, str_eqb a a = true.
Proof. induction a as [|x a IH]; cbn; [reflexivity|]. rewrite Ascii.eqb_refl. exact IH. Qed.

Lemma str_eqb_eq : forall a b, str_eqb a b = true <-> a = b.
Proof.
  induction a as [|x a IH]; destruct b as [|y b]; cbn; split; intro H; try reflexivity; try discriminate.
  - apply andb_true_iff in H as [H1 H2]. apply Ascii.eqb_eq in H1. apply IH in H2. congruence.
  - inversion H; subst. rewrite Ascii.eqb_refl. cbn. apply IH. reflexivity.
Qed.

Lemma str_eqb_neq : forall a b, str_eqb a b = false <-> a <> b.
Proof.
  intros a b. split; intro H.
  - intro E. apply str_eqb_eq in E. congruence.
  - destruct (str_eqb a b) eqn:E; [|reflexivity]. apply str_eqb_eq in E. contradiction.
Qed.

Lemma str_eqb_sym : forall a b, str_eqb a b = str_eqb b a.
Proof.
  intros a b. destruct (str_eqb a b) eqn:E.
  - apply str_eqb_eq in E. subst. symmetry. apply str_eqb_refl.
  - destruct (str_eqb b a) eqn:E2; [|reflexivity]. apply str_eqb_eq in E2. subst.
    rewrite str_eqb_refl in E. discriminate.
Qed.

Lemma captype_eqb_eq : forall a b, captype_eqb a b = true <-> a = b.
Proof. destruct a, b; cbn; split; intro H; try reflexivity; try discriminate. Qed.

Lemma captype_eqb_refl : forall a, captype_eqb a a = true.
Proof. destruct a; reflexivity. Qed.

Lemma tu_eqb_eq : forall a b, tu_eqb a b = true <-> a = b.
Proof.
  intros [t u] [t' u']. unfold tu_eqb. cbn. rewrite andb_true_iff, captype_eqb_eq, str_eqb_eq.
  split; [intros [? ?]; subst; reflexivity | intro H; inversion H; auto].
Qed.

(* ---------- prefix ---------- *)

Lemma prefix_app : forall p s, prefix p (p ++ s) = true.
Proof. induction p as [|x p IH]; cbn; intros; [reflexivity|]. rewrite Ascii.eqb_refl. apply IH. Qed.

Lemma prefix_spec : forall p s, prefix p s = true <-> exists t, s = p ++ t.
Proof.
  induction p as [|x p IH]; intros s; cbn.
  - split; [intros _; exists s; reflexivity | reflexivity].
  - destruct s as [|y s].
    + split; [discriminate | intros [t Ht]; discriminate].
    + rewrite andb_true_iff, Ascii.eqb_eq, IH. split.
      * intros [-> [t ->]]. exists t. reflexivity.
      * intros [t Ht]. inversion Ht; subst. split; [reflexivity|]. exists t. reflexivity.
Qed.

(* two prefixes of the same string are comparable *)
Lemma prefix_comparable : forall a b s,
  prefix a s = true -> prefix b s = true -> prefix a b = true \/ prefix b a = true.
Proof.
  induction a as [|x a IH]; intros b s Ha Hb; [left; reflexivity|].
  destruct b as [|y b]; [right; reflexivity|].
  destruct s as [|z s]; [discriminate|]. cbn in *.
  apply andb_true_iff in Ha as [Ha1 Ha2]. apply andb_true_iff in Hb as [Hb1 Hb2].
  apply Ascii.eqb_eq in Ha1. apply Ascii.eqb_eq in Hb1. subst.
  rewrite Ascii.eqb_refl. cbn. eauto.
Qed.

Lemma prefix_refl : forall a, prefix a a = true.
Proof. intro a. rewrite <- (app_nil_r a) at 2. apply prefix_app. Qed.

Lemma prefix_trans : forall a b c, prefix a b = true -> prefix b c = true -> prefix a c = true.
Proof.
  intros a b c H1 H2. apply prefix_spec in H1 as [t ->]. apply prefix_spec in H2 as [t' ->].
  rewrite <- app_assoc. apply prefix_app.
Qed.

(* ---------- multidict ---------- *)

Lemma md_getall_app : forall k d1 d2, md_getall k (d1 ++ d2) = md_getall k d1 ++ md_getall k d2.
Proof. intros. unfold md_getall. rewrite filter_app, map_app. reflexivity. Qed.

Lemma md_getall_popall_same : forall k d, md_getall k (md_popall k d) = [].
Proof.
  intros k d. unfold md_getall, md_popall. induction d as [|e d IH]; cbn; [reflexivity|].
  destruct (str_eqb (fst e) k) eqn:E; cbn; [exact IH|]. rewrite E. exact IH.
Qed.

Lemma md_getall_popall_other : forall k k' d, k' <> k -> md_getall k' (md_popall k d) = md_getall k' d.
Proof.
  intros k k' d Hne. unfold md_getall, md_popall. induction d as [|e d IH]; cbn; [reflexivity|].
  destruct (str_eqb (fst e) k) eqn:E; cbn.
  - apply str_eqb_eq in E. destruct (str_eqb (fst e) k') eqn:E2.
    + apply str_eqb_eq in E2. congruence.
    + exact IH.
  - destruct (str_eqb (fst e) k'); cbn; [f_equal|]; exact IH.
Qed.

Lemma md_getall_map_same : forall k vs, md_getall k (map (pair k) vs) = vs.
Proof.
  intros k vs. unfold md_getall. induction vs as [|v vs IH]; cbn; [reflexivity|].
  rewrite str_eqb_refl. cbn. f_equal. exact IH.
Qed.

Lemma md_getall_map_other : forall k k' vs, k' <> k -> md_getall k' (map (pair k) vs) = [].
Proof.
  intros k k' vs Hne. unfold md_getall. induction vs as [|v vs IH]; cbn; [reflexivity|].
  destruct (str_eqb k k') eqn:E; [apply str_eqb_eq in E; congruence|]. exact IH.
Qed.

(* add: the new value comes first among the key's values; other keys are untouched *)
Lemma md_getall_add_same : forall k v d, md_getall k (md_add k v d) = v :: md_getall k d.
Proof.
  intros. unfold md_add. rewrite md_getall_app, md_getall_popall_same, md_getall_map_same. reflexivity.
Qed.

Lemma md_getall_add_other : forall k k' v d, k' <> k -> md_getall k' (md_add k v d) = md_getall k' d.
Proof.
  intros. unfold md_add. rewrite md_getall_app, md_getall_popall_other, md_getall_map_other by assumption.
  apply app_nil_r.
Qed.

Lemma md_get_add_same : forall k v d, md_get k (md_add k v d) = Some v.
Proof. intros. unfold md_get. rewrite md_getall_add_same. reflexivity. Qed.

Lemma md_get_add_other : forall k k' v d, k' <> k -> md_get k' (md_add k v d) = md_get k' d.
Proof. intros. unfold md_get. rewrite md_getall_add_other by assumption. reflexivity. Qed.

Lemma md_getall_In : forall k v d, In v (md_getall k d) <-> In (k, v) d.
Proof.
  intros k v d. unfold md_getall. rewrite in_map_iff. split.
  - intros [[k' v'] [Hv Hin]]. cbn in Hv. subst. apply filter_In in Hin as [Hin E]. cbn in E.
    apply str_eqb_eq in E. subst. exact Hin.
  - intro Hin. exists (k, v). split; [reflexivity|]. apply filter_In. split; [exact Hin|]. cbn. apply str_eqb_refl.
Qed.

Lemma md_popall_In : forall k e d, In e (md_popall k d) <-> In e d /\ fst e <> k.
Proof.
  intros. unfold md_popall. rewrite filter_In, negb_true_iff, str_eqb_neq. reflexivity.
Qed.

(* entries of md_add: exactly the old ones plus the new one *)
Lemma md_add_In : forall k v d e, In e (md_add k v d) <-> e = (k, v) \/ In e d.
Proof.
  intros k v d [k' v']. unfold md_add. rewrite in_app_iff, md_popall_In, in_map_iff. cbn. split.
  - intros [[H _]|[x [Hx [Hv|Hin]]]].
    + right. exact H.
    + left. subst. symmetry. exact Hx.
    + right. inversion Hx; subst. apply md_getall_In. exact Hin.
  - intros [H|H].
    + inversion H; subst. right. exists v. split; [reflexivity|]. left. reflexivity.
    + destruct (str_eqb k' k) eqn:E.
      * apply str_eqb_eq in E. subst. right. exists v'. split; [reflexivity|]. right. apply md_getall_In. exact H.
      * apply str_eqb_neq in E. left. split; assumption.
Qed.

(* ---------- remove_first ---------- *)

Lemma remove_first_In : forall {A} (eqb : A -> A -> bool) x y l, In y (remove_first eqb x l) -> In y l.
Proof.
  intros A eqb x y l. induction l as [|z l IH]; cbn; [tauto|].
  destruct (eqb z x); cbn; intuition.
Qed.

Lemma remove_first_other : forall {A} (eqb : A -> A -> bool) x y l,
  (forall a b, eqb a b = true <-> a = b) -> y <> x -> In y l -> In y (remove_first eqb x l).
Proof.
  intros A eqb x y l Heq Hne. induction l as [|z l IH]; cbn; [tauto|].
  intros [->|Hin].
  - destruct (eqb y x) eqn:E; [apply Heq in E; contradiction|]. left. reflexivity.
  - destruct (eqb z x); [exact Hin|]. right. apply IH. exact Hin.
Qed.

Lemma remove_first_count : forall {A} (eqb : A -> A -> bool) (dec : forall a b : A, {a = b} + {a <> b}) x l,
  (forall a b, eqb a b = true <-> a = b) -> In x l ->
  S (count_occ dec (remove_first eqb x l) x) = count_occ dec l x.
Proof.
  intros A eqb dec x l Heq. induction l as [|z l IH]; cbn; [tauto|].
  intros [->|Hin].
  - destruct (eqb x x) eqn:E.
    + destruct (dec x x); [reflexivity|contradiction].
    + assert (eqb x x = true) by (apply Heq; reflexivity). congruence.
  - destruct (eqb z x) eqn:E.
    + apply Heq in E. subst. destruct (dec x x); [reflexivity|contradiction].
    + cbn. destruct (dec z x) as [->|Hne].
      * assert (eqb x x = true) by (apply Heq; reflexivity). congruence.
      * apply IH. exact Hin.
Qed.

(* ---------- dict_set / recalc ---------- *)

Lemma dict_set_In : forall {V} k (v : V) d k' v',
  In (k', v') (dict_set k v d) -> (k' = k /\ v' = v) \/ In (k', v') d.
Proof.
  intros V k v d k' v'. induction d as [|[k0 v0] d IH]; cbn.
  - intros [H|[]]. inversion H. left. split; reflexivity.
  - destruct (str_eqb k0 k) eqn:E.
    + apply str_eqb_eq in E. subst. intros [H|H]; [inversion H; left; split; reflexivity | right; right; exact H].
    + intros [H|H]; [right; left; exact H|]. apply IH in H. intuition.
Qed.

Lemma dict_set_keys : forall {V} k (v : V) d k',
  In k' (map fst (dict_set k v d)) <-> k' = k \/ In k' (map fst d).
Proof.
  intros V k v d k'. induction d as [|[k0 v0] d IH]; cbn.
  - intuition.
  - destruct (str_eqb k0 k) eqn:E; cbn.
    + apply str_eqb_eq in E. subst. intuition.
    + rewrite IH. intuition.
Qed.

Lemma dict_set_NoDup : forall {V} k (v : V) d, NoDup (map fst d) -> NoDup (map fst (dict_set k v d)).
Proof.
  intros V k v d. induction d as [|[k0 v0] d IH]; cbn; intro H.
  - constructor; [intros []|constructor].
  - inversion H; subst. destruct (str_eqb k0 k) eqn:E; cbn.
    + constructor; assumption.
    + constructor; [|apply IH; assumption]. rewrite dict_set_keys. intros [->|Hin]; [|contradiction].
      rewrite str_eqb_refl in E. discriminate.
Qed.

Lemma dict_set_has : forall {V} k (v : V) d, In (k, v) (dict_set k v d).
Proof.
  intros V k v d. induction d as [|[k0 v0] d IH]; cbn; [left; reflexivity|].
  destruct (str_eqb k0 k) eqn:E.
  - apply str_eqb_eq in E. subst. left. reflexivity.
  - right. exact IH.
Qed.

Lemma dict_set_keeps : forall {V} k (v : V) d k' v', k' <> k -> In (k', v') d -> In (k', v') (dict_set k v d).
Proof.
  intros V k v d k' v' Hne. induction d as [|[k0 v0] d IH]; cbn; [tauto|].
  intros [H|H].
  - inversion H; subst. destruct (str_eqb k' k) eqn:E; [apply str_eqb_eq in E; contradiction|]. left. reflexivity.
  - destruct (str_eqb k0 k); right; [exact H | apply IH; exact H].
Qed.

Definition recalc_from (acc : list lentry) (caps : list entry) : list lentry :=
  fold_left (fun acc (e : entry) => dict_set (snd (snd e)) (fst (snd e), fst e) acc) caps acc.

Lemma recalc_from_sound : forall caps acc u t n,
  In (u, (t, n)) (recalc_from acc caps) -> In (u, (t, n)) acc \/ In (n, (t, u)) caps.
Proof.
  unfold recalc_from. induction caps as [|[n0 [t0 u0]] caps IH]; intros acc u t n H; cbn in *; [left; exact H|].
  apply IH in H as [H|H]; [|right; right; exact H].
  apply dict_set_In in H as [[-> Hv]|H]; [|left; exact H].
  inversion Hv; subst. right. left. reflexivity.
Qed.

Lemma recalc_from_keys : forall caps acc u,
  In u (map fst (recalc_from acc caps)) <-> In u (map fst acc) \/ In u (map (fun e : entry => snd (snd e)) caps).
Proof.
  unfold recalc_from. induction caps as [|[n0 [t0 u0]] caps IH]; intros acc u; cbn; [tauto|].
  rewrite IH, dict_set_keys. cbn. intuition.
Qed.

Lemma recalc_from_NoDup : forall caps acc, NoDup (map fst acc) -> NoDup (map fst (recalc_from acc caps)).
Proof.
  unfold recalc_from. induction caps as [|e caps IH]; intros acc H; cbn; [exact H|]. apply IH. apply dict_set_NoDup. exact H.
Qed.

Lemma recalc_sound : forall caps u t n, In (u, (t, n)) (recalc caps) -> In (n, (t, u)) caps.
Proof. intros caps u t n H. apply (recalc_from_sound caps []) in H as [[]|H]. exact H. Qed.

Lemma recalc_complete : forall caps n t u, In (n, (t, u)) caps -> exists t' n', In (u, (t', n')) (recalc caps).
Proof.
  intros caps n t u H.
  assert (Hk : In u (map fst (recalc caps))).
  { apply (recalc_from_keys caps []). right. apply in_map_iff. exists (n, (t, u)). split; [reflexivity|exact H]. }
  apply in_map_iff in Hk as [[u' [t' n']] [Hu Hin]]. cbn in Hu. subst. eauto.
Qed.

Lemma recalc_NoDup : forall caps, NoDup (map fst (recalc caps)).
Proof. intro caps. apply (recalc_from_NoDup caps []). constructor. Qed.

Local Opaque c_Seed c_http c_ProxyWrapper c_GetMesh c_GetTexture c_ViewerAsset c_Uploader c_uploader.

(* ---------- region invariants: the reverse index is fresh; the by-name view replays the log ---------- *)

Definition fresh_region (r : Region) : Prop := r_lookup r = recalc (r_caps r).

Definition replay_prim (n : str) (l : list (CapType * str)) (p : prim) : list (CapType * str) :=
  match p with
  | PGrant k v => if str_eqb k n then v :: l else l
  | PConsume k v => if str_eqb k n then remove_first tu_eqb v l else l
  end.

(* the unconsumed grants of name n, most recent first, according to the event log *)
Definition replay_log (n : str) (log : list prim) : list (CapType * str) :=
  fold_left (replay_prim n) log [].

Definition log_region (r : Region) : Prop := forall n, md_getall n (r_caps r) = replay_log n (r_log r).

Definition good_region (r : Region) : Prop := fresh_region r /\ log_region r.

Lemma replay_log_app : forall n l1 l2, replay_log n (l1 ++ l2) = fold_left (replay_prim n) l2 (replay_log n l1).
Proof. intros. unfold replay_log. apply fold_left_app. Qed.

Lemma good_register_cap : forall r name url ty, good_region r -> good_region (register_cap r name url ty).
Proof.
  intros r name url ty [Hf Hl]. split; [reflexivity|].
  intro n. unfold register_cap, set_caps. cbn [r_caps r_log]. rewrite replay_log_app. cbn.
  destruct (str_eqb name n) eqn:E.
  - apply str_eqb_eq in E. subst. rewrite md_getall_add_same, Hl. reflexivity.
  - apply str_eqb_neq in E. rewrite md_getall_add_other by congruence. apply Hl.
Qed.

Lemma good_update_caps : forall caps r, good_region r -> good_region (update_caps r caps).
Proof.
  unfold update_caps. induction caps as [|[k v] caps IH]; intros r H; cbn [fold_left snd fst]; [exact H|].
  apply IH. destruct v as [u|t]; [|exact H]. destruct (prefix c_http u); [|exact H].
  apply good_register_cap. exact H.
Qed.

Lemma good_set_handle : forall r h, good_region r -> good_region (set_handle r h).
Proof. intros r h [Hf Hl]. split; [exact Hf|exact Hl]. Qed.

Lemma good_new_region : forall a s h, good_region (new_region a s h).
Proof.
  intros a s h. split; [reflexivity|]. intro n. unfold new_region. cbn [r_caps r_log].
  destruct s as [s|]; [|reflexivity]. destruct (truthy_str (Some s)); [|reflexivity].
  unfold md_getall, replay_log. cbn [filter map fold_left fst snd replay_prim]. destruct (str_eqb c_Seed n); reflexivity.
Qed.

Section WithOracles.
  Variable fresh : nat -> str.
  Variable wrap : str -> str -> str -> str.

  Lemma good_register_wrapper : forall r name w r',
    good_region r -> register_wrapper_cap wrap r name = Some (w, r') -> good_region r'.
  Proof.
    intros r name w r' H. unfold register_wrapper_cap.
    destruct (md_get name (r_caps r)) as [[t u]|]; [|discriminate].
    destruct (md_get c_Seed (r_caps r)) as [[t2 s]|]; [|discriminate].
    intro E. inversion E; subst. apply good_register_cap. exact H.
  Qed.

  Lemma good_register_proxy : forall r name c u r' c',
    good_region r -> register_proxy_cap fresh r name c = (u, r', c') -> good_region r'.
  Proof.
    intros r name c u r' c' H. unfold register_proxy_cap.
    destruct (md_get name (r_caps r)) as [[[] u0]|]; intro E; inversion E; subst;
      try (apply good_register_cap); exact H.
  Qed.

  (* what a region-level lookup does *)
  Lemma resolve_cap_hit : forall r url c name u ty r',
    fresh_region r -> resolve_cap r url c = (Some (name, u, ty), r') ->
    prefix u url = true /\ In (name, (ty, u)) (r_caps r).
  Proof.
    intros r url c name u ty r' Hf. unfold resolve_cap.
    destruct (find (fun le : lentry => prefix (fst le) url) (r_lookup r)) as [[u0 [t0 n0]]|] eqn:Ef; [|discriminate].
    apply find_some in Ef as [Hin Hp]. cbn in Hp. rewrite Hf in Hin. apply recalc_sound in Hin.
    destruct (captype_eqb t0 TEMPORARY && c); intro E; inversion E; subst; split; assumption.
  Qed.

  Lemma resolve_cap_miss : forall r url c r',
    fresh_region r -> resolve_cap r url c = (None, r') ->
    r' = r /\ forall e, In e (r_caps r) -> prefix (snd (snd e)) url = false.
  Proof.
    intros r url c r' Hf. unfold resolve_cap.
    destruct (find (fun le : lentry => prefix (fst le) url) (r_lookup r)) as [[u0 [t0 n0]]|] eqn:Ef.
    - destruct (captype_eqb t0 TEMPORARY && c); discriminate.
    - intro E. inversion E; subst. split; [reflexivity|]. intros [n [t u]] Hin. cbn.
      destruct (recalc_complete _ _ _ _ Hin) as [t' [n' Hl]]. rewrite <- Hf in Hl.
      exact (find_none _ _ Ef _ Hl).
  Qed.

  Lemma resolve_cap_keep : forall r url c name u ty r',
    resolve_cap r url c = (Some (name, u, ty), r') -> (captype_eqb ty TEMPORARY && c) = false -> r' = r.
  Proof.
    intros r url c name u ty r'. unfold resolve_cap.
    destruct (find (fun le : lentry => prefix (fst le) url) (r_lookup r)) as [[u0 [t0 n0]]|]; [|discriminate].
    destruct (captype_eqb t0 TEMPORARY && c) eqn:E; intro H; inversion H; subst; [congruence|reflexivity].
  Qed.

  (* consumption of a temporary cap: exactly that grant disappears, every other grant keeps its by-name order *)
  Lemma resolve_cap_consume : forall r url name u r',
    good_region r -> resolve_cap r url true = (Some (name, u, TEMPORARY), r') ->
    good_region r' /\
    (forall n, md_getall n (r_caps r') =
               if str_eqb name n then remove_first tu_eqb (TEMPORARY, u) (md_getall name (r_caps r))
               else md_getall n (r_caps r)) /\
    r_addr r' = r_addr r /\ r_handle r' = r_handle r.
  Proof.
    intros r url name u r' [Hf Hl]. unfold resolve_cap.
    destruct (find (fun le : lentry => prefix (fst le) url) (r_lookup r)) as [[u0 [t0 n0]]|]; [|discriminate].
    destruct (captype_eqb t0 TEMPORARY && true) eqn:Ec; intro E; inversion E; subst; [|discriminate].
    assert (Hget : forall n, md_getall n (md_extend name (remove_first tu_eqb (TEMPORARY, u) (md_getall name (r_caps r))) (md_popall name (r_caps r))) =
               if str_eqb name n then remove_first tu_eqb (TEMPORARY, u) (md_getall name (r_caps r))
               else md_getall n (r_caps r)).
    { intro n. unfold md_extend. rewrite md_getall_app. destruct (str_eqb name n) eqn:En.
      - apply str_eqb_eq in En. subst. rewrite md_getall_popall_same, md_getall_map_same. reflexivity.
      - apply str_eqb_neq in En. rewrite md_getall_popall_other, md_getall_map_other by congruence. apply app_nil_r. }
    split; [split; [reflexivity|]|split; [exact Hget|split; reflexivity]].
    intro n. unfold set_caps. cbn [r_caps r_log]. rewrite Hget, replay_log_app. cbn.
    destruct (str_eqb name n) eqn:En.
    - apply str_eqb_eq in En. subst. rewrite Hl. reflexivity.
    - apply Hl.
  Qed.

  Lemma good_resolve_cap : forall r url c res r', good_region r -> resolve_cap r url c = (res, r') -> good_region r'.
  Proof.
    intros r url c res r' H E. destruct res as [[[name u] ty]|].
    - destruct (captype_eqb ty TEMPORARY && c) eqn:Ec.
      + apply andb_true_iff in Ec as [Et ->]. apply captype_eqb_eq in Et. subst.
        apply (resolve_cap_consume _ _ _ _ _ H E).
      + rewrite (resolve_cap_keep _ _ _ _ _ _ _ E Ec). exact H.
    - destruct H as [Hf Hl]. destruct (resolve_cap_miss _ _ _ _ Hf E) as [-> _]. split; assumption.
  Qed.

End WithOracles.

(* ---------- manager-level invariant ---------- *)

Lemma Forall_upd_nth : forall {A} (P : A -> Prop) f n l,
  Forall P l -> (forall x, P x -> P (f x)) -> Forall P (upd_nth n f l).
Proof.
  intros A P f n l H Hf. revert n. induction H as [|x l Hx Hl IH]; intros n; cbn.
  - destruct n; constructor.
  - destruct n; constructor; auto.
Qed.

Lemma Forall_nth_error : forall {A} (P : A -> Prop) l n x, Forall P l -> nth_error l n = Some x -> P x.
Proof. intros A P l n x H E. rewrite Forall_forall in H. apply H. eapply nth_error_In. exact E. Qed.

Section Manager.
  Variable fresh : nat -> str.
  Variable wrap : str -> str -> str -> str.

  Definition good_session (s : Session) : Prop := Forall good_region (s_regions s).
  Definition good_manager (m : Manager) : Prop := Forall good_session (m_sessions m).

  Lemma good_regions_resolve : forall rs si ri url res rs',
    Forall good_region rs -> regions_resolve si ri rs url = (res, rs') -> Forall good_region rs'.
  Proof.
    induction rs as [|r rs IH]; intros si ri url res rs' H E; cbn in E.
    - inversion E. constructor.
    - inversion H; subst. destruct (resolve_cap r url true) as [[[[name base] ty]|] r1] eqn:Er.
      + inversion E; subst. constructor; [eapply good_resolve_cap; eassumption | assumption].
      + destruct (regions_resolve si (S ri) rs url) as [res2 t'] eqn:Et. inversion E; subst.
        constructor; [eapply good_resolve_cap; eassumption | eapply IH; eassumption].
  Qed.

  Lemma good_session_resolve : forall si s url res s',
    good_session s -> session_resolve si s url = (res, s') -> good_session s'.
  Proof.
    intros si s url res s' H. unfold session_resolve.
    destruct (find (fun g : str * str => prefix (snd g) url) (s_global s)) as [[n u]|].
    - intro E. inversion E; subst. exact H.
    - destruct (regions_resolve si 0 (s_regions s) url) as [r rs'] eqn:Er. intro E. inversion E; subst.
      unfold good_session. cbn. eapply good_regions_resolve; eassumption.
  Qed.

  Lemma good_sessions_resolve : forall ss si url res ss',
    Forall good_session ss -> sessions_resolve si ss url = (res, ss') -> Forall good_session ss'.
  Proof.
    induction ss as [|s ss IH]; intros si url res ss' H E; cbn in E.
    - inversion E. constructor.
    - inversion H; subst. destruct (session_resolve si s url) as [[cd|] s1] eqn:Es.
      + destruct (cd_truthy cd).
        * inversion E; subst. constructor; [eapply good_session_resolve; eassumption|assumption].
        * destruct (sessions_resolve (S si) ss url) as [r2 t'] eqn:Et. inversion E; subst.
          constructor; [eapply good_session_resolve; eassumption | eapply IH; eassumption].
      + destruct (sessions_resolve (S si) ss url) as [r2 t'] eqn:Et. inversion E; subst.
        constructor; [eapply good_session_resolve; eassumption | eapply IH; eassumption].
  Qed.

  Lemma good_register_region_scan : forall rs ri addr seed handle i rs',
    Forall good_region rs -> register_region_scan ri rs addr seed handle = Some (i, rs') -> Forall good_region rs'.
  Proof.
    induction rs as [|r rs IH]; intros ri addr seed handle i rs' H E; cbn [register_region_scan] in E; [discriminate|].
    inversion H; subst.
    destruct (opt_N_eqb (r_addr r) addr).
    - injection E as _ <-. constructor; [|assumption].
      match goal with |- good_region (if _ then set_handle ?x _ else _) => assert (H1 : good_region x) end.
      { destruct (truthy_str seed && negb (opt_str_eqb (cap_url r c_Seed) seed)); [|assumption].
        exact (good_update_caps [(c_Seed, match seed with Some s => VStr s | None => VOther 0 end)] r H2). }
      destruct (truthy_N handle); [apply good_set_handle|]; exact H1.
    - destruct (truthy_str seed && opt_str_eqb (cap_url r c_Seed) seed).
      + inversion E; subst. constructor; assumption.
      + destruct (register_region_scan (S ri) rs addr seed handle) as [[j t']|] eqn:Et; [|discriminate].
        inversion E; subst. constructor; [assumption|eapply IH; eassumption].
  Qed.

  Lemma good_register_region : forall s addr seed handle i s',
    good_session s -> register_region s addr seed handle = Some (i, s') -> good_session s'.
  Proof.
    intros s addr seed handle i s' H. unfold register_region.
    destruct (negb match addr with Some _ => true | None => false end && negb (truthy_str seed)); [discriminate|].
    destruct (register_region_scan 0 (s_regions s) addr seed handle) as [[j rs']|] eqn:Es.
    - intro E. inversion E; subst. unfold good_session. cbn. eapply good_register_region_scan; eassumption.
    - destruct addr; [|discriminate]. intro E. inversion E; subst. unfold good_session. cbn.
      apply Forall_app. split; [exact H|]. constructor; [apply good_new_region|constructor].
  Qed.

  Lemma good_seed_wrap : forall worder r parsed res r',
    good_region r -> seed_wrap wrap worder r parsed = (res, r') -> good_region r'.
  Proof.
    induction worder as [|n t IH]; intros r parsed res r' H E; cbn [seed_wrap] in E.
    - inversion E; subst. exact H.
    - destruct (dict_mem n parsed); [|eapply IH; eassumption].
      destruct (register_wrapper_cap wrap r n) as [[w r1]|] eqn:Ew.
      + eapply IH; [|exact E]. eapply good_register_wrapper; eassumption.
      + inversion E; subst. exact H.
  Qed.

  Lemma good_seed_response : forall worder needed r body res r',
    good_region r -> seed_response wrap worder needed r body = (res, r') -> good_region r'.
  Proof.
    intros worder needed r body res r' H. unfold seed_response.
    destruct (seed_wrap wrap worder (update_caps r body) body) as [[p2|] r2] eqn:Ew; intro E; inversion E; subst;
      eapply good_seed_wrap; try exact Ew; apply good_update_caps; exact H.
  Qed.

  Lemma good_upd_region : forall m si ri f,
    good_manager m -> (forall r, good_region r -> good_region (f r)) -> good_manager (upd_region m si ri f).
  Proof.
    intros m si ri f H Hf. unfold good_manager, upd_region. cbn.
    apply Forall_upd_nth; [exact H|]. intros s Hs. unfold good_session. cbn.
    apply Forall_upd_nth; assumption.
  Qed.

  Lemma good_get_region : forall m si ri r, good_manager m -> get_region m si ri = Some r -> good_region r.
  Proof.
    intros m si ri r H. unfold get_region. destruct (nth_error (m_sessions m) si) as [s|] eqn:Es; [|discriminate].
    intro Er. eapply Forall_nth_error; [|exact Er]. eapply (Forall_nth_error good_session); eassumption.
  Qed.

  Lemma good_step : forall m o, good_manager m -> good_manager (fst (step fresh wrap m o)).
  Proof.
    intros m o H. destruct o; cbn [step].
    - destruct (register_region (mkSession id globals []) addr seed handle) as [[i s]|] eqn:E; cbn; [|exact H].
      unfold good_manager. cbn. apply Forall_app. split; [exact H|]. constructor; [|constructor].
      eapply good_register_region; [|exact E]. constructor.
    - destruct (nth_error (m_sessions m) si) as [s|] eqn:Es; [|exact H].
      destruct (register_region s addr seed handle) as [[i s']|] eqn:E; cbn; [|exact H].
      unfold good_manager. cbn. apply Forall_upd_nth; [exact H|]. intros _ _.
      eapply good_register_region; [|exact E]. eapply (Forall_nth_error good_session); eassumption.
    - destruct (get_region m si ri); cbn; [|exact H]. apply good_upd_region; [exact H|]. intros; apply good_update_caps; assumption.
    - destruct (get_region m si ri); cbn; [|exact H]. apply good_upd_region; [exact H|]. intros; apply good_register_cap; assumption.
    - destruct (get_region m si ri) as [r|] eqn:Er; cbn; [|exact H].
      destruct (register_wrapper_cap wrap r name) as [[w r']|] eqn:Ew; cbn; [|exact H].
      apply good_upd_region; [exact H|]. intros _ _. eapply good_register_wrapper; [|exact Ew]. eapply good_get_region; eassumption.
    - destruct (get_region m si ri) as [r|] eqn:Er; cbn; [|exact H].
      destruct (register_proxy_cap fresh r name (m_uuid m)) as [[u r'] c] eqn:Ep. cbn.
      apply (good_upd_region m si ri (fun _ => r')); [exact H|]. intros _ _.
      eapply good_register_proxy; [|exact Ep]. eapply good_get_region; eassumption.
    - destruct (sessions_resolve 0 (m_sessions m) url) as [cd ss] eqn:E. cbn.
      unfold good_manager. cbn. eapply good_sessions_resolve; eassumption.
    - unfold handle_request. destruct (sessions_resolve 0 (m_sessions m) url) as [cd ss] eqn:E.
      assert (Hg : Forall good_session ss) by (eapply good_sessions_resolve; eassumption).
      match goal with |- context [match ?x with Some _ => _ | None => _ end] => destruct x as [[req' needed]|] end; cbn; exact Hg.
    - unfold handle_response. destruct (nth_error (m_flows m) fid) as [f|]; [|exact H].
      destruct (f_injected f || negb (N.eqb status 200) || negb (cd_truthy (f_cd f))); [exact H|].
      destruct (cd_region (f_cd f)) as [[si ri]|]; [|exact H].
      destruct (cd_name (f_cd f)) as [name|]; [|exact H].
      destruct (get_region m si ri) as [r|] eqn:Er; [|exact H].
      destruct (str_eqb name c_Seed).
      + destruct (seed_response wrap worder (f_needed f) r body) as [res r'] eqn:Es. cbn.
        apply good_upd_region; [exact H|]. intros _ _. eapply good_seed_response; [|exact Es]. eapply good_get_region; eassumption.
      + destruct (str_mem name UPLOAD_CREATING_CAPS); [|exact H].
        destruct (dict_get c_uploader body) as [[u|t]|]; cbn; try exact H.
        apply good_upd_region; [exact H|]. intros; apply good_register_cap; assumption.
  Qed.

  Lemma good_run : forall ops m, good_manager m -> good_manager (run fresh wrap ops m).
  Proof.
    unfold run. induction ops as [|o ops IH]; intros m H; cbn; [exact H|]. apply IH. apply good_step. exact H.
  Qed.

  Lemma good_init : good_manager init_manager.
  Proof. constructor. Qed.

  (* every region reached by any op sequence has a fresh reverse index and a by-name view equal to the replayed log *)
  Theorem reachable_good : forall ops si ri r,
    get_region (run fresh wrap ops init_manager) si ri = Some r ->
    r_lookup r = recalc (r_caps r) /\ forall n, md_getall n (r_caps r) = replay_log n (r_log r).
  Proof.
    intros ops si ri r E. exact (good_get_region _ _ _ _ (good_run ops _ good_init) E).
  Qed.

  (* lookup by name = the most recent unconsumed grant of the log *)
  Corollary latest_by_name : forall ops si ri r n,
    get_region (run fresh wrap ops init_manager) si ri = Some r ->
    cap_url r n = match replay_log n (r_log r) with [] => None | (_, u) :: _ => Some u end.
  Proof.
    intros ops si ri r n E. destruct (reachable_good ops si ri r E) as [_ Hl].
    unfold cap_url, md_get. rewrite Hl. destruct (replay_log n (r_log r)) as [|[t u] l]; reflexivity.
  Qed.

End Manager.

(* ---------- soundness of URL resolution ---------- *)

Definition global_cd (n u : str) : CapData := mkCD (Some n) None None (Some u) NORMAL.
Definition e_url (e : entry) : str := snd (snd e).
Definition site_cd (si ri : nat) (e : entry) : CapData := capdata_of si ri (fst e) (fst (snd e)) (snd (snd e)).

(* every grant of the sessions ss (numbered from k) whose URL is a prefix of url has attribution cd *)
Definition all_hits (k : nat) (ss : list Session) (url : str) (cd : CapData) : Prop :=
  forall i s, nth_error ss i = Some s ->
    (forall n u, In (n, u) (s_global s) -> prefix u url = true -> global_cd n u = cd) /\
    (forall ri r e, nth_error (s_regions s) ri = Some r -> In e (r_caps r) -> prefix (e_url e) url = true ->
                    site_cd (k + i) ri e = cd).

Definition no_hits (ss : list Session) (url : str) : Prop :=
  forall i s, nth_error ss i = Some s ->
    (forall n u, In (n, u) (s_global s) -> prefix u url = false) /\
    (forall ri r e, nth_error (s_regions s) ri = Some r -> In e (r_caps r) -> prefix (e_url e) url = false).

Lemma set_regions_same : forall s, set_regions s (s_regions s) = s.
Proof. destruct s; reflexivity. Qed.

Lemma capdata_of_truthy : forall si ri n t u, cd_truthy (capdata_of si ri n t u) = true.
Proof.
  intros. unfold capdata_of. destruct (is_asset_server_cap_name n && negb (captype_eqb t WRAPPER)) eqn:E.
  - apply andb_true_iff in E as [E _]. unfold is_asset_server_cap_name in E. apply andb_true_iff in E as [E _].
    unfold cd_truthy. cbn. rewrite E. reflexivity.
  - unfold cd_truthy. cbn. apply orb_true_r.
Qed.

Lemma regions_resolve_spec : forall rs si ri url cd res rs',
  Forall good_region rs ->
  (forall j r e, nth_error rs j = Some r -> In e (r_caps r) -> prefix (e_url e) url = true -> site_cd si (ri + j) e = cd) ->
  regions_resolve si ri rs url = (res, rs') ->
  res = Some cd \/
  (res = None /\ rs' = rs /\ forall j r e, nth_error rs j = Some r -> In e (r_caps r) -> prefix (e_url e) url = false).
Proof.
  induction rs as [|r rs IH]; intros si ri url cd res rs' Hg Hh E; cbn [regions_resolve] in E.
  - inversion E; subst. right. repeat split. intros [|j] r e Hn; discriminate.
  - inversion Hg as [|? ? Hr Hrs]; subst.
    destruct (resolve_cap r url true) as [[[[name base] ty]|] r1] eqn:Er.
    + inversion E; subst. left. f_equal.
      destruct (resolve_cap_hit _ _ _ _ _ _ _ (proj1 Hr) Er) as [Hp Hin].
      specialize (Hh 0 r (name, (ty, base)) eq_refl Hin Hp). rewrite Nat.add_0_r in Hh. exact Hh.
    + destruct (resolve_cap_miss _ _ _ _ (proj1 Hr) Er) as [-> Hno].
      destruct (regions_resolve si (S ri) rs url) as [res2 t'] eqn:Et. inversion E; subst.
      destruct (IH si (S ri) url cd res t' Hrs) as [H|[H1 [H2 H3]]]; [|exact Et|left; exact H|].
      * intros j r' e Hn Hin Hp. specialize (Hh (S j) r' e Hn Hin Hp). rewrite Nat.add_succ_r in Hh. exact Hh.
      * right. subst. repeat split. intros [|j] r' e Hn Hin; cbn in Hn.
        -- inversion Hn; subst. apply Hno. exact Hin.
        -- eapply H3; eassumption.
Qed.

Lemma session_resolve_spec : forall s si url cd res s',
  good_session s ->
  (forall n u, In (n, u) (s_global s) -> prefix u url = true -> global_cd n u = cd) ->
  (forall ri r e, nth_error (s_regions s) ri = Some r -> In e (r_caps r) -> prefix (e_url e) url = true -> site_cd si ri e = cd) ->
  session_resolve si s url = (res, s') ->
  res = Some cd \/
  (res = None /\ s' = s /\
   (forall n u, In (n, u) (s_global s) -> prefix u url = false) /\
   (forall ri r e, nth_error (s_regions s) ri = Some r -> In e (r_caps r) -> prefix (e_url e) url = false)).
Proof.
  intros s si url cd res s' Hg Hglob Hreg. unfold session_resolve.
  destruct (find (fun g : str * str => prefix (snd g) url) (s_global s)) as [[n u]|] eqn:Ef.
  - intro E. inversion E; subst. left. f_equal. apply find_some in Ef as [Hin Hp]. exact (Hglob n u Hin Hp).
  - destruct (regions_resolve si 0 (s_regions s) url) as [r rs'] eqn:Er. intro E. inversion E; subst.
    destruct (regions_resolve_spec _ si 0 _ cd _ _ Hg (fun j => Hreg j) Er) as [H|[H1 [H2 H3]]]; [left; exact H|].
    right. subst. rewrite set_regions_same. repeat split; [|exact H3].
    intros n u Hin. exact (find_none _ _ Ef (n, u) Hin).
Qed.

Lemma sessions_resolve_spec : forall ss k url cd res ss',
  Forall good_session ss -> all_hits k ss url cd -> cd_truthy cd = true ->
  sessions_resolve k ss url = (res, ss') ->
  res = cd \/ (res = empty_cd /\ ss' = ss /\ no_hits ss url).
Proof.
  induction ss as [|s ss IH]; intros k url cd res ss' Hg Hh Ht E; cbn [sessions_resolve] in E.
  - inversion E; subst. right. split; [reflexivity|]. split; [reflexivity|]. intros [|i] s0 Hn; discriminate.
  - inversion Hg as [|? ? Hs Hss]; subst.
    destruct (Hh 0 s eq_refl) as [Hg0 Hr0]. rewrite Nat.add_0_r in Hr0.
    destruct (session_resolve k s url) as [[cd'|] s1] eqn:Es;
      destruct (session_resolve_spec _ _ _ cd _ _ Hs Hg0 Hr0 Es) as [H|[H1 [H2 [H3 H4]]]]; try discriminate.
    + inversion H; subst. rewrite Ht in E. inversion E; subst. left. reflexivity.
    + subst. destruct (sessions_resolve (S k) ss url) as [r2 t'] eqn:Et. inversion E; subst.
      destruct (IH (S k) url cd res t' Hss) as [H|[H5 [H6 H7]]]; [|exact Ht|exact Et|left; exact H|].
      * intros i s' Hn. destruct (Hh (S i) s' Hn) as [Ha Hb]. split; [exact Ha|].
        intros ri r e Hr Hin Hp. specialize (Hb ri r e Hr Hin Hp). rewrite Nat.add_succ_r in Hb. exact Hb.
      * right. subst. split; [reflexivity|]. split; [reflexivity|]. intros [|i] s' Hn; cbn in Hn.
        -- inversion Hn; subst. split; assumption.
        -- eapply H7; eassumption.
Qed.

Lemma no_hits_all_hits : forall ss k url cd, no_hits ss url -> all_hits k ss url cd.
Proof.
  intros ss k url cd Hn i s Hi. destruct (Hn i s Hi) as [Ha Hb]. split.
  - intros n u Hin Hp. rewrite (Ha n u Hin) in Hp. discriminate.
  - intros ri r e Hr Hin Hp. rewrite (Hb ri r e Hr Hin) in Hp. discriminate.
Qed.

(* nothing granted is a prefix of the URL: the lookup fails and changes nothing *)
Lemma sessions_resolve_none : forall ss k url,
  Forall good_session ss -> no_hits ss url -> sessions_resolve k ss url = (empty_cd, ss).
Proof.
  intros ss k url Hg Hn.
  destruct (sessions_resolve k ss url) as [res ss'] eqn:E.
  destruct (sessions_resolve_spec ss k url (global_cd [zero] []) res ss' Hg (no_hits_all_hits _ _ _ _ Hn) eq_refl E)
    as [H1|[H1 [H2 _]]]; [|subst; reflexivity].
  destruct (sessions_resolve_spec ss k url (global_cd [one] []) res ss' Hg (no_hits_all_hits _ _ _ _ Hn) eq_refl E)
    as [H3|[H3 [H4 _]]]; subst; discriminate.
Qed.

Definition site (ss : list Session) (si ri : nat) (e : entry) : Prop :=
  exists s r, nth_error ss si = Some s /\ nth_error (s_regions s) ri = Some r /\ In e (r_caps r).

Definition related (a b : str) : Prop := prefix a b = true \/ prefix b a = true.

(* grants whose URLs are equal or prefix-related carry the same attribution *)
Definition unambiguous (ss : list Session) : Prop :=
  (forall si ri e si' ri' e', site ss si ri e -> site ss si' ri' e' -> related (e_url e) (e_url e') ->
                              site_cd si ri e = site_cd si' ri' e') /\
  (forall si ri e si' s' n u, site ss si ri e -> nth_error ss si' = Some s' -> In (n, u) (s_global s') ->
                              related u (e_url e) -> global_cd n u = site_cd si ri e).

Theorem resolve_sound_state : forall ss si ri e sfx,
  Forall good_session ss -> unambiguous ss -> site ss si ri e ->
  fst (sessions_resolve 0 ss (e_url e ++ sfx)) = site_cd si ri e.
Proof.
  intros ss si ri e sfx Hg [Hu1 Hu2] Hs.
  destruct (sessions_resolve 0 ss (e_url e ++ sfx)) as [res ss'] eqn:E. cbn [fst].
  destruct (sessions_resolve_spec ss 0 (e_url e ++ sfx) (site_cd si ri e) res ss' Hg) as [H|[_ [_ H]]]; [| |exact E| |].
  - intros i s Hi. split.
    + intros n u Hin Hp. apply (Hu2 si ri e i s n u Hs Hi Hin).
      exact (prefix_comparable _ _ _ Hp (prefix_app _ _)).
    + intros ri' r e' Hr Hin Hp. cbn [Nat.add]. symmetry. apply Hu1; [exact Hs | exists s, r; auto |].
      exact (prefix_comparable _ _ _ (prefix_app _ _) Hp).
  - unfold site_cd. apply capdata_of_truthy.
  - exact H.
  - exfalso. destruct Hs as [s [r [Hs [Hr Hin]]]]. destruct (H si s Hs) as [_ Hb].
    specialize (Hb ri r e Hr Hin). rewrite prefix_app in Hb. discriminate.
Qed.

(* ---------- temporary caps resolve once (region level) ---------- *)

Definition tu_dec : forall a b : CapType * str, {a = b} + {a <> b}.
Proof. decide equality; [apply (list_eq_dec ascii_dec)|decide equality]. Defined.

Lemma resolve_cap_none_if : forall r url c,
  fresh_region r -> (forall e, In e (r_caps r) -> prefix (e_url e) url = false) -> resolve_cap r url c = (None, r).
Proof.
  intros r url c Hf Hno. unfold resolve_cap.
  destruct (find (fun le : lentry => prefix (fst le) url) (r_lookup r)) as [[u0 [t0 n0]]|] eqn:Ef; [|reflexivity].
  apply find_some in Ef as [Hin Hp]. rewrite Hf in Hin. apply recalc_sound in Hin.
  specialize (Hno _ Hin). cbn in Hno, Hp. congruence.
Qed.

Theorem temporary_once_region : forall r url n u r',
  good_region r -> resolve_cap r url true = (Some (n, u, TEMPORARY), r') ->
  (forall e, In e (r_caps r) -> prefix (e_url e) url = true -> e = (n, (TEMPORARY, u))) ->
  count_occ tu_dec (md_getall n (r_caps r)) (TEMPORARY, u) = 1 ->
  resolve_cap r' url true = (None, r').
Proof.
  intros r url n u r' Hg E Honly Hcnt.
  destruct (resolve_cap_consume _ _ _ _ _ Hg E) as [Hg' [Hget _]].
  destruct (resolve_cap_hit _ _ _ _ _ _ _ (proj1 Hg) E) as [Hp Hin].
  apply resolve_cap_none_if; [exact (proj1 Hg')|].
  intros [k v] Hin'. destruct (prefix (e_url (k, v)) url) eqn:Ep; [|reflexivity]. exfalso.
  apply md_getall_In in Hin'. rewrite Hget in Hin'.
  destruct (str_eqb n k) eqn:En.
  - apply str_eqb_eq in En. subst k.
    assert (Hv : In (n, v) (r_caps r)) by (apply md_getall_In; eapply remove_first_In; exact Hin').
    specialize (Honly _ Hv Ep). inversion Honly; subst v.
    assert (Hc := remove_first_count tu_eqb tu_dec (TEMPORARY, u) (md_getall n (r_caps r)) tu_eqb_eq
                    (proj2 (md_getall_In _ _ _) Hin)).
    rewrite Hcnt in Hc. inversion Hc as [Hc0].
    exact (proj2 (count_occ_not_In tu_dec _ _) Hc0 Hin').
  - apply md_getall_In in Hin'. specialize (Honly _ Hin' Ep). inversion Honly; subst.
    rewrite str_eqb_refl in En. discriminate.
Qed.

(* ---------- seed request ---------- *)

Definition proxy_name (caps : list entry) (n : str) : bool :=
  existsb (fun e : entry => str_eqb (fst e) n && captype_eqb (fst (snd e)) PROXY_ONLY) caps.

Lemma str_mem_In : forall k l, str_mem k l = true <-> In k l.
Proof.
  intros k l. unfold str_mem. rewrite existsb_exists. split.
  - intros [x [Hin E]]. apply str_eqb_eq in E. subst. exact Hin.
  - intro H. exists k. split; [exact H|apply str_eqb_refl].
Qed.

Lemma remove_first_perm : forall x l, In x l -> Permutation l (x :: remove_first str_eqb x l).
Proof.
  intros x l. induction l as [|y l IH]; cbn; [tauto|].
  destruct (str_eqb y x) eqn:E.
  - apply str_eqb_eq in E. subst. intros _. reflexivity.
  - intros [->|Hin]; [rewrite str_eqb_refl in E; discriminate|].
    etransitivity; [apply perm_skip; apply IH; exact Hin|apply perm_swap].
Qed.

Lemma filter_all : forall {A} (f : A -> bool) l, (forall a, In a l -> f a = true) -> filter f l = l.
Proof.
  intros A f l. induction l as [|y l IH]; intro H; cbn; [reflexivity|].
  rewrite (H y (or_introl eq_refl)). f_equal. apply IH. intros a Ha. apply H. right. exact Ha.
Qed.

Lemma remove_first_filter : forall x l, NoDup l ->
  remove_first str_eqb x l = filter (fun y => negb (str_eqb x y)) l.
Proof.
  intros x l H. induction H as [|y l Hni Hnd IH]; cbn; [reflexivity|].
  rewrite (str_eqb_sym x y). destruct (str_eqb y x) eqn:E; cbn.
  - apply str_eqb_eq in E. subst. symmetry. apply filter_all.
    intros a Ha. destruct (str_eqb x a) eqn:E2; [|reflexivity]. apply str_eqb_eq in E2. subst. contradiction.
  - f_equal. exact IH.
Qed.

Lemma seed_request_perm : forall caps req,
  Permutation req (fst (seed_request caps req) ++ snd (seed_request caps req)).
Proof.
  intros caps req. unfold seed_request.
  assert (G : forall caps (acc : list str * list str),
             Permutation (fst acc ++ snd acc)
               (fst (fold_left (fun (acc : list str * list str) (e : entry) =>
                  if captype_eqb (fst (snd e)) PROXY_ONLY && str_mem (fst e) (fst acc)
                  then (remove_first str_eqb (fst e) (fst acc), (snd acc ++ [fst e])%list) else acc) caps acc) ++
                snd (fold_left (fun (acc : list str * list str) (e : entry) =>
                  if captype_eqb (fst (snd e)) PROXY_ONLY && str_mem (fst e) (fst acc)
                  then (remove_first str_eqb (fst e) (fst acc), (snd acc ++ [fst e])%list) else acc) caps acc))).
  { clear. induction caps as [|e caps IH]; intros acc; cbn [fold_left]; [reflexivity|].
    etransitivity; [|apply IH].
    destruct (captype_eqb (fst (snd e)) PROXY_ONLY && str_mem (fst e) (fst acc)) eqn:E; [|reflexivity].
    apply andb_true_iff in E as [_ E]. apply str_mem_In in E. cbn [fst snd].
    rewrite (remove_first_perm _ _ E) at 1. cbn. rewrite app_assoc.
    apply Permutation_cons_app. rewrite app_nil_r. reflexivity. }
  specialize (G caps (req, [])). cbn [fst snd] in G. rewrite app_nil_r in G. exact G.
Qed.

Definition sr_step (acc : list str * list str) (e : entry) : list str * list str :=
  if captype_eqb (fst (snd e)) PROXY_ONLY && str_mem (fst e) (fst acc)
  then (remove_first str_eqb (fst e) (fst acc), (snd acc ++ [fst e])%list) else acc.

Lemma sr_fold_upstream : forall caps req nd,
  NoDup req -> fst (fold_left sr_step caps (req, nd)) = filter (fun n => negb (proxy_name caps n)) req.
Proof.
  induction caps as [|e caps IH]; intros req nd Hnd; cbn [fold_left].
  - cbn. symmetry. apply filter_all. reflexivity.
  - unfold sr_step at 2. cbn [fst snd proxy_name existsb].
    destruct (captype_eqb (fst (snd e)) PROXY_ONLY) eqn:Et; cbn [andb].
    + destruct (str_mem (fst e) req) eqn:Em.
      * rewrite IH.
        -- rewrite (remove_first_filter _ _ Hnd). clear. unfold proxy_name.
           induction req as [|y req IHr]; cbn [filter]; [reflexivity|].
           rewrite andb_true_r.
           destruct (str_eqb (fst e) y); cbn [negb orb filter]; [exact IHr|].
           destruct (existsb _ caps); cbn [negb]; [exact IHr|f_equal; exact IHr].
        -- rewrite (remove_first_filter _ _ Hnd). apply NoDup_filter. exact Hnd.
      * rewrite IH by exact Hnd. apply filter_ext_in. intros a Ha. rewrite andb_true_r.
        destruct (str_eqb (fst e) a) eqn:E; [|reflexivity]. apply str_eqb_eq in E. subst.
        apply str_mem_In in Ha. congruence.
    + rewrite IH by exact Hnd. apply filter_ext. intro a. rewrite andb_false_r. reflexivity.
Qed.

Lemma seed_request_upstream : forall caps req,
  NoDup req -> fst (seed_request caps req) = filter (fun n => negb (proxy_name caps n)) req.
Proof. intros caps req H. exact (sr_fold_upstream caps req [] H). Qed.

(* ---------- seed response ---------- *)

Lemma update_caps_mono : forall caps r e, In e (r_caps r) -> In e (r_caps (update_caps r caps)).
Proof.
  unfold update_caps. induction caps as [|[k v] caps IH]; intros r e H; cbn [fold_left fst snd]; [exact H|].
  apply IH. destruct v as [u|t]; [|exact H]. destruct (prefix c_http u); [|exact H].
  cbn. apply md_add_In. right. exact H.
Qed.

Lemma update_caps_grants : forall caps r k u,
  In (k, VStr u) caps -> prefix c_http u = true -> In (k, (NORMAL, u)) (r_caps (update_caps r caps)).
Proof.
  induction caps as [|[k0 v0] caps IH]; intros r k u H Hp; [destruct H|]. destruct H as [H|H].
  - inversion H; subst. unfold update_caps. cbn [fold_left fst snd]. rewrite Hp.
    apply (update_caps_mono caps). cbn. apply md_add_In. left. reflexivity.
  - unfold update_caps. cbn [fold_left]. apply IH; assumption.
Qed.

Section SeedResponse.
  Variable wrap : str -> str -> str -> str.

  Lemma seed_wrap_mono : forall worder r p res r' e,
    seed_wrap wrap worder r p = (res, r') -> In e (r_caps r) -> In e (r_caps r').
  Proof.
    induction worder as [|n t IH]; intros r p res r' e E H; cbn [seed_wrap] in E.
    - inversion E; subst. exact H.
    - destruct (dict_mem n p); [|eapply IH; eassumption].
      unfold register_wrapper_cap in E.
      destruct (md_get n (r_caps r)) as [[t1 u1]|]; [|inversion E; subst; exact H].
      destruct (md_get c_Seed (r_caps r)) as [[t2 s2]|]; [|inversion E; subst; exact H].
      eapply IH; [exact E|]. cbn. apply md_add_In. right. exact H.
  Qed.

  Lemma seed_wrap_keeps : forall worder r p p' r' k v,
    seed_wrap wrap worder r p = (Some p', r') -> ~ In k worder -> In (k, v) p -> In (k, v) p'.
  Proof.
    induction worder as [|n t IH]; intros r p p' r' k v E Hni H; cbn [seed_wrap] in E.
    - inversion E; subst. exact H.
    - assert (Hk : k <> n) by (intro; subst; apply Hni; left; reflexivity).
      assert (Hni' : ~ In k t) by (intro; apply Hni; right; assumption).
      destruct (dict_mem n p); [|eapply IH; eassumption].
      destruct (register_wrapper_cap wrap r n) as [[w r1]|]; [|discriminate].
      eapply IH; [exact E|exact Hni'|]. apply dict_set_keeps; assumption.
  Qed.

  Lemma seed_needed_keeps : forall needed r p p' k v,
    seed_needed needed r p = Some p' -> ~ In k needed -> In (k, v) p -> In (k, v) p'.
  Proof.
    induction needed as [|n t IH]; intros r p p' k v E Hni H; cbn [seed_needed] in E.
    - inversion E; subst. exact H.
    - destruct (cap_url r n) as [u|]; [|discriminate].
      eapply IH; [exact E| |].
      + intro; apply Hni; right; assumption.
      + apply dict_set_keeps; [|exact H]. intro; subst; apply Hni; left; reflexivity.
  Qed.

  Lemma seed_needed_adds : forall needed r p p' k,
    seed_needed needed r p = Some p' -> In k needed -> exists u, cap_url r k = Some u /\ In (k, VStr u) p'.
  Proof.
    induction needed as [|n t IH]; intros r p p' k E Hin; cbn [seed_needed] in E; [destruct Hin|].
    destruct (cap_url r n) as [u|] eqn:Eu; [|discriminate].
    destruct (in_dec (list_eq_dec ascii_dec) k t) as [Ht|Ht].
    - eapply IH; eassumption.
    - destruct Hin as [->|Hin]; [|contradiction]. exists u. split; [exact Eu|].
      eapply seed_needed_keeps; [exact E|exact Ht|apply dict_set_has].
  Qed.

  (* the rewritten seed response: every entry the simulator sent that is neither a wrapped asset cap nor a
     requested proxy-only cap is still there; every http grant is registered; requested proxy caps are added *)
  Theorem seed_response_spec : forall worder needed r body p' r',
    seed_response wrap worder needed r body = (Some p', r') ->
    (forall k v, In (k, v) body -> ~ In k worder -> ~ In k needed -> In (k, v) p') /\
    (forall k u, In (k, VStr u) body -> prefix c_http u = true -> In (k, (NORMAL, u)) (r_caps r')) /\
    (forall k, In k needed -> exists u, cap_url r' k = Some u /\ In (k, VStr u) p') /\
    (forall e, In e (r_caps r) -> In e (r_caps r')).
  Proof.
    intros worder needed r body p' r'. unfold seed_response.
    destruct (seed_wrap wrap worder (update_caps r body) body) as [[p2|] r2] eqn:Ew; [|discriminate].
    intro E. inversion E as [[En Hr]]. subst r2. repeat split.
    - intros k v Hin H1 H2. eapply seed_needed_keeps; [exact En|exact H2|]. eapply seed_wrap_keeps; eassumption.
    - intros k u Hin Hp. eapply seed_wrap_mono; [exact Ew|]. apply update_caps_grants; assumption.
    - intros k Hk. eapply seed_needed_adds; eassumption.
    - intros e He. eapply seed_wrap_mono; [exact Ew|]. apply update_caps_mono. exact He.
  Qed.
End SeedResponse.

(* ---------- proxy-only caps ---------- *)

Section Proxy.
  Variable fresh : nat -> str.

  Theorem proxy_cap_idempotent : forall r n c u r1 c1,
    register_proxy_cap fresh r n c = (u, r1, c1) -> register_proxy_cap fresh r1 n c1 = (u, r1, c1).
  Proof.
    intros r n c u r1 c1. unfold register_proxy_cap at 1.
    destruct (md_get n (r_caps r)) as [[t0 u0]|] eqn:Eg.
    - destruct t0; intro E; inversion E; subst; unfold register_proxy_cap; cbn [r_caps register_cap set_caps];
        try (rewrite md_get_add_same; reflexivity). rewrite Eg. reflexivity.
    - intro E. inversion E; subst. unfold register_proxy_cap. cbn [r_caps register_cap set_caps].
      rewrite md_get_add_same. reflexivity.
  Qed.

  (* ... and it stays the answer as long as the by-name head of that name is untouched *)
  Theorem proxy_cap_stable : forall r n c u r1 c1 r2 c2,
    register_proxy_cap fresh r n c = (u, r1, c1) ->
    md_get n (r_caps r2) = md_get n (r_caps r1) ->
    register_proxy_cap fresh r2 n c2 = (u, r2, c2).
  Proof.
    intros r n c u r1 c1 r2 c2 E Hsame.
    assert (H1 : md_get n (r_caps r1) = Some (PROXY_ONLY, u)).
    { revert E. unfold register_proxy_cap. destruct (md_get n (r_caps r)) as [[t0 u0]|] eqn:Eg.
      - destruct t0; intro E; inversion E; subst; cbn [r_caps register_cap set_caps];
          try (apply md_get_add_same). exact Eg.
      - intro E; inversion E; subst. cbn. apply md_get_add_same. }
    unfold register_proxy_cap. rewrite Hsame, H1. reflexivity.
  Qed.
End Proxy.

(* ---------- regions are registered once per circuit address ---------- *)

Lemma update_caps_addr : forall caps r, r_addr (update_caps r caps) = r_addr r.
Proof.
  unfold update_caps. induction caps as [|[k v] caps IH]; intros r; cbn [fold_left fst snd]; [reflexivity|].
  rewrite IH. destruct v as [u|t]; [|reflexivity]. destruct (prefix c_http u); reflexivity.
Qed.

Lemma register_region_scan_addrs : forall rs ri addr seed handle i rs',
  register_region_scan ri rs addr seed handle = Some (i, rs') -> map r_addr rs' = map r_addr rs.
Proof.
  induction rs as [|r rs IH]; intros ri addr seed handle i rs' E; cbn [register_region_scan] in E; [discriminate|].
  destruct (opt_N_eqb (r_addr r) addr).
  - injection E as _ <-. cbn [map]. f_equal.
    destruct (truthy_N handle); destruct (truthy_str seed && negb (opt_str_eqb (cap_url r c_Seed) seed));
      cbn [set_handle r_addr]; try reflexivity;
      exact (update_caps_addr [(c_Seed, match seed with Some s => VStr s | None => VOther 0 end)] r).
  - destruct (truthy_str seed && opt_str_eqb (cap_url r c_Seed) seed).
    + injection E as _ <-. reflexivity.
    + destruct (register_region_scan (S ri) rs addr seed handle) as [[j t']|] eqn:Et; [|discriminate].
      injection E as _ <-. cbn [map]. f_equal. eapply IH. exact Et.
Qed.

Lemma opt_N_eqb_eq : forall a b, opt_N_eqb a b = true <-> a = b.
Proof.
  intros [a|] [b|]; cbn; split; intro H; try discriminate; try reflexivity.
  - apply N.eqb_eq in H. congruence.
  - inversion H. apply N.eqb_refl.
Qed.

Lemma register_region_scan_none : forall rs ri addr seed handle,
  register_region_scan ri rs addr seed handle = None -> ~ In addr (map r_addr rs).
Proof.
  induction rs as [|r rs IH]; intros ri addr seed handle E; cbn [register_region_scan] in E; [intros []|].
  destruct (opt_N_eqb (r_addr r) addr) eqn:Ea; [discriminate|].
  destruct (truthy_str seed && opt_str_eqb (cap_url r c_Seed) seed); [discriminate|].
  destruct (register_region_scan (S ri) rs addr seed handle) as [[j t']|] eqn:Et; [discriminate|].
  cbn [map]. intros [H|H].
  - apply opt_N_eqb_eq in H. congruence.
  - exact (IH _ _ _ _ Et H).
Qed.

(* announcing a region any number of times never creates a second region for the same circuit address *)
Theorem register_once : forall s addr seed handle i s',
  NoDup (map r_addr (s_regions s)) -> register_region s addr seed handle = Some (i, s') ->
  NoDup (map r_addr (s_regions s')) /\
  (map r_addr (s_regions s') = map r_addr (s_regions s) \/
   (~ In addr (map r_addr (s_regions s)) /\ map r_addr (s_regions s') = map r_addr (s_regions s) ++ [addr])).
Proof.
  intros s addr seed handle i s' Hnd. unfold register_region.
  destruct (negb match addr with Some _ => true | None => false end && negb (truthy_str seed)); [discriminate|].
  destruct (register_region_scan 0 (s_regions s) addr seed handle) as [[j rs']|] eqn:Es.
  - intro E. inversion E; subst. cbn [s_regions set_regions].
    rewrite (register_region_scan_addrs _ _ _ _ _ _ _ Es). split; [exact Hnd|left; reflexivity].
  - destruct addr as [a|]; [|discriminate]. intro E. inversion E; subst. cbn [s_regions set_regions].
    apply register_region_scan_none in Es. rewrite map_app. cbn [map].
    assert (Ha : r_addr (new_region (Some a) seed handle) = Some a) by reflexivity. rewrite Ha.
    split; [|right; split; [exact Es|reflexivity]].
    apply (Permutation_NoDup (Permutation_cons_append _ _)). constructor; assumption.
Qed.

(* ---------- statements over whole runs ---------- *)

Section Runs.
  Variable fresh : nat -> str.
  Variable wrap : str -> str -> str -> str.

  Theorem resolve_sound : forall ops si ri e sfx,
    let m := run fresh wrap ops init_manager in
    unambiguous (m_sessions m) -> site (m_sessions m) si ri e ->
    snd (step fresh wrap m (OResolve (e_url e ++ sfx))) = OCap (site_cd si ri e).
  Proof.
    intros ops si ri e sfx m Hu Hs. cbn [step].
    pose proof (resolve_sound_state (m_sessions m) si ri e sfx (good_run fresh wrap ops _ good_init) Hu Hs) as H.
    destruct (sessions_resolve 0 (m_sessions m) (e_url e ++ sfx)) as [cd ss]. cbn in *. congruence.
  Qed.

  Theorem unknown_url_unresolved : forall ops url,
    let m := run fresh wrap ops init_manager in
    no_hits (m_sessions m) url ->
    step fresh wrap m (OResolve url) = (m, OCap empty_cd).
  Proof.
    intros ops url m Hn. cbn [step].
    rewrite (sessions_resolve_none (m_sessions m) 0 url (good_run fresh wrap ops _ good_init) Hn).
    destruct m; reflexivity.
  Qed.
End Runs.

(* ====================================================================== *)
(* Wave 2: temporary_once at SessionManager level                          *)

Lemma nth_error_upd_nth_same : forall {A} (f : A -> A) l n x,
  nth_error l n = Some x -> nth_error (upd_nth n f l) n = Some (f x).
Proof.
  intros A f l. induction l as [|y l IH]; intros [|n] x H; cbn in *; try discriminate.
  - inversion H; reflexivity.
  - apply IH. exact H.
Qed.

Lemma nth_error_upd_nth_other : forall {A} (f : A -> A) l n m, n <> m -> nth_error (upd_nth n f l) m = nth_error l m.
Proof.
  intros A f l. induction l as [|y l IH]; intros [|n] [|m] H; cbn; try reflexivity; try contradiction.
  apply IH. congruence.
Qed.

Lemma upd_nth_id : forall {A} (f : A -> A) l n x, nth_error l n = Some x -> f x = x -> upd_nth n f l = l.
Proof.
  intros A f l. induction l as [|y l IH]; intros [|n] x H Hf; cbn in *; try discriminate; try reflexivity.
  - inversion H; subst. rewrite Hf. reflexivity.
  - f_equal. eapply IH; eassumption.
Qed.

Lemma resolve_cap_none_same : forall r url c r', resolve_cap r url c = (None, r') -> r' = r.
Proof.
  intros r url c r'. unfold resolve_cap.
  destruct (find (fun le : lentry => prefix (fst le) url) (r_lookup r)) as [[u0 [t0 n0]]|].
  - destruct (captype_eqb t0 TEMPORARY && c); discriminate.
  - intro E. inversion E. reflexivity.
Qed.

(* what a lookup did: nothing (miss), or it hit region j (possibly consuming a temporary cap there) *)
Lemma regions_resolve_effect : forall rs si ri url res rs',
  regions_resolve si ri rs url = (res, rs') ->
  (res = None /\ rs' = rs) \/
  exists j r r' name u ty,
    nth_error rs j = Some r /\ resolve_cap r url true = (Some (name, u, ty), r') /\
    res = Some (capdata_of si (ri + j) name ty u) /\ rs' = upd_nth j (fun _ => r') rs.
Proof.
  induction rs as [|r rs IH]; intros si ri url res rs' E; cbn [regions_resolve] in E.
  - inversion E. left. split; reflexivity.
  - destruct (resolve_cap r url true) as [[[[name base] ty]|] r1] eqn:Er.
    + inversion E; subst. right. exists 0, r, r1, name, base, ty. rewrite Nat.add_0_r. repeat split; first [reflexivity|assumption].
    + apply resolve_cap_none_same in Er as Hr. subst r1.
      destruct (regions_resolve si (S ri) rs url) as [res2 t'] eqn:Et. inversion E; subst.
      destruct (IH _ _ _ _ _ Et) as [[H1 H2]|[j [r0 [r' [name [u [ty [Hn [Hr [Hres Hrs]]]]]]]]]].
      * left. subst. split; reflexivity.
      * right. exists (S j), r0, r', name, u, ty. rewrite Nat.add_succ_r. cbn. subst. repeat split; first [reflexivity|assumption].
Qed.

Definition upd_session_region (ri : nat) (r' : Region) (s : Session) : Session :=
  set_regions s (upd_nth ri (fun _ => r') (s_regions s)).

Lemma session_resolve_effect : forall s si url res s',
  session_resolve si s url = (res, s') ->
  (res = None /\ s' = s) \/
  (exists n u, res = Some (global_cd n u) /\ s' = s) \/
  exists ri r r' name u ty,
    nth_error (s_regions s) ri = Some r /\ resolve_cap r url true = (Some (name, u, ty), r') /\
    res = Some (capdata_of si ri name ty u) /\ s' = upd_session_region ri r' s.
Proof.
  intros s si url res s'. unfold session_resolve.
  destruct (find (fun g : str * str => prefix (snd g) url) (s_global s)) as [[n u]|].
  - intro E. inversion E; subst. right. left. exists n, u. split; reflexivity.
  - destruct (regions_resolve si 0 (s_regions s) url) as [r rs'] eqn:Er. intro E. inversion E; subst.
    destruct (regions_resolve_effect _ _ _ _ _ _ Er) as [[H1 H2]|[j [r0 [r' [name [u [ty [Hn [Hr [Hres Hrs]]]]]]]]]].
    + left. subst. rewrite set_regions_same. split; reflexivity.
    + right. right. exists j, r0, r', name, u, ty. cbn [Nat.add] in Hres. subst. repeat split; first [reflexivity|assumption].
Qed.

Lemma global_cd_falsy_or_truthy : forall n u, cd_truthy (global_cd n u) = truthy_str (Some n).
Proof. intros. unfold cd_truthy, global_cd. cbn. apply orb_false_r. Qed.

Lemma sessions_resolve_effect : forall ss k url cd ss',
  sessions_resolve k ss url = (cd, ss') ->
  (cd = empty_cd /\ ss' = ss) \/
  (exists n u, cd = global_cd n u /\ ss' = ss) \/
  exists i s ri r r' name u ty,
    nth_error ss i = Some s /\ nth_error (s_regions s) ri = Some r /\
    resolve_cap r url true = (Some (name, u, ty), r') /\
    cd = capdata_of (k + i) ri name ty u /\ ss' = upd_nth i (upd_session_region ri r') ss.
Proof.
  induction ss as [|s ss IH]; intros k url cd ss' E; cbn [sessions_resolve] in E.
  - inversion E. left. split; reflexivity.
  - destruct (session_resolve k s url) as [[cd'|] s1] eqn:Es.
    + destruct (session_resolve_effect _ _ _ _ _ Es) as [[H _]|[[n [u [H1 H2]]]|[ri [r [r' [name [u [ty [Hn [Hr [Hres Hs]]]]]]]]]]];
        [discriminate| |].
      * inversion H1; subst cd' s1. destruct (cd_truthy (global_cd n u)).
        -- inversion E; subst. right. left. exists n, u. split; reflexivity.
        -- destruct (sessions_resolve (S k) ss url) as [r2 t'] eqn:Et. inversion E; subst.
           destruct (IH _ _ _ _ Et) as [[H3 H4]|[[n' [u' [H3 H4]]]|[i [s0 [ri [r [r' [name [u0 [ty [Hi [Hn [Hr [Hres Hs]]]]]]]]]]]]]].
           ++ left. subst. split; reflexivity.
           ++ right. left. exists n', u'. subst. split; reflexivity.
           ++ right. right. exists (S i), s0, ri, r, r', name, u0, ty. rewrite Nat.add_succ_r. cbn. subst. repeat split; first [reflexivity|assumption].
      * inversion Hres; subst cd'. rewrite capdata_of_truthy in E. inversion E; subst.
        right. right. exists 0, s, ri, r, r', name, u, ty. rewrite Nat.add_0_r. repeat split; first [reflexivity|assumption].
    + destruct (session_resolve_effect _ _ _ _ _ Es) as [[_ H]|[[n [u [H1 _]]]|[ri [r [r' [name [u [ty [_ [_ [Hres _]]]]]]]]]]];
        [|discriminate|discriminate]. subst s1.
      destruct (sessions_resolve (S k) ss url) as [r2 t'] eqn:Et. inversion E; subst.
      destruct (IH _ _ _ _ Et) as [[H3 H4]|[[n' [u' [H3 H4]]]|[i [s0 [ri [r [r' [name [u0 [ty [Hi [Hn [Hr [Hres Hs]]]]]]]]]]]]]].
      * left. subst. split; reflexivity.
      * right. left. exists n', u'. subst. split; reflexivity.
      * right. right. exists (S i), s0, ri, r, r', name, u0, ty. rewrite Nat.add_succ_r. cbn. subst. repeat split; first [reflexivity|assumption].
Qed.

Lemma unambiguous_all_hits : forall ss si ri e sfx,
  unambiguous ss -> site ss si ri e -> all_hits 0 ss (e_url e ++ sfx) (site_cd si ri e).
Proof.
  intros ss si ri e sfx [Hu1 Hu2] Hs i s Hi. split.
  - intros n u Hin Hp. apply (Hu2 si ri e i s n u Hs Hi Hin).
    exact (prefix_comparable _ _ _ Hp (prefix_app _ _)).
  - intros ri' r e' Hr Hin Hp. cbn [Nat.add]. symmetry. apply Hu1; [exact Hs | exists s, r; auto |].
    exact (prefix_comparable _ _ _ (prefix_app _ _) Hp).
Qed.

Lemma site_cd_inj_nonasset : forall i' ri' e0 si ri n t u,
  is_asset_server_cap_name n = false ->
  site_cd i' ri' e0 = site_cd si ri (n, (t, u)) -> i' = si /\ ri' = ri /\ e0 = (n, (t, u)).
Proof.
  intros i' ri' [n0 [t0 u0]] si ri n t u Ha. unfold site_cd, capdata_of. cbn [fst snd]. rewrite Ha. cbn [andb].
  destruct (is_asset_server_cap_name n0 && negb (captype_eqb t0 WRAPPER)); intro H; inversion H; subst.
  repeat split.
Qed.

(* temporary_once at SessionManager level: the first lookup of a one-shot URL resolves to it (name, type,
   region, session) and removes exactly that grant from exactly that region; the second lookup of the same
   URL finds nothing and changes nothing *)
Theorem temporary_once_state : forall ss si ri n u sfx,
  Forall good_session ss -> unambiguous ss ->
  site ss si ri (n, (TEMPORARY, u)) ->
  is_asset_server_cap_name n = false ->
  (forall s r, nth_error ss si = Some s -> nth_error (s_regions s) ri = Some r ->
               count_occ tu_dec (md_getall n (r_caps r)) (TEMPORARY, u) = 1) ->
  exists s r r',
    nth_error ss si = Some s /\ nth_error (s_regions s) ri = Some r /\
    resolve_cap r (u ++ sfx) true = (Some (n, u, TEMPORARY), r') /\
    sessions_resolve 0 ss (u ++ sfx) =
      (site_cd si ri (n, (TEMPORARY, u)), upd_nth si (upd_session_region ri r') ss) /\
    sessions_resolve 0 (upd_nth si (upd_session_region ri r') ss) (u ++ sfx) =
      (empty_cd, upd_nth si (upd_session_region ri r') ss).
Proof.
  intros ss si ri n u sfx Hg Hu Hs Ha Hcnt.
  pose proof (resolve_sound_state ss si ri _ sfx Hg Hu Hs) as Hfirst. cbn [e_url snd] in Hfirst.
  pose proof (unambiguous_all_hits ss si ri _ sfx Hu Hs) as Hall. cbn [e_url snd] in Hall.
  destruct (sessions_resolve 0 ss (u ++ sfx)) as [cd ss'] eqn:E. cbn [fst] in Hfirst. subst cd.
  pose proof (good_sessions_resolve _ _ _ _ _ Hg E) as Hg'.
  destruct (sessions_resolve_effect _ _ _ _ _ E)
    as [[H _]|[[n0 [u0 [H _]]]|[i [s [ri' [r [r' [name [u' [ty [Hi [Hr [Hres [Hcd Hss]]]]]]]]]]]]]].
  - exfalso. revert H. unfold site_cd, capdata_of. cbn [fst snd]. rewrite Ha. discriminate.
  - exfalso. revert H. unfold site_cd, capdata_of, global_cd. cbn [fst snd]. rewrite Ha. discriminate.
  - cbn [Nat.add] in Hcd. symmetry in Hcd.
    destruct (site_cd_inj_nonasset i ri' (name, (ty, u')) si ri n TEMPORARY u Ha Hcd) as [-> [-> Heq]].
    inversion Heq; subst name ty u'. clear Heq Hcd.
    exists s, r, r'. split; [exact Hi|]. split; [exact Hr|]. split; [exact Hres|]. subst ss'. split; [reflexivity|].
    assert (Hgs : good_session s) by exact (Forall_nth_error good_session ss si s Hg Hi).
    assert (Hgr : good_region r) by exact (Forall_nth_error good_region _ ri r Hgs Hr).
    (* in region (si, ri) nothing hits any more *)
    assert (Hnone : resolve_cap r' (u ++ sfx) true = (None, r')).
    { apply (temporary_once_region r (u ++ sfx) n u r' Hgr Hres); [|exact (Hcnt s r Hi Hr)].
      intros e He Hp. destruct (Hall si s Hi) as [_ Hb]. specialize (Hb ri r e Hr He Hp).
      apply (site_cd_inj_nonasset si ri e si ri n TEMPORARY u Ha) in Hb. apply Hb. }
    assert (Hgr' : good_region r') by (eapply good_resolve_cap; eassumption).
    destruct (resolve_cap_miss _ _ _ _ (proj1 Hgr') Hnone) as [_ Hmiss].
    apply sessions_resolve_none; [exact Hg'|].
    intros i' s' Hi'.
    destruct (Nat.eq_dec si i') as [<-|Hne].
    + rewrite (nth_error_upd_nth_same _ _ _ _ Hi) in Hi'. inversion Hi'; subst s'. clear Hi'. split.
      * intros n0 u0 Hin. cbn [upd_session_region set_regions s_global] in Hin.
        destruct (prefix u0 (u ++ sfx)) eqn:Ep; [|reflexivity]. exfalso.
        destruct (Hall si s Hi) as [Hglob _]. specialize (Hglob n0 u0 Hin Ep).
        revert Hglob. unfold site_cd, capdata_of, global_cd. cbn [fst snd]. rewrite Ha. discriminate.
      * intros rj r0 e0 Hr0 Hin0. cbn [upd_session_region set_regions s_regions] in Hr0.
        destruct (Nat.eq_dec ri rj) as [<-|Hnr].
        -- rewrite (nth_error_upd_nth_same _ _ _ _ Hr) in Hr0. inversion Hr0; subst r0. apply Hmiss. exact Hin0.
        -- rewrite nth_error_upd_nth_other in Hr0 by exact Hnr.
           destruct (prefix (e_url e0) (u ++ sfx)) eqn:Ep; [|reflexivity]. exfalso.
           destruct (Hall si s Hi) as [_ Hb]. specialize (Hb rj r0 e0 Hr0 Hin0 Ep).
           apply (site_cd_inj_nonasset si rj e0 si ri n TEMPORARY u Ha) in Hb. destruct Hb as [_ [Hb _]]. congruence.
    + rewrite nth_error_upd_nth_other in Hi' by exact Hne. destruct (Hall i' s' Hi') as [Hglob Hb]. split.
      * intros n0 u0 Hin. destruct (prefix u0 (u ++ sfx)) eqn:Ep; [|reflexivity]. exfalso.
        specialize (Hglob n0 u0 Hin Ep).
        revert Hglob. unfold site_cd, capdata_of, global_cd. cbn [fst snd]. rewrite Ha. discriminate.
      * intros rj r0 e0 Hr0 Hin0. destruct (prefix (e_url e0) (u ++ sfx)) eqn:Ep; [|reflexivity]. exfalso.
        specialize (Hb rj r0 e0 Hr0 Hin0 Ep). cbn [Nat.add] in Hb.
        apply (site_cd_inj_nonasset i' rj e0 si ri n TEMPORARY u Ha) in Hb. destruct Hb as [Hb _]. congruence.
Qed.

Section RunsTemp.
  Variable fresh : nat -> str.
  Variable wrap : str -> str -> str -> str.

  (* ... over op sequences: after ANY run, with unambiguous grants, a once-granted non-asset TEMPORARY cap
     resolves on the first lookup (to its name, type, region, session), the lookup removes exactly that grant
     (every other by-name list of every region is unchanged), and the second lookup resolves to nothing *)
  Theorem temporary_once : forall ops si ri n u sfx,
    let m := run fresh wrap ops init_manager in
    unambiguous (m_sessions m) ->
    site (m_sessions m) si ri (n, (TEMPORARY, u)) ->
    is_asset_server_cap_name n = false ->
    (forall r, get_region m si ri = Some r -> count_occ tu_dec (md_getall n (r_caps r)) (TEMPORARY, u) = 1) ->
    let m1 := fst (step fresh wrap m (OResolve (u ++ sfx))) in
    snd (step fresh wrap m (OResolve (u ++ sfx))) = OCap (site_cd si ri (n, (TEMPORARY, u))) /\
    step fresh wrap m1 (OResolve (u ++ sfx)) = (m1, OCap empty_cd) /\
    (forall si' ri', (si', ri') <> (si, ri) -> get_region m1 si' ri' = get_region m si' ri') /\
    (exists r r', get_region m si ri = Some r /\ get_region m1 si ri = Some r' /\
       forall n', md_getall n' (r_caps r') =
                  if str_eqb n n' then remove_first tu_eqb (TEMPORARY, u) (md_getall n (r_caps r))
                  else md_getall n' (r_caps r)).
  Proof.
    intros ops si ri n u sfx m Hu Hs Ha Hcnt m1.
    assert (Hg : good_manager m) by (apply good_run; apply good_init).
    destruct (temporary_once_state (m_sessions m) si ri n u sfx Hg Hu Hs Ha) as [s [r [r' [Hi [Hr [Hres [H1 H2]]]]]]].
    { intros s r Hi Hr. apply Hcnt. unfold get_region. rewrite Hi. exact Hr. }
    subst m1. cbn [step]. rewrite H1. cbn [fst snd set_sessions m_sessions]. rewrite H2.
    split; [reflexivity|]. split; [destruct m; reflexivity|]. split.
    - intros si' ri' Hne. unfold get_region. cbn [m_sessions set_sessions].
      destruct (Nat.eq_dec si si') as [<-|Hns].
      + rewrite (nth_error_upd_nth_same _ _ _ _ Hi), Hi. cbn [upd_session_region set_regions s_regions].
        apply nth_error_upd_nth_other. congruence.
      + rewrite nth_error_upd_nth_other by exact Hns. reflexivity.
    - exists r, r'. unfold get_region. cbn [m_sessions set_sessions]. rewrite Hi, (nth_error_upd_nth_same _ _ _ _ Hi).
      cbn [upd_session_region set_regions s_regions]. rewrite (nth_error_upd_nth_same _ _ _ _ Hr).
      split; [exact Hr|]. split; [reflexivity|].
      assert (Hgr : good_region r) by (eapply good_get_region; [exact Hg|unfold get_region; rewrite Hi; exact Hr]).
      exact (proj1 (proj2 (resolve_cap_consume _ _ _ _ _ Hgr Hres))).
  Qed.
End RunsTemp.

(* ====================================================================== *)
(* Wave 2: the wrapped-asset clause of the seed response                   *)

Lemma dict_get_set_same : forall {V} k (v : V) d, dict_get k (dict_set k v d) = Some v.
Proof.
  intros V k v d. induction d as [|[k0 v0] d IH]; cbn.
  - rewrite str_eqb_refl. reflexivity.
  - destruct (str_eqb k0 k) eqn:E; cbn; rewrite E; [reflexivity|exact IH].
Qed.

Lemma dict_get_set_other : forall {V} k k' (v : V) d, k' <> k -> dict_get k' (dict_set k v d) = dict_get k' d.
Proof.
  intros V k k' v d Hne. induction d as [|[k0 v0] d IH]; cbn.
  - destruct (str_eqb k k') eqn:E; [apply str_eqb_eq in E; congruence|reflexivity].
  - destruct (str_eqb k0 k) eqn:E; cbn.
    + apply str_eqb_eq in E. subst k0. destruct (str_eqb k k') eqn:E2; [apply str_eqb_eq in E2; congruence|reflexivity].
    + destruct (str_eqb k0 k'); [reflexivity|exact IH].
Qed.

Lemma dict_mem_set_other : forall {V} k k' (v : V) d, k' <> k -> dict_mem k' (dict_set k v d) = dict_mem k' d.
Proof. intros. unfold dict_mem. rewrite dict_get_set_other by assumption. reflexivity. Qed.

Lemma update_caps_keep_head : forall body r k,
  ~ In k (map fst body) -> md_get k (r_caps (update_caps r body)) = md_get k (r_caps r).
Proof.
  unfold update_caps. induction body as [|[k2 v2] body IH]; intros r k Hni; cbn [fold_left fst snd]; [reflexivity|].
  cbn [map fst] in Hni. rewrite IH by (intro; apply Hni; right; assumption).
  destruct v2 as [u2|t2]; [|reflexivity]. destruct (prefix c_http u2); [|reflexivity].
  cbn. apply md_get_add_other. intro; subst; apply Hni; left; reflexivity.
Qed.

Lemma update_caps_head : forall body r k u0,
  NoDup (map fst body) -> In (k, VStr u0) body -> prefix c_http u0 = true ->
  md_get k (r_caps (update_caps r body)) = Some (NORMAL, u0).
Proof.
  induction body as [|[k1 v1] body IH]; intros r k u0 Hnd Hin Hp; [destruct Hin|].
  cbn [map fst] in Hnd. inversion Hnd as [|? ? Hni Hnd']; subst.
  destruct Hin as [H|H].
  - inversion H; subst.
    change (update_caps r ((k, VStr u0) :: body)) with
      (update_caps (if prefix c_http u0 then register_cap r k u0 NORMAL else r) body).
    rewrite Hp, (update_caps_keep_head body _ k Hni). cbn. apply md_get_add_same.
  - change (update_caps r ((k1, v1) :: body)) with
      (update_caps (match v1 with VStr u => if prefix c_http u then register_cap r k1 u NORMAL else r | VOther _ => r end) body).
    apply IH; assumption.
Qed.

Lemma dict_mem_In : forall {V} k (v : V) d, In (k, v) d -> dict_mem k d = true.
Proof.
  intros V k v d. unfold dict_mem. induction d as [|[k1 v1] d IH]; intro H; [destruct H|]. cbn.
  destruct (str_eqb k1 k) eqn:E; [reflexivity|]. destruct H as [H|H].
  - inversion H; subst. rewrite str_eqb_refl in E. discriminate.
  - apply IH. exact H.
Qed.

Section WrapClause.
  Variable wrap : str -> str -> str -> str.

  Lemma seed_wrap_get_other : forall worder r p p' r' k,
    seed_wrap wrap worder r p = (Some p', r') -> ~ In k worder -> dict_get k p' = dict_get k p.
  Proof.
    induction worder as [|n t IH]; intros r p p' r' k E Hni; cbn [seed_wrap] in E.
    - inversion E; subst. reflexivity.
    - assert (Hk : k <> n) by (intro; subst; apply Hni; left; reflexivity).
      assert (Hni' : ~ In k t) by (intro; apply Hni; right; assumption).
      destruct (dict_mem n p); [|eapply IH; eassumption].
      destruct (register_wrapper_cap wrap r n) as [[w r1]|]; [|discriminate].
      rewrite (IH _ _ _ _ _ E Hni'). apply dict_get_set_other. exact Hk.
  Qed.

  Lemma seed_needed_get_other : forall needed r p p' k,
    seed_needed needed r p = Some p' -> ~ In k needed -> dict_get k p' = dict_get k p.
  Proof.
    induction needed as [|n t IH]; intros r p p' k E Hni; cbn [seed_needed] in E.
    - inversion E; subst. reflexivity.
    - destruct (cap_url r n) as [u|]; [|discriminate].
      rewrite (IH _ _ _ _ E) by (intro; apply Hni; right; assumption).
      apply dict_get_set_other. intro; subst; apply Hni; left; reflexivity.
  Qed.

  (* no wrappable name is another wrappable name (or "Seed") with "ProxyWrapper" appended *)
  Definition wrapper_names_disjoint (worder : list str) : Prop :=
    forall a, In a worder -> forall b, In b worder \/ b = c_Seed -> (a ++ c_ProxyWrapper)%list <> b.

  Lemma seed_wrap_exact : forall worder r p p' r',
    wrapper_names_disjoint worder ->
    seed_wrap wrap worder r p = (Some p', r') ->
    forall k, In k worder -> dict_mem k p = true ->
    exists t u ts seed,
      md_get k (r_caps r) = Some (t, u) /\ md_get c_Seed (r_caps r) = Some (ts, seed) /\
      dict_get k p' = Some (VStr (wrap k seed u)) /\
      In ((k ++ c_ProxyWrapper)%list, (WRAPPER, wrap k seed u)) (r_caps r').
  Proof.
    induction worder as [|a t IH]; intros r p p' r' Hd E k Hk Hm; [destruct Hk|].
    assert (Hd' : wrapper_names_disjoint t).
    { intros x Hx b Hb. apply Hd; [right; exact Hx|]. destruct Hb as [Hb|Hb]; [left; right; exact Hb|right; exact Hb]. }
    cbn [seed_wrap] in E.
    destruct (dict_mem a p) eqn:Ema.
    - destruct (register_wrapper_cap wrap r a) as [[w r1]|] eqn:Ew; [|discriminate].
      unfold register_wrapper_cap in Ew.
      destruct (md_get a (r_caps r)) as [[t1 u1]|] eqn:Ea; [|discriminate].
      destruct (md_get c_Seed (r_caps r)) as [[t2 s2]|] eqn:Es; [|discriminate].
      inversion Ew; subst w r1. clear Ew.
      set (r1 := register_cap r (a ++ c_ProxyWrapper)%list (wrap a s2 u1) WRAPPER) in *.
      assert (Hget : forall b, In b (a :: t) \/ b = c_Seed -> md_get b (r_caps r1) = md_get b (r_caps r)).
      { intros b Hb. subst r1. cbn. apply md_get_add_other. intro Heq. symmetry in Heq. revert Heq.
        apply Hd; [left; reflexivity|exact Hb]. }
      destruct (in_dec (list_eq_dec ascii_dec) k t) as [Hkt|Hkt].
      + destruct (list_eq_dec ascii_dec k a) as [->|Hne].
        * destruct (IH _ _ _ _ Hd' E a Hkt) as [t' [u' [ts' [seed' [H1 [H2 [H3 H4]]]]]]].
          { unfold dict_mem. rewrite dict_get_set_same. reflexivity. }
          rewrite (Hget a (or_introl (or_introl eq_refl))) in H1. rewrite (Hget c_Seed (or_intror eq_refl)) in H2.
          rewrite Es in H2. inversion H2; subst ts' seed'.
          exists t', u', t2, s2. repeat split; first [assumption|reflexivity].
        * destruct (IH _ _ _ _ Hd' E k Hkt) as [t' [u' [ts' [seed' [H1 [H2 [H3 H4]]]]]]].
          { rewrite dict_mem_set_other by exact Hne. exact Hm. }
          rewrite (Hget k (or_introl Hk)) in H1. rewrite (Hget c_Seed (or_intror eq_refl)) in H2.
          rewrite Es in H2. inversion H2; subst ts' seed'.
          exists t', u', t2, s2. repeat split; first [assumption|reflexivity].
      + destruct Hk as [->|Hk]; [|contradiction].
        exists t1, u1, t2, s2. split; [first [exact Ea|reflexivity]|]. split; [first [exact Es|reflexivity]|]. split.
        * rewrite (seed_wrap_get_other _ _ _ _ _ _ E Hkt). apply dict_get_set_same.
        * eapply seed_wrap_mono; [exact E|]. subst r1. cbn. apply md_add_In. left. reflexivity.
    - destruct Hk as [->|Hk]; [congruence|]. eapply IH; eassumption.
  Qed.

  (* seed_response, wrapped-asset clause: an asset cap the simulator sent (k in the wrappable set, present
     in the body, not also a requested proxy cap) is replaced in the body by the wrapper URL built from the
     region's current Seed URL and the cap's current URL, and that wrapper URL is registered for the region
     as k+"ProxyWrapper" of type WRAPPER *)
  Theorem seed_response_wraps : forall worder needed r body p' r' k,
    wrapper_names_disjoint worder ->
    seed_response wrap worder needed r body = (Some p', r') ->
    In k worder -> dict_mem k body = true -> ~ In k needed ->
    exists t u ts seed,
      md_get k (r_caps (update_caps r body)) = Some (t, u) /\
      md_get c_Seed (r_caps (update_caps r body)) = Some (ts, seed) /\
      dict_get k p' = Some (VStr (wrap k seed u)) /\
      In ((k ++ c_ProxyWrapper)%list, (WRAPPER, wrap k seed u)) (r_caps r').
  Proof.
    intros worder needed r body p' r' k Hd. unfold seed_response.
    destruct (seed_wrap wrap worder (update_caps r body) body) as [[p2|] r2] eqn:Ew; [|discriminate].
    intros E Hk Hm Hn. inversion E as [[En Hr]]. subst r2.
    destruct (seed_wrap_exact _ _ _ _ _ Hd Ew k Hk Hm) as [t [u [ts [seed [H1 [H2 [H3 H4]]]]]]].
    exists t, u, ts, seed. repeat split; try assumption.
    rewrite (seed_needed_get_other _ _ _ _ _ En Hn). exact H3.
  Qed.

  (* ... and when the body's keys are distinct (an LLSD map) the wrapped URL is the one the simulator just sent *)
  Corollary seed_response_wraps_sent : forall worder needed r body p' r' k u0,
    wrapper_names_disjoint worder -> NoDup (map fst body) ->
    seed_response wrap worder needed r body = (Some p', r') ->
    In k worder -> In (k, VStr u0) body -> prefix c_http u0 = true -> ~ In k needed ->
    exists ts seed,
      md_get c_Seed (r_caps (update_caps r body)) = Some (ts, seed) /\
      dict_get k p' = Some (VStr (wrap k seed u0)) /\
      In ((k ++ c_ProxyWrapper)%list, (WRAPPER, wrap k seed u0)) (r_caps r').
  Proof.
    intros worder needed r body p' r' k u0 Hd Hnd E Hk Hin Hp Hn.
    assert (Hm : dict_mem k body = true) by (eapply dict_mem_In; exact Hin).
    destruct (seed_response_wraps _ _ _ _ _ _ _ Hd E Hk Hm Hn) as [t [u [ts [seed [H1 [H2 [H3 H4]]]]]]].
    rewrite (update_caps_head body r k u0 Hnd Hin Hp) in H1. inversion H1; subst.
    exists ts, seed. repeat split; assumption.
  Qed.
End WrapClause.

(* the wrapper URL as the code builds it: urlunsplit with the scheme forced to http and the netloc replaced by
   lower(name)-sha256(seed_id)[:16].hippo-proxy.localhost; sha256/lower/urlsplit are oracles *)
Section WrapOracles.
  Variable host : str -> str -> str.       (* cap name, seed id |-> f"{name.lower()}-{sha256(seed_id).hexdigest()[:16]}.hippo-proxy.localhost" *)
  Variable unsplit : str -> str -> str.    (* netloc, original URL |-> urlunsplit(["http", netloc] + urlsplit(url)[2:]) *)
  Variable seed_id : str -> str.           (* seed_url.split("/")[-1] *)

  (* sha256 (truncated to 16 hex digits) is collision-free on the seed ids in play and lower-casing separates cap names *)
  Hypothesis host_inj : forall n i n' i', host n i = host n' i' -> n = n' /\ i = i'.
  (* urlsplit recovers the netloc urlunsplit was given *)
  Hypothesis unsplit_netloc : forall h u h' u', unsplit h u = unsplit h' u' -> h = h'.

  Definition wrap_c (name seed u : str) : str := unsplit (host name (seed_id seed)) u.

  Theorem wrap_c_inj : forall n s u n' s' u', wrap_c n s u = wrap_c n' s' u' -> n = n' /\ seed_id s = seed_id s'.
  Proof. intros n s u n' s' u' H. apply unsplit_netloc in H. apply host_inj in H. exact H. Qed.

  (* wrapper URLs handed to viewers separate regions (different seed ids) and cap names *)
  Theorem wrapper_urls_distinct : forall worder needed1 needed2 r1 r2 body1 body2 p1 p2 r1' r2' k1 k2 w1 w2 t1 seed1 t2 seed2,
    wrapper_names_disjoint worder ->
    seed_response wrap_c worder needed1 r1 body1 = (Some p1, r1') ->
    seed_response wrap_c worder needed2 r2 body2 = (Some p2, r2') ->
    In k1 worder -> dict_mem k1 body1 = true -> ~ In k1 needed1 ->
    In k2 worder -> dict_mem k2 body2 = true -> ~ In k2 needed2 ->
    md_get c_Seed (r_caps (update_caps r1 body1)) = Some (t1, seed1) ->
    md_get c_Seed (r_caps (update_caps r2 body2)) = Some (t2, seed2) ->
    dict_get k1 p1 = Some (VStr w1) -> dict_get k2 p2 = Some (VStr w2) ->
    k1 <> k2 \/ seed_id seed1 <> seed_id seed2 -> w1 <> w2.
  Proof.
    intros worder needed1 needed2 r1 r2 body1 body2 p1 p2 r1' r2' k1 k2 w1 w2 t1 seed1 t2 seed2
           Hd E1 E2 Hk1 Hm1 Hn1 Hk2 Hm2 Hn2 Hs1 Hs2 Hg1 Hg2 Hdiff Heq.
    destruct (seed_response_wraps wrap_c _ _ _ _ _ _ _ Hd E1 Hk1 Hm1 Hn1) as [ta [ua [tsa [sa [_ [A2 [A3 _]]]]]]].
    destruct (seed_response_wraps wrap_c _ _ _ _ _ _ _ Hd E2 Hk2 Hm2 Hn2) as [tb [ub [tsb [sb [_ [B2 [B3 _]]]]]]].
    rewrite Hs1 in A2. inversion A2; subst. rewrite Hs2 in B2. inversion B2; subst.
    rewrite Hg1 in A3. inversion A3; subst. rewrite Hg2 in B3. inversion B3 as [Hw].
    apply wrap_c_inj in Hw. destruct Hw as [Hn Hi]. destruct Hdiff; contradiction.
  Qed.
End WrapOracles.

(* ====================================================================== *)
(* Wave 2: seed request with duplicate names                               *)

Definition str_dec : forall a b : str, {a = b} + {a <> b} := list_eq_dec ascii_dec.

(* number of PROXY_ONLY items of that name in caps *)
Definition pcount (caps : list entry) (n : str) : nat :=
  List.length (filter (fun e : entry => str_eqb (fst e) n && captype_eqb (fst (snd e)) PROXY_ONLY) caps).

Lemma remove_first_count_same : forall x l, In x l ->
  S (count_occ str_dec (remove_first str_eqb x l) x) = count_occ str_dec l x.
Proof. intros. apply remove_first_count; [apply str_eqb_eq|assumption]. Qed.

Lemma remove_first_count_other : forall x y l, y <> x ->
  count_occ str_dec (remove_first str_eqb x l) y = count_occ str_dec l y.
Proof.
  intros x y l Hne. induction l as [|z l IH]; cbn; [reflexivity|].
  destruct (str_eqb z x) eqn:E.
  - apply str_eqb_eq in E. subst z. destruct (str_dec x y); [congruence|reflexivity].
  - cbn. destruct (str_dec z y); [f_equal|]; exact IH.
Qed.

Lemma pcount_cons : forall e caps n,
  pcount (e :: caps) n =
  (if str_eqb (fst e) n && captype_eqb (fst (snd e)) PROXY_ONLY then 1 else 0) + pcount caps n.
Proof.
  intros. unfold pcount. cbn [filter].
  destruct (str_eqb (fst e) n && captype_eqb (fst (snd e)) PROXY_ONLY); reflexivity.
Qed.

Lemma sr_fold_count : forall caps l nd n,
  count_occ str_dec (fst (fold_left sr_step caps (l, nd))) n = count_occ str_dec l n - pcount caps n.
Proof.
  induction caps as [|e caps IH]; intros l nd n; cbn [fold_left].
  - unfold pcount. cbn. rewrite Nat.sub_0_r. reflexivity.
  - rewrite pcount_cons. unfold sr_step at 2. cbn [fst snd].
    destruct (captype_eqb (fst (snd e)) PROXY_ONLY) eqn:Et; cbn [andb].
    + rewrite andb_true_r. destruct (str_mem (fst e) l) eqn:Em.
      * rewrite IH. apply str_mem_In in Em.
        destruct (str_eqb (fst e) n) eqn:En.
        -- apply str_eqb_eq in En. subst n. pose proof (remove_first_count_same _ _ Em) as Hc. lia.
        -- apply str_eqb_neq in En. rewrite remove_first_count_other by congruence. reflexivity.
      * rewrite IH.
        destruct (str_eqb (fst e) n) eqn:En; [|reflexivity].
        apply str_eqb_eq in En. subst n.
        assert (Hz : count_occ str_dec l (fst e) = 0).
        { apply count_occ_not_In. intro Hin. apply str_mem_In in Hin. congruence. }
        rewrite Hz. reflexivity.
    + rewrite IH. rewrite andb_false_r. reflexivity.
Qed.

(* seed_request for ANY request list (duplicates allowed): of each name, exactly as many copies are removed
   from the upstream list as the region has PROXY_ONLY items of that name (at most all of them) *)
Theorem seed_request_counts : forall caps req n,
  count_occ str_dec (fst (seed_request caps req)) n = count_occ str_dec req n - pcount caps n.
Proof. intros. exact (sr_fold_count caps req [] n). Qed.
