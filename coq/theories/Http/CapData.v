(* Model of the cap-data (de)hydration across the process boundary:
     hippolyzer/lib/proxy/caps.py       CapData.serialize / CapData.deserialize, SerializedCapData
     hippolyzer/lib/proxy/http_flow.py  HippoHTTPFlow.get_state / from_state / __init__ (setdefault)

   Definitions only; proofs are in CapDataProofs.v.

   Strings (cap names, URLs, str(session.id), str(region.circuit_addr)) are
   tokens of type N: only their equality matters.  A weakref attribute is
   [option (option A)]: None = the attribute is None, Some None = a dead
   weakref, Some (Some x) = a live one.  Objects carry an identity [*_oid] so
   that two distinct sessions with the same id can be told apart. *)
From Coq Require Import NArith List Bool.
From HV Require Import Http.FlowOwner.
Import ListNotations.
Open Scope N_scope.

Record region := mkRegion { rg_oid : N; rg_addr : N }.
Record session := mkSession { ss_oid : N; ss_id : N; ss_regions : list region }.

Record capdata := mkCapData {
  cd_name : option N;
  cd_region : option (option region);
  cd_session : option (option session);
  cd_url : option N;
  cd_type : ctype
}.

Record sercap := mkSerCap {
  sc_name : option N;
  sc_region_addr : option N;
  sc_session_id : option N;
  sc_url : option N;
  sc_type : ctype                 (* CapType.name; CapType[name] on the way back *)
}.

Definition live {A} (w : option (option A)) : option A :=
  match w with Some (Some x) => Some x | _ => None end.

(* CapData.serialize *)
Definition serialize (c : capdata) : sercap :=
  mkSerCap (cd_name c)
           (option_map rg_addr (live (cd_region c)))
           (option_map ss_id (live (cd_session c)))
           (cd_url c)
           (cd_type c).

(* for x in l: if p x: found = x    (no break: the last match wins) *)
Definition find_last {A} (p : A -> bool) (l : list A) : option A :=
  fold_left (fun acc x => if p x then Some x else acc) l None.

Definition wref {A} (o : option A) : option (option A) :=
  match o with Some x => Some (Some x) | None => None end.

(* CapData.deserialize; [mgr] = None: no session manager *)
Definition deserialize (mgr : option (list session)) (s : sercap) : capdata :=
  let cap_session :=
    match mgr, sc_session_id s with
    | Some sessions, Some sid => find_last (fun x => ss_id x =? sid) sessions
    | _, _ => None
    end in
  let cap_region :=
    match cap_session, sc_region_addr s with
    | Some ses, Some addr => find_last (fun r => rg_addr r =? addr) (ss_regions ses)
    | _, _ => None
    end in
  mkCapData (sc_name s) (wref cap_region) (wref cap_session) (sc_url s) (sc_type s).

(* ---- flow metadata ------------------------------------------------------- *)

(* flow.metadata; a flag is None when the key is absent.  [O]: all other keys. *)
Record meta (O : Type) := mkMeta {
  m_can_stream : option bool;
  m_resp_inj : option bool;
  m_req_inj : option bool;
  m_browser : option bool;
  m_cap : option (option capdata);       (* absent / None / CapData *)
  m_cap_ser : option (option sercap);    (* absent / None / SerializedCapData *)
  m_other : O
}.
Arguments mkMeta {O}. Arguments m_can_stream {O}. Arguments m_resp_inj {O}.
Arguments m_req_inj {O}. Arguments m_browser {O}. Arguments m_cap {O}.
Arguments m_cap_ser {O}. Arguments m_other {O}.

Definition setdefault {A} (o : option A) (d : A) : option A :=
  match o with Some x => Some x | None => Some d end.

(* HippoHTTPFlow.__init__ *)
Definition hippo_init {O} (m : meta O) : meta O :=
  mkMeta (setdefault (m_can_stream m) true)
         (setdefault (m_resp_inj m) false)
         (setdefault (m_req_inj m) false)
         (setdefault (m_browser m) false)
         (setdefault (m_cap m) (Some (mkCapData None None None None TNormal)))
         (m_cap_ser m) (m_other m).

Section Transfer.
  (* mitmproxy's HTTPFlow: [C] = everything but the metadata (request, response, id, ...),
     [S] = the state dict *)
  Variables (O C S : Type).
  Variable mitm_get_state : C * meta O -> S.
  Variable mitm_from_state : S -> C * meta O.

  (* HippoHTTPFlow.get_state: returns the state and the flow as it is left behind *)
  Definition get_state (fl : C * meta O) : S * (C * meta O) :=
    let (core, m) := fl in
    let cap_data : option capdata := match m_cap m with Some (Some c) => Some c | _ => None end in
    let ser : option sercap := option_map serialize cap_data in
    let m_send := mkMeta (m_can_stream m) (m_resp_inj m) (m_req_inj m) (m_browser m)
                         None (Some ser) (m_other m) in
    let m_back := mkMeta (m_can_stream m) (m_resp_inj m) (m_req_inj m) (m_browser m)
                         (Some cap_data) (Some ser) (m_other m) in
    (mitm_get_state (core, m_send), (core, m_back)).

  (* HippoHTTPFlow.from_state *)
  Definition from_state (mgr : option (list session)) (st : S) : C * meta O :=
    let (core, m) := mitm_from_state st in
    let cap := match m_cap_ser m with
               | Some (Some ser) => Some (deserialize mgr ser)
               | _ => None end in
    (core, hippo_init (mkMeta (m_can_stream m) (m_resp_inj m) (m_req_inj m) (m_browser m)
                              (Some cap) (m_cap_ser m) (m_other m))).
End Transfer.

(* ---- the references a CapData can be expected to survive with ------------ *)

Definition well_referenced (sessions : list session) (c : capdata) : Prop :=
  match cd_session c with
  | None => cd_region c = None
  | Some None => False
  | Some (Some s) =>
      In s sessions /\
      match cd_region c with
      | None => True
      | Some None => False
      | Some (Some r) => In r (ss_regions s) /\ NoDup (map rg_addr (ss_regions s))
      end
  end.
