(* C17 - proofs about the event-queue model of Http/EventQueue.v *)
From Coq Require Import List Bool Arith NArith Lia.
From HV Require Import Http.EventQueue.
Import ListNotations.

Lemma opt_N_eqb_refl : forall a, opt_N_eqb a a = true.
Proof. destruct a; cbn; [apply N.eqb_refl|reflexivity]. Qed.

Lemma opt_N_eqb_eq : forall a b, opt_N_eqb a b = true <-> a = b.
Proof.
  intros [a|] [b|]; cbn; split; intro H; try discriminate; try reflexivity.
  - apply N.eqb_eq in H. congruence.
  - inversion H. apply N.eqb_refl.
Qed.

Definition is_sim (e : ev) : bool := match fst e with FromSim => true | Injected => false end.
Definition is_inj (e : ev) : bool := negb (is_sim e).

Lemma filter_all : forall {A} (f : A -> bool) l, Forall (fun a => f a = true) l -> filter f l = l.
Proof. intros A f l H. induction H as [|a l Ha Hl IH]; cbn; [reflexivity|]. rewrite Ha, IH. reflexivity. Qed.

Lemma filter_none : forall {A} (f : A -> bool) l, Forall (fun a => f a = false) l -> filter f l = [].
Proof. intros A f l H. induction H as [|a l Ha Hl IH]; cbn; [reflexivity|]. rewrite Ha. exact IH. Qed.

(* what a history offers to the viewer in fresh (non-replayed) responses *)
Definition processed (o : eq_op) : option payload :=
  match o with
  | EResp _ st (Some p) => if N.eqb st 200 then Some p else None
  | _ => None
  end.

Definition delivered_of (o : eq_op) (x : eq_out) : list ev :=
  match processed o, x with
  | Some _, XBody (Some p') => p_events p'
  | _, _ => []
  end.

Fixpoint delivered (ops : list eq_op) (outs : list eq_out) : list ev :=
  match ops, outs with
  | o :: t, x :: xs => delivered_of o x ++ delivered t xs
  | _, _ => []
  end.

Definition injected_all (ops : list eq_op) : list ev :=
  flat_map (fun o => match o with EInject e => [e] | _ => [] end) ops.

Definition no_dead (ops : list eq_op) : Prop := Forall (fun o => o <> EDead) ops.

(* the simulator's events carry the FromSim tag, the proxy's the Injected tag *)
Definition well_tagged_op (o : eq_op) : Prop :=
  match o with
  | EInject e => is_inj e = true
  | EResp _ _ (Some p) => Forall (fun e => is_sim e = true) (p_events p)
  | _ => True
  end.

Section Proofs.
  Variable swallow : ev -> bool.

  Definition sim_kept (ops : list eq_op) : list ev :=
    flat_map (fun o => match processed o with Some p => keep swallow (p_events p) | None => [] end) ops.

  (* ---------- single steps ---------- *)

  (* a processed response takes every queued injected event, in order, after the kept simulator events *)
  Lemma response_takes_all : forall q ack p,
    let r := poll_response swallow q ack 200 (Some p) in
    q_queued (fst r) = [] /\ q_last_ack (fst r) = ack /\ q_last_payload (fst r) = snd r /\
    (snd r = Some (mkPayload (p_id p) (keep swallow (p_events p) ++ q_queued q)) \/
     (snd r = None /\ keep swallow (p_events p) ++ q_queued q = [])).
  Proof.
    intros q ack p. unfold poll_response. cbn [N.eqb negb]. change (N.eqb 200 200) with true. cbn [negb].
    destruct (p_events p) as [|e l] eqn:Ee; cbn [fst snd q_queued q_last_ack q_last_payload].
    - repeat split. left. reflexivity.
    - destruct (keep swallow (e :: l) ++ q_queued q) eqn:En; repeat split; [right; split; reflexivity|left; reflexivity].
  Qed.

  (* undef_on_empty: the no-events form is produced exactly when events came in, all were swallowed and nothing was injected *)
  Lemma undef_iff : forall q ack p,
    snd (poll_response swallow q ack 200 (Some p)) = None <->
    (p_events p <> [] /\ keep swallow (p_events p) = [] /\ q_queued q = []).
  Proof.
    intros q ack p. unfold poll_response. change (N.eqb 200 200) with true. cbn [negb].
    destruct (p_events p) as [|e l] eqn:Ee; cbn [snd].
    - split; [discriminate|intros [H _]; contradiction].
    - destruct (keep swallow (e :: l) ++ q_queued q) eqn:En.
      + apply app_eq_nil in En as [E1 E2]. split; [intros _; repeat split; [discriminate|assumption|assumption]|reflexivity].
      + split; [discriminate|]. intros [_ [H1 H2]]. rewrite H1, H2 in En. discriminate.
  Qed.

  Lemma non200_untouched : forall q ack status body,
    N.eqb status 200 = false -> poll_response swallow q ack status body = (q, body).
  Proof. intros q ack status body H. unfold poll_response. rewrite H. reflexivity. Qed.

  Lemma undef_body_untouched : forall q ack status, poll_response swallow q ack status None = (q, None).
  Proof. intros q ack status. unfold poll_response. destruct (negb (N.eqb status 200)); reflexivity. Qed.

  (* replay *)
  Lemma request_pure : forall q a, fst (eq_step swallow q (EReq a)) = q.
  Proof. reflexivity. Qed.

  Lemma replay_after_response : forall q a p,
    poll_request (fst (poll_response swallow q a 200 (Some p))) a = snd (poll_response swallow q a 200 (Some p)).
  Proof.
    intros q a p. destruct (response_takes_all q a p) as [_ [Ha [Hp _]]].
    unfold poll_request. rewrite Ha, opt_N_eqb_refl. exact Hp.
  Qed.

  Lemma inject_keeps_cache : forall q e a, poll_request (inject q e) a = poll_request q a.
  Proof. reflexivity. Qed.

  Lemma replay_only_same_ack : forall q a p,
    poll_request q a = Some p -> q_last_ack q = a /\ q_last_payload q = Some p.
  Proof.
    intros q a p. unfold poll_request. destruct (opt_N_eqb (q_last_ack q) a) eqn:E; [|discriminate].
    apply opt_N_eqb_eq in E. auto.
  Qed.

  Lemma dead_resets : forall q, fst (eq_step swallow q EDead) = eq_init.
  Proof. reflexivity. Qed.

  (* ---------- histories ---------- *)

  Lemma eq_trace_cons : forall o t q,
    eq_trace swallow (o :: t) q =
    (fst (eq_trace swallow t (fst (eq_step swallow q o))),
     snd (eq_step swallow q o) :: snd (eq_trace swallow t (fst (eq_step swallow q o)))).
  Proof.
    intros. cbn [eq_trace]. destruct (eq_step swallow q o) as [q1 x]. cbn [fst snd].
    destruct (eq_trace swallow t q1) as [q2 xs]. reflexivity.
  Qed.

  Lemma keep_sim : forall l, Forall (fun e => is_sim e = true) l -> Forall (fun e => is_sim e = true) (keep swallow l).
  Proof.
    intros l H. unfold keep. rewrite Forall_forall in *. intros e He. apply filter_In in He as [He _]. auto.
  Qed.

  (* the step of a processed response, in the shape used below *)
  Lemma step_processed : forall q a p,
    let r := eq_step swallow q (EResp a 200 (Some p)) in
    q_queued (fst r) = [] /\
    delivered_of (EResp a 200 (Some p)) (snd r) = keep swallow (p_events p) ++ q_queued q.
  Proof.
    intros q a p. cbn [eq_step]. destruct (response_takes_all q a p) as [Hq [_ [_ Hout]]].
    destruct (poll_response swallow q a 200 (Some p)) as [q' b]. cbn [fst snd] in *.
    split; [exact Hq|]. unfold delivered_of. cbn [processed]. change (N.eqb 200 200) with true. cbn iota.
    destruct Hout as [->|[-> Hnil]]; [reflexivity|]. symmetry. exact Hnil.
  Qed.

  Lemma processed_some : forall o p, processed o = Some p -> exists a, o = EResp a 200 (Some p).
  Proof.
    intros o p. destruct o as [e|a|a st [p0|]|]; cbn; try discriminate.
    destruct (N.eqb st 200) eqn:E; [|discriminate]. intro H. inversion H; subst.
    apply N.eqb_eq in E. subst. exists a. reflexivity.
  Qed.

  Lemma step_unprocessed : forall q o,
    processed o = None ->
    delivered_of o (snd (eq_step swallow q o)) = [] /\
    q_queued (fst (eq_step swallow q o)) =
      match o with EInject e => q_queued q ++ [e] | EDead => [] | _ => q_queued q end.
  Proof.
    intros q o H. unfold delivered_of. rewrite H. split; [reflexivity|].
    destruct o as [e|a|a st body|]; cbn [eq_step fst]; try reflexivity.
    destruct body as [p|].
    - cbn in H. destruct (N.eqb st 200) eqn:E; [discriminate|].
      rewrite (non200_untouched q a st (Some p) E). reflexivity.
    - rewrite undef_body_untouched. reflexivity.
  Qed.

  (* delivered_stream, simulator side: the simulator's events reach the viewer exactly once, in order, minus the swallowed ones *)
  Theorem delivered_sim : forall ops q,
    Forall well_tagged_op ops -> Forall (fun e => is_inj e = true) (q_queued q) ->
    filter is_sim (delivered ops (eq_outs swallow ops q)) = sim_kept ops.
  Proof.
    induction ops as [|o t IH]; intros q Hw Hq; [reflexivity|].
    inversion Hw as [|? ? Ho Ht]; subst.
    unfold eq_outs. rewrite eq_trace_cons. cbn [snd delivered]. rewrite filter_app.
    unfold sim_kept. cbn [flat_map]. fold (sim_kept t).
    destruct (processed o) as [p|] eqn:Ep.
    - destruct (processed_some _ _ Ep) as [a ->].
      destruct (step_processed q a p) as [Hq1 Hd]. rewrite Hd, filter_app.
      cbn in Ho. rewrite (filter_all is_sim (keep swallow (p_events p))) by (apply keep_sim; exact Ho).
      rewrite (filter_none is_sim (q_queued q)).
      2:{ eapply Forall_impl; [|exact Hq]. intros e He. unfold is_inj in He. apply negb_true_iff in He. exact He. }
      rewrite app_nil_r. f_equal. apply IH; [exact Ht|]. rewrite Hq1. constructor.
    - destruct (step_unprocessed q o Ep) as [Hd Hq1]. rewrite Hd. cbn [filter app]. apply IH; [exact Ht|].
      rewrite Hq1. destruct o; try exact Hq; [|constructor]. apply Forall_app. split; [exact Hq|]. constructor; [exact Ho|constructor].
  Qed.

  (* delivered_stream, injection side: without teardown every injected event is delivered exactly once, in
     injection order, or is still queued *)
  Theorem delivered_inj : forall ops q,
    Forall well_tagged_op ops -> no_dead ops -> Forall (fun e => is_inj e = true) (q_queued q) ->
    filter is_inj (delivered ops (eq_outs swallow ops q)) ++ q_queued (eq_run swallow ops q)
    = q_queued q ++ injected_all ops.
  Proof.
    induction ops as [|o t IH]; intros q Hw Hn Hq.
    - cbn. rewrite app_nil_r. reflexivity.
    - inversion Hw as [|? ? Ho Ht]; subst. inversion Hn as [|? ? Hno Hnt]; subst.
      unfold eq_outs, eq_run. rewrite eq_trace_cons. cbn [fst snd delivered]. rewrite filter_app, <- app_assoc.
      fold (eq_outs swallow t (fst (eq_step swallow q o))). fold (eq_run swallow t (fst (eq_step swallow q o))).
      destruct (processed o) as [p|] eqn:Ep.
      + destruct (processed_some _ _ Ep) as [a ->].
        destruct (step_processed q a p) as [Hq1 Hd]. rewrite Hd, filter_app.
        cbn in Ho. rewrite (filter_none is_inj (keep swallow (p_events p))).
        2:{ eapply Forall_impl; [|apply keep_sim; exact Ho]. intros e He. unfold is_inj. rewrite He. reflexivity. }
        rewrite (filter_all is_inj (q_queued q)) by exact Hq. cbn [app].
        rewrite IH; [|exact Ht|exact Hnt|rewrite Hq1; constructor]. rewrite Hq1. reflexivity.
      + destruct (step_unprocessed q o Ep) as [Hd Hq1]. rewrite Hd. cbn [filter app].
        rewrite IH; [|exact Ht|exact Hnt|].
        * rewrite Hq1. destruct o; cbn [injected_all flat_map app]; try reflexivity.
          -- rewrite <- app_assoc. reflexivity.
          -- contradiction Hno. reflexivity.
        * rewrite Hq1. destruct o; try exact Hq; [|constructor]. apply Forall_app. split; [exact Hq|]. constructor; [exact Ho|constructor].
  Qed.

  (* replay: whatever the proxy answers from its cache is, verbatim, a body it produced earlier in the history *)
  Theorem cached_is_earlier_body : forall ops q p,
    In (XCached p) (eq_outs swallow ops q) ->
    q_last_payload q = Some p \/ In (XBody (Some p)) (eq_outs swallow ops q).
  Proof.
    induction ops as [|o t IH]; intros q p H; [destruct H|].
    unfold eq_outs in *. rewrite eq_trace_cons in *. cbn [snd] in *. destruct H as [H|H].
    - destruct o as [e|a|a st body|]; cbn [eq_step snd] in H; try discriminate.
      + destruct (poll_request q a) as [p'|] eqn:Ep; [|discriminate]. inversion H; subst.
        left. exact (proj2 (replay_only_same_ack _ _ _ Ep)).
      + destruct (poll_response swallow q a st body); discriminate.
    - destruct (IH _ _ H) as [H1|H1]; [|right; right; exact H1].
      destruct o as [e|a|a st body|]; cbn [eq_step fst] in H1.
      + left. exact H1.
      + left. exact H1.
      + cbn [eq_step]. destruct body as [p0|].
        * destruct (N.eqb st 200) eqn:E.
          -- apply N.eqb_eq in E. subst st. destruct (response_takes_all q a p0) as [_ [_ [Hp _]]].
             destruct (poll_response swallow q a 200 (Some p0)) as [q' b]. cbn [fst snd] in *.
             right. left. rewrite <- Hp, H1. reflexivity.
          -- rewrite (non200_untouched q a st (Some p0) E) in *. left. exact H1.
        * rewrite undef_body_untouched in *. left. exact H1.
      + discriminate.
  Qed.

End Proofs.

(* ====================================================================== *)
(* Wave 2: composition with the simulator and a lossy, re-polling viewer    *)

(* The assumption on the simulator's data (its behaviour - every batch is sent at most once, in order, and is
   gone afterwards - is the [y_sim]/[y_served] discipline of EventQueue.sys_step) *)
Record sim_ok (batches : list payload) : Prop := {
  sim_ids_distinct : NoDup (map p_id batches);
  sim_tagged : Forall (fun b => Forall (fun e => is_sim e = true) (p_events b)) batches;
}.

Lemma existsb_N_In : forall x l, existsb (N.eqb x) l = true <-> In x l.
Proof.
  intros x l. rewrite existsb_exists. split.
  - intros [y [Hin E]]. apply N.eqb_eq in E. subst. exact Hin.
  - intro H. exists x. split; [exact H|apply N.eqb_refl].
Qed.

Section Composition.
  Variable swallow : ev -> bool.
  Variable batches : list payload.
  Hypothesis Hsim : sim_ok batches.

  Record Inv (y : Sys) : Prop := {
    i_split : y_served y ++ y_sim y = batches;
    i_queued : Forall (fun e => is_inj e = true) (q_queued (y_eq y));
    i_seen : forall i, In i (v_seen (y_viewer y)) -> In i (map p_id (y_served y));
    i_cache_id : forall p, q_last_payload (y_eq y) = Some p -> In (p_id p) (map p_id (y_served y));
    i_pending_key : forall p, q_last_payload (y_eq y) = Some p ->
                    existsb (N.eqb (p_id p)) (v_seen (y_viewer y)) = false -> q_last_ack (y_eq y) = v_ack (y_viewer y);
    i_sim : filter is_sim (v_accepted (y_viewer y) ++ in_flight y) = keep swallow (flat_map p_events (y_served y));
    i_inj : filter is_inj (v_accepted (y_viewer y) ++ in_flight y) ++ q_queued (y_eq y) = y_injected y;
  }.

  Lemma inv_init : Inv (sys_init batches).
  Proof. constructor; cbn; try reflexivity; try constructor; try tauto; discriminate. Qed.

  (* a step that leaves the proxy state, the viewer and the served batches alone *)
  Lemma inv_same : forall y y',
    Inv y -> y_eq y' = y_eq y -> y_viewer y' = y_viewer y -> y_served y' = y_served y ->
    y_injected y' = y_injected y -> y_served y' ++ y_sim y' = batches -> Inv y'.
  Proof.
    intros y y' [H0 H1 H2 H3 H4 H5 H6] Eq Ev Es Ei Hsplit.
    assert (Hf : in_flight y' = in_flight y) by (unfold in_flight; rewrite Eq, Ev; reflexivity).
    constructor; [exact Hsplit|..]; rewrite ?Eq, ?Ev, ?Es, ?Ei, ?Hf; assumption.
  Qed.

  Lemma miss_no_in_flight : forall y,
    Inv y -> poll_request (y_eq y) (v_ack (y_viewer y)) = None -> in_flight y = [].
  Proof.
    intros y HI Ep. unfold in_flight. destruct (q_last_payload (y_eq y)) as [p|] eqn:El; [|reflexivity].
    destruct (existsb (N.eqb (p_id p)) (v_seen (y_viewer y))) eqn:Es; [reflexivity|].
    exfalso. pose proof (i_pending_key y HI p El Es) as Hk.
    unfold poll_request in Ep. rewrite Hk, opt_N_eqb_refl, El in Ep. discriminate.
  Qed.

  Lemma fresh_id : forall y b rest,
    Inv y -> y_sim y = b :: rest -> existsb (N.eqb (p_id b)) (v_seen (y_viewer y)) = false.
  Proof.
    intros y b rest HI Es. destruct (existsb (N.eqb (p_id b)) (v_seen (y_viewer y))) eqn:E; [|reflexivity].
    exfalso. apply existsb_N_In in E. apply (i_seen y HI) in E.
    pose proof (sim_ids_distinct _ Hsim) as Hnd. rewrite <- (i_split y HI), Es, map_app in Hnd. cbn [map] in Hnd.
    apply NoDup_remove_2 in Hnd. apply Hnd. apply in_or_app. left. exact E.
  Qed.

  Lemma batch_tagged : forall y b rest, Inv y -> y_sim y = b :: rest -> Forall (fun e => is_sim e = true) (p_events b).
  Proof.
    intros y b rest HI Es. pose proof (sim_tagged _ Hsim) as Ht. rewrite <- (i_split y HI), Es in Ht.
    apply Forall_app in Ht as [_ Ht]. inversion Ht; assumption.
  Qed.

  Lemma filter_sim_inj_tagged : forall l, Forall (fun e => is_inj e = true) l -> filter is_sim l = [] /\ filter is_inj l = l.
  Proof.
    intros l H. split.
    - apply filter_none. eapply Forall_impl; [|exact H]. intros e He. unfold is_inj in He. apply negb_true_iff in He. exact He.
    - apply filter_all. exact H.
  Qed.

  Lemma filter_sim_sim_tagged : forall l, Forall (fun e => is_sim e = true) l -> filter is_sim l = l /\ filter is_inj l = [].
  Proof.
    intros l H. split.
    - apply filter_all. exact H.
    - apply filter_none. eapply Forall_impl; [|exact H]. intros e He. unfold is_inj. rewrite He. reflexivity.
  Qed.

  Lemma served_snoc : forall served b,
    keep swallow (flat_map p_events (served ++ [b])) = keep swallow (flat_map p_events served) ++ keep swallow (p_events b).
  Proof. intros. rewrite flat_map_app. cbn [flat_map]. rewrite app_nil_r. unfold keep. apply filter_app. Qed.

  Lemma inv_step : forall y o,
    Inv y ->
    Inv (sys_step swallow y o) /\
    (forall reply, o = YCycle reply false -> in_flight (sys_step swallow y o) = []).
  Proof.
    intros y o HI. destruct o as [n|reply lost].
    - (* injection *)
      split; [|discriminate]. destruct HI as [H0 H1 H2 H3 H4 H5 H6]. cbn [sys_step].
      constructor; cbn [y_eq y_viewer y_sim y_served y_injected inject q_queued q_last_payload q_last_ack]; try assumption.
      + apply Forall_app. split; [exact H1|]. constructor; [reflexivity|constructor].
      + rewrite app_assoc. f_equal. exact H6.
    - cbn [sys_step]. destruct (poll_request (y_eq y) (v_ack (y_viewer y))) as [p|] eqn:Ep.
      + (* answered from the cache *)
        destruct (replay_only_same_ack _ _ _ Ep) as [Hack Hpay].
        destruct lost.
        * split; [|discriminate]. apply (inv_same y); try reflexivity; [exact HI|exact (i_split y HI)].
        * assert (Hfl : forall v', v_seen v' = (if existsb (N.eqb (p_id p)) (v_seen (y_viewer y)) then v_seen (y_viewer y) else p_id p :: v_seen (y_viewer y)) ->
                        existsb (N.eqb (p_id p)) (v_seen v') = true).
          { intros v' Hv. rewrite Hv. destruct (existsb (N.eqb (p_id p)) (v_seen (y_viewer y))) eqn:Es; [exact Es|].
            cbn. rewrite N.eqb_refl. reflexivity. }
          assert (Hin_fl : in_flight (mkSys (y_eq y) (viewer_receive (y_viewer y) p) (y_sim y) (y_served y) (y_injected y)) = []).
          { unfold in_flight. cbn [y_eq y_viewer]. rewrite Hpay. rewrite Hfl; [reflexivity|].
            unfold viewer_receive. destruct (existsb (N.eqb (p_id p)) (v_seen (y_viewer y))); reflexivity. }
          split; [|intros _ _; exact Hin_fl].
          destruct HI as [H0 H1 H2 H3 H4 H5 H6].
          constructor; rewrite ?Hin_fl; cbn [y_eq y_viewer y_sim y_served y_injected]; try assumption.
          -- intros i Hi. unfold viewer_receive in Hi.
             destruct (existsb (N.eqb (p_id p)) (v_seen (y_viewer y))); cbn [v_seen] in Hi; [apply H2; exact Hi|].
             destruct Hi as [<-|Hi]; [apply (H3 p Hpay)|apply H2; exact Hi].
          -- intros p0 Hp0 Hns. rewrite Hpay in Hp0. inversion Hp0; subst p0.
             rewrite Hfl in Hns; [discriminate|].
             unfold viewer_receive. destruct (existsb (N.eqb (p_id p)) (v_seen (y_viewer y))); reflexivity.
          -- rewrite <- H5. unfold in_flight, viewer_receive. rewrite Hpay.
             destruct (existsb (N.eqb (p_id p)) (v_seen (y_viewer y))); cbn [v_accepted]; rewrite ?app_nil_r; reflexivity.
          -- rewrite <- H6. unfold in_flight, viewer_receive. rewrite Hpay.
             destruct (existsb (N.eqb (p_id p)) (v_seen (y_viewer y))); cbn [v_accepted]; rewrite ?app_nil_r; reflexivity.
      + (* forwarded to the simulator *)
        pose proof (miss_no_in_flight y HI Ep) as Hnf.
        assert (Hquiet : forall sim',
                   y_served y ++ sim' = batches ->
                   let y' := mkSys (y_eq y) (y_viewer y) sim' (y_served y) (y_injected y) in
                   Inv y' /\ (forall reply0 : sim_reply, YCycle reply lost = YCycle reply0 false -> in_flight y' = [])).
        { intros sim' Hsp y'. split.
          - apply (inv_same y); try reflexivity; [exact HI|exact Hsp].
          - intros _ _. unfold in_flight in *. exact Hnf. }
        destruct reply as [|st|].
        * destruct (y_sim y) as [|b rest] eqn:Esim.
          -- (* nothing left: a timeout *)
             rewrite (non200_untouched swallow (y_eq y) (v_ack (y_viewer y)) 502 None eq_refl).
             destruct lost; cbn [N.eqb]; apply (Hquiet []); rewrite <- Esim; exact (i_split y HI).
          -- (* the next batch *)
             pose proof (fresh_id y b rest HI Esim) as Hfresh.
             pose proof (batch_tagged y b rest HI Esim) as Htag.
             destruct (response_takes_all swallow (y_eq y) (v_ack (y_viewer y)) b) as [Hq [Hack [Hpay Hout]]].
             destruct (poll_response swallow (y_eq y) (v_ack (y_viewer y)) 200 (Some b)) as [q' out] eqn:Er.
             cbn [fst snd] in Hq, Hack, Hpay, Hout.
             destruct HI as [H0 H1 H2 H3 H4 H5 H6].
             destruct (filter_sim_inj_tagged _ H1) as [Fq1 Fq2].
             destruct (filter_sim_sim_tagged _ (keep_sim swallow _ Htag)) as [Fk1 Fk2].
             assert (Hsplit' : (y_served y ++ [b]) ++ rest = batches) by (rewrite <- app_assoc; cbn; rewrite <- Esim; exact H0).
             assert (Hseen' : forall i, In i (v_seen (y_viewer y)) -> In i (map p_id (y_served y ++ [b])))
               by (intros i Hi; rewrite map_app; apply in_or_app; left; apply H2; exact Hi).
             assert (Hidb : In (p_id b) (map p_id (y_served y ++ [b])))
               by (rewrite map_app; apply in_or_app; right; left; reflexivity).
             rewrite Hnf, app_nil_r in H5, H6.
             destruct Hout as [Hout|[Hout Hnil]].
             ++ (* a body goes out *)
                set (p' := mkPayload (p_id b) (keep swallow (p_events b) ++ q_queued (y_eq y))) in *. rewrite Hout in *. clear Hout.
                destruct lost; change (N.eqb 200 200) with true; cbn iota.
                ** (* ... and is lost: it is now in flight *)
                   assert (Hfl : in_flight (mkSys q' (y_viewer y) rest (y_served y ++ [b]) (y_injected y)) = p_events p').
                   { unfold in_flight. cbn [y_eq y_viewer]. rewrite Hpay. cbn [p_id p']. rewrite Hfresh. reflexivity. }
                   split; [|discriminate].
                   constructor; rewrite ?Hfl; cbn [y_eq y_viewer y_sim y_served y_injected]; try assumption.
                   --- rewrite Hq. constructor.
                   --- intros p0 Hp0. rewrite Hpay in Hp0. inversion Hp0; subst p0. exact Hidb.
                   --- intros p0 _ _. exact Hack.
                   --- cbn [p_events p']. rewrite served_snoc, !filter_app, Fk1, Fq1, app_nil_r, H5. reflexivity.
                   --- cbn [p_events p']. rewrite Hq, app_nil_r, !filter_app, Fk2, Fq2. cbn [app]. exact H6.
                ** (* ... and is received *)
                   assert (Hv : viewer_receive (y_viewer y) p' =
                                mkViewer (Some (p_id b)) (p_id b :: v_seen (y_viewer y)) (v_accepted (y_viewer y) ++ p_events p')).
                   { unfold viewer_receive. cbn [p_id p']. rewrite Hfresh. reflexivity. }
                   rewrite Hv.
                   assert (Hfl : in_flight (mkSys q' (mkViewer (Some (p_id b)) (p_id b :: v_seen (y_viewer y)) (v_accepted (y_viewer y) ++ p_events p'))
                                               rest (y_served y ++ [b]) (y_injected y)) = []).
                   { unfold in_flight. cbn [y_eq y_viewer v_seen]. rewrite Hpay. cbn [p_id p' existsb]. rewrite N.eqb_refl. reflexivity. }
                   split; [|intros _ _; exact Hfl].
                   constructor; rewrite ?Hfl; cbn [y_eq y_viewer y_sim y_served y_injected v_seen v_accepted v_ack]; try assumption.
                   --- rewrite Hq. constructor.
                   --- intros i [<-|Hi]; [exact Hidb|apply Hseen'; exact Hi].
                   --- intros p0 Hp0. rewrite Hpay in Hp0. inversion Hp0; subst p0. exact Hidb.
                   --- intros p0 Hp0 Hns. rewrite Hpay in Hp0. inversion Hp0; subst p0.
                       cbn [p_id p' existsb] in Hns. rewrite N.eqb_refl in Hns. discriminate.
                   --- cbn [p_events p']. rewrite app_nil_r, served_snoc, !filter_app, Fk1, Fq1, app_nil_r, H5. reflexivity.
                   --- cbn [p_events p']. rewrite Hq, !app_nil_r, !filter_app, Fk2, Fq2. cbn [app]. exact H6.
             ++ (* everything was swallowed and nothing was queued: undef goes out *)
                rewrite Hout in *. clear Hout. apply app_eq_nil in Hnil as [Hk0 Hq0].
                assert (Hfl : in_flight (mkSys q' (y_viewer y) rest (y_served y ++ [b]) (y_injected y)) = []).
                { unfold in_flight. cbn [y_eq]. rewrite Hpay. reflexivity. }
                assert (Hv : (if lost then y_viewer y else match N.eqb 200 200 with true => y_viewer y | false => y_viewer y end) = y_viewer y)
                  by (destruct lost; reflexivity).
                assert (Hgoal : Inv (mkSys q' (y_viewer y) rest (y_served y ++ [b]) (y_injected y))).
                { constructor; rewrite ?Hfl; cbn [y_eq y_viewer y_sim y_served y_injected]; try assumption.
                  - rewrite Hq. constructor.
                  - intros p0 Hp0. rewrite Hpay in Hp0. discriminate.
                  - intros p0 Hp0. rewrite Hpay in Hp0. discriminate.
                  - rewrite app_nil_r, served_snoc, Hk0, app_nil_r. exact H5.
                  - rewrite Hq, !app_nil_r. rewrite Hq0, app_nil_r in H6. exact H6. }
                destruct lost; change (N.eqb 200 200) with true; cbn iota; (split; [exact Hgoal|intros _ _; exact Hfl]).
        * rewrite undef_body_untouched.
          assert (Hv : (if lost then y_viewer y else match N.eqb st 200 with true => y_viewer y | false => y_viewer y end) = y_viewer y)
            by (destruct lost; [reflexivity|destruct (N.eqb st 200); reflexivity]).
          destruct lost; [|destruct (N.eqb st 200)]; apply (Hquiet (y_sim y)); exact (i_split y HI).
        * rewrite undef_body_untouched.
          destruct lost; change (N.eqb 200 200) with true; cbn iota; apply (Hquiet (y_sim y)); exact (i_split y HI).
  Qed.

  Lemma inv_run : forall ops y, Inv y -> Inv (sys_run swallow ops y).
  Proof.
    unfold sys_run. induction ops as [|o ops IH]; intros y HI; cbn [fold_left]; [exact HI|].
    apply IH. apply inv_step. exact HI.
  Qed.

  (* delivered_stream for a lossy, re-polling viewer: at any moment of any run, what the viewer has accepted
     (each response once, by id), plus the one body still in flight, is exactly: the non-swallowed events of
     the batches the simulator has sent, in order, and every injected event that is not still queued, once,
     in injection order; and the simulator has sent a prefix of its batches *)
  Theorem viewer_stream : forall ops,
    let y := sys_run swallow ops (sys_init batches) in
    filter is_sim (v_accepted (y_viewer y) ++ in_flight y) = keep swallow (flat_map p_events (y_served y)) /\
    filter is_inj (v_accepted (y_viewer y) ++ in_flight y) ++ q_queued (y_eq y) = y_injected y /\
    y_served y ++ y_sim y = batches.
  Proof.
    intros ops y. destruct (inv_run ops _ inv_init) as [H0 _ _ _ _ H5 H6]. auto.
  Qed.

  (* nothing stays in flight once a response gets through *)
  Theorem viewer_caught_up : forall ops reply,
    in_flight (sys_run swallow (ops ++ [YCycle reply false]) (sys_init batches)) = [].
  Proof.
    intros ops reply. unfold sys_run. rewrite fold_left_app. cbn [fold_left].
    apply (proj2 (inv_step _ (YCycle reply false) (inv_run ops _ inv_init)) reply eq_refl).
  Qed.

  (* a lost response makes the viewer's next poll a cache hit: the simulator is not asked again *)
  Theorem lost_response_replayed : forall ops p,
    let y := sys_run swallow ops (sys_init batches) in
    q_last_payload (y_eq y) = Some p -> existsb (N.eqb (p_id p)) (v_seen (y_viewer y)) = false ->
    poll_request (y_eq y) (v_ack (y_viewer y)) = Some p.
  Proof.
    intros ops p y Hp Hs. pose proof (i_pending_key y (inv_run ops _ inv_init) p Hp Hs) as Hk.
    unfold poll_request. rewrite Hk, opt_N_eqb_refl. exact Hp.
  Qed.
End Composition.
