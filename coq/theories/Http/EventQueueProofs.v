(* C17 - proofs about the event-queue model of Http/EventQueue.v *)
From Coq Require Import List Bool Arith NArith Lia.
From HV Require Import Http.EventQueue.
Import ListNotations.

Lemma opt_N_eqb_refl : forall a, opt_N_eqb a a = true.
Proof. destruct a; cbn; [apply N.eqb_refl|reflexivity]. Qed.

Lemma opt_N_eqb_eq : forall a b, opt_N_eqb a b = true <-> a = b.
Proof.
  intros [a|] [b|]; cbn; split; intro H; try discriminate; try reflexivity.
  - apply N.eqb_eq in H. congruence.
  - inversion H. apply N.eqb_refl.
Qed.

Definition is_sim (e : ev) : bool := match fst e with FromSim => true | Injected => false end.
Definition is_inj (e : ev) : bool := negb (is_sim e).

Lemma filter_all : forall {A} (f : A -> bool) l, Forall (fun a => f a = true) l -> filter f l = l.
Proof. intros A f l H. induction H as [|a l Ha Hl IH]; cbn; [reflexivity|]. rewrite Ha, IH. reflexivity. Qed.

Lemma filter_none : forall {A} (f : A -> bool) l, Forall (fun a => f a = false) l -> filter f l = [].
Proof. intros A f l H. induction H as [|a l Ha Hl IH]; cbn; [reflexivity|]. rewrite Ha. exact IH. Qed.

(* what a history offers to the viewer in fresh (non-replayed) responses *)
Definition processed (o : eq_op) : option payload :=
  match o with
  | EResp _ st (Some p) => if N.eqb st 200 then Some p else None
  | _ => None
  end.

Definition delivered_of (o : eq_op) (x : eq_out) : list ev :=
  match processed o, x with
  | Some _, XBody (Some p') => p_events p'
  | _, _ => []
  end.

Fixpoint delivered (ops : list eq_op) (outs : list eq_out) : list ev :=
  match ops, outs with
  | o :: t, x :: xs => delivered_of o x ++ delivered t xs
  | _, _ => []
  end.

Definition injected_all (ops : list eq_op) : list ev :=
  flat_map (fun o => match o with EInject e => [e] | _ => [] end) ops.

Definition no_dead (ops : list eq_op) : Prop := Forall (fun o => o <> EDead) ops.

(* the simulator's events carry the FromSim tag, the proxy's the Injected tag *)
Definition well_tagged_op (o : eq_op) : Prop :=
  match o with
  | EInject e => is_inj e = true
  | EResp _ _ (Some p) => Forall (fun e => is_sim e = true) (p_events p)
  | _ => True
  end.

Section Proofs.
  Variable swallow : ev -> bool.

  Definition sim_kept (ops : list eq_op) : list ev :=
    flat_map (fun o => match processed o with Some p => keep swallow (p_events p) | None => [] end) ops.

  (* ---------- single steps ---------- *)

  (* a processed response takes every queued injected event, in order, after the kept simulator events *)
  Lemma response_takes_all : forall q ack p,
    let r := poll_response swallow q ack 200 (Some p) in
    q_queued (fst r) = [] /\ q_last_ack (fst r) = ack /\ q_last_payload (fst r) = snd r /\
    (snd r = Some (mkPayload (p_id p) (keep swallow (p_events p) ++ q_queued q)) \/
     (snd r = None /\ keep swallow (p_events p) ++ q_queued q = [])).
  Proof.
    intros q ack p. unfold poll_response. cbn [N.eqb negb]. change (N.eqb 200 200) with true. cbn [negb].
    destruct (p_events p) as [|e l] eqn:Ee; cbn [fst snd q_queued q_last_ack q_last_payload].
    - repeat split. left. reflexivity.
    - destruct (keep swallow (e :: l) ++ q_queued q) eqn:En; repeat split; [right; split; reflexivity|left; reflexivity].
  Qed.

  (* undef_on_empty: the no-events form is produced exactly when events came in, all were swallowed and nothing was injected *)
  Lemma undef_iff : forall q ack p,
    snd (poll_response swallow q ack 200 (Some p)) = None <->
    (p_events p <> [] /\ keep swallow (p_events p) = [] /\ q_queued q = []).
  Proof.
    intros q ack p. unfold poll_response. change (N.eqb 200 200) with true. cbn [negb].
    destruct (p_events p) as [|e l] eqn:Ee; cbn [snd].
    - split; [discriminate|intros [H _]; contradiction].
    - destruct (keep swallow (e :: l) ++ q_queued q) eqn:En.
      + apply app_eq_nil in En as [E1 E2]. split; [intros _; repeat split; [discriminate|assumption|assumption]|reflexivity].
      + split; [discriminate|]. intros [_ [H1 H2]]. rewrite H1, H2 in En. discriminate.
  Qed.

  Lemma non200_untouched : forall q ack status body,
    N.eqb status 200 = false -> poll_response swallow q ack status body = (q, body).
  Proof. intros q ack status body H. unfold poll_response. rewrite H. reflexivity. Qed.

  Lemma undef_body_untouched : forall q ack status, poll_response swallow q ack status None = (q, None).
  Proof. intros q ack status. unfold poll_response. destruct (negb (N.eqb status 200)); reflexivity. Qed.

  (* replay *)
  Lemma request_pure : forall q a, fst (eq_step swallow q (EReq a)) = q.
  Proof. reflexivity. Qed.

  Lemma replay_after_response : forall q a p,
    poll_request (fst (poll_response swallow q a 200 (Some p))) a = snd (poll_response swallow q a 200 (Some p)).
  Proof.
    intros q a p. destruct (response_takes_all q a p) as [_ [Ha [Hp _]]].
    unfold poll_request. rewrite Ha, opt_N_eqb_refl. exact Hp.
  Qed.

  Lemma inject_keeps_cache : forall q e a, poll_request (inject q e) a = poll_request q a.
  Proof. reflexivity. Qed.

  Lemma replay_only_same_ack : forall q a p,
    poll_request q a = Some p -> q_last_ack q = a /\ q_last_payload q = Some p.
  Proof.
    intros q a p. unfold poll_request. destruct (opt_N_eqb (q_last_ack q) a) eqn:E; [|discriminate].
    apply opt_N_eqb_eq in E. auto.
  Qed.

  Lemma dead_resets : forall q, fst (eq_step swallow q EDead) = eq_init.
  Proof. reflexivity. Qed.

  (* ---------- histories ---------- *)

  Lemma eq_trace_cons : forall o t q,
    eq_trace swallow (o :: t) q =
    (fst (eq_trace swallow t (fst (eq_step swallow q o))),
     snd (eq_step swallow q o) :: snd (eq_trace swallow t (fst (eq_step swallow q o)))).
  Proof.
    intros. cbn [eq_trace]. destruct (eq_step swallow q o) as [q1 x]. cbn [fst snd].
    destruct (eq_trace swallow t q1) as [q2 xs]. reflexivity.
  Qed.

  Lemma keep_sim : forall l, Forall (fun e => is_sim e = true) l -> Forall (fun e => is_sim e = true) (keep swallow l).
  Proof.
    intros l H. unfold keep. rewrite Forall_forall in *. intros e He. apply filter_In in He as [He _]. auto.
  Qed.

  (* the step of a processed response, in the shape used below *)
  Lemma step_processed : forall q a p,
    let r := eq_step swallow q (EResp a 200 (Some p)) in
    q_queued (fst r) = [] /\
    delivered_of (EResp a 200 (Some p)) (snd r) = keep swallow (p_events p) ++ q_queued q.
  Proof.
    intros q a p. cbn [eq_step]. destruct (response_takes_all q a p) as [Hq [_ [_ Hout]]].
    destruct (poll_response swallow q a 200 (Some p)) as [q' b]. cbn [fst snd] in *.
    split; [exact Hq|]. unfold delivered_of. cbn [processed]. change (N.eqb 200 200) with true. cbn iota.
    destruct Hout as [->|[-> Hnil]]; [reflexivity|]. symmetry. exact Hnil.
  Qed.

  Lemma processed_some : forall o p, processed o = Some p -> exists a, o = EResp a 200 (Some p).
  Proof.
    intros o p. destruct o as [e|a|a st [p0|]|]; cbn; try discriminate.
    destruct (N.eqb st 200) eqn:E; [|discriminate]. intro H. inversion H; subst.
    apply N.eqb_eq in E. subst. exists a. reflexivity.
  Qed.

  Lemma step_unprocessed : forall q o,
    processed o = None ->
    delivered_of o (snd (eq_step swallow q o)) = [] /\
    q_queued (fst (eq_step swallow q o)) =
      match o with EInject e => q_queued q ++ [e] | EDead => [] | _ => q_queued q end.
  Proof.
    intros q o H. unfold delivered_of. rewrite H. split; [reflexivity|].
    destruct o as [e|a|a st body|]; cbn [eq_step fst]; try reflexivity.
    destruct body as [p|].
    - cbn in H. destruct (N.eqb st 200) eqn:E; [discriminate|].
      rewrite (non200_untouched q a st (Some p) E). reflexivity.
    - rewrite undef_body_untouched. reflexivity.
  Qed.

  (* delivered_stream, simulator side: the simulator's events reach the viewer exactly once, in order, minus the swallowed ones *)
  Theorem delivered_sim : forall ops q,
    Forall well_tagged_op ops -> Forall (fun e => is_inj e = true) (q_queued q) ->
    filter is_sim (delivered ops (eq_outs swallow ops q)) = sim_kept ops.
  Proof.
    induction ops as [|o t IH]; intros q Hw Hq; [reflexivity|].
    inversion Hw as [|? ? Ho Ht]; subst.
    unfold eq_outs. rewrite eq_trace_cons. cbn [snd delivered]. rewrite filter_app.
    unfold sim_kept. cbn [flat_map]. fold (sim_kept t).
    destruct (processed o) as [p|] eqn:Ep.
    - destruct (processed_some _ _ Ep) as [a ->].
      destruct (step_processed q a p) as [Hq1 Hd]. rewrite Hd, filter_app.
      cbn in Ho. rewrite (filter_all is_sim (keep swallow (p_events p))) by (apply keep_sim; exact Ho).
      rewrite (filter_none is_sim (q_queued q)).
      2:{ eapply Forall_impl; [|exact Hq]. intros e He. unfold is_inj in He. apply negb_true_iff in He. exact He. }
      rewrite app_nil_r. f_equal. apply IH; [exact Ht|]. rewrite Hq1. constructor.
    - destruct (step_unprocessed q o Ep) as [Hd Hq1]. rewrite Hd. cbn [filter app]. apply IH; [exact Ht|].
      rewrite Hq1. destruct o; try exact Hq; [|constructor]. apply Forall_app. split; [exact Hq|]. constructor; [exact Ho|constructor].
  Qed.

  (* delivered_stream, injection side: without teardown every injected event is delivered exactly once, in
     injection order, or is still queued *)
  Theorem delivered_inj : forall ops q,
    Forall well_tagged_op ops -> no_dead ops -> Forall (fun e => is_inj e = true) (q_queued q) ->
    filter is_inj (delivered ops (eq_outs swallow ops q)) ++ q_queued (eq_run swallow ops q)
    = q_queued q ++ injected_all ops.
  Proof.
    induction ops as [|o t IH]; intros q Hw Hn Hq.
    - cbn. rewrite app_nil_r. reflexivity.
    - inversion Hw as [|? ? Ho Ht]; subst. inversion Hn as [|? ? Hno Hnt]; subst.
      unfold eq_outs, eq_run. rewrite eq_trace_cons. cbn [fst snd delivered]. rewrite filter_app, <- app_assoc.
      fold (eq_outs swallow t (fst (eq_step swallow q o))). fold (eq_run swallow t (fst (eq_step swallow q o))).
      destruct (processed o) as [p|] eqn:Ep.
      + destruct (processed_some _ _ Ep) as [a ->].
        destruct (step_processed q a p) as [Hq1 Hd]. rewrite Hd, filter_app.
        cbn in Ho. rewrite (filter_none is_inj (keep swallow (p_events p))).
        2:{ eapply Forall_impl; [|apply keep_sim; exact Ho]. intros e He. unfold is_inj. rewrite He. reflexivity. }
        rewrite (filter_all is_inj (q_queued q)) by exact Hq. cbn [app].
        rewrite IH; [|exact Ht|exact Hnt|rewrite Hq1; constructor]. rewrite Hq1. reflexivity.
      + destruct (step_unprocessed q o Ep) as [Hd Hq1]. rewrite Hd. cbn [filter app].
        rewrite IH; [|exact Ht|exact Hnt|].
        * rewrite Hq1. destruct o; cbn [injected_all flat_map app]; try reflexivity.
          -- rewrite <- app_assoc. reflexivity.
          -- contradiction Hno. reflexivity.
        * rewrite Hq1. destruct o; try exact Hq; [|constructor]. apply Forall_app. split; [exact Hq|]. constructor; [exact Ho|constructor].
  Qed.

  (* replay: whatever the proxy answers from its cache is, verbatim, a body it produced earlier in the history *)
  Theorem cached_is_earlier_body : forall ops q p,
    In (XCached p) (eq_outs swallow ops q) ->
    q_last_payload q = Some p \/ In (XBody (Some p)) (eq_outs swallow ops q).
  Proof.
    induction ops as [|o t IH]; intros q p H; [destruct H|].
    unfold eq_outs in *. rewrite eq_trace_cons in *. cbn [snd] in *. destruct H as [H|H].
    - destruct o as [e|a|a st body|]; cbn [eq_step snd] in H; try discriminate.
      + destruct (poll_request q a) as [p'|] eqn:Ep; [|discriminate]. inversion H; subst.
        left. exact (proj2 (replay_only_same_ack _ _ _ Ep)).
      + destruct (poll_response swallow q a st body); discriminate.
    - destruct (IH _ _ H) as [H1|H1]; [|right; right; exact H1].
      destruct o as [e|a|a st body|]; cbn [eq_step fst] in H1.
      + left. exact H1.
      + left. exact H1.
      + cbn [eq_step]. destruct body as [p0|].
        * destruct (N.eqb st 200) eqn:E.
          -- apply N.eqb_eq in E. subst st. destruct (response_takes_all q a p0) as [_ [_ [Hp _]]].
             destruct (poll_response swallow q a 200 (Some p0)) as [q' b]. cbn [fst snd] in *.
             right. left. rewrite <- Hp, H1. reflexivity.
          -- rewrite (non200_untouched q a st (Some p0) E) in *. left. exact H1.
        * rewrite undef_body_untouched in *. left. exact H1.
      + discriminate.
  Qed.

End Proofs.
