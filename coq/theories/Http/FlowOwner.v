(* Model of the main-process side of the HTTP interception hand-off:
     hippolyzer/lib/proxy/http_flow.py        HippoHTTPFlow.take / resume / preempt, response setter
     hippolyzer/lib/proxy/addons.py           AddonManager._call_all_addon_hooks / _try_call_hook
     hippolyzer/lib/proxy/http_event_manager.py
                                              MITMProxyEventManager.pump_proxy_event,
                                              _handle_request, _handle_response
     hippolyzer/lib/proxy/http_proxy.py       IPCInterceptionAddon._pump_callbacks (one iteration)

   Definitions only; proofs are in FlowOwnerProofs.v.

   A flow is the pair of ownership flags of HippoHTTPFlow, the list of items it
   has put on the callback queue (flow_context.to_proxy_queue) and the part of
   its data the property talks about.  Every put carries a snapshot of that data
   (HippoHTTPFlow.resume puts self.get_state()).

   Everything that can raise is either decided by the flow state (assertions in
   take/resume/preempt) or by the configuration [cfg]: one injected fault point,
   the behaviour of every addon hook / message-handler subscriber, and the
   data-dependent outcomes of the handler stages (malformed body, missing cap,
   ...). *)
From Coq Require Import NArith List Bool.
Import ListNotations.
Open Scope N_scope.

(* ---- cap data as far as the handlers branch on it ---------------------- *)

Inductive cname :=
| NNone                              (* cap_name is None *)
| NSeed | NEQ | NLogin | NBridge | NUpload
| NOther (asset wrapsuffix : bool).  (* is_asset_server_cap_name / endswith("ProxyWrapper") *)

Inductive ctype := TNormal | TTemporary | TWrapper | TProxyOnly.

Record cap := mkCap { c_name : cname; c_type : ctype; c_sess : bool; c_region : bool }.

Definition empty_cap : cap := mkCap NNone TNormal false false.   (* CapData() *)

(* CapData.__bool__: bool(cap_name or session) *)
Definition cap_truthy (c : cap) : bool :=
  match c_name c with NNone => c_sess c | _ => true end.

Definition type_fake (t : ctype) : bool :=
  match t with TWrapper | TProxyOnly => true | _ => false end.

Definition name_asset (n : cname) : bool :=
  match n with NOther a _ => a | _ => false end.
Definition name_wrap (n : cname) : bool :=
  match n with NOther _ w => w | _ => false end.
Definition name_is_eq (n : cname) : bool := match n with NEQ => true | _ => false end.
Definition name_is_seed (n : cname) : bool := match n with NSeed => true | _ => false end.
Definition name_is_login (n : cname) : bool := match n with NLogin => true | _ => false end.
Definition name_is_bridge (n : cname) : bool := match n with NBridge => true | _ => false end.
Definition type_is_proxy_only (t : ctype) : bool := match t with TProxyOnly => true | _ => false end.

(* ---- the flow ------------------------------------------------------------ *)

Record fdata := mkData {
  d_resp : option N;        (* flow.response: status code, None = no response *)
  d_resp_inj : bool;        (* metadata["response_injected"] *)
  d_req_inj : bool;         (* metadata["request_injected"] *)
  d_can_stream : bool;      (* metadata["can_stream"] *)
  d_url_rw : bool;          (* request.url was rewritten *)
  d_body_rw : bool;         (* request.content was rewritten *)
  d_cap : option cap        (* metadata["cap_data"], None = None *)
}.

Inductive put := PCallback (d : fdata) | PPreempt (d : fdata).

(* [held] is a ghost field: no definition below reads it.  It records, independently of
   the flags the code looks at, whether an addon currently owns the flow: set when an
   addon's take() succeeds, cleared when an addon's own resume() gets past its assertion. *)
Record flow := mkFlow { taken : bool; resumed : bool; puts : list put; dat : fdata; held : bool }.

Definition fresh (d : fdata) : flow := mkFlow false false [] d false.

Definition set_dat (f : flow) (d : fdata) : flow := mkFlow (taken f) (resumed f) (puts f) d (held f).
Definition set_held (h : bool) (f : flow) : flow := mkFlow (taken f) (resumed f) (puts f) (dat f) h.

(* HippoHTTPFlow.response setter *)
Definition inject (st : N) (f : flow) : flow :=
  let d := dat f in
  set_dat f (mkData (Some st) true (d_req_inj d) (d_can_stream d) (d_url_rw d) (d_body_rw d) (d_cap d)).
Definition rewrite_url (f : flow) : flow :=
  let d := dat f in
  set_dat f (mkData (d_resp d) (d_resp_inj d) (d_req_inj d) (d_can_stream d) true (d_body_rw d) (d_cap d)).
Definition rewrite_body (f : flow) : flow :=
  let d := dat f in
  set_dat f (mkData (d_resp d) (d_resp_inj d) (d_req_inj d) (d_can_stream d) (d_url_rw d) true (d_cap d)).
Definition set_stream (b : bool) (f : flow) : flow :=
  let d := dat f in
  set_dat f (mkData (d_resp d) (d_resp_inj d) (d_req_inj d) b (d_url_rw d) (d_body_rw d) (d_cap d)).
Definition set_cap (c : option cap) (f : flow) : flow :=
  let d := dat f in
  set_dat f (mkData (d_resp d) (d_resp_inj d) (d_req_inj d) (d_can_stream d) (d_url_rw d) (d_body_rw d) c).

(* take(): assert not taken and not resumed.  Second component false = raised *)
Definition take (f : flow) : flow * bool :=
  if taken f || resumed f then (f, false)
  else (mkFlow true (resumed f) (puts f) (dat f) (held f), true).

(* resume(): assert not resumed; taken = False; resumed = True; put(get_state()).
   [gs_ok = false]: get_state() raises - the flags are already set, nothing is put *)
Definition resume (gs_ok : bool) (f : flow) : flow * bool :=
  if resumed f then (f, false)
  else if gs_ok then (mkFlow false true (puts f ++ [PCallback (dat f)]) (dat f) (held f), true)
       else (mkFlow false true (puts f) (dat f) (held f), false).

(* preempt(): assert not taken and resumed; put(("preempt", ...)) *)
Definition preempt (f : flow) : flow * bool :=
  if taken f || negb (resumed f) then (f, false)
  else (mkFlow (taken f) (resumed f) (puts f ++ [PPreempt (dat f)]) (dat f) (held f), true).

(* what a piece of addon code may do with a flow it can see *)
Inductive act :=
| ATake | AResume (gs_ok : bool) | APreempt
| AInject (st : N) | ARewriteUrl | ASetStream (b : bool).

Definition do_act (a : act) (f : flow) : flow * bool :=
  match a with
  | ATake => let (f', ok) := take f in ((if ok then set_held true f' else f'), ok)
  | AResume ok => let (f', r) := resume ok f in ((if resumed f then f' else set_held false f'), r)
  | APreempt => preempt f
  | AInject st => (inject st f, true)
  | ARewriteUrl => (rewrite_url f, true)
  | ASetStream b => (set_stream b f, true)
  end.

(* statements of a hook body up to the first one that raises *)
Fixpoint run_acts (l : list act) (f : flow) : flow * bool :=
  match l with
  | [] => (f, true)
  | a :: r => let (f', ok) := do_act a f in if ok then run_acts r f' else (f', false)
  end.

(* the same, but every statement is attempted (an addon that owns the flow,
   acting later from its own task); collects which ones raised *)
Fixpoint run_late (l : list act) (f : flow) : flow * list bool :=
  match l with
  | [] => (f, [])
  | a :: r => let (f', ok) := do_act a f in
              let (f'', oks) := run_late r f' in (f'', ok :: oks)
  end.

(* ---- addon hooks --------------------------------------------------------- *)

Inductive hret := HFalsy | HTruthy | HRaise.
Record hook := mkHook { h_acts : list act; h_ret : hret }.

Definition run_hook (h : hook) (f : flow) : flow * hret :=
  let (f', ok) := run_acts (h_acts h) f in
  if ok then (f', h_ret h) else (f', HRaise).

Inductive cres := CNone | CTruthy | CExc.

(* AddonManager._call_all_addon_hooks over addon objects; [swallow] =
   _SWALLOW_ADDON_EXCEPTIONS (the exception is logged and the hook counts as
   having returned None) *)
Fixpoint run_chain (swallow : bool) (hs : list hook) (f : flow) : flow * cres :=
  match hs with
  | [] => (f, CNone)
  | h :: r =>
      match run_hook h f with
      | (f', HFalsy) => run_chain swallow r f'
      | (f', HTruthy) => (f', CTruthy)
      | (f', HRaise) => if swallow then run_chain swallow r f' else (f', CExc)
      end
  end.

(* MessageHandler.handle -> Event.notify: every subscriber runs, exceptions
   are logged, return values only matter for unsubscription *)
Fixpoint run_subs (hs : list hook) (f : flow) : flow :=
  match hs with
  | [] => f
  | h :: r => run_subs r (fst (run_hook h f))
  end.

(* ---- configuration of one event ----------------------------------------- *)

Inductive event := EvRequest | EvResponse | EvBogus.

(* one injected fault: the named call raises when reached *)
Inductive fault :=
| FNone
| FResolve      (* session_manager.resolve_cap *)
| FAsset        (* asset_repo.try_serve_asset *)
| FReload       (* AddonManager._reload_addons (first statement of handle_http_request/response) *)
| FMake         (* mitmproxy.http.Response.make *)
| FSniff.       (* _is_login_request *)

Inductive logger := LNone | LOk | LRaise.
Inductive bridge_hdr := BNone | BBad | BMatch | BNoMatch.

Record cfg := mkCfg {
  g_ev : event;
  g_cap : cap;                (* request: what resolve_cap returns *)
  g_fault : fault;
  g_swallow : bool;
  g_hooks : list hook;        (* handle_http_request / handle_http_response hooks, in order *)
  g_sess_hooks : list hook;   (* session.http_message_handler subscribers *)
  g_reg_hooks : list hook;    (* region.http_message_handler subscribers *)
  g_asset_hit : bool;         (* the asset repo has the requested asset *)
  g_orig_present : bool;      (* wrapper: the wrapped cap is in region.cap_urls *)
  g_body_ok : bool;           (* request body parses (and has "ack" for EventQueueGet) *)
  g_eq_cached : bool;         (* EventQueueGet: a cached poll response exists for this ack *)
  g_seed_needed : bool;       (* Seed: the request names at least one proxy-only cap *)
  g_is_login : bool;          (* _is_login_request(flow) with the original request URL *)
  g_is_login_rw : bool;       (* ... with the URL a hook rewrote it to *)
  g_logger : logger;          (* session_manager.message_logger *)
  g_bridge : bridge_hdr;      (* response: X-SecondLife-Owner-Key header *)
  g_main_region : bool;       (* response: the matching session has a main_region *)
  g_login_ok : bool;          (* response: the original body is a well-formed login response *)
  g_inj_login_ok : bool;      (* response: so is the body of a response injected by a hook *)
  g_fin_gs_ok : bool          (* get_state() succeeds in the resume() of the finally clause *)
}.

Definition is_fault (c : cfg) (x : fault) : bool :=
  match g_fault c, x with
  | FResolve, FResolve | FAsset, FAsset | FReload, FReload | FMake, FMake | FSniff, FSniff => true
  | _, _ => false
  end.

(* result of a handler: the flow, the manager's _asset_server_proxied, raised? *)
Record hres := mkRes { r_flow : flow; r_proxied : bool; r_exc : bool }.

Definition done (f : flow) (p : bool) : hres := mkRes f p false.
Definition exc (f : flow) (p : bool) : hres := mkRes f p true.

(* flow.response = Response.make(...) *)
Definition make_inject (c : cfg) (st : N) (f : flow) (p : bool) : hres :=
  if is_fault c FMake then exc f p else done (inject st f) p.

(* the if/elif chain after the addon hooks in _handle_request *)
Definition name_is_none (n : cname) : bool := match n with NNone => true | _ => false end.

Definition request_branch (c : cfg) (cp : cap) (f : flow) (p : bool) : hres :=
  if cap_truthy cp && name_is_none (c_name cp) then exc f p   (* None.endswith *)
  else if cap_truthy cp && name_wrap (c_name cp) then
    if negb (c_region cp) then exc f p                (* cap_data.region is None *)
    else if negb (g_orig_present c) then exc f p      (* KeyError *)
    else if negb (d_can_stream (dat f)) || p then done (rewrite_url f) p
    else make_inject c 307 f p
  else if cap_truthy cp && name_asset (c_name cp) then done f true
  else if cap_truthy cp && name_is_eq (c_name cp) then
    if negb (g_body_ok c) then exc f p
    else if negb (c_region cp) then exc f p
    else if g_eq_cached c then make_inject c 200 f p else done f p
  else if cap_truthy cp && name_is_seed (c_name cp) then
    if negb (g_body_ok c) then exc f p
    else if negb (c_region cp) then exc f p
    else if g_seed_needed c then done (rewrite_body f) p else done f p
  else if negb (cap_truthy cp) then
    if is_fault c FSniff then exc f p
    else if (if d_url_rw (dat f) then g_is_login_rw c else g_is_login c) then done (set_cap (Some (mkCap NLogin TNormal false false)) f) p
    else done f p
  else done f p.

(* "A proxy addon was supposed to respond itself, but it didn't." *)
Definition request_tail (c : cfg) (cp : cap) (r : hres) : hres :=
  if r_exc r then r
  else
    let f := r_flow r in
    if cap_truthy cp && type_is_proxy_only (c_type cp)
       && negb (taken f) && negb (d_resp_inj (dat f))
    then make_inject c 500 f (r_proxied r)
    else r.

Definition handle_request (c : cfg) (p : bool) (f0 : flow) : hres :=
  if is_fault c FResolve then exc f0 p
  else
    let cp := g_cap c in
    let f := set_cap (Some cp) f0 in
    if d_req_inj (dat f) && (negb (cap_truthy cp) || negb (type_fake (c_type cp))) then done f p
    else
      (* the local asset repo gets first bite *)
      let pre :=
        if cap_truthy cp && name_asset (c_name cp) then
          if is_fault c FAsset then Some (exc f p)
          else if g_asset_hit c then Some (make_inject c 200 f p)
          else None
        else None in
      match pre with
      | Some r => r
      | None =>
          if is_fault c FReload then exc f p
          else
            match run_chain (g_swallow c) (g_hooks c) f with
            | (f1, CExc) => exc f1 p
            | (f1, _) => request_tail c cp (request_branch c cp f1 p)
            end
      end.

Definition handle_response (c : cfg) (p : bool) (f0 : flow) : hres :=
  (* the logger call is wrapped in try/except: whatever it does, we go on *)
  if d_req_inj (dat f0) || d_resp_inj (dat f0) then done f0 p
  else
    match d_resp (dat f0) with
    | None => exc f0 p                                (* flow.response.status_code on None *)
    | Some st =>
        let cp0 := match d_cap (dat f0) with
                   | Some cp => if cap_truthy cp then cp else empty_cap
                   | None => empty_cap end in
        let f := match d_cap (dat f0) with
                 | Some cp => if cap_truthy cp then f0 else set_cap (Some empty_cap) f0
                 | None => set_cap (Some empty_cap) f0 end in
        let bridge : option (flow * cap) + unit :=   (* inl None = return, inr = raise *)
          if (st =? 200) && cap_truthy cp0 && name_is_bridge (c_name cp0) then
            match g_bridge c with
            | BNone => inl None
            | BBad => inr tt
            | BNoMatch => inl (Some (f, cp0))
            | BMatch =>
                if g_main_region c then
                  let cp' := mkCap NBridge TNormal true true in
                  inl (Some (set_cap (Some cp') f, cp'))
                else inr tt                           (* weakref.ref(None) *)
            end
          else inl (Some (f, cp0)) in
        match bridge with
        | inr _ => exc f p
        | inl None => done f p
        | inl (Some (f1, cp1)) =>
            if is_fault c FReload then exc f1 p
            else
              match run_chain (g_swallow c) (g_hooks c) f1 with
              | (f2, CExc) => exc f2 p
              | (f2, CTruthy) => done f2 p
              | (f2, CNone) =>
                  if negb (st =? 200) || negb (cap_truthy cp1) then done f2 p
                  else if name_is_login (c_name cp1) then
                    if (if d_resp_inj (dat f2) then g_inj_login_ok c else g_login_ok c)
                    then done (set_cap (Some (mkCap NLogin TNormal true false)) f2) p
                    else exc f2 p
                  else
                    (* try: ... except: LOG.exception *)
                    if negb (c_sess cp1) then done f2 p
                    else
                      let f3 := run_subs (g_sess_hooks c) f2 in
                      if negb (c_region cp1) then done f3 p
                      else done (run_subs (g_reg_hooks c) f3) p
              end
        end
    end.

(* pump_proxy_event after from_state: try: handler ... finally: resume unless taken/resumed *)
Definition pump (c : cfg) (p : bool) (f0 : flow) : hres :=
  let body :=
    match g_ev c with
    | EvRequest =>
        let r := handle_request c p f0 in
        if r_exc r then r
        else
          match g_logger c with
          | LNone => r
          | LOk => r
          | LRaise => if d_resp_inj (dat (r_flow r)) then exc (r_flow r) (r_proxied r) else r
          end
    | EvResponse => handle_response c p f0
    | EvBogus => exc f0 p
    end in
  let f := r_flow body in
  if negb (taken f) && negb (resumed f) then
    let (f', ok) := resume (g_fin_gs_ok c) f in
    mkRes f' (r_proxied body) (r_exc body || negb ok)
  else body.

(* ---- observations -------------------------------------------------------- *)

Definition is_callback (x : put) : bool := match x with PCallback _ => true | _ => false end.
Definition callbacks (f : flow) : nat := length (filter is_callback (puts f)).

Definition act_gs_ok (a : act) : bool := match a with AResume ok => ok | _ => true end.
Definition act_no_resume (a : act) : bool := match a with AResume _ => false | _ => true end.
Definition hooks_all (q : act -> bool) (hs : list hook) : bool :=
  forallb (fun h => forallb q (h_acts h)) hs.
Definition cfg_all (q : act -> bool) (hs1 hs2 hs3 : list hook) : bool :=
  hooks_all q hs1 && hooks_all q hs2 && hooks_all q hs3.

(* no resume() anywhere in this event fails inside get_state() *)
Definition cfg_gs_ok (c : cfg) : bool :=
  g_fin_gs_ok c && cfg_all act_gs_ok (g_hooks c) (g_sess_hooks c) (g_reg_hooks c).
(* no addon hook / subscriber of this event calls resume() itself *)
Definition cfg_no_resume (c : cfg) : bool :=
  cfg_all act_no_resume (g_hooks c) (g_sess_hooks c) (g_reg_hooks c).

(* ---- proxy side: one iteration of IPCInterceptionAddon._pump_callbacks ---- *)

Inductive pevent := PECallback | PEPreempt | PEReplay | PEUnknown.

Record pres := mkPres {
  pr_resumes : nat;         (* calls of orig_flow.resume() *)
  pr_set_state : bool;      (* set_state was applied successfully *)
  pr_intercepts : nat       (* calls of orig_flow.intercept() *)
}.

(* [present]: flow id is still in self.flows; [set_ok]: set_state does not raise *)
Definition proxy_pump (e : pevent) (present set_ok : bool) : pres :=
  match e with
  | PECallback => if present then mkPres 1 set_ok 0 else mkPres 0 false 0   (* KeyError, logged *)
  | PEPreempt => if present then mkPres 1 set_ok 1 else mkPres 0 false 0
  | PEReplay => mkPres 0 false 0
  | PEUnknown => mkPres 0 false 0
  end.
