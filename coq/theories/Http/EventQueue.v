(* C17 - event queue proxying.  Model (definitions only) of
     hippolyzer/lib/proxy/region.py             EventQueueManager (inject_event, take_injected_events,
                                                cache_last_poll_response, get_cached_poll_response, clear)
     hippolyzer/lib/proxy/http_event_manager.py _handle_request / _handle_response, EventQueueGet branches,
                                                _handle_eq_event's verdict (addon swallowed the event or not)
   for ONE region (every ProxiedRegion owns its EventQueueManager; nothing is shared between regions).
   Events carry their origin (simulator / injected by the proxy) and a number; the code never looks at
   either, the tags only make the delivered stream observable.  The addon verdict is a section-local oracle. *)
From Coq Require Import List Bool Arith NArith.
Import ListNotations.

Inductive origin := FromSim | Injected.
Definition ev : Type := (origin * N)%type.

(* a parsed EventQueueGet response {"events": [...], "id": n} *)
Record payload := mkPayload { p_id : N; p_events : list ev }.

Record EQ := mkEQ {
  q_queued : list ev;              (* _queued_events *)
  q_last_ack : option N;           (* _last_ack (None = undef / never set) *)
  q_last_payload : option payload; (* _last_payload (None also stands for a cached undef) *)
}.

Definition eq_init : EQ := mkEQ [] None None.

Definition opt_N_eqb (a b : option N) : bool :=
  match a, b with Some x, Some y => N.eqb x y | None, None => true | _, _ => false end.

(* inject_event (the wake-up PlacesQuery is only an emitted datagram) *)
Definition inject (q : EQ) (e : ev) : EQ := mkEQ (q_queued q ++ [e]) (q_last_ack q) (q_last_payload q).

(* clear(), called by ProxiedRegion.mark_dead *)
Definition clear (q : EQ) : EQ := eq_init.

(* get_cached_poll_response + the truthiness test of the request branch: Some p = answered from the cache *)
Definition poll_request (q : EQ) (ack : option N) : option payload :=
  if opt_N_eqb (q_last_ack q) ack then q_last_payload q else None.

Inductive eq_op :=
| EInject (e : ev)                                               (* EventQueueManager.inject_event *)
| EReq (ack : option N)                                          (* _handle_request of a poll *)
| EResp (ack : option N) (status : N) (body : option payload)    (* _handle_response of a forwarded poll whose request had this ack *)
| EDead.                                                         (* ProxiedRegion.mark_dead *)

Inductive eq_out :=
| XNone
| XCached (p : payload)          (* request answered by the proxy with the cached previous response *)
| XForward                       (* request forwarded to the simulator *)
| XBody (b : option payload).    (* body handed to the viewer (None = LLSD undef) *)

Section Verdict.
  (* AddonManager.handle_eq_event(...) is True: the event is not forwarded to the viewer *)
  Variable swallow : ev -> bool.

  Definition keep (l : list ev) : list ev := filter (fun e => negb (swallow e)) l.

  (* response branch for a flow that was NOT answered from the cache.
     body = None: LLSD undef (any falsy body).  Result: new state and the body the viewer gets. *)
  Definition poll_response (q : EQ) (ack : option N) (status : N) (body : option payload)
    : EQ * option payload :=
    if negb (N.eqb status 200) then (q, body)
    else match body with
         | None => (q, None)
         | Some p =>
             let new_events := keep (p_events p) ++ q_queued q in
             let out := match p_events p, new_events with
                        | _ :: _, [] => None          (* events came in, none left: undef *)
                        | _, _ => Some (mkPayload (p_id p) new_events)
                        end in
             (mkEQ [] ack out, out)
         end.

  Definition eq_step (q : EQ) (o : eq_op) : EQ * eq_out :=
    match o with
    | EInject e => (inject q e, XNone)
    | EReq ack => (q, match poll_request q ack with Some p => XCached p | None => XForward end)
    | EResp ack status body => let (q', b) := poll_response q ack status body in (q', XBody b)
    | EDead => (clear q, XNone)
    end.

  Fixpoint eq_trace (ops : list eq_op) (q : EQ) : EQ * list eq_out :=
    match ops with
    | [] => (q, [])
    | o :: t => let (q1, x) := eq_step q o in
                let (q2, xs) := eq_trace t q1 in (q2, x :: xs)
    end.

  Definition eq_run (ops : list eq_op) (q : EQ) : EQ := fst (eq_trace ops q).
  Definition eq_outs (ops : list eq_op) (q : EQ) : list eq_out := snd (eq_trace ops q).
End Verdict.

(* ---------------------------------------------------------------------------------------------
   Environment model for the composition theorem (not code of /repo): the simulator and a viewer
   around ONE region's proxy-side event queue.
   Simulator: owns a list of batches it will send; every forwarded poll that it answers with events
   takes the NEXT batch - once a batch has been sent it is gone, whatever the viewer acknowledged
   (the "sim's EQ acking mechanism doesn't work" situation the replay cache exists for); it may also
   answer with a non-200 status or with an undef body.  It is never asked again for a repeated ack of a
   lost response, because the proxy answers that request from its cache.
   Viewer: polls with the id of the last response it received (undef at first); any response may be lost on
   the way, after which it polls again with the same ack; a received response whose id it has already
   seen is not accepted a second time. *)

Record Viewer := mkViewer {
  v_ack : option N;          (* id of the last response received *)
  v_seen : list N;           (* ids accepted so far *)
  v_accepted : list ev;      (* the stream of events accepted so far *)
}.

Definition viewer_init : Viewer := mkViewer None [] [].

Definition viewer_receive (v : Viewer) (p : payload) : Viewer :=
  if existsb (N.eqb (p_id p)) (v_seen v)
  then mkViewer (Some (p_id p)) (v_seen v) (v_accepted v)
  else mkViewer (Some (p_id p)) (p_id p :: v_seen v) (v_accepted v ++ p_events p).

Inductive sim_reply :=
| SBatch               (* 200 with the next batch (a 502 timeout when nothing is left) *)
| SStatus (st : N)     (* any status, no usable body *)
| SUndef.              (* 200 with an undef body *)

Inductive sys_op :=
| YInject (n : N)                            (* the proxy injects event (Injected, n) *)
| YCycle (reply : sim_reply) (lost : bool).  (* one poll of the viewer; [reply] is used only when the poll is forwarded *)

Record Sys := mkSys {
  y_eq : EQ;
  y_viewer : Viewer;
  y_sim : list payload;        (* batches the simulator has not sent yet *)
  y_served : list payload;     (* ghost: batches sent so far, in order *)
  y_injected : list ev;        (* ghost: events injected so far, in order *)
}.

Definition sys_init (batches : list payload) : Sys := mkSys eq_init viewer_init batches [] [].

Section System.
  Variable swallow : ev -> bool.

  Definition sys_step (y : Sys) (o : sys_op) : Sys :=
    match o with
    | YInject n =>
        mkSys (inject (y_eq y) (Injected, n)) (y_viewer y) (y_sim y) (y_served y) (y_injected y ++ [(Injected, n)])
    | YCycle reply lost =>
        let v := y_viewer y in
        match poll_request (y_eq y) (v_ack v) with
        | Some p =>                       (* answered by the proxy from its cache; the simulator is not involved *)
            mkSys (y_eq y) (if lost then v else viewer_receive v p) (y_sim y) (y_served y) (y_injected y)
        | None =>                         (* forwarded *)
            let '(status, body, sim', served') :=
              match reply, y_sim y with
              | SBatch, b :: rest => (200%N, Some b, rest, y_served y ++ [b])
              | SBatch, [] => (502%N, None, [], y_served y)
              | SStatus st, _ => (st, None, y_sim y, y_served y)
              | SUndef, _ => (200%N, None, y_sim y, y_served y)
              end in
            let (q', out) := poll_response swallow (y_eq y) (v_ack v) status body in
            let v' := if lost then v
                      else match N.eqb status 200, out with
                           | true, Some p => viewer_receive v p
                           | _, _ => v
                           end in
            mkSys q' v' sim' served' (y_injected y)
        end
    end.

  Definition sys_run (ops : list sys_op) (y : Sys) : Sys := fold_left sys_step ops y.

  (* the body produced for the viewer that it has not received yet (lost so far) *)
  Definition in_flight (y : Sys) : list ev :=
    match q_last_payload (y_eq y) with
    | Some p => if existsb (N.eqb (p_id p)) (v_seen (y_viewer y)) then [] else p_events p
    | None => []
    end.
End System.
