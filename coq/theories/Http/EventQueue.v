(* C17 - event queue proxying.  Model (definitions only) of
     hippolyzer/lib/proxy/region.py             EventQueueManager (inject_event, take_injected_events,
                                                cache_last_poll_response, get_cached_poll_response, clear)
     hippolyzer/lib/proxy/http_event_manager.py _handle_request / _handle_response, EventQueueGet branches,
                                                _handle_eq_event's verdict (addon swallowed the event or not)
   for ONE region (every ProxiedRegion owns its EventQueueManager; nothing is shared between regions).
   Events carry their origin (simulator / injected by the proxy) and a number; the code never looks at
   either, the tags only make the delivered stream observable.  The addon verdict is a section-local oracle. *)
From Coq Require Import List Bool Arith NArith.
Import ListNotations.

Inductive origin := FromSim | Injected.
Definition ev : Type := (origin * N)%type.

(* a parsed EventQueueGet response {"events": [...], "id": n} *)
Record payload := mkPayload { p_id : N; p_events : list ev }.

Record EQ := mkEQ {
  q_queued : list ev;              (* _queued_events *)
  q_last_ack : option N;           (* _last_ack (None = undef / never set) *)
  q_last_payload : option payload; (* _last_payload (None also stands for a cached undef) *)
}.

Definition eq_init : EQ := mkEQ [] None None.

Definition opt_N_eqb (a b : option N) : bool :=
  match a, b with Some x, Some y => N.eqb x y | None, None => true | _, _ => false end.

(* inject_event (the wake-up PlacesQuery is only an emitted datagram) *)
Definition inject (q : EQ) (e : ev) : EQ := mkEQ (q_queued q ++ [e]) (q_last_ack q) (q_last_payload q).

(* clear(), called by ProxiedRegion.mark_dead *)
Definition clear (q : EQ) : EQ := eq_init.

(* get_cached_poll_response + the truthiness test of the request branch: Some p = answered from the cache *)
Definition poll_request (q : EQ) (ack : option N) : option payload :=
  if opt_N_eqb (q_last_ack q) ack then q_last_payload q else None.

Inductive eq_op :=
| EInject (e : ev)                                               (* EventQueueManager.inject_event *)
| EReq (ack : option N)                                          (* _handle_request of a poll *)
| EResp (ack : option N) (status : N) (body : option payload)    (* _handle_response of a forwarded poll whose request had this ack *)
| EDead.                                                         (* ProxiedRegion.mark_dead *)

Inductive eq_out :=
| XNone
| XCached (p : payload)          (* request answered by the proxy with the cached previous response *)
| XForward                       (* request forwarded to the simulator *)
| XBody (b : option payload).    (* body handed to the viewer (None = LLSD undef) *)

Section Verdict.
  (* AddonManager.handle_eq_event(...) is True: the event is not forwarded to the viewer *)
  Variable swallow : ev -> bool.

  Definition keep (l : list ev) : list ev := filter (fun e => negb (swallow e)) l.

  (* response branch for a flow that was NOT answered from the cache.
     body = None: LLSD undef (any falsy body).  Result: new state and the body the viewer gets. *)
  Definition poll_response (q : EQ) (ack : option N) (status : N) (body : option payload)
    : EQ * option payload :=
    if negb (N.eqb status 200) then (q, body)
    else match body with
         | None => (q, None)
         | Some p =>
             let new_events := keep (p_events p) ++ q_queued q in
             let out := match p_events p, new_events with
                        | _ :: _, [] => None          (* events came in, none left: undef *)
                        | _, _ => Some (mkPayload (p_id p) new_events)
                        end in
             (mkEQ [] ack out, out)
         end.

  Definition eq_step (q : EQ) (o : eq_op) : EQ * eq_out :=
    match o with
    | EInject e => (inject q e, XNone)
    | EReq ack => (q, match poll_request q ack with Some p => XCached p | None => XForward end)
    | EResp ack status body => let (q', b) := poll_response q ack status body in (q', XBody b)
    | EDead => (clear q, XNone)
    end.

  Fixpoint eq_trace (ops : list eq_op) (q : EQ) : EQ * list eq_out :=
    match ops with
    | [] => (q, [])
    | o :: t => let (q1, x) := eq_step q o in
                let (q2, xs) := eq_trace t q1 in (q2, x :: xs)
    end.

  Definition eq_run (ops : list eq_op) (q : EQ) : EQ := fst (eq_trace ops q).
  Definition eq_outs (ops : list eq_op) (q : EQ) : list eq_out := snd (eq_trace ops q).
End Verdict.
