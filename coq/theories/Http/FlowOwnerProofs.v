(* Proofs about Http/FlowOwner.v (hand-back of intercepted HTTP flows). *)
From Coq Require Import NArith List Bool Lia.
From HV Require Import Http.FlowOwner.
Import ListNotations.

(* ------------------------------------------------------------------------ *)
(* A predicate on flows that only looks at the ownership part and that every
   permitted addon statement preserves is preserved by both handlers.        *)

Section Generic.
  Variable P : flow -> Prop.
  Variable q : act -> bool.
  Hypothesis P_dat : forall f d, P f -> P (set_dat f d).
  Hypothesis P_act : forall a f, q a = true -> P f -> P (fst (do_act a f)).

  Lemma P_inject : forall st f, P f -> P (inject st f).
  Proof. intros; unfold inject; auto. Qed.
  Lemma P_rewrite_url : forall f, P f -> P (rewrite_url f).
  Proof. intros; unfold rewrite_url; auto. Qed.
  Lemma P_rewrite_body : forall f, P f -> P (rewrite_body f).
  Proof. intros; unfold rewrite_body; auto. Qed.
  Lemma P_set_cap : forall c f, P f -> P (set_cap c f).
  Proof. intros; unfold set_cap; auto. Qed.

  Lemma P_run_acts : forall l f, forallb q l = true -> P f -> P (fst (run_acts l f)).
  Proof.
    induction l as [|a r IH]; intros f Hq Hf; cbn in *; auto.
    apply andb_true_iff in Hq as [Ha Hr].
    pose proof (P_act a f Ha Hf) as H1.
    destruct (do_act a f) as [f' ok]; cbn in *.
    destruct ok; cbn; auto.
  Qed.

  Lemma P_run_hook : forall h f, forallb q (h_acts h) = true -> P f -> P (fst (run_hook h f)).
  Proof.
    intros h f Hq Hf. unfold run_hook.
    pose proof (P_run_acts _ f Hq Hf) as H1.
    destruct (run_acts (h_acts h) f) as [f' ok]; cbn in *. destruct ok; cbn; auto.
  Qed.

  Lemma P_run_chain : forall sw hs f, hooks_all q hs = true -> P f -> P (fst (run_chain sw hs f)).
  Proof.
    induction hs as [|h r IH]; intros f Hq Hf; cbn in *; auto.
    apply andb_true_iff in Hq as [Hh Hr].
    pose proof (P_run_hook h f Hh Hf) as H1.
    destruct (run_hook h f) as [f' rt]; cbn in *.
    destruct rt; cbn; auto. destruct sw; cbn; auto.
  Qed.

  Lemma P_run_subs : forall hs f, hooks_all q hs = true -> P f -> P (run_subs hs f).
  Proof.
    induction hs as [|h r IH]; intros f Hq Hf; cbn in *; auto.
    apply andb_true_iff in Hq as [Hh Hr].
    apply IH; auto. apply P_run_hook; auto.
  Qed.

  Lemma P_make_inject : forall c st f p, P f -> P (r_flow (make_inject c st f p)).
  Proof. intros; unfold make_inject; destruct (is_fault c FMake); cbn; auto using P_inject. Qed.

  Ltac split_ifs :=
    repeat match goal with
           | |- context [if ?b then _ else _] => destruct b
           end.

  Lemma P_request_branch : forall c cp f p, P f -> P (r_flow (request_branch c cp f p)).
  Proof.
    intros c cp f p Hf. unfold request_branch.
    split_ifs; cbn;
      auto using P_inject, P_rewrite_url, P_rewrite_body, P_set_cap, P_make_inject.
  Qed.

  Lemma P_request_tail : forall c cp r, P (r_flow r) -> P (r_flow (request_tail c cp r)).
  Proof.
    intros c cp r Hr. unfold request_tail.
    split_ifs; cbn; auto using P_make_inject.
  Qed.

  Lemma P_handle_request : forall c p f,
    hooks_all q (g_hooks c) = true -> P f -> P (r_flow (handle_request c p f)).
  Proof.
    intros c p f Hq Hf. unfold handle_request.
    destruct (is_fault c FResolve); cbn; auto.
    assert (Hc : P (set_cap (Some (g_cap c)) f)) by auto using P_set_cap.
    destruct (_ && (_ || _)); cbn; auto.
    destruct (cap_truthy (g_cap c) && name_asset (c_name (g_cap c))).
    - destruct (is_fault c FAsset); cbn; auto.
      destruct (g_asset_hit c); auto using P_make_inject.
      destruct (is_fault c FReload); cbn; auto.
      pose proof (P_run_chain (g_swallow c) _ _ Hq Hc) as H1.
      destruct (run_chain _ _ _) as [f1 r]; cbn in H1.
      destruct r; cbn; auto using P_request_tail, P_request_branch.
    - destruct (is_fault c FReload); cbn; auto.
      pose proof (P_run_chain (g_swallow c) _ _ Hq Hc) as H1.
      destruct (run_chain _ _ _) as [f1 r]; cbn in H1.
      destruct r; cbn; auto using P_request_tail, P_request_branch.
  Qed.

  Lemma P_handle_response : forall c p f,
    cfg_all q (g_hooks c) (g_sess_hooks c) (g_reg_hooks c) = true ->
    P f -> P (r_flow (handle_response c p f)).
  Proof.
    intros c p f Hq Hf. unfold cfg_all in Hq.
    apply andb_true_iff in Hq as [Hq Hq3]. apply andb_true_iff in Hq as [Hq1 Hq2].
    unfold handle_response.
    destruct (_ || _); cbn; auto.
    destruct (d_resp (dat f)) as [st|]; cbn; auto.
    set (f' := match d_cap (dat f) with
               | Some cp => if cap_truthy cp then f else set_cap (Some empty_cap) f
               | None => set_cap (Some empty_cap) f end).
    assert (Hf' : P f').
    { subst f'. destruct (d_cap (dat f)) as [cp|]; [destruct (cap_truthy cp)|]; auto using P_set_cap. }
    clearbody f'.
    set (cp0 := match d_cap (dat f) with
                | Some cp => if cap_truthy cp then cp else empty_cap
                | None => empty_cap end). clearbody cp0.
    set (br := if _ && _ && _ then _ else _).
    assert (Hbr : match br with
                  | inl (Some (f1, _)) => P f1
                  | _ => True end).
    { subst br. destruct (_ && _ && _); auto.
      destruct (g_bridge c); auto. destruct (g_main_region c); auto using P_set_cap. }
    clearbody br.
    destruct br as [[[f1 cp1]|]|]; cbn; auto.
    destruct (is_fault c FReload); cbn; auto.
    pose proof (P_run_chain (g_swallow c) _ _ Hq1 Hbr) as H1.
    destruct (run_chain _ _ _) as [f2 r]; cbn in H1.
    destruct r; cbn; auto.
    destruct (_ || _); cbn; auto.
    destruct (name_is_login _); [destruct (if d_resp_inj _ then _ else _); cbn; auto using P_set_cap|].
    destruct (negb (c_sess cp1)); cbn; auto.
    destruct (negb (c_region cp1)); cbn; auto using P_run_subs.
  Qed.

  (* the flow as it is when the finally clause of pump_proxy_event is entered *)
  Definition pump_body (c : cfg) (p : bool) (f0 : flow) : hres :=
    match g_ev c with
    | EvRequest =>
        let r := handle_request c p f0 in
        if r_exc r then r
        else
          match g_logger c with
          | LNone => r
          | LOk => r
          | LRaise => if d_resp_inj (dat (r_flow r)) then exc (r_flow r) (r_proxied r) else r
          end
    | EvResponse => handle_response c p f0
    | EvBogus => exc f0 p
    end.

  Lemma P_pump_body : forall c p f,
    cfg_all q (g_hooks c) (g_sess_hooks c) (g_reg_hooks c) = true ->
    P f -> P (r_flow (pump_body c p f)).
  Proof.
    intros c p f Hq Hf. unfold pump_body.
    destruct (g_ev c); cbn; auto.
    - assert (H1 : P (r_flow (handle_request c p f))).
      { apply P_handle_request; auto. unfold cfg_all in Hq.
        apply andb_true_iff in Hq as [Hq _]. apply andb_true_iff in Hq as [Hq _]. exact Hq. }
      destruct (r_exc _); auto. destruct (g_logger c); auto.
      destruct (d_resp_inj _); cbn; auto.
    - apply P_handle_response; auto.
  Qed.
End Generic.

Lemma pump_unfold : forall c p f0,
  pump c p f0 =
  let body := pump_body c p f0 in
  let f := r_flow body in
  if negb (taken f) && negb (resumed f) then
    let (f', ok) := resume (g_fin_gs_ok c) f in
    mkRes f' (r_proxied body) (r_exc body || negb ok)
  else body.
Proof. reflexivity. Qed.

(* ------------------------------------------------------------------------ *)
(* Instances                                                                 *)

(* at most one callback, whatever fails; the ghost owner agrees with the flag *)
Definition Inv_le (f : flow) : Prop :=
  (callbacks f <= if resumed f then 1 else 0)%nat /\ (taken f = true -> resumed f = false)
  /\ held f = taken f.

(* exactly one callback once resumed *)
Definition Inv (f : flow) : Prop :=
  callbacks f = (if resumed f then 1 else 0)%nat /\ (taken f = true -> resumed f = false)
  /\ held f = taken f.

(* nothing has been resumed or put yet *)
Definition Untouched (f : flow) : Prop := resumed f = false /\ puts f = [] /\ held f = taken f.

Lemma Inv_le_dat : forall f d, Inv_le f -> Inv_le (set_dat f d).
Proof. intros [t r pu d0 h] d H; exact H. Qed.
Lemma Inv_dat : forall f d, Inv f -> Inv (set_dat f d).
Proof. intros [t r pu d0 h] d H; exact H. Qed.
Lemma Untouched_dat : forall f d, Untouched f -> Untouched (set_dat f d).
Proof. intros [t r pu d0 h] d H; exact H. Qed.

Ltac cb := unfold callbacks in *; cbn in *; rewrite ?filter_app, ?app_length in *; cbn in *; try lia.

Lemma Inv_le_act : forall a f, (fun _ : act => true) a = true -> Inv_le f -> Inv_le (fst (do_act a f)).
Proof.
  intros a [t r pu d h] _ (H1 & H2 & H3); unfold Inv_le in *.
  destruct a as [|ok| | | |]; try (split; [exact H1 | split; [exact H2 | exact H3]]).
  - (* take *) destruct t, r; cbn in *; auto; repeat split; auto; discriminate.
  - (* resume *) destruct r; [cbn in *; auto|].
    destruct ok; (split; [cb|split; [cbn; discriminate|reflexivity]]).
  - (* preempt *) destruct t, r; cbn in *; auto.
    split; auto. cb.
Qed.

Lemma Inv_act : forall a f, act_gs_ok a = true -> Inv f -> Inv (fst (do_act a f)).
Proof.
  intros a [t r pu d h] Ha (H1 & H2 & H3); unfold Inv in *.
  destruct a as [|ok| | | |]; try (split; [exact H1 | split; [exact H2 | exact H3]]).
  - destruct t, r; cbn in *; auto; repeat split; auto; discriminate.
  - cbn in Ha; subst ok. destruct r; [cbn in *; auto|].
    split; [cb|split; [cbn; discriminate|reflexivity]].
  - destruct t, r; cbn in *; auto.
    split; auto. cb.
Qed.

Lemma Untouched_act : forall a f, act_no_resume a = true -> Untouched f -> Untouched (fst (do_act a f)).
Proof.
  intros a [t r pu d h] Ha (H1 & H2 & H3); unfold Untouched in *; cbn in *. subst r pu h.
  destruct a as [|ok| | | |]; cbn in *; try discriminate; auto.
  - destruct t; cbn; auto.
  - destruct t; cbn; auto.
Qed.

(* ------------------------------------------------------------------------ *)
(* handed_back_once                                                          *)

Lemma fresh_Inv : forall d, Inv (fresh d).
Proof. intros; repeat split; cbn; auto; discriminate. Qed.
Lemma fresh_Inv_le : forall d, Inv_le (fresh d).
Proof. intros; repeat split; cbn; auto; discriminate. Qed.
Lemma fresh_Untouched : forall d, Untouched (fresh d).
Proof. intros; repeat split; reflexivity. Qed.

Lemma hooks_all_true : forall hs, hooks_all (fun _ => true) hs = true.
Proof.
  induction hs as [|h r IH]; auto.
  unfold hooks_all in *. cbn. rewrite IH, andb_true_r.
  induction (h_acts h); cbn; auto.
Qed.

(* during the pump: one put iff no addon owns the flow afterwards, none iff
   an addon holds it - for every fault point, cap, event kind and addon
   behaviour (no get_state failure inside resume).  [held] is the ghost owner,
   which the code does not look at; [taken] is the flag it does look at. *)
Theorem pump_handed_back_once : forall c p d,
  cfg_gs_ok c = true ->
  let f := r_flow (pump c p (fresh d)) in
  callbacks f = (if held f then 0 else 1)%nat
  /\ held f = taken f
  /\ (held f = true -> resumed f = false)
  /\ (held f = false -> resumed f = true).
Proof.
  intros c p d Hok. unfold cfg_gs_ok in Hok. apply andb_true_iff in Hok as [Hfin Hq].
  pose proof (P_pump_body Inv act_gs_ok Inv_dat Inv_act c p (fresh d) Hq (fresh_Inv d)) as HI.
  cbv zeta. rewrite pump_unfold. cbv zeta.
  set (b := pump_body c p (fresh d)) in *. clearbody b.
  destruct b as [f pr ex]; cbn in *.
  destruct f as [t r pu dd h]; destruct HI as (H1 & H2 & H3); cbn in *. subst h.
  rewrite Hfin.
  destruct t, r; cbn in *; try (specialize (H2 eq_refl); discriminate);
    repeat split; intros; try discriminate; auto; cb.
Qed.

(* never twice, whatever fails (including get_state inside resume) *)
Theorem pump_at_most_once : forall c p d,
  let f := r_flow (pump c p (fresh d)) in
  (callbacks f <= 1)%nat /\ (held f = true -> callbacks f = 0%nat).
Proof.
  intros c p d.
  assert (Hq : cfg_all (fun _ => true) (g_hooks c) (g_sess_hooks c) (g_reg_hooks c) = true).
  { unfold cfg_all. rewrite !hooks_all_true. reflexivity. }
  pose proof (P_pump_body Inv_le (fun _ => true) Inv_le_dat Inv_le_act c p (fresh d) Hq (fresh_Inv_le d)) as HI.
  cbv zeta. rewrite pump_unfold. cbv zeta.
  set (b := pump_body c p (fresh d)) in *. clearbody b.
  destruct b as [f pr ex]; cbn in *.
  destruct f as [t r pu dd h]; destruct HI as (H1 & H2 & H3); cbn in *. subst h.
  destruct t, r; cbn in *; try (specialize (H2 eq_refl); discriminate).
  - split; [lia|intros _; lia].
  - split; [lia|discriminate].
  - destruct (g_fin_gs_ok c); cbn.
    + split; [cb|discriminate].
    + split; [cb|discriminate].
Qed.

(* after the pump, whatever the addon that may hold the flow does later *)
Lemma Inv_run_late : forall l f, forallb act_gs_ok l = true -> Inv f -> Inv (fst (run_late l f)).
Proof.
  induction l as [|a r IH]; intros f Hq Hf; cbn in *; auto.
  apply andb_true_iff in Hq as [Ha Hr].
  pose proof (Inv_act a f Ha Hf) as H1.
  destruct (do_act a f) as [f' ok]; cbn in *.
  specialize (IH f' Hr H1). destruct (run_late r f') as [f'' oks]; cbn in *. exact IH.
Qed.

Lemma pump_Inv : forall c p d, cfg_gs_ok c = true -> Inv (r_flow (pump c p (fresh d))).
Proof.
  intros c p d Hok. destruct (pump_handed_back_once c p d Hok) as (H1 & H0 & H2 & H3).
  repeat split; auto.
  - destruct (held _) eqn:Et; [rewrite (H2 eq_refl)|rewrite (H3 eq_refl)]; exact H1.
  - intros Ht. apply H2. rewrite H0. exact Ht.
Qed.

Theorem history_handed_back_once : forall c p d late,
  cfg_gs_ok c = true -> forallb act_gs_ok late = true ->
  let f := fst (run_late late (r_flow (pump c p (fresh d)))) in
  callbacks f = (if resumed f then 1 else 0)%nat /\ (held f = true -> resumed f = false)
  /\ held f = taken f.
Proof.
  intros c p d late Hc Hl. cbv zeta.
  destruct (Inv_run_late late _ Hl (pump_Inv c p d Hc)) as (H1 & H2 & H3).
  repeat split; auto. rewrite H3. exact H2.
Qed.

(* the addon's release: succeeds and puts exactly one callback *)
Theorem release_puts_one : forall f,
  Inv f -> held f = true ->
  exists f', do_act (AResume true) f = (f', true)
             /\ callbacks f' = 1%nat /\ held f' = false /\ taken f' = false /\ resumed f' = true
             /\ puts f' = puts f ++ [PCallback (dat f)].
Proof.
  intros [t r pu d h] (H1 & H2 & H3) Ht; cbn in *. subst h t. rewrite (H2 eq_refl) in *.
  eexists; unfold resume; cbn. repeat split. cb.
Qed.

(* a second resume / a take after resume is rejected and changes nothing *)
Theorem second_resume_rejected : forall ok f, resumed f = true -> do_act (AResume ok) f = (f, false).
Proof. intros ok [t r pu d h] H; cbn in *; subst; reflexivity. Qed.

Theorem take_after_resume_rejected : forall f, resumed f = true -> do_act ATake f = (f, false).
Proof. intros [t r pu d h] H; cbn in *; subst. unfold take; cbn. rewrite orb_true_r. reflexivity. Qed.

Theorem second_take_rejected : forall f, taken f = true -> do_act ATake f = (f, false).
Proof. intros [t r pu d h] H; cbn in *; subst. reflexivity. Qed.

Theorem preempt_needs_resumed : forall f, resumed f = false -> do_act APreempt f = (f, false).
Proof. intros [t r pu d h] H; cbn in *; subst. unfold preempt; cbn. rewrite orb_true_r. reflexivity. Qed.

(* state intact: when no addon resumes the flow itself and none holds it, the
   single item put during the pump carries the data of the flow as the
   handlers and hooks left it (injected response, rewritten URL/body, cap) *)
Theorem pump_put_is_final_state : forall c p d,
  cfg_no_resume c = true -> g_fin_gs_ok c = true ->
  let f := r_flow (pump c p (fresh d)) in
  held f = false -> puts f = [PCallback (dat f)].
Proof.
  intros c p d Hq Hfin.
  pose proof (P_pump_body Untouched act_no_resume Untouched_dat Untouched_act c p (fresh d) Hq
                (fresh_Untouched d)) as HI.
  cbv zeta. rewrite pump_unfold. cbv zeta.
  set (b := pump_body c p (fresh d)) in *. clearbody b.
  destruct b as [f pr ex]; cbn in *.
  destruct f as [t r pu dd h]; destruct HI as (H1 & H2 & H3); cbn in *. subst r pu h.
  rewrite Hfin. destruct t; cbn; auto. discriminate.
Qed.

(* ... and then the flow is held by an addon exactly when a hook took it *)
Theorem pump_no_resume_taken_or_put : forall c p d,
  cfg_no_resume c = true -> g_fin_gs_ok c = true ->
  let f := r_flow (pump c p (fresh d)) in
  held f = true -> puts f = [].
Proof.
  intros c p d Hq Hfin.
  pose proof (P_pump_body Untouched act_no_resume Untouched_dat Untouched_act c p (fresh d) Hq
                (fresh_Untouched d)) as HI.
  cbv zeta. rewrite pump_unfold. cbv zeta.
  set (b := pump_body c p (fresh d)) in *. clearbody b.
  destruct b as [f pr ex]; cbn in *.
  destruct f as [t r pu dd h]; destruct HI as (H1 & H2 & H3); cbn in *. subst r pu h.
  rewrite Hfin. destruct t; cbn; auto. discriminate.
Qed.

(* a handler or hook that raises never prevents the hand-back: if nobody took
   the flow, it is resumed even though the pump raises *)
Theorem pump_exc_still_handed_back : forall c p d,
  cfg_gs_ok c = true ->
  let r := pump c p (fresh d) in
  r_exc r = true -> held (r_flow r) = false -> callbacks (r_flow r) = 1%nat.
Proof.
  intros c p d Hok r _ Ht. subst r.
  destruct (pump_handed_back_once c p d Hok) as (H1 & _).
  rewrite Ht in H1. exact H1.
Qed.

(* ------------------------------------------------------------------------ *)
(* what goes wrong when get_state() raises inside resume(): the flags are
   set before the put, so the finally clause (and everybody else) believes
   the flow was handed back                                                  *)

Definition d0 : fdata := mkData None false false true false false None.
Definition cfg0 : cfg :=
  mkCfg EvRequest empty_cap FNone true [] [] [] false false true false false false false LNone
        BNone false false false true.
Definition cfg_gs_fault : cfg :=
  mkCfg EvRequest empty_cap FNone true [] [] [] false false true false false false false LNone
        BNone false false false false.

Lemma handed_back_once_without_gs_refuted :
  exists c p d, let f := r_flow (pump c p (fresh d)) in
                held f = false /\ taken f = false /\ callbacks f = 0%nat /\ resumed f = true
                /\ do_act (AResume true) f = (f, false).
Proof. exists cfg_gs_fault, false, d0. vm_compute. repeat split. Qed.

(* configurations used by the non-vacuity examples of Props/C15.v *)
Definition ex_take_resume_later : cfg :=
  mkCfg EvRequest (mkCap (NOther false false) TNormal true true) FNone true
        [mkHook [ATake; AInject 200] HRaise; mkHook [ATake] HFalsy] [] []
        false false true false false false false LOk BNone false false false true.

Definition ex_wrapper_fault : cfg :=
  mkCfg EvRequest (mkCap (NOther true true) TWrapper true true) FNone false
        [mkHook [ASetStream false] HFalsy] [] []
        false false true false false false false LNone BNone false false false true.

(* ------------------------------------------------------------------------ *)
(* proxy side                                                                *)

Theorem proxy_resumes_once : forall e set_ok,
  (e = PECallback \/ e = PEPreempt) -> pr_resumes (proxy_pump e true set_ok) = 1%nat.
Proof. intros e s [H|H]; subst; reflexivity. Qed.

Theorem proxy_no_flow_no_resume : forall e set_ok, pr_resumes (proxy_pump e false set_ok) = 0%nat.
Proof. intros [] s; reflexivity. Qed.
