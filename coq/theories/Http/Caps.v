(* C16 - capability URL attribution.  Model (definitions only) of
     hippolyzer/lib/proxy/region.py    CapsMultiDict, ProxiedRegion.{update_caps,_recalc_caps,
                                       register_cap,register_wrapper_cap,register_proxy_cap,resolve_cap}
     hippolyzer/lib/proxy/sessions.py  Session.resolve_cap, SessionManager.resolve_cap/create_session
     hippolyzer/lib/client/state.py    BaseClientSession.register_region / from_login_data
     hippolyzer/lib/proxy/http_event_manager.py  _handle_request (Seed branch), _handle_response
                                       (Seed branch, upload-creating caps branch)
   Strings are [str] = list ascii (UTF-8 bytes of the Python str; [startswith] on code points
   and on UTF-8 bytes coincide); Coq's [string] is only used to write the literals.  Regions and sessions are identified by their index in
   [Session.regions] / [SessionManager.sessions] (both lists only grow in the modelled code).
   [uuid.uuid4] and the urlsplit/sha256/urlunsplit composition of register_wrapper_cap are
   section-local oracles. *)
From Coq Require Import String Ascii List Bool Arith NArith.
Import ListNotations.

Definition str : Type := list ascii.

Fixpoint str_eqb (a b : str) : bool :=
  match a, b with
  | [], [] => true
  | x :: a', y :: b' => Ascii.eqb x y && str_eqb a' b'
  | _, _ => false
  end.

(* Python's s.startswith(p) *)
Fixpoint prefix (p s : str) : bool :=
  match p, s with
  | [], _ => true
  | x :: p', y :: s' => Ascii.eqb x y && prefix p' s'
  | _ :: _, [] => false
  end.

Definition c_Seed : str := Eval compute in list_ascii_of_string "Seed".
Definition c_http : str := Eval compute in list_ascii_of_string "http".
Definition c_ProxyWrapper : str := Eval compute in list_ascii_of_string "ProxyWrapper".
Definition c_GetMesh : str := Eval compute in list_ascii_of_string "GetMesh".
Definition c_GetTexture : str := Eval compute in list_ascii_of_string "GetTexture".
Definition c_ViewerAsset : str := Eval compute in list_ascii_of_string "ViewerAsset".
Definition c_Uploader : str := Eval compute in list_ascii_of_string "Uploader".
Definition c_uploader : str := Eval compute in list_ascii_of_string "uploader".

Inductive CapType := NORMAL | TEMPORARY | WRAPPER | PROXY_ONLY.

Definition captype_eqb (a b : CapType) : bool :=
  match a, b with
  | NORMAL, NORMAL | TEMPORARY, TEMPORARY | WRAPPER, WRAPPER | PROXY_ONLY, PROXY_ONLY => true
  | _, _ => false
  end.

(* an item of ProxiedRegion.caps: name -> (type, url) *)
Definition entry : Type := (str * (CapType * str))%type.
(* an item of ProxiedRegion._caps_url_lookup: url -> (type, name) *)
Definition lentry : Type := (str * (CapType * str))%type.

Definition tu_eqb (a b : CapType * str) : bool :=
  captype_eqb (fst a) (fst b) && str_eqb (snd a) (snd b).

(* ---------- multidict.MultiDict as an ordered association list ---------- *)

Definition md_getall (k : str) (d : list entry) : list (CapType * str) :=
  map snd (filter (fun e => str_eqb (fst e) k) d).

Definition md_popall (k : str) (d : list entry) : list entry :=
  filter (fun e => negb (str_eqb (fst e) k)) d.

Definition md_get (k : str) (d : list entry) : option (CapType * str) :=
  match md_getall k d with [] => None | v :: _ => Some v end.

Definition md_mem (k : str) (d : list entry) : bool :=
  match md_get k d with Some _ => true | None => false end.

(* CapsMultiDict.add: vals = [value] + popall(key, []); then MultiDict.add appends each *)
Definition md_add (k : str) (v : CapType * str) (d : list entry) : list entry :=
  (md_popall k d ++ map (pair k) (v :: md_getall k d))%list.

(* MultiDict.extend of (k, x) pairs: appended at the end *)
Definition md_extend (k : str) (vs : list (CapType * str)) (d : list entry) : list entry :=
  (d ++ map (pair k) vs)%list.

(* list.remove(x): drop the first element equal to x (unchanged if absent) *)
Fixpoint remove_first {A} (eqb : A -> A -> bool) (x : A) (l : list A) : list A :=
  match l with
  | [] => []
  | y :: t => if eqb y x then t else y :: remove_first eqb x t
  end.

(* Python dict assignment d[k] = v on an insertion-ordered dict *)
Fixpoint dict_set {V} (k : str) (v : V) (d : list (str * V)) : list (str * V) :=
  match d with
  | [] => [(k, v)]
  | (k', v') :: t => if str_eqb k' k then (k', v) :: t else (k', v') :: dict_set k v t
  end.

Fixpoint dict_get {V} (k : str) (d : list (str * V)) : option V :=
  match d with
  | [] => None
  | (k', v') :: t => if str_eqb k' k then Some v' else dict_get k t
  end.

Definition dict_mem {V} (k : str) (d : list (str * V)) : bool :=
  match dict_get k d with Some _ => true | None => false end.

Definition str_mem (k : str) (l : list str) : bool := existsb (str_eqb k) l.

(* ---------- ProxiedRegion ---------- *)

(* instrumentation only (read by no function): the primitive cap events of a region, oldest first *)
Inductive prim := PGrant (name : str) (v : CapType * str) | PConsume (name : str) (v : CapType * str).

Record Region := mkRegion {
  r_addr : option N;           (* circuit_addr (an opaque id) *)
  r_handle : option N;
  r_caps : list entry;
  r_lookup : list lentry;
  r_log : list prim;           (* ghost *)
}.

(* _recalc_caps *)
Definition recalc (caps : list entry) : list lentry :=
  fold_left (fun acc (e : entry) => dict_set (snd (snd e)) (fst (snd e), fst e) acc) caps [].

Definition set_caps (r : Region) (c : list entry) (ev : list prim) : Region :=
  mkRegion (r_addr r) (r_handle r) c (recalc c) (r_log r ++ ev)%list.

Definition set_handle (r : Region) (h : option N) : Region :=
  mkRegion (r_addr r) h (r_caps r) (r_lookup r) (r_log r).

(* register_cap *)
Definition register_cap (r : Region) (name url : str) (ty : CapType) : Region :=
  set_caps r (md_add name (ty, url) (r_caps r)) [PGrant name (ty, url)].

(* an LLSD value inside a seed response / argument of update_caps *)
Inductive value := VStr (s : str) | VOther (tag : N).

(* update_caps: only str values starting with 'http' *)
Definition update_caps (r : Region) (caps : list (str * value)) : Region :=
  fold_left (fun r (kv : str * value) =>
               match snd kv with
               | VStr u => if prefix c_http u then register_cap r (fst kv) u NORMAL else r
               | VOther _ => r
               end) caps r.

(* cap_urls[name] / cap_urls.get(name) *)
Definition cap_url (r : Region) (name : str) : option str :=
  match md_get name (r_caps r) with Some (_, u) => Some u | None => None end.

Definition truthy_str (s : option str) : bool :=
  match s with Some s => negb (str_eqb s []) | None => false end.

Definition truthy_N (h : option N) : bool :=
  match h with Some h => negb (N.eqb h 0) | None => false end.

(* ProxiedRegion.__init__ *)
Definition new_region (addr : option N) (seed : option str) (handle : option N) : Region :=
  let c := match seed with
           | Some s => if truthy_str seed then [(c_Seed, (NORMAL, s))] else []
           | None => [] end in
  mkRegion addr handle c (recalc c) (map (fun e : entry => PGrant (fst e) (snd e)) c).

Section Oracles.
  (* f"http://{uuid.uuid4()!s}.caps.hippo-proxy.localhost" for the n-th uuid drawn *)
  Variable fresh : nat -> str.
  (* register_wrapper_cap's URL: wrap name seed_url orig_url *)
  Variable wrap : str -> str -> str -> str.

  (* register_wrapper_cap; None = KeyError *)
  Definition register_wrapper_cap (r : Region) (name : str) : option (str * Region) :=
    match md_get name (r_caps r), md_get c_Seed (r_caps r) with
    | Some (_, u), Some (_, seed) =>
        let w := wrap name seed u in
        Some (w, register_cap r (name ++ c_ProxyWrapper) w WRAPPER)
    | _, _ => None
    end.

  (* register_proxy_cap, threading the count of uuids drawn so far *)
  Definition register_proxy_cap (r : Region) (name : str) (cnt : nat) : str * Region * nat :=
    match md_get name (r_caps r) with
    | Some (PROXY_ONLY, u) => (u, r, cnt)
    | _ => let u := fresh cnt in (u, register_cap r name u PROXY_ONLY, S cnt)
    end.

  (* ProxiedRegion.resolve_cap: first key of _caps_url_lookup (dict order) that the request starts with *)
  Definition resolve_cap (r : Region) (url : str) (consume : bool)
    : option (str * str * CapType) * Region :=
    match find (fun le : lentry => prefix (fst le) url) (r_lookup r) with
    | None => (None, r)
    | Some (u, (ty, name)) =>
        if captype_eqb ty TEMPORARY && consume then
          let temps := remove_first tu_eqb (ty, u) (md_getall name (r_caps r)) in
          (Some (name, u, ty),
           set_caps r (md_extend name temps (md_popall name (r_caps r))) [PConsume name (ty, u)])
        else (Some (name, u, ty), r)
    end.

  (* ---------- caps.py ---------- *)

  Definition is_asset_server_cap_name (n : str) : bool :=
    negb (str_eqb n []) &&
    (prefix c_GetMesh n || prefix c_GetTexture n || prefix c_ViewerAsset n).

  (* CapData(cap_name, region, session, base_url, type); region = (session index, region index) *)
  Record CapData := mkCD {
    cd_name : option str;
    cd_region : option (nat * nat);
    cd_session : option nat;
    cd_base : option str;
    cd_type : CapType;
  }.

  Definition empty_cd : CapData := mkCD None None None None NORMAL.

  (* CapData.__bool__ *)
  Definition cd_truthy (c : CapData) : bool :=
    truthy_str (cd_name c) || match cd_session c with Some _ => true | None => false end.

  (* ---------- Session ---------- *)

  Record Session := mkSession {
    s_id : N;
    s_global : list (str * str);   (* global_caps: name -> url *)
    s_regions : list Region;
  }.

  Definition set_regions (s : Session) (rs : list Region) : Session :=
    mkSession (s_id s) (s_global s) rs.

  (* what Session.resolve_cap builds from a region hit *)
  Definition capdata_of (si ri : nat) (name : str) (ty : CapType) (u : str) : CapData :=
    if is_asset_server_cap_name name && negb (captype_eqb ty WRAPPER)
    then mkCD (Some name) None None (Some u) ty
    else mkCD (Some name) (Some (si, ri)) (Some si) (Some u) ty.

  Fixpoint regions_resolve (si ri : nat) (rs : list Region) (url : str)
    : option CapData * list Region :=
    match rs with
    | [] => (None, [])
    | r :: t =>
        match resolve_cap r url true with
        | (Some (name, base, ty), r') => (Some (capdata_of si ri name ty base), r' :: t)
        | (None, r') =>
            let (res, t') := regions_resolve si (S ri) t url in (res, r' :: t')
        end
    end.

  (* Session.resolve_cap *)
  Definition session_resolve (si : nat) (s : Session) (url : str) : option CapData * Session :=
    match find (fun g : str * str => prefix (snd g) url) (s_global s) with
    | Some (n, u) => (Some (mkCD (Some n) None None (Some u) NORMAL), s)
    | None =>
        let (res, rs') := regions_resolve si 0 (s_regions s) url in (res, set_regions s rs')
    end.

  (* SessionManager.resolve_cap *)
  Fixpoint sessions_resolve (si : nat) (ss : list Session) (url : str) : CapData * list Session :=
    match ss with
    | [] => (empty_cd, [])
    | s :: t =>
        match session_resolve si s url with
        | (Some cd, s') =>
            if cd_truthy cd then (cd, s' :: t)
            else let (res, t') := sessions_resolve (S si) t url in (res, s' :: t')
        | (None, s') =>
            let (res, t') := sessions_resolve (S si) t url in (res, s' :: t')
        end
    end.

  (* BaseClientSession.register_region; None = ValueError.  Returns the region's index. *)
  Definition opt_N_eqb (a b : option N) : bool :=
    match a, b with Some x, Some y => N.eqb x y | None, None => true | _, _ => false end.
  Definition opt_str_eqb (a b : option str) : bool :=
    match a, b with Some x, Some y => str_eqb x y | None, None => true | _, _ => false end.

  Fixpoint register_region_scan (ri : nat) (rs : list Region) (addr : option N) (seed : option str)
           (handle : option N) : option (nat * list Region) :=
    match rs with
    | [] => None
    | r :: t =>
        if opt_N_eqb (r_addr r) addr then
          let r1 := if truthy_str seed && negb (opt_str_eqb (cap_url r c_Seed) seed)
                    then update_caps r [(c_Seed, match seed with Some s => VStr s | None => VOther 0 end)]
                    else r in
          let r2 := if truthy_N handle then set_handle r1 handle else r1 in
          Some (ri, r2 :: t)
        else if truthy_str seed && opt_str_eqb (cap_url r c_Seed) seed then Some (ri, r :: t)
        else match register_region_scan (S ri) t addr seed handle with
             | Some (i, t') => Some (i, r :: t')
             | None => None
             end
    end.

  Definition register_region (s : Session) (addr : option N) (seed : option str) (handle : option N)
    : option (nat * Session) :=
    if negb (match addr with Some _ => true | None => false end) && negb (truthy_str seed) then None
    else match register_region_scan 0 (s_regions s) addr seed handle with
         | Some (i, rs') => Some (i, set_regions s rs')
         | None =>
             match addr with
             | None => None
             | Some _ => Some (List.length (s_regions s),
                               set_regions s (s_regions s ++ [new_region addr seed handle])%list)
             end
         end.

  (* ---------- Seed rewriting (http_event_manager) ---------- *)

  (* request: for every caps item of type PROXY_ONLY whose name is in the list: list.remove + record *)
  Definition seed_request (caps : list entry) (req : list str) : list str * list str :=
    fold_left (fun (acc : list str * list str) (e : entry) =>
                 if captype_eqb (fst (snd e)) PROXY_ONLY && str_mem (fst e) (fst acc)
                 then (remove_first str_eqb (fst e) (fst acc), (snd acc ++ [fst e])%list)
                 else acc) caps (req, []).

  (* wrapper loop of the response branch; None = an exception escaped to the outer try *)
  Fixpoint seed_wrap (worder : list str) (r : Region) (parsed : list (str * value))
    : option (list (str * value)) * Region :=
    match worder with
    | [] => (Some parsed, r)
    | n :: t =>
        if dict_mem n parsed then
          match register_wrapper_cap r n with
          | None => (None, r)
          | Some (w, r') => seed_wrap t r' (dict_set n (VStr w) parsed)
          end
        else seed_wrap t r parsed
    end.

  Fixpoint seed_needed (needed : list str) (r : Region) (parsed : list (str * value))
    : option (list (str * value)) :=
    match needed with
    | [] => Some parsed
    | n :: t =>
        match cap_url r n with
        | None => None
        | Some u => seed_needed t r (dict_set n (VStr u) parsed)
        end
    end.

  (* response, Seed branch: update_caps; wrap; add needed proxy caps.  [worder] is the iteration
     order of the literal set {"GetMesh2","GetMesh","GetTexture","ViewerAsset"}. *)
  Definition seed_response (worder needed : list str) (r : Region) (parsed : list (str * value))
    : option (list (str * value)) * Region :=
    let r1 := update_caps r parsed in
    match seed_wrap worder r1 parsed with
    | (None, r2) => (None, r2)
    | (Some p2, r2) => (seed_needed needed r2 p2, r2)
    end.

  Definition UPLOAD_CREATING_CAPS : list str :=
    Eval compute in map list_ascii_of_string ["NewFileAgentInventory"; "UpdateGestureAgentInventory"; "UpdateGestureTaskInventory";
     "UpdateNotecardAgentInventory"; "UpdateNotecardTaskInventory";
     "UpdateScriptAgent"; "UpdateScriptTask";
     "UpdateSettingsAgentInventory"; "UpdateSettingsTaskInventory";
     "UploadBakedTexture"; "UploadAgentProfileImage"]%string.

  (* ---------- the manager and its operations ---------- *)

  (* what a flow carries from its request to its response *)
  Record Flow := mkFlow {
    f_cd : CapData;
    f_needed : list str;          (* metadata['needed_proxy_caps'] (absent = []) *)
    f_injected : bool;               (* a response was injected at request time *)
  }.

  Record Manager := mkManager {
    m_sessions : list Session;
    m_uuid : nat;                    (* uuids drawn so far *)
    m_flows : list Flow;
  }.

  Definition init_manager : Manager := mkManager [] 0 [].

  Fixpoint upd_nth {A} (n : nat) (f : A -> A) (l : list A) : list A :=
    match l, n with
    | [], _ => []
    | x :: t, O => f x :: t
    | x :: t, S k => x :: upd_nth k f t
    end.

  Definition upd_region (m : Manager) (si ri : nat) (f : Region -> Region) : Manager :=
    mkManager (upd_nth si (fun s => set_regions s (upd_nth ri f (s_regions s))) (m_sessions m))
              (m_uuid m) (m_flows m).

  Definition get_region (m : Manager) (si ri : nat) : option Region :=
    match nth_error (m_sessions m) si with
    | Some s => nth_error (s_regions s) ri
    | None => None
    end.

  Inductive op :=
  | OCreateSession (id : N) (globals : list (str * str)) (addr : option N) (seed : option str) (handle : option N)
  | ORegisterRegion (si : nat) (addr : option N) (seed : option str) (handle : option N)
  | OUpdateCaps (si ri : nat) (caps : list (str * value))
  | ORegisterCap (si ri : nat) (name url : str) (ty : CapType)
  | ORegisterWrapper (si ri : nat) (name : str)
  | ORegisterProxy (si ri : nat) (name : str)
  | OResolve (url : str)                                   (* SessionManager.resolve_cap *)
  | ORequest (url : str) (seed_req : list str)          (* _handle_request on a new flow *)
  | OResponse (fid : nat) (status : N) (worder : list str) (body : list (str * value)).
                                                              (* _handle_response on flow fid *)

  Inductive out :=
  | ONone                        (* no such session/region, or nothing to report *)
  | OErr                         (* the call raised *)
  | OIdx (i : nat)
  | OUrl (u : str)
  | OCap (c : CapData)
  | OReq (c : CapData) (needed : list str) (content : option (list str))  (* None = body untouched *)
  | OResp (content : option (list (str * value))).                          (* None = body untouched *)

  Definition set_sessions (m : Manager) (ss : list Session) : Manager :=
    mkManager ss (m_uuid m) (m_flows m).

  Definition cd_name_is (c : CapData) (n : str) : bool :=
    match cd_name c with Some x => str_eqb x n | None => false end.

  Definition handle_request (m : Manager) (url : str) (req : list str) : Manager * out :=
    let (cd, ss) := sessions_resolve 0 (m_sessions m) url in
    let m1 := set_sessions m ss in
    let injected := cd_truthy cd && captype_eqb (cd_type cd) PROXY_ONLY in
    let seed :=
      if cd_truthy cd && cd_name_is cd c_Seed then
        match cd_region cd with
        | Some (si, ri) =>
            match get_region m1 si ri with
            | Some r => Some (seed_request (r_caps r) req)
            | None => None
            end
        | None => None
        end
      else None in
    match seed with
    | Some (req', needed) =>
        (mkManager (m_sessions m1) (m_uuid m1) (m_flows m1 ++ [mkFlow cd needed injected])%list,
         OReq cd needed (match needed with [] => None | _ => Some req' end))
    | None =>
        (mkManager (m_sessions m1) (m_uuid m1) (m_flows m1 ++ [mkFlow cd [] injected])%list,
         OReq cd [] None)
    end.

  Definition handle_response (m : Manager) (fid : nat) (status : N) (worder : list str)
             (body : list (str * value)) : Manager * out :=
    match nth_error (m_flows m) fid with
    | None => (m, ONone)
    | Some f =>
        if f_injected f || negb (N.eqb status 200) || negb (cd_truthy (f_cd f)) then (m, OResp None)
        else match cd_region (f_cd f), cd_name (f_cd f) with
             | Some (si, ri), Some name =>
                 match get_region m si ri with
                 | None => (m, OResp None)
                 | Some r =>
                     if str_eqb name c_Seed then
                       let (res, r') := seed_response worder (f_needed f) r body in
                       (upd_region m si ri (fun _ => r'), OResp res)
                     else if str_mem name UPLOAD_CREATING_CAPS then
                       match dict_get c_uploader body with
                       | Some (VStr u) =>
                           (upd_region m si ri (fun r => register_cap r (name ++ c_Uploader) u TEMPORARY), OResp None)
                       | _ => (m, OResp None)
                       end
                     else (m, OResp None)
                 end
             | _, _ => (m, OResp None)
             end
    end.

  Definition step (m : Manager) (o : op) : Manager * out :=
    match o with
    | OCreateSession id globals addr seed handle =>
        match register_region (mkSession id globals []) addr seed handle with
        | Some (_, s) => (set_sessions m (m_sessions m ++ [s])%list, OIdx (List.length (m_sessions m)))
        | None => (m, OErr)
        end
    | ORegisterRegion si addr seed handle =>
        match nth_error (m_sessions m) si with
        | None => (m, ONone)
        | Some s =>
            match register_region s addr seed handle with
            | Some (i, s') => (set_sessions m (upd_nth si (fun _ => s') (m_sessions m)), OIdx i)
            | None => (m, OErr)
            end
        end
    | OUpdateCaps si ri caps =>
        match get_region m si ri with
        | None => (m, ONone)
        | Some _ => (upd_region m si ri (fun r => update_caps r caps), ONone)
        end
    | ORegisterCap si ri name url ty =>
        match get_region m si ri with
        | None => (m, ONone)
        | Some _ => (upd_region m si ri (fun r => register_cap r name url ty), ONone)
        end
    | ORegisterWrapper si ri name =>
        match get_region m si ri with
        | None => (m, ONone)
        | Some r =>
            match register_wrapper_cap r name with
            | None => (m, OErr)
            | Some (w, r') => (upd_region m si ri (fun _ => r'), OUrl w)
            end
        end
    | ORegisterProxy si ri name =>
        match get_region m si ri with
        | None => (m, ONone)
        | Some r =>
            let '(u, r', c) := register_proxy_cap r name (m_uuid m) in
            let m' := upd_region m si ri (fun _ => r') in
            (mkManager (m_sessions m') c (m_flows m'), OUrl u)
        end
    | OResolve url =>
        let (cd, ss) := sessions_resolve 0 (m_sessions m) url in (set_sessions m ss, OCap cd)
    | ORequest url req => handle_request m url req
    | OResponse fid status worder body => handle_response m fid status worder body
    end.

  Definition run (ops : list op) (m : Manager) : Manager :=
    fold_left (fun m o => fst (step m o)) ops m.

  (* the whole trace of outputs, for the correspondence driver *)
  Fixpoint run_trace (ops : list op) (m : Manager) : Manager * list out :=
    match ops with
    | [] => (m, [])
    | o :: t => let (m1, x) := step m o in
                let (m2, xs) := run_trace t m1 in (m2, x :: xs)
    end.

End Oracles.
