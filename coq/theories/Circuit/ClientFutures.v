(* Proofs about the completion futures of the client circuit model:
   completes_iff, complete_once, no retransmission after completion. *)
From Coq Require Import NArith List Bool Arith Lia ZifyBool ZifyNat ZifyN.
From HV Require Import Circuit.ClientCircuit Circuit.ClientProofs.
Import ListNotations.
Open Scope N_scope.

Definition fut_of (kv : N * rinfo) : nat := ri_fut (snd kv).

(* ------------------------------------------------------------------ *)
(* generic list facts                                                  *)

Lemma NoDup_map_filter : forall {A B} (f : A -> B) (p : A -> bool) l,
  NoDup (map f l) -> NoDup (map f (filter p l)).
Proof.
  induction l as [|x l IH]; intros H; [constructor|]. cbn [map filter] in *.
  inversion H as [|? ? Hn Hr]; subst. destruct (p x); [|now apply IH].
  cbn [map]. constructor; [|now apply IH].
  intro Hin. apply Hn. apply in_map_iff in Hin. destruct Hin as [y [Hy Hin]].
  apply filter_In in Hin. apply in_map_iff. exists y. tauto.
Qed.

Lemma NoDup_map_inj : forall {A B} (f : A -> B) l a b,
  NoDup (map f l) -> In a l -> In b l -> f a = f b -> a = b.
Proof.
  induction l as [|x l IH]; intros a b H Ha Hb Hf; [contradiction|].
  cbn [map] in H. inversion H as [|? ? Hn Hr]; subst.
  destruct Ha as [->|Ha], Hb as [->|Hb]; [reflexivity| | |now apply IH].
  - elim Hn. rewrite Hf. now apply in_map.
  - elim Hn. rewrite <- Hf. now apply in_map.
Qed.

(* ------------------------------------------------------------------ *)
(* dict facts                                                          *)

Lemma dict_get_In : forall k d v, dict_get k d = Some v -> In (k, v) d.
Proof.
  induction d as [|[k' v'] d IH]; intros v H; [discriminate|]. cbn [dict_get] in H.
  destruct (k =? k') eqn:E.
  - apply N.eqb_eq in E. subst. injection H as ->. now left.
  - right. now apply IH.
Qed.

Lemma dict_get_None : forall k d, dict_get k d = None -> ~ In k (map fst d).
Proof.
  induction d as [|[k' v'] d IH]; intros H; [tauto|]. cbn [dict_get] in H.
  destruct (k =? k') eqn:E; [discriminate|]. apply N.eqb_neq in E.
  cbn [map fst In]. intros [Hk|Hk]; [now subst | now apply IH].
Qed.

Lemma dict_get_unique : forall k d v v',
  NoDup (map fst d) -> dict_get k d = Some v -> In (k, v') d -> v' = v.
Proof.
  intros k d v v' Hnd Hg Hin. apply dict_get_In in Hg.
  assert (H : (k, v') = (k, v)) by (eapply (NoDup_map_inj fst); eauto). now injection H.
Qed.

Lemma dict_del_filter : forall k d, NoDup (map fst d) ->
  dict_del k d = filter (fun kv => negb (fst kv =? k)) d.
Proof.
  induction d as [|[k' v'] d IH]; intros H; [reflexivity|]. cbn [map fst] in H.
  inversion H as [|? ? Hn Hr]; subst. cbn [dict_del filter fst].
  rewrite (N.eqb_sym k' k). destruct (k =? k') eqn:E; cbn [negb].
  - apply N.eqb_eq in E. subst k'.
    symmetry. clear IH H Hr. induction d as [|[k2 v2] d IH2]; [reflexivity|].
    cbn [filter fst]. cbn [map fst In] in Hn.
    destruct (k2 =? k) eqn:E2; [apply N.eqb_eq in E2; tauto|]. cbn [negb]. f_equal. apply IH2. tauto.
  - f_equal. now apply IH.
Qed.

Lemma dict_set_fresh : forall k v d, ~ In k (map fst d) -> dict_set k v d = d ++ [(k, v)].
Proof.
  induction d as [|[k' v'] d IH]; intros H; [reflexivity|]. cbn [map fst In] in H. cbn [dict_set app].
  destruct (k =? k') eqn:E; [apply N.eqb_eq in E; subst; tauto|]. f_equal. apply IH. tauto.
Qed.

Lemma dict_del_mid : forall k v done r, ~ In k (map fst done) ->
  dict_del k (done ++ (k, v) :: r) = done ++ r.
Proof.
  induction done as [|[k' v'] done IH]; intros r H; cbn [app dict_del].
  - now rewrite N.eqb_refl.
  - cbn [map fst In] in H. destruct (k =? k') eqn:E; [apply N.eqb_eq in E; subst; tauto|].
    f_equal. apply IH. tauto.
Qed.

Lemma dict_set_mid : forall k v v2 done r, ~ In k (map fst done) ->
  dict_set k v2 (done ++ (k, v) :: r) = done ++ (k, v2) :: r.
Proof.
  induction done as [|[k' v'] done IH]; intros r H; cbn [app dict_set].
  - now rewrite N.eqb_refl.
  - cbn [map fst In] in H. destruct (k =? k') eqn:E; [apply N.eqb_eq in E; subst; tauto|].
    f_equal. apply IH. tauto.
Qed.

(* ------------------------------------------------------------------ *)
(* counting                                                            *)

Fixpoint cfut (h : nat) (u : dict) : nat :=
  match u with
  | [] => O
  | kv :: r => ((if Nat.eqb h (fut_of kv) then 1 else 0) + cfut h r)%nat
  end.

Lemma cfut_app : forall h a b, cfut h (a ++ b) = (cfut h a + cfut h b)%nat.
Proof. induction a as [|x a IH]; intros b; [reflexivity|]. cbn [app cfut]. rewrite IH. lia. Qed.

Lemma cfut_le1 : forall h u, NoDup (map fut_of u) -> (cfut h u <= 1)%nat.
Proof.
  induction u as [|kv u IH]; intros H; [cbn; lia|]. cbn [map] in H. inversion H as [|? ? Hn Hr]; subst.
  cbn [cfut]. specialize (IH Hr). destruct (Nat.eqb h (fut_of kv)) eqn:E; [|lia].
  apply Nat.eqb_eq in E. subst h.
  assert (cfut (fut_of kv) u = 0)%nat; [|lia].
  clear IH Hr H. induction u as [|kv2 u IH2]; [reflexivity|]. cbn [cfut]. cbn [map In] in Hn.
  destruct (Nat.eqb (fut_of kv) (fut_of kv2)) eqn:E2; [apply Nat.eqb_eq in E2; elim Hn; left; congruence|].
  rewrite IH2; [reflexivity|tauto].
Qed.

Lemma cfut_pos_iff : forall h u, (1 <= cfut h u)%nat <-> exists kv, In kv u /\ fut_of kv = h.
Proof.
  induction u as [|kv u IH]; cbn [cfut In].
  - split; [lia|intros [? [[] _]]].
  - destruct (Nat.eqb h (fut_of kv)) eqn:E.
    + apply Nat.eqb_eq in E. split; [|lia]. intros _. exists kv. split; [now left | now symmetry].
    + apply Nat.eqb_neq in E. split.
      * intros H. destruct (proj1 IH ltac:(lia)) as [kv' [Hin Hf]]. exists kv'. tauto.
      * intros [kv' [[->|Hin] Hf]]; [congruence|]. assert (1 <= cfut h u)%nat by (apply IH; eauto). lia.
Qed.

Lemma cfut_filter_split : forall h p u,
  cfut h u = (cfut h (filter p u) + cfut h (filter (fun kv => negb (p kv)) u))%nat.
Proof.
  induction u as [|kv u IH]; [reflexivity|]. cbn [filter cfut].
  destruct (p kv); cbn [negb cfut]; rewrite IH; lia.
Qed.

Lemma ncompl_app : forall h a b, ncompl h (a ++ b) = (ncompl h a + ncompl h b)%nat.
Proof.
  induction a as [|o a IH]; intros b; [reflexivity|].
  destruct o; cbn [app ncompl]; rewrite IH; lia.
Qed.

Lemma nresent_app : forall h a b, nresent h (a ++ b) = nresent h a + nresent h b.
Proof.
  induction a as [|o a IH]; intros b; [reflexivity|].
  destruct o; cbn [app nresent]; rewrite ?IH; try reflexivity.
  destruct (Nat.eqb h h0); lia.
Qed.

Lemma last_tx_app : forall h a b acc, last_tx h (a ++ b) acc = last_tx h b (last_tx h a acc).
Proof.
  induction a as [|o a IH]; intros b acc; [reflexivity|].
  destruct o; cbn [app last_tx]; try apply IH; destruct (Nat.eqb h h0); apply IH.
Qed.

Lemma ncompl_zero_iff : forall h tr, ncompl h tr = O <-> ~ In (ODone h) tr /\ ~ In (OFailed h) tr.
Proof.
  induction tr as [|o tr IH]; [cbn; tauto|].
  destruct o; cbn [ncompl In]; try (rewrite IH; split; [intros [H1 H2]; split; intros [H|H]; try discriminate; tauto | tauto]).
  - destruct (Nat.eqb h h0) eqn:E.
    + apply Nat.eqb_eq in E. subst. split; [lia|]. intros [H _]. elim H. now left.
    + apply Nat.eqb_neq in E. cbn [plus]. rewrite IH. split.
      * intros [H1 H2]. split; intros [H|H]; try tauto; try discriminate. injection H as H. congruence.
      * tauto.
  - destruct (Nat.eqb h h0) eqn:E.
    + apply Nat.eqb_eq in E. subst. split; [lia|]. intros [_ H]. elim H. now left.
    + apply Nat.eqb_neq in E. cbn [plus]. rewrite IH. split.
      * intros [H1 H2]. split; intros [H|H]; try tauto; try discriminate. injection H as H. congruence.
      * tauto.
Qed.

Lemma ncompl_pos_iff : forall h tr, (1 <= ncompl h tr)%nat <-> In (ODone h) tr \/ In (OFailed h) tr.
Proof.
  intros h tr. pose proof (ncompl_zero_iff h tr) as H.
  destruct (in_dec (fun a b : output => ltac:(decide equality; try apply N.eq_dec; try apply Nat.eq_dec; try apply Bool.bool_dec; decide equality) : {a = b} + {a <> b}) (ODone h) tr) as [H1|H1];
  destruct (in_dec (fun a b : output => ltac:(decide equality; try apply N.eq_dec; try apply Nat.eq_dec; try apply Bool.bool_dec; decide equality) : {a = b} + {a <> b}) (OFailed h) tr) as [H2|H2];
  split; intros; try tauto; try lia.
  - destruct (ncompl h tr); [|lia]. destruct (proj1 H eq_refl). tauto.
  - destruct (ncompl h tr); [|lia]. destruct (proj1 H eq_refl). tauto.
  - destruct (ncompl h tr); [|lia]. destruct (proj1 H eq_refl). tauto.
  - assert (ncompl h tr = 0)%nat by (apply H; tauto). lia.
Qed.

(* handle mentioned by an output *)
Definition handle_of (o : output) : option nat :=
  match o with
  | OTracked h _ _ _ | OResent h _ _ | ODone h | OFailed h => Some h
  | _ => None
  end.

Definition hfree (h : nat) (l : list output) : Prop := forall o, In o l -> handle_of o <> Some h.

Lemma hfree_facts : forall h l, hfree h l ->
  ncompl h l = O /\ nresent h l = 0 /\ (forall acc, last_tx h l acc = acc) /\
  (forall id ep t, ~ In (OTracked h id ep t) l).
Proof.
  induction l as [|o l IH]; intros H; [cbn; repeat split; tauto|].
  assert (Hl : hfree h l) by (intros o' Ho'; apply H; now right).
  assert (Ho : handle_of o <> Some h) by (apply H; now left).
  destruct (IH Hl) as [I1 [I2 [I3 I4]]].
  destruct o; cbn [handle_of] in Ho; cbn [ncompl nresent last_tx];
    try (assert (E : Nat.eqb h h0 = false) by (apply Nat.eqb_neq; congruence); rewrite E);
    (repeat split; [assumption || lia | assumption || lia | assumption |
      intros id' ep' t' [Hc|Hc]; [try discriminate; injection Hc; intros; congruence | exact (I4 _ _ _ Hc)]]).
Qed.

Definition handles_lt (n : nat) (tr : list output) : Prop :=
  forall o h, In o tr -> handle_of o = Some h -> (h < n)%nat.

Lemma handles_lt_hfree : forall n tr h, handles_lt n tr -> (n <= h)%nat -> hfree h tr.
Proof. intros n tr h H Hle o Ho E. specialize (H o h Ho E). lia. Qed.

(* ------------------------------------------------------------------ *)
(* collect_acks, functionally                                          *)

Definition not_acked (acks : list N) (kv : N * rinfo) : bool := negb (existsb (N.eqb (fst kv)) acks).

Lemma filter_not_acked_skip : forall a r d, ~ In a (map fst d) ->
  filter (not_acked (a :: r)) d = filter (not_acked r) d.
Proof.
  intros a r d H. apply filter_ext_in. intros [k v] Hin. unfold not_acked. cbn [existsb fst].
  destruct (k =? a) eqn:E; [|reflexivity]. apply N.eqb_eq in E. subst. elim H.
  apply in_map_iff. exists (a, v). split; [reflexivity | exact Hin].
Qed.

Lemma filter_not_acked_del : forall a r d, NoDup (map fst d) ->
  filter (not_acked (a :: r)) d = filter (not_acked r) (dict_del a d).
Proof.
  induction d as [|[k v] d IH]; intros H; [reflexivity|]. cbn [map fst] in H.
  inversion H as [|? ? Hn Hr]; subst. cbn [filter dict_del].
  destruct (a =? k) eqn:E.
  - apply N.eqb_eq in E. subst k.
    assert (Hna : not_acked (a :: r) (a, v) = false).
    { unfold not_acked. cbn [existsb fst]. now rewrite N.eqb_refl. }
    rewrite Hna. now apply filter_not_acked_skip.
  - assert (Hna : not_acked (a :: r) (k, v) = not_acked r (k, v)).
    { unfold not_acked. cbn [existsb fst]. rewrite (N.eqb_sym k a), E. reflexivity. }
    rewrite Hna. cbn [filter]. destruct (not_acked r (k, v)); [f_equal|]; now apply IH.
Qed.

Lemma NoDup_dict_del : forall a d, NoDup (map fst d) -> NoDup (map fst (dict_del a d)).
Proof. intros a d H. rewrite dict_del_filter by exact H. now apply NoDup_map_filter. Qed.

Lemma collect_acks_fst : forall acks u, NoDup (map fst u) ->
  fst (collect_acks acks u) = filter (not_acked acks) u.
Proof.
  induction acks as [|a r IH]; intros u H; cbn [collect_acks].
  - cbn [fst]. symmetry. clear H. induction u as [|kv u IHu]; [reflexivity|]. cbn [filter]. unfold not_acked. cbn. now f_equal.
  - destruct (dict_get a u) as [info|] eqn:G.
    + specialize (IH (dict_del a u) (NoDup_dict_del a u H)).
      destruct (collect_acks r (dict_del a u)) as [u' o]. cbn [fst] in *. rewrite IH.
      symmetry. now apply filter_not_acked_del.
    + rewrite IH by exact H. symmetry. apply filter_not_acked_skip. now apply dict_get_None.
Qed.

Lemma dict_del_incl : forall a d kv, In kv (dict_del a d) -> In kv d.
Proof.
  induction d as [|[k v] d IH]; intros kv H; [contradiction|]. cbn [dict_del] in H.
  destruct (a =? k); [now right|]. destruct H as [H|H]; [now left | right; now apply IH].
Qed.

Lemma cfut_dict_del : forall h a d info, dict_get a d = Some info ->
  cfut h d = ((if Nat.eqb h (ri_fut info) then 1 else 0) + cfut h (dict_del a d))%nat.
Proof.
  induction d as [|[k v] d IH]; intros info G; [discriminate|]. cbn [dict_get dict_del] in *.
  destruct (a =? k).
  - injection G as ->. reflexivity.
  - cbn [cfut]. rewrite (IH info G). lia.
Qed.

Lemma collect_acks_conserve : forall h acks u,
  (ncompl h (snd (collect_acks acks u)) + cfut h (fst (collect_acks acks u)) = cfut h u)%nat.
Proof.
  induction acks as [|a r IH]; intros u; cbn [collect_acks]; [reflexivity|].
  destruct (dict_get a u) as [info|] eqn:G; [|apply IH].
  specialize (IH (dict_del a u)). destruct (collect_acks r (dict_del a u)) as [u' o]. cbn [fst snd] in *.
  cbn [ncompl]. rewrite (cfut_dict_del h a u info G). lia.
Qed.

Lemma collect_acks_done_in : forall acks u h,
  In (ODone h) (snd (collect_acks acks u)) -> exists k v, In (k, v) u /\ In k acks /\ ri_fut v = h.
Proof.
  induction acks as [|a r IH]; intros u h H; cbn [collect_acks] in H; [contradiction|].
  destruct (dict_get a u) as [info|] eqn:G.
  - specialize (IH (dict_del a u) h). destruct (collect_acks r (dict_del a u)) as [u' o]. cbn [snd] in *.
    destruct H as [H|H].
    + injection H as <-. exists a, info. split; [now apply dict_get_In|]. split; [now left | reflexivity].
    + destruct (IH H) as [k [v [H1 [H2 H3]]]]. exists k, v. split; [now apply dict_del_incl in H1|]. split; [now right | exact H3].
  - destruct (IH u h H) as [k [v [H1 [H2 H3]]]]. exists k, v. split; [exact H1|]. split; [now right | exact H3].
Qed.

Lemma collect_acks_in_done : forall acks u k v, NoDup (map fst u) ->
  In (k, v) u -> In k acks -> In (ODone (ri_fut v)) (snd (collect_acks acks u)).
Proof.
  induction acks as [|a r IH]; intros u k v Hnd Hin Hk; [contradiction|]. cbn [collect_acks].
  destruct (dict_get a u) as [info|] eqn:G.
  - specialize (IH (dict_del a u) k v (NoDup_dict_del a u Hnd)).
    destruct (collect_acks r (dict_del a u)) as [u' o]. cbn [snd] in *.
    destruct (N.eq_dec a k) as [->|Hne].
    + left. f_equal. f_equal. symmetry. eapply dict_get_unique; eauto.
    + right. apply IH.
      * rewrite dict_del_filter by exact Hnd. apply filter_In. split; [exact Hin|]. cbn [fst].
        apply negb_true_iff. apply N.eqb_neq. congruence.
      * destruct Hk as [Hk|Hk]; [congruence | exact Hk].
  - apply (IH u k v); [exact Hnd | exact Hin |]. destruct Hk as [Hk|Hk]; [|exact Hk].
    subst. apply dict_get_None in G. elim G. apply in_map_iff. exists (k, v). split; [reflexivity | exact Hin].
Qed.

(* ------------------------------------------------------------------ *)
(* resend_unacked, functionally                                        *)

Definition due (cfg : config) (now : N) (v : rinfo) : bool := negb (now - ri_last v <? cf_every cfg).
Definition final_try (v : rinfo) : bool := ri_tries v - 1 =? 0.

Definition resend_entry (cfg : config) (now : N) (kv : N * rinfo) : dict :=
  if due cfg now (snd kv) then
    if final_try (snd kv) then [] else [(fst kv, mkInfo now (ri_tries (snd kv) - 1) (ri_fut (snd kv)))]
  else [kv].

Definition resend_out (cfg : config) (now : N) (kv : N * rinfo) : list output :=
  if due cfg now (snd kv) then
    if final_try (snd kv) then [OFailed (ri_fut (snd kv))] else [OResent (ri_fut (snd kv)) (fst kv) now]
  else [].

Lemma resend_loop_spec : forall cfg now snap done,
  NoDup (map fst (done ++ snap)) ->
  resend_loop cfg now snap (done ++ snap) =
  (done ++ flat_map (resend_entry cfg now) snap, flat_map (resend_out cfg now) snap).
Proof.
  induction snap as [|[id info] r IH]; intros done H; cbn [resend_loop flat_map].
  - now rewrite !app_nil_r.
  - assert (Hnot : ~ In id (map fst done)).
    { rewrite map_app in H. cbn [map fst] in H. apply NoDup_remove_2 in H. intro Hc. apply H. apply in_or_app. now left. }
    unfold resend_entry, resend_out, due, final_try. cbn [fst snd].
    destruct (now - ri_last info <? cf_every cfg); cbn [negb].
    + replace (done ++ (id, info) :: r) with ((done ++ [(id, info)]) ++ r) by (now rewrite <- app_assoc).
      rewrite IH by (rewrite <- app_assoc; exact H). now rewrite <- app_assoc.
    + destruct (ri_tries info - 1 =? 0).
      * rewrite dict_del_mid by exact Hnot.
        rewrite IH.
        -- reflexivity.
        -- rewrite map_app in *. cbn [map] in H. now apply NoDup_remove_1 in H.
      * rewrite dict_set_mid by exact Hnot.
        replace (done ++ (id, mkInfo now (ri_tries info - 1) (ri_fut info)) :: r)
          with ((done ++ [(id, mkInfo now (ri_tries info - 1) (ri_fut info))]) ++ r) by (now rewrite <- app_assoc).
        rewrite IH.
        -- now rewrite <- app_assoc.
        -- rewrite <- app_assoc. rewrite map_app in *. exact H.
Qed.

Lemma resend_spec : forall cfg now u, NoDup (map fst u) ->
  resend_loop cfg now u u = (flat_map (resend_entry cfg now) u, flat_map (resend_out cfg now) u).
Proof. intros. exact (resend_loop_spec cfg now u [] H). Qed.

Lemma resend_entry_shape : forall cfg now kv kv', In kv' (resend_entry cfg now kv) ->
  fst kv' = fst kv /\ fut_of kv' = fut_of kv /\
  ((due cfg now (snd kv) = false /\ kv' = kv) \/
   (due cfg now (snd kv) = true /\ final_try (snd kv) = false /\
    snd kv' = mkInfo now (ri_tries (snd kv) - 1) (ri_fut (snd kv)))).
Proof.
  intros cfg now kv kv' H. unfold resend_entry in H.
  destruct (due cfg now (snd kv)).
  - destruct (final_try (snd kv)); [contradiction|]. destruct H as [<-|[]]. cbn. repeat split. right. repeat split.
  - destruct H as [<-|[]]. repeat split. now left.
Qed.

Lemma NoDup_map_flat : forall {B} (f : N * rinfo -> B) cfg now u,
  (forall kv kv', In kv' (resend_entry cfg now kv) -> f kv' = f kv) ->
  NoDup (map f u) -> NoDup (map f (flat_map (resend_entry cfg now) u)).
Proof.
  intros B f cfg now u Hf. induction u as [|kv u IH]; intros H; [constructor|].
  cbn [map flat_map] in *. inversion H as [|? ? Hn Hr]; subst. specialize (IH Hr).
  assert (Hsub : forall x, In x (map f (flat_map (resend_entry cfg now) u)) -> In x (map f u)).
  { intros x Hx. apply in_map_iff in Hx. destruct Hx as [kv' [<- Hin]]. apply in_flat_map in Hin.
    destruct Hin as [kv0 [Hin0 Hin']]. rewrite (Hf _ _ Hin'). now apply in_map. }
  pose proof (Hf kv) as Hk. unfold resend_entry in *.
  destruct (due cfg now (snd kv)).
  - destruct (final_try (snd kv)); cbn [app map]; [exact IH|].
    constructor; [|exact IH]. rewrite (Hk _ (or_introl eq_refl)). intro Hc. apply Hn. now apply Hsub.
  - cbn [app map]. constructor; [|exact IH]. intro Hc. apply Hn. now apply Hsub.
Qed.

Lemma resend_conserve : forall cfg now h u,
  (ncompl h (flat_map (resend_out cfg now) u) + cfut h (flat_map (resend_entry cfg now) u) = cfut h u)%nat.
Proof.
  induction u as [|kv u IH]; [reflexivity|]. cbn [flat_map]. rewrite ncompl_app, cfut_app. cbn [cfut].
  unfold resend_out, resend_entry, fut_of in *. destruct (due cfg now (snd kv)).
  - destruct (final_try (snd kv)); cbn [ncompl cfut fut_of snd ri_fut]; lia.
  - cbn [ncompl cfut]. unfold fut_of. lia.
Qed.

(* what the resend outputs say about the entry holding future h *)
Lemma resend_out_hfree : forall cfg now h u,
  (forall kv, In kv u -> fut_of kv <> h) -> hfree h (flat_map (resend_out cfg now) u).
Proof.
  intros cfg now h u H o Ho. apply in_flat_map in Ho. destruct Ho as [kv [Hin Ho]].
  specialize (H kv Hin). unfold resend_out, fut_of in *.
  destruct (due cfg now (snd kv)); [|contradiction].
  destruct (final_try (snd kv)); destruct Ho as [<-|[]]; cbn [handle_of]; congruence.
Qed.

Lemma resend_out_entry : forall cfg now u kv, NoDup (map fut_of u) -> In kv u ->
  let h := fut_of kv in
  let o := flat_map (resend_out cfg now) u in
  nresent h o = (if due cfg now (snd kv) && negb (final_try (snd kv)) then 1 else 0) /\
  (forall acc, last_tx h o acc = if due cfg now (snd kv) && negb (final_try (snd kv)) then now else acc).
Proof.
  intros cfg now u kv. induction u as [|x u IH]; intros Hnd Hin; [contradiction|].
  cbn [map] in Hnd. inversion Hnd as [|? ? Hn Hr]; subst. cbn zeta. cbn [flat_map].
  destruct Hin as [->|Hin].
  - assert (Hfree : hfree (fut_of kv) (flat_map (resend_out cfg now) u)).
    { apply resend_out_hfree. intros kv' Hin' E. apply Hn. rewrite <- E. now apply in_map. }
    destruct (hfree_facts _ _ Hfree) as [_ [F2 [F3 _]]].
    rewrite nresent_app, F2. split.
    + unfold resend_out, fut_of. destruct (due cfg now (snd kv)); [|reflexivity].
      destruct (final_try (snd kv)); cbn [nresent andb negb]; [reflexivity|]. rewrite Nat.eqb_refl. reflexivity.
    + intros acc. rewrite last_tx_app, F3. unfold resend_out, fut_of. destruct (due cfg now (snd kv)); [|reflexivity].
      destruct (final_try (snd kv)); cbn [last_tx andb negb]; [reflexivity|]. rewrite Nat.eqb_refl. reflexivity.
  - destruct (IH Hr Hin) as [I1 I2]. cbn zeta in I1, I2.
    assert (Hx : hfree (fut_of kv) (resend_out cfg now x)).
    { intros o Ho E. apply Hn. unfold resend_out in Ho.
      assert (fut_of x = fut_of kv).
      { unfold fut_of in *. destruct (due cfg now (snd x)); [|contradiction].
        destruct (final_try (snd x)); destruct Ho as [<-|[]]; cbn [handle_of] in E; congruence. }
      rewrite H. now apply in_map. }
    destruct (hfree_facts _ _ Hx) as [_ [F2 [F3 _]]].
    rewrite nresent_app, F2, I1. split; [reflexivity|]. intros acc. now rewrite last_tx_app, F3, I2.
Qed.
