(* Model of the proxied circuit's packet flow:
     hippolyzer/lib/proxy/circuit.py        ProxiedCircuit.prepare_message,
                                            _rewrite_packet_ack, _rewrite_start_ping_check, drop_message
     hippolyzer/lib/base/message/circuit.py Circuit.send, collect_acks, resend_unacked, send_acks
     hippolyzer/lib/proxy/lludp_proxy.py    handle_proxied_packet: collect_acks, then
                                            drop_message (message taken by an addon) or send
   Definitions only; proofs in ProxCircuitProofs.v.

   Messages are abstract: direction, packet ID, RELIABLE / RESENT flags, appended
   acks and one of three kinds (PacketAck with its Packets IDs, StartPingCheck with
   OldestUnacked, anything else).  The clock is an integer number of milliseconds;
   [Tick] advances it and runs resend_unacked once (attempt_resends' body).
   asyncio.Future completion is the emitted signal. *)
From Coq Require Import ZArith List Bool.
From HV Require Import Inj.InjTracker.
Import ListNotations.
Open Scope Z_scope.

Inductive dir := OUT | IN.          (* OUT: viewer -> sim, IN: sim -> viewer *)
Definition inv_dir (d : dir) : dir := match d with OUT => IN | IN => OUT end.
Definition dir_eqb (a b : dir) : bool :=
  match a, b with OUT, OUT | IN, IN => true | _, _ => false end.

Inductive kind :=
| Plain
| PacketAck (ids : list Z)
| StartPing (oldest : Z).

(* a packet received from an endpoint, as deserialized *)
Record rmsg := mkR {
  r_dir : dir; r_pid : Z; r_rel : bool; r_resent : bool; r_acks : list Z; r_kind : kind }.

(* a datagram handed to the transport *)
Record emit := mkE {
  e_dir : dir; e_id : Z; e_rel : bool; e_resent : bool; e_acks : list Z; e_kind : kind;
  e_syn : bool     (* ghost: originated by the proxy (Message.synthetic); not on the wire *) }.

Inductive signal :=
| Completed (d : dir) (id : Z)      (* ReliableResendInfo.completed.set_result(None) *)
| TimedOut (d : dir) (id : Z).      (* ....completed.set_exception(TimeoutError)     *)

Inductive event :=
| Recv (m : rmsg)                       (* received and forwarded *)
| RecvDrop (m : rmsg)                   (* received, taken/dropped by an addon: drop_message *)
| Inj (d : dir) (rel : bool) (k : kind) (* the proxy sends a message of its own (packet_id None) *)
| Tick (dt : Z).                        (* clock advances by dt ms, resend_unacked() runs *)

Record rinfo := mkRI { ri_last : Z; ri_tries : Z; ri_msg : emit }.

Record pc := mkPC {
  t_in    : tracker;                          (* in_injections  *)
  t_out   : tracker;                          (* out_injections *)
  unacked : list ((dir * Z) * rinfo);         (* unacked_reliable, in dict (insertion) order *)
  now     : Z;                                (* clock, ms *)
  every   : Z                                 (* resend_every, ms *)
}.

Definition pc_init (m : nat) (ev : Z) : pc := mkPC (init 0 m) (init 0 m) [] 0 ev.

Definition TRIES : Z := 10.

(* _get_injections *)
Definition fwd_tr (st : pc) (d : dir) : tracker := match d with OUT => t_out st | IN => t_in st end.
Definition rev_tr (st : pc) (d : dir) : tracker := fwd_tr st (inv_dir d).
Definition set_fwd (st : pc) (d : dir) (t : tracker) : pc :=
  match d with
  | OUT => mkPC (t_in st) t (unacked st) (now st) (every st)
  | IN => mkPC t (t_out st) (unacked st) (now st) (every st)
  end.
Definition set_unacked (st : pc) (u : list ((dir * Z) * rinfo)) : pc :=
  mkPC (t_in st) (t_out st) u (now st) (every st).

Definition key_eqb (a b : dir * Z) : bool := dir_eqb (fst a) (fst b) && (snd a =? snd b).

(* dict[key] = v : in place when the key exists, else appended *)
Fixpoint dict_set (u : list ((dir * Z) * rinfo)) (k : dir * Z) (v : rinfo) :=
  match u with
  | [] => [(k, v)]
  | (k', v') :: t => if key_eqb k' k then (k, v) :: t else (k', v') :: dict_set t k v
  end.

Definition dict_has (u : list ((dir * Z) * rinfo)) (k : dir * Z) : bool :=
  existsb (fun e => key_eqb (fst e) k) u.

Definition dict_del (u : list ((dir * Z) * rinfo)) (k : dir * Z) :=
  filter (fun e => negb (key_eqb (fst e) k)) u.

(* tuple(rev.get_original_id(x) for x in acks if not rev.was_injected(x)) *)
Definition rewrite_acks (rev : tracker) (acks : list Z) : list Z :=
  flat_map (fun x => if was_injected rev x then []
                     else match orig rev x with Some o => [o] | None => [] end) acks.

Fixpoint min_list (x : Z) (l : list Z) : Z :=
  match l with [] => x | y :: t => min_list (Z.min x y) t end.

(* IDs of the proxy's own unacked reliable packets heading in direction d *)
Definition unacked_ids (u : list ((dir * Z) * rinfo)) (d : dir) : list Z :=
  map (fun e => snd (fst e)) (filter (fun e => dir_eqb (fst (fst e)) d) u).

(* collect_acks: pop (~direction, ack) for appended acks then PacketAck blocks *)
Definition all_acks (m : rmsg) : list Z :=
  r_acks m ++ match r_kind m with PacketAck ids => ids | _ => [] end.

Fixpoint collect (u : list ((dir * Z) * rinfo)) (d : dir) (acks : list Z)
  : list ((dir * Z) * rinfo) * list signal :=
  match acks with
  | [] => (u, [])
  | a :: t =>
      if dict_has u (d, a)
      then let '(u', s) := collect (dict_del u (d, a)) d t in (u', Completed d a :: s)
      else collect u d t
  end.

Definition collect_acks (st : pc) (m : rmsg) : pc * list signal :=
  let '(u, s) := collect (unacked st) (inv_dir (r_dir m)) (all_acks m) in (set_unacked st u, s).

(* Circuit.send of a message with packet_id None: gen ID, remember if reliable, emit *)
Definition send_injected (st : pc) (d : dir) (rel : bool) (k : kind) : pc * list emit :=
  let '(t', id) := gen (fwd_tr st d) in
  let st1 := set_fwd st d t' in
  let e := mkE d id rel false [] k true in
  let st2 := if rel then set_unacked st1 (dict_set (unacked st1) (d, id) (mkRI (now st1) TRIES e))
             else st1 in
  (st2, [e]).

(* Circuit.send of a received (non-synthetic) message: ProxiedCircuit.prepare_message *)
Definition send_forward (st : pc) (m : rmsg) : pc * list emit :=
  let d := r_dir m in
  let fwd := fwd_tr st d in
  let rev := rev_tr st d in
  let w := eff fwd (r_pid m) in
  let fwd' := track_seen fwd w in
  let st1 := set_fwd st d fwd' in
  let acks' := rewrite_acks rev (r_acks m) in
  match r_kind m with
  | PacketAck ids =>
      let nb := rewrite_acks rev ids in
      match nb with
      | [] =>
          (* _rewrite_packet_ack installed the (empty) filtered block list and returned False *)
          match acks' with
          | [] => (st1, [])                          (* prepare_message returns False: not sent *)
          | _ => (st1, [mkE d w (r_rel m) (r_resent m) acks' (PacketAck []) false])
          end
      | _ => (st1, [mkE d w (r_rel m) (r_resent m) acks' (PacketAck nb) false])
      end
  | StartPing o =>
      let n := min_list (eff fwd' o) (unacked_ids (unacked st) d) in
      (st1, [mkE d w (r_rel m) (r_resent m) acks' (StartPing n) false])
  | Plain => (st1, [mkE d w (r_rel m) (r_resent m) acks' Plain false])
  end.

(* ProxiedCircuit.drop_message *)
Definition drop_message (st : pc) (m : rmsg) : pc * list emit :=
  let d := r_dir m in
  let st1 := set_fwd st d (mark_dropped (fwd_tr st d) (r_pid m)) in
  (* reliable: ack it towards its sender, send_acks([packet_id], ~direction) *)
  let '(st2, e1) := if r_rel m then send_injected st1 (inv_dir d) false (PacketAck [r_pid m])
                    else (st1, []) in
  (* piggy-backed acks go on in a PacketAck that reuses the dropped packet's own ID:
     send_acks(effective_acks, direction, packet_id=message.packet_id) - synthetic with a
     preset ID, so prepare_message neither translates nor tracks it *)
  let ea := rewrite_acks (rev_tr st2 d) (r_acks m) in
  match ea with
  | [] => (st2, e1)
  | _ => (st2, e1 ++ [mkE d (r_pid m) false false [] (PacketAck ea) true])
  end.

(* resend_unacked over the snapshot list(unacked_reliable.values()) *)
Fixpoint resend (nw ev : Z) (snap : list ((dir * Z) * rinfo))
  : list ((dir * Z) * rinfo) * list emit * list signal :=
  match snap with
  | [] => ([], [], [])
  | (k, ri) :: t =>
      let '(u, es, ss) := resend nw ev t in
      if nw - ri_last ri <? ev then ((k, ri) :: u, es, ss)
      else
        let tries := ri_tries ri - 1 in
        if tries =? 0 then (u, es, TimedOut (fst k) (snd k) :: ss)
        else
          let e := ri_msg ri in
          let e' := mkE (e_dir e) (e_id e) (e_rel e) true (e_acks e) (e_kind e) (e_syn e) in
          ((k, mkRI nw tries e) :: u, e' :: es, ss)
  end.

Definition step (st : pc) (ev : event) : pc * list emit * list signal :=
  match ev with
  | Recv m =>
      let '(st1, ss) := collect_acks st m in
      let '(st2, es) := send_forward st1 m in (st2, es, ss)
  | RecvDrop m =>
      let '(st1, ss) := collect_acks st m in
      let '(st2, es) := drop_message st1 m in (st2, es, ss)
  | Inj d rel k =>
      let '(st1, es) := send_injected st d rel k in (st1, es, [])
  | Tick dt =>
      let nw := now st + dt in
      let '(u, es, ss) := resend nw (every st) (unacked st) in
      (mkPC (t_in st) (t_out st) u nw (every st), es, ss)
  end.

(* the trace: every event with what it made the proxy emit, oldest first *)
Definition obs := (event * list emit * list signal)%type.

Fixpoint run_trace (st : pc) (evs : list event) : pc * list obs :=
  match evs with
  | [] => (st, [])
  | e :: t =>
      let '(st1, es, ss) := step st e in
      let '(st2, tr) := run_trace st1 t in (st2, (e, es, ss) :: tr)
  end.

Definition run_state (st : pc) (evs : list event) : pc :=
  fold_left (fun s e => fst (fst (step s e))) evs st.
