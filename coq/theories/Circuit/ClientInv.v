(* The invariant tying the unacked table to the observable history, and its
   preservation by every event. *)
From Coq Require Import NArith List Bool Arith Lia ZifyBool ZifyNat ZifyN.
From HV Require Import Circuit.ClientCircuit Circuit.ClientProofs Circuit.ClientFutures.
Import ListNotations.
Open Scope N_scope.

Lemma NoDup_app_snoc : forall {A} (l : list A) x, NoDup l -> ~ In x l -> NoDup (l ++ [x]).
Proof.
  intros A l x Hl Hx. apply NoDup_rev in Hl. rewrite <- (rev_involutive (l ++ [x])). apply NoDup_rev.
  rewrite rev_app_distr. cbn [rev app]. constructor; [now rewrite <- in_rev | exact Hl].
Qed.

Definition cfg_ok (cfg : config) : Prop := 1 <= cf_tries cfg.

Definition entry_ok (cfg : config) (s : state) (tr : list output) (id : N) (v : rinfo) : Prop :=
  (exists t, In (OTracked (ri_fut v) id (st_epoch s) t) tr) /\
  ncompl (ri_fut v) tr = O /\
  ri_tries v + nresent (ri_fut v) tr = cf_tries cfg /\ 1 <= ri_tries v /\
  ri_last v = last_tx (ri_fut v) tr 0 /\ id < st_next s.

Record Inv (cfg : config) (s : state) (tr : list output) : Prop := mkInv {
  inv_entries : forall id v, In (id, v) (st_unacked s) -> entry_ok cfg s tr id v;
  inv_pending : forall h id t, In (OTracked h id (st_epoch s) t) tr -> ncompl h tr = O ->
                exists v, In (id, v) (st_unacked s) /\ ri_fut v = h;
  inv_keys : NoDup (map fst (st_unacked s));
  inv_futs : NoDup (map fut_of (st_unacked s));
  inv_handles : handles_lt (st_nfut s) tr;
  inv_epochs : forall h id ep t, In (OTracked h id ep t) tr -> (ep <= st_epoch s)%nat;
  inv_unique : forall h id ep t id' ep' t',
      In (OTracked h id ep t) tr -> In (OTracked h id' ep' t') tr -> id = id' /\ ep = ep';
  inv_once : forall h, (ncompl h tr <= 1)%nat
}.

Lemma hfree_app_facts : forall h tr outs, hfree h outs ->
  ncompl h (tr ++ outs) = ncompl h tr /\ nresent h (tr ++ outs) = nresent h tr /\
  (forall acc, last_tx h (tr ++ outs) acc = last_tx h tr acc) /\
  (forall id ep t, In (OTracked h id ep t) (tr ++ outs) <-> In (OTracked h id ep t) tr).
Proof.
  intros h tr outs H. destruct (hfree_facts h outs H) as [F1 [F2 [F3 F4]]].
  rewrite ncompl_app, nresent_app, F1, F2. repeat split; try lia.
  - intros acc. now rewrite last_tx_app, F3.
  - rewrite in_app_iff. intros [Hi|Hi]; [exact Hi | now elim (F4 _ _ _ Hi)].
  - intros Hi. apply in_or_app. now left.
Qed.

Lemma none_hfree : forall outs h, (forall o, In o outs -> handle_of o = None) -> hfree h outs.
Proof. intros outs h H o Ho E. rewrite (H o Ho) in E. discriminate. Qed.

Lemma tracked_not_in_none : forall outs h id ep t,
  (forall o, In o outs -> handle_of o = None) -> ~ In (OTracked h id ep t) outs.
Proof. intros outs h id ep t H Hin. specialize (H _ Hin). discriminate. Qed.

(* events that neither touch the table nor mention a future *)
Lemma Inv_frame : forall cfg s tr s' outs,
  Inv cfg s tr ->
  st_unacked s' = st_unacked s -> st_nfut s' = st_nfut s -> st_epoch s' = st_epoch s ->
  st_next s <= st_next s' ->
  (forall o, In o outs -> handle_of o = None) ->
  Inv cfg s' (tr ++ outs).
Proof.
  intros cfg s tr s' outs [Ie Ip Ik If Ih Iep Iu Io] Hu Hn He Hx Hnone.
  assert (HF : forall h, hfree h outs) by (intros h; now apply none_hfree).
  constructor.
  - intros id v Hin. rewrite Hu in Hin. destruct (Ie _ _ Hin) as (Ht & Hc & Htr & H1 & Hl & Hid).
    destruct (hfree_app_facts (ri_fut v) tr outs (HF _)) as (A1 & A2 & A3 & A4).
    unfold entry_ok. rewrite A1, A2, A3, He. repeat split; try assumption; try lia.
    destruct Ht as [t Ht]. exists t. now apply A4.
  - intros h id t Hin Hc. destruct (hfree_app_facts h tr outs (HF _)) as (A1 & A2 & A3 & A4).
    rewrite A1 in Hc. rewrite He in Hin. apply A4 in Hin. rewrite Hu. eauto.
  - now rewrite Hu.
  - now rewrite Hu.
  - intros o h Hin E. rewrite Hn. apply in_app_or in Hin. destruct Hin as [Hin|Hin]; [eauto|].
    rewrite (Hnone _ Hin) in E. discriminate.
  - intros h id ep t Hin. rewrite He. apply (proj1 (proj2 (proj2 (proj2 (hfree_app_facts h tr outs (HF _)))) _ _ _)) in Hin. eauto.
  - intros h id ep t id' ep' t' H1 H2.
    apply (proj1 (proj2 (proj2 (proj2 (hfree_app_facts h tr outs (HF _)))) _ _ _)) in H1.
    apply (proj1 (proj2 (proj2 (proj2 (hfree_app_facts h tr outs (HF _)))) _ _ _)) in H2. eauto.
  - intros h. rewrite (proj1 (hfree_app_facts h tr outs (HF _))). apply Io.
Qed.

Definition set_unacked (u : dict) (s : state) : state :=
  mkState (st_next s) u (st_seen s) (st_now s) (st_nfut s) (st_epoch s).

Lemma entry_handle_lt : forall cfg s tr id v,
  Inv cfg s tr -> In (id, v) (st_unacked s) -> (ri_fut v < st_nfut s)%nat.
Proof.
  intros cfg s tr id v HI Hin. destruct (inv_entries _ _ _ HI _ _ Hin) as ([t Ht] & _).
  exact (inv_handles _ _ _ HI _ _ Ht eq_refl).
Qed.

Lemma completed_not_entry : forall cfg s tr h,
  Inv cfg s tr -> (1 <= ncompl h tr)%nat -> cfut h (st_unacked s) = O.
Proof.
  intros cfg s tr h HI Hc. destruct (cfut h (st_unacked s)) eqn:E; [reflexivity|]. exfalso.
  assert (Hp : (1 <= cfut h (st_unacked s))%nat) by lia.
  apply cfut_pos_iff in Hp. destruct Hp as [[k v] [Hin Hf]]. unfold fut_of in Hf. cbn [snd] in Hf.
  destruct (inv_entries _ _ _ HI _ _ Hin) as (_ & Hz & _). rewrite Hf in Hz. lia.
Qed.

(* generic preservation for a step that shrinks/updates the table and emits only
   completions/retransmissions of futures held by the table *)
Section TableStep.
  Variable cfg : config.
  Variable s : state.
  Variable tr : list output.
  Variable u' : dict.
  Variable o : list output.
  Hypothesis HI : Inv cfg s tr.
  (* every new entry descends from an old entry with the same key and future *)
  Hypothesis Hdesc : forall k v', In (k, v') u' -> exists v, In (k, v) (st_unacked s) /\ ri_fut v' = ri_fut v /\
      ri_tries v' + nresent (ri_fut v) o = ri_tries v /\ 1 <= ri_tries v' /\
      ri_last v' = last_tx (ri_fut v) o (ri_last v).
  Hypothesis Hcons : forall h, (ncompl h o + cfut h u' = cfut h (st_unacked s))%nat.
  Hypothesis Hkeys : NoDup (map fst u').
  Hypothesis Hfuts : NoDup (map fut_of u').
  Hypothesis Hhand : forall x h, In x o -> handle_of x = Some h -> exists kv, In kv (st_unacked s) /\ fut_of kv = h.
  Hypothesis Hnotrk : forall h id ep t, ~ In (OTracked h id ep t) o.

  Lemma trk_app : forall h id ep t, In (OTracked h id ep t) (tr ++ o) <-> In (OTracked h id ep t) tr.
  Proof.
    intros. rewrite in_app_iff. split; [intros [H|H]; [exact H | now elim (Hnotrk _ _ _ _ H)] | now left].
  Qed.

  Lemma Inv_table_step : Inv cfg (set_unacked u' s) (tr ++ o).
  Proof.
    constructor; cbn [set_unacked st_unacked st_epoch st_nfut st_next].
    - intros id v' Hin. destruct (Hdesc _ _ Hin) as (v & Hv & Hf & Htr & H1 & Hl).
      destruct (inv_entries _ _ _ HI _ _ Hv) as ([t Ht] & Hc & Htr0 & H10 & Hl0 & Hid).
      unfold entry_ok. cbn [set_unacked st_epoch st_next]. rewrite Hf.
      split; [exists t; now apply trk_app|].
      split.
      { rewrite ncompl_app, Hc. cbn [plus].
        pose proof (Hcons (ri_fut v)) as Hk.
        pose proof (cfut_le1 (ri_fut v) _ (inv_futs _ _ _ HI)) as Hle.
        assert (1 <= cfut (ri_fut v) u')%nat.
        { apply cfut_pos_iff. exists (id, v'). split; [exact Hin|]. unfold fut_of. cbn [snd]. exact Hf. }
        lia. }
      split; [rewrite nresent_app; lia|].
      split; [exact H1|].
      split; [rewrite last_tx_app, <- Hl0; exact Hl | exact Hid].
    - intros h id t Hin Hc. apply trk_app in Hin. rewrite ncompl_app in Hc.
      assert (Hc1 : ncompl h tr = O) by lia. assert (Hc2 : ncompl h o = O) by lia.
      destruct (inv_pending _ _ _ HI _ _ _ Hin Hc1) as [v [Hv Hf]].
      pose proof (Hcons h) as Hk. rewrite Hc2 in Hk. cbn [plus] in Hk.
      assert (Hp : (1 <= cfut h u')%nat).
      { rewrite Hk. apply cfut_pos_iff. exists (id, v). split; [exact Hv | exact Hf]. }
      apply cfut_pos_iff in Hp. destruct Hp as [[k2 v2] [Hin2 Hf2]].
      destruct (Hdesc _ _ Hin2) as (v0 & Hv0 & Hf0 & _).
      unfold fut_of in Hf2. cbn [snd] in Hf2.
      assert (E : (k2, v0) = (id, v)).
      { eapply (NoDup_map_inj fut_of); [exact (inv_futs _ _ _ HI) | exact Hv0 | exact Hv |].
        unfold fut_of. cbn [snd]. congruence. }
      injection E as -> ->. exists v2. split; [exact Hin2 | exact Hf2].
    - exact Hkeys.
    - exact Hfuts.
    - intros x h Hin E. apply in_app_or in Hin. destruct Hin as [Hin|Hin].
      + exact (inv_handles _ _ _ HI _ _ Hin E).
      + destruct (Hhand _ _ Hin E) as [[k v] [Hkv Hf]]. unfold fut_of in Hf. cbn [snd] in Hf. subst h.
        eapply entry_handle_lt; eauto.
    - intros h id ep t Hin. apply trk_app in Hin. exact (inv_epochs _ _ _ HI _ _ _ _ Hin).
    - intros h id ep t id' ep' t' H1 H2. apply trk_app in H1. apply trk_app in H2.
      exact (inv_unique _ _ _ HI _ _ _ _ _ _ _ H1 H2).
    - intros h. rewrite ncompl_app. pose proof (Hcons h) as Hk. pose proof (inv_once _ _ _ HI h) as Ho.
      pose proof (cfut_le1 h _ (inv_futs _ _ _ HI)) as Hle.
      destruct (ncompl h tr) eqn:E; [lia|].
      assert (cfut h (st_unacked s) = O) by (eapply completed_not_entry; [exact HI | lia]). lia.
  Qed.
End TableStep.

(* ---- collect_acks preserves the invariant ---- *)

Lemma completions_facts : forall o, Forall is_completion o ->
  (forall h, nresent h o = 0) /\ (forall h acc, last_tx h o acc = acc) /\
  (forall h id ep t, ~ In (OTracked h id ep t) o).
Proof.
  induction 1 as [|x l Hx _ [I1 [I2 I3]]]; [cbn; repeat split; tauto|].
  destruct x; try contradiction. cbn [nresent last_tx]. repeat split; try assumption.
  intros h0 id ep t [Hc|Hc]; [discriminate | exact (I3 _ _ _ _ Hc)].
Qed.

Lemma Inv_collect : forall cfg s tr acks,
  Inv cfg s tr ->
  Inv cfg (set_unacked (fst (collect_acks acks (st_unacked s))) s) (tr ++ snd (collect_acks acks (st_unacked s))).
Proof.
  intros cfg s tr acks HI.
  pose proof (collect_acks_fst acks _ (inv_keys _ _ _ HI)) as Hfst.
  pose proof (collect_acks_outs acks (st_unacked s)) as Hall.
  destruct (completions_facts _ Hall) as [C1 [C2 C3]].
  apply Inv_table_step; try assumption.
  - intros k v' Hin. rewrite Hfst in Hin. apply filter_In in Hin. destruct Hin as [Hin _].
    destruct (inv_entries _ _ _ HI _ _ Hin) as (_ & _ & _ & H1 & _).
    exists v'. rewrite C1, C2. repeat split; try assumption; lia.
  - intros h. apply collect_acks_conserve.
  - rewrite Hfst. apply NoDup_map_filter. exact (inv_keys _ _ _ HI).
  - rewrite Hfst. apply NoDup_map_filter. exact (inv_futs _ _ _ HI).
  - intros x h Hin E. rewrite Forall_forall in Hall. specialize (Hall _ Hin).
    destruct x; try contradiction. cbn [handle_of] in E. injection E as ->.
    destruct (collect_acks_done_in _ _ _ Hin) as [k [v [H1 [_ H3]]]]. exists (k, v). split; [exact H1 | exact H3].
Qed.

(* ---- resend_unacked preserves the invariant ---- *)

Lemma resend_out_no_tracked : forall cfg now u h id ep t,
  ~ In (OTracked h id ep t) (flat_map (resend_out cfg now) u).
Proof.
  intros cfg now u h id ep t Hin. apply in_flat_map in Hin. destruct Hin as [kv [_ Hin]].
  unfold resend_out in Hin. destruct (due cfg now (snd kv)); [|contradiction].
  destruct (final_try (snd kv)); destruct Hin as [Hin|[]]; discriminate.
Qed.

Lemma Inv_resend : forall cfg s tr,
  Inv cfg s tr ->
  Inv cfg (set_unacked (flat_map (resend_entry cfg (st_now s)) (st_unacked s)) s)
          (tr ++ flat_map (resend_out cfg (st_now s)) (st_unacked s)).
Proof.
  intros cfg s tr HI. apply Inv_table_step; try assumption.
  - intros k v' Hin. apply in_flat_map in Hin. destruct Hin as [[k0 v] [Hv Hin]].
    destruct (resend_entry_shape _ _ _ _ Hin) as (Hk & Hf & Hcase). cbn [fst snd] in *. subst k0.
    unfold fut_of in Hf. cbn [snd] in Hf.
    destruct (resend_out_entry cfg (st_now s) _ (k, v) (inv_futs _ _ _ HI) Hv) as [R1 R2].
    unfold fut_of in R1, R2. cbn [snd] in R1, R2. cbn zeta in R1, R2.
    destruct (inv_entries _ _ _ HI _ _ Hv) as (_ & _ & _ & H1 & _).
    exists v. split; [exact Hv|]. split; [exact Hf|]. rewrite R1, R2.
    destruct Hcase as [[Hd E]|[Hd [Hfin E]]].
    + injection E as ->. rewrite Hd. cbn [andb]. repeat split; try assumption; lia.
    + cbn [snd] in E. subst v'. rewrite Hd, Hfin. cbn [andb negb ri_tries ri_last].
      unfold final_try in Hfin. apply N.eqb_neq in Hfin. repeat split; lia.
  - intros h. apply resend_conserve.
  - apply NoDup_map_flat; [|exact (inv_keys _ _ _ HI)].
    intros kv kv' Hin. now destruct (resend_entry_shape _ _ _ _ Hin) as (Hk & _).
  - apply NoDup_map_flat; [|exact (inv_futs _ _ _ HI)].
    intros kv kv' Hin. now destruct (resend_entry_shape _ _ _ _ Hin) as (_ & Hf & _).
  - intros x h Hin E. apply in_flat_map in Hin. destruct Hin as [kv [Hkv Hin]]. exists kv. split; [exact Hkv|].
    unfold resend_out, fut_of in *. destruct (due cfg (st_now s) (snd kv)); [|contradiction].
    destruct (final_try (snd kv)); destruct Hin as [<-|[]]; cbn [handle_of] in E; congruence.
  - intros. apply resend_out_no_tracked.
Qed.

(* ---- a tracked send ---- *)

Lemma Inv_track : forall cfg s tr,
  cfg_ok cfg -> Inv cfg s tr ->
  Inv cfg (fst (send cfg s true true)) (tr ++ snd (send cfg s true true)).
Proof.
  intros cfg s tr Hcfg HI. unfold send. cbn [andb fst snd].
  set (h := st_nfut s). set (id := st_next s).
  set (vnew := mkInfo (st_now s) (cf_tries cfg) h).
  assert (Hfresh : ~ In id (map fst (st_unacked s))).
  { intro Hc. apply in_map_iff in Hc. destruct Hc as [[k v] [Hk Hin]]. cbn [fst] in Hk. subst k.
    destruct (inv_entries _ _ _ HI _ _ Hin) as (_ & _ & _ & _ & _ & Hlt). unfold id in Hlt. lia. }
  rewrite (dict_set_fresh id vnew _ Hfresh).
  assert (Hold : forall k v, In (k, v) (st_unacked s) -> (ri_fut v < h)%nat).
  { intros k v Hin. eapply entry_handle_lt; eauto. }
  assert (Hhf : hfree h tr) by (eapply handles_lt_hfree; [exact (inv_handles _ _ _ HI) | unfold h; lia]).
  destruct (hfree_facts _ _ Hhf) as [G1 [G2 [G3 G4]]].
  set (outs := [OTracked h id (st_epoch s) (st_now s); OSent id true]).
  assert (Hother : forall h', h' <> h -> hfree h' outs).
  { intros h' Hne x [<-|[<-|[]]] E; cbn [handle_of] in E; [congruence | discriminate]. }
  constructor; cbn [st_unacked st_epoch st_nfut st_next].
  - intros k v Hin. apply in_app_or in Hin. destruct Hin as [Hin|[Hin|[]]].
    + destruct (inv_entries _ _ _ HI _ _ Hin) as (Ht & Hc & Htr & H1 & Hl & Hid).
      assert (Hne : ri_fut v <> h) by (specialize (Hold _ _ Hin); lia).
      destruct (hfree_app_facts (ri_fut v) tr outs (Hother _ Hne)) as (A1 & A2 & A3 & A4).
      unfold entry_ok. cbn [st_epoch st_next]. rewrite A1, A2, A3. repeat split; try assumption; try lia.
      destruct Ht as [t Ht]. exists t. now apply A4.
    + injection Hin as <- <-. unfold entry_ok, vnew. cbn [ri_fut ri_tries ri_last st_epoch st_next].
      split; [exists (st_now s); apply in_or_app; right; now left|].
      rewrite ncompl_app, nresent_app, last_tx_app, G1, G2, G3. unfold outs. cbn [ncompl nresent last_tx plus].
      rewrite Nat.eqb_refl. unfold cfg_ok in Hcfg. repeat split; lia.
  - intros h' k t Hin Hc. rewrite ncompl_app in Hc. cbn [ncompl plus] in Hc. rewrite Nat.add_0_r in Hc.
    apply in_app_or in Hin. destruct Hin as [Hin|[Hin|[Hin|[]]]]; [|injection Hin as <- <- _|discriminate].
    + destruct (inv_pending _ _ _ HI _ _ _ Hin Hc) as [v [Hv Hf]]. exists v. split; [apply in_or_app; now left | exact Hf].
    + exists vnew. split; [apply in_or_app; right; now left | reflexivity].
  - rewrite map_app. cbn [map fst]. apply NoDup_app_snoc; [exact (inv_keys _ _ _ HI) | exact Hfresh].
  - rewrite map_app. cbn [map]. apply NoDup_app_snoc; [exact (inv_futs _ _ _ HI)|].
    intro Hc. apply in_map_iff in Hc. destruct Hc as [[k v] [Hk Hin]]. unfold fut_of in Hk. cbn [snd ri_fut] in Hk.
    specialize (Hold _ _ Hin). unfold vnew in Hk. cbn [ri_fut] in Hk. lia.
  - intros x h' Hin E. apply in_app_or in Hin. destruct Hin as [Hin|[<-|[<-|[]]]].
    + pose proof (inv_handles _ _ _ HI _ _ Hin E). unfold h in *. lia.
    + cbn [handle_of] in E. injection E as <-. unfold h. lia.
    + discriminate.
  - intros h' k ep t Hin. apply in_app_or in Hin. destruct Hin as [Hin|[Hin|[Hin|[]]]].
    + exact (inv_epochs _ _ _ HI _ _ _ _ Hin).
    + injection Hin as _ _ <- _. lia.
    + discriminate.
  - intros h' k ep t k' ep' t' H1 H2. apply in_app_or in H1. apply in_app_or in H2.
    destruct H1 as [H1|[H1|[H1|[]]]]; destruct H2 as [H2|[H2|[H2|[]]]]; try discriminate.
    + exact (inv_unique _ _ _ HI _ _ _ _ _ _ _ H1 H2).
    + injection H2 as -> _ _ _. now elim (G4 _ _ _ H1).
    + injection H1 as -> _ _ _. now elim (G4 _ _ _ H2).
    + injection H1 as _ <- <- _. injection H2 as _ <- <- _. split; reflexivity.
  - intros h'. rewrite ncompl_app. cbn [ncompl]. rewrite Nat.add_0_r. apply (inv_once _ _ _ HI).
Qed.

(* ---- disconnect ---- *)

Lemma Inv_disconnect : forall cfg s tr,
  Inv cfg s tr ->
  Inv cfg (mkState 0 [] (st_seen s) (st_now s) (st_nfut s) (S (st_epoch s))) (tr ++ [ODisc]).
Proof.
  intros cfg s tr HI.
  assert (Hnone : forall o, In o [ODisc] -> handle_of o = None) by (intros o [<-|[]]; reflexivity).
  assert (HF : forall h, hfree h [ODisc]) by (intros h; now apply none_hfree).
  constructor; cbn [st_unacked st_epoch st_nfut st_next].
  - intros id v [].
  - intros h id t Hin _. apply (proj1 (proj2 (proj2 (proj2 (hfree_app_facts h tr _ (HF _)))) _ _ _)) in Hin.
    pose proof (inv_epochs _ _ _ HI _ _ _ _ Hin). lia.
  - constructor.
  - constructor.
  - intros o h Hin E. apply in_app_or in Hin. destruct Hin as [Hin|Hin]; [exact (inv_handles _ _ _ HI _ _ Hin E)|].
    rewrite (Hnone _ Hin) in E. discriminate.
  - intros h id ep t Hin. apply (proj1 (proj2 (proj2 (proj2 (hfree_app_facts h tr _ (HF _)))) _ _ _)) in Hin.
    pose proof (inv_epochs _ _ _ HI _ _ _ _ Hin). lia.
  - intros h id ep t id' ep' t' H1 H2.
    apply (proj1 (proj2 (proj2 (proj2 (hfree_app_facts h tr _ (HF _)))) _ _ _)) in H1.
    apply (proj1 (proj2 (proj2 (proj2 (hfree_app_facts h tr _ (HF _)))) _ _ _)) in H2.
    exact (inv_unique _ _ _ HI _ _ _ _ _ _ _ H1 H2).
  - intros h. rewrite (proj1 (hfree_app_facts h tr _ (HF _))). apply (inv_once _ _ _ HI).
Qed.

(* ---- every event ---- *)

Lemma recv_unfold : forall cfg s p, accepted p = true ->
  exists s' tail,
    recv cfg s p = (s', snd (collect_acks (eff_acks p) (st_unacked s)) ++ tail) /\
    st_unacked s' = fst (collect_acks (eff_acks p) (st_unacked s)) /\
    st_nfut s' = st_nfut s /\ st_epoch s' = st_epoch s /\ st_next s <= st_next s' /\
    (forall o, In o tail -> handle_of o = None).
Proof.
  intros cfg s p Ha. unfold accepted in Ha. unfold recv.
  destruct (p_known p); [|discriminate]. destruct (p_banned p); [discriminate|]. cbn [negb].
  destruct (collect_acks (eff_acks p) (st_unacked s)) as [u o1]. cbn [fst snd].
  destruct (p_reliable p).
  - destruct (track (cf_window cfg) (p_id p) (st_seen s)) as [fresh seen'].
    eexists _, _. split; [reflexivity|]. cbn [st_unacked st_nfut st_epoch st_next].
    repeat split; try lia.
    intros o Hin. destruct fresh; cbn [In] in Hin; intuition (subst; reflexivity).
  - eexists _, _. split; [reflexivity|]. cbn [st_unacked st_nfut st_epoch st_next].
    repeat split; try lia.
    intros o Hin. cbn [In] in Hin; intuition (subst; reflexivity).
Qed.

Lemma Inv_step : forall cfg s tr e,
  cfg_ok cfg -> Inv cfg s tr -> Inv cfg (fst (step cfg s e)) (tr ++ snd (step cfg s e)).
Proof.
  intros cfg s tr e Hcfg HI. destruct e as [p|rel syn|syn|d| |]; cbn [step].
  - destruct (accepted p) eqn:Ha.
    + destruct (recv_unfold cfg s p Ha) as (s' & tail & -> & Hu & Hn & He & Hx & Hnone). cbn [fst snd].
      rewrite app_assoc.
      apply (Inv_frame cfg (set_unacked (fst (collect_acks (eff_acks p) (st_unacked s))) s)); try assumption.
      now apply Inv_collect.
    + unfold accepted in Ha. unfold recv. destruct (p_known p); cbn [negb].
      * destruct (p_banned p); [|discriminate]. cbn [fst snd].
        apply (Inv_frame cfg s); try assumption; try reflexivity; try lia.
        intros o [<-|[]]; reflexivity.
      * cbn [fst snd]. rewrite app_nil_r. exact HI.
  - destruct (rel && syn) eqn:E.
    + apply andb_true_iff in E. destruct E as [-> ->]. now apply Inv_track.
    + unfold send. rewrite E. cbn [fst snd].
      apply (Inv_frame cfg s); try assumption; try reflexivity; cbn [st_next]; try lia.
      intros o [<-|[]]; reflexivity.
  - destruct syn; [now apply Inv_track|]. cbn [fst snd].
    apply (Inv_frame cfg s); try assumption; try reflexivity; try lia.
    intros o [<-|[]]; reflexivity.
  - cbn [fst snd]. rewrite app_nil_r.
    replace tr with (tr ++ []) by apply app_nil_r.
    apply (Inv_frame cfg s); try assumption; try reflexivity; cbn [st_next]; try lia.
    intros o [].
  - rewrite (resend_spec cfg (st_now s) _ (inv_keys _ _ _ HI)). cbn [fst snd].
    exact (Inv_resend cfg s tr HI).
  - cbn [fst snd]. now apply Inv_disconnect.
Qed.

Lemma Inv_init : forall cfg, Inv cfg init [].
Proof.
  intros cfg. constructor; cbn.
  - intros id v [].
  - intros h id t [].
  - constructor.
  - constructor.
  - intros o h [].
  - intros h id ep t [].
  - intros h id ep t id' ep' t' [].
  - intros h. lia.
Qed.

Lemma Inv_reach : forall cfg evs, cfg_ok cfg -> Inv cfg (final cfg evs) (trace cfg evs).
Proof.
  intros cfg evs Hcfg. induction evs as [|e evs IH] using rev_ind; [apply Inv_init|].
  rewrite final_snoc, trace_snoc. now apply Inv_step.
Qed.

Lemma final_epoch : forall cfg evs, st_epoch (final cfg evs) = count_disc evs.
Proof.
  intros cfg evs. induction evs as [|e evs IH] using rev_ind; [reflexivity|].
  rewrite final_snoc.
  assert (Hc : forall a b, count_disc (a ++ b) = (count_disc a + count_disc b)%nat).
  { induction a as [|x a IHa]; intros b; [reflexivity|]. destruct x; cbn [app count_disc]; rewrite IHa; lia. }
  rewrite Hc. destruct e as [p|rel syn|syn|d| |]; cbn [step count_disc].
  - unfold recv. destruct (p_known p); cbn [negb]; [|cbn; lia]. destruct (p_banned p); [cbn; lia|].
    destruct (collect_acks (eff_acks p) (st_unacked (final cfg evs))) as [u o1].
    destruct (p_reliable p); [destruct (track _ _ _)|]; cbn; lia.
  - unfold send. destruct (rel && syn); cbn; lia.
  - destruct syn; [unfold send|]; cbn; lia.
  - cbn. lia.
  - destruct (resend_loop _ _ _ _). cbn. lia.
  - cbn. lia.
Qed.

Lemma final_now : forall cfg evs, st_now (final cfg evs) = clock evs.
Proof.
  intros cfg evs. induction evs as [|e evs IH] using rev_ind; [reflexivity|].
  rewrite final_snoc.
  assert (Hc : forall a b, clock (a ++ b) = clock a + clock b).
  { induction a as [|x a IHa]; intros b; [reflexivity|]. destruct x; cbn [app clock]; rewrite IHa; lia. }
  rewrite Hc. destruct e as [p|rel syn|syn|d| |]; cbn [step clock].
  - unfold recv. destruct (p_known p); cbn [negb]; [|cbn; lia]. destruct (p_banned p); [cbn; lia|].
    destruct (collect_acks (eff_acks p) (st_unacked (final cfg evs))) as [u o1].
    destruct (p_reliable p); [destruct (track _ _ _)|]; cbn; lia.
  - unfold send. destruct (rel && syn); cbn; lia.
  - destruct syn; [unfold send|]; cbn; lia.
  - cbn. lia.
  - destruct (resend_loop _ _ _ _). cbn. lia.
  - cbn. lia.
Qed.
