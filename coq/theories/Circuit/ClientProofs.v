(* Proofs about the client circuit model (ClientCircuit.v). *)
From Coq Require Import NArith List Bool Arith Lia ZifyBool ZifyNat ZifyN.
From HV Require Import Circuit.ClientCircuit.
Import ListNotations.
Open Scope N_scope.

(* ------------------------------------------------------------------ *)
(* run / trace plumbing                                                *)

Lemma run_app : forall cfg a b s,
  run cfg s (a ++ b) =
  let (s1, o1) := run cfg s a in
  let (s2, o2) := run cfg s1 b in (s2, o1 ++ o2).
Proof.
  induction a as [|e a IH]; intros b s; cbn [run app].
  - destruct (run cfg s b); reflexivity.
  - destruct (step cfg s e) as [s1 o1].
    rewrite IH. destruct (run cfg s1 a) as [s2 o2].
    destruct (run cfg s2 b) as [s3 o3]. now rewrite app_assoc.
Qed.

Lemma run_snoc : forall cfg a e s,
  run cfg s (a ++ [e]) =
  let (s1, o1) := run cfg s a in
  let (s2, o2) := step cfg s1 e in (s2, o1 ++ o2).
Proof.
  intros. rewrite run_app. destruct (run cfg s a) as [s1 o1]. cbn [run].
  destruct (step cfg s1 e) as [s2 o2]. now rewrite app_nil_r.
Qed.

Lemma final_snoc : forall cfg a e,
  final cfg (a ++ [e]) = fst (step cfg (final cfg a) e).
Proof.
  intros. unfold final. rewrite run_snoc. destruct (run cfg init a) as [s1 o1]. cbn [fst].
  now destruct (step cfg s1 e).
Qed.

Lemma trace_snoc : forall cfg a e,
  trace cfg (a ++ [e]) = trace cfg a ++ snd (step cfg (final cfg a) e).
Proof.
  intros. unfold trace, final. rewrite run_snoc. destruct (run cfg init a) as [s1 o1]. cbn [fst snd].
  now destruct (step cfg s1 e).
Qed.

Lemma trace_app_cons : forall cfg a e b,
  trace cfg (a ++ e :: b) =
  trace cfg a ++ snd (step cfg (final cfg a) e) ++ snd (run cfg (fst (step cfg (final cfg a) e)) b).
Proof.
  intros. unfold trace, final. rewrite run_app. destruct (run cfg init a) as [s1 o1]. cbn [fst snd run].
  destruct (step cfg s1 e) as [s2 o2]. cbn [fst snd].
  destruct (run cfg s2 b) as [s3 o3]. reflexivity.
Qed.

(* ------------------------------------------------------------------ *)
(* shape of the outputs of the sub-steps                               *)

Definition is_completion (o : output) : Prop :=
  match o with ODone _ => True | _ => False end.

Definition is_resend_out (o : output) : Prop :=
  match o with OFailed _ | OResent _ _ _ => True | _ => False end.

Lemma collect_acks_outs : forall acks u, Forall is_completion (snd (collect_acks acks u)).
Proof.
  induction acks as [|a r IH]; intros u; cbn [collect_acks].
  - constructor.
  - destruct (dict_get a u) as [info|].
    + specialize (IH (dict_del a u)). destruct (collect_acks r (dict_del a u)) as [u' o].
      cbn [snd] in *. constructor; [exact I | exact IH].
    + apply IH.
Qed.

Lemma resend_loop_outs : forall cfg now snap u, Forall is_resend_out (snd (resend_loop cfg now snap u)).
Proof.
  induction snap as [|[id info] r IH]; intros u; cbn [resend_loop].
  - constructor.
  - destruct (now - ri_last info <? cf_every cfg); [apply IH|].
    destruct (ri_tries info - 1 =? 0).
    + specialize (IH (dict_del id u)). destruct (resend_loop cfg now r (dict_del id u)) as [u' o].
      cbn [snd] in *. constructor; [exact I | exact IH].
    + match goal with |- context [resend_loop cfg now r ?d] => specialize (IH d); destruct (resend_loop cfg now r d) as [u' o] end.
      cbn [snd] in *. constructor; [exact I | exact IH].
Qed.

(* ------------------------------------------------------------------ *)
(* always_ack                                                          *)

Lemma acks_sent_app : forall a b, acks_sent (a ++ b) = acks_sent a ++ acks_sent b.
Proof.
  induction a as [|o a IH]; intros b; [reflexivity|].
  destruct o; cbn [acks_sent app]; rewrite ?IH; reflexivity.
Qed.

Lemma acks_sent_completions : forall o, Forall is_completion o -> acks_sent o = [].
Proof.
  induction 1 as [|x l Hx _ IH]; [reflexivity|]. destruct x; try contradiction. exact IH.
Qed.

Lemma acks_sent_resend : forall o, Forall is_resend_out o -> acks_sent o = [].
Proof.
  induction 1 as [|x l Hx _ IH]; [reflexivity|]. destruct x; try contradiction; exact IH.
Qed.

Lemma recv_acks_sent : forall cfg s p,
  acks_sent (snd (recv cfg s p)) = if accepted p && p_reliable p then [p_id p] else [].
Proof.
  intros cfg s p. unfold recv, accepted.
  destruct (p_known p); cbn [negb andb]; [|reflexivity].
  destruct (p_banned p); cbn [negb andb]; [reflexivity|].
  pose proof (collect_acks_outs (eff_acks p) (st_unacked s)) as Hc.
  destruct (collect_acks (eff_acks p) (st_unacked s)) as [u o1]. cbn [snd] in Hc.
  destruct (p_reliable p).
  - destruct (track (cf_window cfg) (p_id p) (st_seen s)) as [fresh seen']. cbn [snd].
    rewrite acks_sent_app, (acks_sent_completions _ Hc). destruct fresh; reflexivity.
  - cbn [snd]. rewrite acks_sent_app, (acks_sent_completions _ Hc). reflexivity.
Qed.

Lemma step_acks_sent : forall cfg s e,
  acks_sent (snd (step cfg s e)) = reliable_arrivals [e].
Proof.
  intros cfg s e. destruct e as [p|rel syn|syn|d| |]; cbn [step reliable_arrivals].
  - rewrite recv_acks_sent. destruct (accepted p && p_reliable p); reflexivity.
  - unfold send. destruct (rel && syn); reflexivity.
  - destruct syn; [unfold send; cbn [andb]|]; reflexivity.
  - reflexivity.
  - pose proof (resend_loop_outs cfg (st_now s) (st_unacked s) (st_unacked s)) as Hr.
    destruct (resend_loop cfg (st_now s) (st_unacked s) (st_unacked s)) as [u o]. cbn [snd] in *.
    now apply acks_sent_resend.
  - reflexivity.
Qed.

Lemma reliable_arrivals_cons : forall e r, reliable_arrivals (e :: r) = reliable_arrivals [e] ++ reliable_arrivals r.
Proof.
  intros e r. destruct e as [p| | | | |]; cbn [reliable_arrivals]; try reflexivity.
  destruct (accepted p && p_reliable p); reflexivity.
Qed.

Lemma run_acks_sent : forall cfg evs s,
  acks_sent (snd (run cfg s evs)) = reliable_arrivals evs.
Proof.
  induction evs as [|e r IH]; intros s; [reflexivity|].
  cbn [run]. pose proof (step_acks_sent cfg s e) as He.
  destruct (step cfg s e) as [s1 o1]. specialize (IH s1). destruct (run cfg s1 r) as [s2 o2].
  cbn [snd] in *. rewrite acks_sent_app, He, IH. symmetry. apply reliable_arrivals_cons.
Qed.

(* every accepted reliable arrival, duplicate or not, is answered by exactly one
   PacketAck carrying its id; nothing else is ever acknowledged *)
Lemma always_ack : forall cfg evs, acks_sent (trace cfg evs) = reliable_arrivals evs.
Proof. intros. apply run_acks_sent. Qed.

(* the same at the level of one reception, from any state *)
Lemma always_ack_step : forall cfg s p,
  acks_sent (snd (recv cfg s p)) = if accepted p && p_reliable p then [p_id p] else [].
Proof. exact recv_acks_sent. Qed.

(* ------------------------------------------------------------------ *)
(* ids_increase                                                        *)

Definition quiet (o : output) : Prop := issued o = None /\ o <> ODisc.

(* the id expected next after a trace *)
Fixpoint ids_end (next : N) (tr : list output) : N :=
  match tr with
  | [] => next
  | ODisc :: r => ids_end 0 r
  | o :: r => match issued o with Some _ => ids_end (next + 1) r | None => ids_end next r end
  end.

Lemma ids_ok_app : forall a b n, ids_ok n (a ++ b) <-> ids_ok n a /\ ids_ok (ids_end n a) b.
Proof.
  induction a as [|o a IH]; intros b n; cbn [app].
  - cbn [ids_ok ids_end]. tauto.
  - destruct o; cbn [ids_ok ids_end issued]; rewrite IH; tauto.
Qed.

Lemma ids_end_app : forall a b n, ids_end n (a ++ b) = ids_end (ids_end n a) b.
Proof.
  induction a as [|o a IH]; intros b n; cbn [app]; [reflexivity|].
  destruct o; cbn [ids_end issued]; apply IH.
Qed.

Lemma quiet_ids : forall l n, Forall quiet l -> ids_ok n l /\ ids_end n l = n.
Proof.
  induction 1 as [|o l [Hi Hd] _ IH]; [cbn; tauto|].
  destruct o; cbn [issued] in Hi; try discriminate; try (now elim Hd); cbn [ids_ok ids_end issued]; exact IH.
Qed.

Lemma completion_quiet : forall l, Forall is_completion l -> Forall quiet l.
Proof.
  intros l H. eapply Forall_impl; [|exact H]. intros o Ho. destruct o; try contradiction. split; [reflexivity|discriminate].
Qed.

Lemma resend_quiet : forall l, Forall is_resend_out l -> Forall quiet l.
Proof.
  intros l H. eapply Forall_impl; [|exact H]. intros o Ho. destruct o; try contradiction; (split; [reflexivity|discriminate]).
Qed.

Lemma step_ids : forall cfg s e,
  ids_ok (st_next s) (snd (step cfg s e)) /\
  ids_end (st_next s) (snd (step cfg s e)) = st_next (fst (step cfg s e)).
Proof.
  intros cfg s e. destruct e as [p|rel syn|syn|d| |]; cbn [step].
  - unfold recv. destruct (p_known p); cbn [negb]; [|cbn; tauto].
    destruct (p_banned p); [cbn; tauto|].
    pose proof (collect_acks_outs (eff_acks p) (st_unacked s)) as Hc.
    destruct (collect_acks (eff_acks p) (st_unacked s)) as [u o1]. cbn [snd] in Hc.
    apply completion_quiet in Hc.
    destruct (p_reliable p).
    + destruct (track (cf_window cfg) (p_id p) (st_seen s)) as [fresh seen']. cbn [fst snd st_next].
      rewrite ids_ok_app, ids_end_app. destruct (quiet_ids o1 (st_next s) Hc) as [H1 H2]. rewrite H2.
      destruct fresh; cbn [ids_ok ids_end issued]; tauto.
    + cbn [fst snd st_next]. rewrite ids_ok_app, ids_end_app.
      destruct (quiet_ids o1 (st_next s) Hc) as [H1 H2]. rewrite H2. cbn [ids_ok ids_end issued]. tauto.
  - unfold send. destruct (rel && syn); cbn; tauto.
  - destruct syn; [unfold send; cbn; tauto | cbn; tauto].
  - cbn. tauto.
  - pose proof (resend_loop_outs cfg (st_now s) (st_unacked s) (st_unacked s)) as Hr.
    destruct (resend_loop cfg (st_now s) (st_unacked s) (st_unacked s)) as [u o]. cbn [fst snd st_next] in *.
    apply resend_quiet in Hr. exact (quiet_ids o (st_next s) Hr).
  - cbn. tauto.
Qed.

Lemma run_ids : forall cfg evs s,
  ids_ok (st_next s) (snd (run cfg s evs)) /\
  ids_end (st_next s) (snd (run cfg s evs)) = st_next (fst (run cfg s evs)).
Proof.
  induction evs as [|e r IH]; intros s; cbn [run]; [cbn; tauto|].
  pose proof (step_ids cfg s e) as [H1 H2].
  destruct (step cfg s e) as [s1 o1]. specialize (IH s1). destruct (run cfg s1 r) as [s2 o2].
  cbn [fst snd] in *. rewrite ids_ok_app, ids_end_app, H2. tauto.
Qed.

Lemma ids_increase : forall cfg evs, ids_ok 0 (trace cfg evs).
Proof. intros. exact (proj1 (run_ids cfg evs init)). Qed.

(* readable consequences of [ids_ok] *)
Lemma ids_ok_next : forall mid n o2 t2 b,
  ids_ok n (mid ++ o2 :: t2) -> Forall quiet mid -> issued o2 = Some b -> b = n.
Proof.
  intros mid n o2 t2 b H Hq Hb. rewrite ids_ok_app in H. destruct H as [_ H].
  rewrite (proj2 (quiet_ids mid n Hq)) in H.
  destruct o2; cbn [issued] in Hb; try discriminate; injection Hb as <-; cbn [ids_ok issued] in H; tauto.
Qed.

Lemma ids_ok_le : forall mid n o2 t2 b,
  ids_ok n (mid ++ o2 :: t2) -> ~ In ODisc mid -> issued o2 = Some b -> n <= b.
Proof.
  induction mid as [|o mid IH]; intros n o2 t2 b H Hd Hb; cbn [app] in H.
  - destruct o2; cbn [issued] in Hb; try discriminate; injection Hb as <-; cbn [ids_ok issued] in H; lia.
  - assert (Hd' : ~ In ODisc mid) by (intro; apply Hd; now right).
    destruct o; cbn [ids_ok issued] in H;
      try (exact (IH _ _ _ _ H Hd' Hb));
      try (destruct H as [_ H]; specialize (IH _ _ _ _ H Hd' Hb); lia).
    elim Hd. now left.
Qed.

Lemma ids_adjacent : forall cfg evs t1 o1 mid o2 t2 a b,
  trace cfg evs = t1 ++ o1 :: mid ++ o2 :: t2 ->
  issued o1 = Some a -> issued o2 = Some b -> Forall quiet mid -> b = a + 1.
Proof.
  intros cfg evs t1 o1 mid o2 t2 a b Ht Ha Hb Hq.
  pose proof (ids_increase cfg evs) as H. rewrite Ht, ids_ok_app in H. destruct H as [_ H].
  destruct o1; cbn [issued] in Ha; try discriminate; injection Ha as <-; cbn [ids_ok issued] in H;
    destruct H as [<- H]; exact (ids_ok_next _ _ _ _ _ H Hq Hb).
Qed.

Lemma ids_strict : forall cfg evs t1 o1 mid o2 t2 a b,
  trace cfg evs = t1 ++ o1 :: mid ++ o2 :: t2 ->
  issued o1 = Some a -> issued o2 = Some b -> ~ In ODisc mid -> a < b.
Proof.
  intros cfg evs t1 o1 mid o2 t2 a b Ht Ha Hb Hd.
  pose proof (ids_increase cfg evs) as H. rewrite Ht, ids_ok_app in H. destruct H as [_ H].
  destruct o1; cbn [issued] in Ha; try discriminate; injection Ha as <-; cbn [ids_ok issued] in H;
    destruct H as [<- H]; pose proof (ids_ok_le _ _ _ _ _ H Hd Hb); lia.
Qed.

(* ------------------------------------------------------------------ *)
(* dispatch                                                            *)

Lemma dispatched_app : forall l rel a b, dispatched l rel (a ++ b) = dispatched l rel a ++ dispatched l rel b.
Proof.
  induction a as [|o a IH]; intros b; [reflexivity|].
  destruct o; cbn [dispatched app]; rewrite ?IH; try reflexivity.
  destruct (level_eqb l l0 && Bool.eqb rel reliable); cbn [app]; now rewrite ?IH.
Qed.

Lemma dispatched_completions : forall l rel o, Forall is_completion o -> dispatched l rel o = [].
Proof. induction 1 as [|x r Hx _ IH]; [reflexivity|]. destruct x; try contradiction; exact IH. Qed.

Lemma dispatched_resend : forall l rel o, Forall is_resend_out o -> dispatched l rel o = [].
Proof. induction 1 as [|x r Hx _ IH]; [reflexivity|]. destruct x; try contradiction; exact IH. Qed.

Definition in_seen (pid : N) (seen : list N) : bool := existsb (N.eqb pid) seen.

Lemma in_seen_iff : forall pid seen, in_seen pid seen = true <-> In pid seen.
Proof.
  intros. unfold in_seen. rewrite existsb_exists. split.
  - intros [x [Hx He]]. apply N.eqb_eq in He. now subst.
  - intros H. exists pid. split; [exact H | apply N.eqb_refl].
Qed.

(* what one reception dispatches, at either level *)
Lemma recv_dispatched : forall cfg s p l rel,
  dispatched l rel (snd (recv cfg s p)) =
  if accepted p && Bool.eqb rel (p_reliable p) && negb (p_reliable p && in_seen (p_id p) (st_seen s))
  then [p_id p] else [].
Proof.
  intros cfg s p l rel. unfold recv, accepted.
  destruct (p_known p); cbn [negb andb]; [|reflexivity].
  destruct (p_banned p); cbn [negb andb]; [reflexivity|].
  pose proof (collect_acks_outs (eff_acks p) (st_unacked s)) as Hc.
  destruct (collect_acks (eff_acks p) (st_unacked s)) as [u o1]. cbn [snd] in Hc.
  destruct (p_reliable p); cbn [andb].
  - unfold track. fold (in_seen (p_id p) (st_seen s)).
    destruct (in_seen (p_id p) (st_seen s)); cbn [snd negb];
      rewrite dispatched_app, (dispatched_completions _ _ _ Hc); cbn [app dispatched];
      destruct l, rel; cbn; reflexivity.
  - cbn [snd negb]. rewrite dispatched_app, (dispatched_completions _ _ _ Hc). cbn [app dispatched].
    destruct l, rel; cbn; reflexivity.
Qed.

Lemma recv_seen : forall cfg s p,
  st_seen (fst (recv cfg s p)) =
  if accepted p && p_reliable p && negb (in_seen (p_id p) (st_seen s))
  then deque_append (cf_window cfg) (p_id p) (st_seen s) else st_seen s.
Proof.
  intros cfg s p. unfold recv, accepted.
  destruct (p_known p); cbn [negb andb]; [|reflexivity].
  destruct (p_banned p); cbn [negb andb]; [reflexivity|].
  destruct (collect_acks (eff_acks p) (st_unacked s)) as [u o1].
  destruct (p_reliable p); cbn [andb]; [|reflexivity].
  unfold track. fold (in_seen (p_id p) (st_seen s)).
  destruct (in_seen (p_id p) (st_seen s)); reflexivity.
Qed.

Lemma step_dispatched_other : forall cfg s e l rel,
  (forall p, e <> ERecv p) ->
  dispatched l rel (snd (step cfg s e)) = [] /\ st_seen (fst (step cfg s e)) = st_seen s.
Proof.
  intros cfg s e l rel Hne. destruct e as [p|r syn|syn|d| |]; cbn [step].
  - now elim (Hne p).
  - unfold send. destruct (r && syn); cbn; split; reflexivity.
  - destruct syn; [unfold send|]; cbn; split; reflexivity.
  - cbn. split; reflexivity.
  - pose proof (resend_loop_outs cfg (st_now s) (st_unacked s) (st_unacked s)) as Hr.
    destruct (resend_loop cfg (st_now s) (st_unacked s) (st_unacked s)) as [u o]. cbn [fst snd st_seen] in *.
    split; [now apply dispatched_resend | reflexivity].
  - cbn. split; reflexivity.
Qed.

Lemma event_cases : forall e, (exists p, e = ERecv p) \/ (forall p, e <> ERecv p).
Proof. intros [p| | | | |]; [left; now exists p | right; discriminate ..]. Qed.

Lemma step_levels_agree : forall cfg s e rel,
  dispatched Session rel (snd (step cfg s e)) = dispatched Region rel (snd (step cfg s e)).
Proof.
  intros cfg s e rel. destruct (event_cases e) as [[p ->]|Hne].
  - cbn [step]. now rewrite !recv_dispatched.
  - now rewrite (proj1 (step_dispatched_other cfg s e Session rel Hne)), (proj1 (step_dispatched_other cfg s e Region rel Hne)).
Qed.

Lemma run_levels_agree : forall cfg evs s rel,
  dispatched Session rel (snd (run cfg s evs)) = dispatched Region rel (snd (run cfg s evs)).
Proof.
  induction evs as [|e r IH]; intros s rel; [reflexivity|]. cbn [run].
  pose proof (step_levels_agree cfg s e rel) as He.
  destruct (step cfg s e) as [s1 o1]. specialize (IH s1 rel). destruct (run cfg s1 r) as [s2 o2].
  cbn [snd] in *. now rewrite !dispatched_app, He, IH.
Qed.

Lemma dispatch_levels_agree : forall cfg evs rel,
  dispatched Session rel (trace cfg evs) = dispatched Region rel (trace cfg evs).
Proof. intros. apply run_levels_agree. Qed.

Lemma unreliable_arrivals_cons : forall e r, unreliable_arrivals (e :: r) = unreliable_arrivals [e] ++ unreliable_arrivals r.
Proof.
  intros e r. destruct e as [p| | | | |]; cbn [unreliable_arrivals]; try reflexivity.
  destruct (accepted p && negb (p_reliable p)); reflexivity.
Qed.

Lemma run_unreliable : forall cfg evs s l,
  dispatched l false (snd (run cfg s evs)) = unreliable_arrivals evs.
Proof.
  induction evs as [|e r IH]; intros s l; [reflexivity|]. cbn [run].
  assert (He : dispatched l false (snd (step cfg s e)) = unreliable_arrivals [e]).
  { destruct (event_cases e) as [[p ->]|Hne].
    - cbn [step unreliable_arrivals]. rewrite recv_dispatched.
      destruct (accepted p), (p_reliable p); reflexivity.
    - rewrite (proj1 (step_dispatched_other cfg s e l false Hne)).
      destruct e; try reflexivity. now elim (Hne p). }
  destruct (step cfg s e) as [s1 o1]. specialize (IH s1 l). destruct (run cfg s1 r) as [s2 o2].
  cbn [snd] in *. rewrite dispatched_app, He, IH. symmetry. apply unreliable_arrivals_cons.
Qed.

Lemma dispatch_unreliable_always : forall cfg evs l,
  dispatched l false (trace cfg evs) = unreliable_arrivals evs.
Proof. intros. apply run_unreliable. Qed.

(* the deque holds exactly the last W delivered reliable ids *)

Lemma skipn_skipn' : forall {A} (a b : nat) (l : list A), skipn a (skipn b l) = skipn (b + a) l.
Proof.
  intros A a b. induction b as [|b IH]; intros l; [reflexivity|].
  destruct l as [|x l]; [now rewrite !skipn_nil|]. cbn [skipn plus]. apply IH.
Qed.

Lemma lastn_snoc : forall (w : nat) (D : list N) x,
  lastn w (D ++ [x]) = deque_append w x (lastn w D).
Proof.
  intros w D x. unfold lastn, deque_append.
  rewrite !app_length, !skipn_length. cbn [length].
  destruct (le_lt_dec (length D) w) as [Hle|Hgt].
  - replace (length D - w)%nat with 0%nat by lia. cbn [skipn].
    f_equal. lia.
  - replace (length D - (length D - w) + 1 - w)%nat with 1%nat by lia.
    rewrite !skipn_app.
    destruct w as [|w].
    { rewrite !Nat.sub_0_r. rewrite (skipn_all2 D) by lia. rewrite skipn_all.
      replace (length D + 1 - length D)%nat with 1%nat by lia. reflexivity. }
    replace (length D + 1 - S w - length D)%nat with 0%nat by lia.
    rewrite skipn_length.
    replace (1 - (length D - (length D - S w)))%nat with 0%nat by lia.
    rewrite !skipn_O, skipn_skipn'. f_equal. f_equal. lia.
Qed.

Lemma seen_is_window : forall cfg evs,
  st_seen (final cfg evs) = lastn (cf_window cfg) (dispatched Session true (trace cfg evs)).
Proof.
  intros cfg evs. induction evs as [|e evs IH] using rev_ind; [reflexivity|].
  rewrite final_snoc, trace_snoc, dispatched_app.
  destruct (event_cases e) as [[p ->]|Hne];
    [|destruct (step_dispatched_other cfg (final cfg evs) e Session true Hne) as [-> ->]; now rewrite app_nil_r].
  cbn [step]. rewrite recv_dispatched, recv_seen.
  destruct (accepted p), (p_reliable p); cbn [andb negb Bool.eqb]; try (now rewrite app_nil_r).
  destruct (in_seen (p_id p) (st_seen (final cfg evs))); cbn [negb]; [now rewrite app_nil_r|].
  rewrite lastn_snoc, IH. reflexivity.
Qed.

(* a reliable reception is delivered iff its id is not among the last W delivered reliable ids *)
Lemma dispatch_iff : forall cfg evs p l,
  accepted p = true -> p_reliable p = true ->
  (In (ODispatch l (p_id p) true) (snd (step cfg (final cfg evs) (ERecv p))) <->
   ~ In (p_id p) (lastn (cf_window cfg) (dispatched Session true (trace cfg evs)))).
Proof.
  intros cfg evs p l Ha Hr. rewrite <- seen_is_window, <- in_seen_iff.
  cbn [step]. unfold recv, accepted in *.
  destruct (p_known p); [|discriminate]. destruct (p_banned p); [discriminate|]. cbn [negb].
  pose proof (collect_acks_outs (eff_acks p) (st_unacked (final cfg evs))) as Hc.
  destruct (collect_acks (eff_acks p) (st_unacked (final cfg evs))) as [u o1]. cbn [snd] in Hc.
  rewrite Hr. unfold track. fold (in_seen (p_id p) (st_seen (final cfg evs))).
  assert (Hno : ~ In (ODispatch l (p_id p) true) o1).
  { intro Hin. rewrite Forall_forall in Hc. exact (Hc _ Hin). }
  destruct (in_seen (p_id p) (st_seen (final cfg evs))); cbn [snd]; rewrite in_app_iff; cbn [In].
  - split; [|intros H; now elim H]. intros [H|[H|H]]; [now elim Hno | discriminate | contradiction].
  - split; [intros _ H; discriminate|]. intros _. right. right. destruct l; [left|right; left]; reflexivity.
Qed.

(* delivered-id sequences: every element is absent from the W before it *)
Inductive Dseq (w : nat) : list N -> Prop :=
| Dseq_nil : Dseq w []
| Dseq_snoc : forall D x, Dseq w D -> ~ In x (lastn w D) -> Dseq w (D ++ [x]).

Lemma dispatched_Dseq : forall cfg evs, Dseq (cf_window cfg) (dispatched Session true (trace cfg evs)).
Proof.
  intros cfg evs. induction evs as [|e evs IH] using rev_ind; [constructor|].
  rewrite trace_snoc, dispatched_app.
  destruct (event_cases e) as [[p ->]|Hne];
    [|destruct (step_dispatched_other cfg (final cfg evs) e Session true Hne) as [-> _]; now rewrite app_nil_r].
  cbn [step]. rewrite recv_dispatched.
  destruct (accepted p), (p_reliable p); cbn [andb negb Bool.eqb]; try (now rewrite app_nil_r).
  destruct (in_seen (p_id p) (st_seen (final cfg evs))) eqn:Hs; cbn [negb]; [now rewrite app_nil_r|].
  constructor; [exact IH|]. rewrite <- seen_is_window, <- in_seen_iff, Hs. discriminate.
Qed.

Lemma Dseq_window : forall w D, Dseq w D ->
  forall D1 x mid D2, D = D1 ++ x :: mid ++ x :: D2 -> (w <= length mid)%nat.
Proof.
  induction 1 as [|D y HD IH Hy]; intros D1 x mid D2 Heq.
  - destruct D1; discriminate.
  - destruct (list_eq_dec N.eq_dec D2 []) as [->|Hne].
    + (* the second occurrence is the new last element *)
      replace (D1 ++ x :: mid ++ [x]) with ((D1 ++ x :: mid) ++ [x]) in Heq by (now rewrite <- app_assoc).
      apply app_inj_tail in Heq. destruct Heq as [-> ->].
      destruct (le_lt_dec w (length mid)) as [Hle|Hlt]; [exact Hle|]. exfalso. apply Hy.
      unfold lastn. rewrite skipn_app, app_length. cbn [length].
      replace (length D1 + S (length mid) - w - length D1)%nat with 0%nat by lia.
      cbn [skipn]. apply in_or_app. right. now left.
    + destruct (exists_last Hne) as [D2' [z ->]].
      replace (D1 ++ x :: mid ++ x :: D2' ++ [z]) with ((D1 ++ x :: mid ++ x :: D2') ++ [z]) in Heq
        by (rewrite <- app_assoc; cbn [app]; rewrite <- app_assoc; reflexivity).
      apply app_inj_tail in Heq. destruct Heq as [-> _]. eapply IH. reflexivity.
Qed.

Lemma Dseq_incl_nodup : forall w D ids, Dseq w D -> incl D ids -> (length ids <= w)%nat -> NoDup D.
Proof.
  induction 1 as [|D y HD IH Hy]; intros Hincl Hlen; [constructor|].
  assert (HinclD : incl D ids) by (intros z Hz; apply Hincl, in_or_app; now left).
  specialize (IH HinclD Hlen).
  assert (Hnot : ~ In y D).
  { pose proof (NoDup_incl_length IH HinclD) as Hl.
    unfold lastn in Hy. replace (length D - w)%nat with 0%nat in Hy by lia. exact Hy. }
  apply NoDup_rev in IH.
  rewrite <- (rev_involutive (D ++ [y])). apply NoDup_rev. rewrite rev_app_distr. cbn [rev app].
  constructor; [rewrite <- in_rev; exact Hnot | exact IH].
Qed.

Lemma lastn_incl : forall {A} w (l : list A), incl (lastn w l) l.
Proof.
  intros A w l x Hx. unfold lastn in Hx. rewrite <- (firstn_skipn (length l - w) l). apply in_or_app. now right.
Qed.

Lemma reliable_arrivals_app : forall a b, reliable_arrivals (a ++ b) = reliable_arrivals a ++ reliable_arrivals b.
Proof.
  induction a as [|e a IH]; intros b; [reflexivity|]. cbn [app].
  rewrite reliable_arrivals_cons, (reliable_arrivals_cons e a), IH. now rewrite app_assoc.
Qed.

(* delivered ids are exactly the ids that arrived (as sets) *)
Lemma dispatched_arrivals : forall cfg evs x,
  In x (dispatched Session true (trace cfg evs)) <-> In x (reliable_arrivals evs).
Proof.
  intros cfg evs. induction evs as [|e evs IH] using rev_ind; intros x; [reflexivity|].
  rewrite trace_snoc, dispatched_app, reliable_arrivals_app, !in_app_iff, IH.
  destruct (event_cases e) as [[p ->]|Hne];
    [|destruct (step_dispatched_other cfg (final cfg evs) e Session true Hne) as [-> _];
      destruct e; cbn [reliable_arrivals In]; try tauto; now elim (Hne p)].
  cbn [step reliable_arrivals]. rewrite recv_dispatched.
  destruct (accepted p), (p_reliable p); cbn [andb negb Bool.eqb In]; try tauto.
  destruct (in_seen (p_id p) (st_seen (final cfg evs))) eqn:Hs; cbn [negb In]; [|tauto].
  split; [tauto|]. intros [H|[<-|[]]]; [now left|]. left.
  apply in_seen_iff in Hs. rewrite seen_is_window in Hs. apply lastn_incl in Hs. now apply IH.
Qed.

Lemma dispatch_once_window : forall cfg evs D1 x mid D2,
  dispatched Session true (trace cfg evs) = D1 ++ x :: mid ++ x :: D2 -> (cf_window cfg <= length mid)%nat.
Proof. intros cfg evs D1 x mid D2 H. exact (Dseq_window _ _ (dispatched_Dseq cfg evs) _ _ _ _ H). Qed.

Lemma dispatch_exactly_once : forall cfg evs ids,
  incl (reliable_arrivals evs) ids -> (length ids <= cf_window cfg)%nat ->
  NoDup (dispatched Session true (trace cfg evs)) /\
  forall x, In x (reliable_arrivals evs) <-> In x (dispatched Session true (trace cfg evs)).
Proof.
  intros cfg evs ids Hincl Hlen. split.
  - eapply Dseq_incl_nodup; [apply dispatched_Dseq | | exact Hlen].
    intros x Hx. apply Hincl. now apply dispatched_arrivals in Hx.
  - intros x. symmetry. apply dispatched_arrivals.
Qed.

(* the unbounded claim is false: with a 1-entry window, 1 2 1 delivers id 1 twice *)
Definition rel_pkt (id : N) : packet := mkPacket true false true id [] [].
Lemma dispatch_once_unbounded_refuted :
  exists cfg evs, ~ NoDup (dispatched Session true (trace cfg evs)).
Proof.
  exists (mkConfig 1 10 3000), [ERecv (rel_pkt 1); ERecv (rel_pkt 2); ERecv (rel_pkt 1)].
  vm_compute. intro H. inversion H as [|? ? Hn _]. apply Hn. right. now left.
Qed.
