(* History-level statements about completion futures, derived from the invariant. *)
From Coq Require Import NArith List Bool Arith Lia ZifyBool ZifyNat ZifyN.
From HV Require Import Circuit.ClientCircuit Circuit.ClientProofs Circuit.ClientFutures Circuit.ClientInv.
Import ListNotations.
Open Scope N_scope.

Lemma in_trace_split : forall cfg evs o, In o (trace cfg evs) ->
  exists a e b, evs = a ++ e :: b /\ In o (snd (step cfg (final cfg a) e)).
Proof.
  intros cfg evs o. induction evs as [|e evs IH] using rev_ind; intros H; [contradiction|].
  rewrite trace_snoc in H. apply in_app_or in H. destruct H as [H|H].
  - destruct (IH H) as (a & e' & b & -> & Hin). exists a, e', (b ++ [e]). split; [|exact Hin].
    now rewrite <- app_assoc.
  - exists evs, e, []. split; [reflexivity | exact H].
Qed.

Lemma in_trace_of_split : forall cfg a e b o,
  In o (snd (step cfg (final cfg a) e)) -> In o (trace cfg (a ++ e :: b)).
Proof.
  intros cfg a e b o H. rewrite trace_app_cons. apply in_or_app. right. apply in_or_app. now left.
Qed.

(* ---- what one step can complete / retransmit ---- *)

Lemma step_done : forall cfg s tr e h, Inv cfg s tr ->
  (In (ODone h) (snd (step cfg s e)) <->
   exists p id v, e = ERecv p /\ accepted p = true /\ In id (eff_acks p) /\
                  In (id, v) (st_unacked s) /\ ri_fut v = h).
Proof.
  intros cfg s tr e h HI. split.
  - intros H. destruct e as [p|rel syn|syn|d| |]; cbn [step] in H.
    + destruct (accepted p) eqn:Ha.
      * destruct (recv_unfold cfg s p Ha) as (s' & tail & E & _ & _ & _ & _ & Hnone). rewrite E in H. cbn [snd] in H.
        apply in_app_or in H. destruct H as [H|H]; [|specialize (Hnone _ H); discriminate].
        destruct (collect_acks_done_in _ _ _ H) as (k & v & H1 & H2 & H3). exists p, k, v. tauto.
      * unfold accepted in Ha. unfold recv in H. destruct (p_known p); cbn [negb] in *; [|contradiction].
        destruct (p_banned p); [|discriminate]. destruct H as [H|[]]. discriminate.
    + unfold send in H. destruct (rel && syn); cbn [snd In] in H; intuition discriminate.
    + destruct syn; [unfold send in H|]; cbn [snd In andb] in H; intuition discriminate.
    + contradiction.
    + pose proof (resend_loop_outs cfg (st_now s) (st_unacked s) (st_unacked s)) as Hr.
      destruct (resend_loop cfg (st_now s) (st_unacked s) (st_unacked s)) as [u o]. cbn [snd] in *.
      rewrite Forall_forall in Hr. exact (match Hr _ H with end).
    + destruct H as [H|[]]. discriminate.
  - intros (p & id & v & -> & Ha & Hid & Hin & <-). cbn [step].
    destruct (recv_unfold cfg s p Ha) as (s' & tail & E & _). rewrite E. cbn [snd].
    apply in_or_app. left. eapply collect_acks_in_done; eauto. exact (inv_keys _ _ _ HI).
Qed.

Lemma step_resend_outs : forall cfg s tr e o, Inv cfg s tr ->
  is_resend_out o -> In o (snd (step cfg s e)) ->
  e = EResend /\ In o (flat_map (resend_out cfg (st_now s)) (st_unacked s)).
Proof.
  intros cfg s tr e o HI Ho H. destruct e as [p|rel syn|syn|d| |]; cbn [step] in H.
  - exfalso. destruct (accepted p) eqn:Ha.
    + destruct (recv_unfold cfg s p Ha) as (s' & tail & E & _ & _ & _ & _ & Hnone). rewrite E in H. cbn [snd] in H.
      apply in_app_or in H. destruct H as [H|H].
      * pose proof (collect_acks_outs (eff_acks p) (st_unacked s)) as Hc. rewrite Forall_forall in Hc.
        specialize (Hc _ H). destruct o; contradiction.
      * specialize (Hnone _ H). destruct o; try contradiction; discriminate.
    + unfold accepted in Ha. unfold recv in H. destruct (p_known p); cbn [negb] in *; [|contradiction].
      destruct (p_banned p); [|discriminate]. destruct H as [<-|[]]. contradiction.
  - exfalso. unfold send in H. destruct (rel && syn); cbn [snd In] in H;
      repeat (destruct H as [<-|H]; [contradiction|]); contradiction.
  - exfalso. destruct syn; [unfold send in H|]; cbn [snd In andb] in H;
      repeat (destruct H as [<-|H]; [contradiction|]); contradiction.
  - contradiction.
  - split; [reflexivity|]. rewrite (resend_spec cfg (st_now s) _ (inv_keys _ _ _ HI)) in H. exact H.
  - exfalso. destruct H as [<-|[]]. contradiction.
Qed.

Lemma step_failed : forall cfg s tr e h, Inv cfg s tr ->
  (In (OFailed h) (snd (step cfg s e)) <->
   e = EResend /\ exists id v, In (id, v) (st_unacked s) /\ ri_fut v = h /\
                  due cfg (st_now s) v = true /\ final_try v = true).
Proof.
  intros cfg s tr e h HI. split.
  - intros H. destruct (step_resend_outs cfg s tr e (OFailed h) HI I H) as [-> Hin]. split; [reflexivity|].
    apply in_flat_map in Hin. destruct Hin as [[k v] [Hkv Hin]]. unfold resend_out in Hin. cbn [fst snd] in Hin.
    destruct (due cfg (st_now s) v) eqn:Hd; [|contradiction].
    destruct (final_try v) eqn:Hf; destruct Hin as [Hin|[]]; [|discriminate].
    injection Hin as <-. exists k, v. tauto.
  - intros (-> & id & v & Hin & <- & Hd & Hf). cbn [step].
    rewrite (resend_spec cfg (st_now s) _ (inv_keys _ _ _ HI)). cbn [snd].
    apply in_flat_map. exists (id, v). split; [exact Hin|]. unfold resend_out. cbn [fst snd]. rewrite Hd, Hf. now left.
Qed.

Lemma step_resent : forall cfg s tr e h id t, Inv cfg s tr ->
  (In (OResent h id t) (snd (step cfg s e)) <->
   e = EResend /\ t = st_now s /\ exists v, In (id, v) (st_unacked s) /\ ri_fut v = h /\
                  due cfg (st_now s) v = true /\ final_try v = false).
Proof.
  intros cfg s tr e h id t HI. split.
  - intros H. destruct (step_resend_outs cfg s tr e (OResent h id t) HI I H) as [-> Hin]. split; [reflexivity|].
    apply in_flat_map in Hin. destruct Hin as [[k v] [Hkv Hin]]. unfold resend_out in Hin. cbn [fst snd] in Hin.
    destruct (due cfg (st_now s) v) eqn:Hd; [|contradiction].
    destruct (final_try v) eqn:Hf; destruct Hin as [Hin|[]]; [discriminate|].
    injection Hin as <- <- <-. split; [reflexivity|]. exists v. tauto.
  - intros (-> & -> & v & Hin & <- & Hd & Hf). cbn [step].
    rewrite (resend_spec cfg (st_now s) _ (inv_keys _ _ _ HI)). cbn [snd].
    apply in_flat_map. exists (id, v). split; [exact Hin|]. unfold resend_out. cbn [fst snd]. rewrite Hd, Hf. now left.
Qed.

(* ---- pending = has an entry in the table ---- *)

Lemma pending_iff_entry : forall cfg evs h id, cfg_ok cfg ->
  (pending_after cfg evs h id <-> exists v, In (id, v) (st_unacked (final cfg evs)) /\ ri_fut v = h).
Proof.
  intros cfg evs h id Hcfg. pose proof (Inv_reach cfg evs Hcfg) as HI. unfold pending_after, tracked_in.
  rewrite <- (final_epoch cfg evs). split.
  - intros [[t Ht] [Hd Hf]]. eapply (inv_pending _ _ _ HI); [exact Ht|]. apply ncompl_zero_iff. tauto.
  - intros [v [Hin <-]]. destruct (inv_entries _ _ _ HI _ _ Hin) as (Ht & Hc & _).
    apply ncompl_zero_iff in Hc. tauto.
Qed.

(* ---- completes_iff ---- *)

Lemma completes_done_iff : forall cfg evs h, cfg_ok cfg ->
  (In (ODone h) (trace cfg evs) <->
   exists evs1 p evs2 id,
     evs = evs1 ++ ERecv p :: evs2 /\ accepted p = true /\ In id (eff_acks p) /\
     pending_after cfg evs1 h id).
Proof.
  intros cfg evs h Hcfg. split.
  - intros H. destruct (in_trace_split _ _ _ H) as (a & e & b & -> & Hin).
    apply (step_done cfg _ _ e h (Inv_reach cfg a Hcfg)) in Hin.
    destruct Hin as (p & id & v & -> & Ha & Hid & Hv & Hf).
    exists a, p, b, id. split; [reflexivity|]. split; [exact Ha|]. split; [exact Hid|]. apply pending_iff_entry; eauto.
  - intros (evs1 & p & evs2 & id & -> & Ha & Hid & Hp).
    apply pending_iff_entry in Hp; [|exact Hcfg]. destruct Hp as [v [Hv Hf]].
    apply in_trace_of_split. apply (step_done cfg _ _ _ h (Inv_reach cfg evs1 Hcfg)).
    exists p, id, v. tauto.
Qed.

Lemma entry_budget : forall cfg evs id v, cfg_ok cfg ->
  In (id, v) (st_unacked (final cfg evs)) ->
  (due cfg (st_now (final cfg evs)) v = true <->
   cf_every cfg <= clock evs - last_tx (ri_fut v) (trace cfg evs) 0) /\
  (final_try v = true <-> nresent (ri_fut v) (trace cfg evs) + 1 = cf_tries cfg).
Proof.
  intros cfg evs id v Hcfg Hin.
  destruct (inv_entries _ _ _ (Inv_reach cfg evs Hcfg) _ _ Hin) as (_ & _ & Htr & H1 & Hl & _).
  unfold due, final_try. rewrite final_now, Hl. split.
  - rewrite negb_true_iff, N.ltb_ge. tauto.
  - rewrite N.eqb_eq. lia.
Qed.

Lemma completes_failed_iff : forall cfg evs h, cfg_ok cfg ->
  (In (OFailed h) (trace cfg evs) <->
   exists evs1 evs2 id,
     evs = evs1 ++ EResend :: evs2 /\ pending_after cfg evs1 h id /\
     cf_every cfg <= clock evs1 - last_tx h (trace cfg evs1) 0 /\
     nresent h (trace cfg evs1) + 1 = cf_tries cfg).
Proof.
  intros cfg evs h Hcfg. split.
  - intros H. destruct (in_trace_split _ _ _ H) as (a & e & b & -> & Hin).
    apply (step_failed cfg _ _ e h (Inv_reach cfg a Hcfg)) in Hin.
    destruct Hin as (-> & id & v & Hv & <- & Hd & Hf).
    destruct (entry_budget cfg a id v Hcfg Hv) as [B1 B2].
    exists a, b, id. split; [reflexivity|]. split; [apply pending_iff_entry; eauto|]. split; [now apply B1 | now apply B2].
  - intros (evs1 & evs2 & id & -> & Hp & Hdue & Hbud).
    apply pending_iff_entry in Hp; [|exact Hcfg]. destruct Hp as [v [Hv <-]].
    destruct (entry_budget cfg evs1 id v Hcfg Hv) as [B1 B2].
    apply in_trace_of_split. apply (step_failed cfg _ _ _ _ (Inv_reach cfg evs1 Hcfg)).
    split; [reflexivity|]. exists id, v. repeat split; try assumption; [now apply B1 | now apply B2].
Qed.

(* a pending send is retransmitted by exactly the due resend calls that leave budget *)
Lemma retransmit_iff : forall cfg evs e h id t, cfg_ok cfg ->
  (In (OResent h id t) (snd (step cfg (final cfg evs) e)) <->
   e = EResend /\ t = clock evs /\ pending_after cfg evs h id /\
   cf_every cfg <= clock evs - last_tx h (trace cfg evs) 0 /\
   nresent h (trace cfg evs) + 1 < cf_tries cfg).
Proof.
  intros cfg evs e h id t Hcfg. rewrite (step_resent cfg _ _ e h id t (Inv_reach cfg evs Hcfg)).
  rewrite final_now. split.
  - intros (-> & -> & v & Hv & <- & Hd & Hf).
    destruct (entry_budget cfg evs id v Hcfg Hv) as [B1 B2].
    destruct (inv_entries _ _ _ (Inv_reach cfg evs Hcfg) _ _ Hv) as (_ & _ & Htr & H1 & _).
    split; [reflexivity|]. split; [reflexivity|]. split; [apply pending_iff_entry; eauto|]. split.
    + apply B1. now rewrite final_now.
    + unfold final_try in Hf. apply N.eqb_neq in Hf. lia.
  - intros (-> & -> & Hp & Hdue & Hbud).
    apply pending_iff_entry in Hp; [|exact Hcfg]. destruct Hp as [v [Hv <-]].
    destruct (entry_budget cfg evs id v Hcfg Hv) as [B1 B2]. rewrite final_now in B1.
    repeat split; try reflexivity. exists v. repeat split; try assumption; [now apply B1|].
    destruct (final_try v) eqn:Hf; [|reflexivity]. pose proof (proj1 B2 eq_refl). lia.
Qed.

(* ---- at most one completion per future; never both ---- *)

Lemma complete_once : forall cfg evs h, cfg_ok cfg -> (ncompl h (trace cfg evs) <= 1)%nat.
Proof. intros cfg evs h Hcfg. exact (inv_once _ _ _ (Inv_reach cfg evs Hcfg) h). Qed.

Lemma never_both : forall cfg evs h, cfg_ok cfg ->
  In (ODone h) (trace cfg evs) -> In (OFailed h) (trace cfg evs) -> False.
Proof.
  intros cfg evs h Hcfg Hd Hf. pose proof (complete_once cfg evs h Hcfg) as H1.
  apply in_split in Hd. destruct Hd as (l1 & l2 & E). rewrite E in Hf, H1.
  rewrite ncompl_app in H1. cbn [ncompl] in H1. rewrite Nat.eqb_refl in H1.
  apply in_app_or in Hf. destruct Hf as [Hf|[Hf|Hf]]; [|discriminate|].
  - assert (1 <= ncompl h l1)%nat by (apply ncompl_pos_iff; now right). lia.
  - assert (1 <= ncompl h l2)%nat by (apply ncompl_pos_iff; now right). lia.
Qed.

(* ---- no retransmission once completed: an event that retransmits h leaves h uncompleted ---- *)

Lemma no_resend_after : forall cfg evs e h id t, cfg_ok cfg ->
  In (OResent h id t) (snd (step cfg (final cfg evs) e)) ->
  ~ In (ODone h) (trace cfg (evs ++ [e])) /\ ~ In (OFailed h) (trace cfg (evs ++ [e])).
Proof.
  intros cfg evs e h id t Hcfg H. apply ncompl_zero_iff.
  pose proof (Inv_reach cfg evs Hcfg) as HI.
  apply (step_resent cfg _ _ e h id t HI) in H. destruct H as (-> & -> & v & Hv & <- & Hd & Hf).
  pose proof (Inv_reach cfg (evs ++ [EResend]) Hcfg) as HI2.
  assert (Hin : In (id, mkInfo (st_now (final cfg evs)) (ri_tries v - 1) (ri_fut v))
                   (st_unacked (final cfg (evs ++ [EResend])))).
  { rewrite final_snoc. cbn [step]. rewrite (resend_spec cfg _ _ (inv_keys _ _ _ HI)). cbn [fst st_unacked].
    apply in_flat_map. exists (id, v). split; [exact Hv|]. unfold resend_entry. cbn [fst snd]. rewrite Hd, Hf. now left. }
  destruct (inv_entries _ _ _ HI2 _ _ Hin) as (_ & Hc & _). exact Hc.
Qed.

(* futures are created by exactly the reliable sends we originate, numbered in order *)
Lemma tracked_iff : forall cfg evs e h id ep t, cfg_ok cfg ->
  (In (OTracked h id ep t) (snd (step cfg (final cfg evs) e)) <->
   (e = ESend true true \/ e = ESendReliable true) /\
   h = st_nfut (final cfg evs) /\ id = st_next (final cfg evs) /\ ep = count_disc evs /\ t = clock evs).
Proof.
  intros cfg evs e h id ep t Hcfg. rewrite <- final_epoch with (cfg := cfg), <- final_now with (cfg := cfg).
  set (s := final cfg evs). pose proof (Inv_reach cfg evs Hcfg) as HI. fold s in HI. split.
  - intros H. destruct e as [p|rel syn|syn|d| |]; cbn [step] in H.
    + exfalso. destruct (accepted p) eqn:Ha.
      * destruct (recv_unfold cfg s p Ha) as (s' & tail & E & _ & _ & _ & _ & Hnone). rewrite E in H. cbn [snd] in H.
        apply in_app_or in H. destruct H as [H|H]; [|specialize (Hnone _ H); discriminate].
        pose proof (collect_acks_outs (eff_acks p) (st_unacked s)) as Hc. rewrite Forall_forall in Hc.
        exact (Hc _ H).
      * unfold accepted in Ha. unfold recv in H. destruct (p_known p); cbn [negb] in *; [|contradiction].
        destruct (p_banned p); [|discriminate]. destruct H as [H|[]]. discriminate.
    + unfold send in H. destruct rel, syn; cbn [andb snd In] in H; try (intuition discriminate).
      destruct H as [H|[H|[]]]; [|discriminate]. injection H as <- <- <- <-. tauto.
    + destruct syn; [unfold send in H|]; cbn [andb snd In] in H; try (intuition discriminate).
      destruct H as [H|[H|[]]]; [|discriminate]. injection H as <- <- <- <-. tauto.
    + contradiction.
    + exfalso. pose proof (resend_loop_outs cfg (st_now s) (st_unacked s) (st_unacked s)) as Hr.
      destruct (resend_loop cfg (st_now s) (st_unacked s) (st_unacked s)) as [u o]. cbn [snd] in *.
      rewrite Forall_forall in Hr. exact (Hr _ H).
    + destruct H as [H|[]]. discriminate.
  - intros ([-> | ->] & -> & -> & -> & ->); cbn [step]; unfold send; cbn [andb snd]; now left.
Qed.
