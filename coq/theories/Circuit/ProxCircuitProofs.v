(* Proofs about the proxied-circuit model (Circuit/ProxCircuit.v). *)
From Coq Require Import ZArith List Bool Lia.
From HV Require Import Inj.InjTracker Inj.InjTrackerProofs Circuit.ProxCircuit.
Import ListNotations.
Open Scope Z_scope.

(* ------------------------------------------------------------------ *)
(* small facts *)

Lemma dir_eqb_eq : forall a b, dir_eqb a b = true <-> a = b.
Proof. intros [] []; cbn; split; congruence. Qed.

Lemma dir_eqb_refl : forall a, dir_eqb a a = true.
Proof. intros []; reflexivity. Qed.

Lemma inv_dir_neq : forall d, dir_eqb (inv_dir d) d = false.
Proof. intros []; reflexivity. Qed.

Lemma inv_dir_invol : forall d, inv_dir (inv_dir d) = d.
Proof. intros []; reflexivity. Qed.

Lemma key_eqb_eq : forall a b, key_eqb a b = true <-> a = b.
Proof.
  intros [d1 i1] [d2 i2]. unfold key_eqb. cbn [fst snd].
  rewrite andb_true_iff, dir_eqb_eq, Z.eqb_eq. split.
  - intros (-> & ->); reflexivity.
  - intros H; injection H; auto.
Qed.

Definition keys (u : list ((dir * Z) * rinfo)) : list (dir * Z) := map fst u.

Lemma dict_has_In : forall u k, dict_has u k = true <-> In k (keys u).
Proof.
  intros u k. unfold dict_has, keys. rewrite existsb_exists, in_map_iff. split.
  - intros (e & He & Hk). apply key_eqb_eq in Hk. exists e. auto.
  - intros (e & Hk & He). exists e. split; auto. apply key_eqb_eq; auto.
Qed.

Lemma keys_dict_del : forall u k k', In k' (keys (dict_del u k)) <-> In k' (keys u) /\ k' <> k.
Proof.
  intros u k k'. unfold keys, dict_del. rewrite !in_map_iff. split.
  - intros (e & He & Hi). apply filter_In in Hi as (Hi & Hn). split; [exists e; auto|].
    intros ->. subst k. rewrite (proj2 (key_eqb_eq _ _) eq_refl) in Hn. discriminate.
  - intros ((e & He & Hi) & Hn). exists e. split; auto. apply filter_In. split; auto.
    destruct (key_eqb (fst e) k) eqn:E; auto. apply key_eqb_eq in E. congruence.
Qed.

Lemma dict_del_In : forall u k e, In e (dict_del u k) -> In e u.
Proof. intros u k e H. apply filter_In in H. tauto. Qed.

Lemma keys_dict_set : forall u k v k', In k' (keys (dict_set u k v)) <-> In k' (keys u) \/ k' = k.
Proof.
  induction u as [|[k0 v0] t IH]; intros k v k'; cbn [dict_set keys map fst].
  - cbn. split; [intros [<-|[]]; auto | intros [[]| -> ]; auto].
  - destruct (key_eqb k0 k) eqn:E; cbn [keys map fst In].
    + apply key_eqb_eq in E. subst k0. fold (keys t). cbn. split; [intros [<-|H]; auto | intros [[<-|H]| -> ]; auto].
    + fold (keys (dict_set t k v)) (keys t). rewrite IH. tauto.
Qed.

Lemma dict_set_In : forall u k v e, In e (dict_set u k v) -> In e u \/ e = (k, v).
Proof.
  induction u as [|[k0 v0] t IH]; intros k v e; cbn [dict_set].
  - intros [<-|[]]; auto.
  - destruct (key_eqb k0 k); cbn [In].
    + intros [<-|H]; auto.
    + intros [<-|H]; auto. destruct (IH _ _ _ H); auto.
Qed.

(* ------------------------------------------------------------------ *)
(* rewrite_acks: exactly the translated non-injected acks, each once, in order *)

Lemma rewrite_acks_In : forall rev l a,
  In a (rewrite_acks rev l) <->
  exists w, In w l /\ was_injected rev w = false /\ orig rev w = Some a.
Proof.
  intros rev l a. unfold rewrite_acks. rewrite in_flat_map. split.
  - intros (w & Hw & Ha). exists w. split; auto.
    destruct (was_injected rev w); [destruct Ha|].
    destruct (orig rev w) as [o|]; [|destruct Ha]. destruct Ha as [<-|[]]. auto.
  - intros (w & Hw & Hi & Ho). exists w. split; auto. rewrite Hi, Ho. cbn; auto.
Qed.

(* orig never fails on an ID that is not in the window *)
Lemma orig_some : forall rev w, was_injected rev w = false -> exists o, orig rev w = Some o.
Proof.
  intros rev w H. unfold orig. unfold was_injected in H. rewrite H. eauto.
Qed.

Definition orig_d (rev : tracker) (w : Z) : Z :=
  match orig rev w with Some o => o | None => 0 end.

(* the list form: map of the translation over the filtered acks: every non-injected ack
   is delivered exactly once and in order, every injected one is removed *)
Lemma rewrite_acks_map : forall rev l,
  rewrite_acks rev l = map (orig_d rev) (filter (fun w => negb (was_injected rev w)) l).
Proof.
  intros rev l. unfold rewrite_acks. induction l as [|w l IH]; [reflexivity|].
  cbn [flat_map filter]. destruct (was_injected rev w) eqn:E; cbn [negb app].
  - exact IH.
  - destruct (orig_some rev w E) as (o & Ho). rewrite Ho. cbn [map app].
    f_equal; [unfold orig_d; rewrite Ho; reflexivity|exact IH].
Qed.

(* ------------------------------------------------------------------ *)
(* the trackers of a circuit are C04 runs *)

Definition ops_of (d : dir) (ev : event) : list op :=
  match ev with
  | Recv m => if dir_eqb (r_dir m) d then [Fwd (r_pid m)] else []
  | RecvDrop m =>
      (if dir_eqb (r_dir m) d then [Drop (r_pid m)] else []) ++
      (if r_rel m && dir_eqb (inv_dir (r_dir m)) d then [Inject] else [])
  | Inj d' _ _ => if dir_eqb d' d then [Inject] else []
  | Tick _ => []
  end.

Lemma fwd_tr_set_fwd_same : forall st d t, fwd_tr (set_fwd st d t) d = t.
Proof. intros st [] t; reflexivity. Qed.

Lemma fwd_tr_set_fwd_other : forall st d t, fwd_tr (set_fwd st d t) (inv_dir d) = fwd_tr st (inv_dir d).
Proof. intros st [] t; reflexivity. Qed.

Lemma fwd_tr_set_unacked : forall st u d, fwd_tr (set_unacked st u) d = fwd_tr st d.
Proof. intros st u []; reflexivity. Qed.

Lemma unacked_set_fwd : forall st d t, unacked (set_fwd st d t) = unacked st.
Proof. intros st [] t; reflexivity. Qed.

Lemma now_set_fwd : forall st d t, now (set_fwd st d t) = now st.
Proof. intros st [] t; reflexivity. Qed.

Lemma every_set_fwd : forall st d t, every (set_fwd st d t) = every st.
Proof. intros st [] t; reflexivity. Qed.

Lemma dir_cases : forall d d', d' = d \/ d' = inv_dir d.
Proof. intros [] []; auto. Qed.

Lemma collect_acks_trackers : forall st m d, fwd_tr (fst (collect_acks st m)) d = fwd_tr st d.
Proof.
  intros st m d. unfold collect_acks.
  destruct (collect (unacked st) (inv_dir (r_dir m)) (all_acks m)) as [u s]. cbn [fst].
  apply fwd_tr_set_unacked.
Qed.

Lemma send_injected_trackers : forall st d rel k d',
  fwd_tr (fst (send_injected st d rel k)) d' =
  if dir_eqb d d' then fst (gen (fwd_tr st d)) else fwd_tr st d'.
Proof.
  intros st d rel k d'. unfold send_injected.
  destruct (gen (fwd_tr st d)) as [t' id] eqn:G. cbn [fst].
  assert (H : forall s, fwd_tr (if rel then set_unacked s (dict_set (unacked s) (d, id)
             (mkRI (now s) TRIES (mkE d id rel false [] k true))) else s) d' = fwd_tr s d').
  { intros s. destruct rel; [apply fwd_tr_set_unacked|reflexivity]. }
  rewrite H. destruct d, d'; reflexivity.
Qed.

Lemma send_forward_trackers : forall st m d',
  fwd_tr (fst (send_forward st m)) d' =
  if dir_eqb (r_dir m) d' then fst (fwd (fwd_tr st (r_dir m)) (r_pid m)) else fwd_tr st d'.
Proof.
  intros st m d'. unfold send_forward, fwd. cbn [fst].
  set (st1 := set_fwd st (r_dir m) _).
  assert (H : fwd_tr st1 d' = if dir_eqb (r_dir m) d'
              then track_seen (fwd_tr st (r_dir m)) (eff (fwd_tr st (r_dir m)) (r_pid m))
              else fwd_tr st d').
  { unfold st1. destruct (r_dir m), d'; reflexivity. }
  destruct (r_kind m) as [|ids|o]; cbn [fst]; auto.
  destruct (rewrite_acks (rev_tr st (r_dir m)) ids); [destruct (rewrite_acks (rev_tr st (r_dir m)) (r_acks m))|]; cbn [fst]; auto.
Qed.

Lemma drop_message_trackers : forall st m d',
  fwd_tr (fst (drop_message st m)) d' = run (fwd_tr st d') (ops_of d' (RecvDrop m)).
Proof.
  intros st m d'. unfold drop_message.
  set (d := r_dir m). set (st1 := set_fwd st d (mark_dropped (fwd_tr st d) (r_pid m))).
  assert (H1 : fwd_tr st1 d' = run (fwd_tr st d') (if dir_eqb d d' then [Drop (r_pid m)] else [])).
  { unfold st1. destruct d, d'; reflexivity. }
  destruct (r_rel m) eqn:R.
  - destruct (send_injected st1 (inv_dir d) false (PacketAck [r_pid m])) as [st2 e1] eqn:S.
    assert (H2 : fwd_tr st2 d' = if dir_eqb (inv_dir d) d' then fst (gen (fwd_tr st1 (inv_dir d))) else fwd_tr st1 d').
    { replace st2 with (fst (send_injected st1 (inv_dir d) false (PacketAck [r_pid m]))) by (rewrite S; reflexivity).
      apply send_injected_trackers. }
    assert (H3 : fwd_tr st2 d' = run (fwd_tr st d') (ops_of d' (RecvDrop m))).
    { rewrite H2. unfold ops_of. fold d. rewrite R. cbn [andb]. unfold run.
      destruct d, d'; cbn [dir_eqb inv_dir app fold_left]; unfold st1; reflexivity. }
    destruct (rewrite_acks (rev_tr st2 d) (r_acks m)); cbn [fst]; exact H3.
  - assert (H3 : fwd_tr st1 d' = run (fwd_tr st d') (ops_of d' (RecvDrop m))).
    { rewrite H1. unfold ops_of. fold d. rewrite R. cbn [andb]. rewrite app_nil_r. reflexivity. }
    destruct (rewrite_acks (rev_tr st1 d) (r_acks m)); cbn [fst]; exact H3.
Qed.

Definition next (st : pc) (ev : event) : pc := fst (fst (step st ev)).

Lemma step_trackers : forall st ev d,
  fwd_tr (next st ev) d = run (fwd_tr st d) (ops_of d ev).
Proof.
  intros st ev d. unfold next. destruct ev as [m|m|d' rel k|dt]; cbn [step].
  - destruct (collect_acks st m) as [st1 ss] eqn:C.
    destruct (send_forward st1 m) as [st2 es] eqn:S. cbn [fst].
    replace st2 with (fst (send_forward st1 m)) by (rewrite S; reflexivity).
    rewrite send_forward_trackers.
    replace st1 with (fst (collect_acks st m)) by (rewrite C; reflexivity).
    rewrite !collect_acks_trackers. unfold ops_of.
    destruct (dir_eqb (r_dir m) d) eqn:E.
    + apply dir_eqb_eq in E. subst d. reflexivity.
    + reflexivity.
  - destruct (collect_acks st m) as [st1 ss] eqn:C.
    destruct (drop_message st1 m) as [st2 es] eqn:S. cbn [fst].
    replace st2 with (fst (drop_message st1 m)) by (rewrite S; reflexivity).
    rewrite drop_message_trackers.
    replace st1 with (fst (collect_acks st m)) by (rewrite C; reflexivity).
    rewrite collect_acks_trackers. reflexivity.
  - destruct (send_injected st d' rel k) as [st1 es] eqn:S. cbn [fst].
    replace st1 with (fst (send_injected st d' rel k)) by (rewrite S; reflexivity).
    rewrite send_injected_trackers. unfold ops_of.
    destruct (dir_eqb d' d) eqn:E; [apply dir_eqb_eq in E; subst d'|]; reflexivity.
  - destruct (resend (now st + dt) (every st) (unacked st)) as [[u es] ss]. cbn [fst].
    destruct d; reflexivity.
Qed.

Lemma run_app : forall h1 h2 t, run t (h1 ++ h2) = run (run t h1) h2.
Proof. intros. unfold run. apply fold_left_app. Qed.

Lemma run_state_trackers : forall evs st d,
  fwd_tr (run_state st evs) d = run (fwd_tr st d) (flat_map (ops_of d) evs).
Proof.
  induction evs as [|ev evs IH]; intros st d; [reflexivity|].
  cbn [flat_map]. rewrite run_app. unfold run_state in *. cbn [fold_left].
  rewrite IH. fold (next st ev). rewrite step_trackers. reflexivity.
Qed.

(* the ghost of direction d after a circuit history *)
Definition ghost (m : nat) (d : dir) (evs : list event) : gstate :=
  grun (ginit 0 m) (flat_map (ops_of d) evs).

Lemma ghost_tracker : forall m e evs d,
  tr (ghost m d evs) = fwd_tr (run_state (pc_init m e) evs) d.
Proof.
  intros m e evs d. unfold ghost. rewrite tr_grun, run_state_trackers.
  destruct d; reflexivity.
Qed.

Lemma ghost_Inv : forall m d evs, Inv (ghost m d evs).
Proof. intros. unfold ghost. apply Inv_grun, Inv_init. Qed.

(* ------------------------------------------------------------------ *)
(* provenance of every acknowledgement the proxy shows an endpoint *)

Definition kind_ids (k : kind) : list Z := match k with PacketAck ids => ids | _ => [] end.
Definition shown_acks (e : emit) : list Z := e_acks e ++ kind_ids (e_kind e).

Definition has_source (rev : tracker) (m : rmsg) (a : Z) : Prop :=
  exists w, In w (all_acks m) /\ was_injected rev w = false /\ orig rev w = Some a.

Lemma send_forward_sources : forall st m e a,
  In e (snd (send_forward st m)) -> In a (shown_acks e) ->
  e_dir e = r_dir m /\ e_syn e = false /\ has_source (rev_tr st (r_dir m)) m a.
Proof.
  intros st m e a He Ha. unfold send_forward in He.
  set (rev := rev_tr st (r_dir m)) in *.
  assert (Hacks : forall x, In x (rewrite_acks rev (r_acks m)) -> has_source rev m x).
  { intros x Hx. apply rewrite_acks_In in Hx as (w & Hw & H1 & H2).
    exists w. split; auto. unfold all_acks. apply in_or_app; auto. }
  destruct (r_kind m) as [|ids|o] eqn:K; cbn [snd] in He.
  - destruct He as [<-|[]]. unfold shown_acks in Ha. cbn in Ha. rewrite app_nil_r in Ha. auto.
  - assert (Hids : forall x, In x (rewrite_acks rev ids) -> has_source rev m x).
    { intros x Hx. apply rewrite_acks_In in Hx as (w & Hw & H1 & H2).
      exists w. split; auto. unfold all_acks. rewrite K. apply in_or_app; auto. }
    destruct (rewrite_acks rev ids) as [|n nb] eqn:N.
    + destruct (rewrite_acks rev (r_acks m)) as [|x xs] eqn:A; cbn [snd] in He; [destruct He|].
      destruct He as [<-|[]]. unfold shown_acks in Ha. cbn [e_acks e_kind kind_ids e_dir e_syn] in *.
      rewrite app_nil_r in Ha. auto.
    + cbn [snd] in He. destruct He as [<-|[]]. unfold shown_acks in Ha.
      cbn [e_acks e_kind kind_ids e_dir e_syn] in *.
      apply in_app_or in Ha as [Ha|Ha]; auto.
  - destruct He as [<-|[]]. unfold shown_acks in Ha. cbn in Ha. rewrite app_nil_r in Ha. auto.
Qed.

Lemma send_injected_emits : forall st d rel k e,
  In e (snd (send_injected st d rel k)) ->
  e = mkE d (snd (gen (fwd_tr st d))) rel false [] k true.
Proof.
  intros st d rel k e. unfold send_injected.
  destruct (gen (fwd_tr st d)) as [t' id]. cbn [snd]. intros [<-|[]]. reflexivity.
Qed.

(* what a drop emits: the proxy's own ack of the dropped reliable packet towards its
   sender, and the packet's piggy-backed acks, translated, towards the other side *)
Lemma drop_message_sources : forall st m e a,
  In e (snd (drop_message st m)) -> In a (shown_acks e) ->
  (e_dir e = inv_dir (r_dir m) /\ r_rel m = true /\ a = r_pid m /\ e_kind e = PacketAck [r_pid m] /\ e_acks e = []) \/
  (e_dir e = r_dir m /\ e_acks e = [] /\
   exists w, In w (r_acks m) /\
     was_injected (rev_tr (fst (drop_message st m)) (r_dir m)) w = false /\
     orig (rev_tr (fst (drop_message st m)) (r_dir m)) w = Some a).
Proof.
  intros st m e a He Ha. unfold drop_message in *.
  set (d := r_dir m) in *. set (st1 := set_fwd st d (mark_dropped (fwd_tr st d) (r_pid m))) in *.
  destruct (r_rel m) eqn:R.
  - destruct (send_injected st1 (inv_dir d) false (PacketAck [r_pid m])) as [st2 e1] eqn:S.
    assert (He1 : forall x, In x e1 -> x = mkE (inv_dir d) (snd (gen (fwd_tr st1 (inv_dir d)))) false false [] (PacketAck [r_pid m]) true).
    { intros x Hx. apply (send_injected_emits st1 (inv_dir d) false (PacketAck [r_pid m])). rewrite S. exact Hx. }
    destruct (rewrite_acks (rev_tr st2 d) (r_acks m)) as [|x xs] eqn:A; cbn [snd fst] in *.
    + left. rewrite (He1 e He) in *. unfold shown_acks in Ha. cbn in Ha. destruct Ha as [<-|[]].
      cbn. auto.
    + apply in_app_or in He as [He|[<-|[]]].
      * left. rewrite (He1 e He) in *. unfold shown_acks in Ha. cbn in Ha. destruct Ha as [<-|[]]. cbn. auto.
      * right. unfold shown_acks in Ha. cbn [e_acks e_kind kind_ids app e_dir] in *.
        split; auto. split; auto. rewrite <- A in Ha. apply rewrite_acks_In in Ha. exact Ha.
  - destruct (rewrite_acks (rev_tr st1 d) (r_acks m)) as [|x xs] eqn:A; cbn [snd fst] in *; [destruct He|].
    destruct He as [<-|[]]. right. unfold shown_acks in Ha. cbn [e_acks e_kind kind_ids app e_dir] in *.
    split; auto. split; auto. rewrite <- A in Ha. apply rewrite_acks_In in Ha. exact Ha.
Qed.

(* ------------------------------------------------------------------ *)
(* resend discipline *)

Definition due (nw ev : Z) (ri : rinfo) : bool := negb (nw - ri_last ri <? ev).

Definition resent_of (e : emit) : emit :=
  mkE (e_dir e) (e_id e) (e_rel e) true (e_acks e) (e_kind e) (e_syn e).

(* resend_unacked in closed form *)
Lemma resend_spec : forall nw ev snap,
  let '(u, es, ss) := resend nw ev snap in
  es = map (fun p => resent_of (ri_msg (snd p)))
           (filter (fun p => due nw ev (snd p) && negb (ri_tries (snd p) - 1 =? 0)) snap) /\
  ss = map (fun p => TimedOut (fst (fst p)) (snd (fst p)))
           (filter (fun p => due nw ev (snd p) && (ri_tries (snd p) - 1 =? 0)) snap) /\
  u = flat_map (fun p => if due nw ev (snd p)
                         then if ri_tries (snd p) - 1 =? 0 then []
                              else [(fst p, mkRI nw (ri_tries (snd p) - 1) (ri_msg (snd p)))]
                         else [p]) snap.
Proof.
  intros nw ev snap. induction snap as [|[k ri] t IH]; cbn [resend]; [auto|].
  destruct (resend nw ev t) as [[u es] ss]. destruct IH as (E1 & E2 & E3).
  cbn [filter map flat_map fst snd].
  assert (Hd : due nw ev ri = negb (nw - ri_last ri <? ev)) by reflexivity.
  destruct (nw - ri_last ri <? ev) eqn:D; cbn [negb] in Hd; rewrite Hd; cbn [negb andb app].
  - subst. auto.
  - destruct (ri_tries ri - 1 =? 0) eqn:T; cbn [negb map app fst snd]; subst; auto.
Qed.

(* well-formedness of the unacked table *)
Definition entry_ok (st : pc) (p : (dir * Z) * rinfo) : Prop :=
  let '((d, id), ri) := p in
  e_dir (ri_msg ri) = d /\ e_id (ri_msg ri) = id /\ e_rel (ri_msg ri) = true /\
  e_syn (ri_msg ri) = true /\ e_resent (ri_msg ri) = false /\
  1 <= ri_tries ri <= TRIES /\ id <= pbase (fwd_tr st d).

Definition UInv (st : pc) : Prop :=
  NoDup (keys (unacked st)) /\ forall p, In p (unacked st) -> entry_ok st p.

Lemma UInv_init : forall m e, UInv (pc_init m e).
Proof. intros. split; [constructor|intros p []]. Qed.

Lemma NoDup_keys_del : forall u k, NoDup (keys u) -> NoDup (keys (dict_del u k)).
Proof.
  induction u as [|[k0 v0] t IH]; intros k H; cbn [dict_del filter]; [constructor|].
  inversion H as [|? ? Hn Ht]; subst.
  destruct (negb (key_eqb (fst (k0, v0)) k)); cbn [keys map fst].
  - constructor.
    + intros Hi. apply Hn. fold (keys (dict_del t k)) in Hi. apply keys_dict_del in Hi. tauto.
    + apply IH, Ht.
  - apply IH, Ht.
Qed.

Lemma collect_sub : forall acks u d,
  (forall p, In p (fst (collect u d acks)) -> In p u) /\
  (NoDup (keys u) -> NoDup (keys (fst (collect u d acks)))).
Proof.
  induction acks as [|a t IH]; intros u d; cbn [collect fst]; [auto|].
  destruct (dict_has u (d, a)).
  - destruct (collect (dict_del u (d, a)) d t) as [u' s] eqn:C. cbn [fst].
    destruct (IH (dict_del u (d, a)) d) as (I1 & I2). rewrite C in I1, I2. cbn [fst] in I1, I2. split.
    + intros p Hp. eapply dict_del_In. apply I1, Hp.
    + intros Hn. apply I2, NoDup_keys_del, Hn.
  - apply IH.
Qed.

(* pbase never decreases *)
Lemma run_pbase_mono : forall h t, pbase t <= pbase (run t h).
Proof.
  induction h as [|o h IH]; intros t; [cbn; lia|].
  unfold run in *. cbn [fold_left]. specialize (IH (InjTracker.step t o)).
  assert (pbase t <= pbase (InjTracker.step t o)).
  { unfold InjTracker.step, step_out. destruct o as [x| |x]; cbn [fst].
    - unfold fwd. cbn [fst]. rewrite track_seen_pbase. lia.
    - unfold gen. cbn [fst]. rewrite track_seen_pbase. cbn [pbase]. lia.
    - unfold mark_dropped. destruct (memz x (dropped t)); cbn [pbase]; lia. }
  lia.
Qed.

Lemma step_pbase_mono : forall st ev d, pbase (fwd_tr st d) <= pbase (fwd_tr (next st ev) d).
Proof. intros. rewrite step_trackers. apply run_pbase_mono. Qed.

Lemma gen_pbase : forall t, pbase (fst (gen t)) = pbase t + 1 /\ snd (gen t) = pbase t + 1.
Proof.
  intros t. unfold gen. cbn [fst snd]. rewrite track_seen_pbase. cbn [pbase]. lia.
Qed.

(* entries only depend on the state through the trackers' pbase *)
Lemma entry_ok_mono : forall st st' p,
  (forall d, pbase (fwd_tr st d) <= pbase (fwd_tr st' d)) -> entry_ok st p -> entry_ok st' p.
Proof.
  intros st st' [[d id] ri] H. unfold entry_ok. intros (A & B & C & D & E & F & G).
  repeat split; auto; try lia. specialize (H d). lia.
Qed.

Lemma unacked_collect_acks : forall st m,
  unacked (fst (collect_acks st m)) = fst (collect (unacked st) (inv_dir (r_dir m)) (all_acks m)).
Proof.
  intros st m. unfold collect_acks.
  destruct (collect (unacked st) (inv_dir (r_dir m)) (all_acks m)) as [u s]. reflexivity.
Qed.

Lemma UInv_collect_acks : forall st m, UInv st -> UInv (fst (collect_acks st m)).
Proof.
  intros st m (Hn & He). split.
  - rewrite unacked_collect_acks. apply collect_sub, Hn.
  - intros p Hp. rewrite unacked_collect_acks in Hp. apply collect_sub in Hp.
    apply (entry_ok_mono st); auto. intros d. rewrite collect_acks_trackers. lia.
Qed.

Lemma unacked_send_forward : forall st m, unacked (fst (send_forward st m)) = unacked st.
Proof.
  intros st m. unfold send_forward.
  destruct (r_kind m) as [|ids|o]; cbn [fst]; try apply unacked_set_fwd.
  destruct (rewrite_acks (rev_tr st (r_dir m)) ids); [destruct (rewrite_acks (rev_tr st (r_dir m)) (r_acks m))|];
    cbn [fst]; apply unacked_set_fwd.
Qed.

Lemma UInv_send_injected : forall st d rel k, UInv st -> UInv (fst (send_injected st d rel k)).
Proof.
  intros st d rel k (Hn & He).
  assert (Hp : forall d', pbase (fwd_tr st d') <= pbase (fwd_tr (fst (send_injected st d rel k)) d')).
  { intros d'. rewrite send_injected_trackers. destruct (dir_eqb d d') eqn:E; [|lia].
    apply dir_eqb_eq in E. subst d'. destruct (gen_pbase (fwd_tr st d)). lia. }
  assert (Hpd : pbase (fwd_tr (fst (send_injected st d rel k)) d) = pbase (fwd_tr st d) + 1).
  { rewrite send_injected_trackers, dir_eqb_refl. apply gen_pbase. }
  revert Hp Hpd. unfold send_injected.
  destruct (gen (fwd_tr st d)) as [t' id] eqn:G. cbn [fst].
  assert (Hid : id = pbase (fwd_tr st d) + 1) by (destruct (gen_pbase (fwd_tr st d)) as (_ & X); rewrite G in X; exact X).
  destruct rel; intros Hp Hpd.
  - cbn [fst] in *. split.
    + unfold set_unacked. cbn [unacked]. rewrite unacked_set_fwd.
      (* the key is new: id is above pbase, every stored id is at most pbase *)
      assert (Hnew : ~ In (d, id) (keys (unacked st))).
      { intros Hi. unfold keys in Hi. apply in_map_iff in Hi as ([[d0 i0] ri] & Hk & Hi).
        cbn in Hk. injection Hk as -> ->. specialize (He _ Hi). cbn in He. lia. }
      clear - Hn Hnew. induction (unacked st) as [|[k0 v0] t IH]; cbn [dict_set keys map fst].
      * constructor; [intros []|constructor].
      * cbn [keys map fst] in Hn, Hnew. inversion Hn as [|? ? H1 H2]; subst.
        destruct (key_eqb k0 (d, id)) eqn:E.
        -- apply key_eqb_eq in E. exfalso. apply Hnew. left. auto.
        -- cbn [keys map fst]. constructor.
           ++ fold (keys (dict_set t (d, id) (mkRI (now (set_fwd st d t')) TRIES (mkE d id true false [] k true)))).
              rewrite keys_dict_set. intros [Hi|Hi]; [auto|]. apply Hnew. left. auto.
           ++ apply IH; auto. intros Hi. apply Hnew. right. exact Hi.
    + intros p Hi. unfold set_unacked in Hi. cbn [unacked] in Hi. rewrite unacked_set_fwd in Hi.
      apply dict_set_In in Hi as [Hi| ->].
      * apply (entry_ok_mono st); auto.
      * unfold entry_ok. cbn [ri_msg ri_tries e_dir e_id e_rel e_syn e_resent].
        repeat split; auto; try (unfold TRIES; lia). rewrite Hpd. lia.
  - split.
    + rewrite unacked_set_fwd. exact Hn.
    + intros p Hi. rewrite unacked_set_fwd in Hi. apply (entry_ok_mono st); auto.
Qed.

Lemma UInv_send_forward : forall st m, UInv st -> UInv (fst (send_forward st m)).
Proof.
  intros st m (Hn & He). split.
  - rewrite unacked_send_forward. exact Hn.
  - intros p Hp. rewrite unacked_send_forward in Hp. apply (entry_ok_mono st); auto.
    intros d. rewrite send_forward_trackers. destruct (dir_eqb (r_dir m) d) eqn:E; [|lia].
    apply dir_eqb_eq in E. subst d. unfold fwd. cbn [fst]. rewrite track_seen_pbase. lia.
Qed.

Lemma UInv_drop_message : forall st m, UInv st -> UInv (fst (drop_message st m)).
Proof.
  intros st m H. unfold drop_message.
  set (d := r_dir m). set (st1 := set_fwd st d (mark_dropped (fwd_tr st d) (r_pid m))).
  assert (H1 : UInv st1).
  { destruct H as (Hn & He). split.
    - unfold st1. rewrite unacked_set_fwd. exact Hn.
    - intros p Hp. unfold st1 in Hp. rewrite unacked_set_fwd in Hp. apply (entry_ok_mono st); auto.
      intros d'. unfold st1. destruct d, d'; cbn [fwd_tr set_fwd t_in t_out]; try lia;
        unfold mark_dropped; destruct (memz _ _); cbn [pbase]; lia. }
  destruct (r_rel m).
  - assert (H2 := UInv_send_injected st1 (inv_dir d) false (PacketAck [r_pid m]) H1).
    destruct (send_injected st1 (inv_dir d) false (PacketAck [r_pid m])) as [st2 e1]. cbn [fst] in H2.
    destruct (rewrite_acks (rev_tr st2 d) (r_acks m)); exact H2.
  - destruct (rewrite_acks (rev_tr st1 d) (r_acks m)); exact H1.
Qed.

Lemma UInv_step : forall st ev, 0 <= 0 -> UInv st -> UInv (next st ev).
Proof.
  intros st ev _ H. unfold next. destruct ev as [m|m|d rel k|dt]; cbn [step].
  - assert (H1 := UInv_collect_acks st m H). destruct (collect_acks st m) as [st1 ss]. cbn [fst] in H1.
    assert (H2 := UInv_send_forward st1 m H1). destruct (send_forward st1 m) as [st2 es]. exact H2.
  - assert (H1 := UInv_collect_acks st m H). destruct (collect_acks st m) as [st1 ss]. cbn [fst] in H1.
    assert (H2 := UInv_drop_message st1 m H1). destruct (drop_message st1 m) as [st2 es]. exact H2.
  - assert (H1 := UInv_send_injected st d rel k H). destruct (send_injected st d rel k) as [st1 es]. exact H1.
  - assert (S := resend_spec (now st + dt) (every st) (unacked st)).
    destruct (resend (now st + dt) (every st) (unacked st)) as [[u es] ss]. cbn [fst].
    destruct S as (_ & _ & Hu). destruct H as (Hn & He). split; cbn [unacked].
    + subst u. clear He. induction (unacked st) as [|[k0 v0] t IH]; cbn [flat_map]; [constructor|].
      cbn [keys map fst] in Hn. inversion Hn as [|? ? H1 H2]; subst. specialize (IH H2).
      assert (Hsub : forall k, In k (keys (flat_map (fun p => if due (now st + dt) (every st) (snd p)
                         then if ri_tries (snd p) - 1 =? 0 then []
                              else [(fst p, mkRI (now st + dt) (ri_tries (snd p) - 1) (ri_msg (snd p)))]
                         else [p]) t)) -> In k (keys t)).
      { clear. induction t as [|[k1 v1] t IHt]; cbn [flat_map]; [auto|]. intros k Hk.
        unfold keys in *. rewrite map_app in Hk. apply in_app_or in Hk as [Hk|Hk].
        - cbn [snd fst] in Hk. destruct (due _ _ v1); [destruct (ri_tries v1 - 1 =? 0)|];
            cbn in Hk; try tauto; destruct Hk as [<-|[]]; cbn; auto.
        - cbn [map fst]. right. apply IHt, Hk. }
      cbn [snd fst]. destruct (due _ _ v0); [destruct (ri_tries v0 - 1 =? 0)|]; cbn [app keys map fst]; auto;
        constructor; auto; intros Hk; apply H1, Hsub, Hk.
    + intros p Hp. subst u. apply in_flat_map in Hp as ([[d0 i0] r0] & Hi & Hp).
      specialize (He _ Hi). cbn [snd fst] in Hp.
      assert (Hok : forall q, entry_ok st q -> entry_ok (mkPC (t_in st) (t_out st)
                 (flat_map (fun p => if due (now st + dt) (every st) (snd p)
                         then if ri_tries (snd p) - 1 =? 0 then []
                              else [(fst p, mkRI (now st + dt) (ri_tries (snd p) - 1) (ri_msg (snd p)))]
                         else [p]) (unacked st)) (now st + dt) (every st)) q).
      { intros q. apply entry_ok_mono. intros []; cbn; lia. }
      destruct (due _ _ r0).
      * destruct (ri_tries r0 - 1 =? 0) eqn:T; [destruct Hp|]. destruct Hp as [<-|[]].
        apply Z.eqb_neq in T. apply Hok. unfold entry_ok in *. cbn [ri_msg ri_tries] in *.
        destruct He as (A & B & C & D & E & F & G). repeat split; auto; lia.
      * destruct Hp as [<-|[]]. apply Hok, He.
Qed.

Lemma UInv_run : forall evs st, UInv st -> UInv (run_state st evs).
Proof.
  induction evs as [|ev evs IH]; intros st H; [exact H|].
  unfold run_state in *. cbn [fold_left]. apply IH. apply (UInv_step st ev); [lia|exact H].
Qed.

(* what a Tick emits comes from the table: same direction, same ID, RESENT set *)
Lemma tick_emissions : forall st dt e,
  UInv st -> In e (snd (fst (step st (Tick dt)))) ->
  In (e_dir e, e_id e) (keys (unacked st)) /\ e_resent e = true /\ e_rel e = true /\ e_syn e = true /\
  exists ri, In ((e_dir e, e_id e), ri) (unacked st) /\ e = resent_of (ri_msg ri) /\
             every st <= now st + dt - ri_last ri /\ 1 < ri_tries ri.
Proof.
  intros st dt e (Hn & He) Hi. cbn [step] in Hi.
  assert (S := resend_spec (now st + dt) (every st) (unacked st)).
  destruct (resend (now st + dt) (every st) (unacked st)) as [[u es] ss]. cbn [fst snd] in Hi.
  destruct S as (-> & _ & _). apply in_map_iff in Hi as ([[d id] ri] & <- & Hi).
  apply filter_In in Hi as (Hi & Hc). cbn [snd] in *. apply andb_true_iff in Hc as (Hd & Ht).
  specialize (He _ Hi). cbn in He. destruct He as (A & B & C & D & E & F & G).
  unfold resent_of. cbn [e_dir e_id e_resent e_rel e_syn]. rewrite A, B.
  split; [unfold keys; apply in_map_iff; exists ((d, id), ri); auto|].
  repeat split; auto.
  exists ri. split; auto. split; [unfold resent_of; rewrite A, B; reflexivity|].
  unfold due in Hd. apply negb_true_iff, Z.ltb_ge in Hd. apply negb_true_iff, Z.eqb_neq in Ht. lia.
Qed.

(* a key that is not in the table and whose ID has been used (<= pbase) never comes back *)
Definition gone (st : pc) (k : dir * Z) : Prop :=
  ~ In k (keys (unacked st)) /\ snd k <= pbase (fwd_tr st (fst k)).

Lemma collect_keys_sub : forall acks u d k, In k (keys (fst (collect u d acks))) -> In k (keys u).
Proof.
  intros acks u d k H. unfold keys in *. apply in_map_iff in H as (p & <- & Hp).
  apply collect_sub in Hp. apply in_map. exact Hp.
Qed.

Lemma gone_step : forall st ev k, gone st k -> gone (next st ev) k.
Proof.
  intros st ev [d id] (Hk & Hp). cbn [fst snd] in *. split; cbn [fst snd].
  2:{ assert (X := step_pbase_mono st ev d). lia. }
  intros Hi. apply Hk. clear Hk. unfold next in Hi.
  assert (Hinj : forall s d' rel k0, In (d, id) (keys (unacked (fst (send_injected s d' rel k0)))) ->
            id <= pbase (fwd_tr s d) -> In (d, id) (keys (unacked s))).
  { intros s d' rel k0 H Hle. unfold send_injected in H.
    destruct (gen (fwd_tr s d')) as [t' nid] eqn:G. cbn [fst] in H.
    assert (Hnid : nid = pbase (fwd_tr s d') + 1)
      by (destruct (gen_pbase (fwd_tr s d')) as (_ & X); rewrite G in X; exact X).
    destruct rel.
    - unfold set_unacked in H. cbn [unacked] in H. rewrite unacked_set_fwd in H.
      apply keys_dict_set in H as [H|H]; auto. injection H as <- ->. lia.
    - rewrite unacked_set_fwd in H. exact H. }
  destruct ev as [m|m|d' rel k0|dt]; cbn [step] in Hi.
  - destruct (collect_acks st m) as [st1 ss] eqn:C.
    destruct (send_forward st1 m) as [st2 es] eqn:S. cbn [fst] in Hi.
    replace st2 with (fst (send_forward st1 m)) in Hi by (rewrite S; reflexivity).
    rewrite unacked_send_forward in Hi.
    replace st1 with (fst (collect_acks st m)) in Hi by (rewrite C; reflexivity).
    rewrite unacked_collect_acks in Hi. eapply collect_keys_sub, Hi.
  - destruct (collect_acks st m) as [st1 ss] eqn:C.
    destruct (drop_message st1 m) as [st2 es] eqn:S. cbn [fst] in Hi.
    assert (Hk1 : In (d, id) (keys (unacked st1))).
    { unfold drop_message in S.
      set (dd := r_dir m) in *. set (s1 := set_fwd st1 dd (mark_dropped (fwd_tr st1 dd) (r_pid m))) in *.
      assert (Hu1 : unacked s1 = unacked st1) by (unfold s1; apply unacked_set_fwd).
      assert (Hp1 : id <= pbase (fwd_tr s1 d)).
      { replace st1 with (fst (collect_acks st m)) by (rewrite C; reflexivity).
        unfold s1. destruct dd, d; cbn [fwd_tr set_fwd t_in t_out];
          try (unfold mark_dropped; destruct (memz _ _); cbn [pbase]);
          rewrite <- ?(collect_acks_trackers st m IN), <- ?(collect_acks_trackers st m OUT) in Hp;
          replace (fst (collect_acks st m)) with st1 in * by (rewrite C; reflexivity); cbn [fwd_tr] in Hp; lia. }
      destruct (r_rel m).
      - destruct (send_injected s1 (inv_dir dd) false (PacketAck [r_pid m])) as [s2 e1] eqn:SI.
        assert (Hs2 : In (d, id) (keys (unacked s2)) -> In (d, id) (keys (unacked s1))).
        { intros X. apply (Hinj s1 (inv_dir dd) false (PacketAck [r_pid m])); auto. rewrite SI. exact X. }
        rewrite <- Hu1. apply Hs2.
        destruct (rewrite_acks (rev_tr s2 dd) (r_acks m)); injection S as <- _; exact Hi.
      - rewrite <- Hu1. destruct (rewrite_acks (rev_tr s1 dd) (r_acks m)); injection S as <- _; exact Hi. }
    replace st1 with (fst (collect_acks st m)) in Hk1 by (rewrite C; reflexivity).
    rewrite unacked_collect_acks in Hk1. eapply collect_keys_sub, Hk1.
  - destruct (send_injected st d' rel k0) as [st1 es] eqn:S. cbn [fst] in Hi.
    apply (Hinj st d' rel k0); auto. rewrite S. exact Hi.
  - assert (S := resend_spec (now st + dt) (every st) (unacked st)).
    destruct (resend (now st + dt) (every st) (unacked st)) as [[u es] ss]. cbn [fst unacked] in Hi.
    destruct S as (_ & _ & ->). unfold keys in *. apply in_map_iff in Hi as (p & Hk & Hq).
    apply in_flat_map in Hq as ([k1 r1] & Hin & Hq). cbn [snd fst] in Hq.
    apply in_map_iff. exists (k1, r1). split; auto.
    destruct (due _ _ r1); [destruct (ri_tries r1 - 1 =? 0); [destruct Hq|]|]; destruct Hq as [<-|[]]; exact Hk.
Qed.

Lemma gone_run : forall evs st k, gone st k -> gone (run_state st evs) k.
Proof.
  induction evs as [|ev evs IH]; intros st k H; [exact H|].
  unfold run_state in *. cbn [fold_left]. apply IH. apply gone_step, H.
Qed.

(* a completion signal removes the key for good *)
Lemma collect_signals : forall acks u d s,
  NoDup (keys u) ->
  In s (snd (collect u d acks)) ->
  exists a, s = Completed d a /\ In a acks /\ In (d, a) (keys u) /\ ~ In (d, a) (keys (fst (collect u d acks))).
Proof.
  induction acks as [|a t IH]; intros u d s Hn Hs; cbn [collect] in *; [destruct Hs|].
  destruct (dict_has u (d, a)) eqn:Hh.
  - destruct (collect (dict_del u (d, a)) d t) as [u' s'] eqn:C. cbn [snd fst] in *.
    destruct Hs as [<-|Hs].
    + exists a. split; auto. split; [left; auto|]. split; [apply dict_has_In; auto|].
      intros Hi. assert (X : In (d, a) (keys (fst (collect (dict_del u (d, a)) d t)))) by (rewrite C; exact Hi).
      apply collect_keys_sub in X. apply keys_dict_del in X. tauto.
    + destruct (IH (dict_del u (d, a)) d s (NoDup_keys_del u (d, a) Hn)) as (b & E & Hb & Hk & Hg).
      { rewrite C. exact Hs. }
      rewrite C in Hg. cbn [fst] in Hg.
      exists b. split; auto. split; [right; auto|]. split; auto.
      apply keys_dict_del in Hk. tauto.
  - destruct (IH u d s Hn Hs) as (b & E & Hb & Hk & Hg). exists b. split; auto. split; [right; auto|]. auto.
Qed.

(* every signal of a step: the key was in the table before, is gone after *)
Lemma signal_gone : forall st ev s,
  UInv st -> In s (snd (step st ev)) ->
  let k := match s with Completed d id => (d, id) | TimedOut d id => (d, id) end in
  In k (keys (unacked st)) /\ gone (next st ev) k.
Proof.
  intros st ev s HU Hs. cbn zeta.
  assert (HU' := UInv_step st ev ltac:(lia) HU).
  destruct HU as (Hn & He).
  assert (Hle : forall k, In k (keys (unacked st)) -> snd k <= pbase (fwd_tr (next st ev) (fst k))).
  { intros [d id] Hk. unfold keys in Hk. apply in_map_iff in Hk as ([[d0 i0] ri] & E & Hi).
    cbn in E. injection E as -> ->. specialize (He _ Hi). cbn in He. cbn [fst snd].
    assert (X := step_pbase_mono st ev d). lia. }
  destruct ev as [m|m|d rel k0|dt].
  - (* Recv *)
    unfold next. cbn [step] in *.
    destruct (collect_acks st m) as [st1 ss] eqn:C.
    destruct (send_forward st1 m) as [st2 es] eqn:S. cbn [snd fst] in *.
    assert (Hc : ss = snd (collect (unacked st) (inv_dir (r_dir m)) (all_acks m)) /\
                 unacked st1 = fst (collect (unacked st) (inv_dir (r_dir m)) (all_acks m))).
    { unfold collect_acks in C. destruct (collect (unacked st) (inv_dir (r_dir m)) (all_acks m)) as [u s0].
      injection C as <- <-. auto. }
    destruct Hc as (-> & Hu1).
    destruct (collect_signals _ _ _ _ Hn Hs) as (a & -> & Ha & Hk & Hg).
    assert (Hnx : next st (Recv m) = st2) by (unfold next; cbn [step]; rewrite C, S; reflexivity).
    split; auto. split; [|rewrite <- Hnx; apply (Hle (inv_dir (r_dir m), a)); auto].
    cbn [fst snd]. replace st2 with (fst (send_forward st1 m)) by (rewrite S; reflexivity).
    rewrite unacked_send_forward, Hu1. exact Hg.
  - (* RecvDrop *)
    unfold next. cbn [step] in *.
    destruct (collect_acks st m) as [st1 ss] eqn:C.
    destruct (drop_message st1 m) as [st2 es] eqn:S. cbn [snd fst] in *.
    assert (Hc : ss = snd (collect (unacked st) (inv_dir (r_dir m)) (all_acks m)) /\
                 unacked st1 = fst (collect (unacked st) (inv_dir (r_dir m)) (all_acks m))).
    { unfold collect_acks in C. destruct (collect (unacked st) (inv_dir (r_dir m)) (all_acks m)) as [u s0].
      injection C as <- <-. auto. }
    destruct Hc as (-> & Hu1).
    destruct (collect_signals _ _ _ _ Hn Hs) as (a & -> & Ha & Hk & Hg).
    split; auto.
    (* gone after collect_acks, and drop_message is a sequence of steps that keep it gone:
       reuse gone_step on the intermediate state with the same event shape *)
    assert (G1 : gone st1 (inv_dir (r_dir m), a)).
    { split; cbn [fst snd].
      - rewrite Hu1. exact Hg.
      - replace st1 with (fst (collect_acks st m)) by (rewrite C; reflexivity).
        rewrite collect_acks_trackers.
        unfold keys in Hk. apply in_map_iff in Hk as ([[d0 i0] ri] & E & Hi).
        cbn in E. injection E as -> ->. specialize (He _ Hi). cbn in He. lia. }
    destruct G1 as (G1a & G1b). cbn [fst snd] in *.
    split; cbn [fst snd].
    2:{ replace st2 with (fst (drop_message st1 m)) by (rewrite S; reflexivity).
        rewrite drop_message_trackers. assert (X := run_pbase_mono (ops_of (inv_dir (r_dir m)) (RecvDrop m)) (fwd_tr st1 (inv_dir (r_dir m)))). lia. }
    intros Hi. apply G1a. clear G1a.
    unfold drop_message in S.
    set (dd := r_dir m) in *. set (s1 := set_fwd st1 dd (mark_dropped (fwd_tr st1 dd) (r_pid m))) in *.
    assert (Hu1' : unacked s1 = unacked st1) by (unfold s1; apply unacked_set_fwd).
    assert (Hp1 : a <= pbase (fwd_tr s1 (inv_dir dd))).
    { unfold s1. rewrite fwd_tr_set_fwd_other. exact G1b. }
    destruct (r_rel m).
    + destruct (send_injected s1 (inv_dir dd) false (PacketAck [r_pid m])) as [s2 e1] eqn:SI.
      assert (Hu2 : unacked s2 = unacked s1).
      { unfold send_injected in SI. destruct (gen (fwd_tr s1 (inv_dir dd))) as [t' nid].
        injection SI as <- _. apply unacked_set_fwd. }
      rewrite <- Hu1', <- Hu2.
      destruct (rewrite_acks (rev_tr s2 dd) (r_acks m)); injection S as <- _; exact Hi.
    + rewrite <- Hu1'. destruct (rewrite_acks (rev_tr s1 dd) (r_acks m)); injection S as <- _; exact Hi.
  - (* Inj: no signals *)
    cbn [step] in Hs. destruct (send_injected st d rel k0) as [st1 es]. destruct Hs.
  - (* Tick *)
    unfold next. cbn [step] in *.
    assert (S := resend_spec (now st + dt) (every st) (unacked st)).
    destruct (resend (now st + dt) (every st) (unacked st)) as [[u es] ss]. cbn [snd fst] in *.
    destruct S as (_ & -> & ->).
    apply in_map_iff in Hs as ([[d id] ri] & <- & Hi). apply filter_In in Hi as (Hi & Hc).
    cbn [fst snd] in *. apply andb_true_iff in Hc as (Hd & Ht).
    assert (Hk : In (d, id) (keys (unacked st))) by (unfold keys; apply in_map_iff; exists ((d, id), ri); auto).
    split; auto. split; cbn [fst snd unacked].
    + intros Hin. unfold keys in Hin. apply in_map_iff in Hin as (p & Hpk & Hp).
      apply in_flat_map in Hp as ([k1 r1] & Hin1 & Hp). cbn [snd fst] in Hp.
      assert (k1 = (d, id)).
      { destruct (due _ _ r1); [destruct (ri_tries r1 - 1 =? 0); [destruct Hp|]|]; destruct Hp as [<-|[]]; exact Hpk. }
      subst k1.
      (* NoDup keys: r1 = ri *)
      assert (r1 = ri).
      { clear - Hn Hi Hin1. induction (unacked st) as [|[k2 r2] t IH]; [destruct Hi|].
        cbn [keys map fst] in Hn. inversion Hn as [|? ? H1 H2]; subst.
        destruct Hi as [Hi|Hi], Hin1 as [Hj|Hj].
        - congruence.
        - injection Hi as -> ->. exfalso. apply H1. unfold keys. apply in_map_iff. exists ((d, id), r1). auto.
        - injection Hj as -> ->. exfalso. apply H1. unfold keys. apply in_map_iff. exists ((d, id), ri). auto.
        - apply IH; auto. }
      subst r1. rewrite Hd, Ht in Hp. destruct Hp.
    + specialize (He _ Hi). unfold entry_ok in He. destruct He as (_ & _ & _ & _ & _ & _ & G).
      destruct d; cbn [fwd_tr t_in t_out] in *; lia.
Qed.

(* ------------------------------------------------------------------ *)
(* lifting to reachable states *)

Definition reach (m : nat) (e : Z) (pre : list event) : pc := run_state (pc_init m e) pre.

Lemma reach_snoc : forall m e pre ev post,
  reach m e (pre ++ ev :: post) = run_state (next (reach m e pre) ev) post.
Proof.
  intros. unfold reach, run_state. rewrite fold_left_app. reflexivity.
Qed.

Lemma reach_UInv : forall m e pre, UInv (reach m e pre).
Proof. intros. apply UInv_run, UInv_init. Qed.

Lemma reach_tracker : forall m e pre d, fwd_tr (reach m e pre) d = tr (ghost m d pre).
Proof. intros. symmetry. apply ghost_tracker. Qed.

Lemma ghost_snoc : forall m d pre ev, ghost m d (pre ++ [ev]) = grun (ghost m d pre) (ops_of d ev).
Proof.
  intros. unfold ghost, grun. rewrite flat_map_app, fold_left_app. cbn [flat_map]. rewrite app_nil_r. reflexivity.
Qed.

(* a source ack w of a shown ack a, read against the ghost of the reverse direction *)
Definition source_ok (G : gstate) (w a : Z) : Prop :=
  ~ In w (inj (tr G)) /\ orig (tr G) w = Some a /\ eff (tr G) a = w /\
  (above_evicted G w -> ~ In w (jall G) /\ nth_free (jall G) a w).

Lemma source_ok_intro : forall G w a, Inv G ->
  was_injected (tr G) w = false -> orig (tr G) w = Some a -> source_ok G w a.
Proof.
  intros G w a HI Hw Ho. unfold source_ok.
  assert (Hn : ~ In w (inj (tr G))) by (apply memz_false; exact Hw).
  split; auto. split; auto. split; [apply (eff_orig G HI w a Ho)|].
  intros Ha.
  assert (Hj : ~ In w (jall G)).
  { unfold jall. intros Hi. apply in_app_or in Hi as [Hi|Hi]; auto. specialize (Ha w Hi). lia. }
  split; auto. split; auto.
  assert (X := orig_refines G HI w Hj Ha). rewrite Ho in X. injection X as ->. reflexivity.
Qed.

(* forwarded packet: every acknowledgement shown comes from an ack of the peer for a
   non-injected wire ID, translated back *)
Lemma recv_sources : forall m e pre msg em a,
  let s := reach m e pre in
  let G := ghost m (inv_dir (r_dir msg)) pre in
  In em (snd (fst (step s (Recv msg)))) -> In a (shown_acks em) ->
  e_dir em = r_dir msg /\ e_syn em = false /\
  exists w, In w (all_acks msg) /\ source_ok G w a.
Proof.
  intros m e pre msg em a s G He Ha. cbn [step] in He.
  destruct (collect_acks s msg) as [st1 ss] eqn:C.
  assert (Hrev : rev_tr st1 (r_dir msg) = tr G).
  { unfold rev_tr. replace st1 with (fst (collect_acks s msg)) by (rewrite C; reflexivity).
    rewrite collect_acks_trackers. apply reach_tracker. }
  destruct (send_forward st1 msg) as [st2 es] eqn:S. cbn [fst snd] in He.
  assert (X := send_forward_sources st1 msg em a). rewrite Hrev, S in X. cbn [snd] in X.
  destruct (X He Ha) as (A & B & (w & Hw & H1 & H2)).
  split; auto. split; auto. exists w. split; auto.
  apply source_ok_intro; auto. apply ghost_Inv.
Qed.

Lemma recv_drop_sources : forall m e pre msg em a,
  let s := reach m e pre in
  let G' := ghost m (inv_dir (r_dir msg)) (pre ++ [RecvDrop msg]) in
  In em (snd (fst (step s (RecvDrop msg)))) -> In a (shown_acks em) ->
  (e_dir em = inv_dir (r_dir msg) /\ r_rel msg = true /\ a = r_pid msg /\
   e_kind em = PacketAck [r_pid msg] /\ e_acks em = []) \/
  (e_dir em = r_dir msg /\ e_acks em = [] /\ exists w, In w (r_acks msg) /\ source_ok G' w a).
Proof.
  intros m e pre msg em a s G' He Ha.
  assert (Hnx : fwd_tr (next s (RecvDrop msg)) (inv_dir (r_dir msg)) = tr G').
  { unfold G'. rewrite ghost_snoc, tr_grun, <- (reach_tracker m e). apply step_trackers. }
  unfold next in Hnx. cbn [step] in He, Hnx.
  destruct (collect_acks s msg) as [st1 ss] eqn:C.
  destruct (drop_message st1 msg) as [st2 es] eqn:S. cbn [fst snd] in He, Hnx.
  assert (X := drop_message_sources st1 msg em a). rewrite S in X. cbn [fst snd] in X.
  destruct (X He Ha) as [L|(A & B & (w & Hw & H1 & H2))]; [left; exact L|right].
  split; auto. split; auto. exists w. split; auto.
  unfold rev_tr in H1, H2. rewrite Hnx in H1, H2.
  apply source_ok_intro; auto. apply ghost_Inv.
Qed.

(* exactly-once delivery: the forwarded packet carries precisely the translated
   non-injected acks, in order; a PacketAck with nothing left is not forwarded *)
Lemma send_forward_exact : forall st m,
  let rev := rev_tr st (r_dir m) in
  match snd (send_forward st m) with
  | [] => exists ids, r_kind m = PacketAck ids /\ rewrite_acks rev ids = [] /\ rewrite_acks rev (r_acks m) = []
  | [e] => e_acks e = rewrite_acks rev (r_acks m) /\
           kind_ids (e_kind e) = rewrite_acks rev (kind_ids (r_kind m)) /\
           e_dir e = r_dir m /\ e_id e = eff (fwd_tr st (r_dir m)) (r_pid m) /\
           e_rel e = r_rel m /\ e_resent e = r_resent m /\ e_syn e = false
  | _ => False
  end.
Proof.
  intros st m rev. unfold send_forward. fold rev.
  destruct (r_kind m) as [|ids|o] eqn:K; cbn [snd kind_ids].
  - repeat split; auto.
  - destruct (rewrite_acks rev ids) as [|n nb] eqn:N.
    + destruct (rewrite_acks rev (r_acks m)) as [|x xs] eqn:A; cbn [snd].
      * exists ids. auto.
      * cbn. repeat split; auto.
    + cbn [snd]. repeat split; auto.
  - repeat split; auto.
Qed.

(* a PacketAck that consists only of acks for injected packets and has no surviving
   appended ack is not forwarded at all; and nothing else is ever withheld *)
Lemma send_forward_silent_iff : forall st m,
  let rev := rev_tr st (r_dir m) in
  snd (send_forward st m) = [] <->
  exists ids, r_kind m = PacketAck ids /\ rewrite_acks rev ids = [] /\ rewrite_acks rev (r_acks m) = [].
Proof.
  intros st m rev. unfold send_forward. fold rev.
  destruct (r_kind m) as [|ids|o] eqn:K; cbn [snd].
  - split; [discriminate|intros (i & H & _); discriminate].
  - destruct (rewrite_acks rev ids) as [|n nb] eqn:N.
    + destruct (rewrite_acks rev (r_acks m)) as [|x xs] eqn:A; cbn [snd].
      * split; auto. intros _. exists ids. auto.
      * split; [discriminate|]. intros (i & H & _ & H2). discriminate.
    + cbn [snd]. split; [discriminate|]. intros (i & H & H1 & _). injection H as <-. rewrite N in H1. discriminate.
  - split; [discriminate|intros (i & H & _); discriminate].
Qed.

(* inj_acks_hidden in list form: an ack for a wire ID still in the injection window never
   contributes to the rewritten list *)
Lemma rewrite_acks_hides : forall rev l a,
  In a (rewrite_acks rev l) -> exists w, In w l /\ was_injected rev w = false /\ orig rev w = Some a.
Proof. intros rev l a H. apply rewrite_acks_In. exact H. Qed.

Lemma rewrite_acks_all_injected : forall rev l,
  (forall w, In w l -> was_injected rev w = true) -> rewrite_acks rev l = [].
Proof.
  intros rev l H. rewrite rewrite_acks_map.
  induction l as [|w l IH]; [reflexivity|]. cbn [filter].
  rewrite (H w) by (left; reflexivity). cbn [negb]. apply IH. intros x Hx. apply H. right. exact Hx.
Qed.

(* completion: every ack for a queued key completes it *)
Lemma collect_complete : forall acks u d a,
  In a acks -> In (d, a) (keys u) -> In (Completed d a) (snd (collect u d acks)).
Proof.
  induction acks as [|a0 t IH]; intros u d a Ha Hk; [destruct Ha|]. cbn [collect].
  destruct (Z.eq_dec a0 a) as [->|Hne].
  - rewrite (proj2 (dict_has_In u (d, a)) Hk).
    destruct (collect (dict_del u (d, a)) d t). cbn. auto.
  - destruct Ha as [Ha|Ha]; [congruence|].
    destruct (dict_has u (d, a0)) eqn:Hh.
    + assert (Hk' : In (d, a) (keys (dict_del u (d, a0)))).
      { apply keys_dict_del. split; auto. intros E. injection E. congruence. }
      specialize (IH (dict_del u (d, a0)) d a Ha Hk').
      destruct (collect (dict_del u (d, a0)) d t). cbn in *. auto.
    + apply IH; auto.
Qed.

Lemma step_recv_signals : forall st msg s,
  In s (snd (step st (Recv msg))) \/ In s (snd (step st (RecvDrop msg))) <->
  In s (snd (collect (unacked st) (inv_dir (r_dir msg)) (all_acks msg))).
Proof.
  intros st msg s. cbn [step]. unfold collect_acks.
  destruct (collect (unacked st) (inv_dir (r_dir msg)) (all_acks msg)) as [u ss].
  destruct (send_forward (set_unacked st u) msg) as [a b].
  destruct (drop_message (set_unacked st u) msg) as [a' b']. cbn [snd]. tauto.
Qed.

(* ping check *)
Lemma min_list_spec : forall l x,
  min_list x l <= x /\ (forall y, In y l -> min_list x l <= y) /\
  (min_list x l = x \/ In (min_list x l) l).
Proof.
  induction l as [|y l IH]; intros x; cbn [min_list].
  - split; [lia|]. split; [intros y []|auto].
  - destruct (IH (Z.min x y)) as (A & B & C). split; [lia|]. split.
    + intros z [<-|Hz]; [lia|auto].
    + destruct C as [C|C]; [|right; right; exact C].
      destruct (Z.min_spec x y) as [(H1 & H2)|(H1 & H2)]; [left|right; left]; lia.
Qed.

Lemma eff_track_seen : forall t w o, eff (track_seen t w) o = eff t o.
Proof.
  intros t w o. unfold eff. destruct (track_seen_other t w) as (A & B & _). rewrite A, B. reflexivity.
Qed.

Lemma send_forward_ping : forall st m o,
  r_kind m = StartPing o ->
  exists e, snd (send_forward st m) = [e] /\
    e_kind e = StartPing (min_list (eff (fwd_tr st (r_dir m)) o) (unacked_ids (unacked st) (r_dir m))).
Proof.
  intros st m o K. unfold send_forward. rewrite K. cbn [snd]. eexists. split; [reflexivity|].
  cbn [e_kind]. rewrite eff_track_seen. reflexivity.
Qed.

Lemma unacked_ids_In : forall u d id, In id (unacked_ids u d) <-> In (d, id) (keys u).
Proof.
  intros u d id. unfold unacked_ids, keys. rewrite !in_map_iff. split.
  - intros ([[d0 i0] ri] & E & Hi). apply filter_In in Hi as (Hi & Hd). cbn in *.
    apply dir_eqb_eq in Hd. subst. exists ((d, id), ri). auto.
  - intros ([[d0 i0] ri] & E & Hi). cbn in E. injection E as -> ->.
    exists ((d, id), ri). split; auto. apply filter_In. split; auto. cbn. apply dir_eqb_refl.
Qed.

(* no resend, no second signal, after a completion signal *)
Lemma after_signal : forall m e pre ev post s,
  In s (snd (step (reach m e pre) ev)) ->
  let k := match s with Completed d id => (d, id) | TimedOut d id => (d, id) end in
  let later := reach m e (pre ++ ev :: post) in
  ~ In k (keys (unacked later)) /\
  (forall dt em, In em (snd (fst (step later (Tick dt)))) -> (e_dir em, e_id em) <> k) /\
  (forall ev2 s2, In s2 (snd (step later ev2)) ->
     match s2 with Completed d id => (d, id) | TimedOut d id => (d, id) end <> k).
Proof.
  intros m e pre ev post s Hs k later.
  destruct (signal_gone (reach m e pre) ev s (reach_UInv m e pre) Hs) as (_ & Hg). fold k in Hg.
  assert (Hl : gone later k).
  { unfold later. rewrite reach_snoc. apply gone_run, Hg. }
  assert (HU : UInv later) by apply reach_UInv.
  destruct Hl as (Hl & _).
  split; [exact Hl|]. split.
  - intros dt em Hem Heq. destruct (tick_emissions later dt em HU Hem) as (Hk & _).
    rewrite Heq in Hk. apply Hl, Hk.
  - intros ev2 s2 Hs2 Heq.
    destruct (signal_gone later ev2 s2 HU Hs2) as (Hk & _). rewrite Heq in Hk. apply Hl, Hk.
Qed.

(* ------------------------------------------------------------------ *)
(* the translated acknowledgement names a packet the endpoint really sent *)

Lemma fwd_in_ops : forall d pre a,
  In (Fwd a) (flat_map (ops_of d) pre) ->
  exists msg, In (Recv msg) pre /\ r_dir msg = d /\ r_pid msg = a.
Proof.
  intros d pre a H. apply in_flat_map in H as (ev & Hev & H).
  destruct ev as [m|m|d' rel k|dt]; cbn [ops_of] in H.
  - destruct (dir_eqb (r_dir m) d) eqn:E; [|destruct H]. destruct H as [H|[]].
    injection H as <-. apply dir_eqb_eq in E. exists m. auto.
  - apply in_app_or in H as [H|H].
    + destruct (dir_eqb (r_dir m) d); [destruct H as [H|[]]; discriminate|destruct H].
    + destruct (r_rel m && dir_eqb (inv_dir (r_dir m)) d); [destruct H as [H|[]]; discriminate|destruct H].
  - destruct (dir_eqb d' d); [destruct H as [H|[]]; discriminate|destruct H].
  - destruct H.
Qed.

(* [seen (ghost m d pre)] is every wire ID that travelled in direction d, i.e. everything the
   endpoint at the far end of d can have received.  If that endpoint acknowledges such a
   [w] and the proxy shows the translation [a] to the near endpoint, then the near endpoint
   did send a packet with its own ID [a] in direction d (and [w] is its wire ID, by
   [source_ok]) *)
Lemma shown_ack_was_sent : forall m pre d w a,
  let G := ghost m d pre in
  In w (seen G) -> source_ok G w a -> above_evicted G w ->
  exists msg, In (Recv msg) pre /\ r_dir msg = d /\ r_pid msg = a.
Proof.
  intros m pre d w a G Hs (Hn & Ho & _ & Hab) Ha.
  destruct (Hab Ha) as (Hj & _).
  apply (fwd_in_ops d pre a).
  exact (orig_was_sent 0 m (flat_map (ops_of d) pre) w a Hs Hj Ha Ho).
Qed.

(* ------------------------------------------------------------------ *)
(* retry budget as a trace property *)

Definition is_resend (k : dir * Z) (e : emit) : bool :=
  e_syn e && e_resent e && key_eqb (e_dir e, e_id e) k.
Definition is_timeout (k : dir * Z) (s : signal) : bool :=
  match s with TimedOut d id => key_eqb (d, id) k | Completed _ _ => false end.

Definition cnt {A} (f : A -> bool) (l : list A) : Z := Z.of_nat (length (filter f l)).

Lemma cnt_nil : forall A (f : A -> bool), cnt f [] = 0.
Proof. reflexivity. Qed.

Lemma cnt_cons : forall A (f : A -> bool) x l, cnt f (x :: l) = (if f x then 1 else 0) + cnt f l.
Proof. intros. unfold cnt. cbn [filter]. destruct (f x); cbn [length]; lia. Qed.

Lemma cnt_app : forall A (f : A -> bool) a b, cnt f (a ++ b) = cnt f a + cnt f b.
Proof. intros. unfold cnt. rewrite filter_app, app_length. lia. Qed.

Lemma cnt_none : forall A (f : A -> bool) l, (forall x, In x l -> f x = false) -> cnt f l = 0.
Proof.
  induction l as [|x l IH]; intros H; [reflexivity|]. rewrite cnt_cons, IH by (intros y Hy; apply H; right; exact Hy).
  rewrite (H x) by (left; reflexivity). lia.
Qed.

Lemma cnt_map : forall A B (g : A -> B) (h : B -> bool) (h' : A -> bool) l,
  (forall p, In p l -> h (g p) = h' p) -> cnt h (map g l) = cnt h' l.
Proof.
  induction l as [|x l IH]; intros H; [reflexivity|]. cbn [map]. rewrite !cnt_cons.
  rewrite (H x) by (left; reflexivity). rewrite IH by (intros p Hp; apply H; right; exact Hp). reflexivity.
Qed.

(* in a table with one entry per key, the entry of k is selected at most once *)
Lemma cnt_key_filter : forall (f : (dir * Z) * rinfo -> bool) u k ri,
  NoDup (keys u) -> In (k, ri) u ->
  cnt (fun p => key_eqb (fst p) k) (filter f u) = if f (k, ri) then 1 else 0.
Proof.
  induction u as [|[k0 r0] t IH]; intros k ri Hn Hi; [destruct Hi|].
  cbn [keys map fst] in Hn. inversion Hn as [|? ? H1 H2]; subst.
  assert (Hnone : forall kk, ~ In kk (keys t) -> cnt (fun p => key_eqb (fst p) kk) (filter f t) = 0).
  { intros kk Hk. apply cnt_none. intros [k1 r1] Hx. apply filter_In in Hx as (Hx & _). cbn [fst].
    destruct (key_eqb k1 kk) eqn:E; auto. apply key_eqb_eq in E. subst. exfalso. apply Hk.
    unfold keys. apply in_map_iff. exists (kk, r1). auto. }
  destruct Hi as [Hi|Hi].
  - injection Hi as -> ->. cbn [filter]. destruct (f (k, ri)).
    + rewrite cnt_cons. cbn [fst]. rewrite (proj2 (key_eqb_eq k k) eq_refl). rewrite Hnone by exact H1. lia.
    + apply Hnone, H1.
  - assert (Hne : key_eqb k0 k = false).
    { destruct (key_eqb k0 k) eqn:E; auto. apply key_eqb_eq in E. subst. exfalso. apply H1.
      unfold keys. apply in_map_iff. exists (k, ri). auto. }
    cbn [filter]. destruct (f (k0, r0)).
    + rewrite cnt_cons. cbn [fst]. rewrite Hne. rewrite (IH k ri H2 Hi). lia.
    + apply (IH k ri H2 Hi).
Qed.

(* does this event acknowledge the proxy's packet k ? *)
Definition acks_key (ev : event) (k : dir * Z) : bool :=
  match ev with
  | Recv m | RecvDrop m => dir_eqb (inv_dir (r_dir m)) (fst k) && memz (snd k) (all_acks m)
  | _ => false
  end.

Lemma dict_del_keeps : forall u k k' ri, In (k, ri) u -> k <> k' -> In (k, ri) (dict_del u k').
Proof.
  intros u k k' ri Hi Hne. unfold dict_del. apply filter_In. split; auto. cbn [fst].
  destruct (key_eqb k k') eqn:E; auto. apply key_eqb_eq in E. contradiction.
Qed.

Lemma collect_keeps : forall acks u d k ri,
  In (k, ri) u -> dir_eqb d (fst k) && memz (snd k) acks = false ->
  In (k, ri) (fst (collect u d acks)).
Proof.
  induction acks as [|a t IH]; intros u d k ri Hi Hno; cbn [collect fst]; [exact Hi|].
  assert (Hne : k <> (d, a)).
  { intros ->. cbn [fst snd] in Hno. rewrite dir_eqb_refl in Hno. cbn [andb memz existsb] in Hno.
    rewrite Z.eqb_refl in Hno. discriminate. }
  assert (Hno' : dir_eqb d (fst k) && memz (snd k) t = false).
  { destruct (dir_eqb d (fst k)); auto. cbn [andb] in *. cbn [memz existsb] in Hno.
    apply orb_false_iff in Hno. apply Hno. }
  destruct (dict_has u (d, a)).
  - specialize (IH (dict_del u (d, a)) d k ri (dict_del_keeps u k (d, a) ri Hi Hne) Hno').
    destruct (collect (dict_del u (d, a)) d t). exact IH.
  - apply IH; auto.
Qed.

Lemma dict_set_keeps : forall u k v p, In p u -> fst p <> k -> In p (dict_set u k v).
Proof.
  induction u as [|[k0 v0] t IH]; intros k v p Hi Hne; [destruct Hi|]. cbn [dict_set].
  destruct (key_eqb k0 k) eqn:E.
  - destruct Hi as [<-|Hi]; [|right; exact Hi]. apply key_eqb_eq in E. cbn in Hne. contradiction.
  - destruct Hi as [<-|Hi]; [left; reflexivity|right; apply IH; auto].
Qed.

(* emissions of a step that is not a Tick are never resends of the proxy *)
Lemma send_injected_no_resend : forall st d rel k0 k e,
  In e (snd (send_injected st d rel k0)) -> is_resend k e = false.
Proof.
  intros st d rel k0 k e He. rewrite (send_injected_emits _ _ _ _ _ He). reflexivity.
Qed.

Lemma send_forward_no_resend : forall st m k e, In e (snd (send_forward st m)) -> is_resend k e = false.
Proof.
  intros st m k e He. assert (X := send_forward_exact st m).
  destruct (snd (send_forward st m)) as [|e0 [|e1 l]]; [destruct He| |destruct X].
  destruct He as [<-|[]]. destruct X as (_ & _ & _ & _ & _ & _ & S). unfold is_resend. rewrite S. reflexivity.
Qed.

Lemma drop_message_no_resend : forall st m k e, In e (snd (drop_message st m)) -> is_resend k e = false.
Proof.
  intros st m k e He. unfold drop_message in He.
  set (d := r_dir m) in *. set (st1 := set_fwd st d (mark_dropped (fwd_tr st d) (r_pid m))) in *.
  destruct (r_rel m).
  - destruct (send_injected st1 (inv_dir d) false (PacketAck [r_pid m])) as [st2 e1] eqn:S.
    assert (H1 : forall x, In x e1 -> is_resend k x = false).
    { intros x Hx. apply (send_injected_no_resend st1 (inv_dir d) false (PacketAck [r_pid m])). rewrite S. exact Hx. }
    destruct (rewrite_acks (rev_tr st2 d) (r_acks m)); cbn [snd] in He; auto.
    apply in_app_or in He as [He|[<-|[]]]; auto.
  - destruct (rewrite_acks (rev_tr st1 d) (r_acks m)); cbn [snd] in He; [destruct He|].
    destruct He as [<-|[]]. reflexivity.
Qed.

(* the unacked table after send_injected / drop_message keeps every old entry *)
Lemma send_injected_keeps : forall st d rel k0 p,
  UInv st -> In p (unacked st) -> In p (unacked (fst (send_injected st d rel k0))).
Proof.
  intros st d rel k0 p (Hn & He) Hi. unfold send_injected.
  destruct (gen (fwd_tr st d)) as [t' id] eqn:G. cbn [fst].
  assert (Hid : id = pbase (fwd_tr st d) + 1) by (destruct (gen_pbase (fwd_tr st d)) as (_ & X); rewrite G in X; exact X).
  destruct rel; [|rewrite unacked_set_fwd; exact Hi].
  unfold set_unacked. cbn [unacked]. rewrite unacked_set_fwd. apply dict_set_keeps; auto.
  intros E. destruct p as [[d0 i0] r0]. cbn in E. injection E as -> ->.
  specialize (He _ Hi). cbn in He. lia.
Qed.

Lemma drop_message_keeps : forall st m p,
  UInv st -> In p (unacked st) -> In p (unacked (fst (drop_message st m))).
Proof.
  intros st m p HU Hi. unfold drop_message.
  set (d := r_dir m). set (st1 := set_fwd st d (mark_dropped (fwd_tr st d) (r_pid m))).
  assert (H1 : UInv st1 /\ In p (unacked st1)).
  { split; [|unfold st1; rewrite unacked_set_fwd; exact Hi].
    destruct HU as (Hn & He). split.
    - unfold st1. rewrite unacked_set_fwd. exact Hn.
    - intros q Hq. unfold st1 in Hq. rewrite unacked_set_fwd in Hq. apply (entry_ok_mono st); auto.
      intros d'. unfold st1. destruct d, d'; cbn [fwd_tr set_fwd t_in t_out]; try lia;
        unfold mark_dropped; destruct (memz _ _); cbn [pbase]; lia. }
  destruct H1 as (HU1 & Hi1).
  destruct (r_rel m).
  - assert (X := send_injected_keeps st1 (inv_dir d) false (PacketAck [r_pid m]) p HU1 Hi1).
    destruct (send_injected st1 (inv_dir d) false (PacketAck [r_pid m])) as [st2 e1]. cbn [fst] in X.
    destruct (rewrite_acks (rev_tr st2 d) (r_acks m)); exact X.
  - destruct (rewrite_acks (rev_tr st1 d) (r_acks m)); exact Hi1.
Qed.

(* one step seen from a queued packet k that the event does not acknowledge *)
Lemma budget_step : forall st ev k ri,
  UInv st -> In (k, ri) (unacked st) -> acks_key ev k = false ->
  let '(st', es, ss) := step st ev in
  (exists ri', In (k, ri') (unacked st') /\ ri_msg ri' = ri_msg ri /\
               cnt (is_resend k) es = ri_tries ri - ri_tries ri' /\ cnt (is_timeout k) ss = 0) \/
  (~ In k (keys (unacked st')) /\ ri_tries ri = 1 /\
   cnt (is_resend k) es = 0 /\ cnt (is_timeout k) ss = 1).
Proof.
  intros st ev k ri HU Hi Hno.
  assert (Hsig : forall m, acks_key (Recv m) k = false ->
            cnt (is_timeout k) (snd (collect (unacked st) (inv_dir (r_dir m)) (all_acks m))) = 0).
  { intros m _. apply cnt_none. intros s Hs.
    destruct (collect_signals _ _ _ _ (proj1 HU) Hs) as (a & -> & _). reflexivity. }
  destruct ev as [m|m|d rel k0|dt]; cbn [step].
  - (* Recv *)
    assert (Hk := collect_keeps (all_acks m) (unacked st) (inv_dir (r_dir m)) k ri Hi Hno).
    specialize (Hsig m Hno). unfold collect_acks.
    destruct (collect (unacked st) (inv_dir (r_dir m)) (all_acks m)) as [u ss]. cbn [fst snd] in *.
    destruct (send_forward (set_unacked st u) m) as [st2 es] eqn:S.
    left. exists ri. split.
    + replace st2 with (fst (send_forward (set_unacked st u) m)) by (rewrite S; reflexivity).
      rewrite unacked_send_forward. exact Hk.
    + split; auto. split; [|exact Hsig].
      rewrite cnt_none; [lia|]. intros e He. apply (send_forward_no_resend (set_unacked st u) m). rewrite S. exact He.
  - (* RecvDrop *)
    assert (Hk := collect_keeps (all_acks m) (unacked st) (inv_dir (r_dir m)) k ri Hi Hno).
    specialize (Hsig m Hno).
    assert (HU1 := UInv_collect_acks st m HU). rewrite <- unacked_collect_acks in Hk.
    unfold collect_acks in *.
    destruct (collect (unacked st) (inv_dir (r_dir m)) (all_acks m)) as [u ss]. cbn [fst snd] in *.
    destruct (drop_message (set_unacked st u) m) as [st2 es] eqn:S.
    left. exists ri. split.
    + replace st2 with (fst (drop_message (set_unacked st u) m)) by (rewrite S; reflexivity).
      apply drop_message_keeps; auto.
    + split; auto. split; [|exact Hsig].
      rewrite cnt_none; [lia|]. intros e He. apply (drop_message_no_resend (set_unacked st u) m). rewrite S. exact He.
  - (* Inj *)
    destruct (send_injected st d rel k0) as [st1 es] eqn:S.
    left. exists ri. split.
    + replace st1 with (fst (send_injected st d rel k0)) by (rewrite S; reflexivity).
      apply send_injected_keeps; auto.
    + split; auto. split; [|reflexivity].
      rewrite cnt_none; [lia|]. intros e He. apply (send_injected_no_resend st d rel k0). rewrite S. exact He.
  - (* Tick *)
    assert (S := resend_spec (now st + dt) (every st) (unacked st)).
    destruct (resend (now st + dt) (every st) (unacked st)) as [[u es] ss].
    destruct S as (-> & -> & ->). cbn [unacked].
    destruct HU as (Hn & He).
    set (nw := now st + dt) in *. set (evy := every st) in *.
    (* counts *)
    assert (Hce : cnt (is_resend k)
              (map (fun p => resent_of (ri_msg (snd p)))
                 (filter (fun p => due nw evy (snd p) && negb (ri_tries (snd p) - 1 =? 0)) (unacked st))) =
            if due nw evy ri && negb (ri_tries ri - 1 =? 0) then 1 else 0).
    { rewrite (cnt_map _ _ _ (is_resend k) (fun p => key_eqb (fst p) k)).
      - exact (cnt_key_filter (fun p => due nw evy (snd p) && negb (ri_tries (snd p) - 1 =? 0)) (unacked st) k ri Hn Hi).
      - intros [[d0 i0] r0] Hp. apply filter_In in Hp as (Hp & _). specialize (He _ Hp). cbn in He.
        destruct He as (A & B & _ & D & _). unfold is_resend, resent_of. cbn [e_syn e_resent e_dir e_id snd fst].
        rewrite A, B, D. reflexivity. }
    assert (Hcs : cnt (is_timeout k)
              (map (fun p => TimedOut (fst (fst p)) (snd (fst p)))
                 (filter (fun p => due nw evy (snd p) && (ri_tries (snd p) - 1 =? 0)) (unacked st))) =
            if due nw evy ri && (ri_tries ri - 1 =? 0) then 1 else 0).
    { rewrite (cnt_map _ _ _ (is_timeout k) (fun p => key_eqb (fst p) k)).
      - exact (cnt_key_filter (fun p => due nw evy (snd p) && (ri_tries (snd p) - 1 =? 0)) (unacked st) k ri Hn Hi).
      - intros [[d0 i0] r0] _. reflexivity. }
    rewrite Hce, Hcs.
    destruct (due nw evy ri) eqn:D; cbn [andb].
    + destruct (ri_tries ri - 1 =? 0) eqn:T; cbn [negb].
      * right. split; [|apply Z.eqb_eq in T; repeat split; lia].
        intros Hin. unfold keys in Hin. apply in_map_iff in Hin as (p & Hpk & Hp).
        apply in_flat_map in Hp as ([k1 r1] & Hin1 & Hp). cbn [snd fst] in Hp.
        assert (k1 = k).
        { destruct (due nw evy r1); [destruct (ri_tries r1 - 1 =? 0); [destruct Hp|]|]; destruct Hp as [<-|[]]; exact Hpk. }
        subst k1.
        assert (r1 = ri).
        { clear - Hn Hi Hin1. induction (unacked st) as [|[k2 r2] t IH]; [destruct Hi|].
          cbn [keys map fst] in Hn. inversion Hn as [|? ? H1 H2]; subst.
          destruct Hi as [Hi|Hi], Hin1 as [Hj|Hj].
          - congruence.
          - injection Hi as -> ->. exfalso. apply H1. unfold keys. apply in_map_iff. exists (k, r1). auto.
          - injection Hj as -> ->. exfalso. apply H1. unfold keys. apply in_map_iff. exists (k, ri). auto.
          - apply IH; auto. }
        subst r1. rewrite D, T in Hp. destruct Hp.
      * left. exists (mkRI nw (ri_tries ri - 1) (ri_msg ri)). split.
        -- apply in_flat_map. exists (k, ri). split; auto. cbn [snd fst]. rewrite D, T. left. reflexivity.
        -- cbn [ri_tries ri_msg]. repeat split; lia.
    + left. exists ri. split.
      * apply in_flat_map. exists (k, ri). split; auto. cbn [snd]. rewrite D. left. reflexivity.
      * repeat split; lia.
Qed.

Definition resends (k : dir * Z) (tr : list obs) : Z :=
  fold_right (fun o acc => cnt (is_resend k) (snd (fst o)) + acc) 0 tr.
Definition timeouts (k : dir * Z) (tr : list obs) : Z :=
  fold_right (fun o acc => cnt (is_timeout k) (snd o) + acc) 0 tr.

(* once gone, nothing more happens for k *)
Lemma gone_quiet : forall post st k, UInv st -> gone st k ->
  resends k (snd (run_trace st post)) = 0 /\ timeouts k (snd (run_trace st post)) = 0.
Proof.
  induction post as [|ev post IH]; intros st k HU Hg; [split; reflexivity|].
  cbn [run_trace].
  assert (HU' := UInv_step st ev ltac:(lia) HU). assert (Hg' := gone_step st ev k Hg).
  assert (He : cnt (is_resend k) (snd (fst (step st ev))) = 0).
  { apply cnt_none. intros e He. destruct ev as [m|m|d rel k0|dt].
    - cbn [step] in He. destruct (collect_acks st m) as [st1 ss]. destruct (send_forward st1 m) as [st2 es] eqn:S.
      cbn [fst snd] in He. apply (send_forward_no_resend st1 m). rewrite S. exact He.
    - cbn [step] in He. destruct (collect_acks st m) as [st1 ss]. destruct (drop_message st1 m) as [st2 es] eqn:S.
      cbn [fst snd] in He. apply (drop_message_no_resend st1 m). rewrite S. exact He.
    - cbn [step] in He. destruct (send_injected st d rel k0) as [st1 es] eqn:S.
      cbn [fst snd] in He. apply (send_injected_no_resend st d rel k0). rewrite S. exact He.
    - destruct (tick_emissions st dt e HU He) as (Hk & _). unfold is_resend.
      destruct (key_eqb (e_dir e, e_id e) k) eqn:E; [|apply andb_false_r].
      apply key_eqb_eq in E. rewrite E in Hk. exfalso. apply (proj1 Hg), Hk. }
  assert (Hs : cnt (is_timeout k) (snd (step st ev)) = 0).
  { apply cnt_none. intros s Hs. destruct (signal_gone st ev s HU Hs) as (Hk & _).
    destruct s as [d id|d id]; [reflexivity|]. cbn [is_timeout].
    destruct (key_eqb (d, id) k) eqn:E; auto. apply key_eqb_eq in E. rewrite E in Hk. exfalso. apply (proj1 Hg), Hk. }
  unfold next in HU', Hg'.
  destruct (step st ev) as [[st1 es] ss]. cbn [fst snd] in *.
  destruct (IH st1 k HU' Hg') as (I1 & I2).
  destruct (run_trace st1 post) as [st2 tr]. cbn [snd fst] in *.
  unfold resends, timeouts in *. cbn [fold_right snd fst]. rewrite I1, I2, He, Hs. split; reflexivity.
Qed.

(* THE retry budget: a queued packet with t tries left that nobody acknowledges is, over any
   continuation, retransmitted (t - tries still left) times while queued; and once it has
   left the queue it was retransmitted exactly t - 1 times and timed out exactly once *)
Lemma budget_trace : forall post st k ri,
  UInv st -> In (k, ri) (unacked st) -> (forall ev, In ev post -> acks_key ev k = false) ->
  let '(st', tr) := run_trace st post in
  (exists ri', In (k, ri') (unacked st') /\ resends k tr = ri_tries ri - ri_tries ri' /\ timeouts k tr = 0) \/
  (~ In k (keys (unacked st')) /\ resends k tr = ri_tries ri - 1 /\ timeouts k tr = 1).
Proof.
  induction post as [|ev post IH]; intros st k ri HU Hi Hno; cbn [run_trace].
  - left. exists ri. repeat split; auto. cbn. lia.
  - assert (B := budget_step st ev k ri HU Hi (Hno ev (or_introl eq_refl))).
    assert (HU' := UInv_step st ev ltac:(lia) HU).
    assert (Hgs : forall s, In s (snd (step st ev)) -> is_timeout k s = true -> gone (next st ev) k).
    { intros s Hs Ht. destruct (signal_gone st ev s HU Hs) as (_ & Hg).
      destruct s as [d id|d id]; [discriminate|]. cbn [is_timeout] in Ht. apply key_eqb_eq in Ht. rewrite <- Ht. exact Hg. }
    unfold next in HU', Hgs.
    destruct (step st ev) as [[st1 es] ss]. cbn [fst snd] in *.
    destruct B as [(ri' & Hi' & _ & Hc & Ht)|(Hgone & Ht1 & Hc & Ht)].
    + specialize (IH st1 k ri' HU' Hi' (fun e He => Hno e (or_intror He))).
      destruct (run_trace st1 post) as [st2 tr]. cbn [resends timeouts fold_right fst snd].
      fold (resends k tr) (timeouts k tr).
      destruct IH as [(r2 & H2 & R & T)|(G & R & T)]; [left; exists r2|right]; repeat split; auto; lia.
    + assert (Hg : gone st1 k).
      { (* some signal of this step is the timeout of k *)
        assert (exists s, In s ss /\ is_timeout k s = true) as (s & Hs & Hts).
        { clear - Ht. induction ss as [|s ss IH]; [cbn in Ht; lia|]. rewrite cnt_cons in Ht.
          destruct (is_timeout k s) eqn:E; [exists s; split; [left; auto|auto]|].
          destruct IH as (s' & A & B); [lia|]. exists s'. split; [right; auto|auto]. }
        exact (Hgs s Hs Hts). }
      destruct (gone_quiet post st1 k HU' Hg) as (Q1 & Q2).
      assert (Hstay : ~ In k (keys (unacked (fst (run_trace st1 post))))).
      { assert (X := gone_run post st1 k Hg). 
        assert (E : fst (run_trace st1 post) = run_state st1 post).
        { clear. revert st1. induction post as [|e post IH]; intros st1; [reflexivity|].
          cbn [run_trace]. unfold run_state in *. cbn [fold_left].
          destruct (step st1 e) as [[s1 es] ss] eqn:S. cbn [fst].
          specialize (IH s1). destruct (run_trace s1 post) as [s2 tr]. cbn [fst] in *. exact IH. }
        rewrite E. apply X. }
      destruct (run_trace st1 post) as [st2 tr]. unfold resends, timeouts in *. cbn [fold_right fst snd] in *.
      right. rewrite Q1, Q2. repeat split; auto; lia.
Qed.

(* from the injection itself: the packet goes out once, and if nobody acknowledges it, it is
   retransmitted exactly 9 times and times out exactly once by the time it has left the queue *)
Lemma inject_budget : forall m e pre d k0 post,
  let s := reach m e pre in
  let id := snd (gen (fwd_tr s d)) in
  (forall ev, In ev post -> acks_key ev (d, id) = false) ->
  let '(st', tr) := run_trace (next s (Inj d true k0)) post in
  snd (fst (step s (Inj d true k0))) = [mkE d id true false [] k0 true] /\
  ((exists ri', In ((d, id), ri') (unacked st') /\ resends (d, id) tr = TRIES - ri_tries ri' /\
                1 <= ri_tries ri' /\ timeouts (d, id) tr = 0) \/
   (~ In (d, id) (keys (unacked st')) /\ resends (d, id) tr = TRIES - 1 /\ timeouts (d, id) tr = 1)).
Proof.
  intros m e pre d k0 post s id Hno.
  assert (HU : UInv s) by apply reach_UInv.
  assert (HU1 := UInv_step s (Inj d true k0) ltac:(lia) HU).
  assert (Hin : In ((d, id), mkRI (now s) TRIES (mkE d id true false [] k0 true)) (unacked (next s (Inj d true k0))) /\
                snd (fst (step s (Inj d true k0))) = [mkE d id true false [] k0 true]).
  { unfold next. cbn [step]. unfold send_injected. unfold id.
    destruct (gen (fwd_tr s d)) as [t' i]. cbn [fst snd unacked set_unacked].
    rewrite unacked_set_fwd, now_set_fwd. split; [|reflexivity].
    clear. induction (unacked s) as [|[k1 v1] t IH]; cbn [dict_set]; [left; reflexivity|].
    destruct (key_eqb k1 (d, i)); [left; reflexivity|right; exact IH]. }
  destruct Hin as (Hin & Hem).
  assert (B := budget_trace post (next s (Inj d true k0)) (d, id) _ HU1 Hin Hno).
  assert (HUf : UInv (fst (run_trace (next s (Inj d true k0)) post))).
  { assert (E : forall st, fst (run_trace st post) = run_state st post).
    { clear. induction post as [|ev post IH]; intros st; [reflexivity|].
      cbn [run_trace]. unfold run_state in *. cbn [fold_left].
      destruct (step st ev) as [[s1 es] ss] eqn:S. cbn [fst].
      specialize (IH s1). destruct (run_trace s1 post) as [s2 tr]. cbn [fst] in *. exact IH. }
    rewrite E. apply UInv_run, HU1. }
  destruct (run_trace (next s (Inj d true k0)) post) as [st' tr]. cbn [fst] in HUf.
  split; [exact Hem|]. cbn [ri_tries] in B.
  destruct B as [(ri' & H1 & H2 & H3)|B]; [left|right; exact B].
  exists ri'. repeat split; auto.
  destruct HUf as (_ & He). specialize (He _ H1). cbn in He. lia.
Qed.

(* ------------------------------------------------------------------ *)
(* inj_acks_hidden, for every received packet in every state *)
Lemma inj_acks_hidden : forall st msg,
  let rev := rev_tr st (r_dir msg) in
  (forall em a, In em (snd (send_forward st msg)) -> In a (shown_acks em) ->
     exists w, In w (all_acks msg) /\ was_injected rev w = false /\ orig rev w = Some a) /\
  (snd (send_forward st msg) = [] <->
     exists ids, r_kind msg = PacketAck ids /\ rewrite_acks rev ids = [] /\ rewrite_acks rev (r_acks msg) = []) /\
  (forall ids, r_kind msg = PacketAck ids ->
     (forall w, In w (ids ++ r_acks msg) -> was_injected rev w = true) ->
     snd (send_forward st msg) = []).
Proof.
  intros st msg rev. split; [|split].
  - intros em a He Ha. destruct (send_forward_sources st msg em a He Ha) as (_ & _ & H). exact H.
  - apply send_forward_silent_iff.
  - intros ids K Hall. apply send_forward_silent_iff. exists ids. split; auto. split.
    + apply rewrite_acks_all_injected. intros w Hw. apply Hall. apply in_or_app. left. exact Hw.
    + apply rewrite_acks_all_injected. intros w Hw. apply Hall. apply in_or_app. right. exact Hw.
Qed.
