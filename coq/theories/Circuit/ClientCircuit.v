(* Model of the client endpoint's reliability layer:

     hippolyzer/lib/base/message/circuit.py  Circuit.prepare_message / send /
        send_reliable / collect_acks / resend_unacked / send_acks /
        track_reliable / disconnect
     hippolyzer/lib/client/hippo_client.py   HippoClientProtocol.datagram_received

   Definitions only; the proofs are in ClientProofs.v.

   Time: the wall clock (dt.datetime.now()) is replaced by a logical clock in
   milliseconds that only the explicit [ETick] event advances; the asyncio
   resend task is replaced by the explicit [EResend] event (one call of
   Circuit.resend_unacked).

   A received datagram is given already decoded ([packet]); the subscriber
   lists of the two MessageHandlers are abstracted to one [ODispatch] output
   per level (MessageHandler.handle was called with the message).

   The client only originates Direction.OUT messages and every received
   message is Direction.IN, so the direction component of the
   [unacked_reliable] key is constant and omitted: the key is the packet id.

   Ghost components (not in the Python state, used to state the theorems):
   [st_nfut] numbers the asyncio futures in creation order, [st_epoch] counts
   disconnects, and the outputs [OTracked]/[ODone]/[OFailed]/[ODisc] record
   future creation, set_result, set_exception and disconnect. *)
From Coq Require Import NArith List Bool Arith.
Import ListNotations.
Open Scope N_scope.

Record config := mkConfig {
  cf_window : nat;   (* deque(maxlen=1_000) *)
  cf_tries : N;      (* ReliableResendInfo.tries_left = 10 *)
  cf_every : N       (* resend_every = 3.0 s, in ms *)
}.

Definition real_config : config := mkConfig 1000 10 3000.

(* ReliableResendInfo *)
Record rinfo := mkInfo {
  ri_last : N;       (* last_resent *)
  ri_tries : N;      (* tries_left *)
  ri_fut : nat       (* completed: handle of the future *)
}.

Definition dict := list (N * rinfo).   (* a Python dict: insertion ordered, unique keys *)

Record state := mkState {
  st_next : N;         (* packet_id_base *)
  st_unacked : dict;   (* unacked_reliable *)
  st_seen : list N;    (* seen_reliable, oldest first *)
  st_now : N;          (* logical clock *)
  st_nfut : nat;       (* ghost *)
  st_epoch : nat       (* ghost *)
}.

Definition init : state := mkState 0 [] [] 0 0 0.

Record packet := mkPacket {
  p_known : bool;      (* session.region_by_circuit_addr(source_addr) found a region *)
  p_banned : bool;     (* not message_xml.validate_udp_msg(message.name) *)
  p_reliable : bool;   (* message.reliable *)
  p_id : N;            (* message.packet_id *)
  p_acks : list N;     (* message.acks (appended acks) *)
  p_pa : list N        (* [x["ID"] for x in message["Packets"]] when message.name == "PacketAck", else [] *)
}.

Inductive event :=
| ERecv (p : packet)                       (* HippoClientProtocol.datagram_received *)
| ESend (reliable synthetic : bool)        (* Circuit.send of a fresh message *)
| ESendReliable (synthetic : bool)         (* Circuit.send_reliable of a fresh message *)
| ETick (d : N)                            (* the clock advances by d ms *)
| EResend                                  (* Circuit.resend_unacked *)
| EDisconnect.                             (* Circuit.disconnect *)

Inductive level := Session | Region.

Inductive output :=
| OSent (id : N) (reliable : bool)                  (* datagram: a message we originate, fresh packet id *)
| OTracked (h : nat) (id : N) (ep : nat) (t : N)    (* ghost: ReliableResendInfo with future h created for id *)
| OAckSent (id : N) (acked : N)                     (* datagram: PacketAck with packet id [id] and one block ID=[acked] *)
| OResent (h : nat) (id : N) (t : N)                (* datagram: copy of the message of future h, RESENT flag, same id *)
| ODispatch (l : level) (pid : N) (reliable : bool) (* MessageHandler.handle(message) at that level *)
| ODone (h : nat)                                   (* completed.set_result(None) *)
| OFailed (h : nat)                                 (* completed.set_exception(TimeoutError) *)
| ORaise                                            (* PermissionError (UDP ban) / ValueError (send_reliable) *)
| ODisc.                                            (* ghost: disconnect happened *)

(* ---- dict operations ---- *)

Fixpoint dict_get (k : N) (d : dict) : option rinfo :=
  match d with
  | [] => None
  | (k', v) :: r => if k =? k' then Some v else dict_get k r
  end.

Fixpoint dict_del (k : N) (d : dict) : dict :=
  match d with
  | [] => []
  | (k', v) :: r => if k =? k' then r else (k', v) :: dict_del k r
  end.

(* d[k] = v : keeps the position of an existing key, appends a new one *)
Fixpoint dict_set (k : N) (v : rinfo) (d : dict) : dict :=
  match d with
  | [] => [(k, v)]
  | (k', v') :: r => if k =? k' then (k, v) :: r else (k', v') :: dict_set k v r
  end.

(* ---- Circuit.collect_acks ---- *)

Definition eff_acks (p : packet) : list N := p_acks p ++ p_pa p.

Fixpoint collect_acks (acks : list N) (u : dict) : dict * list output :=
  match acks with
  | [] => (u, [])
  | a :: r =>
      match dict_get a u with
      | Some info =>
          let (u', o) := collect_acks r (dict_del a u) in
          (u', ODone (ri_fut info) :: o)
      | None => collect_acks r u
      end
  end.

(* ---- Circuit.track_reliable on deque(maxlen=w) ---- *)

Definition deque_append (w : nat) (x : N) (q : list N) : list N :=
  let q' := q ++ [x] in skipn (length q' - w) q'.

Definition track (w : nat) (pid : N) (seen : list N) : bool * list N :=
  if existsb (N.eqb pid) seen then (false, seen)
  else (true, deque_append w pid seen).

(* ---- Circuit.send (prepare_message + tracking + datagram) ---- *)

Definition send (cfg : config) (s : state) (reliable synthetic : bool) : state * list output :=
  let id := st_next s in
  if reliable && synthetic then
    (mkState (id + 1)
             (dict_set id (mkInfo (st_now s) (cf_tries cfg) (st_nfut s)) (st_unacked s))
             (st_seen s) (st_now s) (S (st_nfut s)) (st_epoch s),
     [OTracked (st_nfut s) id (st_epoch s) (st_now s); OSent id true])
  else
    (mkState (id + 1) (st_unacked s) (st_seen s) (st_now s) (st_nfut s) (st_epoch s),
     [OSent id reliable]).

(* ---- Circuit.resend_unacked: loop over list(unacked_reliable.values()) ---- *)

Fixpoint resend_loop (cfg : config) (now : N) (snapshot : dict) (u : dict) : dict * list output :=
  match snapshot with
  | [] => (u, [])
  | (id, info) :: r =>
      if now - ri_last info <? cf_every cfg then resend_loop cfg now r u
      else
        let tries := ri_tries info - 1 in
        if tries =? 0 then
          let (u', o) := resend_loop cfg now r (dict_del id u) in
          (u', OFailed (ri_fut info) :: o)
        else
          let (u', o) := resend_loop cfg now r (dict_set id (mkInfo now tries (ri_fut info)) u) in
          (u', OResent (ri_fut info) id now :: o)
  end.

(* ---- HippoClientProtocol.datagram_received ---- *)

Definition accepted (p : packet) : bool := p_known p && negb (p_banned p).

Definition recv (cfg : config) (s : state) (p : packet) : state * list output :=
  if negb (p_known p) then (s, [])
  else if p_banned p then (s, [ORaise])
  else
    let (u, o1) := collect_acks (eff_acks p) (st_unacked s) in
    if p_reliable p then
      let (fresh, seen') := track (cf_window cfg) (p_id p) (st_seen s) in
      (mkState (st_next s + 1) u seen' (st_now s) (st_nfut s) (st_epoch s),
       o1 ++ OAckSent (st_next s) (p_id p)
          :: (if fresh then [ODispatch Session (p_id p) true; ODispatch Region (p_id p) true] else []))
    else
      (mkState (st_next s) u (st_seen s) (st_now s) (st_nfut s) (st_epoch s),
       o1 ++ [ODispatch Session (p_id p) false; ODispatch Region (p_id p) false]).

Definition step (cfg : config) (s : state) (e : event) : state * list output :=
  match e with
  | ERecv p => recv cfg s p
  | ESend reliable synthetic => send cfg s reliable synthetic
  | ESendReliable synthetic =>
      if synthetic then send cfg s true true else (s, [ORaise])
  | ETick d =>
      (mkState (st_next s) (st_unacked s) (st_seen s) (st_now s + d) (st_nfut s) (st_epoch s), [])
  | EResend =>
      let (u, o) := resend_loop cfg (st_now s) (st_unacked s) (st_unacked s) in
      (mkState (st_next s) u (st_seen s) (st_now s) (st_nfut s) (st_epoch s), o)
  | EDisconnect =>
      (mkState 0 [] (st_seen s) (st_now s) (st_nfut s) (S (st_epoch s)), [ODisc])
  end.

Fixpoint run (cfg : config) (s : state) (evs : list event) : state * list output :=
  match evs with
  | [] => (s, [])
  | e :: r =>
      let (s1, o1) := step cfg s e in
      let (s2, o2) := run cfg s1 r in
      (s2, o1 ++ o2)
  end.

Definition final (cfg : config) (evs : list event) : state := fst (run cfg init evs).
Definition trace (cfg : config) (evs : list event) : list output := snd (run cfg init evs).

(* ---- observations on traces and histories (used by the theorems) ---- *)

(* ids acknowledged by the PacketAck datagrams we sent, in order *)
Fixpoint acks_sent (tr : list output) : list N :=
  match tr with
  | [] => []
  | OAckSent _ a :: r => a :: acks_sent r
  | _ :: r => acks_sent r
  end.

(* ids of the reliable packets the endpoint accepted, in arrival order *)
Fixpoint reliable_arrivals (evs : list event) : list N :=
  match evs with
  | [] => []
  | ERecv p :: r => if accepted p && p_reliable p then p_id p :: reliable_arrivals r else reliable_arrivals r
  | _ :: r => reliable_arrivals r
  end.

Fixpoint unreliable_arrivals (evs : list event) : list N :=
  match evs with
  | [] => []
  | ERecv p :: r => if accepted p && negb (p_reliable p) then p_id p :: unreliable_arrivals r else unreliable_arrivals r
  | _ :: r => unreliable_arrivals r
  end.

Definition level_eqb (a b : level) : bool :=
  match a, b with Session, Session | Region, Region => true | _, _ => false end.

(* packet ids dispatched at level l with the given reliability, in order *)
Fixpoint dispatched (l : level) (rel : bool) (tr : list output) : list N :=
  match tr with
  | [] => []
  | ODispatch l' pid rel' :: r =>
      if level_eqb l l' && Bool.eqb rel rel' then pid :: dispatched l rel r else dispatched l rel r
  | _ :: r => dispatched l rel r
  end.

(* the last w elements *)
Definition lastn {A} (w : nat) (l : list A) : list A := skipn (length l - w) l.

(* freshly issued packet id carried by an output, if any *)
Definition issued (o : output) : option N :=
  match o with
  | OSent id _ => Some id
  | OAckSent id _ => Some id
  | _ => None
  end.

(* between disconnects the issued ids are next, next+1, ... ; after one they restart at 0 *)
Fixpoint ids_ok (next : N) (tr : list output) : Prop :=
  match tr with
  | [] => True
  | ODisc :: r => ids_ok 0 r
  | o :: r => match issued o with
              | Some i => i = next /\ ids_ok (next + 1) r
              | None => ids_ok next r
              end
  end.

Fixpoint count_disc (evs : list event) : nat :=
  match evs with
  | [] => O
  | EDisconnect :: r => S (count_disc r)
  | _ :: r => count_disc r
  end.

Fixpoint clock (evs : list event) : N :=
  match evs with
  | [] => 0
  | ETick d :: r => d + clock r
  | _ :: r => clock r
  end.

(* number of retransmissions of future h *)
Fixpoint nresent (h : nat) (tr : list output) : N :=
  match tr with
  | [] => 0
  | OResent h' _ _ :: r => if Nat.eqb h h' then 1 + nresent h r else nresent h r
  | _ :: r => nresent h r
  end.

(* time of the last transmission (first send or retransmission) of future h; 0 if none *)
Fixpoint last_tx (h : nat) (tr : list output) (acc : N) : N :=
  match tr with
  | [] => acc
  | OTracked h' _ _ t :: r => if Nat.eqb h h' then last_tx h r t else last_tx h r acc
  | OResent h' _ t :: r => if Nat.eqb h h' then last_tx h r t else last_tx h r acc
  | _ :: r => last_tx h r acc
  end.

(* number of completions (set_result or set_exception) of future h *)
Fixpoint ncompl (h : nat) (tr : list output) : nat :=
  match tr with
  | [] => O
  | ODone h' :: r => ((if Nat.eqb h h' then 1 else 0) + ncompl h r)%nat
  | OFailed h' :: r => ((if Nat.eqb h h' then 1 else 0) + ncompl h r)%nat
  | _ :: r => ncompl h r
  end.

Definition tracked_in (h : nat) (id : N) (ep : nat) (tr : list output) : Prop :=
  exists t, In (OTracked h id ep t) tr.

(* h is pending after history evs: created for id in the current epoch, not completed *)
Definition pending_after (cfg : config) (evs : list event) (h : nat) (id : N) : Prop :=
  tracked_in h id (count_disc evs) (trace cfg evs) /\
  ~ In (ODone h) (trace cfg evs) /\ ~ In (OFailed h) (trace cfg evs).
