(* C11 - the round-trip theorem of the framing (HumanTextProofs.text_roundtrip)
   with its per-value hypotheses discharged for the concrete literal model
   (PyLiteral.v): values of kind str / bytes / int shown in plain form need no
   hypothesis; packed (=|) forms and values of other kinds keep the abstract
   hypotheses var_ok. *)
From Coq Require Import NArith ZArith List Bool Lia.
From HV Require Import Text.HumanText Text.HumanTextLemmas Text.HumanTextProofs Text.PyLiteral Text.PyLiteralProofs.
Import ListNotations.
Open Scope N_scope.

Section Mixed.
  Variable printable : N -> bool.
  Hypothesis printable_nosur : forall c, printable c = true -> is_sur c = false.

  (* any value type that embeds the modelled kinds, with a literal reader that
     extends the modelled one *)
  Variable val : Type.
  Variable emb : pval -> val.
  Variable read_lit_v : str -> option val.
  Hypothesis read_ext : forall s v, read_lit s = Some v -> read_lit_v s = Some (emb v).

  Variable read_vec : list str -> option val.
  Variable read_uuid : str -> option val.
  Variable repl : str -> option val.
  Variable eval_fn : str -> option (list (str * val)) -> option val.
  Variable vnone : val.
  Variable has_ser : str -> str -> str -> bool.
  Variable pack : str -> str -> str -> list (str * val) -> val -> option val.
  Variable present : str -> str -> block val -> str -> val -> pres.
  Variable block_suffix : str -> str.
  Variable hdr_comments : msg val -> list str.

  Local Notation var_ok := (var_ok val read_lit_v read_vec read_uuid repl vnone has_ser pack present).
  Local Notation vars_ok := (vars_ok val read_lit_v read_vec read_uuid repl vnone has_ser pack present).
  Local Notation entry_ok := (entry_ok val read_lit_v read_vec read_uuid repl vnone has_ser pack present block_suffix).
  Local Notation wf_msg := (wf_msg val read_lit_v read_vec read_uuid repl vnone has_ser pack present block_suffix hdr_comments).

  (* the variable is a str / bytes / int shown plain by the modelled renderer
     (with or without the single-line choice a registered serializer causes) *)
  Definition shown_plain (mn bn : str) (whole : block val) (k : str) (v : val) : Prop :=
    exists ser pv, v = emb pv /\ wf_val pv = true
                   /\ present mn bn whole k v = PPlain (render_val printable ser pv).

  (* per variable: no hypothesis on the value when it is shown plain; otherwise
     the abstract hypotheses of the framing theorem *)
  Definition cvar_ok (mn bn : str) (whole pre : block val) (k : str) (v : val) (post : block val) : Prop :=
    (wordy k /\ shown_plain mn bn whole k v) \/ var_ok mn bn whole pre k v post.

  Fixpoint cvars_ok (mn bn : str) (whole pre post : block val) : Prop :=
    match post with
    | [] => True
    | (k, v) :: r => cvar_ok mn bn whole pre k v r /\ ~ In k (keys val pre) /\ cvars_ok mn bn whole (pre ++ [(k, v)]) r
    end.

  Definition centry_ok (mn : str) (e : str * list (block val)) : Prop :=
    wordy (fst e) /\ suffix_ok block_suffix (fst e) /\ Forall (fun b => cvars_ok mn (fst e) b [] b) (snd e).

  Definition cwf_msg (m : msg val) : Prop :=
    wordy (m_name val m) /\ m_flags val m < 2048 /\ NoDup (names val (m_blocks val m))
    /\ Forall (centry_ok (m_name val m)) (m_blocks val m) /\ Forall comment_ok (hdr_comments m).

  Lemma shown_plain_var_ok : forall mn bn whole pre k v post,
    wordy k -> shown_plain mn bn whole k v -> var_ok mn bn whole pre k v post.
  Proof.
    intros mn bn whole pre k v post Hk (ser & pv & Ev & Hwf & Ep).
    unfold HumanTextProofs.var_ok. split; [exact Hk|]. rewrite Ep.
    destruct (render_val_ok printable printable_nosur ser pv Hwf) as (L & (U1 & U2 & U3) & R).
    split; [apply lines_ok'_weaken; exact L|].
    unfold sniff. rewrite U1, U2, U3. subst v. apply read_ext. exact R.
  Qed.

  Lemma cvar_ok_var_ok : forall mn bn whole pre k v post,
    cvar_ok mn bn whole pre k v post -> var_ok mn bn whole pre k v post.
  Proof. intros mn bn whole pre k v post [[Hk Hs] | H]; [apply shown_plain_var_ok; assumption | exact H]. Qed.

  Lemma cvars_ok_vars_ok : forall mn bn whole post pre, cvars_ok mn bn whole pre post -> vars_ok mn bn whole pre post.
  Proof.
    intros mn bn whole. induction post as [|[k v] r IH]; intros pre H; [exact I|].
    destruct H as (H1 & H2 & H3). cbn [HumanTextProofs.vars_ok].
    split; [apply cvar_ok_var_ok; exact H1|]. split; [exact H2 | apply IH; exact H3].
  Qed.

  Lemma cwf_msg_wf_msg : forall m, cwf_msg m -> wf_msg m.
  Proof.
    intros m (H1 & H2 & H3 & H4 & H5). unfold HumanTextProofs.wf_msg.
    split; [exact H1|]. split; [exact H2|]. split; [exact H3|]. split; [|exact H5].
    eapply Forall_impl; [|exact H4]. intros e (E1 & E2 & E3). unfold HumanTextProofs.entry_ok.
    split; [exact E1|]. split; [exact E2|].
    eapply Forall_impl; [|exact E3]. intros b Hb. apply cvars_ok_vars_ok. exact Hb.
  Qed.

  Theorem text_roundtrip_mixed : forall safe m, cwf_msg m ->
    from_human val read_lit_v read_vec read_uuid repl eval_fn vnone has_ser pack safe
      (to_human val present block_suffix hdr_comments m) = OMsg val m [].
  Proof. intros safe m H. apply text_roundtrip. apply cwf_msg_wf_msg. exact H. Qed.
End Mixed.

(* ---------------------------------------------------------------- fully concrete *)

Section Concrete.
  Variable printable : N -> bool.
  Hypothesis printable_nosur : forall c, printable c = true -> is_sur c = false.

  Variable read_vec : list str -> option pval.
  Variable read_uuid : str -> option pval.
  Variable repl : str -> option pval.
  Variable eval_fn : str -> option (list (str * pval)) -> option pval.
  Variable has_ser : str -> str -> str -> bool.
  Variable pack : str -> str -> str -> list (str * pval) -> pval -> option pval.
  Variable block_suffix : str -> str.
  Variable hdr_comments : msg pval -> list str.

  (* a block whose variables have distinct word names and Python values of the
     modelled kinds *)
  Definition plain_block (b : block pval) : Prop :=
    NoDup (keys pval b) /\ Forall (fun kv => wordy (fst kv) /\ wf_val (snd kv) = true) b.

  (* structural conditions only: names are non-empty words, block names and the
     variable names of a block are distinct, flags fit the header, the block
     suffix and the header comments are what the formatter writes *)
  Definition plain_msg (m : msg pval) : Prop :=
    wordy (m_name pval m) /\ m_flags pval m < 2048 /\ NoDup (names pval (m_blocks pval m))
    /\ Forall (fun e => wordy (fst e) /\ suffix_ok block_suffix (fst e) /\ Forall plain_block (snd e)) (m_blocks pval m)
    /\ Forall comment_ok (hdr_comments m).

  Local Notation present := (c_present printable has_ser).

  Lemma plain_cvars : forall mn bn whole post pre,
    NoDup (keys pval pre ++ keys pval post) ->
    Forall (fun kv => wordy (fst kv) /\ wf_val (snd kv) = true) post ->
    cvars_ok printable pval (fun v => v) read_lit read_vec read_uuid repl VNone has_ser pack present mn bn whole pre post.
  Proof.
    intros mn bn whole. induction post as [|[k v] r IH]; intros pre Hnd H; [exact I|].
    inversion H as [|? ? [Hk Hv] Hr]; subst. cbn [fst snd] in *. cbn [cvars_ok].
    split; [|split].
    - left. split; [exact Hk|]. exists (has_ser mn bn k), v. split; [reflexivity|]. split; [exact Hv | reflexivity].
    - unfold keys in Hnd. cbn [map fst] in Hnd. apply NoDup_remove_2 in Hnd.
      intro X. apply Hnd. apply in_or_app. left. exact X.
    - apply IH; [|exact Hr]. unfold keys in *. rewrite map_app. cbn [map fst]. rewrite <- app_assoc. exact Hnd.
  Qed.

  Lemma plain_msg_cwf : forall m, plain_msg m ->
    cwf_msg printable pval (fun v => v) read_lit read_vec read_uuid repl VNone has_ser pack present block_suffix hdr_comments m.
  Proof.
    intros m (H1 & H2 & H3 & H4 & H5). unfold cwf_msg.
    split; [exact H1|]. split; [exact H2|]. split; [exact H3|]. split; [|exact H5].
    eapply Forall_impl; [|exact H4]. intros e (E1 & E2 & E3). unfold centry_ok.
    split; [exact E1|]. split; [exact E2|].
    eapply Forall_impl; [|exact E3]. intros b [B1 B2]. apply plain_cvars; [exact B1 | exact B2].
  Qed.

  Theorem text_roundtrip_concrete : forall safe m, plain_msg m ->
    from_human pval read_lit read_vec read_uuid repl eval_fn VNone has_ser pack safe
      (to_human pval present block_suffix hdr_comments m) = OMsg pval m [].
  Proof.
    intros safe m H.
    apply (text_roundtrip_mixed printable printable_nosur pval (fun v => v) read_lit).
    - intros s v E. exact E.
    - apply plain_msg_cwf. exact H.
  Qed.
End Concrete.

(* the block suffixes to_human_string writes satisfy suffix_ok *)
Definition s_VARIABLE_sfx : str := [SP; SP; HASH; SP; 86; 97; 114; 105; 97; 98; 108; 101].
Definition std_suffix (is_variable : str -> bool) (bn : str) : str :=
  if is_variable bn then s_VARIABLE_sfx else [].

Lemma std_suffix_ok : forall is_variable bn, suffix_ok (std_suffix is_variable) bn.
Proof.
  intros iv bn. unfold suffix_ok, std_suffix. destruct (iv bn).
  - repeat split. unfold empty_marker.
    replace (LBR :: bn ++ RBR :: s_VARIABLE_sfx) with ((LBR :: bn ++ [RBR]) ++ s_VARIABLE_sfx)
      by (cbn [app]; rewrite <- app_assoc; reflexivity).
    rewrite rev_app_distr. reflexivity.
  - repeat split. unfold empty_marker.
    replace (LBR :: bn ++ [RBR]) with ((LBR :: bn) ++ [RBR]) by reflexivity.
    rewrite rev_app_distr. reflexivity.
Qed.

(* ---------------------------------------------------------------- a worked instance *)

(* a printable oracle for the examples: ASCII only (CPython's agrees with it below U+007F) *)
Definition ex_printable (c : N) : bool := (32 <=? c) && (c <? 127).
Lemma ex_printable_nosur : forall c, ex_printable c = true -> is_sur c = false.
Proof. intros c H. unfold ex_printable, is_sur in *. lia. Qed.

Definition ex_no_ser (mn bn k : str) : bool := false.
Definition ex_no_suffix : str -> str := std_suffix (fun _ => false).
Definition ex_no_comments (m : msg pval) : list str := [].

(* OUT TestMessage [RELIABLE]; two TestBlock1 blocks and an empty NeighborBlock list.
   Test1: seven lines with both quotes, an empty line and a backslash before a
   newline; Data: bytes with NUL, 0xff, both quotes, a backslash, a newline;
   Num: a negative int; Wide: a string whose repr exceeds 100 columns *)
Definition ex_s7 : str :=
  [73;116;39;115;32;97;32;34;116;101;115;116;34;10;108;105;110;101;50;10;108;105;110;101;51;10;10;108;105;110;101;53;32;92;10;108;105;110;101;54;10;101;110;100].
Definition ex_bytes : str := [97;98;0;255;39;34;92;10].
Definition ex_wide : str :=
  concat (repeat [119;111;114;100;32] 30) ++ [116;97;105;108].

Definition ex_cmsg : msg pval :=
  {| m_in := false; m_name := [84;101;115;116;77;101;115;115;97;103;101]; m_flags := 64;
     m_blocks :=
       [ ([84;101;115;116;66;108;111;99;107;49],
          [ [ ([84;101;115;116;49], VStr ex_s7);
              ([68;97;116;97], VBytes ex_bytes);
              ([78;117;109], VInt (-42));
              ([87;105;100;101], VStr ex_wide) ];
            [ ([84;101;115;116;49], VStr []) ] ]);
         ([78;101;105;103;104;98;111;114;66;108;111;99;107], []) ] |}.

Definition cx_to : msg pval -> str :=
  to_human pval (c_present ex_printable ex_no_ser) ex_no_suffix ex_no_comments.
Definition cx_from (safe : bool) : str -> outcome pval :=
  from_human pval read_lit (fun _ => None) (fun _ => None) (fun _ => None) (fun _ _ => None) VNone
             ex_no_ser (fun _ _ _ _ _ => None) safe.

(* the text HumanMessageSerializer.to_human_string prints for this message
   (recorded from the implementation) *)
Definition ex_ctext : str :=
  [79;85;84;32;84;101;115;116;77;101;115;115;97;103;101;32;91;82;69;76;73;65;66;76;69;93;10;10;91;84;101;115;116;66;108;111;99;107;49;93;10;32;32;84;101;115;116;49;32;61;32;40;39;73;116;92;39;115;32;97;32;34;116;101;115;116;34;92;110;39;32;92;10;32;32;32;32;39;108;105;110;101;50;92;110;39;32;92;10;32;32;32;32;39;108;105;110;101;51;92;110;39;32;92;10;32;32;32;32;39;92;110;39;32;92;10;32;32;32;32;39;108;105;110;101;53;32;92;92;92;110;39;32;92;10;32;32;32;32;39;108;105;110;101;54;92;110;39;32;92;10;32;32;32;32;39;101;110;100;39;41;10;32;32;68;97;116;97;32;61;32;98;39;97;98;92;120;48;48;92;120;102;102;92;39;34;92;92;92;110;39;10;32;32;78;117;109;32;61;32;45;52;50;10;32;32;87;105;100;101;32;61;32;40;39;119;111;114;100;32;119;111;114;100;32;119;111;114;100;32;119;111;114;100;32;119;111;114;100;32;119;111;114;100;32;119;111;114;100;32;119;111;114;100;32;119;111;114;100;32;119;111;114;100;32;119;111;114;100;32;119;111;114;100;32;119;111;114;100;32;119;111;114;100;32;119;111;114;100;32;119;111;114;100;32;119;111;114;100;32;119;111;114;100;32;119;111;114;100;32;39;32;92;10;32;32;32;32;32;39;119;111;114;100;32;119;111;114;100;32;119;111;114;100;32;119;111;114;100;32;119;111;114;100;32;119;111;114;100;32;119;111;114;100;32;119;111;114;100;32;119;111;114;100;32;119;111;114;100;32;119;111;114;100;32;116;97;105;108;39;41;10;91;84;101;115;116;66;108;111;99;107;49;93;10;32;32;84;101;115;116;49;32;61;32;39;39;10;91;78;101;105;103;104;98;111;114;66;108;111;99;107;93;32;32;35;32;69;77;80;84;89;10].

Lemma ex_cmsg_plain : plain_msg ex_no_suffix ex_no_comments ex_cmsg.
Proof.
  unfold plain_msg, ex_cmsg. cbn [m_name m_flags m_blocks].
  split; [split; [discriminate | reflexivity]|].
  split; [reflexivity|].
  split; [repeat constructor; cbn; intuition discriminate|].
  split; [|constructor].
  repeat (apply Forall_cons || apply Forall_nil); cbn [fst snd];
    (split; [split; [discriminate | reflexivity]|]); (split; [apply std_suffix_ok|]);
    repeat (apply Forall_cons || apply Forall_nil); unfold plain_block;
    (split; [repeat constructor; cbn; intuition discriminate|]);
    repeat (apply Forall_cons || apply Forall_nil); cbn [fst snd];
    (split; [split; [discriminate | reflexivity] | vm_compute; reflexivity]).
Qed.
