(* C11 - a concrete instance of the oracles (values are their own literal text)
   used for non-vacuity examples and for the refutation witnesses. *)
From Coq Require Import NArith List Bool Lia.
From HV Require Import Text.HumanText Text.HumanTextLemmas Text.HumanTextProofs.
Import ListNotations.
Open Scope N_scope.

Definition xval := str.
Definition x_read_lit (s : str) : option xval := Some s.
Definition x_read_vec (ps : list str) : option xval := Some (join COMMA ps).
Definition x_read_uuid (s : str) : option xval := Some s.
Definition x_repl (s : str) : option xval := if str_eqb s [88] then Some [LBR; LBR; 88; RBR; RBR] else None.
Definition x_eval (s : str) (b : option (list (str * xval))) : option xval := Some s.
Definition has_key (k : str) (b : list (str * xval)) : bool := existsb (fun e => str_eqb k (fst e)) b.
(* the packer of variable s needs variable p of the same block (as ObjectUpdate.State needs PCode) *)
Definition x_pack (mn bn k : str) (cur : list (str * xval)) (v : xval) : option xval :=
  if str_eqb k [115] then (if has_key [112] cur then Some v else None) else Some v.

(* a: a two-line literal; b: packed with inline original; c: packed with the
   original on a comment line; u: uuid-like; v: vector; r: replacement token;
   everything else on one line *)
Definition x_present (mn bn : str) (whole : list (str * xval)) (k : str) (v : xval) : pres :=
  if str_eqb k [97] then PPlain [[40;39;97;98;39]; [32;39;99;100;39;41]]
  else if str_eqb k [98] then PInline [[55]] [48;120;55]
  else if str_eqb k [99] then PAbove [[91;49;44]; [32;50;93;32]] [98;39;39]
  else if str_eqb k [115] then PInline [[48]] [48]
  else PPlain [v].
Definition x_suffix (bn : str) : str := if str_eqb bn [67] then [32;32;35;32;86] else [].
Definition x_comments (m : msg xval) : list str := [[35;32;73;68;58;32;49]].

Definition x_none : xval := [78; 111; 110; 101].
Definition x_has_ser (mn bn k : str) : bool := negb (starts_with 81 k).
Definition x_from := from_human xval x_read_lit x_read_vec x_read_uuid x_repl x_eval x_none x_has_ser x_pack.
Definition x_to := to_human xval x_present x_suffix x_comments.

Definition ex_msg : msg xval :=
  {| m_in := false; m_name := [77;115;103]; m_flags := 64 + 128 + 3;
     m_blocks :=
       [ ([66], [ [ ([97], [40;39;97;98;39;39;99;100;39;41]);
                    ([98], [55;32;35;48;120;55]);
                    ([99], [91;49;44;50;93]);
                    ([117], [97;98;45;99;100;45;101;102]);
                    ([118], [49;44;50]);
                    ([114], [LBR; LBR; 88; RBR; RBR]) ] ;
                  [ ([97], [40;39;97;98;39;39;99;100;39;41]) ] ]);
         ([67], [ [ ([120], [49]) ] ]);
         ([69], []) ] |}.

Definition ex_empty : msg xval :=
  {| m_in := true; m_name := [77]; m_flags := 0; m_blocks := [ ([66], []) ] |}.

Definition ex_order : msg xval :=
  {| m_in := false; m_name := [77]; m_flags := 0;
     m_blocks := [ ([66], [ [ ([115], [48;32;35;48]); ([112], [49]) ] ]) ] |}.
