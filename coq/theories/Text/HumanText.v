(* C11 - model of the human-readable message text format.
   Anchors: hippolyzer/lib/base/message/message_formatting.py
     HumanMessageSerializer.from_human_string  -> [from_human]
     HumanMessageSerializer.to_human_string / _format_var / _multi_line_pformat -> [to_human]
   Text is a list of Unicode code points (N).  The framing (split on newline,
   strip, blank/comment skipping, header, [Block] lines, `name op value` regex,
   backslash continuation loop, operator dispatch, replacement / vector / UUID
   sniffing) is modelled concretely; literal syntax (repr / pformat /
   ast.literal_eval / float / UUID / subfield packers / eval) is abstract. *)
From Coq Require Import NArith List Bool.
Import ListNotations.
Open Scope N_scope.

Definition str := list N.

Definition NL : N := 10.
Definition SP : N := 32.
Definition HASH : N := 35.
Definition DOLLAR : N := 36.
Definition COMMA : N := 44.
Definition MINUS : N := 45.
Definition LT : N := 60.
Definition EQ : N := 61.
Definition GT : N := 62.
Definition LBR : N := 91.
Definition BS : N := 92.
Definition RBR : N := 93.
Definition BAR : N := 124.

(* str.isspace / regex \s / what str.strip() removes: exactly these code points *)
Definition is_space (c : N) : bool :=
  ((9 <=? c) && (c <=? 13)) || ((28 <=? c) && (c <=? 32)) || (c =? 133) || (c =? 160)
  || (c =? 5760) || ((8192 <=? c) && (c <=? 8202)) || (c =? 8232) || (c =? 8233)
  || (c =? 8239) || (c =? 8287) || (c =? 12288).

(* regex \w, exact below U+0100; code points from U+0100 up are treated as
   non-word (restriction, see TRUSTED) *)
Definition is_word (c : N) : bool :=
  (c <? 256) &&
  (((48 <=? c) && (c <=? 57)) || ((65 <=? c) && (c <=? 90)) || (c =? 95) || ((97 <=? c) && (c <=? 122))
   || (c =? 170) || (c =? 178) || (c =? 179) || (c =? 181) || (c =? 185) || (c =? 186)
   || ((188 <=? c) && (c <=? 190)) || ((192 <=? c) && (c <=? 214)) || ((216 <=? c) && (c <=? 246))
   || ((248 <=? c) && (c <=? 255))).

Definition is_digit (c : N) : bool := (48 <=? c) && (c <=? 57).
Definition is_opch (c : N) : bool := (c =? BAR) || (c =? DOLLAR).
Definition is_brk (c : N) : bool := (c =? LBR) || (c =? RBR).
Definition is_angle (c : N) : bool := (c =? LT) || (c =? GT).
Definition upper (c : N) : N := if (97 <=? c) && (c <=? 122) then c - 32 else c.

Fixpoint str_eqb (a b : str) : bool :=
  match a, b with
  | [], [] => true
  | x :: a', y :: b' => (x =? y) && str_eqb a' b'
  | _, _ => false
  end.

Fixpoint drop_while {A} (p : A -> bool) (s : list A) : list A :=
  match s with [] => [] | c :: r => if p c then drop_while p r else s end.
Fixpoint take_while {A} (p : A -> bool) (s : list A) : list A :=
  match s with [] => [] | c :: r => if p c then c :: take_while p r else [] end.

Definition lstrip (s : str) : str := drop_while is_space s.
Definition rstrip (s : str) : str := rev (drop_while is_space (rev s)).
Definition strip (s : str) : str := lstrip (rstrip s).
Definition strip_chars (p : N -> bool) (s : str) : str := drop_while p (rev (drop_while p (rev s))).
Definition starts_with (c : N) (s : str) : bool := match s with x :: _ => x =? c | [] => false end.
Definition ends_with (c : N) (s : str) : bool := starts_with c (rev s).
Definition mem (c : N) (s : str) : bool := existsb (N.eqb c) s.
Definition nonempty (s : str) : bool := match s with [] => false | _ => true end.

(* str.split(sep) for a one-character separator *)
Fixpoint split_on (d : N) (s : str) : list str :=
  match s with
  | [] => [[]]
  | c :: r => if c =? d then [] :: split_on d r
              else match split_on d r with
                   | h :: t => (c :: h) :: t
                   | [] => [[c]]
                   end
  end.

Fixpoint join (d : N) (ls : list str) : str :=
  match ls with
  | [] => []
  | [l] => l
  | l :: r => l ++ d :: join d r
  end.

(* ---------------------------------------------------------------- lexing *)

(* the blank-or-comment regex of the main loop (optional whitespace, then
   nothing or a hash and anything), on a newline-free line *)
Definition is_comment (l : str) : bool :=
  match lstrip l with [] => true | c :: _ => c =? HASH end.

(* re.search of one-or-more word characters: first maximal run of word characters *)
Definition block_name (l : str) : option str :=
  match take_while is_word (drop_while (fun c => negb (is_word c)) l) with
  | [] => None
  | n => Some n
  end.

(* re.search of: hash, whitespace, EMPTY, whitespace, end of line *)
Definition s_EMPTY_rev : str := [89; 84; 80; 77; 69].
Definition s_EMPTY_sfx : str := [SP; SP; HASH; SP; 69; 77; 80; 84; 89].
Fixpoint strip_prefix (p s : str) : option str :=
  match p, s with
  | [], _ => Some s
  | x :: p', y :: s' => if x =? y then strip_prefix p' s' else None
  | _ :: _, [] => None
  end.
Definition empty_marker (l : str) : bool :=
  match strip_prefix s_EMPTY_rev (drop_while is_space (rev l)) with
  | Some r => starts_with HASH (drop_while is_space r)
  | None => false
  end.

(* the statement regex: whitespace, NAME (word chars), whitespace, OP (an equals
   sign then any run of bar / dollar), whitespace, VALUE (the rest) *)
Definition expr_match (l : str) : option (str * str * str) :=
  let l1 := lstrip l in
  match take_while is_word l1 with
  | [] => None
  | name =>
    match lstrip (drop_while is_word l1) with
    | c :: r2 =>
      if c =? EQ then Some (name, EQ :: take_while is_opch r2, lstrip (drop_while is_opch r2))
      else None
    | [] => None
    end
  end.

(* replacement token at the start of the value: two opening brackets, word chars,
   two closing brackets *)
Definition repl_match (v : str) : option str :=
  match v with
  | a :: b :: r =>
    if (a =? LBR) && (b =? LBR) then
      match take_while is_word r, drop_while is_word r with
      | [], _ => None
      | n, x :: y :: _ => if (x =? RBR) && (y =? RBR) then Some n else None
      | _, _ => None
      end
    else None
  | _ => None
  end.

(* the UUID-ish regex: word chars, minus, word chars, minus, anything *)
Definition uuid_match (v : str) : bool :=
  match take_while is_word v, drop_while is_word v with
  | [], _ => false
  | _, c :: r =>
    (c =? MINUS) &&
    match take_while is_word r, drop_while is_word r with
    | [], _ => false
    | _, d :: _ => d =? MINUS
    | _, [] => false
    end
  | _, [] => false
  end.

(* remove every angle bracket, then split on comma *)
Definition vec_parts (v : str) : list str :=
  split_on COMMA (filter (fun c => negb (is_angle c)) v).

(* ---------------------------------------------------------------- header *)

Definition s_IN : str := [73; 78].
Definition s_OUT : str := [79; 85; 84].
Definition FLAGS : list (str * N) :=
  [ ([90;69;82;79;67;79;68;69;68], 128)      (* ZEROCODED *)
  ; ([82;69;76;73;65;66;76;69], 64)          (* RELIABLE *)
  ; ([82;69;83;69;78;84], 32)                (* RESENT *)
  ; ([65;67;75], 16)                         (* ACK *)
  ; ([69;81], 1024) ].                       (* EQ *)

Fixpoint flag_lookup (n : str) (fl : list (str * N)) : option N :=
  match fl with
  | [] => None
  | (k, b) :: r => if str_eqb n k then Some b else flag_lookup n r
  end.

Definition digits_val (s : str) : N := fold_left (fun a c => 10 * a + (c - 48)) s 0.

Definition option_flag (o : str) : N :=
  let o' := strip_chars is_brk o in
  match flag_lookup o' FLAGS with
  | Some b => b
  | None => if nonempty o' && forallb is_digit o' then digits_val o' else 0
  end.

Definition tokens (l : str) : list str := filter nonempty (split_on SP l).

(* direction (true = IN), message name, send flags *)
Definition header (l : str) : option (bool * str * N) :=
  match tokens l with
  | d :: n :: opts =>
    let du := map upper d in
    let fl := fold_left (fun a o => N.lor a (option_flag o)) opts 0 in
    if str_eqb du s_IN then Some (true, n, fl)
    else if str_eqb du s_OUT then Some (false, n, fl)
    else None
  | _ => None
  end.

(* ---------------------------------------------------------------- messages *)

Section Parser.
  Variable val : Type.
  (* oracles: None = the Python call raises *)
  Variable read_lit : str -> option val.                 (* ast.literal_eval *)
  Variable read_vec : list str -> option val.            (* tuple(float(x) for x in parts) *)
  Variable read_uuid : str -> option val.                (* datatypes.UUID(s) *)
  Variable repl : str -> option val.                     (* replacements.get(name), called if callable *)
  Variable eval_fn : str -> option (list (str * val)) -> option val.   (* subfield_eval(s, block=cur_block) *)
  Variable vnone : val.                                  (* Python None, the placeholder of a packed value *)
  (* se.SUBFIELD_SERIALIZERS.get((msg, block, var)) is not None *)
  Variable has_ser : str -> str -> str -> bool.
  (* se.SUBFIELD_SERIALIZERS[(msg, block, var)].serialize(block, value), block given by its variables *)
  Variable pack : str -> str -> str -> list (str * val) -> val -> option val.

  Definition block := list (str * val).
  Definition blocks := list (str * list block).

  Record msg := { m_in : bool; m_name : str; m_flags : N; m_blocks : blocks }.

  Fixpoint dict_set (k : str) (v : val) (b : block) : block :=
    match b with
    | [] => [(k, v)]
    | (k', v') :: r => if str_eqb k k' then (k', v) :: r else (k', v') :: dict_set k v r
    end.

  (* msg.add_block(Block(name)) *)
  Fixpoint add_block (n : str) (bs : blocks) : blocks :=
    match bs with
    | [] => [(n, [[]])]
    | (n', l) :: r => if str_eqb n n' then (n', l ++ [[]]) :: r else (n', l) :: add_block n r
    end.

  Fixpoint upd_last {A} (f : A -> A) (l : list A) : list A :=
    match l with
    | [] => []
    | [x] => [f x]
    | x :: r => x :: upd_last f r
    end.

  (* cur_block[k] = v, cur_block being the block most recently added under name n *)
  Fixpoint assign (n k : str) (v : val) (bs : blocks) : blocks :=
    match bs with
    | [] => []
    | (n', l) :: r => if str_eqb n n' then (n', upd_last (dict_set k v) l) :: r
                      else (n', l) :: assign n k v r
    end.

  Fixpoint cur_vars (n : str) (bs : blocks) : block :=
    match bs with
    | [] => []
    | (n', l) :: r => if str_eqb n n' then last l [] else cur_vars n r
    end.

  (* msg.create_block_list(name) *)
  Fixpoint create_list (n : str) (bs : blocks) : blocks :=
    match bs with
    | [] => [(n, [])]
    | (n', l) :: r => if str_eqb n n' then (n', l) :: r else (n', l) :: create_list n r
    end.

  (* number of blocks under name n, minus one: index of cur_block in its list *)
  Fixpoint cur_idx (n : str) (bs : blocks) : nat :=
    match bs with
    | [] => O
    | (n', l) :: r => if str_eqb n n' then pred (length l) else cur_idx n r
    end.

  Fixpoint get_block (n : str) (i : nat) (bs : blocks) : option block :=
    match bs with
    | [] => None
    | (n', l) :: r => if str_eqb n n' then nth_error l i else get_block n i r
    end.

  Fixpoint upd_nth {A} (f : A -> A) (i : nat) (l : list A) : list A :=
    match l, i with
    | [], _ => []
    | x :: r, O => f x :: r
    | x :: r, S j => x :: upd_nth f j r
    end.

  Fixpoint set_block (n : str) (i : nat) (k : str) (v : val) (bs : blocks) : blocks :=
    match bs with
    | [] => []
    | (n', l) :: r => if str_eqb n n' then (n', upd_nth (dict_set k v) i l) :: r
                      else (n', l) :: set_block n i k v r
    end.

  (* pending_packed entry: the block (name, index), the variable, the value to pack *)
  Definition pitem := (str * nat * str * val)%type.

  Record st := { s_msg : msg; s_cur : option str; s_trace : list str; s_pend : list pitem }.

  Definition res := (st + list str)%type.     (* inr trace: an exception was raised *)

  (* the plain-value sniffers of the `=` operator *)
  Definition sniff (v : str) : option val :=
    match repl_match v with
    | Some n => repl n
    | None =>
      if starts_with LT v then read_vec (vec_parts v)
      else if uuid_match v then read_uuid v
      else read_lit v
    end.

  Definition set_blocks (s : st) (bs : blocks) (tr : list str) (pd : list pitem) : st :=
    {| s_msg := {| m_in := m_in (s_msg s); m_name := m_name (s_msg s); m_flags := m_flags (s_msg s);
                   m_blocks := bs |};
       s_cur := s_cur s; s_trace := tr; s_pend := pd |}.

  (* one complete `name op value` statement *)
  Definition handle_var (safe : bool) (s : st) (n op v : str) : res :=
    let plain := str_eqb op [EQ] in
    let packed := mem BAR op in
    let evaled := mem DOLLAR op in
    if evaled && safe then inr (s_trace s)          (* ValueError: no eval operator in safe mode *)
    else
      let bs := m_blocks (s_msg s) in
      let cv := match s_cur s with Some b => Some (cur_vars b bs) | None => None end in
      let tr := if evaled then s_trace s ++ [v] else s_trace s in
      let ov := if plain then sniff v
                else if evaled then eval_fn v cv
                else read_lit v in
      match ov, s_cur s with
      | Some x, Some b =>
        if packed then
          (* serializer looked up now, value packed after the whole text is read;
             a None placeholder keeps the field order *)
          if has_ser (m_name (s_msg s)) b n
          then inl (set_blocks s (assign b n vnone bs) tr (s_pend s ++ [(b, cur_idx b bs, n, x)]))
          else inr tr
        else inl (set_blocks s (assign b n x bs) tr (s_pend s))
      | _, _ => inr tr
      end.

  Definition new_block (s : st) (n : str) : st :=
    {| s_msg := {| m_in := m_in (s_msg s); m_name := m_name (s_msg s); m_flags := m_flags (s_msg s);
                   m_blocks := add_block n (m_blocks (s_msg s)) |};
       s_cur := Some n; s_trace := s_trace s; s_pend := s_pend s |}.

  (* a block line carrying the EMPTY marker: the list exists, no current block *)
  Definition empty_list (s : st) (n : str) : st :=
    {| s_msg := {| m_in := m_in (s_msg s); m_name := m_name (s_msg s); m_flags := m_flags (s_msg s);
                   m_blocks := create_list n (m_blocks (s_msg s)) |};
       s_cur := None; s_trace := s_trace s; s_pend := s_pend s |}.

  (* _flush_packed: None = a packer raised *)
  Fixpoint flush_packed (mn : str) (pd : list pitem) (bs : blocks) : option blocks :=
    match pd with
    | [] => Some bs
    | (b, i, k, x) :: r =>
      match get_block b i bs with
      | Some vars =>
        match pack mn b k vars x with
        | Some y => flush_packed mn r (set_block b i k y bs)
        | None => None
        end
      | None => None
      end
    end.

  (* the continuation loop once no lines are left: while v ends with a backslash,
     drop it and rstrip *)
  Fixpoint eat (fuel : nat) (v : str) : str :=
    match fuel with
    | O => v
    | S f => if ends_with BS v then eat f (rstrip (removelast v)) else v
    end.

  Definition flush (safe : bool) (pend : option (str * str * str)) (s : st) : res :=
    match pend with
    | None => inl s
    | Some (n, op, v) => handle_var safe s n op (eat (length v) v)
    end.

  (* a freshly popped line, no statement pending; k continues with the remaining lines *)
  Definition dispatch (k : option (str * str * str) -> st -> res) (l : str) (s : st) : res :=
    if is_comment l then k None s
    else if starts_with LBR l then
      match block_name l with
      | Some n => if empty_marker l then k None (empty_list s n) else k None (new_block s n)
      | None => inr (s_trace s)
      end
    else
      match expr_match l with
      | Some t => k (Some t) s
      | None => inr (s_trace s)
      end.

  (* the main loop after the header line; [pend] is a statement whose value is
     still being assembled by the continuation loop *)
  Fixpoint go (safe : bool) (lines : list str) (pend : option (str * str * str)) (s : st) : res :=
    match lines with
    | [] => flush safe pend s
    | l :: rest =>
      match pend with
      | Some (n, op, v) =>
        if ends_with BS v then go safe rest (Some (n, op, rstrip (removelast v) ++ l)) s
        else match handle_var safe s n op v with
             | inr t => inr t
             | inl s' => dispatch (go safe rest) l s'
             end
      | None => dispatch (go safe rest) l s
      end
    end.

  Inductive outcome :=
  | OErr (trace : list str)
  | ONoMsg
  | OMsg (m : msg) (trace : list str).

  Definition prep (txt : str) : list str := filter nonempty (map strip (split_on NL txt)).

  Definition from_human (safe : bool) (txt : str) : outcome :=
    match drop_while is_comment (prep txt) with
    | [] => ONoMsg
    | h :: rest =>
      match header h with
      | None => OErr []
      | Some (d, n, f) =>
        match go safe rest None
                 {| s_msg := {| m_in := d; m_name := n; m_flags := f; m_blocks := [] |};
                    s_cur := None; s_trace := []; s_pend := [] |} with
        | inr t => OErr t
        | inl s =>
          match flush_packed n (s_pend s) (m_blocks (s_msg s)) with
          | Some bs => OMsg {| m_in := d; m_name := n; m_flags := f; m_blocks := bs |} (s_trace s)
          | None => OErr (s_trace s)
          end
        end
      end
    end.

  (* ------------------------------------------------------------ formatter *)

  (* how _format_var shows one variable *)
  Inductive pres :=
  | PPlain (lines : list str)                  (* two spaces, name = lines *)
  | PInline (lines : list str) (orig : str)    (* name =| lines, then the original value as an inline comment *)
  | PAbove (lines : list str) (orig : str).    (* name =| lines, then the original value as a comment line *)

  Variable present : str -> str -> block -> str -> val -> pres.   (* msg, block, whole block, var, value *)
  Variable block_suffix : str -> str.                             (* empty, or the Variable marker comment *)
  Variable hdr_comments : msg -> list str.                        (* the ID and EXTRA comment lines *)

  Definition IND : str := [SP; SP; SP; SP].

  (* _multi_line_pformat applied to the already pretty-printed lines; the result
     is the list of physical lines of the string it returns *)
  Fixpoint mlp_rest (ls : list str) : list str :=
    match ls with
    | [] => []
    | [l] => [IND ++ l]
    | l :: r => (IND ++ l ++ [SP; BS]) :: mlp_rest r
    end.
  Definition mlp (ls : list str) : list str :=
    match ls with
    | [] => [[]]
    | [l] => [l]
    | l :: r => (l ++ [SP; BS]) :: mlp_rest r
    end.

  Definition attach (p : str) (ls : list str) : list str :=
    match ls with [] => [p] | h :: t => (p ++ h) :: t end.
  Fixpoint append_last (ls : list str) (sfx : str) : list str :=
    match ls with
    | [] => [sfx]
    | [l] => [l ++ sfx]
    | l :: r => l :: append_last r sfx
    end.

  Definition var_lines (mn bn : str) (whole : block) (k : str) (v : val) : list str :=
    match present mn bn whole k v with
    | PPlain ls => attach ([SP; SP] ++ k ++ [SP; EQ; SP]) (mlp ls)
    | PInline ls o => attach ([SP; SP] ++ k ++ [SP; EQ; BAR; SP]) (mlp (append_last ls ([SP; HASH] ++ o)))
    | PAbove ls o => attach ([SP; SP] ++ k ++ [SP; EQ; BAR; SP]) (mlp ls)
                     ++ [[SP; SP; HASH] ++ k ++ [SP; EQ; SP] ++ o]
    end.

  Fixpoint vars_lines (mn bn : str) (whole : block) (vs : block) : list str :=
    match vs with
    | [] => []
    | (k, v) :: r => var_lines mn bn whole k v ++ vars_lines mn bn whole r
    end.

  Definition block_lines (mn bn : str) (b : block) : list str :=
    (LBR :: bn ++ RBR :: block_suffix bn) :: vars_lines mn bn b b.

  (* a block list that is present but holds no blocks is shown as one marked line *)
  Definition blist_lines (mn : str) (e : str * list block) : list str :=
    match snd e with
    | [] => [LBR :: fst e ++ RBR :: s_EMPTY_sfx]
    | bl => flat_map (block_lines mn (fst e)) bl
    end.

  Definition body_lines (m : msg) : list str := flat_map (blist_lines (m_name m)) (m_blocks m).

  Fixpoint dec_aux (fuel : nat) (n : N) (acc : str) : str :=
    match fuel with
    | O => acc
    | S f => let acc' := (48 + n mod 10) :: acc in
             if n / 10 =? 0 then acc' else dec_aux f (n / 10) acc'
    end.
  Definition dec (n : N) : str := dec_aux (S (N.to_nat (N.log2 n))) n [].

  (* one bracketed name per known flag, then the bracketed decimal value of the
     bits without a name *)
  Fixpoint flags_text (fl : list (str * N)) (f : N) : str :=
    match fl with
    | [] => if f =? 0 then [] else [SP; LBR] ++ dec f ++ [RBR]
    | (n, b) :: r =>
      if N.land f b =? 0 then flags_text r f
      else [SP; LBR] ++ n ++ [RBR] ++ flags_text r (N.ldiff f b)
    end.

  Definition header_line (m : msg) : str :=
    (if m_in m then s_IN else s_OUT) ++ SP :: m_name m ++ flags_text FLAGS (m_flags m).

  Definition to_human_lines (m : msg) : list str :=
    header_line m :: hdr_comments m ++ [[]] ++ body_lines m ++ [[]].

  Definition to_human (m : msg) : str := join NL (to_human_lines m).

End Parser.
