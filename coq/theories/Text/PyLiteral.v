(* C11 - concrete model of the Python literals the human-readable text format
   shows and reads back (definitions only; proofs in PyLiteralProofs.v).

   Renderer side (what HumanMessageSerializer._format_var shows for a value that
   is not pretty-printed through a subfield serializer):
     repr(str)    CPython unicode_repr: quote choice, backslash escapes of backslash, the quote, tab, newline, return, \xNN,
                  \uNNNN, \UNNNNNNNN for non-printable code points
                  (str.isprintable is the Section oracle [printable], consulted
                  for code points from U+007F up only, exactly as CPython does)
     repr(bytes)  CPython bytes_repr
     repr(int)    decimal, leading minus
     HippoPrettyPrinter(width=100).pformat of a str / bytes
                  (hippolyzer/lib/base/helpers.py, _str_format):
                  five or more newlines: one literal per line, in parentheses;
                  otherwise pprint.PrettyPrinter.pformat: the repr when it fits 100
                  columns, else PrettyPrinter._pprint_str (split at line boundaries,
                  then greedy word wrap) / _pprint_bytes (groups of four bytes)
   Reader side: ast.literal_eval restricted to: decimal integer literals with an
   optional minus, str literals and bytes literals (single or double quoted, no
   prefix other than b/B, escapes of backslash, both quotes, \n \r \t \a \b \f \v \xHH \uHHHH
   \UHHHHHHHH), implicit concatenation of adjacent literals, parentheses (nesting
   up to CPython's 200), spaces and tabs between tokens, a trailing comment.
   Anything else reads as None (= literal_eval raises, or yields a value that is
   not a str / bytes / int, or uses syntax outside this fragment).
   Text is a list of code points, as in HumanText.v. *)
From Coq Require Import NArith ZArith List Bool Decimal.
From HV Require Import Text.HumanText.
Import ListNotations.
Open Scope N_scope.

Definition QS : N := 39.       (* single quote *)
Definition QD : N := 34.       (* double quote *)
Definition LP : N := 40.
Definition RP : N := 41.
Definition TAB : N := 9.
Definition CR : N := 13.
Definition CB : N := 98.       (* b *)
Definition UNI_MAX : N := 1114112.   (* 0x110000 *)

Definition len (s : str) : N := N.of_nat (length s).

(* the values of the modelled kinds; VNone is the parser's placeholder, VOpaque
   stands for values of other kinds (uuid, vector, replacement ...) *)
Inductive pval :=
| VStr (s : str)
| VBytes (b : str)
| VInt (z : Z)
| VNone
| VOpaque (tag : N) (data : list str).

(* ---------------------------------------------------------------- integers *)

Fixpoint uint_digits (u : uint) : str :=
  match u with
  | Nil => []
  | D0 r => 48 :: uint_digits r | D1 r => 49 :: uint_digits r | D2 r => 50 :: uint_digits r
  | D3 r => 51 :: uint_digits r | D4 r => 52 :: uint_digits r | D5 r => 53 :: uint_digits r
  | D6 r => 54 :: uint_digits r | D7 r => 55 :: uint_digits r | D8 r => 56 :: uint_digits r
  | D9 r => 57 :: uint_digits r
  end.

Definition dec_N (n : N) : str := uint_digits (N.to_uint n).

Definition repr_int (z : Z) : str :=
  match z with
  | Z0 => dec_N 0
  | Zpos p => dec_N (Npos p)
  | Zneg p => MINUS :: dec_N (Npos p)
  end.

Definition digit_cons (c : N) : option (uint -> uint) :=
  if c =? 48 then Some D0 else if c =? 49 then Some D1 else if c =? 50 then Some D2
  else if c =? 51 then Some D3 else if c =? 52 then Some D4 else if c =? 53 then Some D5
  else if c =? 54 then Some D6 else if c =? 55 then Some D7 else if c =? 56 then Some D8
  else if c =? 57 then Some D9 else None.

Fixpoint digits_uint (ds : str) : option uint :=
  match ds with
  | [] => Some Nil
  | c :: r => match digit_cons c, digits_uint r with
              | Some k, Some u => Some (k u)
              | _, _ => None
              end
  end.

(* sys.int_info.default_max_str_digits: longer decimal texts are refused by both
   repr and the compiler *)
Definition MAX_DIGITS : N := 4300.

(* a decimal integer literal: digits; leading zeros only in an all-zero literal
   (which may have any length: the digit limit applies to the others) *)
Definition read_nat (s : str) : option (N * str) :=
  let ds := take_while is_digit s in
  match ds with
  | [] => None
  | d0 :: more =>
    if (d0 =? 48) && negb (forallb (N.eqb 48) more) then None
    else if negb (d0 =? 48) && (MAX_DIGITS <? len ds) then None
    else match digits_uint ds with
         | Some u => Some (N.of_uint u, drop_while is_digit s)
         | None => None
         end
  end.

(* ---------------------------------------------------------------- hex *)

Definition hexd (n : N) : N := if n <? 10 then 48 + n else 87 + n.

(* the k low hex digits of c, most significant first *)
Fixpoint hexk (k : nat) (c : N) : str :=
  match k with
  | O => []
  | S k' => hexd (N.land (N.shiftr c (4 * N.of_nat k')) 15) :: hexk k' c
  end.

Definition hexval (c : N) : option N :=
  if (48 <=? c) && (c <=? 57) then Some (c - 48)
  else if (97 <=? c) && (c <=? 102) then Some (c - 87)
  else if (65 <=? c) && (c <=? 70) then Some (c - 55)
  else None.

(* ---------------------------------------------------------------- splitting *)

(* cut after every position where [brk c rest] holds; pieces are non-empty and
   concatenate to the input *)
Fixpoint split_after (brk : N -> str -> bool) (s : str) : list str :=
  match s with
  | [] => []
  | c :: r =>
    if brk c r then [c] :: split_after brk r
    else match split_after brk r with
         | [] => [[c]]
         | h :: t => (c :: h) :: t
         end
  end.

(* obj.partition(sep) loop of _str_format: pieces end after each newline *)
Definition nl_brk (c : N) (_ : str) : bool := c =? NL.

(* str.splitlines(keepends=True): the line boundaries of CPython; \r\n is one *)
Definition is_linebreak (c : N) : bool :=
  ((10 <=? c) && (c <=? 13)) || ((28 <=? c) && (c <=? 30)) || (c =? 133) || (c =? 8232) || (c =? 8233).
Definition lb_brk (c : N) (r : str) : bool :=
  is_linebreak c && negb ((c =? CR) && starts_with NL r).

(* re.findall of the pattern (non-space run)(space run): a part ends where a
   space is followed by a non-space *)
Definition part_brk (c : N) (r : str) : bool :=
  is_space c && match r with d :: _ => negb (is_space d) | [] => false end.

Fixpoint groups4 (b : str) : list str :=
  match b with
  | x1 :: x2 :: x3 :: x4 :: r => [x1; x2; x3; x4] :: groups4 r
  | [] => []
  | _ => [b]
  end.

Definition count_nl (s : str) : N := len (filter (N.eqb NL) s).

(* ---------------------------------------------------------------- parenthesised literal lists *)

Fixpoint paren_rest (ind : str) (rs : list str) : list str :=
  match rs with
  | [] => []
  | [r] => [ind ++ r ++ [RP]]
  | r :: t => (ind ++ r) :: paren_rest ind t
  end.

(* open paren + (newline + ind).join(rs) + close paren, as physical lines *)
Definition paren_lines (ind : str) (rs : list str) : list str :=
  match rs with
  | [] => [[LP; RP]]
  | [r] => [LP :: r ++ [RP]]
  | r :: t => (LP :: r) :: paren_rest ind t
  end.

Definition is_nil {A} (l : list A) : bool := match l with [] => true | _ => false end.

(* ---------------------------------------------------------------- renderer *)

Section Render.
  Variable printable : N -> bool.          (* Py_UNICODE_ISPRINTABLE *)

  (* one code point inside repr(str) with quote q *)
  Definition esc_str (q c : N) : str :=
    if (c =? q) || (c =? BS) then [BS; c]
    else if c =? TAB then [BS; 116]
    else if c =? NL then [BS; 110]
    else if c =? CR then [BS; 114]
    else if (c <? 32) || (c =? 127) then BS :: 120 :: hexk 2 c
    else if c <? 127 then [c]
    else if printable c then [c]
    else if c <? 256 then BS :: 120 :: hexk 2 c
    else if c <? 65536 then BS :: 117 :: hexk 4 c
    else BS :: 85 :: hexk 8 c.

  (* one byte inside repr(bytes) with quote q *)
  Definition esc_bytes (q c : N) : str :=
    if (c =? q) || (c =? BS) then [BS; c]
    else if c =? TAB then [BS; 116]
    else if c =? NL then [BS; 110]
    else if c =? CR then [BS; 114]
    else if (c <? 32) || (127 <=? c) then BS :: 120 :: hexk 2 c
    else [c].

  (* single quotes unless the value has single quotes and no double quotes *)
  Definition quote_of (s : str) : N := if mem QS s && negb (mem QD s) then QD else QS.

  Definition repr_str (s : str) : str := let q := quote_of s in q :: flat_map (esc_str q) s ++ [q].
  Definition repr_bytes (b : str) : str := let q := quote_of b in CB :: q :: flat_map (esc_bytes q) b ++ [q].
  Definition repr_sb (isb : bool) (x : str) : str := if isb then repr_bytes x else repr_str x.

  (* PrettyPrinter._pprint_str, inner loop over the parts of one line;
     width 100, indent 1, allowance 1 (level 1) *)
  Fixpoint pack_parts (lastline : bool) (cur : str) (parts : list str) : list str :=
    match parts with
    | [] => if nonempty cur then [cur] else []
    | p :: ps =>
      let cand := cur ++ p in
      let w := if lastline && is_nil ps then 98 else 99 in
      if w <? len (repr_str cand)
      then (if nonempty cur then [cur] else []) ++ pack_parts lastline p ps
      else pack_parts lastline cand ps
    end.

  Definition pp_line_chunks (lastline : bool) (line : str) : list str :=
    if len (repr_str line) <=? (if lastline then 98 else 99) then [line]
    else pack_parts lastline [] (split_after part_brk line).

  Fixpoint pp_lines (lines : list str) : list str :=
    match lines with
    | [] => []
    | [l] => pp_line_chunks true l
    | l :: r => pp_line_chunks false l ++ pp_lines r
    end.

  Definition pprint_str (s : str) : list str :=
    if is_nil s then [repr_str s]
    else
      let lines := split_after lb_brk s in
      match pp_lines lines with
      | [_] => [repr_str (last lines [])]
      | chunks => paren_lines [SP] (map repr_str chunks)
      end.

  (* pprint._wrap_bytes_repr with width 99, allowance 1: the narrower width
     applies to a trailing group of fewer than four bytes only *)
  Fixpoint wrap_bytes (cur : str) (gs : list str) : list str :=
    match gs with
    | [] => if nonempty cur then [cur] else []
    | p :: ps =>
      let cand := cur ++ p in
      let w := if len p <? 4 then 98 else 99 in
      if w <? len (repr_bytes cand)
      then (if nonempty cur then [cur] else []) ++ wrap_bytes p ps
      else wrap_bytes cand ps
    end.

  Definition pprint_bytes (b : str) : list str :=
    if len b <=? 4 then [repr_bytes b]
    else paren_lines [SP] (map repr_bytes (wrap_bytes [] (groups4 b))).

  (* PrettyPrinter.pformat at top level, width 100 *)
  Definition base_pformat (isb : bool) (x : str) : list str :=
    if 100 <? len (repr_sb isb x) then (if isb then pprint_bytes x else pprint_str x)
    else [repr_sb isb x].

  (* HippoPrettyPrinter._str_format; the result is the list of physical lines *)
  Definition hippo_pformat (isb : bool) (x : str) : list str :=
    if count_nl x <? 5 then base_pformat isb x
    else paren_lines [] (map (repr_sb isb) (split_after nl_brk x)).

  (* what _format_var shows for a value of a modelled kind when it is not
     pretty-printed (beautify off, or no usable serializer): str / bytes go
     through _multi_line_pformat unless the variable has a subfield serializer,
     everything else is repr *)
  Definition render_val (ser : bool) (v : pval) : list str :=
    match v with
    | VStr s => if ser then [repr_str s] else hippo_pformat false s
    | VBytes b => if ser then [repr_bytes b] else hippo_pformat true b
    | VInt z => [repr_int z]
    | VNone => [[78; 111; 110; 101]]
    | VOpaque _ _ => [[63]]
    end.
End Render.

(* ---------------------------------------------------------------- reader *)

Definition is_quote (c : N) : bool := (c =? QS) || (c =? QD).
Definition is_tws (c : N) : bool := (c =? SP) || (c =? TAB).
Definition skip_ws (s : str) : str := drop_while is_tws s.
Definition is_sur (c : N) : bool := (55296 <=? c) && (c <=? 57343).

(* a character that may stand for itself in the source: no NUL, no line end, and
   encodable (str) / ASCII (bytes) *)
Definition src_ok (c : N) : bool :=
  negb (c =? 0) && negb (c =? NL) && negb (c =? CR) && negb (is_sur c) && (c <? UNI_MAX).
Definition raw_ok (isb : bool) (c : N) : bool := src_ok c && (if isb then c <? 128 else true).

Inductive est := ENorm | EBs | EHex (k : nat) (acc : N).

Definition simple_esc (c : N) : option N :=
  if (c =? BS) || (c =? QS) || (c =? QD) then Some c
  else if c =? 110 then Some NL
  else if c =? 114 then Some CR
  else if c =? 116 then Some TAB
  else if c =? 97 then Some 7
  else if c =? 98 then Some 8
  else if c =? 102 then Some 12
  else if c =? 118 then Some 11
  else None.

Definition cons_res (c : N) (r : option (str * str)) : option (str * str) :=
  match r with Some (v, rest) => Some (c :: v, rest) | None => None end.

(* the body of a single-quoted-style literal up to the closing quote q:
   decoded characters and the text after the quote *)
Fixpoint sbody (isb : bool) (q : N) (st : est) (s : str) : option (str * str) :=
  match s with
  | [] => None
  | c :: r =>
    match st with
    | ENorm =>
      if c =? q then Some ([], r)
      else if c =? BS then sbody isb q EBs r
      else if raw_ok isb c then cons_res c (sbody isb q ENorm r)
      else None
    | EBs =>
      match simple_esc c with
      | Some d => cons_res d (sbody isb q ENorm r)
      | None =>
        if c =? 120 then sbody isb q (EHex 2 0) r
        else if negb isb && (c =? 117) then sbody isb q (EHex 4 0) r
        else if negb isb && (c =? 85) then sbody isb q (EHex 8 0) r
        else None
      end
    | EHex k acc =>
      match hexval c with
      | None => None
      | Some d =>
        let acc' := 16 * acc + d in
        match k with
        | S (S k') => sbody isb q (EHex (S k') acc') r
        | _ => if acc' <? UNI_MAX then cons_res acc' (sbody isb q ENorm r) else None
        end
      end
    end
  end.

Definition is_bprefix (c : N) : bool := (c =? CB) || (c =? 66).

(* the two characters after an opening quote repeat it: a triple-quoted literal *)
Definition triple (q : N) (r : str) : bool :=
  match r with a :: b :: _ => (a =? q) && (b =? q) | _ => false end.

(* one literal; a literal opening with three quotes is outside the fragment *)
Definition read_one (isb : bool) (s : str) : option (str * str) :=
  let s' := if isb then match s with p :: t => if is_bprefix p then t else [] | [] => [] end else s in
  match s' with
  | q :: r => if is_quote q then (if triple q r then None else sbody isb q ENorm r) else None
  | [] => None
  end.

Definition starts_str (s : str) : bool := match s with c :: _ => is_quote c | [] => false end.
Definition starts_bytes (s : str) : bool :=
  match s with p :: c :: _ => is_bprefix p && is_quote c | _ => false end.
Definition starts_lit (isb : bool) (s : str) : bool := if isb then starts_bytes s else starts_str s.

(* adjacent literals of one kind are concatenated; mixing kinds is an error *)
Fixpoint read_seq (fuel : nat) (isb : bool) (s : str) : option (str * str) :=
  match fuel with
  | O => None
  | S f =>
    match read_one isb s with
    | None => None
    | Some (v, rest) =>
      let rest' := skip_ws rest in
      if starts_lit isb rest' then
        match read_seq f isb rest' with
        | Some (v2, r2) => Some (v ++ v2, r2)
        | None => None
        end
      else if starts_lit (negb isb) rest' then None
      else Some (v, rest')
    end
  end.

(* the tokenizer refuses more than 200 open parentheses *)
Definition MAX_NEST : nat := 201.

Fixpoint read_atom (fuel : nat) (s : str) : option (pval * str) :=
  match fuel with
  | O => None
  | S f =>
    match s with
    | [] => None
    | c :: r =>
      if c =? LP then
        match read_atom f (skip_ws r) with
        | Some (v, rest) =>
          match skip_ws rest with
          | x :: rest' => if x =? RP then Some (v, rest') else None
          | [] => None
          end
        | None => None
        end
      else if is_quote c then
        match read_seq (S (length s)) false s with
        | Some (v, rest) => Some (VStr v, rest)
        | None => None
        end
      else if starts_bytes s then
        match read_seq (S (length s)) true s with
        | Some (v, rest) => Some (VBytes v, rest)
        | None => None
        end
      else if c =? MINUS then
        match read_nat (skip_ws r) with
        | Some (n, rest) => Some (VInt (- Z.of_N n), rest)
        | None => None
        end
      else if is_digit c then
        match read_nat s with
        | Some (n, rest) => Some (VInt (Z.of_N n), rest)
        | None => None
        end
      else None
    end
  end.

(* after the value: blanks, then nothing or a comment *)
Definition tail_ok (s : str) : bool :=
  match skip_ws s with
  | [] => true
  | c :: r => (c =? HASH) && forallb src_ok r
  end.

(* ast.literal_eval on one line of text *)
Definition read_lit (s : str) : option pval :=
  match read_atom MAX_NEST (skip_ws s) with
  | Some (v, rest) => if tail_ok rest then Some v else None
  | None => None
  end.

(* ---------------------------------------------------------------- domain *)

(* the Python values of the three kinds: code points below 0x110000, bytes below
   256, ints whose decimal text CPython agrees to print and read *)
Definition wf_val (v : pval) : bool :=
  match v with
  | VStr s => forallb (fun c => c <? UNI_MAX) s
  | VBytes b => forallb (fun c => c <? 256) b
  | VInt z => len (dec_N (Z.abs_N z)) <=? MAX_DIGITS
  | _ => false
  end.

(* ---------------------------------------------------------------- the plain formatter *)

(* _format_var with beautify off, for the modelled kinds: always the plain form;
   the variable's entry in the subfield serializer table only decides between
   _multi_line_pformat and repr *)
Definition c_present (printable : N -> bool) (has_ser : str -> str -> str -> bool)
           (mn bn : str) (whole : list (str * pval)) (k : str) (v : pval) : pres :=
  PPlain (render_val printable (has_ser mn bn k) v).

(* ---------------------------------------------------------------- a printable oracle given as a table *)

(* membership in a list of half-open code point ranges: the shape of the table
   generated from str.isprintable of the running interpreter (gen/C11_printable_gen.v) *)
Fixpoint in_ranges (rs : list (N * N)) (c : N) : bool :=
  match rs with
  | [] => false
  | (lo, hi) :: r => ((lo <=? c) && (c <? hi)) || in_ranges r c
  end.

(* no range meets the surrogate block D800..DFFF *)
Definition ranges_nosur (rs : list (N * N)) : bool :=
  forallb (fun r => (snd r <=? 55296) || (57344 <=? fst r)) rs.
