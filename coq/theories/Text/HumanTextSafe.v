(* C11 - safe-mode clause: structural proofs over all texts. *)
From Coq Require Import NArith List Bool.
From HV Require Import Text.HumanText.
Import ListNotations.
Open Scope N_scope.

Section Safe.
  Variable val : Type.
  Variable read_lit : str -> option val.
  Variable read_vec : list str -> option val.
  Variable read_uuid : str -> option val.
  Variable repl : str -> option val.
  Variable eval_fn : str -> option (list (str * val)) -> option val.
  Variable vnone : val.
  Variable has_ser : str -> str -> str -> bool.
  Variable pack : str -> str -> str -> list (str * val) -> val -> option val.

  Local Notation hv := (handle_var val read_lit read_vec read_uuid repl eval_fn vnone has_ser).
  Local Notation go := (go val read_lit read_vec read_uuid repl eval_fn vnone has_ser).
  Local Notation flush := (flush val read_lit read_vec read_uuid repl eval_fn vnone has_ser).
  Local Notation from_human := (from_human val read_lit read_vec read_uuid repl eval_fn vnone has_ser pack).

  Definition trace_of (r : res val) : list str :=
    match r with inl s => s_trace val s | inr t => t end.

  (* every call of the evaluation entry point is recorded in the trace: the trace
     grows exactly where eval_fn is consulted (see handle_var) *)

  Lemma hv_safe_trace : forall s n op v,
    s_trace val s = [] -> trace_of (hv true s n op v) = [].
  Proof.
    intros s n op v Hs. unfold handle_var.
    destruct (mem DOLLAR op) eqn:He; cbn [andb].
    - cbn. exact Hs.
    - destruct (if str_eqb op [EQ] then _ else _) as [x|]; [|exact Hs].
      destruct (s_cur val s) as [b|]; [|exact Hs].
      destruct (mem BAR op); [|cbn; exact Hs].
      destruct (has_ser _ _ _); cbn; exact Hs.
  Qed.

  Lemma dispatch_safe_trace : forall (k : option (str * str * str) -> st val -> res val) l s,
    (forall p s', s_trace val s' = [] -> trace_of (k p s') = []) ->
    s_trace val s = [] -> trace_of (dispatch val k l s) = [].
  Proof.
    intros k l s Hk Hs. unfold dispatch.
    destruct (is_comment l); [apply Hk; exact Hs|].
    destruct (starts_with LBR l).
    - destruct (block_name l); [|exact Hs]. destruct (empty_marker l); apply Hk; exact Hs.
    - destruct (expr_match l); [apply Hk; exact Hs | exact Hs].
  Qed.

  Lemma go_safe_trace : forall lines pend s,
    s_trace val s = [] -> trace_of (go true lines pend s) = [].
  Proof.
    induction lines as [|l rest IH]; intros pend s Hs; cbn [HumanText.go].
    - destruct pend as [[[n op] v]|]; cbn [HumanText.flush]; [apply hv_safe_trace; exact Hs | exact Hs].
    - destruct pend as [[[n op] v]|].
      + destruct (ends_with BS v); [apply IH; exact Hs|].
        pose proof (hv_safe_trace s n op v Hs) as H.
        destruct (hv true s n op v) as [s'|t]; [|exact H].
        apply dispatch_safe_trace; [intros; apply IH; assumption | exact H].
      + apply dispatch_safe_trace; [intros; apply IH; assumption | exact Hs].
  Qed.

  Definition outcome_trace (o : outcome val) : list str :=
    match o with OErr _ t => t | ONoMsg _ => [] | OMsg _ _ t => t end.

  Theorem safe_no_eval : forall txt, outcome_trace (from_human true txt) = [].
  Proof.
    intro txt. unfold HumanText.from_human.
    destruct (drop_while is_comment (prep txt)) as [|h rest]; [reflexivity|].
    destruct (header h) as [[[d n] f]|]; [|reflexivity].
    match goal with |- context [go true rest None ?s0] =>
      pose proof (go_safe_trace rest None s0 eq_refl) as H; destruct (go true rest None s0) as [s1|t] end;
    [|exact H]. cbn in H. destruct (flush_packed _ _ _ _ _); exact H.
  Qed.

  (* a statement carrying a dollar in its operator raises in safe mode, before
     anything is evaluated or assigned, whatever the oracles answer *)
  Theorem safe_rejects_stmt : forall s n op v,
    mem DOLLAR op = true -> hv true s n op v = inr (s_trace val s).
  Proof. intros s n op v H. unfold handle_var. rewrite H. reflexivity. Qed.

  (* the statements reached by the loop, in order (defined with the same
     traversal as go, independent of the oracles) *)
  Fixpoint stmts (lines : list str) (pend : option (str * str * str)) : list (str * str * str) :=
    match lines with
    | [] => match pend with Some (n, op, v) => [(n, op, eat (length v) v)] | None => [] end
    | l :: rest =>
      let next :=
        if is_comment l then stmts rest None
        else if starts_with LBR l then
          match block_name l with Some _ => stmts rest None | None => [] end
        else match expr_match l with Some t => stmts rest (Some t) | None => [] end in
      match pend with
      | Some (n, op, v) =>
        if ends_with BS v then stmts rest (Some (n, op, rstrip (removelast v) ++ l))
        else (n, op, v) :: next
      | None => next
      end
    end.

  Definition has_dollar (t : str * str * str) : bool := mem DOLLAR (snd (fst t)).

  Lemma hv_safe_ok : forall s n op v s', hv true s n op v = inl s' -> mem DOLLAR op = false.
  Proof.
    intros s n op v s' H. destruct (mem DOLLAR op) eqn:E; [|reflexivity].
    rewrite safe_rejects_stmt in H by exact E. discriminate.
  Qed.

  Lemma go_safe_accepts : forall lines pend s s',
    go true lines pend s = inl s' -> existsb has_dollar (stmts lines pend) = false.
  Proof.
    induction lines as [|l rest IH]; intros pend s s' H; cbn [HumanText.go stmts] in *.
    - destruct pend as [[[n op] v]|]; [|reflexivity]. cbn [HumanText.flush] in H.
      apply hv_safe_ok in H. cbn [existsb]. unfold has_dollar. cbn [fst snd]. rewrite H. reflexivity.
    - assert (D : forall s0, dispatch val (go true rest) l s0 = inl s' ->
                  existsb has_dollar
                    (if is_comment l then stmts rest None
                     else if starts_with LBR l then
                            match block_name l with Some _ => stmts rest None | None => [] end
                          else match expr_match l with Some t => stmts rest (Some t) | None => [] end) = false).
      { intros s0 H0. unfold dispatch in H0.
        destruct (is_comment l); [eapply IH; exact H0|].
        destruct (starts_with LBR l).
        - destruct (block_name l); [|reflexivity]. destruct (empty_marker l); eapply IH; exact H0.
        - destruct (expr_match l); [eapply IH; exact H0 | reflexivity]. }
      destruct pend as [[[n op] v]|].
      + destruct (ends_with BS v); [eapply IH; exact H|].
        destruct (hv true s n op v) as [s1|t] eqn:E; [|discriminate].
        apply hv_safe_ok in E. cbn [existsb]. unfold has_dollar at 1. cbn [fst snd]. rewrite E.
        cbn [orb]. eapply D; exact H.
      + eapply D; exact H.
  Qed.

  (* whenever safe-mode parsing returns a message, no statement of the text had a
     dollar operator *)
  Theorem safe_accepts_no_dollar : forall txt m t,
    from_human true txt = OMsg val m t ->
    match drop_while is_comment (prep txt) with
    | [] => True
    | _ :: rest => existsb has_dollar (stmts rest None) = false
    end.
  Proof.
    intros txt m t H. unfold HumanText.from_human in H.
    destruct (drop_while is_comment (prep txt)) as [|h rest]; [exact I|].
    destruct (header h) as [[[d n] f]|]; [|discriminate].
    match type of H with context [go true rest None ?s0] =>
      destruct (go true rest None s0) eqn:E end; [|discriminate].
    eapply go_safe_accepts; exact E.
  Qed.
End Safe.
