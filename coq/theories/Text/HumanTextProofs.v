(* C11 - round-trip proof for the framing of the human-readable text format. *)
From Coq Require Import NArith List Bool Lia.
From HV Require Import Text.HumanText Text.HumanTextLemmas.
Import ListNotations.
Open Scope N_scope.

(* hypotheses on the physical lines of one rendered value (H1 of the design) *)
Definition line_ok (l : str) : Prop :=
  mem NL l = false /\ strip l <> [] /\ ends_with BS (strip l) = false.
Definition lines_ok (ls : list str) : Prop := ls <> [] /\ Forall line_ok ls.

Ltac lnorm := repeat (progress (repeat rewrite <- app_assoc; cbn [app])); try rewrite !app_nil_r.

Definition preps (ls : list str) : list str := filter nonempty (map strip ls).

Lemma preps_app : forall a b, preps (a ++ b) = preps a ++ preps b.
Proof. intros. unfold preps. rewrite map_app, filter_app. reflexivity. Qed.

Lemma prep_join : forall ls, ls <> [] -> Forall (fun l => mem NL l = false) ls -> prep (join NL ls) = preps ls.
Proof. intros ls H1 H2. unfold prep, preps. rewrite split_join by assumption. reflexivity. Qed.

Lemma preps_cons : forall x r, preps (x :: r) = preps [x] ++ preps r.
Proof. intros. change (x :: r) with ([x] ++ r). apply preps_app. Qed.

Lemma preps_one : forall l, strip l <> [] -> preps [l] = [strip l].
Proof. intros l H. unfold preps. cbn. destruct (strip l); [contradiction | reflexivity]. Qed.

Lemma line_ok_decomp : forall l, line_ok l ->
  exists a c w, l = a ++ c ++ w /\ all_space a /\ all_space w /\ hd_ns c = true /\ last_ns c = true
                /\ strip l = c /\ c <> [] /\ ends_with BS c = false.
Proof.
  intros l (H1 & H2 & H3). destruct (strip_decomp l H2) as (a & c & w & E & Ha & Hw & Hc1 & Hc2 & Es).
  exists a, c, w. rewrite Es in *. repeat split; assumption.
Qed.

Lemma all_space_app : forall a b, all_space a -> all_space b -> all_space (a ++ b).
Proof. intros a b Ha Hb. unfold all_space in *. rewrite forallb_app, Ha, Hb. reflexivity. Qed.

Lemma concat_strip_end : forall ls, lines_ok ls ->
  concat (map strip ls) <> [] /\ ends_with BS (concat (map strip ls)) = false.
Proof.
  intros ls [Hne H]. induction H as [|l ls Hl Hls IH]; [contradiction|].
  destruct Hl as (_ & Hs & He). cbn [map concat].
  destruct ls as [|l2 ls'].
  - cbn. rewrite app_nil_r. split; assumption.
  - destruct (IH ltac:(discriminate)) as [IH1 IH2]. split.
    + intro E. apply app_eq_nil in E. destruct E as [E _]. contradiction.
    + rewrite ends_with_app by exact IH1. exact IH2.
Qed.

(* the statement regex on a line the formatter produces *)
Lemma expr_match_stmt : forall k ops a c tail,
  wordy k -> forallb is_opch ops = true -> all_space a -> hd_ns c = true ->
  expr_match (k ++ SP :: EQ :: ops ++ SP :: a ++ c ++ tail) = Some (k, EQ :: ops, c ++ tail).
Proof.
  intros k ops a c tail Hk Hops Ha Hc. unfold expr_match.
  rewrite lstrip_clean by (apply hd_ns_app, wordy_hd_ns; exact Hk).
  destruct Hk as [Hk1 Hk2].
  destruct (take_drop_stop is_word k SP (EQ :: ops ++ SP :: a ++ c ++ tail) Hk2 eq_refl) as [E1 E2].
  rewrite E1, E2. destruct k as [|c0 k']; [contradiction|].
  change (lstrip (SP :: EQ :: ops ++ SP :: a ++ c ++ tail)) with (EQ :: ops ++ SP :: a ++ c ++ tail).
  cbv iota. change (EQ =? EQ) with true. cbv iota.
  destruct (take_drop_stop is_opch ops SP (a ++ c ++ tail) Hops eq_refl) as [E3 E4].
  rewrite E3, E4.
  change (lstrip (SP :: a ++ c ++ tail)) with (lstrip (a ++ c ++ tail)).
  rewrite lstrip_sp by exact Ha. rewrite lstrip_clean by (apply hd_ns_app; exact Hc). reflexivity.
Qed.

Lemma wordy_first : forall k r d, wordy k -> is_word d = false -> starts_with d (k ++ r) = false.
Proof.
  intros [|c k] r d [H1 H2] Hd; [contradiction|]. cbn in *. apply andb_true_iff in H2. destruct H2 as [H2 _].
  apply word_neq; assumption.
Qed.

Lemma not_comment_word : forall k r, wordy k -> is_comment (k ++ r) = false.
Proof.
  intros k r Hk. unfold is_comment. rewrite lstrip_clean by (apply hd_ns_app, wordy_hd_ns; exact Hk).
  destruct k as [|c k'] eqn:E; [destruct Hk; contradiction|]. rewrite <- E in Hk.
  pose proof (wordy_first k r HASH Hk eq_refl) as H. rewrite E in H. cbn in H. exact H.
Qed.

Section RoundTrip.
  Variable val : Type.
  Variable read_lit : str -> option val.
  Variable read_vec : list str -> option val.
  Variable read_uuid : str -> option val.
  Variable repl : str -> option val.
  Variable eval_fn : str -> option (list (str * val)) -> option val.
  Variable pack : str -> str -> str -> list (str * val) -> val -> option val.
  Variable present : str -> str -> block val -> str -> val -> pres.
  Variable block_suffix : str -> str.
  Variable hdr_comments : msg val -> list str.

  Local Notation hv := (handle_var val read_lit read_vec read_uuid repl eval_fn pack).
  Local Notation go := (go val read_lit read_vec read_uuid repl eval_fn pack).
  Local Notation from_human := (from_human val read_lit read_vec read_uuid repl eval_fn pack).
  Local Notation sniff := (sniff val read_lit read_vec read_uuid repl).
  Local Notation to_human := (to_human val present block_suffix hdr_comments).
  Local Notation var_lines := (var_lines val present).
  Local Notation vars_lines := (vars_lines val present).
  Local Notation block_lines := (block_lines val present block_suffix).
  Local Notation blist_lines := (blist_lines val present block_suffix).
  Local Notation body_lines := (body_lines val present block_suffix).

  Definition mk (d : bool) (mn : str) (f : N) (bs : blocks val) (cur : option str) (tr : list str) : st val :=
    {| s_msg := {| m_in := d; m_name := mn; m_flags := f; m_blocks := bs |}; s_cur := cur; s_trace := tr |}.

  (* ---- the loop ---- *)
  Lemma go_pend_done : forall safe lines n op v s,
    ends_with BS v = false ->
    go safe lines (Some (n, op, v)) s =
    match hv safe s n op v with inr t => inr t | inl s' => go safe lines None s' end.
  Proof.
    intros safe lines n op v s H. destruct lines as [|l rest]; cbn [HumanText.go HumanText.flush].
    - assert (E : eat (length v) v = v) by (destruct v as [|c v']; [reflexivity | cbn [length eat]; rewrite H; reflexivity]).
      rewrite E. destruct (hv safe s n op v); reflexivity.
    - rewrite H. reflexivity.
  Qed.

  Lemma go_comment : forall safe t rest s, go safe ((HASH :: t) :: rest) None s = go safe rest None s.
  Proof. intros. cbn [HumanText.go]. unfold dispatch. reflexivity. Qed.

  (* the continuation loop over the remaining physical lines of a value *)
  Lemma go_cont : forall safe k op ls rest s acc w0,
    ls <> [] -> Forall line_ok ls -> last_ns acc = true -> all_space w0 ->
    go safe (preps (mlp_rest ls) ++ rest) (Some (k, op, acc ++ w0 ++ [BS])) s =
    go safe rest (Some (k, op, acc ++ concat (map strip ls))) s.
  Proof.
    intros safe k op ls rest s. induction ls as [|l ls IH]; intros acc w0 Hne H Hacc Hw0; [contradiction|].
    inversion H as [|? ? Hl Hls]; subst.
    destruct (line_ok_decomp l Hl) as (a & c & w & El & Ha & Hw & Hc1 & Hc2 & Es & Hcn & Hce).
    assert (Hrm : rstrip (removelast (acc ++ w0 ++ [BS])) = acc).
    { rewrite app_assoc, removelast_last. apply rstrip_sp; assumption. }
    assert (Hend : ends_with BS (acc ++ w0 ++ [BS]) = true) by (rewrite app_assoc; apply ends_with_snoc).
    destruct ls as [|l2 ls'].
    - cbn [mlp_rest].
      assert (E : strip (IND ++ l) = c).
      { subst l. replace (IND ++ a ++ c ++ w) with ((IND ++ a) ++ c ++ w) by (rewrite <- app_assoc; reflexivity).
        apply strip_clean; assumption. }
      rewrite preps_one by (rewrite E; exact Hcn).
      rewrite E. cbn [app HumanText.go]. rewrite Hend, Hrm. cbn [map concat]. rewrite Es, app_nil_r. reflexivity.
    - change (mlp_rest (l :: l2 :: ls')) with ((IND ++ l ++ [SP; BS]) :: mlp_rest (l2 :: ls')).
      rewrite preps_cons.
      assert (E : strip (IND ++ l ++ [SP; BS]) = c ++ (w ++ [SP]) ++ [BS]).
      { subst l.
        replace (IND ++ (a ++ c ++ w) ++ [SP; BS]) with ((IND ++ a) ++ (c ++ (w ++ [SP]) ++ [BS]) ++ []).
        2:{ lnorm. reflexivity. }
        apply strip_clean.
        - apply all_space_app; [reflexivity | exact Ha].
        - reflexivity.
        - apply hd_ns_app. exact Hc1.
        - rewrite app_assoc. apply last_ns_snoc. reflexivity. }
      rewrite preps_one by (rewrite E; destruct c; [contradiction | discriminate]).
      rewrite E. rewrite <- app_assoc. cbn [app HumanText.go]. rewrite Hend, Hrm.
      rewrite app_assoc.
      rewrite (IH (acc ++ c) (w ++ [SP])); try assumption; try discriminate.
      + cbn [map concat]. rewrite Es, <- app_assoc. reflexivity.
      + apply last_ns_app. exact Hc2.
      + apply all_space_app; [exact Hw | reflexivity].
  Qed.

  (* a whole `name op value` statement as printed by the formatter *)
  Lemma go_stmt : forall safe k ops ls rest s,
    wordy k -> forallb is_opch ops = true -> lines_ok ls ->
    go safe (preps (attach ([SP; SP] ++ k ++ [SP; EQ] ++ ops ++ [SP]) (mlp ls)) ++ rest) None s =
    match hv safe s k (EQ :: ops) (concat (map strip ls)) with
    | inr t => inr t
    | inl s' => go safe rest None s'
    end.
  Proof.
    intros safe k ops ls rest s Hk Hops [Hne H].
    destruct (concat_strip_end ls (conj Hne H)) as [_ Hend].
    rewrite <- go_pend_done by exact Hend.
    destruct ls as [|l ls]; [contradiction|].
    inversion H as [|? ? Hl Hls]; subst.
    destruct (line_ok_decomp l Hl) as (a & c & w & El & Ha & Hw & Hc1 & Hc2 & Es & Hcn & Hce).
    assert (NC : forall tail, is_comment (k ++ tail) = false) by (intro; apply not_comment_word; exact Hk).
    assert (NB : forall tail, starts_with LBR (k ++ tail) = false) by (intro; apply wordy_first; [exact Hk | reflexivity]).
    destruct ls as [|l2 ls'].
    - cbn [mlp attach].
      assert (E : strip (([SP; SP] ++ k ++ [SP; EQ] ++ ops ++ [SP]) ++ l) = k ++ SP :: EQ :: ops ++ SP :: a ++ c ++ []).
      { subst l.
        replace (([SP; SP] ++ k ++ [SP; EQ] ++ ops ++ [SP]) ++ a ++ c ++ w)
          with ([SP; SP] ++ (k ++ SP :: EQ :: ops ++ SP :: a ++ c ++ []) ++ w).
        2:{ lnorm. reflexivity. }
        apply strip_clean; try assumption; try reflexivity.
        - apply hd_ns_app, wordy_hd_ns. exact Hk.
        - rewrite app_nil_r.
          replace (k ++ SP :: EQ :: ops ++ SP :: a ++ c) with ((k ++ SP :: EQ :: ops ++ SP :: a) ++ c).
          2:{ lnorm. reflexivity. }
          apply last_ns_app. exact Hc2. }
      rewrite preps_one by (rewrite E; destruct k; [destruct Hk; contradiction | discriminate]).
      rewrite E. cbn [app HumanText.go]. unfold dispatch. rewrite NC, NB.
      rewrite expr_match_stmt by assumption.
      cbn [map concat]. rewrite Es, !app_nil_r. reflexivity.
    - change (attach ([SP; SP] ++ k ++ [SP; EQ] ++ ops ++ [SP]) (mlp (l :: l2 :: ls')))
        with ((([SP; SP] ++ k ++ [SP; EQ] ++ ops ++ [SP]) ++ l ++ [SP; BS]) :: mlp_rest (l2 :: ls')).
      rewrite preps_cons.
      assert (E : strip (([SP; SP] ++ k ++ [SP; EQ] ++ ops ++ [SP]) ++ l ++ [SP; BS])
                  = k ++ SP :: EQ :: ops ++ SP :: a ++ c ++ ((w ++ [SP]) ++ [BS])).
      { subst l.
        replace (([SP; SP] ++ k ++ [SP; EQ] ++ ops ++ [SP]) ++ (a ++ c ++ w) ++ [SP; BS])
          with ([SP; SP] ++ (k ++ SP :: EQ :: ops ++ SP :: a ++ c ++ ((w ++ [SP]) ++ [BS])) ++ []).
        2:{ lnorm. reflexivity. }
        apply strip_clean; try reflexivity.
        - apply hd_ns_app, wordy_hd_ns. exact Hk.
        - replace (k ++ SP :: EQ :: ops ++ SP :: a ++ c ++ (w ++ [SP]) ++ [BS])
            with ((k ++ SP :: EQ :: ops ++ SP :: a ++ c ++ (w ++ [SP])) ++ [BS]).
          2:{ lnorm. reflexivity. }
          apply last_ns_snoc. reflexivity. }
      rewrite preps_one by (rewrite E; destruct k; [destruct Hk; contradiction | discriminate]).
      rewrite E. rewrite <- app_assoc. cbn [app HumanText.go]. unfold dispatch. rewrite NC, NB.
      rewrite expr_match_stmt by assumption.
      etransitivity.
      { apply (go_cont safe k (EQ :: ops) (l2 :: ls') rest s c (w ++ [SP])); try assumption; try discriminate.
        apply all_space_app; [exact Hw | reflexivity]. }
      cbn [map concat]. rewrite Es. reflexivity.
  Qed.

  (* ---- association lists ---- *)
  Definition names (bs : blocks val) : list str := map fst bs.
  Definition keys (b : block val) : list str := map fst b.

  Lemma add_block_new : forall bn done, ~ In bn (names done) -> add_block val bn done = done ++ [(bn, [[]])].
  Proof.
    induction done as [|[n l] done IH]; intro H; cbn in *; [reflexivity|].
    rewrite str_eqb_neq by (intro E; apply H; left; symmetry; exact E).
    rewrite IH by (intro E; apply H; right; exact E). reflexivity.
  Qed.

  Lemma add_block_last : forall bn done l, ~ In bn (names done) ->
    add_block val bn (done ++ [(bn, l)]) = done ++ [(bn, l ++ [[]])].
  Proof.
    induction done as [|[n l0] done IH]; intros l H; cbn in *.
    - rewrite str_eqb_refl. reflexivity.
    - rewrite str_eqb_neq by (intro E; apply H; left; symmetry; exact E).
      rewrite IH by (intro E; apply H; right; exact E). reflexivity.
  Qed.

  Lemma upd_last_snoc : forall A (f : A -> A) pb x, upd_last f (pb ++ [x]) = pb ++ [f x].
  Proof.
    induction pb as [|y pb IH]; intro x; [reflexivity|].
    cbn [app upd_last]. destruct (pb ++ [x]) eqn:E.
    - destruct pb; discriminate.
    - rewrite <- E, IH. reflexivity.
  Qed.

  Lemma assign_last : forall bn k v done pb pre, ~ In bn (names done) ->
    assign val bn k v (done ++ [(bn, pb ++ [pre])]) = done ++ [(bn, pb ++ [dict_set val k v pre])].
  Proof.
    induction done as [|[n l0] done IH]; intros pb pre H; cbn in *.
    - rewrite str_eqb_refl, upd_last_snoc. reflexivity.
    - rewrite str_eqb_neq by (intro E; apply H; left; symmetry; exact E).
      rewrite IH by (intro E; apply H; right; exact E). reflexivity.
  Qed.

  Lemma cur_vars_last : forall bn done pb pre, ~ In bn (names done) ->
    cur_vars val bn (done ++ [(bn, pb ++ [pre])]) = pre.
  Proof.
    induction done as [|[n l0] done IH]; intros pb pre H; cbn in *.
    - rewrite str_eqb_refl. apply last_last.
    - rewrite str_eqb_neq by (intro E; apply H; left; symmetry; exact E).
      apply IH. intro E; apply H; right; exact E.
  Qed.

  Lemma dict_set_new : forall k v pre, ~ In k (keys pre) -> dict_set val k v pre = pre ++ [(k, v)].
  Proof.
    induction pre as [|[k' v'] pre IH]; intro H; cbn in *; [reflexivity|].
    rewrite str_eqb_neq by (intro E; apply H; left; symmetry; exact E).
    rewrite IH by (intro E; apply H; right; exact E). reflexivity.
  Qed.

  (* ---- one statement against the state ---- *)
  Lemma hv_plain : forall safe d mn f bs bn tr k v x,
    sniff v = Some x ->
    hv safe (mk d mn f bs (Some bn) tr) k [EQ] v = inl (mk d mn f (assign val bn k x bs) (Some bn) tr).
  Proof.
    intros. unfold handle_var.
    change (str_eqb [EQ] [EQ]) with true. change (mem DOLLAR [EQ]) with false. change (mem BAR [EQ]) with false.
    cbn [andb mk s_cur s_msg m_blocks m_name s_trace]. rewrite H. reflexivity.
  Qed.

  Lemma hv_packed : forall safe d mn f bs bn tr k v pv x,
    read_lit v = Some pv -> pack mn bn k (cur_vars val bn bs) pv = Some x ->
    hv safe (mk d mn f bs (Some bn) tr) k [EQ; BAR] v = inl (mk d mn f (assign val bn k x bs) (Some bn) tr).
  Proof.
    intros. unfold handle_var.
    change (str_eqb [EQ; BAR] [EQ]) with false. change (mem DOLLAR [EQ; BAR]) with false.
    change (mem BAR [EQ; BAR]) with true.
    cbn [andb mk s_cur s_msg m_blocks m_name s_trace]. rewrite H, H0. reflexivity.
  Qed.

  (* hypotheses on how one variable is shown (H1-H4 of the design), [pre] being
     the variables of the block that precede it *)
  Definition var_ok (mn bn : str) (whole pre : block val) (k : str) (v : val) : Prop :=
    wordy k /\
    match present mn bn whole k v with
    | PPlain ls => lines_ok ls /\ sniff (concat (map strip ls)) = Some v
    | PInline ls o =>
      lines_ok (append_last ls ([SP; HASH] ++ o)) /\
      exists pv, read_lit (concat (map strip (append_last ls ([SP; HASH] ++ o)))) = Some pv
                 /\ pack mn bn k pre pv = Some v
    | PAbove ls o =>
      lines_ok ls /\ mem NL o = false /\
      exists pv, read_lit (concat (map strip ls)) = Some pv /\ pack mn bn k pre pv = Some v
    end.

  Lemma go_var : forall safe d mn f done bn pb pre whole k v tr rest,
    ~ In bn (names done) -> ~ In k (keys pre) -> var_ok mn bn whole pre k v ->
    go safe (preps (var_lines mn bn whole k v) ++ rest) None (mk d mn f (done ++ [(bn, pb ++ [pre])]) (Some bn) tr) =
    go safe rest None (mk d mn f (done ++ [(bn, pb ++ [pre ++ [(k, v)]])]) (Some bn) tr).
  Proof.
    intros safe d mn f done bn pb pre whole k v tr rest Hbn Hk [Hw H]. unfold HumanText.var_lines.
    destruct (present mn bn whole k v) as [ls | ls o | ls o].
    - destruct H as [Hls Hs].
      change ([SP; SP] ++ k ++ [SP; EQ; SP]) with ([SP; SP] ++ k ++ [SP; EQ] ++ [] ++ [SP]).
      rewrite go_stmt by (try assumption; reflexivity).
      rewrite (hv_plain _ _ _ _ _ _ _ _ _ v Hs), assign_last, dict_set_new by assumption. reflexivity.
    - destruct H as [Hls (pv & Hr & Hp)].
      change ([SP; SP] ++ k ++ [SP; EQ; BAR; SP]) with ([SP; SP] ++ k ++ [SP; EQ] ++ [BAR] ++ [SP]).
      rewrite go_stmt by (try assumption; reflexivity).
      rewrite (hv_packed _ _ _ _ _ _ _ _ _ pv v Hr) by (rewrite cur_vars_last by assumption; exact Hp).
      rewrite assign_last, dict_set_new by assumption. reflexivity.
    - destruct H as [Hls (Ho & pv & Hr & Hp)].
      change ([SP; SP] ++ k ++ [SP; EQ; BAR; SP]) with ([SP; SP] ++ k ++ [SP; EQ] ++ [BAR] ++ [SP]).
      rewrite preps_app, <- app_assoc.
      rewrite go_stmt by (try assumption; reflexivity).
      rewrite (hv_packed _ _ _ _ _ _ _ _ _ pv v Hr) by (rewrite cur_vars_last by assumption; exact Hp).
      rewrite assign_last, dict_set_new by assumption.
      destruct (strip_head [SP; SP] HASH (k ++ [SP; EQ; SP] ++ o) eq_refl eq_refl) as [t' Ht].
      change ([SP; SP; HASH] ++ k ++ [SP; EQ; SP] ++ o) with ([SP; SP] ++ HASH :: k ++ [SP; EQ; SP] ++ o).
      rewrite preps_one by (rewrite Ht; discriminate). rewrite Ht. cbn [app]. apply go_comment.
  Qed.

  Fixpoint vars_ok (mn bn : str) (whole pre post : block val) : Prop :=
    match post with
    | [] => True
    | (k, v) :: r => var_ok mn bn whole pre k v /\ ~ In k (keys pre) /\ vars_ok mn bn whole (pre ++ [(k, v)]) r
    end.

  Lemma go_vars : forall safe d mn f done bn pb whole tr rest post pre,
    ~ In bn (names done) -> vars_ok mn bn whole pre post ->
    go safe (preps (vars_lines mn bn whole post) ++ rest) None (mk d mn f (done ++ [(bn, pb ++ [pre])]) (Some bn) tr) =
    go safe rest None (mk d mn f (done ++ [(bn, pb ++ [pre ++ post])]) (Some bn) tr).
  Proof.
    intros safe d mn f done bn pb whole tr rest. induction post as [|[k v] post IH]; intros pre Hbn H.
    - cbn. rewrite app_nil_r. reflexivity.
    - destruct H as (Hv & Hk & Hr). cbn [HumanText.vars_lines]. rewrite preps_app, <- app_assoc.
      rewrite go_var by assumption. rewrite IH by assumption. rewrite <- app_assoc. reflexivity.
  Qed.

  (* ---- blocks ---- *)
  Definition suffix_ok (bn : str) : Prop :=
    mem NL (block_suffix bn) = false /\ last_ns (RBR :: block_suffix bn) = true.

  Definition entry (pb : list (block val)) (bn : str) : blocks val :=
    match pb with [] => [] | _ => [(bn, pb)] end.

  Lemma entry_snoc : forall pb b bn, entry (pb ++ [b]) bn = [(bn, pb ++ [b])].
  Proof. intros. unfold entry. destruct (pb ++ [b]) eqn:E; [destruct pb; discriminate | reflexivity]. Qed.

  Lemma block_line_strip : forall bn, wordy bn -> suffix_ok bn ->
    strip (LBR :: bn ++ RBR :: block_suffix bn) = LBR :: bn ++ RBR :: block_suffix bn.
  Proof.
    intros bn Hw [_ Hs]. apply strip_id; [reflexivity|].
    change (LBR :: bn ++ RBR :: block_suffix bn) with ((LBR :: bn) ++ RBR :: block_suffix bn).
    apply last_ns_app. exact Hs.
  Qed.

  Lemma go_block : forall safe d mn f done bn pb b cur tr rest,
    ~ In bn (names done) -> wordy bn -> suffix_ok bn -> vars_ok mn bn b [] b ->
    go safe (preps (block_lines mn bn b) ++ rest) None (mk d mn f (done ++ entry pb bn) cur tr) =
    go safe rest None (mk d mn f (done ++ [(bn, pb ++ [b])]) (Some bn) tr).
  Proof.
    intros safe d mn f done bn pb b cur tr rest Hbn Hw Hs Hv. unfold HumanText.block_lines.
    rewrite preps_cons, <- app_assoc.
    rewrite preps_one by (rewrite block_line_strip by assumption; discriminate).
    rewrite block_line_strip by assumption. cbn [app HumanText.go]. unfold dispatch.
    change (is_comment (LBR :: bn ++ RBR :: block_suffix bn)) with false.
    change (starts_with LBR (LBR :: bn ++ RBR :: block_suffix bn)) with true. cbv iota.
    assert (BN : block_name (LBR :: bn ++ RBR :: block_suffix bn) = Some bn).
    { unfold block_name. destruct Hw as [Hw1 Hw2]. destruct bn as [|c0 bn']; [contradiction|].
      assert (Hc0 : is_word c0 = true) by (cbn in Hw2; apply andb_true_iff in Hw2; tauto).
      cbn [drop_while app]. change (negb (is_word LBR)) with true. cbv iota. rewrite Hc0. cbn [negb]. cbv iota.
      destruct (take_drop_stop is_word (c0 :: bn') RBR (block_suffix (c0 :: bn')) Hw2 eq_refl) as [E _].
      cbn [app] in E. rewrite E. reflexivity. }
    rewrite BN. unfold new_block, mk. cbn [s_msg s_trace m_in m_name m_flags m_blocks].
    assert (AB : add_block val bn (done ++ entry pb bn) = done ++ [(bn, pb ++ [[]])]).
    { destruct pb as [|b0 pb']; cbn [entry].
      - rewrite app_nil_r. apply add_block_new. exact Hbn.
      - apply add_block_last. exact Hbn. }
    rewrite AB. fold (mk d mn f (done ++ [(bn, pb ++ [[]])]) (Some bn) tr).
    rewrite go_vars by assumption. reflexivity.
  Qed.

  Lemma go_blist : forall safe d mn f done bn tr rest bl pb cur,
    ~ In bn (names done) -> wordy bn -> suffix_ok bn -> Forall (fun b => vars_ok mn bn b [] b) bl ->
    exists cur', go safe (preps (flat_map (block_lines mn bn) bl) ++ rest) None (mk d mn f (done ++ entry pb bn) cur tr) =
                 go safe rest None (mk d mn f (done ++ entry (pb ++ bl) bn) cur' tr).
  Proof.
    intros safe d mn f done bn tr rest. induction bl as [|b bl IH]; intros pb cur Hbn Hw Hs H.
    - exists cur. cbn. rewrite app_nil_r. reflexivity.
    - inversion H as [|? ? Hb Hbl]; subst. cbn [flat_map]. rewrite preps_app, <- app_assoc.
      rewrite go_block by assumption. rewrite <- entry_snoc.
      destruct (IH (pb ++ [b]) (Some bn) Hbn Hw Hs Hbl) as [cur' E]. exists cur'. rewrite E.
      rewrite <- app_assoc. reflexivity.
  Qed.

  Definition drop_empty (es : blocks val) : blocks val :=
    filter (fun e => match snd e with [] => false | _ => true end) es.

  Definition entry_ok (mn : str) (e : str * list (block val)) : Prop :=
    wordy (fst e) /\ suffix_ok (fst e) /\ Forall (fun b => vars_ok mn (fst e) b [] b) (snd e).

  Lemma names_app : forall a b, names (a ++ b) = names a ++ names b.
  Proof. intros. unfold names. apply map_app. Qed.

  Lemma go_entries : forall safe d mn f tr rest es done cur,
    NoDup (names done ++ names es) -> Forall (entry_ok mn) es ->
    exists cur', go safe (preps (flat_map (blist_lines mn) es) ++ rest) None (mk d mn f done cur tr) =
                 go safe rest None (mk d mn f (done ++ drop_empty es) cur' tr).
  Proof.
    intros safe d mn f tr rest. induction es as [|[bn bl] es IH]; intros done cur Hnd H.
    - exists cur. cbn. rewrite app_nil_r. reflexivity.
    - inversion H as [|? ? He Hes]; subst. destruct He as (Hw & Hs & Hb). cbn [fst snd] in *.
      cbn [names map fst] in Hnd.
      assert (Hbn : ~ In bn (names done)).
      { apply NoDup_remove_2 in Hnd. intro X. apply Hnd. apply in_or_app. left. exact X. }
      cbn [flat_map]. unfold HumanText.blist_lines at 1. cbn [fst snd]. rewrite preps_app, <- app_assoc.
      destruct (go_blist safe d mn f done bn tr (preps (flat_map (blist_lines mn) es) ++ rest) bl [] cur Hbn Hw Hs Hb)
        as [cur1 E].
      cbn [entry app] in E. rewrite app_nil_r in E. rewrite E.
      assert (Hnd' : NoDup (names (done ++ entry bl bn) ++ names es)).
      { destruct bl as [|b0 bl']; cbn [entry].
        - rewrite app_nil_r. apply NoDup_remove_1 in Hnd. exact Hnd.
        - rewrite names_app. cbn [names map fst]. rewrite <- app_assoc. exact Hnd. }
      destruct (IH (done ++ entry bl bn) cur1 Hnd' Hes) as [cur' E2]. exists cur'. rewrite E2.
      f_equal. f_equal. unfold drop_empty. cbn [filter snd].
      destruct bl as [|b0 bl']; cbn [entry].
      + rewrite app_nil_r. reflexivity.
      + rewrite <- app_assoc. reflexivity.
  Qed.

  (* ---- comments and header ---- *)
  Definition comment_ok (c : str) : Prop :=
    mem NL c = false /\ exists a t, c = a ++ HASH :: t /\ all_space a.

  Lemma go_comments : forall safe cs rest s, Forall comment_ok cs ->
    go safe (preps cs ++ rest) None s = go safe rest None s.
  Proof.
    intros safe cs rest s H. induction H as [|c cs Hc Hcs IH]; [reflexivity|].
    destruct Hc as (_ & a & t & E & Ha). subst c.
    destruct (strip_head a HASH t Ha eq_refl) as [t' Ht].
    rewrite preps_cons, <- app_assoc. rewrite preps_one by (rewrite Ht; discriminate).
    rewrite Ht. cbn [app]. rewrite go_comment. exact IH.
  Qed.

  Definition flags_check (f : N) : bool :=
    let ft := flags_text FLAGS f in
    negb (mem NL ft)
    && match ft with [] => true | c :: _ => (c =? SP) && last_ns ft end
    && (fold_left (fun a o => N.lor a (option_flag o)) (tokens ft) 0 =? f).

  Lemma flags_table : forallb (fun n => flags_check (N.of_nat n)) (seq 0 2048) = true.
  Proof. vm_compute. reflexivity. Qed.

  Lemma flags_ok : forall f, f < 2048 -> flags_check f = true.
  Proof.
    intros f Hf.
    pose proof (proj1 (forallb_forall (fun n => flags_check (N.of_nat n)) (seq 0 2048)) flags_table (N.to_nat f)) as T.
    assert (Hin : In (N.to_nat f) (seq 0 2048)) by (apply in_seq; lia).
    specialize (T Hin). cbv beta in T. rewrite N2Nat.id in T. exact T.
  Qed.

  Lemma header_ok : forall m, wordy (m_name val m) -> m_flags val m < 2048 ->
    let hl := header_line val m in
    mem NL hl = false /\ strip hl = hl /\ hl <> [] /\ is_comment hl = false
    /\ header hl = Some (m_in val m, m_name val m, m_flags val m).
  Proof.
    intros m Hw Hf hl. pose proof (flags_ok _ Hf) as C. unfold flags_check in C.
    apply andb_true_iff in C. destruct C as [C C3]. apply andb_true_iff in C. destruct C as [C1 C2].
    apply negb_true_iff in C1. apply N.eqb_eq in C3.
    unfold header_line in hl. set (ft := flags_text FLAGS (m_flags val m)) in *.
    set (mn := m_name val m) in *.
    assert (Hmn_sp : mem SP mn = false) by (apply wordy_no; [exact Hw | reflexivity]).
    assert (Hmn_nl : mem NL mn = false) by (apply wordy_no; [exact Hw | reflexivity]).
    assert (Hlast : last_ns (mn ++ ft) = true).
    { destruct ft as [|c ft'] eqn:Eft.
      - rewrite app_nil_r. apply wordy_last_ns. exact Hw.
      - apply andb_true_iff in C2. destruct C2 as [_ C2]. apply last_ns_app. exact C2. }
    assert (Htok : forall D, mem SP D = false -> D <> [] ->
                   tokens (D ++ SP :: mn ++ ft) = D :: mn :: tokens ft).
    { intros D HD HDne. unfold tokens. rewrite split_on_app by exact HD.
      destruct ft as [|c ft'] eqn:Eft.
      - rewrite app_nil_r. rewrite split_on_none by exact Hmn_sp. cbn [filter split_on].
        destruct D; [contradiction|]. destruct mn; [destruct Hw; contradiction|]. reflexivity.
      - apply andb_true_iff in C2. destruct C2 as [C2 _]. apply N.eqb_eq in C2. subst c.
        rewrite split_on_app by exact Hmn_sp. cbn [split_on]. change (SP =? SP) with true. cbv iota.
        cbn [filter]. destruct D; [contradiction|]. destruct mn; [destruct Hw; contradiction|]. reflexivity. }
    destruct (m_in val m) eqn:Ed; subst hl.
    - repeat split.
      + change (s_IN ++ SP :: mn ++ ft) with ((s_IN ++ [SP]) ++ mn ++ ft). rewrite !mem_app. rewrite Hmn_nl, C1. reflexivity.
      + apply strip_id; [reflexivity|].
        change (s_IN ++ SP :: mn ++ ft) with ((s_IN ++ [SP]) ++ mn ++ ft). apply last_ns_app. exact Hlast.
      + discriminate.
      + unfold header. rewrite Htok by (try reflexivity; discriminate). cbv iota.
        change (str_eqb (map upper s_IN) s_IN) with true. cbv iota. rewrite C3. reflexivity.
    - repeat split.
      + change (s_OUT ++ SP :: mn ++ ft) with ((s_OUT ++ [SP]) ++ mn ++ ft). rewrite !mem_app. rewrite Hmn_nl, C1. reflexivity.
      + apply strip_id; [reflexivity|].
        change (s_OUT ++ SP :: mn ++ ft) with ((s_OUT ++ [SP]) ++ mn ++ ft). apply last_ns_app. exact Hlast.
      + discriminate.
      + unfold header. rewrite Htok by (try reflexivity; discriminate). cbv iota.
        change (str_eqb (map upper s_OUT) s_IN) with false. cbv iota.
        change (str_eqb (map upper s_OUT) s_OUT) with true. cbv iota. rewrite C3. reflexivity.
  Qed.

  (* ---- no physical line contains a newline ---- *)
  Definition nonl (l : str) : Prop := mem NL l = false.

  Lemma nonl_app : forall a b, nonl a -> nonl b -> nonl (a ++ b).
  Proof. intros a b Ha Hb. unfold nonl in *. rewrite mem_app, Ha, Hb. reflexivity. Qed.

  Lemma mlp_rest_nonl : forall ls, Forall nonl ls -> Forall nonl (mlp_rest ls).
  Proof.
    induction ls as [|l ls IH]; intro H; [constructor|].
    inversion H as [|? ? Hl Hls]; subst. destruct ls as [|l2 ls'].
    - constructor; [|constructor]. apply nonl_app; [reflexivity | exact Hl].
    - change (mlp_rest (l :: l2 :: ls')) with ((IND ++ l ++ [SP; BS]) :: mlp_rest (l2 :: ls')).
      constructor; [|apply IH; exact Hls].
      apply nonl_app; [reflexivity|]. apply nonl_app; [exact Hl | reflexivity].
  Qed.

  Lemma attach_mlp_nonl : forall p ls, nonl p -> ls <> [] -> Forall nonl ls -> Forall nonl (attach p (mlp ls)).
  Proof.
    intros p ls Hp Hne H. destruct ls as [|l ls]; [contradiction|].
    inversion H as [|? ? Hl Hls]; subst. destruct ls as [|l2 ls'].
    - cbn. constructor; [|constructor]. apply nonl_app; assumption.
    - change (attach p (mlp (l :: l2 :: ls'))) with ((p ++ l ++ [SP; BS]) :: mlp_rest (l2 :: ls')).
      constructor; [|apply mlp_rest_nonl; exact Hls].
      apply nonl_app; [exact Hp|]. apply nonl_app; [exact Hl | reflexivity].
  Qed.

  Lemma lines_ok_nonl : forall ls, lines_ok ls -> Forall nonl ls.
  Proof. intros ls [_ H]. eapply Forall_impl; [|exact H]. intros l (Hl & _). exact Hl. Qed.

  Lemma wordy_nonl : forall k, wordy k -> nonl k.
  Proof. intros k Hk. apply wordy_no; [exact Hk | reflexivity]. Qed.

  Lemma var_lines_nonl : forall mn bn whole pre k v,
    var_ok mn bn whole pre k v -> Forall nonl (var_lines mn bn whole k v).
  Proof.
    intros mn bn whole pre k v [Hw H]. unfold HumanText.var_lines.
    assert (P1 : nonl ([SP; SP] ++ k ++ [SP; EQ; SP]))
      by (apply nonl_app; [reflexivity|]; apply nonl_app; [apply wordy_nonl; exact Hw | reflexivity]).
    assert (P2 : nonl ([SP; SP] ++ k ++ [SP; EQ; BAR; SP]))
      by (apply nonl_app; [reflexivity|]; apply nonl_app; [apply wordy_nonl; exact Hw | reflexivity]).
    destruct (present mn bn whole k v) as [ls | ls o | ls o].
    - destruct H as [Hls _]. apply attach_mlp_nonl; [exact P1 | apply Hls | apply lines_ok_nonl; exact Hls].
    - destruct H as [Hls _]. apply attach_mlp_nonl; [exact P2 | apply Hls | apply lines_ok_nonl; exact Hls].
    - destruct H as [Hls (Ho & _)]. apply Forall_app. split.
      + apply attach_mlp_nonl; [exact P2 | apply Hls | apply lines_ok_nonl; exact Hls].
      + constructor; [|constructor]. apply nonl_app; [reflexivity|].
        apply nonl_app; [apply wordy_nonl; exact Hw|]. apply nonl_app; [reflexivity | exact Ho].
  Qed.

  Lemma vars_lines_nonl : forall mn bn whole post pre,
    vars_ok mn bn whole pre post -> Forall nonl (vars_lines mn bn whole post).
  Proof.
    intros mn bn whole. induction post as [|[k v] post IH]; intros pre H; [constructor|].
    destruct H as (Hv & _ & Hr). cbn [HumanText.vars_lines]. apply Forall_app. split.
    - eapply var_lines_nonl. exact Hv.
    - eapply IH. exact Hr.
  Qed.

  Lemma body_nonl : forall mn es, Forall (entry_ok mn) es -> Forall nonl (flat_map (blist_lines mn) es).
  Proof.
    intros mn es H. induction H as [|[bn bl] es (Hw & Hs & Hb) Hes IH]; [constructor|].
    cbn [flat_map]. apply Forall_app. split; [|exact IH].
    unfold HumanText.blist_lines. cbn [fst snd] in *.
    induction Hb as [|b bl Hb Hbl IHb]; [constructor|].
    cbn [flat_map]. apply Forall_app. split; [|exact IHb].
    unfold HumanText.block_lines. constructor.
    - change (LBR :: bn ++ RBR :: block_suffix bn) with ([LBR] ++ bn ++ [RBR] ++ block_suffix bn).
      apply nonl_app; [reflexivity|]. apply nonl_app; [apply wordy_nonl; exact Hw|].
      apply nonl_app; [reflexivity | apply Hs].
    - eapply vars_lines_nonl. exact Hb.
  Qed.

  (* ---- the theorem ---- *)
  Definition wf_msg (m : msg val) : Prop :=
    wordy (m_name val m) /\ m_flags val m < 2048 /\ NoDup (names (m_blocks val m))
    /\ Forall (entry_ok (m_name val m)) (m_blocks val m) /\ Forall comment_ok (hdr_comments m).

  Definition shown (m : msg val) : msg val :=
    {| m_in := m_in val m; m_name := m_name val m; m_flags := m_flags val m;
       m_blocks := drop_empty (m_blocks val m) |}.

  Theorem text_roundtrip_gen : forall safe m, wf_msg m ->
    from_human safe (to_human m) = OMsg val (shown m) [].
  Proof.
    intros safe m (Hw & Hf & Hnd & Hes & Hcs).
    destruct (header_ok m Hw Hf) as (H1 & H2 & H3 & H4 & H5).
    unfold HumanText.from_human, HumanText.to_human, HumanText.to_human_lines.
    rewrite prep_join.
    2: discriminate.
    2:{ constructor; [exact H1|]. apply Forall_app. split.
        - eapply Forall_impl; [|exact Hcs]. intros c (Hc & _). exact Hc.
        - apply Forall_app. split; [constructor; [reflexivity | constructor]|].
          apply Forall_app. split; [apply body_nonl; exact Hes | constructor; [reflexivity | constructor]]. }
    rewrite preps_cons, preps_one by (rewrite H2; exact H3). rewrite H2.
    cbn [app drop_while]. rewrite H4, H5.
    rewrite preps_app. rewrite go_comments by exact Hcs.
    rewrite preps_cons. change (preps [[]]) with (@nil str). cbn [app].
    rewrite preps_app. change (preps [[]]) with (@nil str).
    destruct (go_entries safe (m_in val m) (m_name val m) (m_flags val m) [] [] (m_blocks val m) [] None Hnd Hes)
      as [cur' E].
    unfold mk in E. unfold HumanText.body_lines. rewrite E. reflexivity.
  Qed.

  Definition no_empty (m : msg val) : Prop := Forall (fun e => snd e <> []) (m_blocks val m).

  Lemma drop_empty_id : forall es, Forall (fun e : str * list (block val) => snd e <> []) es -> drop_empty es = es.
  Proof.
    intros es H. induction H as [|[bn bl] es Hb Hes IH]; [reflexivity|].
    unfold drop_empty. cbn [filter snd]. cbn [snd] in Hb. destruct bl; [contradiction|].
    f_equal. exact IH.
  Qed.

  Theorem text_roundtrip : forall safe m, wf_msg m -> no_empty m ->
    from_human safe (to_human m) = OMsg val m [].
  Proof.
    intros safe m Hwf Hne. rewrite text_roundtrip_gen by exact Hwf. f_equal.
    unfold shown. rewrite drop_empty_id by exact Hne. destruct m; reflexivity.
  Qed.
End RoundTrip.
