(* C11 - round-trip proof for the framing of the human-readable text format. *)
From Coq Require Import NArith List Bool Lia.
From HV Require Import Text.HumanText Text.HumanTextLemmas.
Import ListNotations.
Open Scope N_scope.

(* hypotheses on the physical lines of one rendered value (H1 of the design) *)
Definition line_ok (l : str) : Prop :=
  mem NL l = false /\ strip l <> [] /\ ends_with BS (strip l) = false.
Definition lines_ok (ls : list str) : Prop := ls <> [] /\ Forall line_ok ls.

Ltac lnorm := repeat (progress (repeat rewrite <- app_assoc; cbn [app])); try rewrite !app_nil_r.

Definition preps (ls : list str) : list str := filter nonempty (map strip ls).

Lemma preps_app : forall a b, preps (a ++ b) = preps a ++ preps b.
Proof. intros. unfold preps. rewrite map_app, filter_app. reflexivity. Qed.

Lemma prep_join : forall ls, ls <> [] -> Forall (fun l => mem NL l = false) ls -> prep (join NL ls) = preps ls.
Proof. intros ls H1 H2. unfold prep, preps. rewrite split_join by assumption. reflexivity. Qed.

Lemma preps_cons : forall x r, preps (x :: r) = preps [x] ++ preps r.
Proof. intros. change (x :: r) with ([x] ++ r). apply preps_app. Qed.

Lemma preps_one : forall l, strip l <> [] -> preps [l] = [strip l].
Proof. intros l H. unfold preps. cbn. destruct (strip l); [contradiction | reflexivity]. Qed.

Lemma line_ok_decomp : forall l, line_ok l ->
  exists a c w, l = a ++ c ++ w /\ all_space a /\ all_space w /\ hd_ns c = true /\ last_ns c = true
                /\ strip l = c /\ c <> [] /\ ends_with BS c = false.
Proof.
  intros l (H1 & H2 & H3). destruct (strip_decomp l H2) as (a & c & w & E & Ha & Hw & Hc1 & Hc2 & Es).
  exists a, c, w. rewrite Es in *. repeat split; assumption.
Qed.

Lemma all_space_app : forall a b, all_space a -> all_space b -> all_space (a ++ b).
Proof. intros a b Ha Hb. unfold all_space in *. rewrite forallb_app, Ha, Hb. reflexivity. Qed.

Lemma concat_strip_end : forall ls, lines_ok ls ->
  concat (map strip ls) <> [] /\ ends_with BS (concat (map strip ls)) = false.
Proof.
  intros ls [Hne H]. induction H as [|l ls Hl Hls IH]; [contradiction|].
  destruct Hl as (_ & Hs & He). cbn [map concat].
  destruct ls as [|l2 ls'].
  - cbn. rewrite app_nil_r. split; assumption.
  - destruct (IH ltac:(discriminate)) as [IH1 IH2]. split.
    + intro E. apply app_eq_nil in E. destruct E as [E _]. contradiction.
    + rewrite ends_with_app by exact IH1. exact IH2.
Qed.

(* the statement regex on a line the formatter produces *)
Lemma expr_match_stmt : forall k ops a c tail,
  wordy k -> forallb is_opch ops = true -> all_space a -> hd_ns c = true ->
  expr_match (k ++ SP :: EQ :: ops ++ SP :: a ++ c ++ tail) = Some (k, EQ :: ops, c ++ tail).
Proof.
  intros k ops a c tail Hk Hops Ha Hc. unfold expr_match.
  rewrite lstrip_clean by (apply hd_ns_app, wordy_hd_ns; exact Hk).
  destruct Hk as [Hk1 Hk2].
  destruct (take_drop_stop is_word k SP (EQ :: ops ++ SP :: a ++ c ++ tail) Hk2 eq_refl) as [E1 E2].
  rewrite E1, E2. destruct k as [|c0 k']; [contradiction|].
  change (lstrip (SP :: EQ :: ops ++ SP :: a ++ c ++ tail)) with (EQ :: ops ++ SP :: a ++ c ++ tail).
  cbv iota. change (EQ =? EQ) with true. cbv iota.
  destruct (take_drop_stop is_opch ops SP (a ++ c ++ tail) Hops eq_refl) as [E3 E4].
  rewrite E3, E4.
  change (lstrip (SP :: a ++ c ++ tail)) with (lstrip (a ++ c ++ tail)).
  rewrite lstrip_sp by exact Ha. rewrite lstrip_clean by (apply hd_ns_app; exact Hc). reflexivity.
Qed.

Lemma wordy_first : forall k r d, wordy k -> is_word d = false -> starts_with d (k ++ r) = false.
Proof.
  intros [|c k] r d [H1 H2] Hd; [contradiction|]. cbn in *. apply andb_true_iff in H2. destruct H2 as [H2 _].
  apply word_neq; assumption.
Qed.

Lemma not_comment_word : forall k r, wordy k -> is_comment (k ++ r) = false.
Proof.
  intros k r Hk. unfold is_comment. rewrite lstrip_clean by (apply hd_ns_app, wordy_hd_ns; exact Hk).
  destruct k as [|c k'] eqn:E; [destruct Hk; contradiction|]. rewrite <- E in Hk.
  pose proof (wordy_first k r HASH Hk eq_refl) as H. rewrite E in H. cbn in H. exact H.
Qed.

Section RoundTrip.
  Variable val : Type.
  Variable read_lit : str -> option val.
  Variable read_vec : list str -> option val.
  Variable read_uuid : str -> option val.
  Variable repl : str -> option val.
  Variable eval_fn : str -> option (list (str * val)) -> option val.
  Variable vnone : val.
  Variable has_ser : str -> str -> str -> bool.
  Variable pack : str -> str -> str -> list (str * val) -> val -> option val.
  Variable present : str -> str -> block val -> str -> val -> pres.
  Variable block_suffix : str -> str.
  Variable hdr_comments : msg val -> list str.

  Local Notation hv := (handle_var val read_lit read_vec read_uuid repl eval_fn vnone has_ser).
  Local Notation go := (go val read_lit read_vec read_uuid repl eval_fn vnone has_ser).
  Local Notation from_human := (from_human val read_lit read_vec read_uuid repl eval_fn vnone has_ser pack).
  Local Notation flushp := (flush_packed val pack).
  Local Notation sniff := (sniff val read_lit read_vec read_uuid repl).
  Local Notation to_human := (to_human val present block_suffix hdr_comments).
  Local Notation var_lines := (var_lines val present).
  Local Notation vars_lines := (vars_lines val present).
  Local Notation block_lines := (block_lines val present block_suffix).
  Local Notation blist_lines := (blist_lines val present block_suffix).
  Local Notation body_lines := (body_lines val present block_suffix).

  Definition mk (d : bool) (mn : str) (f : N) (bs : blocks val) (cur : option str) (tr : list str)
             (pd : list (pitem val)) : st val :=
    {| s_msg := {| m_in := d; m_name := mn; m_flags := f; m_blocks := bs |}; s_cur := cur; s_trace := tr;
       s_pend := pd |}.

  (* ---- the loop ---- *)
  Lemma go_pend_done : forall safe lines n op v s,
    ends_with BS v = false ->
    go safe lines (Some (n, op, v)) s =
    match hv safe s n op v with inr t => inr t | inl s' => go safe lines None s' end.
  Proof.
    intros safe lines n op v s H. destruct lines as [|l rest]; cbn [HumanText.go HumanText.flush].
    - assert (E : eat (length v) v = v) by (destruct v as [|c v']; [reflexivity | cbn [length eat]; rewrite H; reflexivity]).
      rewrite E. destruct (hv safe s n op v); reflexivity.
    - rewrite H. reflexivity.
  Qed.

  Lemma go_comment : forall safe t rest s, go safe ((HASH :: t) :: rest) None s = go safe rest None s.
  Proof. intros. cbn [HumanText.go]. unfold dispatch. reflexivity. Qed.

  (* the continuation loop over the remaining physical lines of a value *)
  Lemma go_cont : forall safe k op ls rest s acc w0,
    ls <> [] -> Forall line_ok ls -> last_ns acc = true -> all_space w0 ->
    go safe (preps (mlp_rest ls) ++ rest) (Some (k, op, acc ++ w0 ++ [BS])) s =
    go safe rest (Some (k, op, acc ++ concat (map strip ls))) s.
  Proof.
    intros safe k op ls rest s. induction ls as [|l ls IH]; intros acc w0 Hne H Hacc Hw0; [contradiction|].
    inversion H as [|? ? Hl Hls]; subst.
    destruct (line_ok_decomp l Hl) as (a & c & w & El & Ha & Hw & Hc1 & Hc2 & Es & Hcn & Hce).
    assert (Hrm : rstrip (removelast (acc ++ w0 ++ [BS])) = acc).
    { rewrite app_assoc, removelast_last. apply rstrip_sp; assumption. }
    assert (Hend : ends_with BS (acc ++ w0 ++ [BS]) = true) by (rewrite app_assoc; apply ends_with_snoc).
    destruct ls as [|l2 ls'].
    - cbn [mlp_rest].
      assert (E : strip (IND ++ l) = c).
      { subst l. replace (IND ++ a ++ c ++ w) with ((IND ++ a) ++ c ++ w) by (rewrite <- app_assoc; reflexivity).
        apply strip_clean; assumption. }
      rewrite preps_one by (rewrite E; exact Hcn).
      rewrite E. cbn [app HumanText.go]. rewrite Hend, Hrm. cbn [map concat]. rewrite Es, app_nil_r. reflexivity.
    - change (mlp_rest (l :: l2 :: ls')) with ((IND ++ l ++ [SP; BS]) :: mlp_rest (l2 :: ls')).
      rewrite preps_cons.
      assert (E : strip (IND ++ l ++ [SP; BS]) = c ++ (w ++ [SP]) ++ [BS]).
      { subst l.
        replace (IND ++ (a ++ c ++ w) ++ [SP; BS]) with ((IND ++ a) ++ (c ++ (w ++ [SP]) ++ [BS]) ++ []).
        2:{ lnorm. reflexivity. }
        apply strip_clean.
        - apply all_space_app; [reflexivity | exact Ha].
        - reflexivity.
        - apply hd_ns_app. exact Hc1.
        - rewrite app_assoc. apply last_ns_snoc. reflexivity. }
      rewrite preps_one by (rewrite E; destruct c; [contradiction | discriminate]).
      rewrite E. rewrite <- app_assoc. cbn [app HumanText.go]. rewrite Hend, Hrm.
      rewrite app_assoc.
      rewrite (IH (acc ++ c) (w ++ [SP])); try assumption; try discriminate.
      + cbn [map concat]. rewrite Es, <- app_assoc. reflexivity.
      + apply last_ns_app. exact Hc2.
      + apply all_space_app; [exact Hw | reflexivity].
  Qed.

  (* a whole `name op value` statement as printed by the formatter *)
  Lemma go_stmt : forall safe k ops ls rest s,
    wordy k -> forallb is_opch ops = true -> lines_ok ls ->
    go safe (preps (attach ([SP; SP] ++ k ++ [SP; EQ] ++ ops ++ [SP]) (mlp ls)) ++ rest) None s =
    match hv safe s k (EQ :: ops) (concat (map strip ls)) with
    | inr t => inr t
    | inl s' => go safe rest None s'
    end.
  Proof.
    intros safe k ops ls rest s Hk Hops [Hne H].
    destruct (concat_strip_end ls (conj Hne H)) as [_ Hend].
    rewrite <- go_pend_done by exact Hend.
    destruct ls as [|l ls]; [contradiction|].
    inversion H as [|? ? Hl Hls]; subst.
    destruct (line_ok_decomp l Hl) as (a & c & w & El & Ha & Hw & Hc1 & Hc2 & Es & Hcn & Hce).
    assert (NC : forall tail, is_comment (k ++ tail) = false) by (intro; apply not_comment_word; exact Hk).
    assert (NB : forall tail, starts_with LBR (k ++ tail) = false) by (intro; apply wordy_first; [exact Hk | reflexivity]).
    destruct ls as [|l2 ls'].
    - cbn [mlp attach].
      assert (E : strip (([SP; SP] ++ k ++ [SP; EQ] ++ ops ++ [SP]) ++ l) = k ++ SP :: EQ :: ops ++ SP :: a ++ c ++ []).
      { subst l.
        replace (([SP; SP] ++ k ++ [SP; EQ] ++ ops ++ [SP]) ++ a ++ c ++ w)
          with ([SP; SP] ++ (k ++ SP :: EQ :: ops ++ SP :: a ++ c ++ []) ++ w).
        2:{ lnorm. reflexivity. }
        apply strip_clean; try assumption; try reflexivity.
        - apply hd_ns_app, wordy_hd_ns. exact Hk.
        - rewrite app_nil_r.
          replace (k ++ SP :: EQ :: ops ++ SP :: a ++ c) with ((k ++ SP :: EQ :: ops ++ SP :: a) ++ c).
          2:{ lnorm. reflexivity. }
          apply last_ns_app. exact Hc2. }
      rewrite preps_one by (rewrite E; destruct k; [destruct Hk; contradiction | discriminate]).
      rewrite E. cbn [app HumanText.go]. unfold dispatch. rewrite NC, NB.
      rewrite expr_match_stmt by assumption.
      cbn [map concat]. rewrite Es, !app_nil_r. reflexivity.
    - change (attach ([SP; SP] ++ k ++ [SP; EQ] ++ ops ++ [SP]) (mlp (l :: l2 :: ls')))
        with ((([SP; SP] ++ k ++ [SP; EQ] ++ ops ++ [SP]) ++ l ++ [SP; BS]) :: mlp_rest (l2 :: ls')).
      rewrite preps_cons.
      assert (E : strip (([SP; SP] ++ k ++ [SP; EQ] ++ ops ++ [SP]) ++ l ++ [SP; BS])
                  = k ++ SP :: EQ :: ops ++ SP :: a ++ c ++ ((w ++ [SP]) ++ [BS])).
      { subst l.
        replace (([SP; SP] ++ k ++ [SP; EQ] ++ ops ++ [SP]) ++ (a ++ c ++ w) ++ [SP; BS])
          with ([SP; SP] ++ (k ++ SP :: EQ :: ops ++ SP :: a ++ c ++ ((w ++ [SP]) ++ [BS])) ++ []).
        2:{ lnorm. reflexivity. }
        apply strip_clean; try reflexivity.
        - apply hd_ns_app, wordy_hd_ns. exact Hk.
        - replace (k ++ SP :: EQ :: ops ++ SP :: a ++ c ++ (w ++ [SP]) ++ [BS])
            with ((k ++ SP :: EQ :: ops ++ SP :: a ++ c ++ (w ++ [SP])) ++ [BS]).
          2:{ lnorm. reflexivity. }
          apply last_ns_snoc. reflexivity. }
      rewrite preps_one by (rewrite E; destruct k; [destruct Hk; contradiction | discriminate]).
      rewrite E. rewrite <- app_assoc. cbn [app HumanText.go]. unfold dispatch. rewrite NC, NB.
      rewrite expr_match_stmt by assumption.
      etransitivity.
      { apply (go_cont safe k (EQ :: ops) (l2 :: ls') rest s c (w ++ [SP])); try assumption; try discriminate.
        apply all_space_app; [exact Hw | reflexivity]. }
      cbn [map concat]. rewrite Es. reflexivity.
  Qed.

  (* ---- association lists ---- *)
  Definition names (bs : blocks val) : list str := map fst bs.
  Definition keys (b : block val) : list str := map fst b.

  Lemma add_block_new : forall bn done, ~ In bn (names done) -> add_block val bn done = done ++ [(bn, [[]])].
  Proof.
    induction done as [|[n l] done IH]; intro H; cbn in *; [reflexivity|].
    rewrite str_eqb_neq by (intro E; apply H; left; symmetry; exact E).
    rewrite IH by (intro E; apply H; right; exact E). reflexivity.
  Qed.

  Lemma add_block_last : forall bn done l, ~ In bn (names done) ->
    add_block val bn (done ++ [(bn, l)]) = done ++ [(bn, l ++ [[]])].
  Proof.
    induction done as [|[n l0] done IH]; intros l H; cbn in *.
    - rewrite str_eqb_refl. reflexivity.
    - rewrite str_eqb_neq by (intro E; apply H; left; symmetry; exact E).
      rewrite IH by (intro E; apply H; right; exact E). reflexivity.
  Qed.

  Lemma create_list_new : forall bn done, ~ In bn (names done) -> create_list val bn done = done ++ [(bn, [])].
  Proof.
    induction done as [|[n l] done IH]; intro H; cbn in *; [reflexivity|].
    rewrite str_eqb_neq by (intro E; apply H; left; symmetry; exact E).
    rewrite IH by (intro E; apply H; right; exact E). reflexivity.
  Qed.

  Lemma upd_last_snoc : forall A (f : A -> A) pb x, upd_last f (pb ++ [x]) = pb ++ [f x].
  Proof.
    induction pb as [|y pb IH]; intro x; [reflexivity|].
    cbn [app upd_last]. destruct (pb ++ [x]) eqn:E.
    - destruct pb; discriminate.
    - rewrite <- E, IH. reflexivity.
  Qed.

  Lemma assign_last : forall bn k v done pb pre, ~ In bn (names done) ->
    assign val bn k v (done ++ [(bn, pb ++ [pre])]) = done ++ [(bn, pb ++ [dict_set val k v pre])].
  Proof.
    induction done as [|[n l0] done IH]; intros pb pre H; cbn in *.
    - rewrite str_eqb_refl, upd_last_snoc. reflexivity.
    - rewrite str_eqb_neq by (intro E; apply H; left; symmetry; exact E).
      rewrite IH by (intro E; apply H; right; exact E). reflexivity.
  Qed.

  Lemma cur_idx_last : forall bn done pb (pre : block val), ~ In bn (names done) ->
    cur_idx val bn (done ++ [(bn, pb ++ [pre])]) = length pb.
  Proof.
    induction done as [|[n l0] done IH]; intros pb pre H; cbn in *.
    - rewrite str_eqb_refl, app_length. cbn. lia.
    - rewrite str_eqb_neq by (intro E; apply H; left; symmetry; exact E).
      apply IH. intro E; apply H; right; exact E.
  Qed.

  Lemma dict_set_new : forall k v pre, ~ In k (keys pre) -> dict_set val k v pre = pre ++ [(k, v)].
  Proof.
    induction pre as [|[k' v'] pre IH]; intro H; cbn in *; [reflexivity|].
    rewrite str_eqb_neq by (intro E; apply H; left; symmetry; exact E).
    rewrite IH by (intro E; apply H; right; exact E). reflexivity.
  Qed.

  Lemma dict_set_mid : forall k y z pre r, ~ In k (keys pre) ->
    dict_set val k y (pre ++ (k, z) :: r) = pre ++ (k, y) :: r.
  Proof.
    induction pre as [|[k' v'] pre IH]; intros r H; cbn in *.
    - rewrite str_eqb_refl. reflexivity.
    - rewrite str_eqb_neq by (intro E; apply H; left; symmetry; exact E).
      rewrite IH by (intro E; apply H; right; exact E). reflexivity.
  Qed.

  Lemma nth_error_mid : forall A (pb : list A) x qb, nth_error (pb ++ x :: qb) (length pb) = Some x.
  Proof. induction pb as [|y pb IH]; intros; cbn; [reflexivity | apply IH]. Qed.

  Lemma upd_nth_mid : forall A (f : A -> A) pb x qb, upd_nth f (length pb) (pb ++ x :: qb) = pb ++ f x :: qb.
  Proof. induction pb as [|y pb IH]; intros; cbn; [reflexivity | rewrite IH; reflexivity]. Qed.

  Lemma get_block_at : forall bn done pb x qb later, ~ In bn (names done) ->
    get_block val bn (length pb) (done ++ (bn, pb ++ x :: qb) :: later) = Some x.
  Proof.
    induction done as [|[n l0] done IH]; intros pb x qb later H; cbn in *.
    - rewrite str_eqb_refl. apply nth_error_mid.
    - rewrite str_eqb_neq by (intro E; apply H; left; symmetry; exact E).
      apply IH. intro E; apply H; right; exact E.
  Qed.

  Lemma set_block_at : forall bn k y done pb x qb later, ~ In bn (names done) ->
    set_block val bn (length pb) k y (done ++ (bn, pb ++ x :: qb) :: later)
    = done ++ (bn, pb ++ dict_set val k y x :: qb) :: later.
  Proof.
    induction done as [|[n l0] done IH]; intros pb x qb later H; cbn in *.
    - rewrite str_eqb_refl, upd_nth_mid. reflexivity.
    - rewrite str_eqb_neq by (intro E; apply H; left; symmetry; exact E).
      rewrite IH by (intro E; apply H; right; exact E). reflexivity.
  Qed.

  (* ---- one statement against the state ---- *)
  Lemma hv_plain : forall safe d mn f bs bn tr pd k v x,
    sniff v = Some x ->
    hv safe (mk d mn f bs (Some bn) tr pd) k [EQ] v = inl (mk d mn f (assign val bn k x bs) (Some bn) tr pd).
  Proof.
    intros. unfold handle_var.
    change (str_eqb [EQ] [EQ]) with true. change (mem DOLLAR [EQ]) with false. change (mem BAR [EQ]) with false.
    cbn [andb mk s_cur s_msg m_blocks m_name s_trace s_pend]. rewrite H. reflexivity.
  Qed.

  Lemma hv_packed : forall safe d mn f bs bn tr pd k v pv,
    read_lit v = Some pv -> has_ser mn bn k = true ->
    hv safe (mk d mn f bs (Some bn) tr pd) k [EQ; BAR] v =
    inl (mk d mn f (assign val bn k vnone bs) (Some bn) tr (pd ++ [(bn, cur_idx val bn bs, k, pv)])).
  Proof.
    intros. unfold handle_var.
    change (str_eqb [EQ; BAR] [EQ]) with false. change (mem DOLLAR [EQ; BAR]) with false.
    change (mem BAR [EQ; BAR]) with true.
    cbn [andb mk s_cur s_msg m_blocks m_name s_trace s_pend]. rewrite H, H0. reflexivity.
  Qed.

  (* ---- what the scan leaves behind: placeholders and pending packers ---- *)
  Definition is_packed (p : pres) : bool := match p with PPlain _ => false | _ => true end.
  Definition pv_of (p : pres) : option val :=
    match p with
    | PPlain _ => None
    | PInline ls o => read_lit (concat (map strip (append_last ls ([SP; HASH] ++ o))))
    | PAbove ls o => read_lit (concat (map strip ls))
    end.
  Definition mvar (mn bn : str) (whole : block val) (e : str * val) : str * val :=
    if is_packed (present mn bn whole (fst e) (snd e)) then (fst e, vnone) else e.
  Definition pend_var (mn bn : str) (idx : nat) (whole : block val) (e : str * val) : list (pitem val) :=
    if is_packed (present mn bn whole (fst e) (snd e)) then
      match pv_of (present mn bn whole (fst e) (snd e)) with
      | Some pv => [(bn, idx, fst e, pv)]
      | None => []
      end
    else [].
  Definition mblock (mn bn : str) (b : block val) : block val := map (mvar mn bn b) b.
  Fixpoint pend_blocks (mn bn : str) (idx : nat) (bl : list (block val)) : list (pitem val) :=
    match bl with
    | [] => []
    | b :: r => flat_map (pend_var mn bn idx b) b ++ pend_blocks mn bn (S idx) r
    end.
  Definition mentry (mn : str) (e : str * list (block val)) : str * list (block val) :=
    (fst e, map (mblock mn (fst e)) (snd e)).
  Definition pend_entry (mn : str) (e : str * list (block val)) : list (pitem val) :=
    pend_blocks mn (fst e) 0 (snd e).

  Lemma mvar_fst : forall mn bn whole e, fst (mvar mn bn whole e) = fst e.
  Proof. intros. unfold mvar. destruct (is_packed _); reflexivity. Qed.

  Lemma keys_mvar : forall mn bn whole l, keys (map (mvar mn bn whole) l) = keys l.
  Proof. intros. unfold keys. rewrite map_map. apply map_ext. intro e. apply mvar_fst. Qed.

  (* hypotheses on how one variable is shown (H1-H4 of the design).  [pre] are the
     variables of the block before it, [post] those after it: when its packer
     runs (after the whole text is read) the block holds the true values of
     [pre], a None placeholder for the variable itself, and [post] with
     placeholders for the packed ones *)
  Definition var_ok (mn bn : str) (whole pre : block val) (k : str) (v : val) (post : block val) : Prop :=
    wordy k /\
    match present mn bn whole k v with
    | PPlain ls => lines_ok ls /\ sniff (concat (map strip ls)) = Some v
    | PInline ls o =>
      lines_ok (append_last ls ([SP; HASH] ++ o)) /\ has_ser mn bn k = true /\
      exists pv, read_lit (concat (map strip (append_last ls ([SP; HASH] ++ o)))) = Some pv
                 /\ pack mn bn k (pre ++ (k, vnone) :: map (mvar mn bn whole) post) pv = Some v
    | PAbove ls o =>
      lines_ok ls /\ mem NL o = false /\ has_ser mn bn k = true /\
      exists pv, read_lit (concat (map strip ls)) = Some pv
                 /\ pack mn bn k (pre ++ (k, vnone) :: map (mvar mn bn whole) post) pv = Some v
    end.

  Lemma go_var : forall safe d mn f done bn pb pre0 whole pre k v post tr pd rest,
    ~ In bn (names done) -> ~ In k (keys pre0) -> var_ok mn bn whole pre k v post ->
    go safe (preps (var_lines mn bn whole k v) ++ rest) None
       (mk d mn f (done ++ [(bn, pb ++ [pre0])]) (Some bn) tr pd) =
    go safe rest None
       (mk d mn f (done ++ [(bn, pb ++ [pre0 ++ [mvar mn bn whole (k, v)]])]) (Some bn) tr
           (pd ++ pend_var mn bn (length pb) whole (k, v))).
  Proof.
    intros safe d mn f done bn pb pre0 whole pre k v post tr pd rest Hbn Hk [Hw H].
    unfold HumanText.var_lines, mvar, pend_var. cbn [fst snd].
    destruct (present mn bn whole k v) as [ls | ls o | ls o]; cbn [is_packed pv_of].
    - destruct H as [Hls Hs].
      change ([SP; SP] ++ k ++ [SP; EQ; SP]) with ([SP; SP] ++ k ++ [SP; EQ] ++ [] ++ [SP]).
      rewrite go_stmt by (try assumption; reflexivity).
      rewrite (hv_plain _ _ _ _ _ _ _ _ _ _ v Hs), assign_last, dict_set_new by assumption.
      rewrite app_nil_r. reflexivity.
    - destruct H as (Hls & Hser & pv & Hr & Hp). rewrite Hr.
      change ([SP; SP] ++ k ++ [SP; EQ; BAR; SP]) with ([SP; SP] ++ k ++ [SP; EQ] ++ [BAR] ++ [SP]).
      rewrite go_stmt by (try assumption; reflexivity).
      rewrite (hv_packed _ _ _ _ _ _ _ _ _ _ pv Hr Hser).
      rewrite assign_last, dict_set_new, cur_idx_last by assumption. reflexivity.
    - destruct H as (Hls & Ho & Hser & pv & Hr & Hp). rewrite Hr.
      change ([SP; SP] ++ k ++ [SP; EQ; BAR; SP]) with ([SP; SP] ++ k ++ [SP; EQ] ++ [BAR] ++ [SP]).
      rewrite preps_app, <- app_assoc.
      rewrite go_stmt by (try assumption; reflexivity).
      rewrite (hv_packed _ _ _ _ _ _ _ _ _ _ pv Hr Hser).
      rewrite assign_last, dict_set_new, cur_idx_last by assumption.
      destruct (strip_head [SP; SP] HASH (k ++ [SP; EQ; SP] ++ o) eq_refl eq_refl) as [t' Ht].
      change ([SP; SP; HASH] ++ k ++ [SP; EQ; SP] ++ o) with ([SP; SP] ++ HASH :: k ++ [SP; EQ; SP] ++ o).
      rewrite preps_one by (rewrite Ht; discriminate). rewrite Ht. cbn [app]. apply go_comment.
  Qed.

  Fixpoint vars_ok (mn bn : str) (whole pre post : block val) : Prop :=
    match post with
    | [] => True
    | (k, v) :: r => var_ok mn bn whole pre k v r /\ ~ In k (keys pre) /\ vars_ok mn bn whole (pre ++ [(k, v)]) r
    end.

  Lemma go_vars : forall safe d mn f done bn pb whole tr rest post pre pre0 pd,
    ~ In bn (names done) -> keys pre0 = keys pre -> vars_ok mn bn whole pre post ->
    go safe (preps (vars_lines mn bn whole post) ++ rest) None
       (mk d mn f (done ++ [(bn, pb ++ [pre0])]) (Some bn) tr pd) =
    go safe rest None
       (mk d mn f (done ++ [(bn, pb ++ [pre0 ++ map (mvar mn bn whole) post])]) (Some bn) tr
           (pd ++ flat_map (pend_var mn bn (length pb) whole) post)).
  Proof.
    intros safe d mn f done bn pb whole tr rest. induction post as [|[k v] post IH]; intros pre pre0 pd Hbn Hkeys H.
    - cbn. rewrite !app_nil_r. reflexivity.
    - destruct H as (Hv & Hk & Hr). cbn [HumanText.vars_lines]. rewrite preps_app, <- app_assoc.
      rewrite (go_var safe d mn f done bn pb pre0 whole pre k v post) by (try assumption; rewrite Hkeys; exact Hk).
      rewrite (IH (pre ++ [(k, v)])); try assumption.
      + cbn [map flat_map]. rewrite <- !app_assoc. reflexivity.
      + unfold keys in *. rewrite !map_app, Hkeys. cbn [map]. rewrite mvar_fst. reflexivity.
  Qed.

  (* ---- blocks ---- *)
  Definition suffix_ok (bn : str) : Prop :=
    mem NL (block_suffix bn) = false /\ last_ns (RBR :: block_suffix bn) = true
    /\ empty_marker (LBR :: bn ++ RBR :: block_suffix bn) = false.

  Definition entry (pb : list (block val)) (bn : str) : blocks val :=
    match pb with [] => [] | _ => [(bn, pb)] end.

  Lemma entry_snoc : forall pb b bn, entry (pb ++ [b]) bn = [(bn, pb ++ [b])].
  Proof. intros. unfold entry. destruct (pb ++ [b]) eqn:E; [destruct pb; discriminate | reflexivity]. Qed.

  Lemma block_line_strip : forall bn sfx, last_ns (RBR :: sfx) = true ->
    strip (LBR :: bn ++ RBR :: sfx) = LBR :: bn ++ RBR :: sfx.
  Proof.
    intros bn sfx Hs. apply strip_id; [reflexivity|].
    change (LBR :: bn ++ RBR :: sfx) with ((LBR :: bn) ++ RBR :: sfx).
    apply last_ns_app. exact Hs.
  Qed.

  Lemma block_name_line : forall bn sfx, wordy bn -> block_name (LBR :: bn ++ RBR :: sfx) = Some bn.
  Proof.
    intros bn sfx Hw. unfold block_name. destruct Hw as [Hw1 Hw2]. destruct bn as [|c0 bn']; [contradiction|].
    assert (Hc0 : is_word c0 = true) by (cbn in Hw2; apply andb_true_iff in Hw2; tauto).
    cbn [drop_while app]. change (negb (is_word LBR)) with true. cbv iota. rewrite Hc0. cbn [negb]. cbv iota.
    destruct (take_drop_stop is_word (c0 :: bn') RBR sfx Hw2 eq_refl) as [E _].
    cbn [app] in E. rewrite E. reflexivity.
  Qed.

  Lemma go_block : forall safe d mn f done bn pb b cur tr pd rest,
    ~ In bn (names done) -> wordy bn -> suffix_ok bn -> vars_ok mn bn b [] b ->
    go safe (preps (block_lines mn bn b) ++ rest) None (mk d mn f (done ++ entry pb bn) cur tr pd) =
    go safe rest None (mk d mn f (done ++ [(bn, pb ++ [mblock mn bn b])]) (Some bn) tr
                          (pd ++ flat_map (pend_var mn bn (length pb) b) b)).
  Proof.
    intros safe d mn f done bn pb b cur tr pd rest Hbn Hw (Hs1 & Hs2 & Hs3) Hv. unfold HumanText.block_lines.
    rewrite preps_cons, <- app_assoc.
    rewrite preps_one by (rewrite block_line_strip by assumption; discriminate).
    rewrite block_line_strip by assumption. cbn [app HumanText.go]. unfold dispatch.
    change (is_comment (LBR :: bn ++ RBR :: block_suffix bn)) with false.
    change (starts_with LBR (LBR :: bn ++ RBR :: block_suffix bn)) with true. cbv iota.
    rewrite block_name_line by exact Hw. rewrite Hs3.
    unfold new_block, mk. cbn [s_msg s_trace s_pend m_in m_name m_flags m_blocks].
    assert (AB : add_block val bn (done ++ entry pb bn) = done ++ [(bn, pb ++ [[]])]).
    { destruct pb as [|b0 pb']; cbn [entry].
      - rewrite app_nil_r. apply add_block_new. exact Hbn.
      - apply add_block_last. exact Hbn. }
    rewrite AB. fold (mk d mn f (done ++ [(bn, pb ++ [[]])]) (Some bn) tr pd).
    etransitivity.
    { apply (go_vars safe d mn f done bn pb b tr rest b [] [] pd); try assumption; reflexivity. }
    reflexivity.
  Qed.

  Lemma go_blist : forall safe d mn f done bn tr rest bl pb cur pd,
    ~ In bn (names done) -> wordy bn -> suffix_ok bn -> Forall (fun b => vars_ok mn bn b [] b) bl ->
    exists cur', go safe (preps (flat_map (block_lines mn bn) bl) ++ rest) None
                    (mk d mn f (done ++ entry pb bn) cur tr pd) =
                 go safe rest None
                    (mk d mn f (done ++ entry (pb ++ map (mblock mn bn) bl) bn) cur' tr
                        (pd ++ pend_blocks mn bn (length pb) bl)).
  Proof.
    intros safe d mn f done bn tr rest. induction bl as [|b bl IH]; intros pb cur pd Hbn Hw Hs H.
    - exists cur. cbn. rewrite !app_nil_r. reflexivity.
    - inversion H as [|? ? Hb Hbl]; subst. cbn [flat_map]. rewrite preps_app, <- app_assoc.
      rewrite go_block by assumption. rewrite <- entry_snoc.
      destruct (IH (pb ++ [mblock mn bn b]) (Some bn) (pd ++ flat_map (pend_var mn bn (length pb) b) b) Hbn Hw Hs Hbl)
        as [cur' E].
      exists cur'. rewrite E. rewrite app_length. cbn [length map pend_blocks].
      replace (length pb + 1)%nat with (S (length pb)) by lia.
      rewrite <- !app_assoc. reflexivity.
  Qed.

  Definition entry_ok (mn : str) (e : str * list (block val)) : Prop :=
    wordy (fst e) /\ suffix_ok (fst e) /\ Forall (fun b => vars_ok mn (fst e) b [] b) (snd e).

  Lemma names_app : forall a b, names (a ++ b) = names a ++ names b.
  Proof. intros. unfold names. apply map_app. Qed.

  Lemma empty_line_marker : forall bn, empty_marker (LBR :: bn ++ RBR :: s_EMPTY_sfx) = true.
  Proof.
    intro bn. unfold empty_marker.
    replace (LBR :: bn ++ RBR :: s_EMPTY_sfx) with ((LBR :: bn ++ [RBR]) ++ s_EMPTY_sfx)
      by (cbn [app]; rewrite <- app_assoc; reflexivity).
    rewrite rev_app_distr. reflexivity.
  Qed.

  Lemma go_empty : forall safe d mn f done bn cur tr pd rest,
    ~ In bn (names done) -> wordy bn ->
    go safe (preps [LBR :: bn ++ RBR :: s_EMPTY_sfx] ++ rest) None (mk d mn f done cur tr pd) =
    go safe rest None (mk d mn f (done ++ [(bn, [])]) None tr pd).
  Proof.
    intros safe d mn f done bn cur tr pd rest Hbn Hw.
    rewrite preps_one by (rewrite block_line_strip by reflexivity; discriminate).
    rewrite block_line_strip by reflexivity. cbn [app HumanText.go]. unfold dispatch.
    change (is_comment (LBR :: bn ++ RBR :: s_EMPTY_sfx)) with false.
    change (starts_with LBR (LBR :: bn ++ RBR :: s_EMPTY_sfx)) with true. cbv iota.
    rewrite block_name_line by exact Hw. rewrite empty_line_marker.
    unfold empty_list, mk. cbn [s_msg s_trace s_pend m_in m_name m_flags m_blocks].
    rewrite create_list_new by exact Hbn. reflexivity.
  Qed.

  Lemma go_entries : forall safe d mn f tr rest es done cur pd,
    NoDup (names done ++ names es) -> Forall (entry_ok mn) es ->
    exists cur', go safe (preps (flat_map (blist_lines mn) es) ++ rest) None (mk d mn f done cur tr pd) =
                 go safe rest None (mk d mn f (done ++ map (mentry mn) es) cur' tr
                                       (pd ++ flat_map (pend_entry mn) es)).
  Proof.
    intros safe d mn f tr rest. induction es as [|[bn bl] es IH]; intros done cur pd Hnd H.
    - exists cur. cbn. rewrite !app_nil_r. reflexivity.
    - inversion H as [|? ? He Hes]; subst. destruct He as (Hw & Hs & Hb). cbn [fst snd] in *.
      cbn [names map fst] in Hnd.
      assert (Hbn : ~ In bn (names done)).
      { apply NoDup_remove_2 in Hnd. intro X. apply Hnd. apply in_or_app. left. exact X. }
      assert (Hnd' : forall l, NoDup (names (done ++ [(bn, l)]) ++ names es)).
      { intro l. rewrite names_app. cbn [names map fst]. rewrite <- app_assoc. exact Hnd. }
      cbn [flat_map map]. unfold HumanText.blist_lines at 1, mentry at 1, pend_entry at 1. cbn [fst snd].
      rewrite preps_app, <- app_assoc.
      destruct bl as [|b0 bl'].
      + rewrite go_empty by assumption.
        destruct (IH (done ++ [(bn, [])]) None pd (Hnd' []) Hes) as [cur' E]. exists cur'. rewrite E.
        cbn [map pend_blocks app]. rewrite <- app_assoc. reflexivity.
      + destruct (go_blist safe d mn f done bn tr (preps (flat_map (blist_lines mn) es) ++ rest) (b0 :: bl') [] cur pd
                           Hbn Hw Hs Hb) as [cur1 E].
        cbn [entry app] in E. rewrite app_nil_r in E. rewrite E.
        cbn [map entry length].
        destruct (IH (done ++ [(bn, mblock mn bn b0 :: map (mblock mn bn) bl')]) cur1
                     (pd ++ pend_blocks mn bn 0 (b0 :: bl')) (Hnd' _) Hes) as [cur' E2].
        exists cur'. rewrite E2. rewrite <- !app_assoc. reflexivity.
  Qed.

  (* ---- the deferred packers ---- *)
  Lemma flush_vars : forall mn bn done pb qb later whole restpd post pre,
    ~ In bn (names done) -> vars_ok mn bn whole pre post ->
    flushp mn (flat_map (pend_var mn bn (length pb) whole) post ++ restpd)
           (done ++ (bn, pb ++ (pre ++ map (mvar mn bn whole) post) :: qb) :: later) =
    flushp mn restpd (done ++ (bn, pb ++ (pre ++ post) :: qb) :: later).
  Proof.
    intros mn bn done pb qb later whole restpd. induction post as [|[k v] post IH]; intros pre Hbn H.
    - reflexivity.
    - destruct H as ([Hw Hv] & Hk & Hr). cbn [flat_map map]. rewrite <- app_assoc.
      unfold pend_var at 1, mvar at 1. cbn [fst snd].
      destruct (present mn bn whole k v) as [ls | ls o | ls o]; cbn [is_packed pv_of].
      + cbn [app]. replace (pre ++ (k, v) :: map (mvar mn bn whole) post)
          with ((pre ++ [(k, v)]) ++ map (mvar mn bn whole) post) by (rewrite <- app_assoc; reflexivity).
        rewrite IH by assumption. rewrite <- app_assoc. reflexivity.
      + destruct Hv as (_ & _ & pv & Hrl & Hp). rewrite Hrl. cbn [app flush_packed].
        rewrite get_block_at by exact Hbn. rewrite Hp.
        rewrite set_block_at by exact Hbn. rewrite dict_set_mid by exact Hk.
        replace (pre ++ (k, v) :: map (mvar mn bn whole) post)
          with ((pre ++ [(k, v)]) ++ map (mvar mn bn whole) post) by (rewrite <- app_assoc; reflexivity).
        rewrite IH by assumption. rewrite <- app_assoc. reflexivity.
      + destruct Hv as (_ & _ & _ & pv & Hrl & Hp). rewrite Hrl. cbn [app flush_packed].
        rewrite get_block_at by exact Hbn. rewrite Hp.
        rewrite set_block_at by exact Hbn. rewrite dict_set_mid by exact Hk.
        replace (pre ++ (k, v) :: map (mvar mn bn whole) post)
          with ((pre ++ [(k, v)]) ++ map (mvar mn bn whole) post) by (rewrite <- app_assoc; reflexivity).
        rewrite IH by assumption. rewrite <- app_assoc. reflexivity.
  Qed.

  Lemma flush_blocks : forall mn bn done later restpd bl pb,
    ~ In bn (names done) -> Forall (fun b => vars_ok mn bn b [] b) bl ->
    flushp mn (pend_blocks mn bn (length pb) bl ++ restpd)
           (done ++ (bn, pb ++ map (mblock mn bn) bl) :: later) =
    flushp mn restpd (done ++ (bn, pb ++ bl) :: later).
  Proof.
    intros mn bn done later restpd. induction bl as [|b bl IH]; intros pb Hbn H.
    - reflexivity.
    - inversion H as [|? ? Hb Hbl]; subst. cbn [pend_blocks map]. rewrite <- app_assoc.
      pose proof (flush_vars mn bn done pb (map (mblock mn bn) bl) later b
                    (pend_blocks mn bn (S (length pb)) bl ++ restpd) b [] Hbn Hb) as E.
      etransitivity; [exact E|]. clear E.
      change (flushp mn (pend_blocks mn bn (S (length pb)) bl ++ restpd)
                (done ++ (bn, pb ++ b :: map (mblock mn bn) bl) :: later) =
              flushp mn restpd (done ++ (bn, pb ++ b :: bl) :: later)).
      replace (pb ++ b :: map (mblock mn bn) bl) with ((pb ++ [b]) ++ map (mblock mn bn) bl)
        by (rewrite <- app_assoc; reflexivity).
      replace (S (length pb)) with (length (pb ++ [b])) by (rewrite app_length; cbn; lia).
      rewrite IH by assumption. rewrite <- app_assoc. reflexivity.
  Qed.

  Lemma flush_entries : forall mn restpd es done,
    NoDup (names done ++ names es) -> Forall (entry_ok mn) es ->
    flushp mn (flat_map (pend_entry mn) es ++ restpd) (done ++ map (mentry mn) es) =
    flushp mn restpd (done ++ es).
  Proof.
    intros mn restpd. induction es as [|[bn bl] es IH]; intros done Hnd H.
    - reflexivity.
    - inversion H as [|? ? He Hes]; subst. destruct He as (Hw & Hs & Hb). cbn [fst snd] in *.
      cbn [names map fst] in Hnd.
      assert (Hbn : ~ In bn (names done)).
      { apply NoDup_remove_2 in Hnd. intro X. apply Hnd. apply in_or_app. left. exact X. }
      cbn [flat_map map]. unfold pend_entry at 1, mentry at 1. cbn [fst snd]. rewrite <- app_assoc.
      pose proof (flush_blocks mn bn done (map (mentry mn) es) (flat_map (pend_entry mn) es ++ restpd) bl [] Hbn Hb) as E.
      etransitivity; [exact E|]. clear E.
      change (flushp mn (flat_map (pend_entry mn) es ++ restpd) (done ++ (bn, bl) :: map (mentry mn) es) =
              flushp mn restpd (done ++ (bn, bl) :: es)).
      replace (done ++ (bn, bl) :: map (mentry mn) es) with ((done ++ [(bn, bl)]) ++ map (mentry mn) es)
        by (rewrite <- app_assoc; reflexivity).
      rewrite IH; [rewrite <- app_assoc; reflexivity | | exact Hes].
      rewrite names_app. cbn [names map fst]. rewrite <- app_assoc. exact Hnd.
  Qed.

  (* ---- comments and header ---- *)
  Definition comment_ok (c : str) : Prop :=
    mem NL c = false /\ exists a t, c = a ++ HASH :: t /\ all_space a.

  Lemma go_comments : forall safe cs rest s, Forall comment_ok cs ->
    go safe (preps cs ++ rest) None s = go safe rest None s.
  Proof.
    intros safe cs rest s H. induction H as [|c cs Hc Hcs IH]; [reflexivity|].
    destruct Hc as (_ & a & t & E & Ha). subst c.
    destruct (strip_head a HASH t Ha eq_refl) as [t' Ht].
    rewrite preps_cons, <- app_assoc. rewrite preps_one by (rewrite Ht; discriminate).
    rewrite Ht. cbn [app]. rewrite go_comment. exact IH.
  Qed.

  Definition flags_check (f : N) : bool :=
    let ft := flags_text FLAGS f in
    negb (mem NL ft)
    && match ft with [] => true | c :: _ => (c =? SP) && last_ns ft end
    && (fold_left (fun a o => N.lor a (option_flag o)) (tokens ft) 0 =? f).

  Lemma flags_table : forallb (fun n => flags_check (N.of_nat n)) (seq 0 2048) = true.
  Proof. vm_compute. reflexivity. Qed.

  Lemma flags_ok : forall f, f < 2048 -> flags_check f = true.
  Proof.
    intros f Hf.
    pose proof (proj1 (forallb_forall (fun n => flags_check (N.of_nat n)) (seq 0 2048)) flags_table (N.to_nat f)) as T.
    assert (Hin : In (N.to_nat f) (seq 0 2048)) by (apply in_seq; lia).
    specialize (T Hin). cbv beta in T. rewrite N2Nat.id in T. exact T.
  Qed.

  Lemma header_ok : forall m, wordy (m_name val m) -> m_flags val m < 2048 ->
    let hl := header_line val m in
    mem NL hl = false /\ strip hl = hl /\ hl <> [] /\ is_comment hl = false
    /\ header hl = Some (m_in val m, m_name val m, m_flags val m).
  Proof.
    intros m Hw Hf hl. pose proof (flags_ok _ Hf) as C. unfold flags_check in C.
    apply andb_true_iff in C. destruct C as [C C3]. apply andb_true_iff in C. destruct C as [C1 C2].
    apply negb_true_iff in C1. apply N.eqb_eq in C3.
    unfold header_line in hl. set (ft := flags_text FLAGS (m_flags val m)) in *.
    set (mn := m_name val m) in *.
    assert (Hmn_sp : mem SP mn = false) by (apply wordy_no; [exact Hw | reflexivity]).
    assert (Hmn_nl : mem NL mn = false) by (apply wordy_no; [exact Hw | reflexivity]).
    assert (Hlast : last_ns (mn ++ ft) = true).
    { destruct ft as [|c ft'] eqn:Eft.
      - rewrite app_nil_r. apply wordy_last_ns. exact Hw.
      - apply andb_true_iff in C2. destruct C2 as [_ C2]. apply last_ns_app. exact C2. }
    assert (Htok : forall D, mem SP D = false -> D <> [] ->
                   tokens (D ++ SP :: mn ++ ft) = D :: mn :: tokens ft).
    { intros D HD HDne. unfold tokens. rewrite split_on_app by exact HD.
      destruct ft as [|c ft'] eqn:Eft.
      - rewrite app_nil_r. rewrite split_on_none by exact Hmn_sp. cbn [filter split_on].
        destruct D; [contradiction|]. destruct mn; [destruct Hw; contradiction|]. reflexivity.
      - apply andb_true_iff in C2. destruct C2 as [C2 _]. apply N.eqb_eq in C2. subst c.
        rewrite split_on_app by exact Hmn_sp. cbn [split_on]. change (SP =? SP) with true. cbv iota.
        cbn [filter]. destruct D; [contradiction|]. destruct mn; [destruct Hw; contradiction|]. reflexivity. }
    destruct (m_in val m) eqn:Ed; subst hl.
    - repeat split.
      + change (s_IN ++ SP :: mn ++ ft) with ((s_IN ++ [SP]) ++ mn ++ ft). rewrite !mem_app. rewrite Hmn_nl, C1. reflexivity.
      + apply strip_id; [reflexivity|].
        change (s_IN ++ SP :: mn ++ ft) with ((s_IN ++ [SP]) ++ mn ++ ft). apply last_ns_app. exact Hlast.
      + discriminate.
      + unfold header. rewrite Htok by (try reflexivity; discriminate). cbv iota.
        change (str_eqb (map upper s_IN) s_IN) with true. cbv iota. rewrite C3. reflexivity.
    - repeat split.
      + change (s_OUT ++ SP :: mn ++ ft) with ((s_OUT ++ [SP]) ++ mn ++ ft). rewrite !mem_app. rewrite Hmn_nl, C1. reflexivity.
      + apply strip_id; [reflexivity|].
        change (s_OUT ++ SP :: mn ++ ft) with ((s_OUT ++ [SP]) ++ mn ++ ft). apply last_ns_app. exact Hlast.
      + discriminate.
      + unfold header. rewrite Htok by (try reflexivity; discriminate). cbv iota.
        change (str_eqb (map upper s_OUT) s_IN) with false. cbv iota.
        change (str_eqb (map upper s_OUT) s_OUT) with true. cbv iota. rewrite C3. reflexivity.
  Qed.

  (* ---- no physical line contains a newline ---- *)
  Definition nonl (l : str) : Prop := mem NL l = false.

  Lemma nonl_app : forall a b, nonl a -> nonl b -> nonl (a ++ b).
  Proof. intros a b Ha Hb. unfold nonl in *. rewrite mem_app, Ha, Hb. reflexivity. Qed.

  Lemma mlp_rest_nonl : forall ls, Forall nonl ls -> Forall nonl (mlp_rest ls).
  Proof.
    induction ls as [|l ls IH]; intro H; [constructor|].
    inversion H as [|? ? Hl Hls]; subst. destruct ls as [|l2 ls'].
    - constructor; [|constructor]. apply nonl_app; [reflexivity | exact Hl].
    - change (mlp_rest (l :: l2 :: ls')) with ((IND ++ l ++ [SP; BS]) :: mlp_rest (l2 :: ls')).
      constructor; [|apply IH; exact Hls].
      apply nonl_app; [reflexivity|]. apply nonl_app; [exact Hl | reflexivity].
  Qed.

  Lemma attach_mlp_nonl : forall p ls, nonl p -> ls <> [] -> Forall nonl ls -> Forall nonl (attach p (mlp ls)).
  Proof.
    intros p ls Hp Hne H. destruct ls as [|l ls]; [contradiction|].
    inversion H as [|? ? Hl Hls]; subst. destruct ls as [|l2 ls'].
    - cbn. constructor; [|constructor]. apply nonl_app; assumption.
    - change (attach p (mlp (l :: l2 :: ls'))) with ((p ++ l ++ [SP; BS]) :: mlp_rest (l2 :: ls')).
      constructor; [|apply mlp_rest_nonl; exact Hls].
      apply nonl_app; [exact Hp|]. apply nonl_app; [exact Hl | reflexivity].
  Qed.

  Lemma lines_ok_nonl : forall ls, lines_ok ls -> Forall nonl ls.
  Proof. intros ls [_ H]. eapply Forall_impl; [|exact H]. intros l (Hl & _). exact Hl. Qed.

  Lemma wordy_nonl : forall k, wordy k -> nonl k.
  Proof. intros k Hk. apply wordy_no; [exact Hk | reflexivity]. Qed.

  Lemma var_lines_nonl : forall mn bn whole pre k v post,
    var_ok mn bn whole pre k v post -> Forall nonl (var_lines mn bn whole k v).
  Proof.
    intros mn bn whole pre k v post [Hw H]. unfold HumanText.var_lines.
    assert (P1 : nonl ([SP; SP] ++ k ++ [SP; EQ; SP]))
      by (apply nonl_app; [reflexivity|]; apply nonl_app; [apply wordy_nonl; exact Hw | reflexivity]).
    assert (P2 : nonl ([SP; SP] ++ k ++ [SP; EQ; BAR; SP]))
      by (apply nonl_app; [reflexivity|]; apply nonl_app; [apply wordy_nonl; exact Hw | reflexivity]).
    destruct (present mn bn whole k v) as [ls | ls o | ls o].
    - destruct H as [Hls _]. apply attach_mlp_nonl; [exact P1 | apply Hls | apply lines_ok_nonl; exact Hls].
    - destruct H as [Hls _]. apply attach_mlp_nonl; [exact P2 | apply Hls | apply lines_ok_nonl; exact Hls].
    - destruct H as [Hls (Ho & _)]. apply Forall_app. split.
      + apply attach_mlp_nonl; [exact P2 | apply Hls | apply lines_ok_nonl; exact Hls].
      + constructor; [|constructor]. apply nonl_app; [reflexivity|].
        apply nonl_app; [apply wordy_nonl; exact Hw|]. apply nonl_app; [reflexivity | exact Ho].
  Qed.

  Lemma vars_lines_nonl : forall mn bn whole post pre,
    vars_ok mn bn whole pre post -> Forall nonl (vars_lines mn bn whole post).
  Proof.
    intros mn bn whole. induction post as [|[k v] post IH]; intros pre H; [constructor|].
    destruct H as (Hv & _ & Hr). cbn [HumanText.vars_lines]. apply Forall_app. split.
    - eapply var_lines_nonl. exact Hv.
    - eapply IH. exact Hr.
  Qed.

  Lemma body_nonl : forall mn es, Forall (entry_ok mn) es -> Forall nonl (flat_map (blist_lines mn) es).
  Proof.
    intros mn es H. induction H as [|[bn bl] es (Hw & Hs & Hb) Hes IH]; [constructor|].
    cbn [flat_map]. apply Forall_app. split; [|exact IH].
    unfold HumanText.blist_lines. cbn [fst snd] in *.
    assert (BL : forall sfx, nonl sfx -> nonl (LBR :: bn ++ RBR :: sfx)).
    { intros sfx Hsfx. change (LBR :: bn ++ RBR :: sfx) with ([LBR] ++ bn ++ [RBR] ++ sfx).
      apply nonl_app; [reflexivity|]. apply nonl_app; [apply wordy_nonl; exact Hw|].
      apply nonl_app; [reflexivity | exact Hsfx]. }
    destruct bl as [|b0 bl'].
    - constructor; [|constructor]. apply BL. reflexivity.
    - induction Hb as [|b bl Hb Hbl IHb]; [constructor|].
      cbn [flat_map]. apply Forall_app. split; [|exact IHb].
      unfold HumanText.block_lines. constructor.
      + apply BL. apply Hs.
      + eapply vars_lines_nonl. exact Hb.
  Qed.

  (* ---- the theorem ---- *)
  Definition wf_msg (m : msg val) : Prop :=
    wordy (m_name val m) /\ m_flags val m < 2048 /\ NoDup (names (m_blocks val m))
    /\ Forall (entry_ok (m_name val m)) (m_blocks val m) /\ Forall comment_ok (hdr_comments m).

  Theorem text_roundtrip : forall safe m, wf_msg m ->
    from_human safe (to_human m) = OMsg val m [].
  Proof.
    intros safe m (Hw & Hf & Hnd & Hes & Hcs).
    destruct (header_ok m Hw Hf) as (H1 & H2 & H3 & H4 & H5).
    unfold HumanText.from_human, HumanText.to_human, HumanText.to_human_lines.
    rewrite prep_join.
    2: discriminate.
    2:{ constructor; [exact H1|]. apply Forall_app. split.
        - eapply Forall_impl; [|exact Hcs]. intros c (Hc & _). exact Hc.
        - apply Forall_app. split; [constructor; [reflexivity | constructor]|].
          apply Forall_app. split; [apply body_nonl; exact Hes | constructor; [reflexivity | constructor]]. }
    rewrite preps_cons, preps_one by (rewrite H2; exact H3). rewrite H2.
    cbn [app drop_while]. rewrite H4, H5.
    rewrite preps_app. rewrite go_comments by exact Hcs.
    rewrite preps_cons. change (preps [[]]) with (@nil str). cbn [app].
    rewrite preps_app. change (preps [[]]) with (@nil str).
    destruct (go_entries safe (m_in val m) (m_name val m) (m_flags val m) [] [] (m_blocks val m) [] None [] Hnd Hes)
      as [cur' E].
    unfold mk in E. unfold HumanText.body_lines. rewrite E. cbn [HumanText.go HumanText.flush s_pend s_msg m_blocks s_trace app].
    pose proof (flush_entries (m_name val m) [] (m_blocks val m) [] Hnd Hes) as F.
    rewrite app_nil_r in F. cbn [app] in F. rewrite F. cbn [flush_packed]. destruct m; reflexivity.
  Qed.
End RoundTrip.
