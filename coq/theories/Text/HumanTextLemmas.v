(* C11 - string-level lemmas used by the round-trip proof (split/join, strip,
   the line regexes on the lines the formatter produces). *)
From Coq Require Import NArith List Bool Lia.
From HV Require Import Text.HumanText.
Import ListNotations.
Open Scope N_scope.

Definition all_space (s : str) : Prop := forallb is_space s = true.
Definition hd_ns (s : str) : bool := match s with c :: _ => negb (is_space c) | [] => false end.
Definition last_ns (s : str) : bool := hd_ns (rev s).
Definition wordy (k : str) : Prop := k <> [] /\ forallb is_word k = true.

Lemma str_eqb_eq : forall a b, str_eqb a b = true <-> a = b.
Proof.
  induction a as [|x a IH]; destruct b as [|y b]; cbn; split; intro H; try reflexivity; try discriminate.
  - apply andb_true_iff in H. destruct H as [H1 H2]. apply N.eqb_eq in H1. apply IH in H2. congruence.
  - inversion H; subst. rewrite N.eqb_refl. cbn. apply IH. reflexivity.
Qed.

Lemma str_eqb_refl : forall a, str_eqb a a = true.
Proof. intro a. apply str_eqb_eq. reflexivity. Qed.

Lemma str_eqb_neq : forall a b, a <> b -> str_eqb a b = false.
Proof. intros a b H. destruct (str_eqb a b) eqn:E; [|reflexivity]. apply str_eqb_eq in E. contradiction. Qed.

(* ---- take_while / drop_while ---- *)
Lemma drop_while_all {A} (p : A -> bool) : forall a s, forallb p a = true -> drop_while p (a ++ s) = drop_while p s.
Proof.
  induction a as [|c a IH]; intros s H; cbn in *; [reflexivity|].
  apply andb_true_iff in H. destruct H as [H1 H2]. rewrite H1. apply IH. exact H2.
Qed.

Lemma take_drop_stop {A} (p : A -> bool) : forall k c r, forallb p k = true -> p c = false ->
  take_while p (k ++ c :: r) = k /\ drop_while p (k ++ c :: r) = c :: r.
Proof.
  induction k as [|x k IH]; intros c r H Hc; cbn in *.
  - rewrite Hc. split; reflexivity.
  - apply andb_true_iff in H. destruct H as [H1 H2]. rewrite H1.
    destruct (IH c r H2 Hc) as [E1 E2]. rewrite E1, E2. split; reflexivity.
Qed.

Lemma take_while_all {A} (p : A -> bool) : forall k, forallb p k = true -> take_while p k = k /\ drop_while p k = [].
Proof.
  induction k as [|x k IH]; intro H; cbn in *; [split; reflexivity|].
  apply andb_true_iff in H. destruct H as [H1 H2]. rewrite H1. destruct (IH H2) as [E1 E2].
  rewrite E1, E2. split; reflexivity.
Qed.

Lemma take_drop_split {A} (p : A -> bool) : forall s, s = take_while p s ++ drop_while p s.
Proof. induction s as [|c s IH]; cbn; [reflexivity|]. destruct (p c); cbn; [f_equal; exact IH | reflexivity]. Qed.

Lemma take_while_forall {A} (p : A -> bool) : forall s, forallb p (take_while p s) = true.
Proof. induction s as [|c s IH]; cbn; [reflexivity|]. destruct (p c) eqn:E; cbn; [rewrite E; exact IH | reflexivity]. Qed.

Lemma drop_while_head {A} (p : A -> bool) : forall s c r, drop_while p s = c :: r -> p c = false.
Proof.
  induction s as [|x s IH]; intros c r H; cbn in H; [discriminate|].
  destruct (p x) eqn:E; [eapply IH; exact H | inversion H; subst; exact E].
Qed.

Lemma drop_while_keep {A} (p : A -> bool) : forall x h y, p h = false ->
  exists x', drop_while p (x ++ h :: y) = x' ++ h :: y.
Proof.
  induction x as [|c x IH]; intros h y Hh; cbn.
  - rewrite Hh. exists []. reflexivity.
  - destruct (p c); [apply IH; exact Hh | exists (c :: x); reflexivity].
Qed.

Lemma forallb_rev {A} (p : A -> bool) : forall l, forallb p (rev l) = forallb p l.
Proof.
  induction l as [|c l IH]; cbn; [reflexivity|].
  rewrite forallb_app, IH. cbn. rewrite andb_true_r. apply andb_comm.
Qed.

(* ---- strip ---- *)
Lemma lstrip_clean : forall s, hd_ns s = true -> lstrip s = s.
Proof. intros [|c s] H; cbn in *; [discriminate|]. apply negb_true_iff in H. rewrite H. reflexivity. Qed.

Lemma lstrip_sp : forall a s, all_space a -> lstrip (a ++ s) = lstrip s.
Proof. intros a s H. apply drop_while_all. exact H. Qed.

Lemma hd_ns_app : forall x y, hd_ns x = true -> hd_ns (x ++ y) = true.
Proof. intros [|c x] y H; cbn in *; [discriminate | exact H]. Qed.

Lemma last_ns_app : forall x y, last_ns y = true -> last_ns (x ++ y) = true.
Proof. intros x y H. unfold last_ns in *. rewrite rev_app_distr. apply hd_ns_app. exact H. Qed.

Lemma last_ns_snoc : forall x c, is_space c = false -> last_ns (x ++ [c]) = true.
Proof. intros x c H. unfold last_ns. rewrite rev_app_distr. cbn. rewrite H. reflexivity. Qed.

Lemma rstrip_sp : forall x w, all_space w -> last_ns x = true -> rstrip (x ++ w) = x.
Proof.
  intros x w Hw Hx. unfold rstrip. rewrite rev_app_distr.
  rewrite drop_while_all by (unfold all_space in Hw; rewrite forallb_rev; exact Hw).
  unfold last_ns in Hx. fold (lstrip (rev x)). rewrite lstrip_clean by exact Hx. apply rev_involutive.
Qed.

Lemma strip_clean : forall a x w, all_space a -> all_space w -> hd_ns x = true -> last_ns x = true ->
  strip (a ++ x ++ w) = x.
Proof.
  intros a x w Ha Hw H1 H2. unfold strip. rewrite app_assoc.
  rewrite rstrip_sp by (try exact Hw; apply last_ns_app; exact H2).
  rewrite lstrip_sp by exact Ha. apply lstrip_clean. exact H1.
Qed.

Lemma strip_id : forall x, hd_ns x = true -> last_ns x = true -> strip x = x.
Proof.
  intros x H1 H2. pose proof (strip_clean [] x [] eq_refl eq_refl H1 H2) as H.
  cbn in H. rewrite app_nil_r in H. exact H.
Qed.

Lemma strip_decomp : forall l, strip l <> [] ->
  exists a c w, l = a ++ c ++ w /\ all_space a /\ all_space w /\ hd_ns c = true /\ last_ns c = true /\ strip l = c.
Proof.
  intros l Hne. unfold strip, rstrip, lstrip in *.
  set (tw := take_while is_space (rev l)). set (dw := drop_while is_space (rev l)) in *.
  assert (Hl : l = rev dw ++ rev tw).
  { rewrite <- rev_app_distr. unfold tw, dw. rewrite <- take_drop_split. symmetry. apply rev_involutive. }
  set (a := take_while is_space (rev dw)). set (c := drop_while is_space (rev dw)) in *.
  assert (Hd : rev dw = a ++ c) by apply take_drop_split.
  exists a, c, (rev tw). repeat split.
  - rewrite Hl at 1. rewrite Hd. rewrite app_assoc. reflexivity.
  - apply take_while_forall.
  - unfold all_space. rewrite forallb_rev. apply take_while_forall.
  - destruct c as [|x c'] eqn:Ec; [contradiction|]. cbn.
    rewrite (drop_while_head is_space (rev dw) x c' Ec). reflexivity.
  - assert (Hdw : dw = rev c ++ rev a).
    { rewrite <- rev_app_distr, <- Hd. symmetry. apply rev_involutive. }
    unfold last_ns. destruct (rev c) as [|y rc] eqn:Er.
    + apply (f_equal (@rev N)) in Er. rewrite rev_involutive in Er. cbn in Er. contradiction.
    + cbn. cbn in Hdw. unfold dw in Hdw.
      rewrite (drop_while_head is_space (rev l) y (rc ++ rev a) Hdw). reflexivity.
Qed.

Lemma strip_head : forall a h t, all_space a -> is_space h = false ->
  exists t', strip (a ++ h :: t) = h :: t'.
Proof.
  intros a h t Ha Hh. unfold strip, rstrip.
  rewrite rev_app_distr. cbn [rev]. rewrite <- app_assoc. cbn [app].
  destruct (drop_while_keep is_space (rev t) h (rev a) Hh) as [x' Hx]. rewrite Hx.
  rewrite rev_app_distr. cbn [rev]. rewrite rev_involutive.
  rewrite <- app_assoc. cbn [app].
  rewrite lstrip_sp by exact Ha. exists (rev x'). unfold lstrip. cbn. rewrite Hh. reflexivity.
Qed.

(* ---- ends_with ---- *)
Lemma ends_with_snoc : forall c x, ends_with c (x ++ [c]) = true.
Proof. intros c x. unfold ends_with. rewrite rev_app_distr. cbn. apply N.eqb_refl. Qed.

Lemma ends_with_app : forall c x y, y <> [] -> ends_with c (x ++ y) = ends_with c y.
Proof.
  intros c x y Hy. unfold ends_with. rewrite rev_app_distr.
  destruct (rev y) as [|z ry] eqn:E; [|reflexivity].
  apply (f_equal (@rev N)) in E. rewrite rev_involutive in E. contradiction.
Qed.

(* ---- split / join ---- *)
Lemma split_on_none : forall d l, mem d l = false -> split_on d l = [l].
Proof.
  induction l as [|c l IH]; intro H; cbn in *; [reflexivity|].
  apply orb_false_iff in H. destruct H as [H1 H2]. rewrite N.eqb_sym, H1. rewrite (IH H2). reflexivity.
Qed.

Lemma split_on_app : forall d l r, mem d l = false -> split_on d (l ++ d :: r) = l :: split_on d r.
Proof.
  induction l as [|c l IH]; intros r H; cbn in *.
  - rewrite N.eqb_refl. reflexivity.
  - apply orb_false_iff in H. destruct H as [H1 H2]. rewrite N.eqb_sym, H1. rewrite (IH r H2). reflexivity.
Qed.

Lemma split_join : forall d ls, ls <> [] -> Forall (fun l => mem d l = false) ls -> split_on d (join d ls) = ls.
Proof.
  induction ls as [|l ls IH]; intros Hne H; [contradiction|].
  inversion H as [|? ? Hl Hls]; subst.
  destruct ls as [|l2 ls']; [cbn; apply split_on_none; exact Hl|].
  change (join d (l :: l2 :: ls')) with (l ++ d :: join d (l2 :: ls')).
  rewrite split_on_app by exact Hl. f_equal. apply IH; [discriminate | exact Hls].
Qed.

Lemma mem_app : forall c x y, mem c (x ++ y) = mem c x || mem c y.
Proof. intros. unfold mem. apply existsb_app. Qed.

(* ---- character facts ---- *)
Definition wns_check (n : nat) : bool := implb (is_word (N.of_nat n)) (negb (is_space (N.of_nat n))).
Lemma wns_table : forallb wns_check (seq 0 256) = true.
Proof. vm_compute. reflexivity. Qed.

Lemma word_not_space : forall c, is_word c = true -> is_space c = false.
Proof.
  intros c H.
  assert (Hc : c < 256). { unfold is_word in H. apply andb_true_iff in H. destruct H as [H _]. apply N.ltb_lt in H. exact H. }
  pose proof (proj1 (forallb_forall wns_check (seq 0 256)) wns_table (N.to_nat c)) as T.
  assert (Hin : In (N.to_nat c) (seq 0 256)) by (apply in_seq; lia).
  specialize (T Hin). unfold wns_check in T. rewrite N2Nat.id, H in T.
  destruct (is_space c); [discriminate T | reflexivity].
Qed.

Lemma word_neq : forall c d, is_word c = true -> is_word d = false -> (c =? d) = false.
Proof. intros c d H1 H2. destruct (c =? d) eqn:E; [|reflexivity]. apply N.eqb_eq in E. subst. congruence. Qed.

Lemma wordy_hd_ns : forall k, wordy k -> hd_ns k = true.
Proof.
  intros [|c k] [H1 H2]; [contradiction|]. cbn in *. apply andb_true_iff in H2. destruct H2 as [H2 _].
  rewrite (word_not_space c H2). reflexivity.
Qed.

Lemma wordy_last_ns : forall k, wordy k -> last_ns k = true.
Proof.
  intros k [H1 H2]. unfold last_ns. destruct (rev k) as [|c r] eqn:E.
  - apply (f_equal (@rev N)) in E. rewrite rev_involutive in E. contradiction.
  - cbn. rewrite <- forallb_rev in H2. rewrite E in H2. cbn in H2. apply andb_true_iff in H2. destruct H2 as [H2 _].
    rewrite (word_not_space c H2). reflexivity.
Qed.

Lemma wordy_no : forall k d, wordy k -> is_word d = false -> mem d k = false.
Proof.
  intros k d [_ H] Hd. induction k as [|c k IH]; cbn in *; [reflexivity|].
  apply andb_true_iff in H. destruct H as [H1 H2]. rewrite N.eqb_sym, (word_neq c d H1 Hd). cbn. apply IH. exact H2.
Qed.
