(* C11 - proofs about the concrete Python-literal model (Text/PyLiteral.v):
   every physical line the renderer produces for a str / bytes / int value is
   non-blank, newline-free, does not end in a backslash and does not start with
   a character the framing gives a meaning to; the stripped concatenation of the
   lines is not taken for a replacement token, a vector or a UUID; and the
   literal reader gives the value back. *)
From Coq Require Import Decimal DecimalFacts DecimalPos DecimalN NArith ZArith Bool Lia ZifyBool ZifyN List.
From HV Require Import Text.HumanText Text.HumanTextLemmas Text.HumanTextProofs Text.PyLiteral.
Import ListNotations.
Open Scope N_scope.

(* ---------------------------------------------------------------- generic list facts *)

Lemma split_after_concat : forall brk s, concat (split_after brk s) = s.
Proof.
  intros brk. induction s as [|c r IH]; [reflexivity|].
  cbn [split_after]. destruct (brk c r).
  - cbn [concat app]. rewrite IH. reflexivity.
  - destruct (split_after brk r) as [|h t] eqn:E.
    + cbn in IH. subst r. reflexivity.
    + cbn [concat] in *. rewrite <- IH. reflexivity.
Qed.

Lemma split_after_ne : forall brk s, Forall (fun p => p <> []) (split_after brk s).
Proof.
  intros brk. induction s as [|c r IH]; [constructor|].
  cbn [split_after]. destruct (brk c r).
  - constructor; [discriminate | exact IH].
  - destruct (split_after brk r) as [|h t]; constructor; try discriminate.
    + constructor.
    + inversion IH; assumption.
Qed.

Lemma groups4_props : forall n b, (length b <= n)%nat ->
  concat (groups4 b) = b /\ Forall (fun p => p <> []) (groups4 b).
Proof.
  induction n as [|n IH]; intros b Hb.
  - destruct b; [split; [reflexivity | constructor] | cbn in Hb; lia].
  - destruct b as [|x1 [|x2 [|x3 [|x4 r]]]]; cbn [groups4];
      try (split; [reflexivity | repeat constructor; discriminate]).
    destruct (IH r) as [E F]; [cbn in Hb; lia|].
    split.
    + cbn [concat app]. rewrite E. reflexivity.
    + constructor; [discriminate | exact F].
Qed.

Lemma nonempty_true : forall s : str, nonempty s = true <-> s <> [].
Proof. intros [|c s]; cbn; split; intro H; try discriminate; try reflexivity. contradiction. Qed.

Lemma opt_cur_concat : forall cur : str, concat (if nonempty cur then [cur] else []) = cur.
Proof. intros [|c s]; cbn; [reflexivity | rewrite app_nil_r; reflexivity]. Qed.

Lemma opt_cur_ne : forall cur : str, Forall (fun p => p <> []) (if nonempty cur then [cur] else []).
Proof. intros [|c s]; cbn; repeat constructor. discriminate. Qed.

(* ---------------------------------------------------------------- hex digits *)

Definition hex_check (k : nat) : bool :=
  match hexval (hexd (N.of_nat k)) with Some m => m =? N.of_nat k | None => false end
  && negb (hexd (N.of_nat k) =? NL) && negb (is_space (hexd (N.of_nat k))) && negb (hexd (N.of_nat k) =? BS).
Lemma hex_table : forallb hex_check (seq 0 16) = true.
Proof. vm_compute. reflexivity. Qed.

Lemma hexd_facts : forall n, n < 16 ->
  hexval (hexd n) = Some n /\ hexd n <> NL /\ is_space (hexd n) = false /\ hexd n <> BS.
Proof.
  intros n Hn.
  pose proof (proj1 (forallb_forall hex_check (seq 0 16)) hex_table (N.to_nat n)) as T.
  assert (Hin : In (N.to_nat n) (seq 0 16)) by (apply in_seq; lia).
  specialize (T Hin). unfold hex_check in T. rewrite N2Nat.id in T.
  apply andb_true_iff in T. destruct T as [T T4]. apply andb_true_iff in T. destruct T as [T T3].
  apply andb_true_iff in T. destruct T as [T1 T2].
  destruct (hexval (hexd n)) as [m|]; [|discriminate].
  apply N.eqb_eq in T1. subst m.
  apply negb_true_iff in T2, T3, T4. apply N.eqb_neq in T2, T4.
  repeat split; assumption.
Qed.

Lemma nibble : forall c j, N.land (N.shiftr c (4 * N.of_nat j)) 15 = (c / 16 ^ N.of_nat j) mod 16.
Proof.
  intros c j. rewrite N.shiftr_div_pow2. change 15 with (N.ones 4). rewrite N.land_ones.
  rewrite N.pow_mul_r. reflexivity.
Qed.

Lemma hexk_S : forall k c, hexk (S k) c = hexd ((c / 16 ^ N.of_nat k) mod 16) :: hexk k c.
Proof. intros. cbn [hexk]. rewrite nibble. reflexivity. Qed.

Lemma mod16_lt : forall x, x mod 16 < 16.
Proof. intro x. apply N.mod_lt. discriminate. Qed.

Lemma hexk_no : forall k c, mem NL (hexk k c) = false /\ mem BS (hexk k c) = false.
Proof.
  induction k as [|k IH]; intro c; [split; reflexivity|].
  rewrite hexk_S. cbn [mem existsb]. destruct (IH c) as [I1 I2]. unfold mem in I1, I2. rewrite I1, I2.
  destruct (hexd_facts _ (mod16_lt (c / 16 ^ N.of_nat k))) as (_ & H1 & _ & H2).
  split; rewrite orb_false_r; apply N.eqb_neq; intro E; [apply H1 | apply H2]; symmetry; exact E.
Qed.

Lemma pow16_step : forall c j, 16 * (c / 16 ^ N.of_nat (S j)) + (c / 16 ^ N.of_nat j) mod 16 = c / 16 ^ N.of_nat j.
Proof.
  intros c j. rewrite Nat2N.inj_succ, N.pow_succ_r by apply N.le_0_l.
  rewrite (N.mul_comm 16 (16 ^ N.of_nat j)).
  rewrite <- N.div_div by (try discriminate; apply N.pow_nonzero; discriminate).
  symmetry. apply N.div_mod. discriminate.
Qed.

(* reading the k hex digits of c, k >= 1, having accumulated the digits above them *)
Lemma sbody_hex : forall isb q k c rest,
  sbody isb q (EHex (S k) (c / 16 ^ N.of_nat (S k))) (hexk (S k) c ++ rest) =
  if c <? UNI_MAX then cons_res c (sbody isb q ENorm rest) else None.
Proof.
  intros isb q. induction k as [|k IH]; intros c rest.
  - rewrite hexk_S. cbn [hexk app sbody].
    destruct (hexd_facts _ (mod16_lt (c / 16 ^ N.of_nat 0))) as (Hv & _). rewrite Hv.
    cbv zeta. rewrite (pow16_step c 0). cbn [N.of_nat]. rewrite N.pow_0_r, N.div_1_r. reflexivity.
  - rewrite (hexk_S (S k)).
    cbn [app sbody].
    destruct (hexd_facts _ (mod16_lt (c / 16 ^ N.of_nat (S k)))) as (Hv & _). rewrite Hv.
    cbv zeta. rewrite (pow16_step c (S k)). apply IH.
Qed.

Lemma sbody_hex0 : forall isb q k c rest, c < 16 ^ N.of_nat (S k) ->
  sbody isb q (EHex (S k) 0) (hexk (S k) c ++ rest) =
  if c <? UNI_MAX then cons_res c (sbody isb q ENorm rest) else None.
Proof.
  intros isb q k c rest H. rewrite <- (sbody_hex isb q k c rest).
  rewrite (N.div_small c _ H). reflexivity.
Qed.

(* ---------------------------------------------------------------- one step of the literal body reader *)

Ltac ub := unfold is_quote, is_bprefix, is_tws, QS, QD, BS, TAB, NL, CR, SP, UNI_MAX, LP, RP, CB, MINUS, HASH, LBR, LT, DOLLAR, BAR in *.

Lemma quote_cases : forall q, is_quote q = true -> q = QS \/ q = QD.
Proof. intros q H. ub. lia. Qed.

Lemma sbody_raw : forall isb q c r, c <> q -> c <> BS -> raw_ok isb c = true ->
  sbody isb q ENorm (c :: r) = cons_res c (sbody isb q ENorm r).
Proof.
  intros isb q c r H1 H2 H3. cbn [sbody].
  apply N.eqb_neq in H1, H2. rewrite H1, H2, H3. reflexivity.
Qed.

Lemma sbody_bs : forall isb q r, is_quote q = true -> sbody isb q ENorm (BS :: r) = sbody isb q EBs r.
Proof.
  intros isb q r Hq. cbn [sbody]. destruct (quote_cases q Hq); subst q; reflexivity.
Qed.

Lemma sbody_simple : forall isb q c d r, simple_esc c = Some d ->
  sbody isb q EBs (c :: r) = cons_res d (sbody isb q ENorm r).
Proof. intros isb q c d r H. cbn [sbody]. rewrite H. reflexivity. Qed.

Lemma sbody_close : forall isb q r, sbody isb q ENorm (q :: r) = Some ([], r).
Proof. intros. cbn [sbody]. rewrite N.eqb_refl. reflexivity. Qed.

Lemma sbody_x : forall isb q c rest, c < 256 ->
  sbody isb q ENorm (BS :: 120 :: hexk 2 c ++ rest) = cons_res c (sbody isb q ENorm rest) \/ is_quote q = false.
Proof.
  intros isb q c rest Hc. destruct (is_quote q) eqn:Hq; [left | right; reflexivity].
  rewrite sbody_bs by exact Hq.
  change (sbody isb q EBs (120 :: hexk 2 c ++ rest)) with (sbody isb q (EHex 2 0) (hexk 2 c ++ rest)).
  rewrite sbody_hex0 by (cbn; lia).
  replace (c <? UNI_MAX) with true by (symmetry; ub; lia). reflexivity.
Qed.

Lemma sbody_u : forall q c rest, is_quote q = true -> c < 65536 ->
  sbody false q ENorm (BS :: 117 :: hexk 4 c ++ rest) = cons_res c (sbody false q ENorm rest).
Proof.
  intros q c rest Hq Hc. rewrite sbody_bs by exact Hq.
  change (sbody false q EBs (117 :: hexk 4 c ++ rest)) with (sbody false q (EHex 4 0) (hexk 4 c ++ rest)).
  rewrite sbody_hex0 by (cbn; lia).
  replace (c <? UNI_MAX) with true by (symmetry; ub; lia). reflexivity.
Qed.

Lemma sbody_U : forall q c rest, is_quote q = true -> c < UNI_MAX ->
  sbody false q ENorm (BS :: 85 :: hexk 8 c ++ rest) = cons_res c (sbody false q ENorm rest).
Proof.
  intros q c rest Hq Hc. rewrite sbody_bs by exact Hq.
  change (sbody false q EBs (85 :: hexk 8 c ++ rest)) with (sbody false q (EHex 8 0) (hexk 8 c ++ rest)).
  rewrite sbody_hex0 by (ub; cbn; lia).
  replace (c <? UNI_MAX) with true by (symmetry; ub; lia). reflexivity.
Qed.

Lemma sbody_x' : forall isb q c rest, is_quote q = true -> c < 256 ->
  sbody isb q ENorm (BS :: 120 :: hexk 2 c ++ rest) = cons_res c (sbody isb q ENorm rest).
Proof.
  intros isb q c rest Hq Hc. destruct (sbody_x isb q c rest Hc) as [H|H]; [exact H | congruence].
Qed.

Lemma sbody_esc2 : forall isb q c d r, is_quote q = true -> simple_esc c = Some d ->
  sbody isb q ENorm (BS :: c :: r) = cons_res d (sbody isb q ENorm r).
Proof. intros. rewrite sbody_bs by assumption. apply sbody_simple. assumption. Qed.

(* ---------------------------------------------------------------- one escaped character *)

Section Chars.
  Variable printable : N -> bool.
  (* the only fact about str.isprintable the proofs use *)
  Hypothesis printable_nosur : forall c, printable c = true -> is_sur c = false.

  Lemma simple_esc_self : forall c, c = BS \/ c = QS \/ c = QD -> simple_esc c = Some c.
  Proof. clear printable_nosur. clear printable. intros c H. unfold simple_esc. replace ((c =? BS) || (c =? QS) || (c =? QD)) with true by (symmetry; ub; lia). reflexivity. Qed.

  Lemma read_esc_str : forall q c rest, is_quote q = true -> c < UNI_MAX ->
    sbody false q ENorm (esc_str printable q c ++ rest) = cons_res c (sbody false q ENorm rest).
  Proof.
    intros q c rest Hq Hc. pose proof (quote_cases q Hq) as Hq'. unfold esc_str.
    destruct ((c =? q) || (c =? BS)) eqn:E1.
    { cbn [app]. apply sbody_esc2; [exact Hq|]. apply simple_esc_self. ub. lia. }
    destruct (c =? TAB) eqn:E2.
    { apply N.eqb_eq in E2. subst c. cbn [app]. apply sbody_esc2; [exact Hq | reflexivity]. }
    destruct (c =? NL) eqn:E3.
    { apply N.eqb_eq in E3. subst c. cbn [app]. apply sbody_esc2; [exact Hq | reflexivity]. }
    destruct (c =? CR) eqn:E4.
    { apply N.eqb_eq in E4. subst c. cbn [app]. apply sbody_esc2; [exact Hq | reflexivity]. }
    destruct ((c <? 32) || (c =? 127)) eqn:E5.
    { cbn [app]. apply sbody_x'; [exact Hq | lia]. }
    destruct (c <? 127) eqn:E6.
    { cbn [app]. apply sbody_raw.
      - ub. lia.
      - ub. lia.
      - unfold raw_ok, src_ok, is_sur. ub. lia. }
    destruct (printable c) eqn:E7.
    { cbn [app]. apply sbody_raw.
      - ub. lia.
      - ub. lia.
      - pose proof (printable_nosur c E7) as Hs. unfold raw_ok, src_ok. rewrite Hs. ub. lia. }
    destruct (c <? 256) eqn:E8.
    { cbn [app]. apply sbody_x'; [exact Hq | lia]. }
    destruct (c <? 65536) eqn:E9.
    { cbn [app]. apply sbody_u; [exact Hq | lia]. }
    cbn [app]. apply sbody_U; [exact Hq | exact Hc].
  Qed.

  Lemma read_esc_bytes : forall q c rest, is_quote q = true -> c < 256 ->
    sbody true q ENorm (esc_bytes q c ++ rest) = cons_res c (sbody true q ENorm rest).
  Proof. clear printable_nosur. clear printable.
    intros q c rest Hq Hc. pose proof (quote_cases q Hq) as Hq'. unfold esc_bytes.
    destruct ((c =? q) || (c =? BS)) eqn:E1.
    { cbn [app]. apply sbody_esc2; [exact Hq|]. apply simple_esc_self. ub. lia. }
    destruct (c =? TAB) eqn:E2.
    { apply N.eqb_eq in E2. subst c. cbn [app]. apply sbody_esc2; [exact Hq | reflexivity]. }
    destruct (c =? NL) eqn:E3.
    { apply N.eqb_eq in E3. subst c. cbn [app]. apply sbody_esc2; [exact Hq | reflexivity]. }
    destruct (c =? CR) eqn:E4.
    { apply N.eqb_eq in E4. subst c. cbn [app]. apply sbody_esc2; [exact Hq | reflexivity]. }
    destruct ((c <? 32) || (127 <=? c)) eqn:E5.
    { cbn [app]. apply sbody_x'; [exact Hq | lia]. }
    cbn [app]. apply sbody_raw.
    - ub. lia.
    - ub. lia.
    - unfold raw_ok, src_ok, is_sur. ub. lia.
  Qed.

  (* shape of one escaped character: not empty, no raw newline, does not start
     with the quote in use *)
  Definition esc_shape (q : N) (e : str) : Prop :=
    mem NL e = false /\ starts_with q e = false /\ e <> [].

  Lemma mem_cons2 : forall c a r, mem c (a :: r) = (c =? a) || mem c r.
  Proof. clear printable_nosur. clear printable. reflexivity. Qed.

  Lemma hex_shape : forall q x k c, is_quote q = true -> esc_shape q (BS :: x :: hexk k c) \/ x = NL.
  Proof. clear printable_nosur. clear printable.
    intros q x k c Hq. destruct (N.eq_dec x NL) as [E|E]; [right; exact E | left].
    unfold esc_shape. rewrite !mem_cons2. destruct (hexk_no k c) as [H _]. rewrite H.
    repeat split; try discriminate.
    - apply N.eqb_neq in E. rewrite N.eqb_sym in E. rewrite E. reflexivity.
    - cbn. destruct (quote_cases q Hq); subst q; reflexivity.
  Qed.

  Lemma esc_str_shape : forall q c, is_quote q = true -> esc_shape q (esc_str printable q c).
  Proof. clear printable_nosur.
    intros q c Hq. pose proof (quote_cases q Hq) as Hq'. unfold esc_str.
    assert (HX : forall x k, x <> NL -> esc_shape q (BS :: x :: hexk k c)).
    { intros x k Hx. destruct (hex_shape q x k c Hq); [assumption | contradiction]. }
    assert (H2 : forall x, x <> NL -> esc_shape q [BS; x]).
    { intros x Hx. apply (HX x O Hx). }
    destruct ((c =? q) || (c =? BS)) eqn:E1; [apply H2; ub; lia|].
    destruct (c =? TAB) eqn:E2; [apply H2; discriminate|].
    destruct (c =? NL) eqn:E3; [apply H2; discriminate|].
    destruct (c =? CR) eqn:E4; [apply H2; discriminate|].
    destruct ((c <? 32) || (c =? 127)) eqn:E5; [apply HX; discriminate|].
    assert (R : esc_shape q [c]).
    { unfold esc_shape, mem, starts_with. cbn [existsb]. repeat split; try discriminate; ub; lia. }
    destruct (c <? 127) eqn:E6; [exact R|].
    destruct (printable c) eqn:E7; [exact R|].
    destruct (c <? 256) eqn:E8; [apply HX; discriminate|].
    destruct (c <? 65536) eqn:E9; apply HX; discriminate.
  Qed.

  Lemma esc_bytes_shape : forall q c, is_quote q = true -> esc_shape q (esc_bytes q c).
  Proof. clear printable_nosur. clear printable.
    intros q c Hq. pose proof (quote_cases q Hq) as Hq'. unfold esc_bytes.
    assert (HX : forall x k, x <> NL -> esc_shape q (BS :: x :: hexk k c)).
    { intros x k Hx. destruct (hex_shape q x k c Hq); [assumption | contradiction]. }
    assert (H2 : forall x, x <> NL -> esc_shape q [BS; x]).
    { intros x Hx. apply (HX x O Hx). }
    destruct ((c =? q) || (c =? BS)) eqn:E1; [apply H2; ub; lia|].
    destruct (c =? TAB) eqn:E2; [apply H2; discriminate|].
    destruct (c =? NL) eqn:E3; [apply H2; discriminate|].
    destruct (c =? CR) eqn:E4; [apply H2; discriminate|].
    destruct ((c <? 32) || (127 <=? c)) eqn:E5; [apply HX; discriminate|].
    unfold esc_shape, mem, starts_with. cbn [existsb]. repeat split; try discriminate; ub; lia.
  Qed.
End Chars.

(* ---------------------------------------------------------------- one whole literal *)

Section Lits.
  Variable printable : N -> bool.
  Hypothesis printable_nosur : forall c, printable c = true -> is_sur c = false.

  Definition esc (isb : bool) (q c : N) : str := if isb then esc_bytes q c else esc_str printable q c.
  Definition dom_max (isb : bool) : N := if isb then 256 else UNI_MAX.
  Definition in_dom (isb : bool) (x : str) : Prop := Forall (fun c => c < dom_max isb) x.

  Lemma repr_sb_eq : forall isb x,
    repr_sb printable isb x =
    (if isb then [CB] else []) ++ quote_of x :: flat_map (esc isb (quote_of x)) x ++ [quote_of x].
  Proof. intros [|] x; reflexivity. Qed.

  Lemma quote_of_quote : forall x, is_quote (quote_of x) = true.
  Proof. intro x. unfold quote_of. destruct (mem QS x && negb (mem QD x)); reflexivity. Qed.

  Lemma read_esc : forall isb q c rest, is_quote q = true -> c < dom_max isb ->
    sbody isb q ENorm (esc isb q c ++ rest) = cons_res c (sbody isb q ENorm rest).
  Proof.
    intros [|] q c rest Hq Hc; unfold esc.
    - apply read_esc_bytes; assumption.
    - apply (read_esc_str printable printable_nosur); assumption.
  Qed.

  Lemma esc_shape_sb : forall isb q c, is_quote q = true -> esc_shape q (esc isb q c).
  Proof. intros [|] q c Hq; unfold esc; [apply esc_bytes_shape | apply esc_str_shape]; exact Hq. Qed.

  Lemma read_body : forall isb q x rest, is_quote q = true -> in_dom isb x ->
    sbody isb q ENorm (flat_map (esc isb q) x ++ q :: rest) = Some (x, rest).
  Proof.
    intros isb q x rest Hq. induction x as [|c x IH]; intro Hd.
    - apply sbody_close.
    - inversion Hd as [|? ? Hc Hx]; subst. cbn [flat_map]. rewrite <- app_assoc.
      rewrite read_esc by assumption. rewrite IH by exact Hx. reflexivity.
  Qed.

  Lemma body_no_nl : forall isb q x, is_quote q = true -> mem NL (flat_map (esc isb q) x) = false.
  Proof.
    intros isb q x Hq. induction x as [|c x IH]; [reflexivity|].
    cbn [flat_map]. rewrite mem_app, IH. destruct (esc_shape_sb isb q c Hq) as (H & _). rewrite H. reflexivity.
  Qed.

  Lemma body_head : forall isb q x r, is_quote q = true -> x <> [] ->
    starts_with q (flat_map (esc isb q) x ++ r) = false /\ triple q (flat_map (esc isb q) x ++ r) = false.
  Proof.
    intros isb q [|c x] r Hq Hx; [contradiction|]. cbn [flat_map]. rewrite <- app_assoc.
    destruct (esc_shape_sb isb q c Hq) as (_ & H & Hne).
    destruct (esc isb q c) as [|a e]; [contradiction|]. cbn [app starts_with triple] in *.
    split; [exact H|]. destruct (e ++ flat_map (esc isb q) x ++ r); [reflexivity|]. rewrite H. reflexivity.
  Qed.

  Lemma triple_empty : forall q tail, starts_with q tail = false -> triple q (q :: tail) = false.
  Proof. intros q [|b t] H; [reflexivity|]. cbn in *. rewrite H. apply andb_false_r. Qed.

  (* one literal followed by anything: an empty literal must not be followed by its own quote *)
  Lemma read_one_repr : forall isb x tail, in_dom isb x ->
    (x <> [] \/ starts_with (quote_of x) tail = false) ->
    read_one isb (repr_sb printable isb x ++ tail) = Some (x, tail).
  Proof.
    intros isb x tail Hd Hx. rewrite repr_sb_eq. set (q := quote_of x) in *.
    pose proof (quote_of_quote x) as Hq. fold q in Hq.
    assert (E : read_one isb (((if isb then [CB] else []) ++ q :: flat_map (esc isb q) x ++ [q]) ++ tail)
                = if triple q (flat_map (esc isb q) x ++ q :: tail) then None
                  else sbody isb q ENorm (flat_map (esc isb q) x ++ q :: tail)).
    { unfold read_one. destruct isb; cbn [app]; rewrite <- app_assoc; cbn [app]; [change (is_bprefix CB) with true; cbv iota|];
        rewrite Hq; reflexivity. }
    rewrite E. clear E.
    assert (T : triple q (flat_map (esc isb q) x ++ q :: tail) = false).
    { destruct x as [|c x'].
      - destruct Hx as [Hx|Hx]; [contradiction|]. cbn [flat_map app]. apply triple_empty. exact Hx.
      - apply body_head; [exact Hq | discriminate]. }
    rewrite T. apply read_body; assumption.
  Qed.
End Lits.

(* ---------------------------------------------------------------- adjacent literals *)

(* all chunks but the last are non-empty *)
Fixpoint abl_ne (cs : list str) : Prop :=
  match cs with
  | [] => True
  | [_] => True
  | c :: r => c <> [] /\ abl_ne r
  end.

Lemma abl_ne_all : forall cs, Forall (fun c : str => c <> []) cs -> abl_ne cs.
Proof.
  induction cs as [|c cs IH]; intro H; [exact I|]. inversion H; subst.
  destruct cs; [exact I|]. split; [assumption | apply IH; assumption].
Qed.

(* what may follow a run of literals: not a blank, not another literal *)
Definition stop_tail (t : str) : Prop := skip_ws t = t /\ starts_str t = false /\ starts_bytes t = false.

Lemma stop_nil : stop_tail [].
Proof. repeat split. Qed.
Lemma stop_rp : forall t, stop_tail (RP :: t).
Proof. intro t. repeat split. destruct t; reflexivity. Qed.

Section Seq.
  Variable printable : N -> bool.
  Hypothesis printable_nosur : forall c, printable c = true -> is_sur c = false.
  Local Notation repr := (repr_sb printable).

  Lemma repr_start : forall isb x tail,
    skip_ws (repr isb x ++ tail) = repr isb x ++ tail /\ starts_lit isb (repr isb x ++ tail) = true.
  Proof.
    intros isb x tail. rewrite repr_sb_eq. pose proof (quote_of_quote x) as Hq.
    destruct (quote_cases _ Hq) as [E|E]; rewrite E; destruct isb; split; reflexivity.
  Qed.

  Lemma stop_no_quote : forall t q, stop_tail t -> is_quote q = true -> starts_with q t = false.
  Proof.
    intros [|c t] q (_ & H & _) Hq; [reflexivity|]. cbn in *.
    destruct (c =? q) eqn:E; [|reflexivity]. apply N.eqb_eq in E. subst c. congruence.
  Qed.

  Lemma read_seq_reprs : forall isb cs fuel tail,
    cs <> [] -> (length cs <= fuel)%nat -> abl_ne cs -> Forall (in_dom isb) cs -> stop_tail tail ->
    read_seq fuel isb (concat (map (repr isb) cs) ++ tail) = Some (concat cs, tail).
  Proof.
    intros isb. induction cs as [|c cs IH]; intros fuel tail Hne Hf Ha Hd Ht; [contradiction|].
    destruct fuel as [|f]; [cbn in Hf; lia|].
    inversion Hd as [|? ? Hc Hcs]; subst.
    cbn [map concat]. rewrite <- app_assoc. cbn [read_seq].
    destruct cs as [|c2 more].
    - cbn [map concat app].
      rewrite (read_one_repr printable printable_nosur) by
        (first [exact Hc | right; apply stop_no_quote; [exact Ht | apply quote_of_quote]]).
      destruct Ht as (T1 & T2 & T3). rewrite T1.
      destruct isb; cbn [starts_lit negb]; rewrite T2, T3, app_nil_r; reflexivity.
    - destruct Ha as [Hcne Ha].
      rewrite (read_one_repr printable printable_nosur) by (first [exact Hc | left; exact Hcne]).
      cbn [map concat]. rewrite <- app_assoc.
      destruct (repr_start isb c2 (concat (map (repr isb) more) ++ tail)) as [S1 S2].
      rewrite S1, S2.
      pose proof (IH f tail ltac:(discriminate) ltac:(cbn [length] in *; lia) Ha Hcs Ht) as R.
      cbn [map concat] in R. rewrite <- app_assoc in R. rewrite R. reflexivity.
  Qed.

  (* ---- shape of a whole literal ---- *)
  Definition head_ok (s : str) : Prop :=
    starts_with LBR s = false /\ starts_with HASH s = false /\ starts_with DOLLAR s = false /\ starts_with BAR s = false.
  Definition good (r : str) : Prop :=
    hd_ns r = true /\ last_ns r = true /\ mem NL r = false /\ ends_with BS r = false /\ head_ok r.

  Lemma ends_with_last : forall c x d, ends_with c (x ++ [d]) = (d =? c).
  Proof. intros. unfold ends_with. rewrite rev_app_distr. reflexivity. Qed.

  Lemma repr_good : forall isb x, good (repr isb x).
  Proof.
    intros isb x. rewrite repr_sb_eq. pose proof (quote_of_quote x) as Hq.
    set (q := quote_of x) in *.
    assert (Hb : mem NL (flat_map (esc printable isb q) x) = false) by (apply body_no_nl; exact Hq).
    assert (Q : is_space q = false /\ (q =? BS) = false /\ (NL =? q) = false).
    { destruct (quote_cases q Hq) as [E|E]; rewrite E; repeat split. }
    destruct Q as (Q1 & Q2 & Q3).
    repeat split.
    - destruct isb; cbn [app hd_ns]; [reflexivity | rewrite Q1; reflexivity].
    - rewrite app_comm_cons, app_assoc. apply last_ns_snoc. exact Q1.
    - rewrite !mem_app. cbn [mem existsb]. rewrite Q3. fold (mem NL (flat_map (esc printable isb q) x ++ [q])).
      rewrite mem_app, Hb. cbn [mem existsb]. rewrite Q3. destruct isb; reflexivity.
    - rewrite app_comm_cons, app_assoc, ends_with_last. exact Q2.
    - destruct isb; [reflexivity|]. destruct (quote_cases q Hq) as [E|E]; rewrite E; reflexivity.
    - destruct isb; [reflexivity|]. destruct (quote_cases q Hq) as [E|E]; rewrite E; reflexivity.
    - destruct isb; [reflexivity|]. destruct (quote_cases q Hq) as [E|E]; rewrite E; reflexivity.
    - destruct isb; [reflexivity|]. destruct (quote_cases q Hq) as [E|E]; rewrite E; reflexivity.
  Qed.

  Lemma repr_len : forall isb x, (1 <= length (repr isb x))%nat.
  Proof. intros. rewrite repr_sb_eq. rewrite app_length. cbn. lia. Qed.

  Lemma reprs_len : forall isb cs, (length cs <= length (concat (map (repr isb) cs)))%nat.
  Proof.
    intros isb. induction cs as [|c cs IH]; [cbn; lia|].
    cbn [map concat length]. rewrite app_length. pose proof (repr_len isb c). lia.
  Qed.
End Seq.

(* ---------------------------------------------------------------- physical lines *)

Lemma good_ne : forall r, good r -> r <> [].
Proof. intros [|c r] (H & _); [discriminate H | discriminate]. Qed.

(* a line the framing reads as part of a value: line_ok, and its first character
   neither opens a block line nor a comment *)
Definition line_ok' (l : str) : Prop := line_ok l /\ head_ok (strip l).
Definition lines_ok' (ls : list str) : Prop := ls <> [] /\ Forall line_ok' ls.

Lemma lines_ok'_weaken : forall ls, lines_ok' ls -> lines_ok ls.
Proof. intros ls [H1 H2]. split; [exact H1|]. eapply Forall_impl; [|exact H2]. intros l [H _]. exact H. Qed.

Lemma line_ok_of : forall l s, mem NL l = false -> strip l = s -> s <> [] -> ends_with BS s = false -> head_ok s ->
  line_ok' l.
Proof. intros l s H1 H2 H3 H4 H5. unfold line_ok', line_ok. rewrite H2. split; [repeat split; assumption | exact H5]. Qed.

Lemma head_ok_lp : forall r, head_ok (LP :: r).
Proof. intro r. repeat split. Qed.

Lemma head_ok_app : forall r t, r <> [] -> head_ok r -> head_ok (r ++ t).
Proof. intros [|c r] t H1 H2; [contradiction | exact H2]. Qed.

Section Lines.
  Variable ind : str.
  Hypothesis ind_sp : all_space ind.
  Hypothesis ind_nl : mem NL ind = false.

  Lemma strip_first : forall r, good r -> strip (LP :: r) = LP :: r.
  Proof.
    intros r (H1 & H2 & _). apply strip_id; [reflexivity|].
    change (LP :: r) with ([LP] ++ r). apply last_ns_app. exact H2.
  Qed.

  Lemma strip_mid : forall r, good r -> strip (ind ++ r) = r.
  Proof.
    intros r (H1 & H2 & _). pose proof (strip_clean ind r [] ind_sp eq_refl H1 H2) as E.
    rewrite app_nil_r in E. exact E.
  Qed.

  Lemma strip_last : forall r, good r -> strip (ind ++ r ++ [RP]) = r ++ [RP].
  Proof.
    intros r (H1 & H2 & _). pose proof (strip_clean ind (r ++ [RP]) [] ind_sp eq_refl) as E.
    rewrite app_nil_r in E. apply E; [apply hd_ns_app; exact H1 | apply last_ns_snoc; reflexivity].
  Qed.

  Lemma strip_single : forall r, strip (LP :: r ++ [RP]) = LP :: r ++ [RP].
  Proof. intro r. apply strip_id; [reflexivity|]. rewrite app_comm_cons. apply last_ns_snoc. reflexivity. Qed.

  Lemma ew_cons : forall c a r, r <> [] -> ends_with c (a :: r) = ends_with c r.
  Proof. intros c a r H. change (a :: r) with ([a] ++ r). apply ends_with_app. exact H. Qed.

  Lemma paren_rest_ok : forall rs, rs <> [] -> Forall good rs ->
    Forall line_ok' (paren_rest ind rs) /\ concat (map strip (paren_rest ind rs)) = concat rs ++ [RP].
  Proof.
    induction rs as [|r rs IH]; intros Hne H; [contradiction|].
    inversion H as [|? ? Hr Hrs]; subst. pose proof Hr as (G1 & G2 & G3 & G4 & G5).
    destruct rs as [|r2 rs'].
    - cbn [paren_rest map concat]. rewrite strip_last by exact Hr. split; [|rewrite !app_nil_r; reflexivity].
      constructor; [|constructor]. apply (line_ok_of _ (r ++ [RP])).
      + rewrite !mem_app, ind_nl, G3. reflexivity.
      + apply strip_last. exact Hr.
      + destruct r; discriminate.
      + rewrite ends_with_last. reflexivity.
      + apply head_ok_app; [apply good_ne; exact Hr | exact G5].
    - change (paren_rest ind (r :: r2 :: rs')) with ((ind ++ r) :: paren_rest ind (r2 :: rs')).
      destruct (IH ltac:(discriminate) Hrs) as [I1 I2].
      cbn [map concat]. rewrite I2, strip_mid by exact Hr. split; [|rewrite <- app_assoc; reflexivity].
      constructor; [|exact I1]. apply (line_ok_of _ r).
      + rewrite mem_app, ind_nl, G3. reflexivity.
      + apply strip_mid. exact Hr.
      + apply good_ne. exact Hr.
      + exact G4.
      + exact G5.
  Qed.

  Lemma paren_lines_ok : forall rs, rs <> [] -> Forall good rs ->
    lines_ok' (paren_lines ind rs) /\ concat (map strip (paren_lines ind rs)) = LP :: concat rs ++ [RP].
  Proof.
    intros rs Hne H. destruct rs as [|r rs]; [contradiction|].
    inversion H as [|? ? Hr Hrs]; subst. pose proof Hr as (G1 & G2 & G3 & G4 & G5).
    destruct rs as [|r2 rs'].
    - cbn [paren_lines map concat]. rewrite strip_single. split; [|rewrite !app_nil_r; reflexivity].
      split; [discriminate|]. constructor; [|constructor]. apply (line_ok_of _ (LP :: r ++ [RP])).
      + cbn [mem existsb]. fold (mem NL (r ++ [RP])). rewrite mem_app, G3. reflexivity.
      + apply strip_single.
      + discriminate.
      + rewrite app_comm_cons, ends_with_last. reflexivity.
      + apply head_ok_lp.
    - change (paren_lines ind (r :: r2 :: rs')) with ((LP :: r) :: paren_rest ind (r2 :: rs')).
      destruct (paren_rest_ok (r2 :: rs') ltac:(discriminate) Hrs) as [I1 I2].
      cbn [map concat]. rewrite I2, strip_first by exact Hr. split; [|cbn [app]; rewrite <- app_assoc; reflexivity].
      split; [discriminate|]. constructor; [|exact I1]. apply (line_ok_of _ (LP :: r)).
      + cbn [mem existsb]. fold (mem NL r). rewrite G3. reflexivity.
      + apply strip_first. exact Hr.
      + discriminate.
      + rewrite ew_cons by (apply good_ne; exact Hr). exact G4.
      + apply head_ok_lp.
  Qed.
End Lines.

Lemma single_line_ok : forall r, good r -> lines_ok' [r] /\ concat (map strip [r]) = r.
Proof.
  intros r Hr. pose proof Hr as (G1 & G2 & G3 & G4 & G5).
  assert (E : strip r = r) by (apply strip_id; assumption).
  cbn [map concat]. rewrite E, app_nil_r. split; [|reflexivity].
  split; [discriminate|]. constructor; [|constructor].
  apply (line_ok_of _ r); try assumption. apply good_ne. exact Hr.
Qed.

(* ---------------------------------------------------------------- the chunkers partition the value *)

Definition ne (p : str) : Prop := p <> [].

Lemma concat_ne_nil : forall cs : list str, concat cs <> [] -> cs <> [].
Proof. intros [|c cs] H; [contradiction H; reflexivity | discriminate]. Qed.

Lemma Forall_concat_dom : forall (P : N -> Prop) cs, Forall P (concat cs) -> Forall (Forall P) cs.
Proof.
  intros P. induction cs as [|c cs IH]; intro H; [constructor|].
  cbn [concat] in H. apply Forall_app in H. destruct H as [H1 H2]. constructor; [exact H1 | apply IH; exact H2].
Qed.

Section Chunkers.
  Variable printable : N -> bool.

  Lemma pack_parts_props : forall lastline ps cur, Forall ne ps ->
    concat (pack_parts printable lastline cur ps) = cur ++ concat ps /\
    Forall ne (pack_parts printable lastline cur ps).
  Proof.
    intros lastline. induction ps as [|p ps IH]; intros cur H.
    - cbn [pack_parts concat]. rewrite app_nil_r. split; [apply opt_cur_concat | apply opt_cur_ne].
    - inversion H as [|? ? Hp Hps]; subst. cbn [pack_parts]. cbv zeta.
      destruct (_ <? len (repr_str printable (cur ++ p))).
      + destruct (IH p Hps) as [I1 I2]. split.
        * rewrite concat_app, opt_cur_concat, I1. reflexivity.
        * apply Forall_app. split; [apply opt_cur_ne | exact I2].
      + destruct (IH (cur ++ p) Hps) as [I1 I2]. split; [|exact I2].
        rewrite I1. cbn [concat]. rewrite app_assoc. reflexivity.
  Qed.

  Lemma pp_line_props : forall lastline l, l <> [] ->
    concat (pp_line_chunks printable lastline l) = l /\ Forall ne (pp_line_chunks printable lastline l)
    /\ pp_line_chunks printable lastline l <> [].
  Proof.
    intros lastline l Hl. unfold pp_line_chunks.
    destruct (len (repr_str printable l) <=? _).
    - cbn [concat]. rewrite app_nil_r. repeat split; [constructor; [exact Hl | constructor] | discriminate].
    - destruct (pack_parts_props lastline (split_after part_brk l) [] (split_after_ne part_brk l)) as [P1 P2].
      cbn [app] in P1. rewrite split_after_concat in P1. repeat split; try assumption.
      apply concat_ne_nil. rewrite P1. exact Hl.
  Qed.

  Lemma pp_lines_props : forall ls, Forall ne ls ->
    concat (pp_lines printable ls) = concat ls /\ Forall ne (pp_lines printable ls)
    /\ (length ls <= length (pp_lines printable ls))%nat.
  Proof.
    induction ls as [|l ls IH]; intro H; [repeat split; constructor|].
    inversion H as [|? ? Hl Hls]; subst.
    destruct ls as [|l2 ls'].
    - cbn [pp_lines concat length]. destruct (pp_line_props true l Hl) as (P1 & P2 & P3).
      rewrite P1, app_nil_r. repeat split; try assumption.
      destruct (pp_line_chunks printable true l); [contradiction | cbn; lia].
    - change (pp_lines printable (l :: l2 :: ls')) with (pp_line_chunks printable false l ++ pp_lines printable (l2 :: ls')).
      destruct (pp_line_props false l Hl) as (P1 & P2 & P3). destruct (IH Hls) as (I1 & I2 & I3).
      rewrite concat_app, P1, I1, app_length. repeat split.
      + apply Forall_app. split; assumption.
      + destruct (pp_line_chunks printable false l); [contradiction | cbn [length] in *; lia].
  Qed.

  Lemma wrap_bytes_props : forall gs cur, Forall ne gs ->
    concat (wrap_bytes cur gs) = cur ++ concat gs /\ Forall ne (wrap_bytes cur gs).
  Proof.
    induction gs as [|p ps IH]; intros cur H.
    - cbn [wrap_bytes concat]. rewrite app_nil_r. split; [apply opt_cur_concat | apply opt_cur_ne].
    - inversion H as [|? ? Hp Hps]; subst. cbn [wrap_bytes]. cbv zeta.
      destruct (_ <? len (repr_bytes (cur ++ p))).
      + destruct (IH p Hps) as [I1 I2]. split.
        * rewrite concat_app, opt_cur_concat, I1. reflexivity.
        * apply Forall_app. split; [apply opt_cur_ne | exact I2].
      + destruct (IH (cur ++ p) Hps) as [I1 I2]. split; [|exact I2].
        rewrite I1. cbn [concat]. rewrite app_assoc. reflexivity.
  Qed.

  (* every form of the pretty-printer output: the repr on one line, or a
     parenthesised list of the reprs of non-empty chunks that partition the value *)
  Definition chunked (isb : bool) (x : str) (ls : list str) : Prop :=
    ls = [repr_sb printable isb x] \/
    exists ind cs, (ind = [] \/ ind = [SP]) /\ cs <> [] /\ Forall ne cs /\ concat cs = x
                   /\ ls = paren_lines ind (map (repr_sb printable isb) cs).

  Lemma pprint_str_chunked : forall x, chunked false x (pprint_str printable x).
  Proof.
    intro x. unfold pprint_str. destruct x as [|c0 x0] eqn:Ex; [left; reflexivity|].
    rewrite <- Ex. assert (Hx : x <> []) by (rewrite Ex; discriminate). clear Ex c0 x0.
    cbn [is_nil]. replace (is_nil x) with false by (destruct x; [contradiction | reflexivity]).
    cbv zeta. set (lines := split_after lb_brk x).
    pose proof (split_after_concat lb_brk x) as L1. pose proof (split_after_ne lb_brk x) as L2. fold lines in L1, L2.
    destruct (pp_lines_props lines L2) as (P1 & P2 & P3). rewrite L1 in P1.
    assert (G : chunked false x (paren_lines [SP] (map (repr_str printable) (pp_lines printable lines)))).
    { right. exists [SP], (pp_lines printable lines). repeat split; try assumption.
      - right. reflexivity.
      - apply concat_ne_nil. rewrite P1. exact Hx. }
    destruct (pp_lines printable lines) as [|ch [|ch2 chs]] eqn:E; try exact G.
    left. destruct lines as [|l [|l2 ls]].
    - cbn in L1. congruence.
    - cbn [last]. cbn in L1. rewrite app_nil_r in L1. rewrite L1. reflexivity.
    - cbn [length] in P3. lia.
  Qed.

  Lemma pprint_bytes_chunked : forall x, chunked true x (pprint_bytes x).
  Proof.
    intro x. unfold pprint_bytes. destruct (len x <=? 4) eqn:E; [left; reflexivity|].
    right. destruct (groups4_props (length x) x (le_n _)) as [G1 G2].
    destruct (wrap_bytes_props (groups4 x) [] G2) as [W1 W2]. cbn [app] in W1. rewrite G1 in W1.
    exists [SP], (wrap_bytes [] (groups4 x)). repeat split; try assumption.
    - right. reflexivity.
    - apply concat_ne_nil. rewrite W1. intro X. subst x. discriminate E.
  Qed.

  Lemma hippo_chunked : forall isb x, chunked isb x (hippo_pformat printable isb x).
  Proof.
    intros isb x. unfold hippo_pformat. destruct (count_nl x <? 5) eqn:E.
    - unfold base_pformat. destruct (100 <? len (repr_sb printable isb x)); [|left; reflexivity].
      destruct isb; [apply pprint_bytes_chunked | apply pprint_str_chunked].
    - right. exists [], (split_after nl_brk x). repeat split.
      + left. reflexivity.
      + apply concat_ne_nil. rewrite split_after_concat. intro X. subst x. discriminate E.
      + apply split_after_ne.
      + apply split_after_concat.
  Qed.
End Chunkers.

(* ---------------------------------------------------------------- integers *)

Lemma digits_uint_print : forall u, digits_uint (uint_digits u) = Some u.
Proof. induction u; cbn [uint_digits digits_uint digit_cons]; try reflexivity; cbn; rewrite IHu; reflexivity. Qed.

Lemma uint_digits_all : forall u, forallb is_digit (uint_digits u) = true.
Proof. induction u; cbn [uint_digits forallb]; try reflexivity; rewrite IHu; reflexivity. Qed.

(* no leading zero except in the literal 0 itself *)
Definition no_lead0 (u : uint) : bool :=
  match u with Decimal.D0 Decimal.Nil => true | Decimal.D0 _ => false | Decimal.Nil => false | _ => true end.

Lemma nzhead_not_D0 : forall d, match nzhead d with Decimal.D0 _ => False | _ => True end.
Proof. induction d; cbn [nzhead]; auto. Qed.

Lemma unorm_no_lead0 : forall d, no_lead0 (unorm d) = true.
Proof.
  intro d. unfold unorm. pose proof (nzhead_not_D0 d) as H.
  destruct (nzhead d); try reflexivity. destruct H.
Qed.

Lemma N_to_uint_norm : forall n, N.to_uint n = unorm (N.to_uint n).
Proof.
  intro n. pose proof (DecimalN.Unsigned.to_of (N.to_uint n)) as H.
  rewrite DecimalN.Unsigned.of_to in H. exact H.
Qed.

Lemma lead_check : forall u, no_lead0 u = true ->
  match uint_digits u with
  | [] => False
  | dh :: more => (dh =? 48) && negb (forallb (N.eqb 48) more) = false
  end.
Proof.
  intros u H. destruct u as [|u|u|u|u|u|u|u|u|u|u]; cbn [uint_digits]; try reflexivity; try discriminate H.
  destruct u; try discriminate H. reflexivity.
Qed.

Lemma read_nat_dec : forall n, (len (dec_N n) <=? MAX_DIGITS) = true -> read_nat (dec_N n) = Some (n, []).
Proof.
  intros n Hn. unfold read_nat, dec_N in *.
  destruct (take_while_all is_digit _ (uint_digits_all (N.to_uint n))) as [E1 E2]. rewrite E1, E2.
  pose proof (lead_check (N.to_uint n)) as L. rewrite N_to_uint_norm in L at 1. specialize (L (unorm_no_lead0 _)).
  destruct (uint_digits (N.to_uint n)) as [|dh more] eqn:E; [contradiction|].
  rewrite L. replace (MAX_DIGITS <? len (dh :: more)) with false by (symmetry; apply N.ltb_ge; apply N.leb_le; exact Hn).
  rewrite andb_false_r.
  rewrite <- E, digits_uint_print, DecimalN.Unsigned.of_to. reflexivity.
Qed.

Lemma dec_N_shape : forall n, exists d r, dec_N n = d :: r /\ is_digit d = true /\ forallb is_digit r = true.
Proof.
  intro n. unfold dec_N. pose proof (uint_digits_all (N.to_uint n)) as A.
  pose proof (lead_check (N.to_uint n)) as L. rewrite N_to_uint_norm in L at 1. specialize (L (unorm_no_lead0 _)).
  destruct (uint_digits (N.to_uint n)) as [|d r]; [contradiction|].
  cbn [forallb] in A. apply andb_true_iff in A. destruct A as [A1 A2]. exists d, r. repeat split; assumption.
Qed.

Lemma digit_not_special : forall c, is_digit c = true ->
  (c =? LP) = false /\ is_quote c = false /\ is_bprefix c = false /\ (c =? MINUS) = false /\ is_tws c = false
  /\ is_word c = true /\ is_space c = false /\ c <> NL /\ c <> BS /\ c <> LBR /\ c <> HASH /\ c <> LT
  /\ c <> DOLLAR /\ c <> BAR.
Proof. intros c H. unfold is_digit, is_word, is_space in *. ub. repeat split; lia. Qed.

(* ---------------------------------------------------------------- the parser's sniffers stay silent *)

Definition unsniffed (j : str) : Prop :=
  repl_match j = None /\ starts_with LT j = false /\ uuid_match j = false.

Lemma unsniffed_nonword : forall c r, is_word c = false -> c <> LBR -> c <> LT -> unsniffed (c :: r).
Proof.
  intros c r Hw H1 H2. apply N.eqb_neq in H1, H2. repeat split.
  - unfold repl_match. destruct r; [reflexivity|]. rewrite H1. reflexivity.
  - exact H2.
  - unfold uuid_match. cbn [take_while]. rewrite Hw. reflexivity.
Qed.

Lemma unsniffed_bytes : forall q r, is_quote q = true -> unsniffed (CB :: q :: r).
Proof.
  intros q r Hq. destruct (quote_cases q Hq); subst q; repeat split.
Qed.

Lemma unsniffed_digits : forall d r, is_digit d = true -> forallb is_digit r = true -> unsniffed (d :: r).
Proof.
  intros d r Hd Hr. destruct (digit_not_special d Hd) as (_ & _ & _ & _ & _ & Hw & _ & _ & _ & H1 & _ & H2 & _).
  apply N.eqb_neq in H1, H2. repeat split.
  - unfold repl_match. destruct r; [reflexivity|]. rewrite H1. reflexivity.
  - exact H2.
  - unfold uuid_match.
    assert (A : forallb is_word (d :: r) = true).
    { cbn [forallb]. rewrite Hw. cbn [andb]. apply forallb_forall. intros x Hx.
      apply (proj1 (forallb_forall _ _) Hr) in Hx. apply digit_not_special in Hx. tauto. }
    destruct (take_while_all is_word (d :: r) A) as [E1 E2]. rewrite E1, E2. reflexivity.
Qed.

(* ---------------------------------------------------------------- reading a rendered value back *)

Section Values.
  Variable printable : N -> bool.
  Hypothesis printable_nosur : forall c, printable c = true -> is_sur c = false.
  Local Notation repr := (repr_sb printable).

  Definition mkv (isb : bool) (x : str) : pval := if isb then VBytes x else VStr x.

  Lemma read_atom_str : forall f q t, is_quote q = true ->
    read_atom (S f) (q :: t) =
    match read_seq (S (length (q :: t))) false (q :: t) with Some (v, rest) => Some (VStr v, rest) | None => None end.
  Proof.
    intros f q t Hq. cbn [read_atom]. rewrite Hq.
    destruct (quote_cases q Hq); subst q; reflexivity.
  Qed.

  Lemma read_atom_bytes : forall f q t, is_quote q = true ->
    read_atom (S f) (CB :: q :: t) =
    match read_seq (S (length (CB :: q :: t))) true (CB :: q :: t) with Some (v, rest) => Some (VBytes v, rest) | None => None end.
  Proof.
    intros f q t Hq. cbn [read_atom]. change (CB =? LP) with false. change (is_quote CB) with false. cbv iota.
    cbn [starts_bytes]. rewrite Hq. reflexivity.
  Qed.

  Lemma read_atom_lits : forall f isb cs tail,
    cs <> [] -> abl_ne cs -> Forall (in_dom isb) cs -> stop_tail tail ->
    read_atom (S f) (concat (map (repr isb) cs) ++ tail) = Some (mkv isb (concat cs), tail).
  Proof.
    intros f isb cs tail Hne Ha Hd Ht.
    set (s := concat (map (repr isb) cs) ++ tail).
    assert (R : read_seq (S (length s)) isb s = Some (concat cs, tail)).
    { apply (read_seq_reprs printable printable_nosur); try assumption.
      unfold s. rewrite app_length. pose proof (reprs_len printable isb cs). lia. }
    assert (Hs : exists q t, s = (if isb then [CB] else []) ++ q :: t /\ is_quote q = true).
    { destruct cs as [|c cs']; [contradiction|]. unfold s. cbn [map concat]. rewrite repr_sb_eq.
      exists (quote_of c). eexists. split; [|apply quote_of_quote].
      rewrite <- !app_assoc. cbn [app]. reflexivity. }
    destruct Hs as (q & t & Es & Hq). destruct isb; cbn [app] in Es; rewrite Es in *.
    - rewrite read_atom_bytes by exact Hq. rewrite R. reflexivity.
    - rewrite read_atom_str by exact Hq. rewrite R. reflexivity.
  Qed.

  Lemma read_atom_paren : forall f body v rest rest',
    read_atom f (skip_ws body) = Some (v, rest) -> skip_ws rest = RP :: rest' ->
    read_atom (S f) (LP :: body) = Some (v, rest').
  Proof.
    intros f body v rest rest' H1 H2. cbn [read_atom]. change (LP =? LP) with true. cbv iota.
    rewrite H1, H2. reflexivity.
  Qed.

  Lemma read_lit_single : forall isb x, in_dom isb x -> read_lit (repr isb x) = Some (mkv isb x).
  Proof.
    intros isb x Hd. unfold read_lit, MAX_NEST.
    destruct (repr_start printable isb x []) as [S1 _]. rewrite app_nil_r in S1. rewrite S1.
    pose proof (read_atom_lits 200 isb [x] [] ltac:(discriminate) I ltac:(constructor; [exact Hd | constructor]) stop_nil) as R.
    cbn [map concat] in R. rewrite !app_nil_r in R. rewrite R. reflexivity.
  Qed.

  Lemma read_lit_paren : forall isb cs, cs <> [] -> Forall ne cs -> Forall (in_dom isb) cs ->
    read_lit (LP :: concat (map (repr isb) cs) ++ [RP]) = Some (mkv isb (concat cs)).
  Proof.
    intros isb cs Hne Hn Hd. unfold read_lit, MAX_NEST.
    change (skip_ws (LP :: concat (map (repr isb) cs) ++ [RP])) with (LP :: concat (map (repr isb) cs) ++ [RP]).
    rewrite (read_atom_paren 200 _ (mkv isb (concat cs)) [RP] []); [reflexivity | | reflexivity].
    assert (S1 : skip_ws (concat (map (repr isb) cs) ++ [RP]) = concat (map (repr isb) cs) ++ [RP]).
    { destruct cs as [|c cs']; [contradiction|]. cbn [map concat]. rewrite <- app_assoc.
      apply (repr_start printable isb c). }
    rewrite S1. apply (read_atom_lits 199); try assumption; [apply abl_ne_all; exact Hn | apply stop_rp].
  Qed.

  Lemma read_lit_int : forall z, wf_val (VInt z) = true -> read_lit (repr_int z) = Some (VInt z).
  Proof.
    intros z Hz. cbn [wf_val] in Hz. unfold read_lit, MAX_NEST.
    assert (P : forall n, (len (dec_N n) <=? MAX_DIGITS) = true ->
                skip_ws (dec_N n) = dec_N n /\ read_atom 201 (dec_N n) = Some (VInt (Z.of_N n), [])).
    { intros n Hn. pose proof (read_nat_dec n Hn) as R.
      destruct (dec_N_shape n) as (d & r & E & Hd & Hr). rewrite E in *.
      destruct (digit_not_special d Hd) as (D1 & D2 & D3 & D4 & D5 & _).
      split; [cbn [skip_ws drop_while]; rewrite D5; reflexivity|].
      cbn [read_atom]. rewrite D1, D2, D4, Hd.
      replace (starts_bytes (d :: r)) with false by (destruct r; cbn [starts_bytes]; [reflexivity | rewrite D3; reflexivity]).
      rewrite R. reflexivity. }
    destruct z as [|p|p]; cbn [repr_int Z.abs_N] in *.
    - destruct (P 0 Hz) as [P1 P2]. rewrite P1, P2. reflexivity.
    - destruct (P (Npos p) Hz) as [P1 P2]. rewrite P1, P2. reflexivity.
    - destruct (P (Npos p) Hz) as [P1 P2].
      change (skip_ws (MINUS :: dec_N (N.pos p))) with (MINUS :: dec_N (N.pos p)).
      cbn [read_atom]. change (MINUS =? LP) with false. change (is_quote MINUS) with false.
      change (MINUS =? MINUS) with true. cbv iota.
      replace (starts_bytes (MINUS :: dec_N (N.pos p))) with false by (destruct (dec_N (N.pos p)); reflexivity).
      rewrite P1, (read_nat_dec _ Hz). reflexivity.
  Qed.

  Lemma int_good : forall z, good (repr_int z) /\ unsniffed (repr_int z).
  Proof.
    intro z.
    assert (P : forall n, good (dec_N n) /\ unsniffed (dec_N n) /\ good (MINUS :: dec_N n)).
    { intro n. destruct (dec_N_shape n) as (d & r & E & Hd & Hr). rewrite E.
      destruct (digit_not_special d Hd) as (_ & _ & _ & _ & _ & _ & D7 & D8 & D9 & D10 & D11 & _ & D13 & D14).
      assert (Hall : forall x, In x (d :: r) -> is_digit x = true).
      { intros x [Hx|Hx]; [subst; exact Hd | exact (proj1 (forallb_forall _ _) Hr x Hx)]. }
      assert (Hlast : last_ns (d :: r) = true /\ mem NL (d :: r) = false /\ ends_with BS (d :: r) = false).
      { assert (Hrev : forall x, In x (rev (d :: r)) -> is_digit x = true) by (intros x Hx; apply Hall, in_rev; exact Hx).
        repeat split.
        - unfold last_ns. destruct (rev (d :: r)) as [|y ry] eqn:Er.
          + apply (f_equal (@rev N)) in Er. rewrite rev_involutive in Er. discriminate.
          + cbn. destruct (digit_not_special y (Hrev y (or_introl eq_refl))) as (_ & _ & _ & _ & _ & _ & Y & _). rewrite Y. reflexivity.
        - unfold mem. destruct (existsb (N.eqb NL) (d :: r)) eqn:Ex; [|reflexivity].
          apply existsb_exists in Ex. destruct Ex as (x & Hx & Ex). apply N.eqb_eq in Ex. subst x.
          destruct (digit_not_special NL (Hall _ Hx)) as (_ & _ & _ & _ & _ & _ & _ & Y & _). contradiction Y. reflexivity.
        - unfold ends_with. destruct (rev (d :: r)) as [|y ry] eqn:Er; [reflexivity|].
          cbn. destruct (digit_not_special y (Hrev y (or_introl eq_refl))) as (_ & _ & _ & _ & _ & _ & _ & _ & Y & _).
          apply N.eqb_neq. exact Y. }
      destruct Hlast as (L1 & L2 & L3).
      assert (G : good (d :: r)).
      { repeat split; try assumption.
        - cbn. rewrite D7. reflexivity.
        - cbn. apply N.eqb_neq. exact D10.
        - cbn. apply N.eqb_neq. exact D11.
        - cbn. apply N.eqb_neq. exact D13.
        - cbn. apply N.eqb_neq. exact D14. }
      split; [exact G|]. split; [apply unsniffed_digits; assumption|].
      repeat split.
      - change (MINUS :: d :: r) with ([MINUS] ++ d :: r). apply last_ns_app. exact L1.
      - rewrite mem_cons2, L2. reflexivity.
      - change (MINUS :: d :: r) with ([MINUS] ++ d :: r). rewrite ends_with_app by discriminate. exact L3. }
    destruct z as [|p|p]; cbn [repr_int].
    - destruct (P 0) as (A & B & _). split; assumption.
    - destruct (P (Npos p)) as (A & B & _). split; assumption.
    - destruct (P (Npos p)) as (_ & _ & C). split; [exact C|]. apply unsniffed_nonword; try reflexivity; discriminate.
  Qed.

  (* the modelled kinds *)
  Definition plain_kind (v : pval) : bool :=
    match v with VStr _ | VBytes _ | VInt _ => true | _ => false end.

  Lemma wf_dom : forall isb x, wf_val (mkv isb x) = true -> in_dom isb x.
  Proof.
    intros isb x H. unfold in_dom. apply Forall_forall. intros c Hc.
    destruct isb; cbn [mkv wf_val dom_max] in *; apply (proj1 (forallb_forall _ _) H) in Hc; apply N.ltb_lt; exact Hc.
  Qed.

  Lemma repr_unsniffed : forall isb x, unsniffed (repr isb x).
  Proof.
    intros isb x. rewrite repr_sb_eq. pose proof (quote_of_quote x) as Hq. destruct isb; cbn [app].
    - apply unsniffed_bytes. exact Hq.
    - destruct (quote_cases _ Hq) as [E|E]; rewrite E; apply unsniffed_nonword; try reflexivity; discriminate.
  Qed.

  Lemma strlike_ok : forall isb x ls, in_dom isb x -> chunked printable isb x ls ->
    lines_ok' ls /\ unsniffed (concat (map strip ls)) /\ read_lit (concat (map strip ls)) = Some (mkv isb x).
  Proof.
    intros isb x ls Hd [E | (ind & cs & Hind & Hne & Hn & Hc & E)]; subst ls.
    - destruct (single_line_ok _ (repr_good printable isb x)) as [L1 L2]. rewrite L2.
      split; [exact L1|]. split; [apply repr_unsniffed | apply read_lit_single; exact Hd].
    - assert (Hi : all_space ind /\ mem NL ind = false) by (destruct Hind; subst ind; split; reflexivity).
      destruct Hi as [Hi1 Hi2].
      assert (Hg : Forall good (map (repr isb) cs)).
      { apply Forall_forall. intros r Hr. apply in_map_iff in Hr. destruct Hr as (c & <- & _). apply repr_good. }
      destruct (paren_lines_ok ind Hi1 Hi2 (map (repr isb) cs)) as [L1 L2]; [|exact Hg|].
      { destruct cs; [contradiction | discriminate]. }
      rewrite L2. split; [exact L1|]. split.
      + apply unsniffed_nonword; try reflexivity; discriminate.
      + subst x. apply read_lit_paren; try assumption. apply Forall_concat_dom. exact Hd.
  Qed.

  (* the three facts about what _format_var shows for any str / bytes / int value *)
  Theorem render_val_ok : forall ser v, wf_val v = true ->
    lines_ok' (render_val printable ser v)
    /\ unsniffed (concat (map strip (render_val printable ser v)))
    /\ read_lit (concat (map strip (render_val printable ser v))) = Some v.
  Proof.
    intros ser v Hv. destruct v as [s|b|z| |]; try discriminate Hv.
    - apply (strlike_ok false s); [apply (wf_dom false); exact Hv|].
      cbn [render_val]. destruct ser; [left; reflexivity | apply hippo_chunked].
    - apply (strlike_ok true b); [apply (wf_dom true); exact Hv|].
      cbn [render_val]. destruct ser; [left; reflexivity | apply hippo_chunked].
    - cbn [render_val]. destruct (int_good z) as [G U].
      destruct (single_line_ok _ G) as [L1 L2]. rewrite L2.
      split; [exact L1|]. split; [exact U | apply read_lit_int; exact Hv].
  Qed.
End Values.

(* ---------------------------------------------------------------- table oracles *)

Lemma in_ranges_nosur : forall rs, ranges_nosur rs = true -> forall c, in_ranges rs c = true -> is_sur c = false.
Proof.
  induction rs as [|[lo hi] rs IH]; intros H c Hc; [discriminate Hc|].
  unfold ranges_nosur in H. cbn [forallb fst snd] in H. apply andb_true_iff in H. destruct H as [H1 H2].
  cbn [in_ranges] in Hc. apply orb_true_iff in Hc. destruct Hc as [Hc|Hc].
  - unfold is_sur. lia.
  - apply IH; assumption.
Qed.
