(* C09 - templates.DateAdapter as coded:
     decode: datetime.datetime.fromtimestamp(val / self._multiplier).isoformat()
     encode: int(datetime.datetime.fromisoformat(val).timestamp() * self._multiplier)
   i.e. integer -> float seconds -> naive LOCAL date-time -> ISO string -> back.

   The calendar, the time-of-day split, the ISO printer / parser and the time-zone
   plumbing are modelled concretely; the four float steps are an interface
   ([fops]) with two instances: an abstract one, about which the positive theorem
   assumes exactness on whole seconds (hypothesis [exact_on_seconds], spelled out
   below), and the binary64 one of Subfield/DatePrim.v (primitive floats), used for the
   refutation witnesses and for the generated agreement check with the implementation. *)
From Coq Require Import ZArith List Ascii Bool Lia.
From HV Require Import Subfield.IntAdapters Subfield.IntAdaptersProofs.
Import ListNotations.
Open Scope Z_scope.

(* ------------------------------------------------------------------ calendar *)
(* proleptic Gregorian calendar, days counted from 1970-01-01 (400-year eras of 146097 days,
   years starting on 1 March inside an era) *)
Definition era_days : Z := 146097.

(* inside an era: day-of-era -> (year-of-era, month 1..12, day 1..31) *)
Definition ymd_of_doe (doe : Z) : Z * Z * Z :=
  let yoe := (doe - doe / 1460 + doe / 36524 - doe / 146096) / 365 in
  let doy := doe - (365 * yoe + yoe / 4 - yoe / 100) in
  let mp := (5 * doy + 2) / 153 in
  let d := doy - (153 * mp + 2) / 5 + 1 in
  let m := if mp <? 10 then mp + 3 else mp - 9 in
  (yoe, m, d).

Definition doe_of_ymd (yoe m d : Z) : Z :=
  let mp := if 2 <? m then m - 3 else m + 9 in
  let doy := (153 * mp + 2) / 5 + d - 1 in
  yoe * 365 + yoe / 4 - yoe / 100 + doy.

Definition civil_from_days (z : Z) : Z * Z * Z :=
  let z' := z + 719468 in
  let era := z' / era_days in
  let '(yoe, m, d) := ymd_of_doe (z' mod era_days) in
  (yoe + era * 400 + (if m <=? 2 then 1 else 0), m, d).

Definition days_from_civil (y m d : Z) : Z :=
  let y' := if m <=? 2 then y - 1 else y in
  (y' / 400) * era_days + doe_of_ymd (y' mod 400) m d - 719468.

(* ------------------------------------------------------------------ date-time values *)
Record dt := { dt_y : Z; dt_mo : Z; dt_d : Z; dt_h : Z; dt_mi : Z; dt_s : Z; dt_us : Z }.

(* naive date-time shown for a count of microseconds since the epoch; None = ValueError
   "year out of range" (datetime supports years 1..9999) *)
Definition dt_of_micros (us : Z) : option dt :=
  let secs := us / 1000000 in
  let days := secs / 86400 in
  let sod := secs mod 86400 in
  let '(y, m, d) := civil_from_days days in
  if (1 <=? y) && (y <=? 9999)
  then Some {| dt_y := y; dt_mo := m; dt_d := d; dt_h := sod / 3600; dt_mi := (sod mod 3600) / 60;
               dt_s := sod mod 60; dt_us := us mod 1000000 |}
  else None.

Definition secs_of_dt (t : dt) : Z :=
  days_from_civil (dt_y t) (dt_mo t) (dt_d t) * 86400 + dt_h t * 3600 + dt_mi t * 60 + dt_s t.

Definition in_datetime_range (s : Z) : bool :=
  let '(y, _, _) := civil_from_days (s / 86400) in (1 <=? y) && (y <=? 9999).

(* ------------------------------------------------------------------ ISO 8601 text *)
Definition digit_char (d : Z) : ascii := ascii_of_nat (48 + Z.to_nat d).
Definition char_digit (c : ascii) : option Z :=
  let n := Z.of_nat (nat_of_ascii c) in
  if (48 <=? n) && (n <=? 57) then Some (n - 48) else None.

Fixpoint pad (n : nat) (v : Z) : list ascii :=
  match n with
  | O => []
  | S k => digit_char ((v / 10 ^ Z.of_nat k) mod 10) :: pad k v
  end.

Fixpoint digits_value (l : list ascii) (acc : Z) : option Z :=
  match l with
  | [] => Some acc
  | c :: r => match char_digit c with
              | Some d => digits_value r (acc * 10 + d)
              | None => None
              end
  end.

Fixpoint take_chars (n : nat) (l : list ascii) : option (list ascii * list ascii) :=
  match n, l with
  | O, _ => Some ([], l)
  | S k, c :: r => match take_chars k r with Some (a, b) => Some (c :: a, b) | None => None end
  | S _, [] => None
  end.

Definition take_digits (n : nat) (l : list ascii) : option (Z * list ascii) :=
  match take_chars n l with
  | Some (a, rest) => match digits_value a 0 with Some v => Some (v, rest) | None => None end
  | None => None
  end.

Definition expect (c : ascii) (l : list ascii) : option (list ascii) :=
  match l with
  | x :: r => if Ascii.eqb x c then Some r else None
  | [] => None
  end.

Definition bind {A B : Type} (o : option A) (f : A -> option B) : option B :=
  match o with Some a => f a | None => None end.

(* datetime.isoformat(): 'YYYY-MM-DDTHH:MM:SS' and '.ffffff' only when microsecond <> 0 *)
Definition print_iso (t : dt) : list ascii :=
  pad 4 (dt_y t) ++ "-"%char :: pad 2 (dt_mo t) ++ "-"%char :: pad 2 (dt_d t) ++ "T"%char ::
  pad 2 (dt_h t) ++ ":"%char :: pad 2 (dt_mi t) ++ ":"%char :: pad 2 (dt_s t) ++
  (if dt_us t =? 0 then [] else "."%char :: pad 6 (dt_us t)).

(* datetime.fromisoformat() on the texts isoformat() emits *)
Definition parse_iso (l : list ascii) : option dt :=
  bind (take_digits 4 l) (fun '(y, l) =>
  bind (expect "-" l) (fun l =>
  bind (take_digits 2 l) (fun '(mo, l) =>
  bind (expect "-" l) (fun l =>
  bind (take_digits 2 l) (fun '(d, l) =>
  bind (expect "T" l) (fun l =>
  bind (take_digits 2 l) (fun '(h, l) =>
  bind (expect ":" l) (fun l =>
  bind (take_digits 2 l) (fun '(mi, l) =>
  bind (expect ":" l) (fun l =>
  bind (take_digits 2 l) (fun '(s, l) =>
  match l with
  | [] => Some {| dt_y := y; dt_mo := mo; dt_d := d; dt_h := h; dt_mi := mi; dt_s := s; dt_us := 0 |}
  | _ => bind (expect "." l) (fun l =>
         bind (take_digits 6 l) (fun '(us, l) =>
         match l with
         | [] => Some {| dt_y := y; dt_mo := mo; dt_d := d; dt_h := h; dt_mi := mi; dt_s := s; dt_us := us |}
         | _ => None
         end))
  end))))))))))).

(* ------------------------------------------------------------------ time zones *)
(* the process' local zone: offset from UTC (seconds) in force at an instant, and the instant a
   naive local time denotes (Python: fold = 0, the first occurrence of an ambiguous time) *)
Record zone := { z_offset : Z -> Z; z_resolve : Z -> Z }.
Definition utc : zone := {| z_offset := fun _ => 0; z_resolve := fun l => l |}.

(* a zone with one autumn transition at instant [at_]: offset [before] until then, [after] from then on
   (e.g. America/New_York 2021-11-07: before = -14400, after = -18000, at_ = 1636264800) *)
Definition one_transition (before after at_ : Z) : zone :=
  {| z_offset := fun t => if t <? at_ then before else after;
     z_resolve := fun l => if l - before <? at_ then l - before else l - after |}.

(* ------------------------------------------------------------------ the float steps *)
Record fops := {
  F : Type;
  f_div : Z -> Z -> F;                 (* val / multiplier : Python int / int, one correctly rounded float *)
  f_to_micros : F -> option Z;         (* fromtimestamp: split into seconds and a fraction rounded half-even
                                          to microseconds; total microseconds; None = nan / inf / overflow *)
  f_stamp : Z -> Z -> F;               (* .timestamp(): float(seconds) + microsecond / 1e6 *)
  f_scale_trunc : F -> Z -> option Z   (* int(x * multiplier) *)
}.

(* ------------------------------------------------------------------ the adapter *)
Definition date_decode (o : fops) (z : zone) (mult val : Z) : option (list ascii) :=
  bind (f_to_micros o (f_div o val mult)) (fun us =>
  let secs := us / 1000000 in
  bind (dt_of_micros (us + z_offset z secs * 1000000)) (fun t => Some (print_iso t))).

Definition date_encode (o : fops) (z : zone) (mult : Z) (s : list ascii) : option Z :=
  bind (parse_iso s) (fun t =>
  f_scale_trunc o (f_stamp o (z_resolve z (secs_of_dt t)) (dt_us t)) mult).

Definition date_roundtrip (o : fops) (z : zone) (mult val : Z) : option Z :=
  bind (date_decode o z mult val) (date_encode o z mult).

(* HYPOTHESIS of the positive theorem, about the float conversions on whole seconds: for every
   number of seconds s in the date-time range, with val = s * mult,
     val / mult                    is the float s          (exact quotient, representable)
     fromtimestamp(that)           has no fractional part   (s seconds, 0 microseconds)
     float(s) + 0 / 1e6            is the float s
     int(that * mult)              is s * mult              (exact product, representable)
   For IEEE binary64 and mult in {1, 10^6} this holds because |s| <= 253402300799 < 2^53 and
   s * 10^6 = (s * 15625) * 2^6 with |s * 15625| < 2^53; it is ASSUMED here, not proved
   (Subfield/DatePrim.v checks it by evaluation for the primitive-float instance on samples). *)
Definition exact_on_seconds (o : fops) (mult : Z) : Prop :=
  forall s, in_datetime_range s = true ->
    f_to_micros o (f_div o (s * mult) mult) = Some (s * 1000000) /\
    f_scale_trunc o (f_stamp o s 0) mult = Some (s * mult).

(* ================================================================== proofs *)

(* the integers s, s+1, ..., s+n-1 *)
Fixpoint zseq (n : nat) (s : Z) : list Z :=
  match n with O => [] | S k => s :: zseq k (s + 1) end.

Lemma zseq_in n : forall s z, s <= z < s + Z.of_nat n -> In z (zseq n s).
Proof.
  induction n as [|k IH]; intros s z H; [lia|]. cbn [zseq].
  destruct (Z.eq_dec z s); [now left|right; apply IH; lia].
Qed.

Definition era_ok (doe : Z) : bool :=
  let '(yoe, m, d) := ymd_of_doe doe in
  (0 <=? yoe) && (yoe <? 400) && (1 <=? m) && (m <=? 12) && (1 <=? d) && (d <=? 31)
  && (doe_of_ymd yoe m d =? doe).

Lemma era_check : forallb era_ok (zseq (Z.to_nat era_days) 0) = true.
Proof. vm_compute. reflexivity. Qed.

Lemma era_ok_all doe : 0 <= doe < era_days -> era_ok doe = true.
Proof.
  intros H. pose proof era_check as A. rewrite forallb_forall in A. apply A, zseq_in.
  rewrite Z2Nat.id by (unfold era_days; lia). lia.
Qed.

Lemma civil_fields z :
  let '(y, m, d) := civil_from_days z in
  1 <= m <= 12 /\ 1 <= d <= 31 /\ days_from_civil y m d = z.
Proof.
  unfold civil_from_days.
  set (z' := z + 719468).
  assert (Hd : 0 <= z' mod era_days < era_days) by (apply Z.mod_pos_bound; unfold era_days; lia).
  pose proof (era_ok_all _ Hd) as Hok. unfold era_ok in Hok.
  destruct (ymd_of_doe (z' mod era_days)) as [[yoe m] d].
  repeat (apply andb_true_iff in Hok; destruct Hok as [Hok ?]).
  repeat match goal with
         | H : (_ <=? _) = true |- _ => apply Z.leb_le in H
         | H : (_ <? _) = true |- _ => apply Z.ltb_lt in H
         | H : (_ =? _) = true |- _ => apply Z.eqb_eq in H
         end.
  split; [lia|]. split; [lia|].
  unfold days_from_civil.
  assert (Hy : (if m <=? 2 then yoe + z' / era_days * 400 + (if m <=? 2 then 1 else 0) - 1
                else yoe + z' / era_days * 400 + (if m <=? 2 then 1 else 0)) = yoe + z' / era_days * 400)
    by (destruct (m <=? 2); lia).
  rewrite Hy.
  rewrite Z.div_add by lia. rewrite Z.mod_add by lia.
  rewrite (Z.div_small yoe 400) by lia. rewrite (Z.mod_small yoe 400) by lia.
  match goal with H : doe_of_ymd _ _ _ = _ |- _ => rewrite H end.
  pose proof (Z.div_mod z' era_days ltac:(unfold era_days; lia)). unfold z' in *. lia.
Qed.

Theorem days_civil_roundtrip z :
  let '(y, m, d) := civil_from_days z in days_from_civil y m d = z.
Proof. pose proof (civil_fields z) as H. destruct (civil_from_days z) as [[y m] d]. tauto. Qed.

(* fixed-width decimal fields *)
Lemma take_chars_app a : forall rest, take_chars (length a) (a ++ rest) = Some (a, rest).
Proof.
  induction a as [|c r IH]; intros rest; cbn [length app take_chars]; [reflexivity|].
  now rewrite IH.
Qed.

Lemma pad_length n v : length (pad n v) = n.
Proof. induction n; cbn [pad length]; [reflexivity|]. now rewrite IHn. Qed.

Definition pad_ok (n : nat) (v : Z) : bool :=
  match digits_value (pad n v) 0 with Some v' => v' =? v | None => false end.

Lemma pad2_check : forallb (pad_ok 2) (zseq 100 0) = true.
Proof. vm_compute. reflexivity. Qed.
Lemma pad4_check : forallb (pad_ok 4) (zseq (Z.to_nat 10000) 0) = true.
Proof. vm_compute. reflexivity. Qed.

Lemma take_digits_pad n v rest :
  pad_ok n v = true -> take_digits n (pad n v ++ rest) = Some (v, rest).
Proof.
  intros H. unfold take_digits.
  rewrite <- (pad_length n v) at 1. rewrite take_chars_app.
  unfold pad_ok in H. destruct (digits_value (pad n v) 0) as [v'|]; [|discriminate].
  apply Z.eqb_eq in H. now subst.
Qed.

Lemma take_digits_pad2 v rest : 0 <= v < 100 -> take_digits 2 (pad 2 v ++ rest) = Some (v, rest).
Proof.
  intros H. apply take_digits_pad. pose proof pad2_check as A. rewrite forallb_forall in A.
  apply A, zseq_in. cbn. lia.
Qed.

Lemma take_digits_pad4 v rest : 0 <= v < 10000 -> take_digits 4 (pad 4 v ++ rest) = Some (v, rest).
Proof.
  intros H. apply take_digits_pad. pose proof pad4_check as A. rewrite forallb_forall in A.
  apply A, zseq_in. rewrite Z2Nat.id by lia. lia.
Qed.

Definition dt_fields_ok (t : dt) : Prop :=
  0 <= dt_y t < 10000 /\ 0 <= dt_mo t < 100 /\ 0 <= dt_d t < 100 /\
  0 <= dt_h t < 100 /\ 0 <= dt_mi t < 100 /\ 0 <= dt_s t < 100 /\ dt_us t = 0.

(* fromisoformat(isoformat(t)) = t for whole seconds *)
Theorem parse_print_iso t : dt_fields_ok t -> parse_iso (print_iso t) = Some t.
Proof.
  intros (Hy & Hmo & Hd & Hh & Hmi & Hs & Hus).
  unfold print_iso, parse_iso. rewrite Hus. cbn [Z.eqb].
  rewrite (take_digits_pad4 _ _ Hy). cbn [bind expect]. rewrite Ascii.eqb_refl. cbn [bind].
  rewrite (take_digits_pad2 _ _ Hmo). cbn [bind expect]. rewrite Ascii.eqb_refl. cbn [bind].
  rewrite (take_digits_pad2 _ _ Hd). cbn [bind expect]. rewrite Ascii.eqb_refl. cbn [bind].
  rewrite (take_digits_pad2 _ _ Hh). cbn [bind expect]. rewrite Ascii.eqb_refl. cbn [bind].
  rewrite (take_digits_pad2 _ _ Hmi). cbn [bind expect]. rewrite Ascii.eqb_refl. cbn [bind].
  rewrite (take_digits_pad2 _ _ Hs). cbn [bind].
  destruct t; cbn in *; subst; reflexivity.
Qed.

(* the positive partial statement: under UTC, for whole seconds inside datetime's range,
   decode-then-encode is the identity - given exactness of the float steps on such values *)
Theorem date_utc_whole_seconds (o : fops) (mult s : Z) :
  exact_on_seconds o mult ->
  in_datetime_range s = true ->
  exists str, date_decode o utc mult (s * mult) = Some str /\
              date_encode o utc mult str = Some (s * mult).
Proof.
  intros Hex Hr. destruct (Hex s Hr) as [Hdec Henc].
  unfold date_decode. rewrite Hdec. cbn [bind utc z_offset].
  rewrite Z.mul_0_l, Z.add_0_r.
  unfold dt_of_micros.
  rewrite Z.div_mul by lia. rewrite Z.mod_mul by lia.
  unfold in_datetime_range in Hr.
  pose proof (civil_fields (s / 86400)) as Hc.
  destruct (civil_from_days (s / 86400)) as [[y m] d]. destruct Hc as (Hm & Hd & Hback).
  rewrite Hr. cbn [bind].
  eexists. split; [reflexivity|].
  apply andb_true_iff in Hr. destruct Hr as [Hy1 Hy2]. apply Z.leb_le in Hy1, Hy2.
  unfold date_encode.
  rewrite parse_print_iso.
  - cbn [bind utc z_resolve dt_us]. unfold secs_of_dt. cbn [dt_y dt_mo dt_d dt_h dt_mi dt_s].
    rewrite Hback.
    replace (s / 86400 * 86400 + s mod 86400 / 3600 * 3600 + s mod 86400 mod 3600 / 60 * 60 + s mod 86400 mod 60) with s
      by (Z.div_mod_to_equations; lia).
    exact Henc.
  - unfold dt_fields_ok. cbn [dt_y dt_mo dt_d dt_h dt_mi dt_s dt_us].
    repeat split; try lia; Z.div_mod_to_equations; lia.
Qed.

(* the extreme whole seconds of datetime's range *)
Lemma datetime_range_ends :
  in_datetime_range (-62135596800) = true /\ in_datetime_range (-62135596801) = false /\
  in_datetime_range 253402300799 = true /\ in_datetime_range 253402300800 = false.
Proof. vm_compute. repeat split. Qed.
