(* C09 - integer variables whose registered serializer is a quantised float
   (serialization.QuantizedFloat via AdapterSubfieldSerializer, e.g. RegionData.TimeDilation).
   The arithmetic model is C10's (Quant/QuantModel.v: every Python float operation is one
   binary64 operation on Coq's primitive floats); the integer clause of C09 over the finite wire
   domain is decided by evaluating that model on every raw value (rt_check, vm_compute). *)
From Coq Require Import PrimFloat ZArith List Bool Lia.
From HV Require Import Subfield.IntAdapters Quant.QuantModel Quant.QuantProofs.
Import ListNotations.
Open Scope Z_scope.

Record qentry := { qe_msg : name; qe_block : name; qe_var : name; qe_q : quant; qe_ty : wty }.

(* the adapter's raw range is exactly the variable's wire range, it is a plain QuantizedFloat,
   and every raw of that range survives decode-then-encode *)
Definition quant_field_ok (q : quant) (t : wty) : bool :=
  rt_check q && negb (is_terot q) && (raw_min q =? wmin t) && (raw_max q =? wmax t).

Definition quant_registry_ok (r : list qentry) : bool :=
  forallb (fun e => quant_field_ok (qe_q e) (qe_ty e)) r.

Theorem quant_field_lossless q t :
  quant_field_ok q t = true ->
  forall z, in_wire_range t z -> f2q q (q2f q z) = Some z.
Proof.
  unfold quant_field_ok. intros H z Hz.
  apply andb_true_iff in H. destruct H as [H Hmax].
  apply andb_true_iff in H. destruct H as [H Hmin].
  apply andb_true_iff in H. destruct H as [Hrt Hter].
  apply negb_true_iff in Hter. apply Z.eqb_eq in Hmin, Hmax.
  apply (roundtrip_lift_plain q Hrt Hter). unfold raw_ok, in_wire_range in *. lia.
Qed.

Theorem quant_registry_lossless r :
  quant_registry_ok r = true ->
  forall e, In e r -> forall z, in_wire_range (qe_ty e) z -> f2q (qe_q e) (q2f (qe_q e) z) = Some z.
Proof.
  unfold quant_registry_ok. rewrite forallb_forall. intros H e He z Hz.
  exact (quant_field_lossless _ _ (H e He) z Hz).
Qed.

(* non-vacuity: the TimeDilation adapter as constructed today, QuantizedFloat(U16, 0.0, 1.0, False) *)
Definition ex_time_dilation : quant :=
  QF {| qf_kind_of := KBase; qf_rmin := 0; qf_rmax := 65535; qf_lower := 0%float; qf_upper := 1%float;
        qf_step := (0x1.0001000100010p-16)%float; qf_zero_median := false |}.
Lemma ex_time_dilation_ok : quant_field_ok ex_time_dilation U16 = true.
Proof. vm_compute. reflexivity. Qed.

(* the hypothesis matters: the same adapter over a coarser step is not lossless *)
Definition ex_bad_step : quant :=
  QF {| qf_kind_of := KBase; qf_rmin := 0; qf_rmax := 65535; qf_lower := 0%float; qf_upper := 1%float;
        qf_step := (0x1.0000000000000p-15)%float; qf_zero_median := false |}.
Lemma ex_bad_step_refuted : f2q ex_bad_step (q2f ex_bad_step 40000) <> Some 40000.
Proof. vm_compute. discriminate. Qed.
