(* C09 - integer-valued subfield serializers, as coded in
   hippolyzer/lib/base/serialization.py (IntEnum, IntFlag, BoolAdapter,
   IdentityAdapter, ContextAdapter, BitField/BitfieldDataclass,
   IntEnumSubfieldSerializer, IntFlagSubfieldSerializer,
   AdapterSubfieldSerializer), datatypes.py (flags_to_pod),
   helpers.py (BitField.pack/unpack) and templates.py
   (AttachmentStateAdapter, ObjectStateAdapter).

   Definitions only.  Python exceptions are [None].  An enum / flag class is
   represented by two tables taken from the live class on every run:
     c_iter  = [(m.name, int(m)) for m in cls]             (what iter(cls) yields)
     c_names = [(n, int(m)) for n, m in cls.__members__]   (what cls[name] accepts)
*)
From Coq Require Import ZArith List String Ascii Bool.
Import ListNotations.
Open Scope Z_scope.

(* ---- wire types of message variables (message_template.msg) ---- *)
Inductive wty := U8 | U16 | U32 | U64 | S8 | S16 | S32 | S64.

Definition wbits (t : wty) : Z :=
  match t with U8 | S8 => 8 | U16 | S16 => 16 | U32 | S32 => 32 | U64 | S64 => 64 end.
Definition wsigned (t : wty) : bool :=
  match t with S8 | S16 | S32 | S64 => true | _ => false end.
Definition wmin (t : wty) : Z := if wsigned t then - 2 ^ (wbits t - 1) else 0.
Definition wmax (t : wty) : Z := if wsigned t then 2 ^ (wbits t - 1) - 1 else 2 ^ wbits t - 1.
Definition in_wire_range (t : wty) (z : Z) : Prop := wmin t <= z <= wmax t.
Definition in_wire_rangeb (t : wty) (z : Z) : bool := (wmin t <=? z) && (z <=? wmax t).

(* ---- names (member names, field names, message/block/variable names) ----
   Python str, kept as a list of characters (not Coq's [string], whose extracted
   type name would shadow OCaml's own string type in the driver). *)
Definition name := list ascii.
Fixpoint name_eqb (a b : name) : bool :=
  match a, b with
  | [], [] => true
  | x :: r, y :: q => Ascii.eqb x y && name_eqb r q
  | _, _ => false
  end.
Definition nm (s : string) : name := list_ascii_of_string s.

(* ---- enum / flag classes ---- *)
Definition table := list (name * Z).
Record cls := { c_iter : table; c_names : table }.

Fixpoint lookup (t : table) (n : name) : option Z :=
  match t with
  | [] => None
  | (m, v) :: r => if name_eqb m n then Some v else lookup r n
  end.

(* first member of iter(cls) equal to z : `val in iter(cls)` then `cls(val)` *)
Fixpoint by_value (t : table) (z : Z) : option name :=
  match t with
  | [] => None
  | (m, v) :: r => if v =? z then Some m else by_value r z
  end.

(* ---- values flowing through the adapters ---- *)
Inductive pelem := EName (n : name) | EInt (z : Z).

Inductive value :=
| VInt (z : Z)                      (* plain int *)
| VMember (n : name) (z : Z)      (* IntEnum member: an int subclass, name n, value z *)
| VFlag (z : Z)                     (* IntFlag instance carrying integer z *)
| VName (n : name)                (* plain-data form of an enum member *)
| VTuple (l : list pelem)           (* plain-data form of flags: names + leftover int *)
| VBool (b : bool)
| VUnser.                           (* se.UNSERIALIZABLE *)

(* the integer a value is when Python treats it as an int (isinstance(val, int)) *)
Definition as_int (v : value) : option Z :=
  match v with
  | VInt z | VMember _ z | VFlag z => Some z
  | VBool b => Some (if b then 1 else 0)
  | _ => None
  end.

(* ---- datatypes.flags_to_pod ---- *)
Definition left_over (t : table) (z : Z) : Z :=
  fold_left (fun acc e => Z.land acc (Z.lnot (snd e))) t z.

Definition set_names (t : table) (z : Z) : list pelem :=
  map (fun e => EName (fst e)) (filter (fun e => negb (Z.land z (snd e) =? 0)) t).

Definition flags_to_pod (c : cls) (z : Z) : list pelem :=
  set_names (c_iter c) z ++
  (if left_over (c_iter c) z =? 0 then [] else [EInt (left_over (c_iter c) z)]).

(* ---- se.IntFlag.encode loop: new_val |= int(flag_cls[v]) / int(v) ---- *)
Definition elem_val (c : cls) (e : pelem) : option Z :=
  match e with EName n => lookup (c_names c) n | EInt z => Some z end.

Fixpoint or_elems (c : cls) (l : list pelem) (acc : Z) : option Z :=
  match l with
  | [] => Some acc
  | e :: r => match elem_val c e with
              | Some v => or_elems c r (Z.lor acc v)
              | None => None
              end
  end.

Definition chars (s : name) : list pelem := map (fun a => EName [a]) s.

(* ---- adapters ---- *)
Inductive adapter :=
| AEnum (strict : bool) (c : cls)   (* se.IntEnum(cls, strict=...) *)
| AFlag (c : cls)                   (* se.IntFlag(cls) *)
| ABool                             (* se.BoolAdapter *)
| AIdentity                         (* se.IdentityAdapter *)
| ANibbles.                         (* templates.AttachmentStateAdapter *)

Definition rotate_nibbles (z : Z) : Z :=
  Z.lor (Z.shiftr (Z.land z 240) 4) (Z.shiftl (Z.land z (Z.lnot 240)) 4).

Definition decode (a : adapter) (pod : bool) (z : Z) : option value :=
  match a with
  | AEnum strict c =>
      match by_value (c_iter c) z with
      | Some n => Some (if pod then VName n else VMember n z)
      | None => if strict then None else Some (VInt z)
      end
  | AFlag c =>
      if pod then Some (VTuple (flags_to_pod c z))
      else if z <? 0 then Some (VInt z) else Some (VFlag z)
  | ABool => Some (VBool (negb (z =? 0)))
  | AIdentity => Some (VInt z)
  | ANibbles => Some (VInt (rotate_nibbles z))
  end.

Definition encode (a : adapter) (v : value) : option Z :=
  match a with
  | AEnum _ c =>
      match v with
      | VName n => lookup (c_names c) n
      | _ => as_int v
      end
  | AFlag c =>
      match v with
      | VTuple l => or_elems c l 0
      | VName n => or_elems c (chars n) 0      (* a str is iterated character by character *)
      | _ => as_int v
      end
  | ABool =>
      match v with
      | VInt z | VMember _ z | VFlag z => Some (if z =? 0 then 0 else 1)
      | VBool b => Some (if b then 1 else 0)
      | VName n => Some (match n with [] => 0 | _ => 1 end)
      | VTuple l => Some (match l with [] => 0 | _ => 1 end)
      | VUnser => Some 0
      end
  | AIdentity => as_int v
  | ANibbles => match as_int v with Some z => Some (rotate_nibbles z) | None => None end
  end.

(* ---- helpers.BitField + se.BitField adapter (dict of sub-values) ---- *)
Record bfield := { bf_name : name; bf_bits : Z; bf_adapter : adapter }.

Definition mask (bits : Z) : Z := 2 ^ bits - 1.

(* BitField.unpack followed by the per-entry adapter decode *)
Fixpoint bf_unpack (shift : bool) (fs : list bfield) (cur : Z) (pod : bool) (packed : Z)
  : option (list (name * value)) :=
  match fs with
  | [] => Some []
  | f :: r =>
      let raw := Z.land (Z.shiftr packed cur) (mask (bf_bits f)) in
      let raw' := if shift then raw else Z.shiftl raw cur in
      match decode (bf_adapter f) pod raw', bf_unpack shift r (cur + bf_bits f) pod packed with
      | Some v, Some rest => Some ((bf_name f, v) :: rest)
      | _, _ => None
      end
  end.

Fixpoint dict_get (d : list (name * value)) (n : name) : option value :=
  match d with
  | [] => None
  | (m, v) :: r => if name_eqb m n then Some v else dict_get r n
  end.

(* per-entry adapter encode followed by BitField.pack *)
Fixpoint bf_pack (shift : bool) (fs : list bfield) (cur : Z) (d : list (name * value)) (packed : Z)
  : option Z :=
  match fs with
  | [] => Some packed
  | f :: r =>
      match dict_get d (bf_name f) with
      | None => None                                         (* KeyError *)
      | Some v =>
          match encode (bf_adapter f) v with
          | None => None
          | Some x =>
              if shift then
                if mask (bf_bits f) <? x then None           (* ValueError: larger than max *)
                else bf_pack shift r (cur + bf_bits f) d (Z.lor packed (Z.shiftl x cur))
              else
                if negb (x =? Z.land x (Z.shiftl (mask (bf_bits f)) cur)) then None
                else bf_pack shift r (cur + bf_bits f) d (Z.lor packed x)
          end
      end
  end.

(* ---- registered subfield serializers over integer variables ---- *)
Inductive sval :=
| SV (v : value)
| SDict (d : list (name * value)).  (* dict (pod) or dataclass instance with these fields *)

Inductive serializer :=
| SEnumField (c : cls)                 (* enum_field_serializer: IntEnumSubfieldSerializer *)
| SFlagField (c : cls)                 (* flag_field_serializer: IntFlagSubfieldSerializer *)
| SAdapter (a : adapter)               (* AdapterSubfieldSerializer with a plain adapter *)
| SContext (opts : list (Z * adapter)) (dflt : option adapter)
                                       (* AdapterSubfieldSerializer + ContextAdapter keyed on a sibling int field *)
| SBitfield (shift : bool) (fs : list bfield)   (* AdapterSubfieldSerializer + BitfieldDataclass *)
| SOpaque.                             (* anything not modelled: never proved *)

Fixpoint choose (opts : list (Z * adapter)) (dflt : option adapter) (k : Z) : option adapter :=
  match opts with
  | [] => dflt
  | (k', a) :: r => if k' =? k then Some a else choose r dflt k
  end.

(* ctx: integer value of the sibling field the ContextAdapter looks at (ignored otherwise) *)
Definition s_deserialize (s : serializer) (ctx : Z) (pod : bool) (z : Z) : option sval :=
  match s with
  | SEnumField c =>
      match decode (AEnum false c) pod z with
      | Some (VInt i) => Some (SV (if pod then VUnser else VInt i))
      | Some v => Some (SV v)
      | None => None
      end
  | SFlagField c => option_map SV (decode (AFlag c) pod z)
  | SAdapter a => option_map SV (decode a pod z)
  | SContext opts dflt =>
      match choose opts dflt ctx with
      | Some a => option_map SV (decode a pod z)
      | None => None
      end
  | SBitfield shift fs => option_map SDict (bf_unpack shift fs 0 pod z)
  | SOpaque => None
  end.

Definition s_serialize (s : serializer) (ctx : Z) (v : sval) : option Z :=
  match s, v with
  | SEnumField c, SV v => encode (AEnum false c) v
  | SFlagField c, SV v => encode (AFlag c) v
  | SAdapter a, SV v => encode a v
  | SContext opts dflt, SV v =>
      match choose opts dflt ctx with
      | Some a => encode a v
      | None => None
      end
  | SBitfield shift fs, SDict d => bf_pack shift fs 0 d 0
  | SBitfield _ _, SV v => as_int v                (* `Already packed` *)
  | _, _ => None
  end.

(* The clause of C09 for integer variables.  UNSERIALIZABLE means "no pretty
   form": message_formatting._format_var then prints the raw integer itself. *)
Definition lossless_at (s : serializer) (ctx : Z) (pod : bool) (z : Z) : Prop :=
  match s_deserialize s ctx pod z with
  | Some (SV VUnser) => True
  | Some v => s_serialize s ctx v = Some z
  | None => False
  end.

Definition lossless_atb (s : serializer) (ctx : Z) (pod : bool) (z : Z) : bool :=
  match s_deserialize s ctx pod z with
  | Some (SV VUnser) => true
  | Some v => match s_serialize s ctx v with Some z' => z' =? z | None => false end
  | None => false
  end.

(* plain data: no enum-member / flag objects, only ints, names, tuples of those, bools, dicts *)
Definition plain (v : value) : bool :=
  match v with VMember _ _ | VFlag _ => false | _ => true end.
Definition plain_sval (v : sval) : bool :=
  match v with SV v => plain v | SDict d => forallb (fun kv => plain (snd kv)) d end.

(* ---- well-formedness: what a class / serializer must satisfy ---- *)
Definition is_pow2_or_zero (v : Z) : bool :=
  (v =? 0) || ((0 <? v) && (v =? 2 ^ Z.log2 v)).

(* every member that iteration yields can be looked up by its name and gives the same value *)
Definition names_agree (c : cls) : bool :=
  forallb (fun e => match lookup (c_names c) (fst e) with Some v => v =? snd e | None => false end) (c_iter c).

Definition wf_enum (c : cls) : bool := names_agree c.
Definition wf_flag (c : cls) : bool :=
  names_agree c && forallb (fun e => is_pow2_or_zero (snd e)) (c_iter c).

(* does the adapter round-trip every z with lo <= z <= hi ? (sufficient, checkable condition) *)
Definition wf_adapter (a : adapter) (lo hi : Z) : bool :=
  match a with
  | AEnum _ c => wf_enum c          (* strict enums additionally need z to be a member: see theorem *)
  | AFlag c => wf_flag c
  | ABool => (0 <=? lo) && (hi <=? 1)
  | AIdentity => true
  | ANibbles => (0 <=? lo) && (hi <=? 255)
  end.

Definition adapter_total (a : adapter) : bool :=
  match a with AEnum true _ => false | _ => true end.

Fixpoint distinct (l : list name) : bool :=
  match l with
  | [] => true
  | x :: r => negb (existsb (name_eqb x) r) && distinct r
  end.

Definition sum_bits (fs : list bfield) : Z := fold_right (fun f acc => bf_bits f + acc) 0 fs.

Definition wf_bfield (f : bfield) : bool :=
  (0 <=? bf_bits f) && adapter_total (bf_adapter f) && wf_adapter (bf_adapter f) 0 (mask (bf_bits f)).

(* unshifted bit fields (helpers.BitField(shift=False)): the entry adapter sees the field's bits
   in place, i.e. the values k * 2^cur for 0 <= k <= mask, so it must be lossless up to there *)
Fixpoint wf_bfields_u (fs : list bfield) (cur : Z) : bool :=
  match fs with
  | [] => true
  | f :: r =>
      (0 <=? bf_bits f) && adapter_total (bf_adapter f)
      && wf_adapter (bf_adapter f) 0 (Z.shiftl (mask (bf_bits f)) cur)
      && wf_bfields_u r (cur + bf_bits f)
  end.

(* a fit check: member values representable in the field (not needed for losslessness) *)
Definition enum_fits (c : cls) (t : wty) : bool :=
  forallb (fun e => in_wire_rangeb t (snd e)) (c_names c).
Definition flag_fits (c : cls) (t : wty) : bool :=
  forallb (fun e => (0 <=? snd e) && (snd e <? 2 ^ wbits t)) (c_names c).

Definition registered_ok (s : serializer) (t : wty) : bool :=
  match s with
  | SEnumField c => wf_enum c
  | SFlagField c => wf_flag c
  | SAdapter a => adapter_total a && wf_adapter a (wmin t) (wmax t)
  | SContext opts dflt =>
      forallb (fun o => adapter_total (snd o) && wf_adapter (snd o) (wmin t) (wmax t)) opts &&
      match dflt with Some a => adapter_total a && wf_adapter a (wmin t) (wmax t) | None => false end
  | SBitfield true fs =>
      negb (wsigned t) && (sum_bits fs =? wbits t) && distinct (map bf_name fs) && forallb wf_bfield fs
  | SBitfield false fs =>
      negb (wsigned t) && (sum_bits fs =? wbits t) && distinct (map bf_name fs) && wf_bfields_u fs 0
  | SOpaque => false
  end.

Definition registered_fits (s : serializer) (t : wty) : bool :=
  match s with
  | SEnumField c => enum_fits c t
  | SFlagField c => flag_fits c t
  | _ => true
  end.

(* ---- one registered (message, block, variable) key with its wire type ---- *)
Record entry := { e_msg : name; e_block : name; e_var : name; e_ser : serializer; e_ty : wty }.

Definition registry_ok (r : list entry) : bool :=
  forallb (fun e => registered_ok (e_ser e) (e_ty e)) r.
