(* C09 - the binary64 instance of DateModel's float steps (Coq primitive floats, one IEEE
   operation per Python float operation), the three known defect classes of DateAdapter as
   refutation witnesses, and an evaluation of the positive theorem's hypothesis on samples.

   Faithful for |val| < 2^53 and for larger val that are themselves binary64 values (e.g.
   whole seconds times 10^6 in datetime's range): Python divides the exact integers, this
   model converts val to a float first.  |val| >= 2^63 is treated as "out of datetime's
   range" (true for multipliers up to 10^6). *)
From Coq Require Import PrimFloat Uint63 ZArith List Ascii Bool Lia.
From HV Require Import Subfield.IntAdapters Subfield.DateModel Quant.QuantModel.
Import ListNotations.
Open Scope Z_scope.

Definition zf (z : Z) : float :=
  match z with
  | Z0 => 0%float
  | Zpos _ => of_uint63 (Uint63.of_Z z)
  | Zneg _ => (- of_uint63 (Uint63.of_Z (- z)))%float
  end.

Definition is_finite (x : float) : bool := (PrimFloat.eqb x x) && negb (PrimFloat.eqb (abs x) infinity).

(* exact integer part of a finite float (C truncation toward zero) *)
Definition float_trunc (x : float) : option Z :=
  if is_finite x then
    let (m, e) := frshiftexp (abs x) in
    let mant := Uint63.to_Z (normfr_mantissa m) in
    let sh := Uint63.to_Z e - 2101 - 53 in
    let v := if 0 <=? sh then mant * 2 ^ sh else mant / 2 ^ (- sh) in
    Some (if PrimFloat.ltb x 0 then - v else v)
  else None.

Definition pf_div (a b : Z) : float :=
  if (Z.abs a <? 2 ^ 63) then (zf a / zf b)%float else infinity.

(* pytime.c, _PyTime_DoubleToDenominator with ROUND_HALF_EVEN and denominator 1e6 *)
Definition pf_to_micros (x : float) : option Z :=
  match float_trunc x with
  | None => None
  | Some ip =>
      if Z.abs ip <? 2 ^ 50 then
        let frac := (x - zf ip)%float in                 (* modf: exact *)
        match py_round (frac * 1000000)%float with
        | Some fus =>
            let '(ip, fus) := if 1000000 <=? fus then (ip + 1, fus - 1000000)
                              else if fus <? 0 then (ip - 1, fus + 1000000) else (ip, fus) in
            Some (ip * 1000000 + fus)
        | None => None
        end
      else None
  end.

Definition pf_stamp (secs us : Z) : float := (zf secs + zf us / 1000000)%float.

Definition pf_scale_trunc (x : float) (m : Z) : option Z := float_trunc (x * zf m)%float.

Definition pf_ops : fops :=
  {| F := float; f_div := pf_div; f_to_micros := pf_to_micros; f_stamp := pf_stamp; f_scale_trunc := pf_scale_trunc |}.

(* ---- the three known defect classes of the code as it is (known findings of C09) ---- *)

(* float seconds lose a microsecond: CreationDate 1098554253192844 -> ...843 (any zone; here UTC) *)
Lemma date_subsecond_refuted :
  date_roundtrip pf_ops utc 1000000 1098554253192844 = Some 1098554253192843.
Proof. vm_compute. reflexivity. Qed.

(* integers beyond year 9999 are rejected (ValueError), e.g. 2^63 microseconds *)
Lemma date_out_of_range_refuted :
  date_decode pf_ops utc 1000000 (2 ^ 63) = None /\ date_decode pf_ops utc 1000000 (253402300800 * 1000000) = None.
Proof. vm_compute. split; reflexivity. Qed.

(* a naive local time is ambiguous when clocks are set back: under America/New_York
   1636266600 (the second 01:30 of 2021-11-07) prints as 2021-11-07T01:30:00 and reads back
   as the first one, 1636263000 *)
Definition new_york_2021 : zone := one_transition (-14400) (-18000) 1636264800.
Lemma date_dst_fold_refuted :
  date_roundtrip pf_ops new_york_2021 1 1636266600 = Some 1636263000
  /\ date_roundtrip pf_ops new_york_2021 1000000 1636266600000000 = Some 1636263000000000.
Proof. vm_compute. split; reflexivity. Qed.

(* ---- the hypothesis of DateModel.date_utc_whole_seconds, evaluated (not proved) ---- *)
Definition exact_on (mult s : Z) : bool :=
  match pf_to_micros (pf_div (s * mult) mult), pf_scale_trunc (pf_stamp s 0) mult with
  | Some a, Some b => (a =? s * 1000000) && (b =? s * mult)
  | _, _ => false
  end.

Definition second_samples : list Z :=
  [-62135596800; -62135596799; -2208988800; -86401; -86400; -1; 0; 1; 59; 86399; 86400; 951782400;
   1098554253; 1636263000; 1636266600; 2147483647; 2147483648; 4294967295; 32503680000; 253402300798; 253402300799]
  ++ map (fun k => k * 7919 * 104729 - 62135596800) (zseq 300 0).

Lemma exact_on_seconds_samples :
  forallb (fun s => negb (in_datetime_range s) || (exact_on 1 s && exact_on 1000000 s)) second_samples = true.
Proof. vm_compute. reflexivity. Qed.

(* whole seconds do round-trip in this instance (samples) *)
Lemma date_utc_samples :
  forallb (fun s => negb (in_datetime_range s) ||
                    match date_roundtrip pf_ops utc 1000000 (s * 1000000), date_roundtrip pf_ops utc 1 s with
                    | Some a, Some b => (a =? s * 1000000) && (b =? s)
                    | _, _ => false
                    end) second_samples = true.
Proof. vm_compute. reflexivity. Qed.

(* ---- agreement with the implementation (cases supplied by the translator, TZ=UTC) ---- *)
Definition opt_text_eqb (a b : option (list ascii)) : bool :=
  match a, b with
  | Some x, Some y => name_eqb x y
  | None, None => true
  | _, _ => false
  end.
Definition opt_Z_eqb (a b : option Z) : bool :=
  match a, b with Some x, Some y => x =? y | None, None => true | _, _ => false end.

(* (val, decoded text or None if decode raises, re-encoded integer or None) *)
Definition date_case_ok (mult : Z) (c : Z * option (list ascii) * option Z) : bool :=
  let '(val, txt, back) := c in
  opt_text_eqb (date_decode pf_ops utc mult val) txt &&
  opt_Z_eqb (date_roundtrip pf_ops utc mult val) back.
Definition date_agrees (mult : Z) (cases : list (Z * option (list ascii) * option Z)) : bool :=
  forallb (date_case_ok mult) cases.
Definition date_first_bad (mult : Z) (cases : list (Z * option (list ascii) * option Z)) :=
  match find (fun c => negb (date_case_ok mult c)) cases with
  | Some (val, _, _) => Some (val, date_decode pf_ops utc mult val, date_roundtrip pf_ops utc mult val)
  | None => None
  end.
