(* C09 - proofs about the integer subfield serializers of Subfield/IntAdapters.v *)
From Coq Require Import ZArith List String Ascii Bool Lia.
From HV Require Import Subfield.IntAdapters.
Import ListNotations.
Open Scope Z_scope.

(* ------------------------------------------------------------------- names *)
Lemma name_eqb_refl a : name_eqb a a = true.
Proof. induction a as [|x r IH]; cbn [name_eqb]; [reflexivity|]. now rewrite Ascii.eqb_refl. Qed.

Lemma name_eqb_eq a : forall b, name_eqb a b = true <-> a = b.
Proof.
  induction a as [|x r IH]; intros [|y q]; cbn [name_eqb]; split; try discriminate; try reflexivity.
  - intros H. apply andb_true_iff in H. destruct H as [H1 H2].
    apply Ascii.eqb_eq in H1. apply IH in H2. now subst.
  - intros H. inversion H; subst. now rewrite Ascii.eqb_refl, name_eqb_refl.
Qed.

Lemma name_eqb_sym a b : name_eqb a b = name_eqb b a.
Proof.
  destruct (name_eqb a b) eqn:E.
  - apply name_eqb_eq in E. subst. now rewrite name_eqb_refl.
  - destruct (name_eqb b a) eqn:E2; [|reflexivity].
    apply name_eqb_eq in E2. subst. now rewrite name_eqb_refl in E.
Qed.

(* ------------------------------------------------------------------ tables *)
Lemma by_value_in t z n : by_value t z = Some n -> In (n, z) t.
Proof.
  induction t as [|[m v] r IH]; cbn [by_value]; [discriminate|].
  destruct (v =? z) eqn:E.
  - intros H; inversion H; subst. apply Z.eqb_eq in E; subst. now left.
  - intros H; right; auto.
Qed.

Lemma by_value_none t z : by_value t z = None -> forall n, ~ In (n, z) t.
Proof.
  induction t as [|[m v] r IH]; cbn [by_value]; intros H n Hin; [exact Hin|].
  destruct (v =? z) eqn:E; [discriminate|].
  destruct Hin as [Hin|Hin].
  - inversion Hin; subst. rewrite Z.eqb_refl in E. discriminate.
  - exact (IH H n Hin).
Qed.

Lemma names_agree_lookup c n v :
  names_agree c = true -> In (n, v) (c_iter c) -> lookup (c_names c) n = Some v.
Proof.
  unfold names_agree. rewrite forallb_forall. intros H Hin.
  specialize (H _ Hin). cbn [fst snd] in H.
  destruct (lookup (c_names c) n) as [w|]; [|discriminate].
  apply Z.eqb_eq in H. now subst.
Qed.

(* ------------------------------------------------------------------- enums *)
Lemma enum_lossless c strict pod z v :
  wf_enum c = true ->
  decode (AEnum strict c) pod z = Some v -> encode (AEnum strict c) v = Some z.
Proof.
  intros Hwf. cbn [decode].
  destruct (by_value (c_iter c) z) as [n|] eqn:Hb.
  - apply by_value_in in Hb. intros H; inversion H; subst; clear H.
    destruct pod; cbn [encode as_int]; [|reflexivity].
    now apply names_agree_lookup.
  - destruct strict; [discriminate|]. intros H; inversion H; subst. reflexivity.
Qed.

Lemma enum_decode_total c pod z : exists v, decode (AEnum false c) pod z = Some v.
Proof. cbn [decode]. destruct (by_value (c_iter c) z); eauto. Qed.

(* strict enums accept exactly the member values *)
Lemma enum_strict_defined c pod z :
  (exists v, decode (AEnum true c) pod z = Some v) <-> (exists n, In (n, z) (c_iter c)).
Proof.
  cbn [decode]. split.
  - intros [v H]. destruct (by_value (c_iter c) z) as [n|] eqn:Hb; [|discriminate].
    exists n. now apply by_value_in.
  - intros [n Hin]. destruct (by_value (c_iter c) z) as [m|] eqn:Hb; [eauto|].
    exfalso. exact (by_value_none _ _ Hb n Hin).
Qed.

(* ------------------------------------------------------------------- flags *)
Definition all_bits (t : table) : Z := fold_right (fun e acc => Z.lor (snd e) acc) 0 t.
Definition sel (t : table) (z : Z) : Z :=
  fold_right (fun e acc => Z.lor (if Z.land z (snd e) =? 0 then 0 else snd e) acc) 0 t.

Lemma left_over_eq t : forall z, left_over t z = Z.land z (Z.lnot (all_bits t)).
Proof.
  unfold left_over. induction t as [|[n v] r IH]; intros z; cbn [fold_left all_bits fold_right snd].
  - change (Z.lnot 0) with (-1). now rewrite Z.land_m1_r.
  - rewrite IH. fold (all_bits r). rewrite Z.lnot_lor, Z.land_assoc. reflexivity.
Qed.

Lemma or_elems_app c l1 l2 acc :
  or_elems c (l1 ++ l2) acc =
  match or_elems c l1 acc with Some a => or_elems c l2 a | None => None end.
Proof.
  revert acc. induction l1 as [|e r IH]; intros acc; cbn [or_elems app]; [reflexivity|].
  destruct (elem_val c e); [apply IH|reflexivity].
Qed.

Lemma or_set_names c t z :
  (forall n v, In (n, v) t -> lookup (c_names c) n = Some v) ->
  forall acc, or_elems c (set_names t z) acc = Some (Z.lor acc (sel t z)).
Proof.
  unfold set_names. induction t as [|[n v] r IH]; intros Hl acc; cbn [filter map or_elems sel fold_right snd fst].
  - now rewrite Z.lor_0_r.
  - fold (sel r z).
    assert (Hr : forall n v, In (n, v) r -> lookup (c_names c) n = Some v)
      by (intros; apply Hl; now right).
    destruct (Z.land z v =? 0) eqn:E; cbn [negb map or_elems elem_val fst].
    + rewrite (IH Hr). now rewrite Z.lor_0_l.
    + rewrite (Hl n v (or_introl eq_refl)). rewrite (IH Hr). now rewrite Z.lor_assoc.
Qed.

Lemma land_pow2 z k : 0 <= k ->
  Z.land z (2 ^ k) = if Z.testbit z k then 2 ^ k else 0.
Proof.
  intros Hk. apply Z.bits_inj'. intros i Hi.
  rewrite Z.land_spec, Z.pow2_bits_eqb by lia.
  destruct (Z.testbit z k) eqn:Ek.
  - rewrite Z.pow2_bits_eqb by lia. destruct (k =? i) eqn:E.
    + apply Z.eqb_eq in E; subst. now rewrite Ek.
    + now rewrite andb_false_r.
  - rewrite Z.bits_0. destruct (k =? i) eqn:E.
    + apply Z.eqb_eq in E; subst. now rewrite Ek.
    + now rewrite andb_false_r.
Qed.

Lemma sel_one z v : is_pow2_or_zero v = true ->
  (if Z.land z v =? 0 then 0 else v) = Z.land z v.
Proof.
  unfold is_pow2_or_zero. intros H. apply orb_true_iff in H. destruct H as [H|H].
  - apply Z.eqb_eq in H; subst. now rewrite Z.land_0_r.
  - apply andb_true_iff in H. destruct H as [Hp He]. apply Z.ltb_lt in Hp. apply Z.eqb_eq in He.
    assert (Hk : 0 <= Z.log2 v) by apply Z.log2_nonneg.
    remember (Z.log2 v) as k eqn:Hkk. clear Hkk. subst v.
    rewrite (land_pow2 z _ Hk).
    destruct (Z.testbit z k).
    + destruct (2 ^ k =? 0) eqn:E; [|reflexivity].
      apply Z.eqb_eq in E. lia.
    + reflexivity.
Qed.

Lemma sel_eq t z :
  forallb (fun e => is_pow2_or_zero (snd e)) t = true -> sel t z = Z.land z (all_bits t).
Proof.
  induction t as [|[n v] r IH]; cbn [forallb sel all_bits fold_right snd]; intros H.
  - now rewrite Z.land_0_r.
  - apply andb_true_iff in H. destruct H as [Hv Hr].
    fold (sel r z). fold (all_bits r). rewrite (IH Hr), (sel_one z v Hv).
    now rewrite Z.land_lor_distr_r.
Qed.

Lemma split_by_mask z m : Z.lor (Z.land z m) (Z.land z (Z.lnot m)) = z.
Proof. now rewrite <- Z.land_lor_distr_r, Z.lor_lnot_diag, Z.land_m1_r. Qed.

Lemma flags_pod_lossless c z :
  wf_flag c = true -> or_elems c (flags_to_pod c z) 0 = Some z.
Proof.
  unfold wf_flag. intros H. apply andb_true_iff in H. destruct H as [Hn Hp].
  unfold flags_to_pod. rewrite or_elems_app.
  rewrite (or_set_names c (c_iter c) z (fun n v => names_agree_lookup c n v Hn)).
  rewrite Z.lor_0_l, (sel_eq _ z Hp), left_over_eq.
  destruct (Z.land z (Z.lnot (all_bits (c_iter c))) =? 0) eqn:E; cbn [or_elems elem_val].
  - apply Z.eqb_eq in E. rewrite <- (split_by_mask z (all_bits (c_iter c))) at 2.
    now rewrite E, Z.lor_0_r.
  - now rewrite split_by_mask.
Qed.

Lemma flag_lossless c pod z v :
  wf_flag c = true ->
  decode (AFlag c) pod z = Some v -> encode (AFlag c) v = Some z.
Proof.
  intros Hwf. cbn [decode]. destruct pod.
  - intros H; inversion H; subst. cbn [encode]. now apply flags_pod_lossless.
  - destruct (z <? 0); intros H; inversion H; subst; reflexivity.
Qed.

(* the pod form of flags is exactly: the names of the set members, in
   iteration order, then the bits no member accounts for *)
Lemma flags_pod_shape c z :
  flags_to_pod c z =
  set_names (c_iter c) z ++
  (if Z.land z (Z.lnot (all_bits (c_iter c))) =? 0 then []
   else [EInt (Z.land z (Z.lnot (all_bits (c_iter c))))]).
Proof. unfold flags_to_pod. now rewrite left_over_eq. Qed.

(* --------------------------------------------------------- nibble rotation *)
Fixpoint upto (n : nat) : list Z :=
  match n with O => [] | S k => Z.of_nat k :: upto k end.

Lemma upto_in n z : 0 <= z < Z.of_nat n -> In z (upto n).
Proof.
  induction n as [|k IH]; intros H; [lia|]. cbn [upto].
  destruct (Z.eq_dec z (Z.of_nat k)); [now left|right; apply IH; lia].
Qed.

Lemma nibbles_involutive z : 0 <= z <= 255 -> rotate_nibbles (rotate_nibbles z) = z.
Proof.
  intros H.
  assert (A : forallb (fun z => rotate_nibbles (rotate_nibbles z) =? z) (upto 256) = true)
    by (vm_compute; reflexivity).
  rewrite forallb_forall in A. apply Z.eqb_eq, A, upto_in. cbn. lia.
Qed.

(* ---------------------------------------------------- any modelled adapter *)
Lemma adapter_lossless a lo hi pod z :
  adapter_total a = true -> wf_adapter a lo hi = true -> lo <= z <= hi ->
  exists v, decode a pod z = Some v /\ encode a v = Some z.
Proof.
  intros Ht Hwf Hz. destruct a as [strict c|c| | |].
  - destruct strict; [discriminate|]. cbn [wf_adapter] in Hwf.
    destruct (enum_decode_total c pod z) as [v Hv]. exists v. split; [exact Hv|].
    eapply enum_lossless; eauto.
  - cbn [wf_adapter] in Hwf.
    assert (exists v, decode (AFlag c) pod z = Some v) as [v Hv]
      by (cbn [decode]; destruct pod; [eauto|destruct (z <? 0); eauto]).
    exists v. split; [exact Hv|]. eapply flag_lossless; eauto.
  - cbn [wf_adapter] in Hwf. apply andb_true_iff in Hwf. destruct Hwf as [Hl Hh].
    apply Z.leb_le in Hl, Hh. eexists. split; [reflexivity|]. cbn [encode].
    destruct (z =? 0) eqn:E; cbn [negb].
    + apply Z.eqb_eq in E. now subst.
    + apply Z.eqb_neq in E. f_equal. lia.
  - eexists. split; reflexivity.
  - cbn [wf_adapter] in Hwf. apply andb_true_iff in Hwf. destruct Hwf as [Hl Hh].
    apply Z.leb_le in Hl, Hh. eexists. split; [reflexivity|]. cbn [encode as_int].
    f_equal. apply nibbles_involutive. lia.
Qed.

(* --------------------------------------------------------------- bitfields *)
Lemma mask_ones b : mask b = Z.ones b.
Proof. unfold mask. rewrite Z.ones_equiv. lia. Qed.

Lemma land_ones_range x b : 0 <= b -> 0 <= Z.land x (mask b) <= mask b.
Proof.
  intros Hb. rewrite !mask_ones. rewrite Z.land_ones by lia. rewrite Z.ones_equiv.
  pose proof (Z.mod_pos_bound x (2 ^ b) ltac:(apply Z.pow_pos_nonneg; lia)). lia.
Qed.

Lemma split_bits z cur b s : 0 <= cur -> 0 <= b -> 0 <= s ->
  Z.lor (Z.shiftl (Z.land (Z.shiftr z cur) (Z.ones b)) cur)
        (Z.shiftl (Z.land (Z.shiftr z (cur + b)) (Z.ones s)) (cur + b))
  = Z.shiftl (Z.land (Z.shiftr z cur) (Z.ones (b + s))) cur.
Proof.
  intros Hc Hb Hs. apply Z.bits_inj'. intros i Hi.
  rewrite Z.lor_spec, !Z.shiftl_spec by lia.
  rewrite !Z.land_spec, !Z.testbit_ones by lia.
  destruct (Z.ltb_spec i cur) as [L|L].
  - rewrite !(Z.testbit_neg_r _ (i - cur)) by lia.
    rewrite (Z.testbit_neg_r _ (i - (cur + b))) by lia. reflexivity.
  - rewrite (Z.shiftr_spec z cur (i - cur)) by lia.
    replace (i - cur + cur) with i by lia.
    destruct (Z.ltb_spec i (cur + b)) as [L2|L2].
    + rewrite (Z.testbit_neg_r _ (i - (cur + b))) by lia.
      replace (0 <=? i - cur) with true by (symmetry; apply Z.leb_le; lia).
      replace (i - cur <? b) with true by (symmetry; apply Z.ltb_lt; lia).
      replace (i - cur <? b + s) with true by (symmetry; apply Z.ltb_lt; lia).
      now rewrite andb_false_l, orb_false_r.
    + rewrite (Z.shiftr_spec z (cur + b) (i - (cur + b))) by lia.
      replace (i - (cur + b) + (cur + b)) with i by lia.
      replace (0 <=? i - cur) with true by (symmetry; apply Z.leb_le; lia).
      replace (0 <=? i - (cur + b)) with true by (symmetry; apply Z.leb_le; lia).
      replace (i - cur <? b) with false by (symmetry; apply Z.ltb_ge; lia).
      replace (i - (cur + b) <? s) with (i - cur <? b + s)
        by (destruct (Z.ltb_spec (i - cur) (b + s)); symmetry; [apply Z.ltb_lt|apply Z.ltb_ge]; lia).
      now rewrite andb_false_r, orb_false_l.
Qed.

Lemma dict_get_app_notin pre n v rest :
  existsb (name_eqb n) (map fst pre) = false ->
  dict_get (pre ++ (n, v) :: rest) n = Some v.
Proof.
  induction pre as [|[m w] r IH]; cbn [map existsb app dict_get fst].
  - now rewrite name_eqb_refl.
  - intros H. apply orb_false_iff in H. destruct H as [H1 H2].
    rewrite name_eqb_sym in H1. rewrite H1. now apply IH.
Qed.

Lemma sum_bits_nonneg fs : forallb wf_bfield fs = true -> 0 <= sum_bits fs.
Proof.
  induction fs as [|f r IH]; cbn [forallb sum_bits fold_right]; [lia|].
  intros H. apply andb_true_iff in H. destruct H as [Hf Hr].
  unfold wf_bfield in Hf. apply andb_true_iff in Hf. destruct Hf as [Hf _].
  apply andb_true_iff in Hf. destruct Hf as [Hf _]. apply Z.leb_le in Hf.
  specialize (IH Hr). fold (sum_bits r). lia.
Qed.

Lemma bf_pack_unpack pod z : forall fs cur d pre acc,
  0 <= cur ->
  forallb wf_bfield fs = true ->
  distinct (map bf_name fs) = true ->
  (forall f, In f fs -> existsb (name_eqb (bf_name f)) (map fst pre) = false) ->
  bf_unpack true fs cur pod z = Some d ->
  bf_pack true fs cur (pre ++ d) acc =
  Some (Z.lor acc (Z.shiftl (Z.land (Z.shiftr z cur) (Z.ones (sum_bits fs))) cur)).
Proof.
  induction fs as [|f r IH]; intros cur d pre acc Hc Hwf Hd Hpre Hu.
  - cbn [bf_pack sum_bits fold_right]. cbn [Z.ones]. rewrite Z.land_0_r, Z.shiftl_0_l, Z.lor_0_r. reflexivity.
  - cbn [bf_unpack] in Hu. cbn [forallb] in Hwf. apply andb_true_iff in Hwf. destruct Hwf as [Hf Hr].
    pose proof (sum_bits_nonneg r Hr) as Hsr.
    unfold wf_bfield in Hf. apply andb_true_iff in Hf. destruct Hf as [Hf Hwa].
    apply andb_true_iff in Hf. destruct Hf as [Hb Htot]. apply Z.leb_le in Hb.
    cbn [map distinct] in Hd. apply andb_true_iff in Hd. destruct Hd as [Hnot Hd].
    apply negb_true_iff in Hnot.
    set (raw := Z.land (Z.shiftr z cur) (mask (bf_bits f))) in *.
    assert (Hraw : 0 <= raw <= mask (bf_bits f))
      by (unfold raw; apply land_ones_range; lia).
    destruct (adapter_lossless (bf_adapter f) 0 (mask (bf_bits f)) pod raw Htot Hwa Hraw) as [v [Hdec Henc]].
    rewrite Hdec in Hu.
    destruct (bf_unpack true r (cur + bf_bits f) pod z) as [rest|] eqn:Hrest; [|discriminate].
    inversion Hu; subst d; clear Hu.
    cbn [bf_pack]. rewrite (dict_get_app_notin pre (bf_name f) v rest (Hpre f (or_introl eq_refl))).
    rewrite Henc.
    destruct (mask (bf_bits f) <? raw) eqn:E; [apply Z.ltb_lt in E; lia|].
    replace (pre ++ (bf_name f, v) :: rest) with ((pre ++ [(bf_name f, v)]) ++ rest)
      by (now rewrite <- app_assoc).
    rewrite (IH (cur + bf_bits f) rest (pre ++ [(bf_name f, v)]) _ ltac:(lia) Hr Hd).
    + f_equal. rewrite <- Z.lor_assoc. f_equal.
      cbn [sum_bits fold_right]. fold (sum_bits r).
      unfold raw. rewrite mask_ones. apply split_bits; lia.
    + intros g Hg. rewrite map_app, existsb_app. cbn [map fst existsb].
      rewrite (Hpre g (or_intror Hg)), orb_false_r. cbn [orb].
      (* bf_name g <> bf_name f since f's name does not occur among r *)
      destruct (name_eqb (bf_name g) (bf_name f)) eqn:E2; [|reflexivity].
      apply name_eqb_eq in E2.
      assert (existsb (name_eqb (bf_name f)) (map bf_name r) = true).
      { apply existsb_exists. exists (bf_name g). split; [now apply in_map|].
        rewrite E2. apply name_eqb_refl. }
      congruence.
    + exact Hrest.
Qed.

Lemma bf_unpack_total pod z : forall fs cur,
  0 <= cur -> forallb wf_bfield fs = true ->
  exists d, bf_unpack true fs cur pod z = Some d.
Proof.
  induction fs as [|f r IH]; intros cur Hc Hwf; cbn [bf_unpack]; [eauto|].
  cbn [forallb] in Hwf. apply andb_true_iff in Hwf. destruct Hwf as [Hf Hr].
  unfold wf_bfield in Hf. apply andb_true_iff in Hf. destruct Hf as [Hf Hwa].
  apply andb_true_iff in Hf. destruct Hf as [Hb Htot]. apply Z.leb_le in Hb.
  set (raw := Z.land (Z.shiftr z cur) (mask (bf_bits f))).
  assert (Hraw : 0 <= raw <= mask (bf_bits f))
    by (unfold raw; apply land_ones_range; lia).
  destruct (adapter_lossless (bf_adapter f) 0 (mask (bf_bits f)) pod raw Htot Hwa Hraw) as [v [Hdec _]].
  rewrite Hdec. destruct (IH (cur + bf_bits f) ltac:(lia) Hr) as [rest Hrest]. rewrite Hrest. eauto.
Qed.

(* unshifted bit fields *)
Lemma wf_bfields_u_nonneg fs : forall cur, wf_bfields_u fs cur = true -> 0 <= sum_bits fs.
Proof.
  induction fs as [|f r IH]; intros cur; cbn [wf_bfields_u sum_bits fold_right]; [lia|].
  intros H. apply andb_true_iff in H. destruct H as [H Hr].
  apply andb_true_iff in H. destruct H as [H _]. apply andb_true_iff in H. destruct H as [Hb _].
  apply Z.leb_le in Hb. specialize (IH _ Hr). fold (sum_bits r). lia.
Qed.

Lemma shifted_range raw b cur : 0 <= cur -> 0 <= raw <= mask b ->
  0 <= Z.shiftl raw cur <= Z.shiftl (mask b) cur.
Proof.
  intros Hc Hr. rewrite !Z.shiftl_mul_pow2 by lia.
  assert (0 < 2 ^ cur) by (apply Z.pow_pos_nonneg; lia). nia.
Qed.

Lemma shifted_fits raw b cur : 0 <= cur -> 0 <= b -> raw = Z.land raw (mask b) ->
  Z.shiftl raw cur = Z.land (Z.shiftl raw cur) (Z.shiftl (mask b) cur).
Proof. intros Hc Hb Hr. rewrite <- Z.shiftl_land. now rewrite <- Hr. Qed.

Lemma bf_pack_unpack_u pod z : forall fs cur d pre acc,
  0 <= cur ->
  wf_bfields_u fs cur = true ->
  distinct (map bf_name fs) = true ->
  (forall f, In f fs -> existsb (name_eqb (bf_name f)) (map fst pre) = false) ->
  bf_unpack false fs cur pod z = Some d ->
  bf_pack false fs cur (pre ++ d) acc =
  Some (Z.lor acc (Z.shiftl (Z.land (Z.shiftr z cur) (Z.ones (sum_bits fs))) cur)).
Proof.
  induction fs as [|f r IH]; intros cur d pre acc Hc Hwf Hd Hpre Hu.
  - cbn [bf_pack sum_bits fold_right]. cbn [Z.ones]. rewrite Z.land_0_r, Z.shiftl_0_l, Z.lor_0_r. reflexivity.
  - cbn [bf_unpack] in Hu. cbn [wf_bfields_u] in Hwf. apply andb_true_iff in Hwf. destruct Hwf as [Hf Hr].
    pose proof (wf_bfields_u_nonneg r _ Hr) as Hsr.
    apply andb_true_iff in Hf. destruct Hf as [Hf Hwa].
    apply andb_true_iff in Hf. destruct Hf as [Hb Htot]. apply Z.leb_le in Hb.
    cbn [map distinct] in Hd. apply andb_true_iff in Hd. destruct Hd as [Hnot Hd].
    apply negb_true_iff in Hnot.
    set (raw := Z.land (Z.shiftr z cur) (mask (bf_bits f))) in *.
    assert (Hraw : 0 <= raw <= mask (bf_bits f))
      by (unfold raw; apply land_ones_range; lia).
    assert (Hidem : raw = Z.land raw (mask (bf_bits f)))
      by (unfold raw; now rewrite <- Z.land_assoc, Z.land_diag).
    pose proof (shifted_range raw (bf_bits f) cur Hc Hraw) as Hsh.
    destruct (adapter_lossless (bf_adapter f) 0 _ pod (Z.shiftl raw cur) Htot Hwa Hsh) as [v [Hdec Henc]].
    rewrite Hdec in Hu.
    destruct (bf_unpack false r (cur + bf_bits f) pod z) as [rest|] eqn:Hrest; [|discriminate].
    inversion Hu; subst d; clear Hu.
    cbn [bf_pack]. rewrite (dict_get_app_notin pre (bf_name f) v rest (Hpre f (or_introl eq_refl))).
    rewrite Henc.
    rewrite <- (shifted_fits raw (bf_bits f) cur Hc Hb Hidem), Z.eqb_refl. cbn [negb].
    replace (pre ++ (bf_name f, v) :: rest) with ((pre ++ [(bf_name f, v)]) ++ rest)
      by (now rewrite <- app_assoc).
    rewrite (IH (cur + bf_bits f) rest (pre ++ [(bf_name f, v)]) _ ltac:(lia) Hr Hd).
    + f_equal. rewrite <- Z.lor_assoc. f_equal.
      cbn [sum_bits fold_right]. fold (sum_bits r).
      unfold raw. rewrite mask_ones. apply split_bits; lia.
    + intros g Hg. rewrite map_app, existsb_app. cbn [map fst existsb].
      rewrite (Hpre g (or_intror Hg)), orb_false_r. cbn [orb].
      destruct (name_eqb (bf_name g) (bf_name f)) eqn:E2; [|reflexivity].
      apply name_eqb_eq in E2.
      assert (existsb (name_eqb (bf_name f)) (map bf_name r) = true).
      { apply existsb_exists. exists (bf_name g). split; [now apply in_map|].
        rewrite E2. apply name_eqb_refl. }
      congruence.
    + exact Hrest.
Qed.

Lemma bf_unpack_total_u pod z : forall fs cur,
  0 <= cur -> wf_bfields_u fs cur = true ->
  exists d, bf_unpack false fs cur pod z = Some d.
Proof.
  induction fs as [|f r IH]; intros cur Hc Hwf; cbn [bf_unpack]; [eauto|].
  cbn [wf_bfields_u] in Hwf. apply andb_true_iff in Hwf. destruct Hwf as [Hf Hr].
  apply andb_true_iff in Hf. destruct Hf as [Hf Hwa].
  apply andb_true_iff in Hf. destruct Hf as [Hb Htot]. apply Z.leb_le in Hb.
  set (raw := Z.land (Z.shiftr z cur) (mask (bf_bits f))).
  assert (Hraw : 0 <= raw <= mask (bf_bits f))
    by (unfold raw; apply land_ones_range; lia).
  pose proof (shifted_range raw (bf_bits f) cur Hc Hraw) as Hsh.
  destruct (adapter_lossless (bf_adapter f) 0 _ pod (Z.shiftl raw cur) Htot Hwa Hsh) as [v [Hdec _]].
  rewrite Hdec. destruct (IH (cur + bf_bits f) ltac:(lia) Hr) as [rest Hrest]. rewrite Hrest. eauto.
Qed.

(* ------------------------------------------------ the registered serializers *)
Lemma wire_range_unsigned t z :
  wsigned t = false -> in_wire_range t z -> 0 <= z < 2 ^ wbits t.
Proof. unfold in_wire_range, wmin, wmax. intros ->. lia. Qed.

Theorem int_lossless s t :
  registered_ok s t = true ->
  forall ctx pod z, in_wire_range t z -> lossless_at s ctx pod z.
Proof.
  intros Hok ctx pod z Hz. unfold lossless_at.
  destruct s as [c|c|a|opts dflt|shift fs|]; cbn [registered_ok] in Hok.
  - (* enum field *)
    cbn [s_deserialize].
    destruct (enum_decode_total c pod z) as [v Hv]. rewrite Hv.
    pose proof (enum_lossless c false pod z v Hok Hv) as He.
    destruct v; try exact He; try exact I.
    destruct pod; [exact I|exact He].
  - (* flag field *)
    cbn [s_deserialize].
    destruct (decode (AFlag c) pod z) as [v|] eqn:Hv.
    + cbn [option_map]. pose proof (flag_lossless c pod z v Hok Hv) as He.
      cbn [decode] in Hv. destruct pod.
      * inversion Hv; subst. exact He.
      * destruct (z <? 0); inversion Hv; subst; exact He.
    + cbn [decode] in Hv. destruct pod; [discriminate|destruct (z <? 0); discriminate].
  - (* plain adapter *)
    apply andb_true_iff in Hok. destruct Hok as [Ht Hw].
    destruct (adapter_lossless a _ _ pod z Ht Hw Hz) as [v [Hd He]].
    cbn [s_deserialize]. rewrite Hd. cbn [option_map s_serialize].
    destruct a as [strict c|c| | |]; cbn [decode] in Hd.
    + destruct (by_value (c_iter c) z); [destruct pod|destruct strict]; inversion Hd; subst; exact He.
    + destruct pod; [|destruct (z <? 0)]; inversion Hd; subst; exact He.
    + inversion Hd; subst; exact He.
    + inversion Hd; subst; exact He.
    + inversion Hd; subst; exact He.
  - (* context adapter *)
    apply andb_true_iff in Hok. destruct Hok as [Hopts Hd].
    assert (Hc : exists a, choose opts dflt ctx = Some a /\
                           adapter_total a = true /\ wf_adapter a (wmin t) (wmax t) = true).
    { clear Hz. induction opts as [|[k a] r IH]; cbn [choose].
      - destruct dflt as [a|]; [|discriminate]. apply andb_true_iff in Hd. destruct Hd. eauto.
      - cbn [forallb snd] in Hopts. apply andb_true_iff in Hopts. destruct Hopts as [Ha Hr].
        destruct (k =? ctx); [|now apply IH].
        apply andb_true_iff in Ha. destruct Ha. eauto. }
    destruct Hc as [a [Hch [Ht Hw]]].
    destruct (adapter_lossless a _ _ pod z Ht Hw Hz) as [v [Hdec He]].
    cbn [s_deserialize]. rewrite Hch, Hdec. cbn [option_map s_serialize]. rewrite Hch.
    destruct a as [strict c|c| | |]; cbn [decode] in Hdec.
    + destruct (by_value (c_iter c) z); [destruct pod|destruct strict]; inversion Hdec; subst; exact He.
    + destruct pod; [|destruct (z <? 0)]; inversion Hdec; subst; exact He.
    + inversion Hdec; subst; exact He.
    + inversion Hdec; subst; exact He.
    + inversion Hdec; subst; exact He.
  - (* bitfield dataclass *)
    destruct shift.
    2:{ apply andb_true_iff in Hok. destruct Hok as [Hok Hwf].
        apply andb_true_iff in Hok. destruct Hok as [Hok Hdis].
        apply andb_true_iff in Hok. destruct Hok as [Hsg Hsum].
        apply negb_true_iff in Hsg. apply Z.eqb_eq in Hsum.
        pose proof (wire_range_unsigned t z Hsg Hz) as Hr.
        cbn [s_deserialize].
        destruct (bf_unpack_total_u pod z fs 0 ltac:(lia) Hwf) as [d Hd]. rewrite Hd.
        cbn [option_map s_serialize].
        pose proof (bf_pack_unpack_u pod z fs 0 d [] 0 ltac:(lia) Hwf Hdis (fun _ _ => eq_refl) Hd) as Hp.
        cbn [app] in Hp. rewrite Hp.
        rewrite Z.lor_0_l, Z.shiftl_0_r, Z.shiftr_0_r, Hsum.
        rewrite Z.land_ones by (destruct t; cbn; lia).
        rewrite Z.mod_small by lia. reflexivity. }
    apply andb_true_iff in Hok. destruct Hok as [Hok Hwf].
    apply andb_true_iff in Hok. destruct Hok as [Hok Hdis].
    apply andb_true_iff in Hok. destruct Hok as [Hsg Hsum].
    apply negb_true_iff in Hsg. apply Z.eqb_eq in Hsum.
    pose proof (wire_range_unsigned t z Hsg Hz) as Hr.
    cbn [s_deserialize].
    destruct (bf_unpack_total pod z fs 0 ltac:(lia) Hwf) as [d Hd]. rewrite Hd.
    cbn [option_map s_serialize].
    pose proof (bf_pack_unpack pod z fs 0 d [] 0 ltac:(lia) Hwf Hdis (fun _ _ => eq_refl) Hd) as Hp.
    cbn [app] in Hp. rewrite Hp.
    rewrite Z.lor_0_l, Z.shiftl_0_r, Z.shiftr_0_r, Hsum.
    rewrite Z.land_ones by (destruct t; cbn; lia).
    rewrite Z.mod_small by lia. reflexivity.
  - discriminate.
Qed.

(* the plain-data form never contains enum / flag objects *)
Lemma decode_pod_plain a z v : decode a true z = Some v -> plain v = true.
Proof.
  destruct a as [strict c|c| | |]; cbn [decode]; intros H.
  - destruct (by_value (c_iter c) z); [|destruct strict]; inversion H; reflexivity.
  - inversion H; reflexivity.
  - inversion H; reflexivity.
  - inversion H; reflexivity.
  - inversion H; reflexivity.
Qed.

Lemma bf_unpack_pod_plain shift z : forall fs cur d,
  bf_unpack shift fs cur true z = Some d -> forallb (fun kv => plain (snd kv)) d = true.
Proof.
  induction fs as [|f r IH]; intros cur d H; cbn [bf_unpack] in H.
  - inversion H; reflexivity.
  - destruct (decode (bf_adapter f) true _) as [v|] eqn:Hd; [|discriminate].
    destruct (bf_unpack shift r (cur + bf_bits f) true z) as [rest|] eqn:Hr; [|discriminate].
    inversion H; subst. cbn [forallb snd]. rewrite (decode_pod_plain _ _ _ Hd). exact (IH _ _ Hr).
Qed.

Theorem pod_is_plain s ctx z v : s_deserialize s ctx true z = Some v -> plain_sval v = true.
Proof.
  destruct s as [c|c|a|opts dflt|shift fs|]; cbn [s_deserialize]; intros H.
  - destruct (decode (AEnum false c) true z) as [w|] eqn:Hd; [|discriminate].
    pose proof (decode_pod_plain _ _ _ Hd) as Hp.
    destruct w; inversion H; subst; try exact Hp; reflexivity.
  - destruct (decode (AFlag c) true z) as [w|] eqn:Hd; [|discriminate].
    inversion H; subst. exact (decode_pod_plain _ _ _ Hd).
  - destruct (decode a true z) as [w|] eqn:Hd; [|discriminate].
    inversion H; subst. exact (decode_pod_plain _ _ _ Hd).
  - destruct (choose opts dflt ctx) as [a|]; [|discriminate].
    destruct (decode a true z) as [w|] eqn:Hd; [|discriminate].
    inversion H; subst. exact (decode_pod_plain _ _ _ Hd).
  - destruct (bf_unpack shift fs 0 true z) as [d|] eqn:Hd; [|discriminate].
    inversion H; subst. exact (bf_unpack_pod_plain _ _ _ _ _ Hd).
  - discriminate.
Qed.

(* boolean reading, used by the generated per-key obligations *)
Lemma lossless_atb_spec s ctx pod z : lossless_atb s ctx pod z = true <-> lossless_at s ctx pod z.
Proof.
  unfold lossless_atb, lossless_at.
  destruct (s_deserialize s ctx pod z) as [[v|d]|].
  - destruct v; try (destruct (s_serialize s ctx _) as [z'|];
      [rewrite Z.eqb_eq; split; [intros ->; reflexivity|intros H; now inversion H]
      |split; [discriminate|discriminate]]).
    split; auto.
  - destruct (s_serialize s ctx (SDict d)) as [z'|].
    + rewrite Z.eqb_eq. split; [intros ->; reflexivity|intros H; now inversion H].
    + split; discriminate.
  - split; [discriminate|intros []].
Qed.

(* -------- the hypotheses are needed: refutations for ill-formed classes ---- *)
Local Open Scope string_scope.
(* a multi-bit flag member breaks the plain-data form: 1 -> ("AB",) -> 3 *)
Definition bad_multibit : cls := {| c_iter := [(nm "AB", 3%Z)]; c_names := [(nm "AB", 3%Z)] |}.
Lemma multibit_refuted : ~ lossless_at (SFlagField bad_multibit) 0 true 1.
Proof. vm_compute. intros H. discriminate H. Qed.

(* BoolAdapter on a field wider than one bit loses the value *)
Lemma bool_wide_refuted : ~ lossless_at (SAdapter ABool) 0 false 2.
Proof. vm_compute. intros H. discriminate H. Qed.

(* the nibble rotation is not an involution beyond 8 bits *)
Lemma nibbles_wide_refuted : ~ lossless_at (SAdapter ANibbles) 0 false 4096.
Proof. vm_compute. intros H. discriminate H. Qed.

(* a bitfield over a signed variable loses negative values *)
Definition bf_demo : list bfield :=
  [ {| bf_name := nm "PacketID"; bf_bits := 31; bf_adapter := AIdentity |};
    {| bf_name := nm "IsEOF"; bf_bits := 1; bf_adapter := ABool |} ].
Lemma bitfield_signed_refuted : ~ lossless_at (SBitfield true bf_demo) 0 false (-1).
Proof. vm_compute. intros H. discriminate H. Qed.

Theorem registry_lossless r :
  registry_ok r = true ->
  forall e, In e r ->
  forall ctx pod z, in_wire_range (e_ty e) z -> lossless_at (e_ser e) ctx pod z.
Proof.
  unfold registry_ok. rewrite forallb_forall. intros H e He ctx pod z Hz.
  apply (int_lossless (e_ser e) (e_ty e) (H e He)). exact Hz.
Qed.
